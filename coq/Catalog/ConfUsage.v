(* The config-entry usage counters (config-entries-<kind>) of the catalog model equal the number of
   entries of that kind, in every reachable state.  Two parts:
   - a frame: only a config-entry write / delete changes the config-entry table, and it stores an
     entry under the key (its own kind, its name), so the key of every stored entry names its kind;
   - what commit adds to a config-entry counter is the change of the recomputed count (an update in
     place keeps the entry's kind, because of the key invariant, and adds nothing). *)
From stdpp Require Import gmap strings.
From RecordUpdate Require Import RecordSet.
From Coq Require Import NArith ZArith Lia.
From Verif Require Import Catalog.Model Catalog.Frames Catalog.Spec Catalog.KindNames Catalog.Usage.
Import RecordSetNotations.
Local Open Scope N_scope.

(* ---------- the frame: who writes the config-entry table ---------- *)
Definition same_confs (a b : st) : Prop := confs a = confs b.

Lemma skc_confs a b : same_skc a b -> same_confs a b.
Proof. intros (_ & H & _). exact H. Qed.

Lemma upsert_ksn_confs k n s : confs (upsert_ksn k n s) = confs s.
Proof. reflexivity. Qed.
Lemma cleanup_ksn_confs k n s : confs (cleanup_ksn k n s) = confs s.
Proof. reflexivity. Qed.

Lemma foldl_confs {A} (g : st -> A -> st) l :
  (forall s x, same_confs (g s x) s) -> forall s, same_confs (foldl g s l) s.
Proof.
  intros Hg. induction l as [|x l IH]; intros s; cbn; [reflexivity|].
  unfold same_confs in *. rewrite IH. apply Hg.
Qed.

Lemma ensure_service_confs idx nd r s s' : ensure_service idx nd r s = Ok s' -> same_confs s' s.
Proof.
  unfold ensure_service, same_confs. intros He.
  set (s1 := if bool_decide (sr_kind r = KTypical) && negb (bool_decide (sr_name r = consul_name)) then _ else s) in He.
  assert (H1 : confs s1 = confs s).
  { subst s1. destruct (bool_decide (sr_kind r = KTypical) && negb (bool_decide (sr_name r = consul_name))); [|reflexivity].
    apply skc_confs. eapply same_skc_trans; [apply check_gateway_and_update_skc|apply check_gateway_wildcards_and_update_skc]. }
  clearbody s1.
  set (s2 := upsert_ksn _ _ s1) in He.
  assert (H2 : confs s2 = confs s) by (subst s2; cbn; exact H1).
  clearbody s2.
  apply res_bind_ok in He as ([vip s7] & E3 & He).
  assert (H7 : confs s7 = confs s).
  { destruct (is_connect r); [|injection E3 as _ <-; exact H2].
    cbn zeta in E3.
    set (s4 := check_gateway_wildcards_and_update _ _ _ _) in E3.
    assert (H4 : confs s4 = confs s).
    { subst s4. rewrite <- H2. apply skc_confs.
      eapply same_skc_trans; [apply check_gateway_wildcards_and_update_skc|apply update_mesh_topology_skc]. }
    clearbody s4.
    set (s5 := if bool_decide (connect_target r = "") then s4 else _) in E3.
    assert (H5 : confs s5 = confs s) by (subst s5; destruct (bool_decide (connect_target r = "")); cbn; exact H4).
    clearbody s5.
    destruct (vips_on s5 && negb (bool_decide (connect_target r = ""))); [|injection E3 as _ <-; exact H5].
    apply res_bind_ok in E3 as ([ip s6] & Ea & E3). injection E3 as _ <-.
    destruct (assign_vip_skc _ _ _ _ Ea) as (_ & A2 & _). rewrite A2. exact H5. }
  destruct (nodes s7 !! nd); [|discriminate].
  destruct (services s !! (nd, sr_id r)) as [x|].
  - destruct (same_service x r vip); injection He as <-; cbn; exact H7.
  - injection He as <-. cbn. exact H7.
Qed.

Lemma delete_service_confs nd sid s : same_confs (delete_service nd sid s) s.
Proof.
  unfold delete_service, same_confs. destruct (services s !! (nd, sid)) as [v|]; [|reflexivity].
  set (s1 := foldl _ s _).
  assert (H1 : confs s1 = confs s) by (apply foldl_confs; intros; reflexivity). clearbody s1.
  set (s3 := cleanup_mesh_topology nd sid v (s1 <| services ::= delete (nd, sid) |>)).
  assert (H3 : confs s3 = confs s).
  { subst s3. destruct (cleanup_mesh_topology_skc nd sid v (s1 <| services ::= delete (nd, sid) |>)) as (_ & A2 & _).
    rewrite A2. cbn. exact H1. }
  clearbody s3.
  set (s4 := if has_instance (sv_name v) s3 then (if has_instance_kind (sv_name v) (sv_kind v) s3 then s3 else _) else _).
  assert (H4 : confs s4 = confs s).
  { subst s4. destruct (has_instance (sv_name v) s3).
    - destruct (has_instance_kind (sv_name v) (sv_kind v) s3); cbn; exact H3.
    - cbn. destruct (free_vip_skc (sv_name v) s3) as (_ & F2 & _). rewrite F2. exact H3. }
  clearbody s4.
  set (s5 := match connect_name v with Some sn => _ | None => s4 end).
  assert (H5 : confs s5 = confs s).
  { subst s5. destruct (connect_name v) as [sn|]; [|exact H4].
    destruct (has_connect_instance sn s4); [exact H4|].
    destruct (cleanup_gateway_wildcards_skc sn false (cleanup_ksn connect_enabled sn s4)) as (_ & C2 & _).
    rewrite C2. cbn. exact H4. }
  clearbody s5.
  destruct (cleanup_gateway_wildcards_skc (sv_name v) false s5) as (_ & C2 & _). rewrite C2. exact H5.
Qed.

Lemma delete_node_confs nd s : same_confs (delete_node nd s) s.
Proof.
  unfold delete_node, same_confs. destruct (nodes s !! nd); [|reflexivity].
  set (s1 := foldl _ s _).
  assert (H1 : confs s1 = confs s) by (apply foldl_confs; intros; apply delete_service_confs). clearbody s1.
  set (s2 := foldl _ s1 _).
  assert (H2 : confs s2 = confs s1) by (apply foldl_confs; intros; reflexivity). clearbody s2.
  cbn. rewrite H2. exact H1.
Qed.

Lemma ensure_node_confs idx nd id addr s s' : ensure_node idx nd id addr s = Ok s' -> same_confs s' s.
Proof.
  unfold ensure_node, same_confs. intros He. apply res_bind_ok in He as ([n0 s1] & E1 & E2).
  assert (H1 : confs s1 = confs s).
  { destruct (bool_decide (id = "")); [injection E1 as _ <-; reflexivity|].
    destruct (node_by_id id s) as [[oname on]|].
    - destruct (bool_decide (oname = nd)); [injection E1 as _ <-; reflexivity|].
      destruct (similar_clash false nd id s); [discriminate|]. injection E1 as _ <-. apply delete_node_confs.
    - destruct (similar_clash true nd id s); [discriminate|]. injection E1 as _ <-; reflexivity. }
  cbn zeta in E2. destruct (match n0 with Some x => Some x | None => nodes s1 !! nd end) as [x|].
  - destruct (_ && _); injection E2 as <-; cbn; exact H1.
  - injection E2 as <-. cbn. exact H1.
Qed.

Lemma ensure_check_confs idx c s s' : ensure_check idx c s = Ok s' -> same_confs s' s.
Proof.
  unfold ensure_check, same_confs. destruct (nodes s !! cr_node c); [|discriminate].
  intros He. apply res_bind_ok in He as (svcname & _ & He).
  destruct (checks s !! _) as [x|]; [destruct (_ && _)|]; injection He as <-; reflexivity.
Qed.

Lemma rfold_confs {A} (f : st -> A -> res st) l :
  (forall x a b, f a x = Ok b -> same_confs b a) -> forall s s', rfold f l s = Ok s' -> same_confs s' s.
Proof.
  intros Hf. induction l as [|x l IH]; intros s s'; cbn [rfold]; [intros [= <-]; reflexivity|].
  intros Hr. apply res_bind_ok in Hr as (s1 & E & Hr). unfold same_confs in *.
  rewrite (IH _ _ Hr). apply (Hf _ _ _ E).
Qed.

Lemma ensure_registration_confs idx nd id addr skip sv cks s s' :
  ensure_registration idx nd id addr skip sv cks s = Ok s' -> same_confs s' s.
Proof.
  unfold ensure_registration, same_confs. intros He.
  apply res_bind_ok in He as (s1 & E1 & He). apply res_bind_ok in He as (s2 & E2 & He).
  assert (H1 : confs s1 = confs s).
  { destruct (changes_node _ _ _ _); [apply (ensure_node_confs _ _ _ _ _ _ E1)|injection E1 as <-; reflexivity]. }
  assert (H2 : confs s2 = confs s).
  { rewrite <- H1. destruct sv as [r|]; [|injection E2 as <-; reflexivity].
    destruct (services s1 !! (nd, sr_id r)) as [x|].
    - destruct (_ && _); [injection E2 as <-; reflexivity|apply (ensure_service_confs _ _ _ _ _ E2)].
    - apply (ensure_service_confs _ _ _ _ _ E2). }
  rewrite <- H2. revert He. apply rfold_confs. intros c a b. destruct (bool_decide _); [|discriminate]. apply ensure_check_confs.
Qed.

Lemma txn_op_confs idx op s s' : txn_op idx op s = Ok s' -> same_confs s' s.
Proof.
  destruct op; cbn [txn_op].
  - destruct v; intros He.
    + destruct (bool_decide (id = "")); destruct (bool_decide _); try discriminate; injection He as <-; reflexivity.
    + apply (ensure_node_confs _ _ _ _ _ _ He).
    + destruct (cas_ok _ _ _); [apply (ensure_node_confs _ _ _ _ _ _ He)|discriminate].
    + injection He as <-. apply delete_node_confs.
    + destruct (nodes s !! nd); [|discriminate]. destruct (bool_decide _); [|discriminate]. injection He as <-. apply delete_node_confs.
  - destruct v; intros He.
    + destruct (bool_decide _); [|discriminate]. injection He as <-; reflexivity.
    + apply (ensure_service_confs _ _ _ _ _ He).
    + destruct (cas_ok _ _ _); [apply (ensure_service_confs _ _ _ _ _ He)|discriminate].
    + injection He as <-. apply delete_service_confs.
    + destruct (services s !! _); [|discriminate]. destruct (bool_decide _); [|discriminate]. injection He as <-. apply delete_service_confs.
  - destruct v; intros He.
    + destruct (bool_decide _); [|discriminate]. injection He as <-; reflexivity.
    + apply (ensure_check_confs _ _ _ _ He).
    + destruct (cas_ok _ _ _); [apply (ensure_check_confs _ _ _ _ He)|discriminate].
    + injection He as <-. reflexivity.
    + destruct (checks s !! _); [|discriminate]. destruct (bool_decide _); [|discriminate]. injection He as <-. reflexivity.
Qed.

Lemma txn_dispatch_confs idx ops : forall i s s', txn_dispatch idx i ops s = inl s' -> same_confs s' s.
Proof.
  induction ops as [|op ops IH]; intros i s s'; cbn; [intros [= <-]; reflexivity|].
  destruct (txn_op idx op s) as [s1|e] eqn:E; [|discriminate].
  intros Hd. unfold same_confs in *. rewrite (IH _ _ _ Hd). apply (txn_op_confs _ _ _ _ E).
Qed.

(* a config-entry write stores the entry under (its kind, its name) and touches no other entry *)
Lemma conf_set_confs name c s s' : conf_set name c s = Ok s' -> confs s' = <[(conf_kind c, name) := c]> (confs s).
Proof.
  unfold conf_set. intros He.
  set (s1 := match c with CTermGW _ | CIngressGW _ => update_gateway_services name c s | _ => s end) in He.
  assert (H1 : confs s1 = confs s).
  { subst s1. destruct c; try reflexivity; apply skc_confs, update_gateway_services_skc. }
  clearbody s1.
  set (s2 := match c with CDefaults true => _ | CDefaults false => _ | _ => s1 end) in He.
  assert (H2 : confs s2 = confs s).
  { subst s2. destruct c as [| |[]|]; try exact H1.
    2:{ destruct (bool_decide _); [|exact H1]. cbv zeta. rewrite <- H1.
        destruct (drop_destination_core name (if bool_decide (gateway_service_kind name s1 = GDestination) then GUnknown else gateway_service_kind name s1) s1)
          as (_ & _ & _ & _ & Hc & _). exact Hc. }
    cbv zeta. rewrite upsert_ksn_confs.
    rewrite <- H1. apply skc_confs.
    eapply same_skc_trans; [apply check_gateway_and_update_skc|apply check_gateway_wildcards_and_update_skc]. }
  clearbody s2.
  apply res_bind_ok in He as (s3 & E3 & He). injection He as <-. cbn.
  assert (H3 : confs s3 = confs s).
  { destruct (_ && _); [|injection E3 as <-; exact H2].
    apply res_bind_ok in E3 as ([ip s'] & Ea & E3). injection E3 as <-.
    destruct (assign_vip_skc _ _ _ _ Ea) as (_ & A2 & _). rewrite A2. exact H2. }
  rewrite H3. reflexivity.
Qed.

Lemma conf_delete_confs kind name s :
  confs (conf_delete kind name s) = confs s \/ confs (conf_delete kind name s) = delete (kind, name) (confs s).
Proof.
  unfold conf_delete. destruct (confs s !! (kind, name)) as [c|]; [|left; reflexivity]. right.
  set (s1 := if bool_decide (kind = "terminating-gateway") || bool_decide (kind = "ingress-gateway") then _ else s).
  assert (H1 : confs s1 = confs s) by (subst s1; destruct (_ || _); reflexivity). clearbody s1.
  set (s2 := match c with CDefaults true => _ | _ => s1 end).
  assert (H2 : confs s2 = confs s).
  { subst s2. destruct c as [| |[]|]; try exact H1. cbv zeta. rewrite cleanup_ksn_confs. rewrite <- H1. apply skc_confs.
    eapply same_skc_trans; [apply check_gateway_and_update_skc|].
    eapply same_skc_trans; [apply cleanup_gateway_wildcards_skc|apply check_gateway_wildcards_and_update_skc]. }
  clearbody s2.
  set (s3 := if bool_decide (kind = "ingress-gateway") then _ else s2).
  assert (H3 : confs s3 = confs s) by (subst s3; destruct (bool_decide _); cbn; exact H2). clearbody s3.
  destruct (_ && _).
  - destruct (free_vip_skc name (s3 <| confs ::= delete (kind, name) |>)) as (_ & F2 & _). rewrite F2. cbn. rewrite H3. reflexivity.
  - cbn. rewrite H3. reflexivity.
Qed.

(* ---------- the key invariant: an entry is stored under its own kind ---------- *)
Definition ConfKeyed (s : st) : Prop := forall k n c, confs s !! (k, n) = Some c -> k = conf_kind c.

Lemma ConfKeyed_confs a b : same_confs a b -> ConfKeyed b -> ConfKeyed a.
Proof. unfold same_confs, ConfKeyed. intros -> H. exact H. Qed.

Lemma ConfKeyed_st0 : ConfKeyed st0.
Proof. intros k n c H. cbn in H. rewrite lookup_empty in H. discriminate. Qed.

Lemma exec_ConfKeyed idx c s : ConfKeyed s -> ConfKeyed (exec idx c s).1.
Proof.
  intros HK. destruct c; cbn [exec].
  - cbn. exact HK.
  - destruct (ensure_registration _ _ _ _ _ _ _ s) as [s'|e] eqn:E; cbn; [|exact HK].
    apply (ConfKeyed_confs _ s (ensure_registration_confs _ _ _ _ _ _ _ _ _ E) HK).
  - destruct (negb _); cbn; [apply (ConfKeyed_confs _ s (delete_service_confs _ _ _) HK)|].
    destruct (negb _); cbn; [exact HK|apply (ConfKeyed_confs _ s (delete_node_confs _ _) HK)].
  - destruct (txn_dispatch idx 0 ops s) as [s'|[i e]] eqn:E; cbn; [|exact HK].
    apply (ConfKeyed_confs _ s (txn_dispatch_confs _ _ _ _ _ E) HK).
  - destruct (conf_set name c s) as [s'|e] eqn:E; cbn; [|exact HK].
    intros k n c' Hc. rewrite (conf_set_confs _ _ _ _ E) in Hc.
    destruct (decide ((k, n) = (conf_kind c, name))) as [Heq|Hne].
    + rewrite Heq, lookup_insert in Hc. injection Hc as <-. congruence.
    + rewrite lookup_insert_ne in Hc by congruence. apply (HK k n c' Hc).
  - cbn. intros k n c' Hc. destruct (conf_delete_confs kind name s) as [H|H]; rewrite H in Hc.
    + apply (HK k n c' Hc).
    + apply lookup_delete_Some in Hc as [_ Hc]. apply (HK k n c' Hc).
  - pose proof (assign_manual_skc name ips s) as H. destruct (assign_manual name ips s) as [[found from] s']. cbn in *.
    apply (ConfKeyed_confs _ s (skc_confs _ _ H) HK).
  - cbn. destruct (bool_decide _); cbn; exact HK.
  - cbn. exact HK.
Qed.

Lemma apply_ConfKeyed idx c s : ConfKeyed s -> ConfKeyed (apply idx c s).1.
Proof.
  intros H. unfold apply. pose proof (exec_ConfKeyed idx c s H) as He.
  destruct (exec idx c s) as [s' r]. cbn [fst] in *. exact He.
Qed.

(* ---------- the counters ---------- *)
Local Open Scope Z_scope.

Definition conf_usage_ids : list string := drop 9 usage_ids.

Lemma conf_usage_ids_cases id : id ∈ conf_usage_ids ->
  id = conf_usage "terminating-gateway" \/ id = conf_usage "ingress-gateway" \/
  id = conf_usage "service-defaults" \/ id = conf_usage "service-resolver".
Proof.
  change conf_usage_ids with [conf_usage "terminating-gateway"; conf_usage "ingress-gateway";
                              conf_usage "service-defaults"; conf_usage "service-resolver"].
  rewrite !elem_of_cons, elem_of_nil. tauto.
Qed.

Definition conf_kinds : list string := ["terminating-gateway"; "ingress-gateway"; "service-defaults"; "service-resolver"].

Lemma svc_contrib_conf_zero kind b a : kind ∈ conf_kinds -> svc_contrib (conf_usage kind) b a = 0.
Proof.
  unfold conf_kinds. rewrite !elem_of_cons, elem_of_nil. intros [->|[->|[->|[->|[]]]]];
    destruct b as [x|], a as [y|]; unfold svc_contrib, typical;
    try destruct (sv_kind x); try destruct (sv_kind y); closed_tests; cbn; lia.
Qed.

Lemma node_contrib_conf_zero kind b a : kind ∈ conf_kinds -> node_contrib (conf_usage kind) b a = 0.
Proof.
  unfold conf_kinds. rewrite !elem_of_cons, elem_of_nil. intros [->|[->|[->|[->|[]]]]];
    unfold node_contrib; closed_tests; reflexivity.
Qed.

(* per key: under the key invariant an update in place keeps the kind *)
Lemma conf_contrib_kind kind (b a : option conf) :
  kind ∈ conf_kinds ->
  (forall x y, b = Some x -> a = Some y -> conf_kind x = conf_kind y) ->
  conf_contrib (conf_usage kind) b a =
  indo (fun c => bool_decide (conf_kind c = kind)) a - indo (fun c => bool_decide (conf_kind c = kind)) b.
Proof.
  unfold conf_kinds. rewrite !elem_of_cons, elem_of_nil. intros Hk Hsame.
  destruct b as [x|], a as [y|]; unfold conf_contrib, indo.
  - rewrite (Hsame x y eq_refl eq_refl). lia.
  - destruct Hk as [->|[->|[->|[->|[]]]]]; destruct x; closed_tests; cbn; lia.
  - destruct Hk as [->|[->|[->|[->|[]]]]]; destruct y; closed_tests; cbn; lia.
  - lia.
Qed.

Lemma conf_usage_delta_spec (before after : st) kind :
  kind ∈ conf_kinds -> ConfKeyed before -> ConfKeyed after ->
  usage_delta before after (conf_usage kind) =
  Z.of_N (recompute_usage after (conf_usage kind)) - Z.of_N (recompute_usage before (conf_usage kind)).
Proof.
  intros Hk Hb Ha. unfold usage_delta.
  rewrite (sum_changes_zero (node_contrib _)) by (intros; apply node_contrib_conf_zero; exact Hk).
  rewrite (sum_changes_zero (svc_contrib _)) by (intros; apply svc_contrib_conf_zero; exact Hk).
  rewrite (sum_changes_count _ (fun c => bool_decide (conf_kind c = kind))).
  2:{ intros [k n]. apply conf_contrib_kind; [exact Hk|]. intros x y Hx Hy.
      rewrite <- (Hb k n x Hx), <- (Ha k n y Hy). reflexivity. }
  unfold conf_kinds in Hk. rewrite !elem_of_cons, elem_of_nil in Hk.
  destruct Hk as [->|[->|[->|[->|[]]]]]; unfold recompute_usage; closed_tests; cbv beta iota; rewrite !count_Z; lia.
Qed.

Definition ConfUsageOK (s : st) : Prop :=
  forall kind, kind ∈ conf_kinds -> stored_usage s (conf_usage kind) = recompute_usage s (conf_usage kind).

Lemma conf_usage_in kind : kind ∈ conf_kinds -> conf_usage kind ∈ usage_ids.
Proof.
  unfold conf_kinds. rewrite !elem_of_cons, elem_of_nil. intros [->|[->|[->|[->|[]]]]];
    unfold usage_ids; rewrite !elem_of_cons; tauto.
Qed.

Theorem commit_conf_usage_ok before after :
  ConfKeyed before -> ConfKeyed after -> ConfUsageOK before -> ConfUsageOK (commit_usage before after).
Proof.
  intros Hb Ha Hok kind Hk.
  pose proof (conf_usage_in kind Hk) as Hin.
  unfold stored_usage, commit_usage.
  match goal with |- context [after <| usage := ?x |>] =>
    change (usage (after <| usage := x |>)) with x;
    change (recompute_usage (after <| usage := x |>) (conf_usage kind)) with (recompute_usage after (conf_usage kind)) end.
  rewrite (lookup_list_to_map_fn usage_ids _ _ Hin). cbn [default].
  rewrite (conf_usage_delta_spec before after kind Hk Hb Ha).
  fold (stored_usage before (conf_usage kind)). rewrite (Hok kind Hk). unfold Datatypes.id. lia.
Qed.

Lemma ConfUsageOK_st0 : ConfUsageOK st0.
Proof.
  intros kind. unfold conf_kinds. rewrite !elem_of_cons, elem_of_nil. intros [->|[->|[->|[->|[]]]]]; vm_compute; reflexivity.
Qed.

Theorem apply_ConfUsageOK idx c s : ConfKeyed s -> ConfUsageOK s -> ConfUsageOK (apply idx c s).1.
Proof.
  intros HK H. unfold apply. pose proof (exec_ConfKeyed idx c s HK) as He.
  destruct (exec idx c s) as [s' r]. cbn [fst] in *.
  apply commit_conf_usage_ok; [exact HK|exact He|exact H].
Qed.

(* ---------- every reachable state ---------- *)
From Verif Require Import Catalog.Reach.
Local Open Scope N_scope.

Theorem conf_keyed s : CReach s -> ConfKeyed s.
Proof. induction 1 as [|idx c s _ IH]; [apply ConfKeyed_st0|apply apply_ConfKeyed; exact IH]. Qed.

Theorem conf_usage_recomputed s : CReach s ->
  forall kind, kind ∈ conf_kinds -> stored_usage s (conf_usage kind) = recompute_usage s (conf_usage kind).
Proof.
  intros H. induction H as [|idx c s Hr IH]; [apply ConfUsageOK_st0|].
  apply apply_ConfUsageOK; [apply conf_keyed; exact Hr|exact IH].
Qed.

(* all thirteen counters of the usage table *)
Theorem usage_all_recomputed s : CReach s -> forall id, id ∈ usage_ids -> stored_usage s id = recompute_usage s id.
Proof.
  intros H id Hid. rewrite <- (take_drop 9 usage_ids) in Hid. apply elem_of_app in Hid as [Hid|Hid].
  - apply (usage_recomputed s H id Hid).
  - apply conf_usage_ids_cases in Hid. destruct Hid as [->|[->|[-> | ->]]];
      apply (conf_usage_recomputed s H); unfold conf_kinds; rewrite !elem_of_cons; tauto.
Qed.

(* non-vacuity: entries of three kinds written, one overwritten in place, one deleted; a counter
   that went up and came down again *)
Definition conf_usage_log : list (N * cmd) :=
  [ (3, ConfSet "tgw" (CTermGW ["web"; "*"]));
    (4, ConfSet "igw" (CIngressGW [(8080, ["web"])]));
    (5, ConfSet "ext" (CDefaults true));
    (6, ConfSet "web" (CDefaults false));
    (7, ConfSet "ext" (CDefaults false));
    (8, ConfSet "web" CResolver);
    (9, ConfDelete "ingress-gateway" "igw") ].

Example conf_usage_example :
  let s := (run conf_usage_log st0).1 in
  CReach s /\ stored_usage s (conf_usage "terminating-gateway") = 1 /\ stored_usage s (conf_usage "ingress-gateway") = 0 /\
  stored_usage s (conf_usage "service-defaults") = 2 /\ stored_usage s (conf_usage "service-resolver") = 1 /\
  stored_usage (run (take 2 conf_usage_log) st0).1 (conf_usage "ingress-gateway") = 1.
Proof. cbv zeta. split; [apply CReach_run|]. repeat split; vm_compute; reflexivity. Qed.
