(* Concrete histories on which the faithful catalog model (and, replayed by the harness, the real
   store) violates the full-strength statements of C07. *)
From stdpp Require Import gmap strings.
From RecordUpdate Require Import RecordSet.
From Coq Require Import NArith.
From Verif Require Import Catalog.Model Catalog.Spec.
Import RecordSetNotations.
Local Open Scope N_scope.

Definition proxy (id name dest : string) (ups : list string) : svcreq := SvcReq id name KProxy false dest 80 ups true 0.
Definition plain (id name : string) : svcreq := SvcReq id name KTypical false "" 80 [] true 0.
Definition native (id name : string) : svcreq := SvcReq id name KTypical true "" 80 [] true 0.

(* ---- virtual IPs: a sidecar proxy outlives its service's assignment ---- *)
(* the proxy of "web" is registered (web gets address 1 and the proxy advertises it); a
   service-defaults entry for web is written and deleted again: the deletion frees web's address
   although the proxy still advertises it; the next connect service, "db", is given address 1 too *)
Definition vip_log : list (N * cmd) :=
  [ (2, SysMeta true);
    (3, Register "n1" "" 1 false (Some (proxy "s1" "web-proxy" "web" [])) []);
    (4, ConfSet "web" (CDefaults false));
    (5, ConfDelete "service-defaults" "web");
    (6, Register "n1" "" 1 false (Some (native "s2" "db")) []) ].

Lemma vip_advertised_witness :
  let s := (run vip_log st0).1 in
  (exists v, services s !! ("n1", "s1") = Some v /\ sv_vip v = Some 1 /\ connect_name v = Some "web") /\
  vips s !! "web" = None /\
  (exists v, services s !! ("n1", "s2") = Some v /\ sv_vip v = Some 1 /\ connect_name v = Some "db") /\
  vips s !! "db" = Some (1, []).
Proof.
  cbv zeta. split; [|split; [|split]].
  - eexists. split; [vm_compute; reflexivity|]. split; vm_compute; reflexivity.
  - vm_compute; reflexivity.
  - eexists. split; [vm_compute; reflexivity|]. split; vm_compute; reflexivity.
  - vm_compute; reflexivity.
Qed.

(* ---- kind-service-names: a name used by instances of two kinds ---- *)
Definition ksn_log : list (N * cmd) :=
  [ (3, Register "n2" "" 1 false (Some (proxy "s1" "web" "db" [])) []);
    (4, Register "n3" "" 1 false (Some (plain "s1" "web")) []);
    (5, Deregister "n2" "" "") ].

Lemma kindnames_witness :
  let s := (run ksn_log st0).1 in
  ("connect-proxy", "web") ∈ ksn s /\ ksn s ≠ recompute_ksn s.
Proof.
  cbv zeta. split.
  - eapply bool_decide_eq_true_1. vm_compute. reflexivity.
  - eapply bool_decide_eq_false_1. vm_compute. reflexivity.
Qed.

(* ... and an instance re-registered under another name *)
Definition ksn_log2 : list (N * cmd) :=
  [ (3, Register "n1" "" 1 false (Some (plain "s1" "db")) []);
    (4, Register "n1" "" 1 false (Some (plain "s1" "web")) []) ].
Lemma kindnames_witness2 :
  let s := (run ksn_log2 st0).1 in ksn s ≠ recompute_ksn s.
Proof. cbv zeta. eapply bool_decide_eq_false_1. vm_compute. reflexivity. Qed.

(* ---- mesh-topology: two proxy instances declare the same upstream ---- *)
Definition topo_log : list (N * cmd) :=
  [ (3, Register "n1" "" 1 false (Some (proxy "s1" "web-proxy" "web" ["db"])) []);
    (4, Register "n2" "" 1 false (Some (proxy "s1" "web-proxy" "web" ["db"])) []);
    (5, Deregister "n2" "s1" "") ].

Lemma topology_witness :
  (* after the second registration the row has lost the first instance ... *)
  topo (run (take 2 topo_log) st0).1 !! ("db", "web") = Some {[ ("n2", "s1") ]} /\
  topo (run (take 2 topo_log) st0).1 ≠ recompute_topo (run (take 2 topo_log) st0).1 /\
  (* ... so removing the second instance removes the pair although n1's proxy still declares it *)
  topo (run topo_log st0).1 !! ("db", "web") = None /\
  recompute_topo (run topo_log st0).1 !! ("db", "web") = Some {[ ("n1", "s1") ]}.
Proof.
  split; [|split; [|split]].
  - eapply bool_decide_eq_true_1. vm_compute. reflexivity.
  - eapply bool_decide_eq_false_1. vm_compute. reflexivity.
  - vm_compute. reflexivity.
  - eapply bool_decide_eq_true_1. vm_compute. reflexivity.
Qed.

(* ---- gateway-services: a listed service is overwritten by the wildcard of the same entry ---- *)
Definition gws_log : list (N * cmd) :=
  [ (3, ConfSet "tgw" (CTermGW ["web"; "*"]));
    (4, Register "n1" "" 1 false (Some (plain "s1" "web")) []);
    (5, Deregister "n1" "s1" "") ].

Lemma gateway_witness :
  stored_gws (run (take 2 gws_log) st0).1 !! ("tgw", "web", 0) = Some (KTermGW, true) /\
  recompute_gws (run (take 2 gws_log) st0).1 !! ("tgw", "web", 0) = Some (KTermGW, false) /\
  (* after the instance is gone the listed association is gone too *)
  stored_gws (run gws_log st0).1 !! ("tgw", "web", 0) = None /\
  recompute_gws (run gws_log st0).1 !! ("tgw", "web", 0) = Some (KTermGW, false).
Proof. split; [|split; [|split]]; vm_compute; reflexivity. Qed.

(* ---- usage: an instance renamed to "consul" ---- *)
Definition usage_log : list (N * cmd) :=
  [ (3, Register "n1" "" 1 false (Some (plain "s1" "web")) []);
    (4, Register "n1" "" 1 false (Some (proxy "s2" "p" "web" [])) []);
    (5, Register "n1" "" 1 false (Some (proxy "s2" "consul" "web" [])) []) ].

Lemma usage_witness :
  let s := (run usage_log st0).1 in
  stored_usage s billable_usage = 0 /\ recompute_usage s billable_usage = 1.
Proof. cbv zeta. split; vm_compute; reflexivity. Qed.
