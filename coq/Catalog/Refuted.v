(* Concrete histories on which the faithful catalog model (and, replayed by the harness, the real
   store) violates the full-strength statements of C07. *)
From stdpp Require Import gmap strings.
From RecordUpdate Require Import RecordSet.
From Coq Require Import NArith.
From Verif Require Import Catalog.Model Catalog.Spec.
Import RecordSetNotations.
Local Open Scope N_scope.

Definition proxy (id name dest : string) (ups : list string) : svcreq := SvcReq id name KProxy false dest 80 ups true 0.
Definition plain (id name : string) : svcreq := SvcReq id name KTypical false "" 80 [] true 0.
Definition native (id name : string) : svcreq := SvcReq id name KTypical true "" 80 [] true 0.

(* ---- virtual IPs: the history on which a sidecar proxy used to outlive its service's assignment ---- *)
(* the proxy of "web" is registered (web gets address 1 and the proxy advertises it); a
   service-defaults entry for web is written and deleted again.  Before /repo 8e1bd1c the deletion
   freed web's address although the proxy still advertised it, and the next connect service, "db",
   was given address 1 too.  Now web keeps address 1 and db gets 2 (kept as a regression case: the
   harness corpus replays it on the real store on every run). *)
Definition vip_log : list (N * cmd) :=
  [ (2, SysMeta true);
    (3, Register "n1" "" 1 false (Some (proxy "s1" "web-proxy" "web" [])) []);
    (4, ConfSet "web" (CDefaults false));
    (5, ConfDelete "service-defaults" "web");
    (6, Register "n1" "" 1 false (Some (native "s2" "db")) []) ].

Lemma vip_repaired_example :
  let s := (run vip_log st0).1 in
  (exists v, services s !! ("n1", "s1") = Some v /\ sv_vip v = Some 1 /\ connect_name v = Some "web") /\
  vips s !! "web" = Some (1, []) /\
  (exists v, services s !! ("n1", "s2") = Some v /\ sv_vip v = Some 2 /\ connect_name v = Some "db") /\
  vips s !! "db" = Some (2, []).
Proof.
  cbv zeta. split; [|split; [|split]].
  - eexists. split; [vm_compute; reflexivity|]. split; vm_compute; reflexivity.
  - vm_compute; reflexivity.
  - eexists. split; [vm_compute; reflexivity|]. split; vm_compute; reflexivity.
  - vm_compute; reflexivity.
Qed.

(* ---- kind-service-names ---- *)
(* a name used by instances of two kinds (a proxy named "web" and a service "web"); the proxy's node is
   deregistered.  Before /repo 0bb54ea the (connect-proxy, web) row stayed; now the table agrees with
   the recomputation (regression case, replayed by the harness corpus). *)
Definition ksn_log : list (N * cmd) :=
  [ (3, Register "n2" "" 1 false (Some (proxy "s1" "web" "db" [])) []);
    (4, Register "n3" "" 1 false (Some (plain "s1" "web")) []);
    (5, Deregister "n2" "" "") ].

Lemma kindnames_repaired_example :
  let s := (run ksn_log st0).1 in
  ("connect-proxy", "web") ∉ ksn s /\ ("", "web") ∈ ksn s /\ ksn s = recompute_ksn s.
Proof.
  cbv zeta. split; [|split].
  - eapply bool_decide_eq_true_1. vm_compute. reflexivity.
  - eapply bool_decide_eq_true_1. vm_compute. reflexivity.
  - eapply bool_decide_eq_true_1. vm_compute. reflexivity.
Qed.

(* STILL FALSE (1): an instance re-registered under another name (or kind): the old pair stays,
   because a re-registration never passes through deleteServiceTxn *)
Definition ksn_log2 : list (N * cmd) :=
  [ (3, Register "n1" "" 1 false (Some (plain "s1" "db")) []);
    (4, Register "n1" "" 1 false (Some (plain "s1" "web")) []) ].
Lemma kindnames_witness2 :
  let s := (run ksn_log2 st0).1 in ("", "db") ∈ ksn s /\ ("", "db") ∉ recompute_ksn s /\ ksn s ≠ recompute_ksn s.
Proof.
  cbv zeta. split; [|split].
  - eapply bool_decide_eq_true_1. vm_compute. reflexivity.
  - eapply bool_decide_eq_true_1. vm_compute. reflexivity.
  - eapply bool_decide_eq_false_1. vm_compute. reflexivity.
Qed.

(* a service-defaults entry loses its Destination by an update.  Before /repo 0d0f3e6 only the delete
   path removed the (destination, name) pair (and the gateway associations of the destination); now
   the update undoes them too (regression case, replayed by the harness corpus). *)
Definition ksn_log3 : list (N * cmd) :=
  [ (3, ConfSet "ext" (CDefaults true)); (4, ConfSet "ext" (CDefaults false)) ].
Lemma kindnames_dest_repaired_example :
  ("destination", "ext") ∈ ksn (run (take 1 ksn_log3) st0).1 /\
  let s := (run ksn_log3 st0).1 in ksn s = ∅ /\ recompute_ksn s = ∅.
Proof.
  cbv zeta. split; [|split]; eapply bool_decide_eq_true_1; vm_compute; reflexivity.
Qed.

(* the same under a terminating wildcard: the wildcard row of the destination goes with it *)
Definition gws_dest_log : list (N * cmd) :=
  [ (3, ConfSet "tgw" (CTermGW ["*"])); (4, ConfSet "ext" (CDefaults true)); (5, ConfSet "ext" (CDefaults false)) ].
Lemma gateway_dest_repaired_example :
  is_Some (gws (run (take 2 gws_dest_log) st0).1 !! ("tgw", "ext", 0)) /\
  let s := (run gws_dest_log st0).1 in gws s !! ("tgw", "ext", 0) = None /\ stored_gws s = recompute_gws s.
Proof.
  cbv zeta. split; [|split]; eapply bool_decide_eq_true_1; vm_compute; reflexivity.
Qed.

(* ---- mesh-topology ---- *)
(* two proxy instances declare the same upstream; the second is deregistered.  Before /repo acb191c
   the row kept only the latest instance as its reference and disappeared with it; now it agrees with
   the recomputation after every step (regression case, replayed by the harness corpus). *)
Definition topo_log : list (N * cmd) :=
  [ (3, Register "n1" "" 1 false (Some (proxy "s1" "web-proxy" "web" ["db"])) []);
    (4, Register "n2" "" 1 false (Some (proxy "s1" "web-proxy" "web" ["db"])) []);
    (5, Deregister "n2" "s1" "") ].

Lemma topology_repaired_example :
  topo (run (take 2 topo_log) st0).1 !! ("db", "web") = Some {[ ("n1", "s1"); ("n2", "s1") ]} /\
  topo (run (take 2 topo_log) st0).1 = recompute_topo (run (take 2 topo_log) st0).1 /\
  topo (run topo_log st0).1 !! ("db", "web") = Some {[ ("n1", "s1") ]} /\
  topo (run topo_log st0).1 = recompute_topo (run topo_log st0).1.
Proof. split; [|split; [|split]]; eapply bool_decide_eq_true_1; vm_compute; reflexivity. Qed.

(* STILL FALSE (1): an instance that stops listing an upstream deletes the pair although another
   instance still declares it (updateMeshTopology: DeleteAll by (upstream, downstream)) *)
Definition topo_drop_log : list (N * cmd) :=
  [ (3, Register "n1" "" 1 false (Some (proxy "s1" "web-proxy" "web" ["db"])) []);
    (4, Register "n2" "" 1 false (Some (proxy "s1" "web-proxy" "web" ["db"])) []);
    (5, Register "n2" "" 1 false (Some (proxy "s1" "web-proxy" "web" [])) []) ].

Lemma topology_witness :
  topo (run topo_drop_log st0).1 !! ("db", "web") = None /\
  recompute_topo (run topo_drop_log st0).1 !! ("db", "web") = Some {[ ("n1", "s1") ]}.
Proof. split; [vm_compute; reflexivity|eapply bool_decide_eq_true_1; vm_compute; reflexivity]. Qed.

(* STILL FALSE (2): an instance re-registered as something that is not a proxy keeps its pairs
   (updateMeshTopology is only called for proxies and natives; nothing cleans the old rows) *)
Definition topo_redef_log : list (N * cmd) :=
  [ (3, Register "n1" "" 1 false (Some (proxy "s1" "web-proxy" "web" ["db"])) []);
    (4, Register "n1" "" 1 false (Some (plain "s1" "web-proxy")) []) ].

Lemma topology_witness2 :
  topo (run topo_redef_log st0).1 !! ("db", "web") = Some {[ ("n1", "s1") ]} /\
  recompute_topo (run topo_redef_log st0).1 !! ("db", "web") = None.
Proof. split; [eapply bool_decide_eq_true_1; vm_compute; reflexivity|vm_compute; reflexivity]. Qed.

(* STILL FALSE (3): an ingress gateway lists "web" on one listener and "*" on another; when the last
   connect instance of web goes, cleanupGatewayWildcards removes the wildcard-derived association and
   with it the (web, igw) pair, although the listed association still implies it *)
Definition topo_gw_log : list (N * cmd) :=
  [ (3, ConfSet "igw" (CIngressGW [(8080, ["web"]); (8081, ["*"])]));
    (4, Register "n1" "" 1 false (Some (native "s1" "web")) []);
    (5, Deregister "n1" "s1" "") ].

Lemma topology_witness3 :
  topo (run topo_gw_log st0).1 !! ("web", "igw") = None /\
  is_Some (gws (run topo_gw_log st0).1 !! ("igw", "web", 8080)) /\
  recompute_topo (run topo_gw_log st0).1 !! ("web", "igw") = Some ∅.
Proof.
  split; [vm_compute; reflexivity|]. split; [eapply bool_decide_eq_true_1; vm_compute; reflexivity|].
  eapply bool_decide_eq_true_1; vm_compute; reflexivity.
Qed.

(* STILL FALSE (4): a connect-native service registered with upstreams (Catalog.Register accepts it)
   gets pairs (upstream, "") -- the "downstream" is the proxy destination, empty for a native
   service -- and cleanupMeshTopology returns at once for anything that is not a connect-proxy: the
   pair and its reference outlive the instance *)
Definition topo_native_log : list (N * cmd) :=
  [ (3, Register "n1" "" 1 false (Some (SvcReq "s1" "web" KTypical true "" 80 ["db"] true 0)) []);
    (4, Deregister "n1" "s1" "") ].

Lemma topology_witness4 :
  services (run topo_native_log st0).1 = ∅ /\
  topo (run topo_native_log st0).1 !! ("db", "") = Some {[ ("n1", "s1") ]} /\
  recompute_topo (run topo_native_log st0).1 !! ("db", "") = None.
Proof.
  split; [eapply bool_decide_eq_true_1; vm_compute; reflexivity|].
  split; [eapply bool_decide_eq_true_1; vm_compute; reflexivity|vm_compute; reflexivity].
Qed.

(* ---- gateway-services ---- *)
(* a service listed next to the wildcard of the same entry registers and deregisters.  Before /repo
   a882280 the listed row became FromWildcard on registration and disappeared on deregistration; now
   it stays the listed row throughout (regression case, replayed by the harness corpus). *)
Definition gws_log : list (N * cmd) :=
  [ (3, ConfSet "tgw" (CTermGW ["web"; "*"]));
    (4, Register "n1" "" 1 false (Some (plain "s1" "web")) []);
    (5, Deregister "n1" "s1" "") ].

Lemma gateway_repaired_example :
  stored_gws (run (take 2 gws_log) st0).1 = recompute_gws (run (take 2 gws_log) st0).1 /\
  stored_gws (run (take 2 gws_log) st0).1 !! ("tgw", "web", 0) = Some (KTermGW, false) /\
  stored_gws (run gws_log st0).1 = recompute_gws (run gws_log st0).1 /\
  stored_gws (run gws_log st0).1 !! ("tgw", "web", 0) = Some (KTermGW, false).
Proof. split; [|split; [|split]]; eapply bool_decide_eq_true_1; vm_compute; reflexivity. Qed.

(* two terminating gateways list "ext"; a service-defaults entry with a destination is written.
   Before /repo 948377c only the first row learnt the new kind; now both do. *)
Definition gws_rows_log : list (N * cmd) :=
  [ (3, ConfSet "tgw" (CTermGW ["ext"])); (4, ConfSet "tgw2" (CTermGW ["ext"])); (5, ConfSet "ext" (CDefaults true)) ].
Lemma gateway_rows_repaired_example :
  let s := (run gws_rows_log st0).1 in
  gws s !! ("tgw", "ext", 0) = Some (GS KTermGW false GDestination) /\
  gws s !! ("tgw2", "ext", 0) = Some (GS KTermGW false GDestination).
Proof. cbv zeta. split; vm_compute; reflexivity. Qed.

(* STILL FALSE: the table depends on the ORDER of writes when an INGRESS gateway has a wildcard.
   (1) the same two commands in both orders — a sidecar proxy of "db" (no instance named db) and an
       ingress entry with "*": the association (igw, db) exists only if the proxy registers AFTER the
       entry is written (registration path: any connect instance; config path: only names with a
       typical instance);
   (2) a service-defaults destination written BEFORE the wildcard ingress entry gets an association
       (updateGatewayNamespace adds destinations whatever the gateway kind), written after it does
       not. *)
Definition igw_conf : cmd := ConfSet "igw" (CIngressGW [(8080, ["*"])]).
Definition igw_proxy : cmd := Register "n1" "" 1 false (Some (proxy "s1" "db-proxy" "db" [])) [].
Lemma gateway_order_witness :
  let a := (run [(3, igw_conf); (4, igw_proxy)] st0).1 in
  let b := (run [(3, igw_proxy); (4, igw_conf)] st0).1 in
  stored_gws a !! ("igw", "db", 8080) = Some (KIngressGW, true) /\
  stored_gws b !! ("igw", "db", 8080) = None /\
  recompute_gws a = recompute_gws b /\ stored_gws b ≠ recompute_gws b.
Proof.
  cbv zeta. split; [vm_compute; reflexivity|]. split; [vm_compute; reflexivity|].
  split; [eapply bool_decide_eq_true_1; vm_compute; reflexivity|eapply bool_decide_eq_false_1; vm_compute; reflexivity].
Qed.

Lemma gateway_order_witness2 :
  let a := (run [(3, ConfSet "ext" (CDefaults true)); (4, igw_conf)] st0).1 in
  let b := (run [(3, igw_conf); (4, ConfSet "ext" (CDefaults true))] st0).1 in
  stored_gws a !! ("igw", "ext", 8080) = Some (KIngressGW, true) /\
  stored_gws b !! ("igw", "ext", 8080) = None /\
  recompute_gws a = recompute_gws b /\ stored_gws a ≠ recompute_gws a.
Proof.
  cbv zeta. split; [vm_compute; reflexivity|]. split; [vm_compute; reflexivity|].
  split; [eapply bool_decide_eq_true_1; vm_compute; reflexivity|eapply bool_decide_eq_false_1; vm_compute; reflexivity].
Qed.

(* (3) an instance re-registered under another name leaves the wildcard-derived association of the old
   name behind (the cleanup runs only in deleteServiceTxn) *)
Definition gws_redef_log : list (N * cmd) :=
  [ (3, ConfSet "tgw" (CTermGW ["*"]));
    (4, Register "n1" "" 1 false (Some (plain "s1" "api")) []);
    (5, Register "n1" "" 1 false (Some (plain "s1" "web")) []) ].
Lemma gateway_redef_witness :
  let s := (run gws_redef_log st0).1 in
  stored_gws s !! ("tgw", "api", 0) = Some (KTermGW, true) /\ recompute_gws s !! ("tgw", "api", 0) = None.
Proof. cbv zeta. split; vm_compute; reflexivity. Qed.

(* ---- usage: an instance renamed to "consul" ---- *)
(* a plain "web" (billable) and a proxy that is then renamed to "consul".  Before /repo 10e7cca the
   rename decremented the billable count to 0; now it stays 1 (regression case in the corpus). *)
Definition usage_log : list (N * cmd) :=
  [ (3, Register "n1" "" 1 false (Some (plain "s1" "web")) []);
    (4, Register "n1" "" 1 false (Some (proxy "s2" "p" "web" [])) []);
    (5, Register "n1" "" 1 false (Some (proxy "s2" "consul" "web" [])) []) ].

Lemma usage_repaired_example :
  let s := (run usage_log st0).1 in
  stored_usage s billable_usage = 1 /\ recompute_usage s billable_usage = 1.
Proof. cbv zeta. split; vm_compute; reflexivity. Qed.
