(* Manual virtual IPs: in every reachable state no address is in the manual lists of two services.
   Two parts:
   - every command other than ManualVIPs leaves the manual lists alone: a service-virtual-ips row is
     only created with the empty list, deleted, or kept (relation VR below);
   - AssignManualServiceVIPs takes each address of the request away from its (unique) holder before
     it gives the list to the requested service. *)
From stdpp Require Import gmap strings.
From RecordUpdate Require Import RecordSet.
From Coq Require Import NArith.
From Verif Require Import Catalog.Model Catalog.Frames Catalog.Reach.
Import RecordSetNotations.
Local Open Scope N_scope.

Definition MU (s : st) : Prop :=
  forall n1 n2 a1 m1 a2 m2 (x : string),
    vips s !! n1 = Some (a1, m1) -> vips s !! n2 = Some (a2, m2) -> x ∈ m1 -> x ∈ m2 -> n1 = n2.

(* every manual list of [a] is a sub-list (as a set) of the list the same service had in [b] *)
Definition VR (a b : st) : Prop :=
  forall n ip (m : list string), vips a !! n = Some (ip, m) ->
    m = [] \/ exists ip' m', vips b !! n = Some (ip', m') /\ (forall x, x ∈ m -> x ∈ m').

Lemma VR_refl a : VR a a.
Proof. intros n ip m H. right. eauto. Qed.

Lemma VR_trans a b c : VR a b -> VR b c -> VR a c.
Proof.
  intros Hab Hbc n ip m H. destruct (Hab n ip m H) as [->|(ip' & m' & H' & Hsub)]; [left; reflexivity|].
  destruct (Hbc n ip' m' H') as [->|(ip'' & m'' & H'' & Hsub')].
  - left. destruct m as [|x m]; [reflexivity|]. specialize (Hsub x ltac:(left)). inversion Hsub.
  - right. exists ip'', m''. split; [exact H''|]. intros x Hx. apply Hsub', Hsub, Hx.
Qed.

Lemma VR_eq a b : vips a = vips b -> VR a b.
Proof. intros E n ip m H. rewrite E in H. right. eauto. Qed.

Lemma VR_core a b : same_core a b -> VR a b.
Proof. intros (_ & _ & _ & _ & _ & H & _). apply VR_eq, H. Qed.

Lemma MU_VR a b : VR a b -> MU b -> MU a.
Proof.
  intros Hr Hb n1 n2 a1 m1 a2 m2 x H1 H2 X1 X2.
  destruct (Hr n1 a1 m1 H1) as [->|(i1 & l1 & B1 & S1)]; [inversion X1|].
  destruct (Hr n2 a2 m2 H2) as [->|(i2 & l2 & B2 & S2)]; [inversion X2|].
  apply (Hb n1 n2 i1 l1 i2 l2 x B1 B2 (S1 x X1) (S2 x X2)).
Qed.

Lemma foldl_VR {A} (g : st -> A -> st) l : (forall s x, VR (g s x) s) -> forall s, VR (foldl g s l) s.
Proof.
  intros Hg. induction l as [|x l IH]; intros s; cbn; [apply VR_refl|].
  eapply VR_trans; [apply IH|apply Hg].
Qed.

Lemma assign_vip_VR name s ip s' : assign_vip name s = Ok (ip, s') -> VR s' s.
Proof.
  unfold assign_vip. destruct (vips s !! name) as [[a m]|] eqn:En; [intros [= <- <-]; apply VR_refl|].
  assert (Hins : forall (s0 : st) (i : N), vips s0 = <[name := (i, [])]> (vips s) -> VR s0 s).
  { intros s0 i E n j m H. rewrite E in H. destruct (decide (n = name)) as [->|Hne].
    - rewrite lookup_insert in H. injection H as <- <-. left. reflexivity.
    - rewrite lookup_insert_ne in H by congruence. right. eauto. }
  destruct (min_free (free s)) as [i|].
  - intros [= <- <-]. apply (Hins _ i). reflexivity.
  - cbn zeta. destruct (bool_decide _); [discriminate|]. intros [= <- <-]. apply (Hins _ (counter s + 1)). reflexivity.
Qed.

Lemma free_vip_VR name s : VR (free_vip name s) s.
Proof.
  unfold free_vip. destruct (negb (vips_on s)); [apply VR_refl|].
  destruct (has_instance name s); [apply VR_refl|]. destruct (has_connect_instance name s); [apply VR_refl|].
  destruct (existsb _ _); [apply VR_refl|]. destruct (vips s !! name) as [[ip m]|]; [|apply VR_refl].
  intros n j l H. cbn in H. apply lookup_delete_Some in H as [_ H]. right. eauto.
Qed.

(* ---------- the catalog verbs ---------- *)
Lemma res_bind_ok {A B} (m : res A) (k : A -> res B) (b : B) :
  m ≫= k = Ok b -> exists a, m = Ok a /\ k a = Ok b.
Proof. destruct m as [a|e]; cbn; [eauto|discriminate]. Qed.

Lemma ensure_service_VR idx nd r s s' : ensure_service idx nd r s = Ok s' -> VR s' s.
Proof.
  unfold ensure_service. intros He.
  set (s1 := if bool_decide (sr_kind r = KTypical) && negb (bool_decide (sr_name r = consul_name)) then _ else s) in He.
  assert (H1 : VR s1 s).
  { subst s1. destruct (bool_decide (sr_kind r = KTypical) && negb (bool_decide (sr_name r = consul_name))); [|apply VR_refl].
    apply VR_core. eapply same_core_trans; [apply check_gateway_and_update_core|apply check_gateway_wildcards_and_update_core]. }
  clearbody s1.
  set (s2 := upsert_ksn _ _ s1) in He.
  assert (H2 : VR s2 s) by (eapply VR_trans; [apply VR_core, upsert_ksn_core|exact H1]).
  clearbody s2.
  apply res_bind_ok in He as ([vip s7] & E3 & He).
  assert (H7 : VR s7 s).
  { destruct (is_connect r); [|injection E3 as _ <-; exact H2].
    cbn zeta in E3.
    set (s4 := check_gateway_wildcards_and_update _ _ _ _) in E3.
    assert (H4 : VR s4 s).
    { subst s4. eapply VR_trans; [|exact H2]. apply VR_core.
      eapply same_core_trans; [apply check_gateway_wildcards_and_update_core|apply update_mesh_topology_core]. }
    clearbody s4.
    set (s5 := if bool_decide (connect_target r = "") then s4 else _) in E3.
    assert (H5 : VR s5 s).
    { subst s5. destruct (bool_decide (connect_target r = "")); [exact H4|].
      eapply VR_trans; [apply VR_core, upsert_ksn_core|exact H4]. }
    clearbody s5.
    destruct (vips_on s5 && negb (bool_decide (connect_target r = ""))); [|injection E3 as _ <-; exact H5].
    apply res_bind_ok in E3 as ([ip s6] & Ea & E3). injection E3 as _ <-.
    eapply VR_trans; [apply (assign_vip_VR _ _ _ _ Ea)|exact H5]. }
  destruct (nodes s7 !! nd); [|discriminate].
  destruct (services s !! (nd, sr_id r)) as [x|].
  - destruct (same_service x r vip); injection He as <-; [exact H7|].
    eapply VR_trans; [apply VR_eq; reflexivity|exact H7].
  - injection He as <-. eapply VR_trans; [apply VR_eq; reflexivity|exact H7].
Qed.

Lemma delete_service_VR nd sid s : VR (delete_service nd sid s) s.
Proof.
  unfold delete_service. destruct (services s !! (nd, sid)) as [v|]; [|apply VR_refl].
  set (s1 := foldl _ s _).
  assert (H1 : VR s1 s) by (apply foldl_VR; intros; apply VR_eq; reflexivity). clearbody s1.
  set (s3 := cleanup_mesh_topology nd sid v (s1 <| services ::= delete (nd, sid) |>)).
  assert (H3 : VR s3 s).
  { subst s3. eapply VR_trans; [apply VR_core, cleanup_mesh_topology_core|].
    eapply VR_trans; [apply VR_eq; reflexivity|exact H1]. }
  clearbody s3.
  set (s4 := if has_instance (sv_name v) s3 then (if has_instance_kind (sv_name v) (sv_kind v) s3 then s3 else _) else _).
  assert (H4 : VR s4 s).
  { subst s4. destruct (has_instance (sv_name v) s3).
    - destruct (has_instance_kind (sv_name v) (sv_kind v) s3); [exact H3|].
      eapply VR_trans; [apply VR_core, cleanup_ksn_core|exact H3].
    - eapply VR_trans; [apply VR_core, cleanup_ksn_core|]. eapply VR_trans; [apply free_vip_VR|exact H3]. }
  clearbody s4.
  set (s5 := match connect_name v with Some sn => _ | None => s4 end).
  assert (H5 : VR s5 s).
  { subst s5. destruct (connect_name v) as [sn|]; [|exact H4].
    destruct (has_connect_instance sn s4); [exact H4|].
    eapply VR_trans; [apply VR_core, cleanup_gateway_wildcards_core|].
    eapply VR_trans; [apply VR_core, cleanup_ksn_core|exact H4]. }
  clearbody s5.
  eapply VR_trans; [apply VR_core, cleanup_gateway_wildcards_core|exact H5].
Qed.

Lemma delete_node_VR nd s : VR (delete_node nd s) s.
Proof.
  unfold delete_node. destruct (nodes s !! nd); [|apply VR_refl].
  set (s1 := foldl _ s _).
  assert (H1 : VR s1 s) by (apply foldl_VR; intros; apply delete_service_VR). clearbody s1.
  set (s2 := foldl _ s1 _).
  assert (H2 : VR s2 s1) by (apply foldl_VR; intros; apply VR_eq; reflexivity). clearbody s2.
  eapply VR_trans; [apply VR_eq; reflexivity|]. eapply VR_trans; [exact H2|exact H1].
Qed.

Lemma ensure_node_VR idx nd id addr s s' : ensure_node idx nd id addr s = Ok s' -> VR s' s.
Proof.
  unfold ensure_node. intros He. apply res_bind_ok in He as ([n0 s1] & E1 & E2).
  assert (H1 : VR s1 s).
  { destruct (bool_decide (id = "")); [injection E1 as _ <-; apply VR_refl|].
    destruct (node_by_id id s) as [[oname on]|].
    - destruct (bool_decide (oname = nd)); [injection E1 as _ <-; apply VR_refl|].
      destruct (similar_clash false nd id s); [discriminate|]. injection E1 as _ <-. apply delete_node_VR.
    - destruct (similar_clash true nd id s); [discriminate|]. injection E1 as _ <-; apply VR_refl. }
  cbn zeta in E2. destruct (match n0 with Some x => Some x | None => nodes s1 !! nd end) as [x|].
  - destruct (_ && _); injection E2 as <-; [exact H1|]. eapply VR_trans; [apply VR_eq; reflexivity|exact H1].
  - injection E2 as <-. eapply VR_trans; [apply VR_eq; reflexivity|exact H1].
Qed.

Lemma ensure_check_VR idx c s s' : ensure_check idx c s = Ok s' -> VR s' s.
Proof.
  unfold ensure_check. destruct (nodes s !! cr_node c); [|discriminate].
  intros He. apply res_bind_ok in He as (svcname & _ & He).
  destruct (checks s !! _) as [x|]; [destruct (_ && _)|]; injection He as <-; apply VR_eq; reflexivity.
Qed.

Lemma rfold_VR {A} (f : st -> A -> res st) l :
  (forall x a b, f a x = Ok b -> VR b a) -> forall s s', rfold f l s = Ok s' -> VR s' s.
Proof.
  intros Hf. induction l as [|x l IH]; intros s s'; cbn [rfold]; [intros [= <-]; apply VR_refl|].
  intros Hr. apply res_bind_ok in Hr as (s1 & E & Hr).
  eapply VR_trans; [apply (IH _ _ Hr)|apply (Hf _ _ _ E)].
Qed.

Lemma ensure_registration_VR idx nd id addr skip sv cks s s' :
  ensure_registration idx nd id addr skip sv cks s = Ok s' -> VR s' s.
Proof.
  unfold ensure_registration. intros He.
  apply res_bind_ok in He as (s1 & E1 & He). apply res_bind_ok in He as (s2 & E2 & He).
  assert (H1 : VR s1 s).
  { destruct (changes_node _ _ _ _); [apply (ensure_node_VR _ _ _ _ _ _ E1)|injection E1 as <-; apply VR_refl]. }
  assert (H2 : VR s2 s).
  { eapply VR_trans; [|exact H1]. destruct sv as [r|]; [|injection E2 as <-; apply VR_refl].
    destruct (services s1 !! (nd, sr_id r)) as [x|].
    - destruct (_ && _); [injection E2 as <-; apply VR_refl|apply (ensure_service_VR _ _ _ _ _ E2)].
    - apply (ensure_service_VR _ _ _ _ _ E2). }
  eapply VR_trans; [|exact H2]. revert He. apply rfold_VR.
  intros c a b. destruct (bool_decide _); [|discriminate]. apply ensure_check_VR.
Qed.

Lemma txn_op_VR idx op s s' : txn_op idx op s = Ok s' -> VR s' s.
Proof.
  destruct op; cbn [txn_op].
  - destruct v; intros He.
    + destruct (bool_decide (id = "")); destruct (bool_decide _); try discriminate; injection He as <-; apply VR_refl.
    + apply (ensure_node_VR _ _ _ _ _ _ He).
    + destruct (cas_ok _ _ _); [apply (ensure_node_VR _ _ _ _ _ _ He)|discriminate].
    + injection He as <-. apply delete_node_VR.
    + destruct (nodes s !! nd); [|discriminate]. destruct (bool_decide _); [|discriminate]. injection He as <-. apply delete_node_VR.
  - destruct v; intros He.
    + destruct (bool_decide _); [|discriminate]. injection He as <-; apply VR_refl.
    + apply (ensure_service_VR _ _ _ _ _ He).
    + destruct (cas_ok _ _ _); [apply (ensure_service_VR _ _ _ _ _ He)|discriminate].
    + injection He as <-. apply delete_service_VR.
    + destruct (services s !! _); [|discriminate]. destruct (bool_decide _); [|discriminate]. injection He as <-. apply delete_service_VR.
  - destruct v; intros He.
    + destruct (bool_decide _); [|discriminate]. injection He as <-; apply VR_refl.
    + apply (ensure_check_VR _ _ _ _ He).
    + destruct (cas_ok _ _ _); [apply (ensure_check_VR _ _ _ _ He)|discriminate].
    + injection He as <-. apply VR_eq; reflexivity.
    + destruct (checks s !! _); [|discriminate]. destruct (bool_decide _); [|discriminate]. injection He as <-. apply VR_eq; reflexivity.
Qed.

Lemma txn_dispatch_VR idx ops : forall i s s', txn_dispatch idx i ops s = inl s' -> VR s' s.
Proof.
  induction ops as [|op ops IH]; intros i s s'; cbn; [intros [= <-]; apply VR_refl|].
  destruct (txn_op idx op s) as [s1|e] eqn:E; [|discriminate].
  intros Hd. eapply VR_trans; [apply (IH _ _ _ Hd)|apply (txn_op_VR _ _ _ _ E)].
Qed.

Lemma conf_set_VR name c s s' : conf_set name c s = Ok s' -> VR s' s.
Proof.
  unfold conf_set. intros He.
  set (s1 := match c with CTermGW _ | CIngressGW _ => update_gateway_services name c s | _ => s end) in He.
  assert (H1 : VR s1 s).
  { subst s1. destruct c; try apply VR_refl; apply VR_core, update_gateway_services_core. }
  clearbody s1.
  set (s2 := match c with CDefaults true => _ | CDefaults false => _ | _ => s1 end) in He.
  assert (H2 : VR s2 s).
  { subst s2. destruct c as [| |[]|]; try exact H1.
    2:{ destruct (bool_decide _); [|exact H1]. cbv zeta. eapply VR_trans; [apply VR_core, drop_destination_core|exact H1]. }
    cbv zeta.
    eapply VR_trans; [apply VR_core, upsert_ksn_core|]. eapply VR_trans; [|exact H1]. apply VR_core.
    eapply same_core_trans; [apply check_gateway_and_update_core|apply check_gateway_wildcards_and_update_core]. }
  clearbody s2.
  apply res_bind_ok in He as (s3 & E3 & He). injection He as <-.
  assert (H3 : VR s3 s).
  { destruct (_ && _); [|injection E3 as <-; exact H2].
    apply res_bind_ok in E3 as ([ip s'] & Ea & E3). injection E3 as <-.
    eapply VR_trans; [apply (assign_vip_VR _ _ _ _ Ea)|exact H2]. }
  eapply VR_trans; [apply VR_eq; reflexivity|exact H3].
Qed.

Lemma conf_delete_VR kind name s : VR (conf_delete kind name s) s.
Proof.
  unfold conf_delete. destruct (confs s !! (kind, name)) as [c|]; [|apply VR_refl].
  set (s1 := if bool_decide (kind = "terminating-gateway") || bool_decide (kind = "ingress-gateway") then _ else s).
  assert (H1 : VR s1 s) by (subst s1; destruct (_ || _); apply VR_eq; reflexivity). clearbody s1.
  set (s2 := match c with CDefaults true => _ | _ => s1 end).
  assert (H2 : VR s2 s).
  { subst s2. destruct c as [| |[]|]; try exact H1. cbv zeta.
    eapply VR_trans; [apply VR_core, cleanup_ksn_core|]. eapply VR_trans; [|exact H1]. apply VR_core.
    eapply same_core_trans; [apply check_gateway_and_update_core|].
    eapply same_core_trans; [apply cleanup_gateway_wildcards_core|apply check_gateway_wildcards_and_update_core]. }
  clearbody s2.
  set (s3 := if bool_decide (kind = "ingress-gateway") then _ else s2).
  assert (H3 : VR s3 s) by (subst s3; destruct (bool_decide _); [eapply VR_trans; [apply VR_eq; reflexivity|exact H2]|exact H2]).
  clearbody s3.
  assert (H4 : VR (s3 <| confs ::= delete (kind, name) |>) s) by (eapply VR_trans; [apply VR_eq; reflexivity|exact H3]).
  destruct (_ && _); [eapply VR_trans; [apply free_vip_VR|exact H4]|exact H4].
Qed.

(* ---------- AssignManualServiceVIPs ---------- *)
Lemma elem_of_ssort (x : string) l : x ∈ ssort l <-> x ∈ l.
Proof.
  assert (Hins : forall y l', x ∈ sinsert y l' <-> x = y \/ x ∈ l').
  { intros y l'. induction l' as [|z l' IH]; cbn; [rewrite elem_of_list_singleton, elem_of_nil; tauto|].
    destruct (String.leb y z); rewrite !elem_of_cons; [tauto|]. rewrite IH. tauto. }
  induction l as [|y l IH]; cbn; [reflexivity|]. rewrite Hins, IH, elem_of_cons. reflexivity.
Qed.

Lemma elem_of_dedup_sorted (x : string) l : x ∈ dedup_sorted l <-> x ∈ l.
Proof.
  induction l as [|y l IH]; [reflexivity|]. destruct l as [|z l]; [reflexivity|].
  change (dedup_sorted (y :: z :: l)) with (if bool_decide (y = z) then dedup_sorted (z :: l) else y :: dedup_sorted (z :: l)).
  destruct (bool_decide (y = z)) eqn:E.
  - apply bool_decide_eq_true in E as ->. rewrite IH, !elem_of_cons. tauto.
  - rewrite elem_of_cons, IH, (elem_of_cons (z :: l)). reflexivity.
Qed.

Lemma manual_holder_Some ip s n : manual_holder ip s = Some n -> exists a m, vips s !! n = Some (a, m) /\ ip ∈ m.
Proof.
  unfold manual_holder. set (l := omap _ _). destruct (ssort l) as [|n0 rest] eqn:E; [discriminate|]. intros [= ->].
  assert (Hin : n ∈ l) by (apply elem_of_ssort; rewrite E; left).
  subst l. apply elem_of_list_omap in Hin as ([n' [a m]] & Hin & Hf). apply elem_of_map_to_list in Hin.
  destruct (bool_decide (ip ∈ m)) eqn:Eb; [|discriminate]. injection Hf as ->. apply bool_decide_eq_true in Eb. eauto.
Qed.

Lemma manual_holder_None ip s : manual_holder ip s = None -> forall n a m, vips s !! n = Some (a, m) -> ip ∉ m.
Proof.
  unfold manual_holder. set (l := omap _ _). destruct (ssort l) as [|n0 rest] eqn:E; [|discriminate]. intros _ n a m Hn Hin.
  assert (Hl : n ∈ l).
  { subst l. apply elem_of_list_omap. exists (n, (a, m)). split; [apply elem_of_map_to_list; exact Hn|].
    cbn. rewrite bool_decide_eq_true_2 by exact Hin. reflexivity. }
  apply elem_of_ssort in Hl. rewrite E in Hl. inversion Hl.
Qed.

(* after the addresses of [done] have been processed: the lists only shrank, and nobody but [name]
   holds an address of [done] *)
Lemma assign_manual_MU name ips s : MU s -> MU (assign_manual name ips s).2.
Proof.
  intros HM. unfold assign_manual.
  set (step := fun '(s', from) ip => _).
  assert (Hfold : forall l (acc : st * list string) (seen : list string),
    VR acc.1 s -> (forall x n a m, x ∈ seen -> n ≠ name -> vips acc.1 !! n = Some (a, m) -> x ∉ m) ->
    (forall x, x ∈ l -> x ∈ ips) ->
    let r := foldl step acc l in
    VR r.1 s /\ (forall x n a m, x ∈ seen ++ l -> n ≠ name -> vips r.1 !! n = Some (a, m) -> x ∉ m)).
  { induction l as [|ip l IH]; intros acc seen Hvr Hseen Hl; cbn.
    - split; [exact Hvr|]. intros x n a m Hx. rewrite app_nil_r in Hx. apply Hseen; exact Hx.
    - replace (seen ++ ip :: l) with ((seen ++ [ip]) ++ l) by (rewrite <- app_assoc; reflexivity).
      apply IH; [| |intros x Hx; apply Hl; right; exact Hx]; destruct acc as [s1 from]; cbn in *.
      + destruct (manual_holder ip s1) as [n|]; [|exact Hvr]. destruct (bool_decide (n = name)); [exact Hvr|].
        destruct (vips s1 !! n) as [[a m]|] eqn:En; [|exact Hvr]. cbn.
        eapply VR_trans; [|exact Hvr]. intros n' j l' H'. cbn in H'. destruct (decide (n' = n)) as [->|Hne].
        * rewrite lookup_insert in H'. injection H' as <- <-. right. exists a, m. split; [exact En|].
          intros x Hx. apply elem_of_list_filter in Hx as [_ Hx]. exact Hx.
        * rewrite lookup_insert_ne in H' by congruence. right. eauto.
      + assert (HM1 : MU s1) by (apply (MU_VR _ s Hvr HM)).
        intros x n' a' m' Hx Hn' H' Hin. apply elem_of_app in Hx as [Hx|Hx].
        * (* an address processed earlier: the lists only shrink *)
          destruct (manual_holder ip s1) as [n|]; [|apply (Hseen x n' a' m' Hx Hn' H' Hin)].
          destruct (bool_decide (n = name)); [apply (Hseen x n' a' m' Hx Hn' H' Hin)|].
          destruct (vips s1 !! n) as [[a m]|] eqn:En; [|apply (Hseen x n' a' m' Hx Hn' H' Hin)].
          cbn in H'. destruct (decide (n' = n)) as [->|Hne].
          -- rewrite lookup_insert in H'. injection H' as <- <-. apply elem_of_list_filter in Hin as [_ Hin].
             apply (Hseen x n a m Hx Hn' En Hin).
          -- rewrite lookup_insert_ne in H' by congruence. apply (Hseen x n' a' m' Hx Hn' H' Hin).
        * (* the address processed now *)
          apply elem_of_list_singleton in Hx as ->.
          destruct (manual_holder ip s1) as [n|] eqn:Eh.
          -- destruct (manual_holder_Some _ _ _ Eh) as (a & m & En & Hip).
             destruct (bool_decide (n = name)) eqn:Enn.
             ++ apply bool_decide_eq_true in Enn as ->. apply Hn'. apply (HM1 n' name a' m' a m ip H' En Hin Hip).
             ++ rewrite En in H'. cbn in H'. destruct (decide (n' = n)) as [->|Hne].
                ** rewrite lookup_insert in H'. injection H' as <- <-. apply elem_of_list_filter in Hin as [Hnot _].
                   apply Hnot. apply Hl. left.
                ** rewrite lookup_insert_ne in H' by congruence. apply Hne. apply (HM1 n' n a' m' a m ip H' En Hin Hip).
          -- apply (manual_holder_None _ _ Eh n' a' m' H' Hin). }
  specialize (Hfold (dedup_sorted (ssort ips)) (s, []) [] (VR_refl s) ltac:(intros x n a m Hx; inversion Hx)
                    ltac:(intros x Hx; rewrite elem_of_dedup_sorted, elem_of_ssort in Hx; exact Hx)).
  cbn zeta in Hfold. destruct (foldl step (s, []) (dedup_sorted (ssort ips))) as [s1 from]. cbn in Hfold.
  destruct Hfold as [Hvr Hnone].
  destruct (vips s1 !! name) as [[a m]|] eqn:En; cbn; [|exact HM].
  assert (HM1 : MU s1) by (apply (MU_VR _ s Hvr HM)).
  destruct (_ && _); cbn; [exact HM1|].
  intros n1 n2 a1 m1 a2 m2 x H1 H2 X1 X2. cbn in H1, H2.
  destruct (decide (n1 = name)) as [->|N1], (decide (n2 = name)) as [->|N2]; [reflexivity| | |].
  - rewrite lookup_insert in H1. injection H1 as <- <-. rewrite lookup_insert_ne in H2 by congruence.
    exfalso. apply (Hnone x n2 a2 m2); [|exact N2|exact H2|exact X2].
    rewrite elem_of_dedup_sorted, elem_of_ssort. rewrite elem_of_ssort in X1. exact X1.
  - rewrite lookup_insert in H2. injection H2 as <- <-. rewrite lookup_insert_ne in H1 by congruence.
    exfalso. apply (Hnone x n1 a1 m1); [|exact N1|exact H1|exact X1].
    rewrite elem_of_dedup_sorted, elem_of_ssort. rewrite elem_of_ssort in X2. exact X2.
  - rewrite lookup_insert_ne in H1, H2 by congruence. apply (HM1 n1 n2 a1 m1 a2 m2 x H1 H2 X1 X2).
Qed.

(* ---------- every command, every reachable state ---------- *)
Lemma MU_st0 : MU st0.
Proof. intros n1 n2 a1 m1 a2 m2 x H. cbn in H. rewrite lookup_empty in H. discriminate. Qed.

Lemma exec_MU idx c s : MU s -> MU (exec idx c s).1.
Proof.
  intros HM. destruct c; cbn [exec].
  - cbn. exact HM.
  - destruct (ensure_registration _ _ _ _ _ _ _ s) as [s'|e] eqn:E; cbn; [|exact HM].
    apply (MU_VR _ s (ensure_registration_VR _ _ _ _ _ _ _ _ _ E) HM).
  - destruct (negb _); cbn; [apply (MU_VR _ s (delete_service_VR _ _ _) HM)|].
    destruct (negb _); cbn; [exact HM|apply (MU_VR _ s (delete_node_VR _ _) HM)].
  - destruct (txn_dispatch idx 0 ops s) as [s'|[i e]] eqn:E; cbn; [|exact HM].
    apply (MU_VR _ s (txn_dispatch_VR _ _ _ _ _ E) HM).
  - destruct (conf_set name c s) as [s'|e] eqn:E; cbn; [|exact HM]. apply (MU_VR _ s (conf_set_VR _ _ _ _ E) HM).
  - cbn. apply (MU_VR _ s (conf_delete_VR _ _ _) HM).
  - pose proof (assign_manual_MU name ips s HM) as H. destruct (assign_manual name ips s) as [[found from] s']. exact H.
  - cbn. destruct (bool_decide _); cbn; exact HM.
  - cbn. exact HM.
Qed.

Theorem manual_vip_unique s : CReach s -> MU s.
Proof.
  induction 1 as [|idx c s _ IH]; [apply MU_st0|].
  unfold apply. pose proof (exec_MU idx c s IH) as He. destruct (exec idx c s) as [s' r]. cbn [fst] in *. exact He.
Qed.

(* non-vacuity: two services with manual addresses; the second request takes one away from the first *)
Definition manual_log : list (N * cmd) :=
  [ (2, SysMeta true);
    (3, Register "n1" "" 1 false (Some (SvcReq "s1" "web" KTypical true "" 80 [] true 0)) []);
    (4, Register "n1" "" 1 false (Some (SvcReq "s2" "db" KTypical true "" 80 [] true 0)) []);
    (5, ManualVIPs "web" ["1.1.1.1"; "2.2.2.2"]);
    (6, ManualVIPs "db" ["2.2.2.2"; "3.3.3.3"]) ].

Example manual_example :
  let s := (run manual_log st0).1 in
  CReach s /\ vips s !! "web" = Some (1, ["1.1.1.1"]) /\ vips s !! "db" = Some (2, ["2.2.2.2"; "3.3.3.3"]).
Proof. cbv zeta. split; [apply CReach_run|]. split; vm_compute; reflexivity. Qed.
