(* Frame lemmas for the catalog model: the functions that maintain gateway-services, mesh-topology
   and kind-service-names touch nothing else ("core": base rows, config entries, virtual IPs, usage). *)
From stdpp Require Import gmap strings.
From RecordUpdate Require Import RecordSet.
From Coq Require Import NArith.
From Verif Require Import Catalog.Model.
Import RecordSetNotations.
Local Open Scope N_scope.

Definition same_core (a b : st) : Prop :=
  nodes a = nodes b /\ services a = services b /\ checks a = checks b /\ coords a = coords b /\
  confs a = confs b /\ vips a = vips b /\ free a = free b /\ counter a = counter b /\
  vips_on a = vips_on b /\ usage a = usage b.

Lemma same_core_refl a : same_core a a.
Proof. repeat split. Qed.
Lemma same_core_trans a b c : same_core a b -> same_core b c -> same_core a c.
Proof. unfold same_core. intuition congruence. Qed.
Lemma same_core_sym a b : same_core a b -> same_core b a.
Proof. unfold same_core. intuition congruence. Qed.

Lemma foldl_core {A} (g : st -> A -> st) l :
  (forall s x, same_core (g s x) s) -> forall s, same_core (foldl g s l) s.
Proof.
  intros Hg. induction l as [|x l IH]; intros s; cbn; [apply same_core_refl|].
  eapply same_core_trans; [apply IH|apply Hg].
Qed.

(* the same-core facts that are also needed "through" the derived tables: has_instance and friends
   read only the services and config entries *)
Lemma has_instance_core a b name : same_core a b -> has_instance name a = has_instance name b.
Proof. intros (_ & Hs & _). unfold has_instance. rewrite Hs. reflexivity. Qed.
Lemma has_connect_instance_core a b name : same_core a b -> has_connect_instance name a = has_connect_instance name b.
Proof. intros (_ & Hs & _). unfold has_connect_instance. rewrite Hs. reflexivity. Qed.

Lemma upsert_ksn_core k n s : same_core (upsert_ksn k n s) s.
Proof. repeat split. Qed.
Lemma cleanup_ksn_core k n s : same_core (cleanup_ksn k n s) s.
Proof. repeat split. Qed.

Lemma insert_gw_topology_core gw sv r s : same_core (insert_gw_topology gw sv r s) s.
Proof. unfold insert_gw_topology. destruct (_ && _); repeat split. Qed.
Lemma delete_gw_topology_core gw sv r s : same_core (delete_gw_topology gw sv r s) s.
Proof. unfold delete_gw_topology. destruct (bool_decide _); repeat split. Qed.

Lemma update_gateway_service_core gw sv port r s : same_core (update_gateway_service gw sv port r s) s.
Proof.
  unfold update_gateway_service. destruct (bool_decide _); [apply same_core_refl|].
  eapply same_core_trans; [apply insert_gw_topology_core|repeat split].
Qed.

Lemma check_gateway_wildcards_and_update_core name ns kind s :
  same_core (check_gateway_wildcards_and_update name ns kind s) s.
Proof.
  unfold check_gateway_wildcards_and_update.
  destruct (service_has_connect_instances name s) as [hc0 hn0].
  destruct (match ns with Some (k, native) => _ | None => _ end) as [hc hn].
  apply foldl_core. intros s' key. destruct (gws s !! key) as [w|]; [|apply same_core_refl].
  destruct (_ && _); [apply same_core_refl|]. destruct (_ && _); [apply same_core_refl|].
  destruct (gws s' !! _) as [listed|]; [destruct (negb (g_wild listed)); [apply same_core_refl|]|]; apply update_gateway_service_core.
Qed.

Lemma check_gateway_and_update_core name kind s : same_core (check_gateway_and_update name kind s) s.
Proof.
  unfold check_gateway_and_update. apply foldl_core. intros s' key.
  destruct (gws s !! key); [apply update_gateway_service_core|apply same_core_refl].
Qed.

Lemma cleanup_gateway_wildcards_core name cd s : same_core (cleanup_gateway_wildcards name cd s) s.
Proof.
  unfold cleanup_gateway_wildcards. destruct (service_has_connect_instances name s) as [hc hn].
  apply foldl_core. intros s' key. destruct (gws s !! key) as [m|]; [|apply same_core_refl].
  destruct (g_wild m).
  - destruct (_ && _); [apply same_core_refl|]. destruct (_ && _); [apply same_core_refl|].
    eapply same_core_trans; [apply delete_gw_topology_core|repeat split].
  - apply check_gateway_and_update_core.
Qed.

(* what conf_delete, and since /repo 0d0f3e6 an update that drops the Destination, run for a destination *)
Lemma drop_destination_core name k s :
  same_core (cleanup_ksn destination_kind name
               (check_gateway_and_update name k
                  (cleanup_gateway_wildcards name true (check_gateway_wildcards_and_update name None k s)))) s.
Proof.
  eapply same_core_trans; [apply cleanup_ksn_core|].
  eapply same_core_trans; [apply check_gateway_and_update_core|].
  eapply same_core_trans; [apply cleanup_gateway_wildcards_core|apply check_gateway_wildcards_and_update_core].
Qed.

Lemma update_gateway_namespace_core gw port r s : same_core (update_gateway_namespace gw port r s) s.
Proof.
  unfold update_gateway_namespace.
  eapply same_core_trans; [apply update_gateway_service_core|].
  eapply same_core_trans.
  { apply foldl_core. intros s' name. destruct (bool_decide _); [apply same_core_refl|apply update_gateway_service_core]. }
  apply foldl_core. intros s' name. destruct (bool_decide (name = consul_name)); [apply same_core_refl|].
  destruct (service_has_connect_instances name s') as [hc hn].
  destruct (_ && _); [apply same_core_refl|]. destruct (_ && _); [apply same_core_refl|].
  destruct (bool_decide _); [apply same_core_refl|apply update_gateway_service_core].
Qed.

Lemma update_gateway_services_core name c s : same_core (update_gateway_services name c s) s.
Proof.
  unfold update_gateway_services. destruct (bool_decide _); [apply same_core_refl|].
  eapply same_core_trans.
  { apply foldl_core. intros s' [[sv port] r]. destruct (bool_decide _);
      [apply update_gateway_namespace_core|apply update_gateway_service_core]. }
  destruct c; repeat split.
Qed.

Lemma update_mesh_topology_core nd sid dest ups ex s : same_core (update_mesh_topology nd sid dest ups ex s) s.
Proof.
  unfold update_mesh_topology.
  eapply same_core_trans.
  { apply foldl_core. intros s' u. destruct (bool_decide _); repeat split. }
  apply foldl_core. intros s' u. repeat split.
Qed.

Lemma cleanup_mesh_topology_core nd sid v s : same_core (cleanup_mesh_topology nd sid v s) s.
Proof. unfold cleanup_mesh_topology. destruct (negb _); repeat split. Qed.
