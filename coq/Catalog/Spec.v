(* What the derived catalog tables OUGHT to contain: from-scratch functions of the base rows
   (nodes, service instances) and the config entries alone. *)
From stdpp Require Import gmap strings.
From RecordUpdate Require Import RecordSet.
From Coq Require Import NArith.
From Verif Require Import Catalog.Model.
Import RecordSetNotations.
Local Open Scope N_scope.

(* ---------- kind-service-names ---------- *)
(* (kind, name) of every instance; (connect-enabled, n) for every instance in the connect index;
   (destination, n) for every service-defaults entry with a destination *)
Definition recompute_ksn (s : st) : gset (string * string) :=
  list_to_set ((fun kv => (kind_str (sv_kind kv.2), sv_name kv.2)) <$> map_to_list (services s)) ∪
  list_to_set (omap (fun kv => match connect_name kv.2 with
                               | Some n => if bool_decide (n = "") then None else Some (connect_enabled, n)
                               | None => None
                               end) (map_to_list (services s))) ∪
  list_to_set (omap (fun kv => if bool_decide (kv.1.1 = "service-defaults") && bool_decide (kv.2 = CDefaults true)
                               then Some (destination_kind, kv.1.2) else None) (map_to_list (confs s))).

(* ---------- usage ---------- *)
Definition count {K A} `{Countable K} (P : A -> bool) (m : gmap K A) : N :=
  N.of_nat (size (filter (fun kv => P kv.2 = true) m)).

Definition names_of (s : st) : gset string := list_to_set ((fun kv => sv_name kv.2) <$> map_to_list (services s)).

Definition recompute_usage (s : st) (id : string) : N :=
  if bool_decide (id = "nodes") then N.of_nat (size (nodes s))
  else if bool_decide (id = "services") then N.of_nat (size (services s))
  else if bool_decide (id = "service-names") then N.of_nat (size (names_of s))
  else if bool_decide (id = connect_usage KProxy) then count (fun v => bool_decide (sv_kind v = KProxy)) (services s)
  else if bool_decide (id = connect_usage KMeshGW) then count (fun v => bool_decide (sv_kind v = KMeshGW)) (services s)
  else if bool_decide (id = connect_usage KTermGW) then count (fun v => bool_decide (sv_kind v = KTermGW)) (services s)
  else if bool_decide (id = connect_usage KIngressGW) then count (fun v => bool_decide (sv_kind v = KIngressGW)) (services s)
  else if bool_decide (id = native_usage) then count sv_native (services s)
  else if bool_decide (id = billable_usage)
       then count (fun v => bool_decide (sv_kind v = KTypical) && negb (bool_decide (sv_name v = consul_name))) (services s)
  else if bool_decide (id = conf_usage "terminating-gateway") then count (fun c => bool_decide (conf_kind c = "terminating-gateway")) (confs s)
  else if bool_decide (id = conf_usage "ingress-gateway") then count (fun c => bool_decide (conf_kind c = "ingress-gateway")) (confs s)
  else if bool_decide (id = conf_usage "service-defaults") then count (fun c => bool_decide (conf_kind c = "service-defaults")) (confs s)
  else if bool_decide (id = conf_usage "service-resolver") then count (fun c => bool_decide (conf_kind c = "service-resolver")) (confs s)
  else 0.

Definition stored_usage (s : st) (id : string) : N := default 0 (usage s !! id).

(* ---------- gateway-services ---------- *)
Definition instance_names (P : svc -> bool) (s : st) : list string :=
  omap (fun kv => if P kv.2 then Some (sv_name kv.2) else None) (map_to_list (services s)).
Definition connect_names (s : st) : list string :=
  omap (fun kv => match connect_name kv.2 with
                  | Some n => if bool_decide (n = "") || bool_decide (n = consul_name) then None else Some n
                  | None => None end) (map_to_list (services s)).

(* the rows a terminating / ingress gateway entry determines: the listed services; for a wildcard the
   wildcard row itself, every typical service name with a non-native instance (terminating) or every
   name with a connect instance (ingress), and (terminating) every destination; a listed service wins
   over the wildcard.  The stored ServiceKind is compared only as "is a destination". *)
Definition recompute_gws_entry (gw : string) (c : conf) (s : st) : gmap (string * string * N) (skind * bool) :=
  match c with
  | CTermGW svcs =>
    let exact : gmap (string * string * N) (skind * bool) :=
        list_to_map ((fun sv => ((gw, sv, 0), (KTermGW, false))) <$> filter (fun sv => sv ≠ wildcard) svcs) in
    if bool_decide (wildcard ∈ svcs) then
      let wild : gmap (string * string * N) (skind * bool) :=
          list_to_map ((fun sv => ((gw, sv, 0), (KTermGW, true))) <$>
                       (filter (fun n => has_nonnative_instance n s = true)
                               (instance_names (fun v => bool_decide (sv_kind v = KTypical) &&
                                                         negb (bool_decide (sv_name v = consul_name))) s)
                        ++ dest_conf_names s)) in
      <[(gw, wildcard, 0) := (KTermGW, false)]> (exact ∪ wild)
    else exact
  | CIngressGW ls =>
    foldr (fun '(port, svcs) acc =>
             let exact : gmap (string * string * N) (skind * bool) :=
                 list_to_map ((fun sv => ((gw, sv, port), (KIngressGW, false))) <$> filter (fun sv => sv ≠ wildcard) svcs) in
             let here :=
                 if bool_decide (wildcard ∈ svcs) then
                   <[(gw, wildcard, port) := (KIngressGW, false)]>
                     (exact ∪ list_to_map ((fun sv => ((gw, sv, port), (KIngressGW, true))) <$> connect_names s))
                 else exact in
             here ∪ acc) ∅ ls
  | _ => ∅
  end.

Definition recompute_gws (s : st) : gmap (string * string * N) (skind * bool) :=
  map_fold (fun k c acc => recompute_gws_entry k.2 c s ∪ acc) ∅ (confs s).

Definition stored_gws (s : st) : gmap (string * string * N) (skind * bool) :=
  (fun r => (g_gwkind r, g_wild r)) <$> gws s.

(* ---------- mesh-topology ---------- *)
(* (upstream, downstream) -> the instances that declare the pair; pairs implied by the stored
   ingress associations carry no reference *)
Definition recompute_topo (s : st) : gmap (string * string) (gset (string * string)) :=
  let proxies :=
      map_fold (fun k v acc =>
                  if bool_decide (sv_kind v = KProxy) || sv_native v then
                    foldr (fun u acc' => <[(u, sv_dest v) := {[ k ]} ∪ default ∅ (acc' !! (u, sv_dest v))]> acc') acc (sv_ups v)
                  else acc) ∅ (services s) in
  map_fold (fun k r acc =>
              if bool_decide (g_gwkind r = KIngressGW) && negb (bool_decide (k.1.2 = wildcard))
              then (if bool_decide (is_Some (acc !! (k.1.2, k.1.1))) then acc else <[(k.1.2, k.1.1) := ∅]> acc)
              else acc) proxies (gws s).
