(* Virtual IPs in the catalog model: the assignment is injective in every reachable state, and the
   virtual IP any instance advertises is the current assignment of its service (for a sidecar proxy:
   of its destination).  The second statement was false for sidecar proxies until freeServiceVirtualIP
   learnt to look at the connect index (/repo 8e1bd1c). *)
From stdpp Require Import gmap strings.
From RecordUpdate Require Import RecordSet.
From Coq Require Import NArith.
From Verif Require Import Catalog.Model Catalog.Frames.
Import RecordSetNotations.
Local Open Scope N_scope.

Definition VI (s : st) : Prop :=
  (forall n1 n2 ip m1 m2, vips s !! n1 = Some (ip, m1) -> vips s !! n2 = Some (ip, m2) -> n1 = n2) /\
  (forall n ip m, vips s !! n = Some (ip, m) -> 0 < ip <= counter s /\ ip ∉ free s) /\
  (forall ip, ip ∈ free s -> 0 < ip <= counter s).

(* an instance that advertises a virtual IP is in the connect index, and the address is the current
   assignment of the service it is indexed under *)
Definition AD (s : st) : Prop :=
  forall k v ip, services s !! k = Some v -> sv_vip v = Some ip ->
    exists n m, connect_name v = Some n /\ vips s !! n = Some (ip, m).

Definition INV (s : st) : Prop := VI s /\ AD s.

Lemma INV_ext a b :
  services a = services b -> vips a = vips b -> free a = free b -> counter a = counter b -> INV b -> INV a.
Proof. intros Hs Hv Hf Hc [H1 H2]. unfold INV, VI, AD. rewrite Hs, Hv, Hf, Hc. split; assumption. Qed.

Lemma INV_core a b : same_core a b -> INV b -> INV a.
Proof. intros (_ & Hs & _ & _ & _ & Hv & Hf & Hc & _). apply INV_ext; assumption. Qed.

Lemma INV_st0 : INV st0.
Proof.
  split; [split; [|split]|].
  - intros n1 n2 ip m1 m2 H. cbn in H. rewrite lookup_empty in H. discriminate.
  - intros n ip m H. cbn in H. rewrite lookup_empty in H. discriminate.
  - intros ip H. cbn in H. set_solver.
  - intros k v ip H. cbn in H. rewrite lookup_empty in H. discriminate.
Qed.

(* ---------- the allocator ---------- *)
Lemma foldr_min_in x l : foldr N.min x l ∈ x :: l.
Proof.
  induction l as [|y l IH]; cbn; [left|].
  destruct (N.min_spec y (foldr N.min x l)) as [[_ ->]|[_ ->]].
  - right; left.
  - apply elem_of_cons in IH as [IH|IH]; [rewrite IH; left|right; right; exact IH].
Qed.

Lemma min_free_elem f ip : min_free f = Some ip -> ip ∈ f.
Proof.
  unfold min_free. destruct (elements f) as [|x l] eqn:E; [discriminate|].
  intros [= <-]. apply elem_of_elements. rewrite E. apply foldr_min_in.
Qed.
Lemma min_free_none f : min_free f = None -> f = ∅.
Proof.
  unfold min_free. destruct (elements f) as [|x l] eqn:E; [|discriminate].
  intros _. apply leibniz_equiv. apply elements_empty_inv. exact E.
Qed.

Lemma assign_vip_INV name s ip s' :
  assign_vip name s = Ok (ip, s') -> INV s ->
  INV s' /\ (exists m, vips s' !! name = Some (ip, m)) /\ same_core s' (s <| vips := vips s' |> <| free := free s' |> <| counter := counter s' |>).
Proof.
  unfold assign_vip. intros Ha [(Hinj & Hrange & Hfree) Had].
  destruct (vips s !! name) as [[ip0 m0]|] eqn:Ev.
  { injection Ha as <- <-. split; [split; [split; [|split]|]; assumption|]. split; [eauto|repeat split]. }
  assert (Hnew : forall ip1 (s1 : st),
    vips s1 = <[name := (ip1, [])]> (vips s) -> services s1 = services s ->
    (forall n ip2 m, vips s !! n = Some (ip2, m) -> ip2 ≠ ip1) ->
    (forall n1 n2 ip2 m1 m2, vips s1 !! n1 = Some (ip2, m1) -> vips s1 !! n2 = Some (ip2, m2) -> n1 = n2) /\ AD s1).
  { intros ip1 s1 Hv Hs Hfresh. split.
    - intros n1 n2 ip2 m1 m2. rewrite Hv. intros H1 H2.
      destruct (decide (n1 = name)) as [->|Hn1], (decide (n2 = name)) as [->|Hn2]; [reflexivity|..].
      + rewrite lookup_insert in H1. injection H1 as <- <-. rewrite lookup_insert_ne in H2 by congruence.
        exfalso. eapply Hfresh; [exact H2|reflexivity].
      + rewrite lookup_insert in H2. injection H2 as <- <-. rewrite lookup_insert_ne in H1 by congruence.
        exfalso. eapply Hfresh; [exact H1|reflexivity].
      + rewrite lookup_insert_ne in H1, H2 by congruence. eapply Hinj; eassumption.
    - intros k v ip2 Hk Hvip. rewrite Hs in Hk. destruct (Had k v ip2 Hk Hvip) as (n & m & Hcn & Hm).
      exists n. rewrite Hv. destruct (decide (n = name)) as [Heq|Hne]; [rewrite Heq in Hm; congruence|].
      rewrite lookup_insert_ne by congruence. eauto. }
  destruct (min_free (free s)) as [ipf|] eqn:Em.
  - injection Ha as <- <-. pose proof (min_free_elem _ _ Em) as Hin.
    match goal with |- INV ?x /\ _ => set (s1 := x) end.
    destruct (Hnew ipf s1) as [Hinj' Had']; [reflexivity|reflexivity| |].
    { intros n ip2 m Hn ->. destruct (Hrange _ _ _ Hn) as [_ Hnf]. contradiction. }
    split; [split; [split; [exact Hinj'|split]|exact Had']|split].
    + cbn. intros n ip2 m Hn. destruct (decide (n = name)) as [->|Hne].
      * rewrite lookup_insert in Hn. injection Hn as <- <-. split; [apply Hfree; exact Hin|set_solver].
      * rewrite lookup_insert_ne in Hn by congruence. destruct (Hrange _ _ _ Hn) as [Hr Hnf]. split; [exact Hr|set_solver].
    + cbn. intros ip2 Hip. apply Hfree. set_solver.
    + cbn. rewrite lookup_insert. eauto.
    + repeat split.
  - destruct (bool_decide (counter s + 1 = max_offset)); [discriminate|]. injection Ha as <- <-.
    pose proof (min_free_none _ Em) as Hemp.
    match goal with |- INV ?x /\ _ => set (s1 := x) end.
    destruct (Hnew (counter s + 1) s1) as [Hinj' Had']; [reflexivity|reflexivity| |].
    { intros n ip2 m Hn ->. destruct (Hrange _ _ _ Hn) as [Hr _]. lia. }
    split; [split; [split; [exact Hinj'|split]|exact Had']|split].
    + cbn. intros n ip2 m Hn. destruct (decide (n = name)) as [->|Hne].
      * rewrite lookup_insert in Hn. injection Hn as <- <-. rewrite Hemp. split; [lia|set_solver].
      * rewrite lookup_insert_ne in Hn by congruence. destruct (Hrange _ _ _ Hn) as [Hr Hnf]. split; [lia|exact Hnf].
    + cbn. intros ip2 Hip. rewrite Hemp in Hip. set_solver.
    + cbn. rewrite lookup_insert. eauto.
    + repeat split.
Qed.

Lemma has_instance_false name s k v : has_instance name s = false -> services s !! k = Some v -> sv_name v ≠ name.
Proof.
  unfold has_instance. intros Hf Hk Heq. apply bool_decide_eq_false in Hf. apply Hf.
  exists k, v. split; assumption.
Qed.

Lemma has_connect_instance_false name s k v :
  has_connect_instance name s = false -> services s !! k = Some v -> connect_name v ≠ Some name.
Proof.
  unfold has_connect_instance. intros Hf Hk Heq. apply bool_decide_eq_false in Hf. apply Hf.
  exists k, v. split; assumption.
Qed.

Lemma free_vip_INV name s : INV s -> INV (free_vip name s).
Proof.
  intros Hinv. unfold free_vip. destruct (negb (vips_on s)); [exact Hinv|].
  destruct (has_instance name s) eqn:Ehi; [exact Hinv|].
  destruct (has_connect_instance name s) eqn:Ehc; [exact Hinv|].
  destruct (existsb _ _); [exact Hinv|].
  destruct (vips s !! name) as [[ip m]|] eqn:Ev; [|exact Hinv].
  destruct Hinv as [(Hinj & Hrange & Hfree) Had]. split; [split; [|split]|]; cbn.
  - intros n1 n2 ip2 m1 m2 H1 H2. apply lookup_delete_Some in H1 as [_ H1], H2 as [_ H2]. eapply Hinj; eassumption.
  - intros n ip2 m2 Hn. apply lookup_delete_Some in Hn as [Hne Hn]. destruct (Hrange _ _ _ Hn) as [Hr _].
    split; [exact Hr|]. intros Hin. apply elem_of_singleton in Hin. subst ip2. apply Hne. symmetry. eapply Hinj; eassumption.
  - intros ip2 Hin. apply elem_of_singleton in Hin. subst ip2. apply (Hrange _ _ _ Ev).
  - intros k v ip2 Hk Hvip. destruct (Had k v ip2 Hk Hvip) as (n & m2 & Hcn & Hm2).
    exists n, m2. split; [exact Hcn|]. cbn. cbn in Hk. rewrite lookup_delete_ne; [exact Hm2|].
    intros Heq. apply (has_connect_instance_false _ _ _ _ Ehc Hk). congruence.
Qed.

Lemma INV_delete_service_row k s : INV s -> INV (s <| services ::= delete k |>).
Proof.
  intros [Hvi Had]. split; [exact Hvi|]. intros k' v ip Hk. cbn in Hk. apply lookup_delete_Some in Hk as [_ Hk].
  apply (Had k' v ip Hk).
Qed.

Lemma INV_insert_service_row k v s :
  INV s ->
  (forall ip, sv_vip v = Some ip -> exists n m, connect_name v = Some n /\ vips s !! n = Some (ip, m)) ->
  INV (s <| services ::= <[k := v]> |>).
Proof.
  intros [Hvi Had] Hnew. split; [exact Hvi|]. intros k' v' ip Hk. cbn in Hk.
  destruct (decide (k' = k)) as [->|Hne].
  - rewrite lookup_insert in Hk. injection Hk as <-. apply Hnew.
  - rewrite lookup_insert_ne in Hk by congruence. apply (Had k' v' ip Hk).
Qed.

(* manual virtual IPs only rewrite the list of manual addresses *)
Definition ipmap (s : st) : gmap string N := fst <$> vips s.
Lemma ipmap_lookup s n ip m : vips s !! n = Some (ip, m) -> ipmap s !! n = Some ip.
Proof. intros H. unfold ipmap. rewrite lookup_fmap, H. reflexivity. Qed.
Lemma ipmap_lookup_inv s n ip : ipmap s !! n = Some ip -> exists m, vips s !! n = Some (ip, m).
Proof. unfold ipmap. rewrite lookup_fmap. destruct (vips s !! n) as [[a m]|]; cbn; [|discriminate]. intros [= <-]. eauto. Qed.

Lemma INV_ipmap a b :
  services a = services b -> ipmap a = ipmap b -> free a = free b -> counter a = counter b -> INV b -> INV a.
Proof.
  intros Hs Hi Hf Hc [(Hinj & Hrange & Hfree) Had]. split; [split; [|split]|].
  - intros n1 n2 ip m1 m2 H1 H2. apply ipmap_lookup in H1, H2. rewrite Hi in H1, H2.
    apply ipmap_lookup_inv in H1 as [m1' H1], H2 as [m2' H2]. eapply Hinj; eassumption.
  - intros n ip m H. apply ipmap_lookup in H. rewrite Hi in H. apply ipmap_lookup_inv in H as [m' H].
    rewrite Hf, Hc. eapply Hrange; exact H.
  - rewrite Hf, Hc. exact Hfree.
  - intros k v ip Hk Hvip. rewrite Hs in Hk. destruct (Had k v ip Hk Hvip) as (n & m & Hcn & Hm).
    apply ipmap_lookup in Hm. rewrite <- Hi in Hm. apply ipmap_lookup_inv in Hm as [m' Hm']. eauto.
Qed.

Lemma assign_manual_frame name ips s :
  let s' := (assign_manual name ips s).2 in
  services s' = services s /\ ipmap s' = ipmap s /\ free s' = free s /\ counter s' = counter s /\
  same_core (s' <| vips := vips s |>) s.
Proof.
  cbn zeta. unfold assign_manual.
  set (step := fun '(s', from) ip => _).
  assert (Hfold : forall l (acc : st * list string),
    services acc.1 = services s /\ ipmap acc.1 = ipmap s /\ free acc.1 = free s /\ counter acc.1 = counter s /\
    same_core (acc.1 <| vips := vips s |>) s ->
    let r := foldl step acc l in
    services r.1 = services s /\ ipmap r.1 = ipmap s /\ free r.1 = free s /\ counter r.1 = counter s /\
    same_core (r.1 <| vips := vips s |>) s).
  { induction l as [|ip l IH]; intros acc Hacc; cbn; [exact Hacc|].
    apply IH. destruct acc as [s1 from]. cbn in Hacc |- *.
    destruct (manual_holder ip s1) as [n|]; [|exact Hacc].
    destruct (bool_decide (n = name)); [exact Hacc|].
    destruct (vips s1 !! n) as [[a m]|] eqn:En; [|exact Hacc]. cbn.
    destruct Hacc as (H1 & H2 & H3 & H4 & H5). repeat split; try assumption; try apply H5.
    rewrite <- H2. unfold ipmap. cbn. rewrite fmap_insert. cbn. apply insert_id. rewrite lookup_fmap, En. reflexivity. }
  specialize (Hfold (dedup_sorted (ssort ips)) (s, []) (conj eq_refl (conj eq_refl (conj eq_refl (conj eq_refl (same_core_refl _)))))).
  cbn zeta in Hfold. destruct (foldl step (s, []) (dedup_sorted (ssort ips))) as [s1 from]. cbn in Hfold.
  destruct (vips s1 !! name) as [[a m]|] eqn:En; cbn; [|repeat split].
  destruct (_ && _); cbn; [exact Hfold|].
  destruct Hfold as (H1 & H2 & H3 & H4 & H5). repeat split; try assumption; try apply H5.
  rewrite <- H2. unfold ipmap. cbn. rewrite fmap_insert. cbn. apply insert_id. rewrite lookup_fmap, En. reflexivity.
Qed.

Lemma assign_manual_INV name ips s : INV s -> INV (assign_manual name ips s).2.
Proof.
  intros H. destruct (assign_manual_frame name ips s) as (H1 & H2 & H3 & H4 & _).
  eapply INV_ipmap; eassumption.
Qed.

(* ---------- the catalog verbs ---------- *)
Lemma res_bind_ok {A B} (m : res A) (k : A -> res B) (b : B) :
  m ≫= k = Ok b -> exists a, m = Ok a /\ k a = Ok b.
Proof. destruct m as [a|e]; cbn; [eauto|discriminate]. Qed.

Lemma foldl_INV {A} (g : st -> A -> st) l :
  (forall s x, INV s -> INV (g s x)) -> forall s, INV s -> INV (foldl g s l).
Proof. intros Hg. induction l as [|x l IH]; intros s Hs; cbn; [exact Hs|]. apply IH, Hg, Hs. Qed.

Lemma delete_check_INV nd cid s : INV s -> INV (delete_check nd cid s).
Proof. apply INV_ext; reflexivity. Qed.

Lemma ensure_check_INV idx c s s' : ensure_check idx c s = Ok s' -> INV s -> INV s'.
Proof.
  unfold ensure_check. destruct (nodes s !! cr_node c); [|discriminate].
  intros He. apply res_bind_ok in He as (svcname & _ & He).
  destruct (checks s !! _) as [x|]; [destruct (_ && _)|]; injection He as <-; try tauto; apply INV_ext; reflexivity.
Qed.

Lemma delete_service_INV nd sid s : INV s -> INV (delete_service nd sid s).
Proof.
  intros Hinv. unfold delete_service. destruct (services s !! (nd, sid)) as [v|]; [|exact Hinv].
  set (s1 := foldl _ s _).
  assert (H1 : INV s1) by (apply foldl_INV; [intros; apply delete_check_INV; assumption|exact Hinv]).
  set (s2 := s1 <| services ::= delete (nd, sid) |>).
  assert (H2 : INV s2) by (apply INV_delete_service_row; exact H1).
  set (s3 := cleanup_mesh_topology nd sid v s2).
  assert (H3 : INV s3) by (eapply INV_core; [apply cleanup_mesh_topology_core|exact H2]).
  set (s4 := if has_instance (sv_name v) s3 then (if has_instance_kind (sv_name v) (sv_kind v) s3 then s3 else _) else _).
  assert (H4 : INV s4).
  { subst s4. destruct (has_instance _ _).
    - destruct (has_instance_kind _ _ _); [exact H3|]. eapply INV_core; [apply cleanup_ksn_core|exact H3].
    - eapply INV_core; [apply cleanup_ksn_core|]. apply free_vip_INV. exact H3. }
  set (s5 := match connect_name v with Some sn => _ | None => s4 end).
  assert (H5 : INV s5).
  { subst s5. destruct (connect_name v) as [sn|]; [|exact H4]. destruct (has_connect_instance sn s4); [exact H4|].
    eapply INV_core; [apply cleanup_gateway_wildcards_core|]. eapply INV_core; [apply cleanup_ksn_core|exact H4]. }
  eapply INV_core; [apply cleanup_gateway_wildcards_core|exact H5].
Qed.

Lemma delete_node_INV nd s : INV s -> INV (delete_node nd s).
Proof.
  intros Hinv. unfold delete_node. destruct (nodes s !! nd); [|exact Hinv].
  set (s1 := foldl _ s _).
  assert (H1 : INV s1) by (apply foldl_INV; [intros; apply delete_service_INV; assumption|exact Hinv]).
  set (s2 := foldl _ s1 _).
  assert (H2 : INV s2) by (apply foldl_INV; [intros; apply delete_check_INV; assumption|exact H1]).
  eapply INV_ext; [..|exact H2]; reflexivity.
Qed.

Lemma ensure_node_INV idx nd id addr s s' : ensure_node idx nd id addr s = Ok s' -> INV s -> INV s'.
Proof.
  unfold ensure_node. intros He Hinv. apply res_bind_ok in He as ([n0 s1] & E1 & E2).
  assert (H1 : INV s1).
  { destruct (bool_decide (id = "")); [injection E1 as _ <-; exact Hinv|].
    destruct (node_by_id id s) as [[oname on]|].
    - destruct (bool_decide (oname = nd)); [injection E1 as _ <-; exact Hinv|].
      destruct (similar_clash false nd id s); [discriminate|]. injection E1 as _ <-. apply delete_node_INV; exact Hinv.
    - destruct (similar_clash true nd id s); [discriminate|]. injection E1 as _ <-; exact Hinv. }
  cbn zeta in E2. destruct (match n0 with Some x => Some x | None => nodes s1 !! nd end) as [x|].
  - destruct (_ && _); injection E2 as <-; [exact H1|]. eapply INV_ext; [..|exact H1]; reflexivity.
  - injection E2 as <-. eapply INV_ext; [..|exact H1]; reflexivity.
Qed.

Lemma ensure_service_INV idx nd r s s' : ensure_service idx nd r s = Ok s' -> INV s -> INV s'.
Proof.
  unfold ensure_service. intros He Hinv.
  set (s1 := if bool_decide (sr_kind r = KTypical) && negb (bool_decide (sr_name r = consul_name)) then _ else s) in He.
  assert (H1 : INV s1).
  { subst s1. destruct (bool_decide (sr_kind r = KTypical) && negb (bool_decide (sr_name r = consul_name))); [|exact Hinv].
    eapply INV_core; [apply check_gateway_and_update_core|].
    eapply INV_core; [apply check_gateway_wildcards_and_update_core|exact Hinv]. }
  set (s2 := upsert_ksn _ _ s1) in He.
  assert (H2 : INV s2) by (eapply INV_core; [apply upsert_ksn_core|exact H1]).
  apply res_bind_ok in He as ([vip s7] & E3 & He).
  assert (H7 : INV s7 /\
    (forall ip, vip = Some ip -> is_connect r = true /\ exists m, vips s7 !! connect_target r = Some (ip, m))).
  { destruct (is_connect r) eqn:Eic; [|injection E3 as <- <-; split; [exact H2|discriminate]].
    cbn zeta in E3.
    set (s5 := if bool_decide (connect_target r = "") then _ else _) in E3.
    assert (H5 : INV s5).
    { subst s5. destruct (bool_decide (connect_target r = "")).
      - eapply INV_core; [apply check_gateway_wildcards_and_update_core|].
        eapply INV_core; [apply update_mesh_topology_core|exact H2].
      - eapply INV_core; [apply upsert_ksn_core|].
        eapply INV_core; [apply check_gateway_wildcards_and_update_core|].
        eapply INV_core; [apply update_mesh_topology_core|exact H2]. }
    destruct (vips_on s5 && negb (bool_decide (connect_target r = ""))); [|injection E3 as <- <-; split; [exact H5|discriminate]].
    apply res_bind_ok in E3 as ([ip s6] & Ea & E3). injection E3 as <- <-.
    destruct (assign_vip_INV _ _ _ _ Ea H5) as (H6 & [m Hm] & _). split; [exact H6|].
    intros ip' [= <-]. split; [reflexivity|]. exists m. exact Hm. }
  destruct H7 as [H7 Hvip].
  assert (Hrow : forall c m ip, sv_vip (Svc (sr_name r) (sr_kind r) (sr_native r) (sr_dest r) (sr_port r) (sr_ups r) vip c m) = Some ip ->
            exists n m', connect_name (Svc (sr_name r) (sr_kind r) (sr_native r) (sr_dest r) (sr_port r) (sr_ups r) vip c m) = Some n /\
                         vips s7 !! n = Some (ip, m')).
  { intros c m ip Hip. cbn in Hip. destruct (Hvip ip Hip) as [Hic [m' Hm']]. exists (connect_target r), m'. split; [|exact Hm'].
    unfold connect_name, connect_target, is_connect in *. cbn.
    destruct (bool_decide (sr_kind r = KProxy)); cbn in *; [reflexivity|]. rewrite Hic. reflexivity. }
  destruct (nodes s7 !! nd); [|discriminate].
  destruct (services s !! (nd, sr_id r)) as [x|].
  - destruct (same_service x r vip); injection He as <-; [exact H7|].
    apply INV_insert_service_row; [exact H7|]. apply Hrow.
  - injection He as <-. apply INV_insert_service_row; [exact H7|]. apply Hrow.
Qed.

Lemma rfold_INV {A} (f : st -> A -> res st) l :
  (forall x a b, f a x = Ok b -> INV a -> INV b) ->
  forall s s', rfold f l s = Ok s' -> INV s -> INV s'.
Proof.
  intros Hf. induction l as [|x l IH]; intros s s'; cbn [rfold]; [intros [= <-]; tauto|].
  intros Hr Hs. apply res_bind_ok in Hr as (s1 & E & Hr). apply (IH _ _ Hr). apply (Hf _ _ _ E Hs).
Qed.

Lemma ensure_registration_INV idx nd id addr skip sv cks s s' :
  ensure_registration idx nd id addr skip sv cks s = Ok s' -> INV s -> INV s'.
Proof.
  unfold ensure_registration. intros He Hinv.
  apply res_bind_ok in He as (s1 & E1 & He). apply res_bind_ok in He as (s2 & E2 & He).
  assert (H1 : INV s1).
  { destruct (changes_node _ _ _ _); [apply (ensure_node_INV _ _ _ _ _ _ E1 Hinv)|injection E1 as <-; exact Hinv]. }
  assert (H2 : INV s2).
  { destruct sv as [r|]; [|injection E2 as <-; exact H1].
    destruct (services s1 !! (nd, sr_id r)) as [x|].
    - destruct (_ && _); [injection E2 as <-; exact H1|apply (ensure_service_INV _ _ _ _ _ E2 H1)].
    - apply (ensure_service_INV _ _ _ _ _ E2 H1). }
  revert He H2. apply rfold_INV. intros c a b. destruct (bool_decide _); [|discriminate]. apply ensure_check_INV.
Qed.

Lemma conf_set_INV name c s s' : conf_set name c s = Ok s' -> INV s -> INV s'.
Proof.
  unfold conf_set. intros He Hinv.
  set (s1 := match c with CTermGW _ | CIngressGW _ => _ | _ => s end) in He.
  assert (H1 : INV s1).
  { subst s1. destruct c; try exact Hinv; (eapply INV_core; [apply update_gateway_services_core|exact Hinv]). }
  set (s2 := match c with CDefaults true => _ | CDefaults false => _ | _ => s1 end) in He.
  assert (H2 : INV s2).
  { subst s2. destruct c as [| |[]|]; try exact H1.
    2:{ destruct (bool_decide _); [|exact H1]. cbv zeta. eapply INV_core; [apply drop_destination_core|exact H1]. }
    eapply INV_core; [apply upsert_ksn_core|]. eapply INV_core; [apply check_gateway_and_update_core|].
    eapply INV_core; [apply check_gateway_wildcards_and_update_core|exact H1]. }
  apply res_bind_ok in He as (s3 & E3 & He). injection He as <-.
  eapply INV_ext; [..|]; try reflexivity.
  destruct (_ && _); [|injection E3 as <-; exact H2].
  apply res_bind_ok in E3 as ([ip s'] & Ea & E3). injection E3 as <-.
  apply (assign_vip_INV _ _ _ _ Ea H2).
Qed.

Lemma conf_delete_INV kind name s : INV s -> INV (conf_delete kind name s).
Proof.
  intros Hinv. unfold conf_delete. destruct (confs s !! (kind, name)) as [c|]; [|exact Hinv].
  set (s1 := if bool_decide (kind = "terminating-gateway") || bool_decide (kind = "ingress-gateway") then _ else s).
  assert (H1 : INV s1).
  { subst s1. destruct (bool_decide (kind = "terminating-gateway") || bool_decide (kind = "ingress-gateway"));
      [eapply INV_ext; [..|exact Hinv]; reflexivity|exact Hinv]. }
  clearbody s1.
  set (s2 := match c with CDefaults true => _ | _ => s1 end).
  assert (H2 : INV s2).
  { subst s2. destruct c as [| |[]|]; try exact H1.
    eapply INV_core; [apply cleanup_ksn_core|]. eapply INV_core; [apply check_gateway_and_update_core|].
    eapply INV_core; [apply cleanup_gateway_wildcards_core|].
    eapply INV_core; [apply check_gateway_wildcards_and_update_core|exact H1]. }
  clearbody s2.
  set (s3 := if bool_decide (kind = "ingress-gateway") then _ else s2).
  assert (H3 : INV s3).
  { subst s3. destruct (bool_decide (kind = "ingress-gateway")); [eapply INV_ext; [..|exact H2]; reflexivity|exact H2]. }
  clearbody s3.
  set (s4 := s3 <| confs ::= delete (kind, name) |>).
  assert (H4 : INV s4) by (eapply INV_ext; [..|exact H3]; reflexivity).
  clearbody s4.
  destruct (conf_has_vip c && negb (bool_decide (name = ""))); [apply free_vip_INV; exact H4|exact H4].
Qed.

Lemma txn_op_INV idx op s s' : txn_op idx op s = Ok s' -> INV s -> INV s'.
Proof.
  destruct op; cbn [txn_op].
  - destruct v.
    + destruct (bool_decide (id = "")); destruct (bool_decide _); try discriminate; intros [= <-]; tauto.
    + apply ensure_node_INV.
    + destruct (cas_ok _ _ _); [apply ensure_node_INV|discriminate].
    + intros [= <-]. apply delete_node_INV.
    + destruct (nodes s !! nd); [|discriminate]. destruct (bool_decide _); [|discriminate]. intros [= <-]. apply delete_node_INV.
  - destruct v.
    + destruct (bool_decide _); [|discriminate]. intros [= <-]; tauto.
    + apply ensure_service_INV.
    + destruct (cas_ok _ _ _); [apply ensure_service_INV|discriminate].
    + intros [= <-]. apply delete_service_INV.
    + destruct (services s !! _); [|discriminate]. destruct (bool_decide _); [|discriminate]. intros [= <-]. apply delete_service_INV.
  - destruct v.
    + destruct (bool_decide _); [|discriminate]. intros [= <-]; tauto.
    + apply ensure_check_INV.
    + destruct (cas_ok _ _ _); [apply ensure_check_INV|discriminate].
    + intros [= <-]. apply delete_check_INV.
    + destruct (checks s !! _); [|discriminate]. destruct (bool_decide _); [|discriminate]. intros [= <-]. apply delete_check_INV.
Qed.

Lemma txn_dispatch_INV idx ops : forall i s s', txn_dispatch idx i ops s = inl s' -> INV s -> INV s'.
Proof.
  induction ops as [|op ops IH]; intros i s s'; cbn; [intros [= <-]; tauto|].
  destruct (txn_op idx op s) as [s1|e] eqn:E; [|discriminate].
  intros Hd Hs. apply (IH _ _ _ Hd). apply (txn_op_INV _ _ _ _ E Hs).
Qed.

Lemma exec_INV idx c s : INV s -> INV (exec idx c s).1.
Proof.
  intros Hinv. destruct c; cbn [exec].
  - cbn. eapply INV_ext; [..|exact Hinv]; reflexivity.
  - destruct (ensure_registration _ _ _ _ _ _ _ s) as [s'|e] eqn:E; cbn; [|exact Hinv].
    apply (ensure_registration_INV _ _ _ _ _ _ _ _ _ E Hinv).
  - destruct (negb _); cbn; [apply delete_service_INV; exact Hinv|].
    destruct (negb _); cbn; [apply delete_check_INV; exact Hinv|apply delete_node_INV; exact Hinv].
  - destruct (txn_dispatch idx 0 ops s) as [s'|[i e]] eqn:E; cbn; [|exact Hinv].
    apply (txn_dispatch_INV _ _ _ _ _ E Hinv).
  - destruct (conf_set name c s) as [s'|e] eqn:E; cbn; [|exact Hinv]. apply (conf_set_INV _ _ _ _ E Hinv).
  - cbn. apply conf_delete_INV; exact Hinv.
  - pose proof (assign_manual_INV name ips s Hinv) as H. destruct (assign_manual name ips s) as [[found from] s']. exact H.
  - cbn. destruct (bool_decide _); [eapply INV_ext; [..|exact Hinv]; reflexivity|exact Hinv].
  - exact Hinv.
Qed.

Theorem apply_INV idx c s : INV s -> INV (apply idx c s).1.
Proof.
  intros Hinv. unfold apply. pose proof (exec_INV idx c s Hinv) as H. destruct (exec idx c s) as [s' r]. cbn in *.
  eapply INV_ext; [..|exact H]; reflexivity.
Qed.

Theorem run_INV log : forall s, INV s -> INV (run log s).1.
Proof.
  induction log as [|[idx c] log IH]; intros s Hs; cbn; [exact Hs|].
  pose proof (apply_INV idx c s Hs) as Ha. destruct (apply idx c s) as [s' r].
  specialize (IH s' Ha). destruct (run log s') as [s'' rs]. exact IH.
Qed.
