(* Extension model of consul's catalog (agent/consul/state/catalog.go, catalog_ce.go, usage.go,
   config_entry.go) for property C07: service kinds, kind-service-names, usage counters, virtual-IP
   allocation, gateway-services and mesh-topology, kept incrementally exactly as the *Txn functions
   keep them.  Same verbs, same order of effects, same early returns; where the code is wrong the
   model is wrong the same way.  std++ style.  No proofs in this file.

   Not in this model: sessions and KV (Store/Model.v has them, with the same catalog verbs for
   typical services), the index table, create/modify indexes of derived rows, peer-imported rows,
   terminating-gateway virtual IPs (system-metadata flag off), node names differing only in case,
   api-gateways, the later errors of a failed transaction (only the first failing operation). *)
From stdpp Require Import gmap strings.
From RecordUpdate Require Import RecordSet.
From Coq Require Import NArith ZArith.
Import RecordSetNotations.
Local Open Scope N_scope.

(* ---------- errors ---------- *)
Inductive err :=
| EMissingNode | EMissingService | ESimilarName | ECheckNodeMismatch
| EStale | ENotFound | EVipExhausted | EOther.
#[global] Instance err_eq_dec : EqDecision err. Proof. solve_decision. Defined.

Inductive res (A : Type) := Ok (a : A) | Err (e : err).
Arguments Ok {A} a.
Arguments Err {A} e.
#[global] Instance res_bind : MBind res := fun A B f r => match r with Ok a => f a | Err e => Err e end.

Fixpoint rfold {A S} (f : S -> A -> res S) (l : list A) (s : S) : res S :=
  match l with
  | [] => Ok s
  | x :: l' => s' ← f s x; rfold f l' s'
  end.

(* ---------- rows ---------- *)
Inductive skind := KTypical | KProxy | KMeshGW | KTermGW | KIngressGW.
#[global] Instance skind_eq_dec : EqDecision skind. Proof. solve_decision. Defined.

(* structs.ServiceKind as the string the tables store *)
Definition kind_str (k : skind) : string :=
  match k with
  | KTypical => "" | KProxy => "connect-proxy" | KMeshGW => "mesh-gateway"
  | KTermGW => "terminating-gateway" | KIngressGW => "ingress-gateway"
  end.
Definition connect_enabled : string := "connect-enabled".
Definition destination_kind : string := "destination".
Definition consul_name : string := "consul".
Definition wildcard : string := "*".

Record node := Node { n_id : string; n_addr : N; n_create : N; n_modify : N }.
Record svc := Svc {
  sv_name : string; sv_kind : skind; sv_native : bool; sv_dest : string; sv_port : N;
  sv_ups : list string;
  sv_vip : option N  (* tagged address "consul-virtual", as the offset from the range start *);
  sv_create : N; sv_modify : N }.
Record chk := Chk { c_status : N; c_service : string; c_svcname : string; c_create : N; c_modify : N }.
#[global] Instance node_eq_dec : EqDecision node. Proof. solve_decision. Defined.
#[global] Instance svc_eq_dec : EqDecision svc. Proof. solve_decision. Defined.
#[global] Instance chk_eq_dec : EqDecision chk. Proof. solve_decision. Defined.

(* config entries the catalog reads: kind (as its string) and name are the key *)
Inductive conf :=
| CTermGW (services : list string)
| CIngressGW (listeners : list (N * list string))
| CDefaults (dest : bool)
| CResolver.
#[global] Instance conf_eq_dec : EqDecision conf. Proof. solve_decision. Defined.
Definition conf_kind (c : conf) : string :=
  match c with
  | CTermGW _ => "terminating-gateway" | CIngressGW _ => "ingress-gateway"
  | CDefaults _ => "service-defaults" | CResolver => "service-resolver"
  end.

(* structs.GatewayServiceKind *)
Inductive gskind := GUnknown | GService | GDestination.
#[global] Instance gskind_eq_dec : EqDecision gskind. Proof. solve_decision. Defined.
Record gsrow := GS { g_gwkind : skind; g_wild : bool (* FromWildcard *); g_skind : gskind }.
#[global] Instance gsrow_eq_dec : EqDecision gsrow. Proof. solve_decision. Defined.

Record st := St {
  nodes : gmap string node;
  services : gmap (string * string) svc;          (* (node, service id) *)
  checks : gmap (string * string) chk;            (* (node, check id) *)
  coords : gset string;                           (* nodes with a coordinate *)
  confs : gmap (string * string) conf;            (* (kind, name) *)
  ksn : gset (string * string);                   (* kind-service-names: (kind, name) *)
  usage : gmap string N;                          (* usage table: id -> count *)
  vips : gmap string (N * list string);           (* service-virtual-ips: name -> (ip, manual ips) *)
  free : gset N;                                  (* free-virtual-ips, the non-counter rows *)
  counter : N;                                    (* the counter row (0 = no row yet) *)
  gws : gmap (string * string * N) gsrow;         (* gateway-services: (gateway, service, port) *)
  topo : gmap (string * string) (gset (string * string));  (* mesh-topology: (upstream, downstream) -> refs *)
  vips_on : bool                                  (* system metadata "virtual-ips" *)
}.
#[global] Instance eta_st : Settable _ :=
  settable! St <nodes; services; checks; coords; confs; ksn; usage; vips; free; counter; gws; topo; vips_on>.
#[global] Instance eta_svc : Settable _ :=
  settable! Svc <sv_name; sv_kind; sv_native; sv_dest; sv_port; sv_ups; sv_vip; sv_create; sv_modify>.
#[global] Instance eta_chk : Settable _ :=
  settable! Chk <c_status; c_service; c_svcname; c_create; c_modify>.
#[global] Instance eta_gs : Settable _ := settable! GS <g_gwkind; g_wild; g_skind>.

Definition st0 : st := St ∅ ∅ ∅ ∅ ∅ ∅ ∅ ∅ ∅ 0 ∅ ∅ false.

(* ---------- sorted iteration (memdb iterates in index order) ---------- *)
Fixpoint sinsert (x : string) (l : list string) : list string :=
  match l with
  | [] => [x]
  | y :: l' => if String.leb x y then x :: l else y :: sinsert x l'
  end.
Definition ssort (l : list string) : list string := foldr sinsert [] l.

Definition pair_leb (a b : string * string) : bool :=
  if bool_decide (a.1 = b.1) then String.leb a.2 b.2 else String.leb a.1 b.1.
Fixpoint pinsert (x : string * string) (l : list (string * string)) : list (string * string) :=
  match l with
  | [] => [x]
  | y :: l' => if pair_leb x y then x :: l else y :: pinsert x l'
  end.
Definition psort (l : list (string * string)) : list (string * string) := foldr pinsert [] l.

Definition gw_leb (a b : string * string * N) : bool :=
  if bool_decide (a.1 = b.1) then N.leb a.2 b.2 else pair_leb a.1 b.1.
Fixpoint ginsert (x : string * string * N) (l : list (string * string * N)) : list (string * string * N) :=
  match l with
  | [] => [x]
  | y :: l' => if gw_leb x y then x :: l else y :: ginsert x l'
  end.
Definition gsort (l : list (string * string * N)) : list (string * string * N) := foldr ginsert [] l.

(* ---------- catalog queries ---------- *)
Definition services_of_node (nd : string) (s : st) : list string :=
  ssort (omap (fun '((n, sid), _) => if bool_decide (n = nd) then Some sid else None)
              (map_to_list (services s))).
Definition checks_of_node (nd : string) (s : st) : list string :=
  ssort (omap (fun '((n, cid), _) => if bool_decide (n = nd) then Some cid else None)
              (map_to_list (checks s))).
Definition checks_of_service (nd sid : string) (s : st) : list string :=
  ssort (omap (fun '((n, cid), c) => if bool_decide (n = nd) && bool_decide (c_service c = sid)
                                     then Some cid else None)
              (map_to_list (checks s))).

(* connectNameFromServiceNode: the name under which an instance is in the "connect" index *)
Definition connect_name (v : svc) : option string :=
  if bool_decide (sv_kind v = KProxy) then Some (sv_dest v)
  else if sv_native v then Some (sv_name v) else None.

(* tx.First(tableServices, indexService, name) != nil *)
Definition has_instance (name : string) (s : st) : bool :=
  bool_decide (map_Exists (fun _ v => sv_name v = name) (services s)).
(* some instance of that name and kind *)
Definition has_instance_kind (name : string) (k : skind) (s : st) : bool :=
  bool_decide (map_Exists (fun _ v => sv_name v = name /\ sv_kind v = k) (services s)).
(* tx.First(tableServices, indexConnect, name) != nil *)
Definition has_connect_instance (name : string) (s : st) : bool :=
  bool_decide (map_Exists (fun _ v => connect_name v = Some name) (services s)).
(* some instance of that name that is not connect-native *)
Definition has_nonnative_instance (name : string) (s : st) : bool :=
  bool_decide (map_Exists (fun _ v => sv_name v = name /\ sv_native v = false) (services s)).

Definition dest_conf (name : string) (s : st) : bool :=
  bool_decide (confs s !! ("service-defaults", name) = Some (CDefaults true)).

(* GatewayServiceKind *)
Definition gateway_service_kind (name : string) (s : st) : gskind :=
  if has_instance name s then GService
  else if dest_conf name s then GDestination else GUnknown.

(* ---------- kind-service-names ---------- *)
Definition upsert_ksn (kind name : string) (s : st) : st := s <| ksn ::= fun m => {[ (kind, name) ]} ∪ m |>.
Definition cleanup_ksn (kind name : string) (s : st) : st := s <| ksn ::= fun m => m ∖ {[ (kind, name) ]} |>.

(* ---------- virtual IPs ---------- *)
Definition max_offset : N := 268435454.   (* 240.0.0.0/4: host count - 2 *)

Definition min_free (f : gset N) : option N :=
  match elements f with
  | [] => None
  | x :: l => Some (foldr N.min x l)
  end.

(* assignServiceVirtualIP: returns the offset (the advertised address is range start + offset) *)
Definition assign_vip (name : string) (s : st) : res (N * st) :=
  match vips s !! name with
  | Some (ip, _) => Ok (ip, s)
  | None =>
    match min_free (free s) with
    | Some ip =>
      Ok (ip, s <| free ::= fun f => f ∖ {[ ip ]} |> <| vips ::= <[name := (ip, [])]> |>)
    | None =>
      let ip := counter s + 1 in
      if bool_decide (ip = max_offset) then Err EVipExhausted
      else Ok (ip, s <| counter := ip |> <| vips ::= <[name := (ip, [])]> |>)
    end
  end.

(* the config-entry kinds that keep a virtual IP alive (those of them the model has) *)
Definition vip_conf_kinds : list string := ["service-resolver"; "service-defaults"].

(* freeServiceVirtualIP (terminating-gateway virtual IPs not enabled) *)
Definition free_vip (name : string) (s : st) : st :=
  if negb (vips_on s) then s
  else if has_instance name s then s
  else if has_connect_instance name s then s   (* a sidecar proxy / native instance still advertises it *)
  else if existsb (fun k => bool_decide (is_Some (confs s !! (k, name)))) vip_conf_kinds then s
  else match vips s !! name with
       | None => s
       | Some (ip, _) => s <| vips ::= delete name |> <| free := {[ ip ]} |>
       end.
(* The free list holds at most ONE address: the id index of free-virtual-ips is
   (StringFieldIndex "IP", is-counter) and go-memdb's StringFieldIndex reads a net.IP (a byte slice)
   through reflect's Value.String(), which is the constant "<net.IP Value>" — every freed address
   overwrites the previous one (observed on the real store; the overwritten address is never reused). *)

Fixpoint dedup_sorted (l : list string) : list string :=
  match l with
  | x :: (y :: _) as l' => if bool_decide (x = y) then dedup_sorted l' else x :: dedup_sorted l'
  | _ => l
  end.

(* AssignManualServiceVIPs: (found, unassigned-from, state) *)
Definition manual_holder (ip : string) (s : st) : option string :=
  match ssort (omap (fun '(n, (_, m)) => if bool_decide (ip ∈ (m : list string)) then Some n else None) (map_to_list (vips s))) with
  | n :: _ => Some n
  | [] => None
  end.

Definition assign_manual (name : string) (ips : list string) (s : st) : bool * list string * st :=
  let distinct := dedup_sorted (ssort ips) in
  let '(s1, from) :=
    foldl (fun '(s', from) ip =>
             match manual_holder ip s' with
             | Some n =>
               if bool_decide (n = name) then (s', from)
               else match vips s' !! n with
                    | Some (a, m) =>
                      (s' <| vips ::= <[n := (a, filter (fun x => x ∉ ips) m)]> |>, n :: from)
                    | None => (s', from)
                    end
             | None => (s', from)
             end) (s, []) distinct in
  match vips s1 !! name with
  | None => (false, [], s)            (* returns before the commit: nothing is written *)
  | Some (a, m) =>
    let s2 := if bool_decide (dedup_sorted (ssort m) = distinct) && bool_decide (length m = length distinct)
              then s1 else s1 <| vips ::= <[name := (a, ssort ips)]> |> in
    (true, dedup_sorted (ssort from), s2)
  end.

(* ---------- gateway-services and the gateway part of mesh-topology ---------- *)
(* serviceHasConnectInstances *)
Definition service_has_connect_instances (name : string) (s : st) : bool * bool :=
  (has_connect_instance name s, has_nonnative_instance name s).

(* insertGatewayServiceTopologyMapping: only ingress gateways, not for the wildcard row; the row is
   written with no refs whatever was there *)
Definition insert_gw_topology (gw sv : string) (r : gsrow) (s : st) : st :=
  if bool_decide (g_gwkind r = KIngressGW) && negb (bool_decide (sv = wildcard))
  then s <| topo ::= <[(sv, gw) := ∅]> |> else s.

(* deleteGatewayServiceTopologyMapping *)
Definition delete_gw_topology (gw sv : string) (r : gsrow) (s : st) : st :=
  if bool_decide (g_gwkind r = KIngressGW) then s <| topo ::= delete (sv, gw) |> else s.

(* updateGatewayService *)
Definition update_gateway_service (gw sv : string) (port : N) (r : gsrow) (s : st) : st :=
  if bool_decide (gws s !! (gw, sv, port) = Some r) then s
  else insert_gw_topology gw sv r (s <| gws ::= <[(gw, sv, port) := r]> |>).

(* rows of gateway-services with a given service name, in index order (gateway, port) *)
Definition gws_of_service (sv : string) (s : st) : list (string * string * N) :=
  gsort (omap (fun '((g, x, p), _) => if bool_decide (x = sv) then Some (g, x, p) else None)
              (map_to_list (gws s))).

(* checkGatewayWildcardsAndUpdate; [ns] = the kind/native flag of the instance being registered *)
Definition check_gateway_wildcards_and_update (name : string) (ns : option (skind * bool)) (kind : gskind)
           (s : st) : st :=
  let '(hc0, hn0) := service_has_connect_instances name s in
  let '(hc, hn) := match ns with
                   | Some (k, native) => if native || bool_decide (k = KProxy) then (true, hn0) else (hc0, true)
                   | None => (hc0, hn0)
                   end in
  foldl (fun s' key =>
           match gws s !! key with       (* the iterator was opened on the state before the loop *)
           | None => s'
           | Some w =>
             if bool_decide (g_gwkind w = KIngressGW) && negb hc then s'
             else if bool_decide (g_gwkind w = KTermGW) && negb hn && negb (bool_decide (kind = GDestination)) then s'
             else match gws s' !! (key.1.1, name, key.2) with
                  | Some listed => (* the gateway's entry lists the service on its own: that row is the source of truth *)
                    if negb (g_wild listed) then s'
                    else update_gateway_service key.1.1 name key.2 (w <| g_wild := true |> <| g_skind := kind |>) s'
                  | None => update_gateway_service key.1.1 name key.2 (w <| g_wild := true |> <| g_skind := kind |>) s'
                  end
           end) s (gws_of_service wildcard s).

(* checkGatewayAndUpdate: every row of that service (collected first, then updated) *)
Definition check_gateway_and_update (name : string) (kind : gskind) (s : st) : st :=
  foldl (fun s' key =>
           match gws s !! key with
           | Some r => update_gateway_service key.1.1 name key.2 (r <| g_skind := kind |>) s'
           | None => s'
           end) s (gws_of_service name s).

(* cleanupGatewayWildcards *)
Definition cleanup_gateway_wildcards (name : string) (cleaning_dest : bool) (s : st) : st :=
  let '(hc, hn) := service_has_connect_instances name s in
  let has_dest := if cleaning_dest then false else dest_conf name s in
  foldl (fun s' key =>
           match gws s !! key with
           | None => s'
           | Some m =>
             if g_wild m then
               if bool_decide (g_gwkind m = KIngressGW) && hc then s'
               else if bool_decide (g_gwkind m = KTermGW) && (hn || has_dest) then s'
               else delete_gw_topology key.1.1 name m (s' <| gws ::= delete key |>)
             else check_gateway_and_update name (gateway_service_kind name s') s'
           end) s (gws_of_service name s).

(* names of the typical-kind instances, in the order of the kind index *)
Definition typical_names (s : st) : list string :=
  omap (fun k => match services s !! k with
                 | Some v => if bool_decide (sv_kind v = KTypical) then Some (sv_name v) else None
                 | None => None
                 end) (psort (elements (dom (services s)))).

Definition dest_conf_names (s : st) : list string :=
  ssort (omap (fun '((k, n), c) => if bool_decide (k = "service-defaults") && bool_decide (c = CDefaults true)
                                   then Some n else None) (map_to_list (confs s))).

(* updateGatewayNamespace *)
Definition update_gateway_namespace (gw : string) (port : N) (r : gsrow) (s : st) : st :=
  let s1 :=
    foldl (fun s' name =>
             if bool_decide (name = consul_name) then s' else
             let '(hc, hn) := service_has_connect_instances name s' in
             if bool_decide (g_gwkind r = KIngressGW) && negb hc then s'
             else if bool_decide (g_gwkind r = KTermGW) && negb hn then s'
             else if bool_decide (is_Some (gws s' !! (gw, name, port))) then s'
             else update_gateway_service gw name port (r <| g_wild := true |>) s')
          s (typical_names s) in
  let s2 :=
    foldl (fun s' name =>
             if bool_decide (is_Some (gws s' !! (gw, name, port))) then s'
             else update_gateway_service gw name port (r <| g_wild := true |> <| g_skind := GDestination |>) s')
          s1 (dest_conf_names s1) in
  update_gateway_service gw wildcard port r s2.

(* the list of associations a gateway config entry asks for *)
Definition gateway_mappings (c : conf) (s : st) : list (string * N * gsrow) :=
  match c with
  | CTermGW svcs => (fun sv => (sv, 0, GS KTermGW false (gateway_service_kind sv s))) <$> svcs
  | CIngressGW ls => mjoin ((fun '(port, svcs) => (fun sv => (sv, port, GS KIngressGW false GUnknown)) <$> svcs) <$> ls)
  | _ => []
  end.

(* updateGatewayServices *)
Definition update_gateway_services (name : string) (c : conf) (s : st) : st :=
  if bool_decide (confs s !! (conf_kind c, name) = Some c) then s   (* same service list: nothing to do *)
  else
    let ms := gateway_mappings c s in
    let s1 := s <| gws ::= filter (fun kv => kv.1.1.1 ≠ name) |> in
    let s2 := match c with
              | CIngressGW _ => s1 <| topo ::= filter (fun kv => kv.1.2 ≠ name) |>
              | _ => s1
              end in
    foldl (fun s' '(sv, port, r) =>
             if bool_decide (sv = wildcard) then update_gateway_namespace name port r s'
             else update_gateway_service name sv port r s') s2 ms.

(* ---------- mesh-topology for proxies ---------- *)
(* updateMeshTopology: the instance is added to the references of every pair it lists (a new row has
   it as its only reference).  Upstreams the instance no longer lists lose their row whatever other
   instances still list them (DeleteAll by (upstream, downstream)), and it is the NEW destination
   the old upstreams are paired with. *)
Definition update_mesh_topology (nd sid : string) (dest : string) (ups : list string)
           (existing : option svc) (s : st) : st :=
  let s1 := foldl (fun s' u => s' <| topo ::= <[(u, dest) := {[ (nd, sid) ]} ∪ default ∅ (topo s' !! (u, dest))]> |>) s ups in
  let old := match existing with Some e => sv_ups e | None => [] end in
  foldl (fun s' u => if bool_decide (u ∈ ups) then s' else s' <| topo ::= delete (u, dest) |>) s1 old.

(* cleanupMeshTopology *)
Definition cleanup_mesh_topology (nd sid : string) (v : svc) (s : st) : st :=
  if negb (bool_decide (sv_kind v = KProxy)) then s
  else s <| topo ::= fun t =>
         map_imap (fun k refs =>
                     if bool_decide (k.2 = sv_dest v) && bool_decide ((nd, sid) ∈ refs)
                     then (if bool_decide (refs ∖ {[ (nd, sid) ]} = ∅) then None else Some (refs ∖ {[ (nd, sid) ]}))
                     else Some refs) t |>.

(* ---------- checks ---------- *)
Record checkreq := CheckReq { cr_node : string; cr_id : string; cr_status : N; cr_service : string; cr_index : N }.

(* ensureCheckTxn (no sessions in this model) *)
Definition ensure_check (idx : N) (c : checkreq) (s : st) : res st :=
  let nd := cr_node c in let cid := cr_id c in
  match nodes s !! nd with
  | None => Err EMissingNode
  | Some _ =>
    svcname ← (if bool_decide (cr_service c = "") then Ok ""
               else match services s !! (nd, cr_service c) with
                    | None => Err EMissingService
                    | Some v => Ok (sv_name v)
                    end);
    match checks s !! (nd, cid) with
    | Some x =>
      if bool_decide (c_status x = cr_status c) && bool_decide (c_service x = cr_service c)
         && bool_decide (c_svcname x = svcname) then Ok s
      else Ok (s <| checks ::= <[(nd, cid) := Chk (cr_status c) (cr_service c) svcname (c_create x) idx]> |>)
    | None => Ok (s <| checks ::= <[(nd, cid) := Chk (cr_status c) (cr_service c) svcname idx idx]> |>)
    end
  end.

(* deleteCheckTxn *)
Definition delete_check (nd cid : string) (s : st) : st := s <| checks ::= delete (nd, cid) |>.

(* ---------- services ---------- *)
Record svcreq := SvcReq {
  sr_id : string; sr_name : string; sr_kind : skind; sr_native : bool; sr_dest : string; sr_port : N;
  sr_ups : list string; sr_weights : bool; sr_index : N }.

Definition is_connect (r : svcreq) : bool := bool_decide (sr_kind r = KProxy) || sr_native r.
Definition connect_target (r : svcreq) : string := if bool_decide (sr_kind r = KProxy) then sr_dest r else sr_name r.

Definition same_service (x : svc) (r : svcreq) (vip : option N) : bool :=
  bool_decide (sv_name x = sr_name r) && bool_decide (sv_kind x = sr_kind r) &&
  bool_decide (sv_native x = sr_native r) && bool_decide (sv_dest x = sr_dest r) &&
  bool_decide (sv_port x = sr_port r) && bool_decide (sv_ups x = sr_ups r) && bool_decide (sv_vip x = vip).

(* ensureServiceTxn *)
Definition ensure_service (idx : N) (nd : string) (r : svcreq) (s : st) : res st :=
  let existing := services s !! (nd, sr_id r) in
  let s1 :=
    if bool_decide (sr_kind r = KTypical) && negb (bool_decide (sr_name r = consul_name)) then
      check_gateway_and_update (sr_name r) GService
        (check_gateway_wildcards_and_update (sr_name r) (Some (sr_kind r, sr_native r)) GService s)
    else s in
  let s2 := upsert_ksn (kind_str (sr_kind r)) (sr_name r) s1 in
  r3 ← (if is_connect r then
          let sn := connect_target r in
          let s3 := update_mesh_topology nd (sr_id r) (sr_dest r) (sr_ups r) existing s2 in
          let s4 := check_gateway_wildcards_and_update sn (Some (sr_kind r, sr_native r)) GService s3 in
          let s5 := if bool_decide (sn = "") then s4 else upsert_ksn connect_enabled sn s4 in
          if vips_on s5 && negb (bool_decide (sn = "")) then
            '(ip, s6) ← assign_vip sn s5; Ok (Some ip, s6)
          else Ok (None, s5)
        else Ok (None, s2));
  let '(vip, s7) := r3 in
  match nodes s7 !! nd with
  | None => Err EMissingNode
  | Some _ =>
    match existing with
    | Some x =>
      if same_service x r vip then Ok s7
      else Ok (s7 <| services ::= <[(nd, sr_id r) :=
                 Svc (sr_name r) (sr_kind r) (sr_native r) (sr_dest r) (sr_port r) (sr_ups r) vip (sv_create x) idx]> |>)
    | None =>
      Ok (s7 <| services ::= <[(nd, sr_id r) :=
            Svc (sr_name r) (sr_kind r) (sr_native r) (sr_dest r) (sr_port r) (sr_ups r) vip idx idx]> |>)
    end
  end.

(* deleteServiceTxn *)
Definition delete_service (nd sid : string) (s : st) : st :=
  match services s !! (nd, sid) with
  | None => s
  | Some v =>
    let s1 := foldl (fun s' cid => delete_check nd cid s') s (checks_of_service nd sid s) in
    let s2 := s1 <| services ::= delete (nd, sid) |> in
    let s3 := cleanup_mesh_topology nd sid v s2 in
    let s4 := if has_instance (sv_name v) s3
              then (* the name may be shared by instances of several kinds *)
                   if has_instance_kind (sv_name v) (sv_kind v) s3 then s3
                   else cleanup_ksn (kind_str (sv_kind v)) (sv_name v) s3
              else cleanup_ksn (kind_str (sv_kind v)) (sv_name v) (free_vip (sv_name v) s3) in
    let s5 := match connect_name v with
              | Some sn =>
                if has_connect_instance sn s4 then s4
                else cleanup_gateway_wildcards sn false (cleanup_ksn connect_enabled sn s4)
              | None => s4
              end in
    cleanup_gateway_wildcards (sv_name v) false s5
  end.

(* ---------- nodes ---------- *)
(* deleteNodeTxn *)
Definition delete_node (nd : string) (s : st) : st :=
  match nodes s !! nd with
  | None => s
  | Some _ =>
    let s1 := foldl (fun s' sid => delete_service nd sid s') s (services_of_node nd s) in
    let s2 := foldl (fun s' cid => delete_check nd cid s') s1 (checks_of_node nd s1) in
    s2 <| coords ::= fun c => c ∖ {[ nd ]} |> <| nodes ::= delete nd |>
  end.

Definition serf_check : string := "serfHealth".
Definition critical : N := 2.
Definition node_healthy (nd : string) (s : st) : bool :=
  match checks s !! (nd, serf_check) with
  | Some c => negb (bool_decide (c_status c = critical))
  | None => false
  end.
Definition similar_clash (allow_without_id : bool) (nd id : string) (s : st) : bool :=
  match nodes s !! nd with
  | Some en => negb (bool_decide (n_id en = id)) &&
               (negb (bool_decide (n_id en = "")) || negb allow_without_id) && node_healthy nd s
  | None => false
  end.
Definition node_by_id (id : string) (s : st) : option (string * node) :=
  match filter (fun kn => n_id kn.2 = id) (map_to_list (nodes s)) with
  | x :: _ => Some x
  | [] => None
  end.

(* ensureNodeTxn *)
Definition ensure_node (idx : N) (nd id : string) (addr : N) (s : st) : res st :=
  r ← (if bool_decide (id = "") then Ok (None, s) else
       match node_by_id id s with
       | Some (oname, on) =>
         if bool_decide (oname = nd) then Ok (Some on, s)
         else if similar_clash false nd id s then Err ESimilarName
         else Ok (Some on, delete_node oname s)
       | None => if similar_clash true nd id s then Err ESimilarName else Ok (None, s)
       end);
  let '(n0, s1) := r in
  let n1 := match n0 with Some x => Some x | None => nodes s1 !! nd end in
  match n1 with
  | Some x =>
    if bool_decide (n_id x = id) && bool_decide (n_addr x = addr) && bool_decide (nodes s1 !! nd = Some x)
    then Ok s1
    else Ok (s1 <| nodes ::= <[nd := Node id addr (n_create x) idx]> |>)
  | None => Ok (s1 <| nodes ::= <[nd := Node id addr idx idx]> |>)
  end.

(* ---------- registration ---------- *)
Definition changes_node (id : string) (addr : N) (skip : bool) (ex : option node) : bool :=
  match ex with
  | None => true
  | Some x => if skip then false else negb (bool_decide (n_id x = id) && bool_decide (n_addr x = addr))
  end.

(* ensureRegistrationTxn.  NodeService.IsSame of the stored instance and the request: equal only when
   the request carries explicit weights and the stored instance advertises no virtual IP. *)
Definition ensure_registration (idx : N) (nd id : string) (addr : N) (skip : bool)
           (sv : option svcreq) (cks : list checkreq) (s : st) : res st :=
  s1 ← (if changes_node id addr skip (nodes s !! nd) then ensure_node idx nd id addr s else Ok s);
  s2 ← (match sv with
        | None => Ok s1
        | Some r =>
          match services s1 !! (nd, sr_id r) with
          | Some x => if sr_weights r && same_service x r None then Ok s1 else ensure_service idx nd r s1
          | None => ensure_service idx nd r s1
          end
        end);
  rfold (fun s' c => if bool_decide (cr_node c = nd) then ensure_check idx c s' else Err ECheckNodeMismatch) cks s2.

(* ---------- config entries ---------- *)
Definition conf_has_vip (c : conf) : bool :=
  match c with CDefaults _ | CResolver => true | _ => false end.

(* insertConfigEntryWithTxn *)
Definition conf_set (name : string) (c : conf) (s : st) : res st :=
  let s1 := match c with
            | CTermGW _ | CIngressGW _ => update_gateway_services name c s
            | _ => s
            end in
  let s2 := match c with
            | CDefaults true =>
              let k0 := gateway_service_kind name s1 in
              let k := if bool_decide (k0 = GUnknown) then GDestination else k0 in
              upsert_ksn destination_kind name
                (check_gateway_and_update name k (check_gateway_wildcards_and_update name None k s1))
            | CDefaults false =>
              (* since /repo 0d0f3e6: an entry written without a Destination over a stored one that has it
                 undoes what the earlier write recorded, exactly as conf_delete does *)
              if bool_decide (confs s1 !! ("service-defaults", name) = Some (CDefaults true)) then
                let k0 := gateway_service_kind name s1 in
                let k := if bool_decide (k0 = GDestination) then GUnknown else k0 in
                cleanup_ksn destination_kind name
                  (check_gateway_and_update name k
                     (cleanup_gateway_wildcards name true
                        (check_gateway_wildcards_and_update name None k s1)))
              else s1
            | _ => s1
            end in
  s3 ← (if vips_on s2 && conf_has_vip c && negb (bool_decide (name = ""))
        then '(_, s') ← assign_vip name s2; Ok s' else Ok s2);
  Ok (s3 <| confs ::= <[(conf_kind c, name) := c]> |>).

(* deleteConfigEntryTxn *)
Definition conf_delete (kind name : string) (s : st) : st :=
  match confs s !! (kind, name) with
  | None => s
  | Some c =>
    let s1 := if bool_decide (kind = "terminating-gateway") || bool_decide (kind = "ingress-gateway")
              then s <| gws ::= filter (fun kv => kv.1.1.1 ≠ name) |> else s in
    let s2 := match c with
              | CDefaults true =>
                let k0 := gateway_service_kind name s1 in
                let k := if bool_decide (k0 = GDestination) then GUnknown else k0 in
                cleanup_ksn destination_kind name
                  (check_gateway_and_update name k
                     (cleanup_gateway_wildcards name true
                        (check_gateway_wildcards_and_update name None k s1)))
              | _ => s1
              end in
    let s3 := if bool_decide (kind = "ingress-gateway")
              then s2 <| topo ::= filter (fun kv => kv.1.2 ≠ name) |> else s2 in
    let s4 := s3 <| confs ::= delete (kind, name) |> in
    if conf_has_vip c && negb (bool_decide (name = "")) then free_vip name s4 else s4
  end.

(* ---------- usage: computed at commit from the transaction's change set ---------- *)
(* updateUsage walks the change set once and accumulates a delta per usage id; the model computes,
   for each usage id, the sum over the change set of what each change adds to that id (the same
   per-change terms, the two loops interchanged). *)
Local Open Scope Z_scope.

Definition connect_usage (k : skind) : string := "connect-mesh-" +:+ kind_str k.
Definition native_usage : string := "connect-mesh-connect-native".
Definition billable_usage : string := "billable-services".
Definition conf_usage (kind : string) : string := "config-entries-" +:+ kind.

Definition usage_ids : list string :=
  ["nodes"; "services"; "service-names"; connect_usage KProxy; connect_usage KMeshGW; connect_usage KTermGW;
   connect_usage KIngressGW; native_usage; billable_usage;
   conf_usage "terminating-gateway"; conf_usage "ingress-gateway"; conf_usage "service-defaults";
   conf_usage "service-resolver"].

Definition ind (b : bool) : Z := if b then 1 else 0.
Definition is_id (id x : string) : bool := bool_decide (id = x).
Definition typical (v : svc) : bool := bool_decide (sv_kind v = KTypical).
Definition is_consul (v : svc) : bool := bool_decide (sv_name v = consul_name).

(* what one changed services row adds to usage id [id] (usageDeltas[tableServices], connectDeltas,
   billableServiceInstancesDeltas) *)
Definition svc_contrib (id : string) (b a : option svc) : Z :=
  match b, a with
  | Some x, Some y =>            (* change.Updated() *)
    ind (is_id id (connect_usage (sv_kind y)) && negb (typical y))
    - ind (is_id id (connect_usage (sv_kind x)) && negb (typical x))
    + (if is_id id native_usage
       then (if bool_decide (sv_native x = sv_native y) then 0 else if sv_native x then -1 else 1) else 0)
    + (if is_id id billable_usage
       then (let was := typical x && negb (is_consul x) in let is := typical y && negb (is_consul y) in
             if negb was && is then 1 else if was && negb is then -1 else 0)
       else 0)
  | None, Some y => ind (is_id id "services") + ind (is_id id (connect_usage (sv_kind y)) && negb (typical y))
                    + ind (is_id id native_usage && sv_native y)
                    + ind (is_id id billable_usage && typical y && negb (is_consul y))
  | Some y, None => - (ind (is_id id "services") + ind (is_id id (connect_usage (sv_kind y)) && negb (typical y))
                       + ind (is_id id native_usage && sv_native y)
                       + ind (is_id id billable_usage && typical y && negb (is_consul y)))
  | None, None => 0
  end.

Definition node_contrib (id : string) (b a : option node) : Z :=
  if is_id id "nodes" then match b, a with None, Some _ => 1 | Some _, None => -1 | _, _ => 0 end else 0.

Definition conf_contrib (id : string) (b a : option conf) : Z :=
  match b, a with
  | None, Some c => ind (is_id id (conf_usage (conf_kind c)))
  | Some c, None => - ind (is_id id (conf_usage (conf_kind c)))
  | _, _ => 0
  end.

(* the rows a transaction changed: (before, after) per primary key *)
Definition diff_rows {K A} `{Countable K} `{EqDecision A} (before after : gmap K A) : list (option A * option A) :=
  omap (fun k => let b := before !! k in let a := after !! k in
                 if bool_decide (b = a) then None else Some (b, a))
       (elements (dom before ∪ dom after)).

Definition sum_changes {A} (f : option A -> option A -> Z) (l : list (option A * option A)) : Z :=
  foldr (fun '(b, a) acc => acc + f b a) 0 l.

(* serviceNameChanges[n]: the net number of instances named n the transaction added *)
Definition name_contrib (n : string) (b a : option svc) : Z :=
  ind (match a with Some y => bool_decide (sv_name y = n) | None => false end)
  - ind (match b with Some x => bool_decide (sv_name x = n) | None => false end).

Definition changed_names (l : list (option svc * option svc)) : list string :=
  remove_dups (mjoin ((fun '(b, a) => (match b with Some x => [sv_name x] | None => [] end) ++
                                      (match a with Some y => [sv_name y] | None => [] end)) <$> l)).

Definition instances_named (name : string) (m : gmap (string * string) svc) : Z :=
  Z.of_nat (size (filter (fun kv => sv_name kv.2 = name) m)).

(* updateServiceNameUsage: per touched name, compare the instances left with the net change *)
Definition service_names_delta (after : gmap (string * string) svc) (l : list (option svc * option svc)) : Z :=
  foldr (fun n acc =>
           let count := instances_named n after in
           let delta := sum_changes (name_contrib n) l in
           acc + (if bool_decide (count = 0) then -1 else if bool_decide (count = delta) then 1 else 0))
        0 (changed_names l).

Definition usage_delta (before after : st) (id : string) : Z :=
  let sc := diff_rows (services before) (services after) in
  sum_changes (node_contrib id) (diff_rows (nodes before) (nodes after))
  + sum_changes (svc_contrib id) sc
  + sum_changes (conf_contrib id) (diff_rows (confs before) (confs after))
  + (if is_id id "service-names" then service_names_delta (services after) sc else 0).

(* updateUsage + writeUsageDeltas (clamped at zero) *)
Definition commit_usage (before after : st) : st :=
  after <| usage := list_to_map ((fun id => (id, Z.to_N (Z.max 0 (Z.of_N (default 0%N (usage before !! id)) + usage_delta before after id))))
                                 <$> usage_ids) |>.
Local Close Scope Z_scope.

(* ---------- commands ---------- *)
Inductive catverb := VGet | VSet | VCAS | VDelete | VDeleteCAS.

Inductive txnop :=
| TNode (v : catverb) (nd id : string) (addr : N) (cidx : N)
| TService (v : catverb) (nd : string) (r : svcreq)
| TCheck (v : catverb) (c : checkreq).

Inductive cmd :=
| SysMeta (on : bool)
| Register (nd id : string) (addr : N) (skip : bool) (sv : option svcreq) (cks : list checkreq)
| Deregister (nd sid cid : string)
| Txn (ops : list txnop)
| ConfSet (name : string) (c : conf)
| ConfDelete (kind name : string)
| ManualVIPs (name : string) (ips : list string)
| Coord (nd : string)
| Noop.                      (* a command outside the model's tables (proxy-defaults write) *)

Inductive cres :=
| CNil | CBool (b : bool) | CErr (e : err)
| CTxnOk | CTxnErr (op : nat) (e : err)
| CManual (found : bool) (from : list string).

Definition cas_ok {A} (modify : A -> N) (ex : option A) (cidx : N) : bool :=
  match ex with
  | Some x => negb (bool_decide (cidx = 0)) && bool_decide (cidx = modify x)
  | None => bool_decide (cidx = 0)
  end.

Definition txn_op (idx : N) (op : txnop) (s : st) : res st :=
  match op with
  | TNode v nd id addr cidx =>
    match v with
    | VGet => if bool_decide (id = "")
              then (if bool_decide (is_Some (nodes s !! nd)) then Ok s else Err ENotFound)
              else (if bool_decide (is_Some (node_by_id id s)) then Ok s else Err ENotFound)
    | VSet => ensure_node idx nd id addr s
    | VCAS => if cas_ok n_modify (nodes s !! nd) cidx then ensure_node idx nd id addr s else Err EStale
    | VDelete => Ok (delete_node nd s)
    | VDeleteCAS => match nodes s !! nd with
                    | None => Err EStale
                    | Some x => if bool_decide (n_modify x = cidx) then Ok (delete_node nd s) else Err EStale
                    end
    end
  | TService v nd r =>
    match v with
    | VGet => if bool_decide (is_Some (services s !! (nd, sr_id r))) then Ok s else Err ENotFound
    | VSet => ensure_service idx nd r s
    | VCAS => if cas_ok sv_modify (services s !! (nd, sr_id r)) (sr_index r) then ensure_service idx nd r s else Err EStale
    | VDelete => Ok (delete_service nd (sr_id r) s)
    | VDeleteCAS => match services s !! (nd, sr_id r) with
                    | None => Err EStale
                    | Some x => if bool_decide (sv_modify x = sr_index r) then Ok (delete_service nd (sr_id r) s) else Err EStale
                    end
    end
  | TCheck v c =>
    let key := (cr_node c, cr_id c) in
    match v with
    | VGet => if bool_decide (is_Some (checks s !! key)) then Ok s else Err ENotFound
    | VSet => ensure_check idx c s
    | VCAS => if cas_ok c_modify (checks s !! key) (cr_index c) then ensure_check idx c s else Err EStale
    | VDelete => Ok (delete_check (cr_node c) (cr_id c) s)
    | VDeleteCAS => match checks s !! key with
                    | None => Err EStale
                    | Some x => if bool_decide (c_modify x = cr_index c) then Ok (delete_check (cr_node c) (cr_id c) s) else Err EStale
                    end
    end
  end.

(* txnDispatch up to the first failing operation (a failed transaction writes nothing) *)
Fixpoint txn_dispatch (idx : N) (i : nat) (ops : list txnop) (s : st) : st + (nat * err) :=
  match ops with
  | [] => inl s
  | op :: rest =>
    match txn_op idx op s with
    | Ok s' => txn_dispatch idx (S i) rest s'
    | Err e => inr (i, e)
    end
  end.

(* the body of a command, inside its memdb transaction *)
Definition exec (idx : N) (c : cmd) (s : st) : st * cres :=
  match c with
  | SysMeta on => (s <| vips_on := on |>, CBool true)
  | Register nd id addr skip sv cks =>
    match ensure_registration idx nd id addr skip sv cks s with
    | Ok s' => (s', CNil) | Err e => (s, CErr e)
    end
  | Deregister nd sid cid =>
    if negb (bool_decide (sid = "")) then (delete_service nd sid s, CNil)
    else if negb (bool_decide (cid = "")) then (delete_check nd cid s, CNil)
    else (delete_node nd s, CNil)
  | Txn ops =>
    match txn_dispatch idx 0 ops s with
    | inl s' => (s', CTxnOk) | inr (i, e) => (s, CTxnErr i e)
    end
  | ConfSet name c =>
    match conf_set name c s with
    | Ok s' => (s', CBool true) | Err e => (s, CErr e)
    end
  | ConfDelete kind name => (conf_delete kind name s, CNil)
  | ManualVIPs name ips => let '(found, from, s') := assign_manual name ips s in (s', CManual found from)
  | Coord nd => (if bool_decide (is_Some (nodes s !! nd)) then s <| coords ::= fun c => {[ nd ]} ∪ c |> else s, CNil)
  | Noop => (s, CBool true)
  end.

(* commit: the usage table is updated from the transaction's change set *)
Definition apply (idx : N) (c : cmd) (s : st) : st * cres :=
  let '(s', r) := exec idx c s in (commit_usage s s', r).

Fixpoint run (log : list (N * cmd)) (s : st) : st * list cres :=
  match log with
  | [] => (s, [])
  | (idx, c) :: rest =>
    let '(s', r) := apply idx c s in
    let '(s'', rs) := run rest s' in (s'', r :: rs)
  end.
