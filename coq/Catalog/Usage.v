(* The usage counters of the catalog model: what commit adds to each counter from the transaction's
   change set is exactly the change of the recomputed count, so the stored counters equal the counts
   recomputed from the node and service rows.  (Until /repo 10e7cca the billable count went wrong
   when an instance was renamed to or from "consul".) *)
From stdpp Require Import gmap strings.
From RecordUpdate Require Import RecordSet.
From Coq Require Import NArith ZArith Lia.
From Verif Require Import Catalog.Model Catalog.Spec.
Import RecordSetNotations.
Local Open Scope Z_scope.

(* ---------- sums over key lists ---------- *)
Section keysum.
  Context {K A : Type} `{Countable K}.

  Definition keysum (g : option A -> Z) (m : gmap K A) (L : list K) : Z :=
    foldr (fun k acc => acc + g (m !! k)) 0 L.

  Lemma keysum_perm g m L1 L2 : L1 ≡ₚ L2 -> keysum g m L1 = keysum g m L2.
  Proof. unfold keysum. induction 1; cbn; lia. Qed.

  Lemma keysum_ext g m1 m2 L : (forall k, k ∈ L -> m1 !! k = m2 !! k) -> keysum g m1 L = keysum g m2 L.
  Proof.
    unfold keysum. induction L as [|k L IH]; intros Hx; cbn; [reflexivity|].
    rewrite IH by (intros k' Hk'; apply Hx; right; exact Hk'). rewrite (Hx k) by left. reflexivity.
  Qed.

  Lemma keysum_none g m L : g None = 0 -> (forall k, k ∈ L -> m !! k = None) -> keysum g m L = 0.
  Proof.
    intros Hg. unfold keysum. induction L as [|k L IH]; intros Hx; cbn; [reflexivity|].
    rewrite IH by (intros k' Hk'; apply Hx; right; exact Hk'). rewrite (Hx k) by left. lia.
  Qed.

  Definition indo (P : A -> bool) (o : option A) : Z := match o with Some v => if P v then 1 else 0 | None => 0 end.

  Lemma keysum_count (P : A -> bool) (m : gmap K A) : forall X : gset K, dom m ⊆ X ->
    keysum (indo P) m (elements X) = Z.of_nat (size (filter (fun kv => P kv.2 = true) m)).
  Proof.
    induction m as [|i x m Hi IH] using map_ind; intros X HX.
    - rewrite keysum_none; [|reflexivity|intros k _; apply lookup_empty].
      rewrite map_filter_empty, map_size_empty. reflexivity.
    - assert (HiX : i ∈ X) by (apply HX; rewrite dom_insert; set_solver).
      set (Y := X ∖ {[i]}).
      assert (HXY : X = {[i]} ∪ Y) by (subst Y; apply union_difference_singleton_L; exact HiX).
      assert (HiY : i ∉ Y) by (subst Y; set_solver).
      rewrite HXY, (keysum_perm _ _ _ _ (elements_union_singleton Y i HiY)).
      change (keysum (indo P) (<[i:=x]> m) (i :: elements Y))
        with (keysum (indo P) (<[i:=x]> m) (elements Y) + indo P (<[i:=x]> m !! i)).
      rewrite lookup_insert. cbn [indo].
      rewrite (keysum_ext _ (<[i:=x]> m) m) by (intros k Hk; apply lookup_insert_ne; intros <-; apply HiY, elem_of_elements, Hk).
      rewrite IH.
      2:{ subst Y. intros k Hk. apply elem_of_difference. split; [apply HX; rewrite dom_insert; set_solver|].
          intros Hki. apply elem_of_singleton in Hki. subst k. apply elem_of_dom in Hk as [y Hy]. congruence. }
      rewrite map_filter_insert. destruct (decide (P (i, x).2 = true)) as [Hp|Hp]; cbn in Hp.
      + rewrite Hp. rewrite map_size_insert_None by (apply map_filter_lookup_None; left; exact Hi). lia.
      + destruct (P x); [congruence|]. rewrite delete_notin by exact Hi. lia.
  Qed.
End keysum.

(* the change set sums to the difference of the counts *)
Lemma sum_changes_keys {K A} `{Countable K} `{EqDecision A} (f : option A -> option A -> Z) (P : A -> bool)
      (before after : gmap K A) (L : list K) :
  (forall k, f (before !! k) (after !! k) = indo P (after !! k) - indo P (before !! k)) ->
  sum_changes f (omap (fun k => if bool_decide (before !! k = after !! k) then None else Some (before !! k, after !! k)) L) =
  keysum (indo P) after L - keysum (indo P) before L.
Proof.
  intros Hf. unfold sum_changes, keysum. induction L as [|k L IH]; cbn; [reflexivity|].
  destruct (bool_decide (before !! k = after !! k)) eqn:Eb.
  - apply bool_decide_eq_true in Eb. rewrite IH, Eb. lia.
  - cbn. rewrite IH, Hf. lia.
Qed.

Lemma sum_changes_count {K A} `{Countable K} `{EqDecision A} (f : option A -> option A -> Z) (P : A -> bool)
      (before after : gmap K A) :
  (forall k, f (before !! k) (after !! k) = indo P (after !! k) - indo P (before !! k)) ->
  sum_changes f (diff_rows before after) =
  Z.of_nat (size (filter (fun kv => P kv.2 = true) after)) - Z.of_nat (size (filter (fun kv => P kv.2 = true) before)).
Proof.
  intros Hf.
  rewrite <- (keysum_count P after (dom before ∪ dom after)) by set_solver.
  rewrite <- (keysum_count P before (dom before ∪ dom after)) by set_solver.
  apply (sum_changes_keys f P before after _ Hf).
Qed.

Lemma sum_changes_zero {A} (f : option A -> option A -> Z) l :
  (forall b a, (b, a) ∈ l -> f b a = 0) -> sum_changes f l = 0.
Proof.
  unfold sum_changes. induction l as [|[b a] l IH]; intros Hx; cbn; [reflexivity|].
  rewrite IH by (intros b' a' Hin; apply Hx; right; exact Hin). rewrite (Hx b a) by left. reflexivity.
Qed.

Lemma elem_of_diff_rows {K A} `{Countable K} `{EqDecision A} (before after : gmap K A) b a :
  (b, a) ∈ diff_rows before after -> exists k, b = before !! k /\ a = after !! k /\ b ≠ a.
Proof.
  unfold diff_rows. rewrite elem_of_list_omap. intros (k & _ & Hk).
  destruct (bool_decide (before !! k = after !! k)) eqn:Eb; [discriminate|].
  apply bool_decide_eq_false in Eb. injection Hk as <- <-. eauto.
Qed.

Lemma filter_true_size {K A} `{Countable K} (m : gmap K A) :
  size (filter (fun kv : K * A => (fun _ : A => true) kv.2 = true) m) = size m.
Proof. f_equal. apply map_filter_id. intros; reflexivity. Qed.

(* ---------- evaluating closed tests ---------- *)
Ltac closed_tests :=
  repeat match goal with
         | |- context [is_id ?a ?b] => let v := eval vm_compute in (is_id a b) in change (is_id a b) with v
         | |- context [@bool_decide (@eq skind ?a ?b) ?d] =>
           let v := eval vm_compute in (@bool_decide (@eq skind a b) d) in change (@bool_decide (@eq skind a b) d) with v
         | |- context [@bool_decide (@eq string ?a ?b) ?d] =>
           is_ground a; is_ground b;
           let v := eval vm_compute in (@bool_decide (@eq string a b) d) in change (@bool_decide (@eq string a b) d) with v
         end.

Lemma lookup_list_to_map_fn (l : list string) (g : string -> N) id :
  id ∈ l -> (list_to_map ((fun i => (i, g i)) <$> l) : gmap string N) !! id = Some (g id).
Proof.
  induction l as [|i l IH]; intros Hin; [inversion Hin|]. cbn.
  destruct (decide (id = i)) as [->|Hne]; [apply lookup_insert|].
  rewrite lookup_insert_ne by congruence. apply IH. apply elem_of_cons in Hin as [Hin|Hin]; [contradiction|exact Hin].
Qed.

(* ---------- what each change adds to each counter ---------- *)
Lemma contrib_services b a : svc_contrib "services" b a = indo (fun _ => true) a - indo (fun _ => true) b.
Proof.
  destruct b as [x|], a as [y|]; unfold svc_contrib, typical; cbn [indo];
    try destruct (sv_kind x); try destruct (sv_kind y); closed_tests; cbn; lia.
Qed.

Lemma contrib_kind k0 b a : k0 ≠ KTypical ->
  svc_contrib (connect_usage k0) b a =
  indo (fun v => bool_decide (sv_kind v = k0)) a - indo (fun v => bool_decide (sv_kind v = k0)) b.
Proof.
  intros Hk. destruct b as [x|], a as [y|]; unfold svc_contrib, typical; cbn [indo];
    try destruct (sv_kind x); try destruct (sv_kind y); destruct k0; try contradiction; closed_tests; cbn; lia.
Qed.

Lemma contrib_native b a : svc_contrib native_usage b a = indo sv_native a - indo sv_native b.
Proof.
  destruct b as [x|], a as [y|]; unfold svc_contrib, typical; cbn [indo];
    try destruct (sv_kind x); try destruct (sv_kind y); closed_tests;
    try destruct (sv_native x); try destruct (sv_native y); vm_compute; reflexivity.
Qed.

Definition billable (v : svc) : bool := bool_decide (sv_kind v = KTypical) && negb (bool_decide (sv_name v = consul_name)).

Lemma contrib_billable b a : svc_contrib billable_usage b a = indo billable a - indo billable b.
Proof.
  destruct b as [x|], a as [y|]; unfold svc_contrib, typical, is_consul, billable; cbn [indo];
    try destruct (sv_kind x); try destruct (sv_kind y);
    repeat match goal with
           | |- context [@bool_decide (sv_name ?v = consul_name) ?d] => destruct (@bool_decide (sv_name v = consul_name) d)
           end;
    vm_compute; reflexivity.
Qed.

Lemma contrib_other_zero id b a :
  id = "nodes" \/ id = "service-names" -> svc_contrib id b a = 0.
Proof.
  intros [-> | ->]; destruct b as [x|], a as [y|]; unfold svc_contrib, typical;
    try destruct (sv_kind x); try destruct (sv_kind y); closed_tests; cbn; lia.
Qed.

Lemma node_contrib_nodes b a : node_contrib "nodes" b a = indo (fun _ : node => true) a - indo (fun _ : node => true) b.
Proof. destruct b, a; unfold node_contrib; closed_tests; cbn; lia. Qed.

Definition svc_usage_ids : list string := take 9 usage_ids.

Lemma svc_usage_ids_eq : svc_usage_ids =
  ["nodes"; "services"; "service-names"; "connect-mesh-connect-proxy"; "connect-mesh-mesh-gateway";
   "connect-mesh-terminating-gateway"; "connect-mesh-ingress-gateway"; "connect-mesh-connect-native"; "billable-services"].
Proof. vm_compute. reflexivity. Qed.

Lemma svc_usage_ids_cases id : id ∈ svc_usage_ids ->
  id = "nodes" \/ id = "services" \/ id = "service-names" \/ id = connect_usage KProxy \/ id = connect_usage KMeshGW \/
  id = connect_usage KTermGW \/ id = connect_usage KIngressGW \/ id = native_usage \/ id = billable_usage.
Proof. rewrite svc_usage_ids_eq, !elem_of_cons, elem_of_nil. tauto. Qed.

Lemma node_contrib_zero id b a : id ∈ svc_usage_ids -> id ≠ "nodes" -> node_contrib id b a = 0.
Proof.
  intros Hin Hne. unfold node_contrib, is_id. rewrite bool_decide_eq_false_2 by exact Hne. reflexivity.
Qed.

Lemma conf_contrib_zero id b a : id ∈ svc_usage_ids -> conf_contrib id b a = 0.
Proof.
  intros Hin. apply svc_usage_ids_cases in Hin.
  destruct Hin as [->|[->|[->|[->|[->|[->|[->|[->| ->]]]]]]]];
    destruct b as [c|], a as [c'|]; unfold conf_contrib; try reflexivity;
    try destruct c; try destruct c'; closed_tests; reflexivity.
Qed.

(* ---------- service names ---------- *)
Definition names_set (m : gmap (string * string) svc) : gset string :=
  list_to_set ((fun kv => sv_name kv.2) <$> map_to_list m).

Lemma names_of_set s : names_of s = names_set (services s).
Proof. reflexivity. Qed.

Lemma elem_of_names_set (n : string) (m : gmap (string * string) svc) : n ∈ names_set m <-> exists k v, m !! k = Some v /\ sv_name v = n.
Proof.
  unfold names_set. rewrite elem_of_list_to_set, elem_of_list_fmap. split.
  - intros ([k v] & -> & Hin). apply elem_of_map_to_list in Hin. eauto.
  - intros (k & v & Hk & <-). exists (k, v). split; [reflexivity|apply elem_of_map_to_list; exact Hk].
Qed.

Lemma instances_named_pos (n : string) (m : gmap (string * string) svc) : 0 < instances_named n m <-> n ∈ names_set m.
Proof.
  unfold instances_named. rewrite elem_of_names_set. split.
  - intros Hpos. destruct (map_choose (filter (fun kv => sv_name kv.2 = n) m)) as (k & v & Hkv).
    { intros Hemp. rewrite Hemp, map_size_empty in Hpos. lia. }
    apply map_filter_lookup_Some in Hkv as [Hk Hn]. eauto.
  - intros (k & v & Hk & Hn).
    assert (Hne : filter (fun kv => sv_name kv.2 = n) m ≠ ∅).
    { intros Hemp. assert (Hl : filter (fun kv => sv_name kv.2 = n) m !! k = Some v) by (apply map_filter_lookup_Some; split; assumption).
      rewrite Hemp, lookup_empty in Hl. discriminate. }
    apply map_size_non_empty_iff in Hne. lia.
Qed.

Lemma instances_named_nonneg (n : string) (m : gmap (string * string) svc) : 0 <= instances_named n m.
Proof. unfold instances_named. lia. Qed.

Lemma name_changes_sum (n : string) (before after : gmap (string * string) svc) :
  sum_changes (name_contrib n) (diff_rows before after) = instances_named n after - instances_named n before.
Proof.
  rewrite (sum_changes_count _ (fun v => bool_decide (sv_name v = n))).
  - unfold instances_named. f_equal; f_equal; f_equal; apply map_filter_ext; intros k v _; cbn;
      rewrite bool_decide_eq_true; reflexivity.
  - intros k. unfold name_contrib, indo, ind. destruct (after !! k), (before !! k); lia.
Qed.

Lemma elem_of_changed_names (n : string) (l : list (option svc * option svc)) :
  n ∈ changed_names l <->
  exists b a, (b, a) ∈ l /\ ((exists x, b = Some x /\ sv_name x = n) \/ (exists y, a = Some y /\ sv_name y = n)).
Proof.
  unfold changed_names. rewrite elem_of_remove_dups, elem_of_list_join. split.
  - intros (l' & Hn & Hl'). apply elem_of_list_fmap in Hl' as ([b a] & -> & Hin). exists b, a. split; [exact Hin|].
    apply elem_of_app in Hn as [Hn|Hn].
    + destruct b as [x|]; [|inversion Hn]. apply elem_of_list_singleton in Hn. left. eauto.
    + destruct a as [y|]; [|inversion Hn]. apply elem_of_list_singleton in Hn. right. eauto.
  - intros (b & a & Hin & Hn). eexists. split; [|apply elem_of_list_fmap; exists (b, a); split; [reflexivity|exact Hin]].
    cbn. apply elem_of_app. destruct Hn as [(x & -> & <-)|(y & -> & <-)]; [left|right]; apply elem_of_list_singleton; reflexivity.
Qed.

Lemma unchanged_name (n : string) (before after : gmap (string * string) svc) :
  n ∉ changed_names (diff_rows before after) -> instances_named n after = instances_named n before.
Proof.
  intros Hn. pose proof (name_changes_sum n before after) as Hs.
  rewrite sum_changes_zero in Hs; [lia|].
  intros b a Hin. unfold name_contrib, ind.
  destruct a as [y|]; [destruct (bool_decide (sv_name y = n)) eqn:Ey|]; cbn.
  - exfalso. apply Hn, elem_of_changed_names. apply bool_decide_eq_true in Ey. exists b, (Some y). split; [exact Hin|right; eauto].
  - destruct b as [x|]; [destruct (bool_decide (sv_name x = n)) eqn:Ex|]; cbn; try lia.
    exfalso. apply Hn, elem_of_changed_names. apply bool_decide_eq_true in Ex. exists (Some x), (Some y). split; [exact Hin|left; eauto].
  - destruct b as [x|]; [destruct (bool_decide (sv_name x = n)) eqn:Ex|]; cbn; try lia.
    exfalso. apply Hn, elem_of_changed_names. apply bool_decide_eq_true in Ex. exists (Some x), None. split; [exact Hin|left; eauto].
Qed.

Lemma changed_name_present (n : string) (before after : gmap (string * string) svc) :
  n ∈ changed_names (diff_rows before after) -> n ∈ names_set before \/ n ∈ names_set after.
Proof.
  intros Hn. apply elem_of_changed_names in Hn as (b & a & Hin & Hn).
  apply elem_of_diff_rows in Hin as (k & -> & -> & _).
  destruct Hn as [(x & Hx & Hnm)|(y & Hy & Hnm)]; [left|right]; apply elem_of_names_set; eauto.
Qed.

Definition inset (n : string) (X : gset string) : Z := if bool_decide (n ∈ X) then 1 else 0.

Lemma sum_inset (X : gset string) (T : list string) : NoDup T ->
  foldr (fun n acc => acc + inset n X) 0 T = Z.of_nat (size (X ∩ list_to_set T)).
Proof.
  induction 1 as [|t T Ht Hnd IH]; cbn.
  - rewrite (right_absorb_L ∅ (∩)), size_empty. reflexivity.
  - rewrite IH. unfold inset. destruct (bool_decide (t ∈ X)) eqn:Et.
    + apply bool_decide_eq_true in Et.
      replace (X ∩ ({[t]} ∪ list_to_set T)) with ({[t]} ∪ X ∩ list_to_set T) by set_solver.
      assert (Hd : ({[t]} : gset string) ## X ∩ list_to_set T).
      { intros z Hz1 Hz2. apply elem_of_singleton in Hz1. subst z. apply Ht.
        apply elem_of_intersection in Hz2 as [_ Hz2]. apply elem_of_list_to_set in Hz2. exact Hz2. }
      rewrite (size_union _ _ Hd), size_singleton. lia.
    + apply bool_decide_eq_false in Et.
      replace (X ∩ ({[t]} ∪ list_to_set T)) with (X ∩ list_to_set T) by set_solver. lia.
Qed.

Lemma size_split (X TT : gset string) : size X = (size (X ∩ TT) + size (X ∖ TT))%nat.
Proof.
  assert (Hd : X ∩ TT ## X ∖ TT) by set_solver.
  rewrite <- (size_union _ _ Hd). f_equal. apply leibniz_equiv. intros z. destruct (decide (z ∈ TT)); set_solver.
Qed.

Lemma names_delta_spec (before after : gmap (string * string) svc) :
  service_names_delta after (diff_rows before after) =
  Z.of_nat (size (names_set after)) - Z.of_nat (size (names_set before)).
Proof.
  set (l := diff_rows before after). set (T := changed_names l).
  assert (HT : NoDup T) by apply NoDup_remove_dups.
  assert (Hterm : service_names_delta after l =
                  foldr (fun n acc => acc + inset n (names_set after)) 0 T - foldr (fun n acc => acc + inset n (names_set before)) 0 T).
  { unfold service_names_delta. fold T.
    assert (Hall : forall n, n ∈ T -> n ∈ changed_names l) by tauto. revert Hall.
    generalize T. intros T0. induction T0 as [|n T0 IH]; intros Hall; cbn; [reflexivity|].
    rewrite IH by (intros n' Hn'; apply Hall; right; exact Hn').
    assert (Hn : n ∈ changed_names l) by (apply Hall; left).
    subst l. rewrite name_changes_sum.
    pose proof (changed_name_present n before after Hn) as Hpres.
    pose proof (instances_named_pos n before) as Hb. pose proof (instances_named_pos n after) as Ha.
    pose proof (instances_named_nonneg n before). pose proof (instances_named_nonneg n after).
    unfold inset.
    destruct (bool_decide (n ∈ names_set after)) eqn:Ea, (bool_decide (n ∈ names_set before)) eqn:Eb;
      try apply bool_decide_eq_true in Ea; try apply bool_decide_eq_false in Ea;
      try apply bool_decide_eq_true in Eb; try apply bool_decide_eq_false in Eb.
    - apply Ha in Ea. apply Hb in Eb. rewrite bool_decide_eq_false_2 by lia. rewrite bool_decide_eq_false_2 by lia. lia.
    - apply Ha in Ea. assert (instances_named n before = 0) by (destruct (decide (0 < instances_named n before)) as [Hp|]; [apply Hb in Hp; contradiction|lia]).
      rewrite bool_decide_eq_false_2 by lia. rewrite bool_decide_eq_true_2 by lia. lia.
    - assert (instances_named n after = 0) by (destruct (decide (0 < instances_named n after)) as [Hp|]; [apply Ha in Hp; contradiction|lia]).
      rewrite bool_decide_eq_true_2 by lia. lia.
    - destruct Hpres; contradiction. }
  rewrite Hterm, !sum_inset by exact HT.
  rewrite (size_split (names_set after) (list_to_set T)), (size_split (names_set before) (list_to_set T)).
  assert (Hrest : names_set after ∖ list_to_set T = names_set before ∖ list_to_set T).
  { apply leibniz_equiv. intros n. rewrite !elem_of_difference, elem_of_list_to_set.
    split; intros [Hin Hnt]; (split; [|exact Hnt]).
    - apply instances_named_pos. rewrite <- (unchanged_name n before after Hnt). apply instances_named_pos. exact Hin.
    - apply instances_named_pos. rewrite (unchanged_name n before after Hnt). apply instances_named_pos. exact Hin. }
  rewrite Hrest. lia.
Qed.

(* ---------- the theorem ---------- *)
Definition UsageOK (s : st) : Prop := forall id, id ∈ svc_usage_ids -> stored_usage s id = recompute_usage s id.

Lemma count_Z {K A} `{Countable K} (P : A -> bool) (m : gmap K A) :
  Z.of_N (count P m) = Z.of_nat (size (filter (fun kv => P kv.2 = true) m)).
Proof. unfold count. apply nat_N_Z. Qed.

Lemma svc_sum (before after : gmap (string * string) svc) (id : string) (P : svc -> bool) :
  (forall k, svc_contrib id (before !! k) (after !! k) = indo P (after !! k) - indo P (before !! k)) ->
  sum_changes (svc_contrib id) (diff_rows before after) = Z.of_N (count P after) - Z.of_N (count P before).
Proof. intros Hf. rewrite !count_Z. apply sum_changes_count. exact Hf. Qed.

Lemma usage_delta_spec (before after : st) (id : string) :
  id ∈ svc_usage_ids ->
  usage_delta before after id = Z.of_N (recompute_usage after id) - Z.of_N (recompute_usage before id).
Proof.
  intros Hid. pose proof Hid as Hcases. apply svc_usage_ids_cases in Hcases.
  unfold usage_delta.
  rewrite (sum_changes_zero (conf_contrib id)) by (intros; apply conf_contrib_zero; exact Hid).
  destruct Hcases as [->|[->|[->|[->|[->|[->|[->|[->| ->]]]]]]]].
  - (* nodes *)
    rewrite (sum_changes_zero (svc_contrib "nodes")) by (intros; apply contrib_other_zero; left; reflexivity).
    rewrite (sum_changes_count _ (fun _ => true)) by (intros; apply node_contrib_nodes).
    rewrite !filter_true_size. unfold recompute_usage. closed_tests. cbn [ind]. rewrite !nat_N_Z. lia.
  - (* services *)
    rewrite (sum_changes_zero (node_contrib "services")) by (intros; apply node_contrib_zero; [exact Hid|discriminate]).
    rewrite (sum_changes_count _ (fun _ => true)) by (intros; apply contrib_services).
    rewrite !filter_true_size. unfold recompute_usage. closed_tests. cbn [ind]. rewrite !nat_N_Z. lia.
  - (* service-names *)
    rewrite (sum_changes_zero (node_contrib "service-names")) by (intros; apply node_contrib_zero; [exact Hid|discriminate]).
    rewrite (sum_changes_zero (svc_contrib "service-names")) by (intros; apply contrib_other_zero; right; reflexivity).
    unfold recompute_usage. closed_tests. rewrite names_delta_spec, !names_of_set, !nat_N_Z. lia.
  - rewrite (sum_changes_zero (node_contrib _)) by (intros; apply node_contrib_zero; [exact Hid|discriminate]).
    rewrite (svc_sum _ _ _ (fun v => bool_decide (sv_kind v = KProxy))) by (intros; apply contrib_kind; discriminate).
    unfold recompute_usage. closed_tests. cbv beta iota. lia.
  - rewrite (sum_changes_zero (node_contrib _)) by (intros; apply node_contrib_zero; [exact Hid|discriminate]).
    rewrite (svc_sum _ _ _ (fun v => bool_decide (sv_kind v = KMeshGW))) by (intros; apply contrib_kind; discriminate).
    unfold recompute_usage. closed_tests. cbv beta iota. lia.
  - rewrite (sum_changes_zero (node_contrib _)) by (intros; apply node_contrib_zero; [exact Hid|discriminate]).
    rewrite (svc_sum _ _ _ (fun v => bool_decide (sv_kind v = KTermGW))) by (intros; apply contrib_kind; discriminate).
    unfold recompute_usage. closed_tests. cbv beta iota. lia.
  - rewrite (sum_changes_zero (node_contrib _)) by (intros; apply node_contrib_zero; [exact Hid|discriminate]).
    rewrite (svc_sum _ _ _ (fun v => bool_decide (sv_kind v = KIngressGW))) by (intros; apply contrib_kind; discriminate).
    unfold recompute_usage. closed_tests. cbv beta iota. lia.
  - rewrite (sum_changes_zero (node_contrib _)) by (intros; apply node_contrib_zero; [exact Hid|discriminate]).
    rewrite (svc_sum _ _ _ sv_native) by (intros; apply contrib_native).
    unfold recompute_usage. closed_tests. cbv beta iota. lia.
  - rewrite (sum_changes_zero (node_contrib _)) by (intros; apply node_contrib_zero; [exact Hid|discriminate]).
    rewrite (svc_sum _ _ _ billable) by (intros; apply contrib_billable).
    unfold recompute_usage. closed_tests. cbv beta iota. unfold billable. lia.
Qed.

(* one commit: if the counters were right before, they are right after *)
Theorem commit_usage_ok before after : UsageOK before -> UsageOK (commit_usage before after).
Proof.
  intros Hok id Hid.
  assert (Hin : id ∈ usage_ids) by (unfold svc_usage_ids in Hid; apply elem_of_take in Hid as (i & Hi & _); eapply elem_of_list_lookup_2; exact Hi).
  unfold stored_usage, commit_usage.
  match goal with |- context [after <| usage := ?x |>] =>
    change (usage (after <| usage := x |>)) with x;
    change (recompute_usage (after <| usage := x |>) id) with (recompute_usage after id) end.
  rewrite (lookup_list_to_map_fn usage_ids _ id Hin). cbn [default].
  rewrite (usage_delta_spec before after id Hid).
  fold (stored_usage before id). rewrite (Hok id Hid). unfold Datatypes.id. lia.
Qed.

Lemma UsageOK_st0 : UsageOK st0.
Proof.
  intros id Hid. apply svc_usage_ids_cases in Hid.
  destruct Hid as [->|[->|[->|[->|[->|[->|[->|[->| ->]]]]]]]]; vm_compute; reflexivity.
Qed.

Theorem apply_UsageOK idx c s : UsageOK s -> UsageOK (apply idx c s).1.
Proof. intros H. unfold apply. destruct (exec idx c s) as [s' r]. cbn [fst]. apply commit_usage_ok. exact H. Qed.
