(* mesh-topology: what registration does to the references of a pair (the content of /repo acb191c):
   a proxy that lists an upstream is ADDED to the pair's references; nobody else's reference is lost. *)
From stdpp Require Import gmap strings.
From RecordUpdate Require Import RecordSet.
From Coq Require Import NArith.
From Verif Require Import Catalog.Model.
Import RecordSetNotations.
Local Open Scope N_scope.

Definition refs_of (s : st) (p : string * string) : gset (string * string) := default ∅ (topo s !! p).

Lemma add_refs_spec (key : string * string) (dest : string) (ups : list string) : forall s p,
  let s' := foldl (fun s' u => s' <| topo ::= <[(u, dest) := {[ key ]} ∪ default ∅ (topo s' !! (u, dest))]> |>) s ups in
  refs_of s p ⊆ refs_of s' p /\
  (forall u, u ∈ ups -> p = (u, dest) -> is_Some (topo s' !! p) /\ key ∈ refs_of s' p) /\
  ((forall u, u ∈ ups -> p ≠ (u, dest)) -> topo s' !! p = topo s !! p).
Proof.
  induction ups as [|u0 ups IH]; intros s p; cbn.
  - split; [reflexivity|]. split; [intros u Hu; inversion Hu|reflexivity].
  - set (s1 := s <| topo ::= <[(u0, dest) := {[ key ]} ∪ default ∅ (topo s !! (u0, dest))]> |>).
    destruct (IH s1 p) as (Hsub & Hin & Hout). cbn zeta in *.
    assert (H1 : refs_of s p ⊆ refs_of s1 p).
    { unfold refs_of, s1. cbn. destruct (decide (p = (u0, dest))) as [->|Hne];
        [rewrite lookup_insert; cbn; set_solver|rewrite lookup_insert_ne by congruence; reflexivity]. }
    split; [etransitivity; eassumption|]. split.
    + intros u Hu ->. apply elem_of_cons in Hu as [->|Hu]; [|apply (Hin u Hu eq_refl)].
      destruct (decide (u0 ∈ ups)) as [Hu0|Hu0]; [apply (Hin u0 Hu0 eq_refl)|].
      assert (Hk : topo s1 !! (u0, dest) = Some ({[key]} ∪ default ∅ (topo s !! (u0, dest)))) by (unfold s1; cbn; apply lookup_insert).
      rewrite (Hout ltac:(intros u Hu [= ->]; contradiction)). rewrite Hk. split; [eauto|].
      apply Hsub. unfold refs_of. rewrite Hk. cbn. set_solver.
    + intros Hno. rewrite Hout by (intros u Hu; apply Hno; right; exact Hu).
      unfold s1. cbn. apply lookup_insert_ne. intros <-. apply (Hno u0); [left|reflexivity].
Qed.

Lemma drop_old_spec (dest : string) (ups old : list string) : forall s p,
  (forall u, p = (u, dest) -> u ∈ ups) \/ (forall u, p ≠ (u, dest)) ->
  topo (foldl (fun s' u => if bool_decide (u ∈ ups) then s' else s' <| topo ::= delete (u, dest) |>) s old) !! p = topo s !! p.
Proof.
  induction old as [|u0 old IH]; intros s p Hp; cbn; [reflexivity|].
  rewrite IH by exact Hp. destruct (bool_decide (u0 ∈ ups)) eqn:Eb; [reflexivity|]. cbn.
  apply bool_decide_eq_false in Eb. apply lookup_delete_ne. intros <-.
  destruct Hp as [Hp|Hp]; [apply Eb, (Hp u0 eq_refl)|apply (Hp u0 eq_refl)].
Qed.

(* updateMeshTopology: for every upstream u the instance lists, the pair (u, destination) exists
   afterwards, the instance is among its references, and so is everyone who was before *)
Theorem update_mesh_topology_keeps_refs nd sid dest ups existing s u :
  u ∈ ups ->
  let s' := update_mesh_topology nd sid dest ups existing s in
  is_Some (topo s' !! (u, dest)) /\ (nd, sid) ∈ refs_of s' (u, dest) /\ refs_of s (u, dest) ⊆ refs_of s' (u, dest).
Proof.
  intros Hu. cbn zeta. unfold update_mesh_topology.
  destruct (add_refs_spec (nd, sid) dest ups s (u, dest)) as (Hsub & Hin & _). cbn zeta in *.
  destruct (Hin u Hu eq_refl) as [Hsome Hkey].
  unfold refs_of in *. rewrite drop_old_spec by (left; intros u' [= <-]; exact Hu).
  split; [exact Hsome|]. split; [exact Hkey|exact Hsub].
Qed.

(* pairs with another destination are not touched at all *)
Theorem update_mesh_topology_other_destination nd sid dest ups existing s p :
  p.2 ≠ dest -> topo (update_mesh_topology nd sid dest ups existing s) !! p = topo s !! p.
Proof.
  intros Hp. unfold update_mesh_topology.
  rewrite drop_old_spec by (right; intros u ->; apply Hp; reflexivity).
  destruct (add_refs_spec (nd, sid) dest ups s p) as (_ & _ & Hout). apply Hout.
  intros u _ ->. apply Hp. reflexivity.
Qed.
