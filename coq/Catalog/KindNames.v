(* kind-service-names equals its recomputation in every state reached under a naming discipline:
   every instance key (node, service id) is always registered with the same name / kind / native flag
   / destination, and a service-defaults entry of a name either always or never carries a
   destination.  A name may be shared by instances of several kinds (since /repo 0bb54ea).
   (Without the discipline: Refuted.v.) *)
From stdpp Require Import gmap strings.
From RecordUpdate Require Import RecordSet.
From Coq Require Import NArith.
From Verif Require Import Catalog.Model Catalog.Frames Catalog.Spec.
Import RecordSetNotations.
Local Open Scope N_scope.

(* ---------- the part of the state the statement reads ---------- *)
Definition same_skc (a b : st) : Prop := services a = services b /\ confs a = confs b /\ ksn a = ksn b.
Lemma same_skc_refl a : same_skc a a. Proof. repeat split. Qed.
Lemma same_skc_trans a b c : same_skc a b -> same_skc b c -> same_skc a c.
Proof. unfold same_skc. intuition congruence. Qed.

Lemma foldl_skc {A} (g : st -> A -> st) l :
  (forall s x, same_skc (g s x) s) -> forall s, same_skc (foldl g s l) s.
Proof.
  intros Hg. induction l as [|x l IH]; intros s; cbn; [apply same_skc_refl|].
  eapply same_skc_trans; [apply IH|apply Hg].
Qed.

Lemma insert_gw_topology_skc gw sv r s : same_skc (insert_gw_topology gw sv r s) s.
Proof. unfold insert_gw_topology. destruct (_ && _); repeat split. Qed.
Lemma delete_gw_topology_skc gw sv r s : same_skc (delete_gw_topology gw sv r s) s.
Proof. unfold delete_gw_topology. destruct (bool_decide _); repeat split. Qed.
Lemma update_gateway_service_skc gw sv port r s : same_skc (update_gateway_service gw sv port r s) s.
Proof.
  unfold update_gateway_service. destruct (bool_decide _); [apply same_skc_refl|].
  eapply same_skc_trans; [apply insert_gw_topology_skc|repeat split].
Qed.
Lemma check_gateway_wildcards_and_update_skc name ns kind s :
  same_skc (check_gateway_wildcards_and_update name ns kind s) s.
Proof.
  unfold check_gateway_wildcards_and_update.
  destruct (service_has_connect_instances name s) as [hc0 hn0].
  destruct (match ns with Some (k, native) => _ | None => _ end) as [hc hn].
  apply foldl_skc. intros s' key. destruct (gws s !! key) as [w|]; [|apply same_skc_refl].
  destruct (_ && _); [apply same_skc_refl|]. destruct (_ && _); [apply same_skc_refl|].
  destruct (gws s' !! _) as [listed|]; [destruct (negb (g_wild listed)); [apply same_skc_refl|]|]; apply update_gateway_service_skc.
Qed.
Lemma check_gateway_and_update_skc name kind s : same_skc (check_gateway_and_update name kind s) s.
Proof.
  unfold check_gateway_and_update. apply foldl_skc. intros s' key.
  destruct (gws s !! key); [apply update_gateway_service_skc|apply same_skc_refl].
Qed.
Lemma cleanup_gateway_wildcards_skc name cd s : same_skc (cleanup_gateway_wildcards name cd s) s.
Proof.
  unfold cleanup_gateway_wildcards. destruct (service_has_connect_instances name s) as [hc hn].
  apply foldl_skc. intros s' key. destruct (gws s !! key) as [m|]; [|apply same_skc_refl].
  destruct (g_wild m).
  - destruct (_ && _); [apply same_skc_refl|]. destruct (_ && _); [apply same_skc_refl|].
    eapply same_skc_trans; [apply delete_gw_topology_skc|repeat split].
  - apply check_gateway_and_update_skc.
Qed.
Lemma update_gateway_namespace_skc gw port r s : same_skc (update_gateway_namespace gw port r s) s.
Proof.
  unfold update_gateway_namespace.
  eapply same_skc_trans; [apply update_gateway_service_skc|].
  eapply same_skc_trans.
  { apply foldl_skc. intros s' name. destruct (bool_decide _); [apply same_skc_refl|apply update_gateway_service_skc]. }
  apply foldl_skc. intros s' name. destruct (bool_decide (name = consul_name)); [apply same_skc_refl|].
  destruct (service_has_connect_instances name s') as [hc hn].
  destruct (_ && _); [apply same_skc_refl|]. destruct (_ && _); [apply same_skc_refl|].
  destruct (bool_decide _); [apply same_skc_refl|apply update_gateway_service_skc].
Qed.
Lemma update_gateway_services_skc name c s : same_skc (update_gateway_services name c s) s.
Proof.
  unfold update_gateway_services. destruct (bool_decide _); [apply same_skc_refl|].
  eapply same_skc_trans.
  { apply foldl_skc. intros s' [[sv port] r]. destruct (bool_decide _);
      [apply update_gateway_namespace_skc|apply update_gateway_service_skc]. }
  destruct c; repeat split.
Qed.
Lemma update_mesh_topology_skc nd sid dest ups ex s : same_skc (update_mesh_topology nd sid dest ups ex s) s.
Proof.
  unfold update_mesh_topology.
  eapply same_skc_trans.
  { apply foldl_skc. intros s' u. destruct (bool_decide _); repeat split. }
  apply foldl_skc. intros s' u. repeat split.
Qed.
Lemma cleanup_mesh_topology_skc nd sid v s : same_skc (cleanup_mesh_topology nd sid v s) s.
Proof. unfold cleanup_mesh_topology. destruct (negb _); repeat split. Qed.

Lemma assign_vip_skc name s ip s' : assign_vip name s = Ok (ip, s') -> same_skc s' s.
Proof.
  unfold assign_vip. destruct (vips s !! name) as [[ip0 m0]|]; [intros [= <- <-]; apply same_skc_refl|].
  destruct (min_free (free s)); [intros [= <- <-]; repeat split|].
  destruct (bool_decide _); [discriminate|]. intros [= <- <-]; repeat split.
Qed.
Lemma free_vip_skc name s : same_skc (free_vip name s) s.
Proof.
  unfold free_vip. destruct (negb _); [apply same_skc_refl|]. destruct (has_instance name s); [apply same_skc_refl|].
  destruct (has_connect_instance name s); [apply same_skc_refl|].
  destruct (existsb _ _); [apply same_skc_refl|]. destruct (vips s !! name) as [[ip m]|]; repeat split.
Qed.
Lemma free_vip_services name s : services (free_vip name s) = services s.
Proof. apply free_vip_skc. Qed.

(* ---------- the discipline ---------- *)
Record discipline := Discipline {
  d_def : string * string -> string * skind * bool * string;  (* instance key -> name, kind, native, destination *)
  d_dest : string -> bool                                     (* does the name's service-defaults entry carry a destination *)
}.

Section discipline.
Variable D : discipline.

Definition fields (v : svc) : string * skind * bool * string := (sv_name v, sv_kind v, sv_native v, sv_dest v).
Definition req_ok (nd : string) (r : svcreq) : Prop :=
  d_def D (nd, sr_id r) = (sr_name r, sr_kind r, sr_native r, sr_dest r).
Definition op_ok (op : txnop) : Prop :=
  match op with
  | TService VSet nd r | TService VCAS nd r => req_ok nd r
  | _ => True
  end.
Definition cmd_ok (c : cmd) : Prop :=
  match c with
  | Register nd _ _ _ (Some r) _ => req_ok nd r
  | Txn ops => Forall op_ok ops
  | ConfSet name (CDefaults d) => d = d_dest D name
  | _ => True
  end.

(* the invariant *)
Definition Disc (s : st) : Prop :=
  (forall k v, services s !! k = Some v -> fields v = d_def D k) /\
  (forall k n c, confs s !! (k, n) = Some c -> k = conf_kind c /\ (forall d, c = CDefaults d -> d = d_dest D n)).

Definition justified (s : st) (p : string * string) : Prop :=
  (exists key v, services s !! key = Some v /\ kind_str (sv_kind v) = p.1 /\ sv_name v = p.2) \/
  (p.1 = connect_enabled /\ p.2 ≠ "" /\ exists key v, services s !! key = Some v /\ connect_name v = Some p.2) \/
  (p.1 = destination_kind /\ confs s !! ("service-defaults", p.2) = Some (CDefaults true)).

Definition KN (s : st) : Prop := forall p, p ∈ ksn s <-> justified s p.

Definition J (s : st) : Prop := Disc s /\ KN s.

Lemma J_skc a b : same_skc a b -> J b -> J a.
Proof.
  intros (Hs & Hc & Hk) [[D1 D2] HK]. split; [split|].
  - intros k v Hv. rewrite Hs in Hv. apply D1; exact Hv.
  - intros k n c Hcf. rewrite Hc in Hcf. apply D2; exact Hcf.
  - intros p. split; intros H.
    + rewrite Hk in H. apply HK in H. unfold justified in *. rewrite Hs, Hc. exact H.
    + rewrite Hk. apply HK. unfold justified in *. rewrite <- Hs, <- Hc. exact H.
Qed.

Lemma J_st0 : J st0.
Proof.
  split; [split|].
  - intros k v H. cbn in H. rewrite lookup_empty in H. discriminate.
  - intros k n c H. cbn in H. rewrite lookup_empty in H. discriminate.
  - intros p. split.
    + intros H. cbn in H. set_solver.
    + intros [(key & v & H & _)|[(_ & _ & key & v & H & _)|(_ & H)]]; cbn in H; rewrite lookup_empty in H; discriminate.
Qed.

(* kind strings are neither "connect-enabled" nor "destination" *)
Lemma kind_str_not_special k : kind_str k ≠ connect_enabled /\ kind_str k ≠ destination_kind.
Proof. destruct k; split; discriminate. Qed.
Lemma kind_str_inj k1 k2 : kind_str k1 = kind_str k2 -> k1 = k2.
Proof. destruct k1, k2; try reflexivity; discriminate. Qed.


Lemma has_instance_true name s : has_instance name s = true <-> exists k v, services s !! k = Some v /\ sv_name v = name.
Proof. unfold has_instance. rewrite bool_decide_eq_true. unfold map_Exists. reflexivity. Qed.
Lemma has_instance_false name s : has_instance name s = false <-> ~ exists k v, services s !! k = Some v /\ sv_name v = name.
Proof. rewrite <- has_instance_true. destruct (has_instance name s); split; congruence. Qed.
Lemma has_connect_instance_true name s :
  has_connect_instance name s = true <-> exists k v, services s !! k = Some v /\ connect_name v = Some name.
Proof. unfold has_connect_instance. rewrite bool_decide_eq_true. unfold map_Exists. reflexivity. Qed.
Lemma has_connect_instance_false name s :
  has_connect_instance name s = false <-> ~ exists k v, services s !! k = Some v /\ connect_name v = Some name.
Proof. rewrite <- has_connect_instance_true. destruct (has_connect_instance name s); split; congruence. Qed.

Lemma has_instance_kind_true name k s :
  has_instance_kind name k s = true <-> exists key v, services s !! key = Some v /\ sv_name v = name /\ sv_kind v = k.
Proof. unfold has_instance_kind. rewrite bool_decide_eq_true. unfold map_Exists. reflexivity. Qed.
Lemma has_instance_kind_false name k s :
  has_instance_kind name k s = false <-> ~ exists key v, services s !! key = Some v /\ sv_name v = name /\ sv_kind v = k.
Proof. rewrite <- has_instance_kind_true. destruct (has_instance_kind name k s); split; congruence. Qed.
Lemma has_instance_kind_instance name k s : has_instance name s = false -> has_instance_kind name k s = false.
Proof.
  intros H. apply has_instance_kind_false. intros (key & v & Hv & Hn & _).
  apply has_instance_false in H. apply H. eauto.
Qed.

Lemma has_instance_services a b name : services a = services b -> has_instance name a = has_instance name b.
Proof. intros H. unfold has_instance. rewrite H. reflexivity. Qed.
Lemma has_connect_instance_services a b name : services a = services b -> has_connect_instance name a = has_connect_instance name b.
Proof. intros H. unfold has_connect_instance. rewrite H. reflexivity. Qed.

(* the connect name of a row determined by its fields *)
Lemma connect_name_fields v1 v2 : fields v1 = fields v2 -> connect_name v1 = connect_name v2.
Proof. unfold fields, connect_name. intros [= -> -> -> ->]. reflexivity. Qed.

(* ---------- registration ---------- *)
Definition new_pairs (r : svcreq) : gset (string * string) :=
  {[ (kind_str (sr_kind r), sr_name r) ]} ∪
  (if is_connect r && negb (bool_decide (connect_target r = "")) then {[ (connect_enabled, connect_target r) ]} else ∅).

Definition row_of (r : svcreq) (vip : option N) (c m : N) : svc :=
  Svc (sr_name r) (sr_kind r) (sr_native r) (sr_dest r) (sr_port r) (sr_ups r) vip c m.

Lemma connect_name_row r vip c m :
  connect_name (row_of r vip c m) = if is_connect r then Some (connect_target r) else None.
Proof.
  unfold connect_name, row_of, is_connect, connect_target. cbn.
  destruct (bool_decide (sr_kind r = KProxy)); cbn; [reflexivity|]. destruct (sr_native r); reflexivity.
Qed.

Lemma row_justifies r vip c m p (s : st) key :
  services s !! key = Some (row_of r vip c m) -> p ∈ new_pairs r -> justified s p.
Proof.
  intros Hk Hp. unfold new_pairs in Hp. apply elem_of_union in Hp as [Hp|Hp].
  - apply elem_of_singleton in Hp. subst p. left. exists key, (row_of r vip c m). repeat split; assumption.
  - destruct (is_connect r && negb (bool_decide (connect_target r = ""))) eqn:E; [|set_solver].
    apply elem_of_singleton in Hp. subst p. apply andb_true_iff in E as [E1 E2].
    apply negb_true_iff, bool_decide_eq_false in E2.
    right; left. split; [reflexivity|]. split; [exact E2|].
    exists key, (row_of r vip c m). split; [exact Hk|]. rewrite connect_name_row, E1. reflexivity.
Qed.

Lemma row_only_new_pairs r vip c m p :
  (kind_str (sv_kind (row_of r vip c m)) = p.1 /\ sv_name (row_of r vip c m) = p.2) \/
  (p.1 = connect_enabled /\ p.2 ≠ "" /\ connect_name (row_of r vip c m) = Some p.2) ->
  p ∈ new_pairs r.
Proof.
  destruct p as [k n]. cbn. unfold new_pairs. intros [[<- <-]|(-> & Hn & Hc)].
  - apply elem_of_union_l, elem_of_singleton. reflexivity.
  - rewrite connect_name_row in Hc. destruct (is_connect r) eqn:E; [|discriminate]. injection Hc as <-.
    apply elem_of_union_r. cbn. rewrite bool_decide_eq_false_2 by exact Hn. cbn. apply elem_of_singleton. reflexivity.
Qed.

(* the final step of ensureServiceTxn: the derived tables already updated, the row written (or found equal) *)
Lemma J_register nd r (s s7 : st) vip c m :
  req_ok nd r -> J s ->
  services s7 = services s -> confs s7 = confs s -> ksn s7 = ksn s ∪ new_pairs r ->
  (forall x, services s !! (nd, sr_id r) = Some x -> True) ->
  J (s7 <| services ::= <[(nd, sr_id r) := row_of r vip c m]> |>).
Proof.
  intros Hdef [[D1 D2] HK] Hs Hc Hk _. set (key := (nd, sr_id r)). set (v' := row_of r vip c m).
  assert (Hold : forall x, services s !! key = Some x -> fields x = fields v').
  { intros x Hx. rewrite (D1 key x Hx). subst key. rewrite Hdef. reflexivity. }
  split; [split|].
  - intros k v Hv. cbn in Hv. destruct (decide (k = key)) as [->|Hne].
    + rewrite lookup_insert in Hv. injection Hv as <-. symmetry; exact Hdef.
    + rewrite lookup_insert_ne in Hv by congruence. rewrite Hs in Hv. apply D1; exact Hv.
  - intros k n cf Hcf. cbn in Hcf. rewrite Hc in Hcf. apply D2; exact Hcf.
  - unfold KN in *. intros p. change (ksn (s7 <| services ::= <[key := v']> |>)) with (ksn s7). rewrite Hk, elem_of_union, (HK p). split.
    + intros [Hj|Hn].
      * (* justified before: still justified, the replaced row having the same fields *)
        destruct Hj as [(k & v & Hv & Hp1 & Hp2)|[(Hp1 & Hp2 & k & v & Hv & Hcn)|(Hp1 & Hcf)]].
        -- left. destruct (decide (k = key)) as [->|Hne].
           ++ exists key, v'. split; [cbn; apply lookup_insert|]. pose proof (Hold v Hv) as Hf. unfold fields in Hf.
              injection Hf as Hf1 Hf2 _ _. split; [rewrite <- Hp1; f_equal; symmetry; exact Hf2|rewrite <- Hp2; symmetry; exact Hf1].
           ++ exists k, v. split; [cbn; rewrite lookup_insert_ne by congruence; rewrite Hs; exact Hv|split; assumption].
        -- right; left. split; [exact Hp1|]. split; [exact Hp2|]. destruct (decide (k = key)) as [->|Hne].
           ++ exists key, v'. split; [cbn; apply lookup_insert|]. rewrite <- (connect_name_fields v v' (Hold v Hv)). exact Hcn.
           ++ exists k, v. split; [cbn; rewrite lookup_insert_ne by congruence; rewrite Hs; exact Hv|exact Hcn].
        -- right; right. split; [exact Hp1|]. cbn. rewrite Hc. exact Hcf.
      * apply (row_justifies r vip c m p _ key); [cbn; apply lookup_insert|exact Hn].
    + intros [(k & v & Hv & Hp1 & Hp2)|[(Hp1 & Hp2 & k & v & Hv & Hcn)|(Hp1 & Hcf)]].
      * cbn in Hv. destruct (decide (k = key)) as [->|Hne].
        -- rewrite lookup_insert in Hv. injection Hv as <-. right. apply (row_only_new_pairs r vip c m). left. split; assumption.
        -- rewrite lookup_insert_ne in Hv by congruence. rewrite Hs in Hv. left. left. exists k, v. repeat split; assumption.
      * cbn in Hv. destruct (decide (k = key)) as [->|Hne].
        -- rewrite lookup_insert in Hv. injection Hv as <-. right. apply (row_only_new_pairs r vip c m). right. repeat split; assumption.
        -- rewrite lookup_insert_ne in Hv by congruence. rewrite Hs in Hv. left. right; left. repeat split; try assumption. exists k, v. split; assumption.
      * cbn in Hcf. rewrite Hc in Hcf. left. right; right. split; assumption.
Qed.

(* ... and when the stored row is found equal nothing is written *)
Lemma J_register_same nd r (s s7 : st) x :
  req_ok nd r -> J s ->
  services s7 = services s -> confs s7 = confs s -> ksn s7 = ksn s ∪ new_pairs r ->
  services s !! (nd, sr_id r) = Some x -> J s7.
Proof.
  intros Hreq HJ Hs Hc Hk Hx.
  pose proof (J_register nd r s s7 (sv_vip x) (sv_create x) (sv_modify x) Hreq HJ Hs Hc Hk (fun _ _ => I)) as H.
  pose proof Hreq as Hdef. destruct HJ as [[D1 D2] HK].
  assert (Hf : fields x = fields (row_of r (sv_vip x) (sv_create x) (sv_modify x))).
  { rewrite (D1 _ x Hx), Hdef. reflexivity. }
  (* J only reads the fields of a row *)
  destruct H as [[E1 E2] EK]. split; [split|].
  - intros k v Hv. rewrite Hs in Hv. apply D1; exact Hv.
  - intros k n cf Hcf. rewrite Hc in Hcf. apply D2; exact Hcf.
  - unfold KN in *. intros p. specialize (EK p). change (ksn (s7 <| services ::= _ |>)) with (ksn s7) in EK. rewrite EK.
    set (key := (nd, sr_id r)) in *. set (v' := row_of r _ _ _) in *.
    unfold justified. cbn [services confs]. change (confs (s7 <| services ::= _ |>)) with (confs s7).
    change (services (s7 <| services ::= <[key := v']> |>)) with (<[key := v']> (services s7)).
    assert (Hsw : forall (Q : svc -> Prop), (forall a b, fields a = fields b -> Q a -> Q b) ->
              ((exists k v, <[key := v']> (services s7) !! k = Some v /\ Q v) <-> (exists k v, services s7 !! k = Some v /\ Q v))).
    { intros Q HQ. split; intros (k & v & Hv & Hq).
      - destruct (decide (k = key)) as [->|Hne].
        + rewrite lookup_insert in Hv. injection Hv as <-. exists key, x. split; [rewrite Hs; exact Hx|]. apply (HQ v' x); [symmetry; exact Hf|exact Hq].
        + rewrite lookup_insert_ne in Hv by congruence. eauto.
      - destruct (decide (k = key)) as [->|Hne].
        + exists key, v'. split; [apply lookup_insert|]. rewrite Hs, Hx in Hv. injection Hv as <-. apply (HQ x v' Hf Hq).
        + exists k, v. split; [rewrite lookup_insert_ne by congruence; exact Hv|exact Hq]. }
    rewrite (Hsw (fun v => kind_str (sv_kind v) = p.1 /\ sv_name v = p.2)).
    2:{ intros a b Hab [H1 H2]. unfold fields in Hab. injection Hab as Ha1 Ha2 _ _. split; [rewrite <- H1; f_equal; symmetry; exact Ha2|rewrite <- H2; symmetry; exact Ha1]. }
    rewrite (Hsw (fun v => connect_name v = Some p.2)).
    2:{ intros a b Hab H1. rewrite <- (connect_name_fields a b Hab). exact H1. }
    reflexivity.
Qed.

Lemma res_bind_ok {A B} (m : res A) (k : A -> res B) (b : B) :
  m ≫= k = Ok b -> exists a, m = Ok a /\ k a = Ok b.
Proof. destruct m as [a|e]; cbn; [eauto|discriminate]. Qed.

Lemma ensure_service_J idx nd r s s' : ensure_service idx nd r s = Ok s' -> req_ok nd r -> J s -> J s'.
Proof.
  unfold ensure_service. intros He Hreq HJ.
  set (s1 := if bool_decide (sr_kind r = KTypical) && negb (bool_decide (sr_name r = consul_name)) then _ else s) in He.
  assert (H1 : same_skc s1 s).
  { subst s1. destruct (bool_decide (sr_kind r = KTypical) && negb (bool_decide (sr_name r = consul_name))); [|apply same_skc_refl].
    eapply same_skc_trans; [apply check_gateway_and_update_skc|apply check_gateway_wildcards_and_update_skc]. }
  clearbody s1.
  set (s2 := upsert_ksn _ _ s1) in He.
  apply res_bind_ok in He as ([vip s7] & E3 & He).
  assert (H7 : services s7 = services s /\ confs s7 = confs s /\ ksn s7 = ksn s ∪ new_pairs r).
  { destruct H1 as (H1s & H1c & H1k). unfold new_pairs.
    destruct (is_connect r) eqn:Ec; [|injection E3 as <- <-; subst s2; cbn; rewrite H1s, H1c, H1k; repeat split; set_solver].
    cbn zeta in E3.
    set (s4 := check_gateway_wildcards_and_update _ _ _ _) in E3.
    assert (H4 : same_skc s4 s2).
    { subst s4. eapply same_skc_trans; [apply check_gateway_wildcards_and_update_skc|apply update_mesh_topology_skc]. }
    clearbody s4.
    set (s5 := if bool_decide (connect_target r = "") then s4 else _) in E3.
    assert (H5 : services s5 = services s /\ confs s5 = confs s /\ ksn s5 = ksn s ∪ new_pairs r).
    { destruct H4 as (H4s & H4c & H4k). unfold new_pairs. rewrite Ec. subst s5 s2.
      destruct (bool_decide (connect_target r = "")); cbn; rewrite ?H4s, ?H4c, ?H4k; cbn; rewrite ?H1s, ?H1c, ?H1k;
        repeat split; set_solver. }
    clearbody s5. unfold new_pairs in H5. rewrite Ec in H5.
    destruct (vips_on s5 && negb (bool_decide (connect_target r = ""))); [|injection E3 as <- <-; exact H5].
    apply res_bind_ok in E3 as ([ip s6] & Ea & E3). injection E3 as <- <-.
    destruct (assign_vip_skc _ _ _ _ Ea) as (A1 & A2 & A3). destruct H5 as (H5s & H5c & H5k).
    rewrite A1, A2, A3. repeat split; assumption. }
  destruct H7 as (H7s & H7c & H7k).
  destruct (nodes s7 !! nd); [|discriminate].
  destruct (services s !! (nd, sr_id r)) as [x|] eqn:Ex.
  - destruct (same_service x r vip); injection He as <-.
    + apply (J_register_same nd r s s7 x Hreq HJ H7s H7c H7k Ex).
    + apply (J_register nd r s s7 vip (sv_create x) idx Hreq HJ H7s H7c H7k). tauto.
  - injection He as <-. apply (J_register nd r s s7 vip idx idx Hreq HJ H7s H7c H7k). tauto.
Qed.

(* ---------- deregistration ---------- *)
Lemma delete_check_skc nd cid s : same_skc (delete_check nd cid s) s.
Proof. repeat split. Qed.

Lemma delete_service_J nd sid s : J s -> J (delete_service nd sid s).
Proof.
  intros HJ. unfold delete_service. destruct (services s !! (nd, sid)) as [v|] eqn:Ev; [|exact HJ].
  set (key := (nd, sid)).
  set (s1 := foldl _ s _).
  assert (H1 : same_skc s1 s) by (apply foldl_skc; intros; apply delete_check_skc). clearbody s1.
  set (s3 := cleanup_mesh_topology nd sid v (s1 <| services ::= delete key |>)).
  assert (H3 : services s3 = delete key (services s) /\ confs s3 = confs s /\ ksn s3 = ksn s).
  { destruct H1 as (H1s & H1c & H1k). destruct (cleanup_mesh_topology_skc nd sid v (s1 <| services ::= delete key |>)) as (A1 & A2 & A3).
    subst s3. rewrite A1, A2, A3. cbn. rewrite H1s, H1c, H1k. repeat split. }
  clearbody s3. destruct H3 as (H3s & H3c & H3k).
  set (A := if has_instance_kind (sv_name v) (sv_kind v) s3 then (∅ : gset (string * string)) else {[ (kind_str (sv_kind v), sv_name v) ]}).
  set (s4 := if has_instance (sv_name v) s3 then (if has_instance_kind (sv_name v) (sv_kind v) s3 then s3 else _) else _).
  assert (H4 : services s4 = delete key (services s) /\ confs s4 = confs s /\ ksn s4 = ksn s ∖ A).
  { subst s4 A. destruct (has_instance (sv_name v) s3) eqn:Ehi.
    - destruct (has_instance_kind (sv_name v) (sv_kind v) s3); [rewrite H3s, H3c, H3k; repeat split; set_solver|].
      cbn. rewrite H3s, H3c, H3k. repeat split.
    - rewrite (has_instance_kind_instance _ (sv_kind v) _ Ehi).
      destruct (free_vip_skc (sv_name v) s3) as (F1 & F2 & F3). cbn. rewrite F1, F2, F3, H3s, H3c, H3k. repeat split. }
  clearbody s4. destruct H4 as (H4s & H4c & H4k).
  set (B := match connect_name v with
            | Some sn => if has_connect_instance sn s4 then (∅ : gset (string * string)) else {[ (connect_enabled, sn) ]}
            | None => ∅ end).
  set (s5 := match connect_name v with Some sn => _ | None => s4 end).
  assert (H5 : services s5 = delete key (services s) /\ confs s5 = confs s /\ ksn s5 = (ksn s ∖ A) ∖ B).
  { subst s5 B. destruct (connect_name v) as [sn|]; [|rewrite H4s, H4c, H4k; repeat split; set_solver].
    destruct (has_connect_instance sn s4); [rewrite H4s, H4c, H4k; repeat split; set_solver|].
    destruct (cleanup_gateway_wildcards_skc sn false (cleanup_ksn connect_enabled sn s4)) as (C1 & C2 & C3).
    rewrite C1, C2, C3. cbn. rewrite H4s, H4c, H4k. repeat split. }
  clearbody s5. destruct H5 as (H5s & H5c & H5k).
  apply (J_skc _ s5 (cleanup_gateway_wildcards_skc _ _ _)).
  (* the facts the two tests established *)
  assert (HA : forall p, p ∈ A -> p = (kind_str (sv_kind v), sv_name v) /\
                 ~ exists k x, delete key (services s) !! k = Some x /\ sv_name x = sv_name v /\ sv_kind x = sv_kind v).
  { subst A. intros p Hp. destruct (has_instance_kind (sv_name v) (sv_kind v) s3) eqn:Eh; [set_solver|].
    apply elem_of_singleton in Hp. split; [exact Hp|]. apply has_instance_kind_false in Eh. rewrite H3s in Eh. exact Eh. }
  assert (HA' : (kind_str (sv_kind v), sv_name v) ∉ A ->
                exists k x, delete key (services s) !! k = Some x /\ sv_name x = sv_name v /\ sv_kind x = sv_kind v).
  { subst A. destruct (has_instance_kind (sv_name v) (sv_kind v) s3) eqn:Eh; [|set_solver]. intros _.
    apply has_instance_kind_true in Eh. rewrite H3s in Eh. exact Eh. }
  assert (HB : forall p, p ∈ B -> exists sn, connect_name v = Some sn /\ p = (connect_enabled, sn) /\
                 ~ exists k x, delete key (services s) !! k = Some x /\ connect_name x = Some sn).
  { subst B. intros p Hp. destruct (connect_name v) as [sn|]; [|set_solver].
    destruct (has_connect_instance sn s4) eqn:Eh; [set_solver|]. apply elem_of_singleton in Hp. exists sn. split; [reflexivity|].
    split; [exact Hp|]. apply has_connect_instance_false in Eh. rewrite H4s in Eh. exact Eh. }
  assert (HB' : forall sn, connect_name v = Some sn -> (connect_enabled, sn) ∉ B ->
                 exists k x, delete key (services s) !! k = Some x /\ connect_name x = Some sn).
  { subst B. intros sn Hsn. rewrite Hsn. destruct (has_connect_instance sn s4) eqn:Eh; [|set_solver].
    intros _. apply has_connect_instance_true in Eh. rewrite H4s in Eh. exact Eh. }
  clearbody A B. destruct HJ as [[D1 D2] HK]. split; [split|].
  - intros k x Hx. rewrite H5s in Hx. apply lookup_delete_Some in Hx as [_ Hx]. apply D1; exact Hx.
  - intros k n c Hc. rewrite H5c in Hc. apply D2; exact Hc.
  - unfold KN in *. intros p. rewrite H5k, !elem_of_difference, (HK p). unfold justified. rewrite H5s, H5c. split.
    + intros [[Hj HnA] HnB]. destruct Hj as [(k & x & Hx & Hp1 & Hp2)|[(Hp1 & Hp2 & k & x & Hx & Hcn)|Hcf]].
      * left. destruct (decide (k = key)) as [->|Hne].
        -- assert (x = v) by (unfold key in Hx; congruence). subst x.
           destruct (HA' ltac:(destruct p; cbn in *; subst; exact HnA)) as (k2 & x2 & Hx2 & Hn2 & Hk2).
           exists k2, x2. split; [exact Hx2|]. split; [rewrite <- Hp1, Hk2; reflexivity|congruence].
        -- exists k, x. split; [rewrite lookup_delete_ne by congruence; exact Hx|split; assumption].
      * right; left. split; [exact Hp1|]. split; [exact Hp2|]. destruct (decide (k = key)) as [->|Hne].
        -- assert (x = v) by (unfold key in Hx; congruence). subst x.
           apply (HB' _ Hcn). destruct p; cbn in *; subst. exact HnB.
        -- exists k, x. split; [rewrite lookup_delete_ne by congruence; exact Hx|exact Hcn].
      * right; right. exact Hcf.
    + intros Hj. split; [split|].
      * destruct Hj as [(k & x & Hx & Hp)|[(Hp1 & Hp2 & k & x & Hx & Hcn)|Hcf]].
        -- left. apply lookup_delete_Some in Hx as [_ Hx]. eauto.
        -- right; left. apply lookup_delete_Some in Hx as [_ Hx]. eauto 10.
        -- right; right. exact Hcf.
      * intros HpA. destruct (HA p HpA) as [-> Hno]. cbn in Hj.
        destruct Hj as [(k & x & Hx & Hkd & Hn)|[(Hp1 & _)|(Hp1 & _)]].
        -- apply Hno. exists k, x. split; [exact Hx|]. split; [exact Hn|apply kind_str_inj; exact Hkd].
        -- destruct (kind_str_not_special (sv_kind v)) as [Hx _]. contradiction.
        -- destruct (kind_str_not_special (sv_kind v)) as [_ Hx]. contradiction.
      * intros HpB. destruct (HB p HpB) as (sn & Hsn & -> & Hno). cbn in Hj.
        destruct Hj as [(k & x & Hx & Hk & _)|[(_ & _ & k & x & Hx & Hcn)|(Hp1 & _)]].
        -- destruct (kind_str_not_special (sv_kind x)) as [Hq _]. contradiction.
        -- apply Hno. eauto.
        -- discriminate.
Qed.

(* ---------- config entries ---------- *)
Lemma conf_set_J name c s s' :
  conf_set name c s = Ok s' -> (forall d, c = CDefaults d -> d = d_dest D name) -> J s -> J s'.
Proof.
  unfold conf_set. intros He Hd HJ.
  set (s1 := match c with CTermGW _ | CIngressGW _ => _ | _ => s end) in He.
  assert (H1 : same_skc s1 s) by (subst s1; destruct c; try apply same_skc_refl; apply update_gateway_services_skc).
  clearbody s1.
  set (P := if bool_decide (c = CDefaults true) then ({[ (destination_kind, name) ]} : gset (string * string)) else ∅).
  set (s2 := match c with CDefaults true => _ | CDefaults false => _ | _ => s1 end) in He.
  assert (H2 : services s2 = services s /\ confs s2 = confs s /\ ksn s2 = ksn s ∪ P).
  { destruct H1 as (H1s & H1c & H1k).
    (* under the discipline an entry written without a Destination never meets a stored one that has it *)
    assert (Hnodrop : c = CDefaults false -> bool_decide (confs s1 !! ("service-defaults", name) = Some (CDefaults true)) = false).
    { intros Hc. apply bool_decide_eq_false_2. rewrite H1c. intros Hst.
      destruct HJ as [[_ D2] _]. destruct (D2 _ _ _ Hst) as [_ Hdd]. specialize (Hdd true eq_refl).
      specialize (Hd false Hc). congruence. }
    assert (Hx : forall X, same_skc X s1 ->
      services (upsert_ksn destination_kind name X) = services s /\ confs (upsert_ksn destination_kind name X) = confs s /\
      ksn (upsert_ksn destination_kind name X) = ksn s ∪ {[ (destination_kind, name) ]}).
    { intros X (X1 & X2 & X3). unfold upsert_ksn. cbn. rewrite X1, X2, X3, H1s, H1c, H1k. repeat split. set_solver. }
    subst s2 P. destruct c as [| |[]|].
    4: rewrite (Hnodrop eq_refl).
    1,2,4,5: (rewrite bool_decide_eq_false_2 by discriminate; rewrite H1s, H1c, H1k; repeat split; set_solver).
    rewrite (bool_decide_eq_true_2 (CDefaults true = CDefaults true)) by reflexivity. apply Hx.
    eapply same_skc_trans; [apply check_gateway_and_update_skc|apply check_gateway_wildcards_and_update_skc]. }
  clearbody s2. destruct H2 as (H2s & H2c & H2k).
  apply res_bind_ok in He as (s3 & E3 & He). injection He as <-.
  assert (H3 : services s3 = services s /\ confs s3 = confs s /\ ksn s3 = ksn s ∪ P).
  { destruct (_ && _); [|injection E3 as <-; repeat split; assumption].
    apply res_bind_ok in E3 as ([ip s'] & Ea & E3). injection E3 as <-.
    destruct (assign_vip_skc _ _ _ _ Ea) as (A1 & A2 & A3). rewrite A1, A2, A3. repeat split; assumption. }
  destruct H3 as (H3s & H3c & H3k). destruct HJ as [[D1 D2] HK]. split; [split|].
  - intros k v Hv. cbn in Hv. rewrite H3s in Hv. apply D1; exact Hv.
  - intros k n cf Hcf. cbn in Hcf. destruct (decide ((k, n) = (conf_kind c, name))) as [[= -> ->]|Hne].
    + rewrite lookup_insert in Hcf. injection Hcf as <-. split; [reflexivity|exact Hd].
    + rewrite lookup_insert_ne in Hcf by congruence. rewrite H3c in Hcf. apply D2; exact Hcf.
  - unfold KN in *. intros p. change (ksn (s3 <| confs ::= _ |>)) with (ksn s3). rewrite H3k, elem_of_union, (HK p).
    unfold justified. cbn [services confs]. change (services (s3 <| confs ::= _ |>)) with (services s3).
    change (confs (s3 <| confs ::= ?f |>)) with (f (confs s3)). rewrite H3s, H3c.
    assert (Hcf : forall n, <[(conf_kind c, name) := c]> (confs s) !! ("service-defaults", n) = Some (CDefaults true) <->
                            (confs s !! ("service-defaults", n) = Some (CDefaults true) \/ ((destination_kind, n) ∈ P))).
    { intros n. subst P. destruct (decide (("service-defaults", n) = (conf_kind c, name))) as [Heq|Hne].
      - rewrite Heq, lookup_insert. injection Heq as Hk ->. split.
        + intros [= ->]. right. cbn. apply elem_of_singleton. reflexivity.
        + intros [Hold|Hin].
          * destruct (D2 _ _ _ Hold) as [_ Hdd]. specialize (Hdd true eq_refl).
            destruct c as [| |d|]; try discriminate Hk. rewrite (Hd d eq_refl), <- Hdd. reflexivity.
          * destruct (bool_decide (c = CDefaults true)) eqn:Eb; [apply bool_decide_eq_true in Eb; rewrite Eb; reflexivity|set_solver].
      - rewrite lookup_insert_ne by congruence. split; [tauto|]. intros [Hold|Hin]; [exact Hold|].
        destruct (bool_decide (c = CDefaults true)) eqn:Eb; [|set_solver]. apply bool_decide_eq_true in Eb. subst c.
        apply elem_of_singleton in Hin. injection Hin as ->. contradiction Hne. reflexivity. }
    split.
    + intros [[Hj|[Hj|[Hp1 Hj]]]|Hn]; [left; exact Hj|right; left; exact Hj| |].
      * right; right. split; [exact Hp1|]. apply Hcf. left. exact Hj.
      * right; right. subst P. destruct (bool_decide (c = CDefaults true)) eqn:Eb; [|set_solver].
        apply elem_of_singleton in Hn. subst p. split; [reflexivity|]. apply Hcf. right. apply elem_of_singleton. reflexivity.
    + intros [Hj|[Hj|[Hp1 Hj]]]; [left; left; exact Hj|left; right; left; exact Hj|].
      apply Hcf in Hj as [Hj|Hj]; [left; right; right; split; assumption|].
      right. destruct p as [k n]. cbn in *. subst k. exact Hj.
Qed.

Lemma conf_delete_J kind name s : J s -> J (conf_delete kind name s).
Proof.
  intros HJ. unfold conf_delete. destruct (confs s !! (kind, name)) as [c|] eqn:Ec; [|exact HJ].
  set (s1 := if bool_decide (kind = "terminating-gateway") || bool_decide (kind = "ingress-gateway") then _ else s).
  assert (H1 : same_skc s1 s).
  { subst s1. destruct (bool_decide (kind = "terminating-gateway") || bool_decide (kind = "ingress-gateway")); repeat split. }
  clearbody s1.
  set (P := if bool_decide (c = CDefaults true) then ({[ (destination_kind, name) ]} : gset (string * string)) else ∅).
  set (s2 := match c with CDefaults true => _ | _ => s1 end).
  assert (H2 : services s2 = services s /\ confs s2 = confs s /\ ksn s2 = ksn s ∖ P).
  { destruct H1 as (H1s & H1c & H1k).
    assert (Hx : forall X, same_skc X s1 ->
      services (cleanup_ksn destination_kind name X) = services s /\ confs (cleanup_ksn destination_kind name X) = confs s /\
      ksn (cleanup_ksn destination_kind name X) = ksn s ∖ {[ (destination_kind, name) ]}).
    { intros X (X1 & X2 & X3). unfold cleanup_ksn. cbn. rewrite X1, X2, X3, H1s, H1c, H1k. repeat split. }
    subst s2 P. destruct c as [| |[]|].
    1,2,4,5: (rewrite bool_decide_eq_false_2 by discriminate; rewrite H1s, H1c, H1k; repeat split; set_solver).
    rewrite (bool_decide_eq_true_2 (CDefaults true = CDefaults true)) by reflexivity. apply Hx.
    eapply same_skc_trans; [apply check_gateway_and_update_skc|].
    eapply same_skc_trans; [apply cleanup_gateway_wildcards_skc|apply check_gateway_wildcards_and_update_skc]. }
  clearbody s2. destruct H2 as (H2s & H2c & H2k).
  set (s3 := if bool_decide (kind = "ingress-gateway") then _ else s2).
  assert (H3 : same_skc s3 s2) by (subst s3; destruct (bool_decide (kind = "ingress-gateway")); repeat split).
  clearbody s3. destruct H3 as (H3s & H3c & H3k).
  set (s4 := s3 <| confs ::= delete (kind, name) |>).
  assert (H4 : services s4 = services s /\ confs s4 = delete (kind, name) (confs s) /\ ksn s4 = ksn s ∖ P).
  { subst s4. cbn. rewrite H3s, H3c, H3k, H2s, H2c, H2k. repeat split. }
  clearbody s4. destruct H4 as (H4s & H4c & H4k).
  assert (HJ4 : J s4).
  { destruct HJ as [[D1 D2] HK]. destruct (D2 _ _ _ Ec) as [Hkind _]. split; [split|].
    - intros k v Hv. rewrite H4s in Hv. apply D1; exact Hv.
    - intros k n cf Hcf. rewrite H4c in Hcf. apply lookup_delete_Some in Hcf as [_ Hcf]. apply D2; exact Hcf.
    - unfold KN in *. intros p. rewrite H4k, elem_of_difference, (HK p). unfold justified. rewrite H4s, H4c. split.
      + intros [[Hj|[Hj|[Hp1 Hj]]] HnP]; [left; exact Hj|right; left; exact Hj|].
        right; right. split; [exact Hp1|]. rewrite lookup_delete_ne; [exact Hj|].
        intros [= -> ->]. apply HnP. subst P. rewrite Ec in Hj. injection Hj as ->. cbn.
        destruct p as [k n]; cbn in *; subst. apply elem_of_singleton. reflexivity.
      + intros Hj. split.
        * destruct Hj as [Hj|[Hj|[Hp1 Hj]]]; [left; exact Hj|right; left; exact Hj|].
          right; right. split; [exact Hp1|]. apply lookup_delete_Some in Hj as [_ Hj]. exact Hj.
        * intros HpP. subst P. destruct (bool_decide (c = CDefaults true)) eqn:Eb; [|set_solver].
          apply bool_decide_eq_true in Eb. subst c. apply elem_of_singleton in HpP. subst p. cbn in *. subst kind.
          destruct Hj as [(k & x & Hx & Hk & _)|[(Hp1 & _)|(_ & Hj)]].
          -- destruct (kind_str_not_special (sv_kind x)) as [_ Hq]. contradiction.
          -- discriminate.
          -- rewrite lookup_delete in Hj. discriminate. }
  destruct (conf_has_vip c && negb (bool_decide (name = ""))); [|exact HJ4].
  apply (J_skc _ s4 (free_vip_skc _ _) HJ4).
Qed.

(* ---------- the remaining verbs ---------- *)
Lemma foldl_J {A} (g : st -> A -> st) l : (forall s x, J s -> J (g s x)) -> forall s, J s -> J (foldl g s l).
Proof. intros Hg. induction l as [|x l IH]; intros s Hs; cbn; [exact Hs|]. apply IH, Hg, Hs. Qed.

Lemma delete_node_J nd s : J s -> J (delete_node nd s).
Proof.
  intros HJ. unfold delete_node. destruct (nodes s !! nd); [|exact HJ].
  set (s1 := foldl _ s _).
  assert (H1 : J s1) by (apply foldl_J; [intros; apply delete_service_J; assumption|exact HJ]). clearbody s1.
  set (s2 := foldl _ s1 _).
  assert (H2 : J s2) by (apply foldl_J; [intros s0 x H0; apply (J_skc _ s0 (delete_check_skc _ _ _) H0)|exact H1]).
  apply (J_skc _ s2); [repeat split|exact H2].
Qed.

Lemma ensure_node_J idx nd id addr s s' : ensure_node idx nd id addr s = Ok s' -> J s -> J s'.
Proof.
  unfold ensure_node. intros He HJ. apply res_bind_ok in He as ([n0 s1] & E1 & E2).
  assert (H1 : J s1).
  { destruct (bool_decide (id = "")); [injection E1 as _ <-; exact HJ|].
    destruct (node_by_id id s) as [[oname on]|].
    - destruct (bool_decide (oname = nd)); [injection E1 as _ <-; exact HJ|].
      destruct (similar_clash false nd id s); [discriminate|]. injection E1 as _ <-. apply delete_node_J; exact HJ.
    - destruct (similar_clash true nd id s); [discriminate|]. injection E1 as _ <-; exact HJ. }
  cbn zeta in E2. destruct (match n0 with Some x => Some x | None => nodes s1 !! nd end) as [x|].
  - destruct (_ && _); injection E2 as <-; [exact H1|]. apply (J_skc _ s1); [repeat split|exact H1].
  - injection E2 as <-. apply (J_skc _ s1); [repeat split|exact H1].
Qed.

Lemma ensure_check_J idx c s s' : ensure_check idx c s = Ok s' -> J s -> J s'.
Proof.
  unfold ensure_check. destruct (nodes s !! cr_node c); [|discriminate].
  intros He. apply res_bind_ok in He as (svcname & _ & He).
  destruct (checks s !! _) as [x|]; [destruct (_ && _)|]; injection He as <-; try tauto; apply J_skc; repeat split.
Qed.

Lemma rfold_J {A} (f : st -> A -> res st) l :
  (forall x a b, f a x = Ok b -> J a -> J b) -> forall s s', rfold f l s = Ok s' -> J s -> J s'.
Proof.
  intros Hf. induction l as [|x l IH]; intros s s'; cbn [rfold]; [intros [= <-]; tauto|].
  intros Hr Hs. apply res_bind_ok in Hr as (s1 & E & Hr). apply (IH _ _ Hr). apply (Hf _ _ _ E Hs).
Qed.

Lemma ensure_registration_J idx nd id addr skip sv cks s s' :
  ensure_registration idx nd id addr skip sv cks s = Ok s' ->
  (forall r, sv = Some r -> req_ok nd r) -> J s -> J s'.
Proof.
  unfold ensure_registration. intros He Hreq HJ.
  apply res_bind_ok in He as (s1 & E1 & He). apply res_bind_ok in He as (s2 & E2 & He).
  assert (H1 : J s1).
  { destruct (changes_node _ _ _ _); [apply (ensure_node_J _ _ _ _ _ _ E1 HJ)|injection E1 as <-; exact HJ]. }
  assert (H2 : J s2).
  { destruct sv as [r|]; [|injection E2 as <-; exact H1].
    destruct (services s1 !! (nd, sr_id r)) as [x|].
    - destruct (_ && _); [injection E2 as <-; exact H1|apply (ensure_service_J _ _ _ _ _ E2 (Hreq r eq_refl) H1)].
    - apply (ensure_service_J _ _ _ _ _ E2 (Hreq r eq_refl) H1). }
  revert He H2. apply rfold_J. intros c a b. destruct (bool_decide _); [|discriminate]. apply ensure_check_J.
Qed.

Lemma txn_op_J idx op s s' : txn_op idx op s = Ok s' -> op_ok op -> J s -> J s'.
Proof.
  destruct op; cbn [txn_op op_ok].
  - destruct v; intros He _.
    + destruct (bool_decide (id = "")); destruct (bool_decide _); try discriminate; injection He as <-; tauto.
    + apply (ensure_node_J _ _ _ _ _ _ He).
    + destruct (cas_ok _ _ _); [apply (ensure_node_J _ _ _ _ _ _ He)|discriminate].
    + injection He as <-. apply delete_node_J.
    + destruct (nodes s !! nd); [|discriminate]. destruct (bool_decide _); [|discriminate]. injection He as <-. apply delete_node_J.
  - destruct v; intros He Hok.
    + destruct (bool_decide _); [|discriminate]. injection He as <-; tauto.
    + apply (ensure_service_J _ _ _ _ _ He Hok).
    + destruct (cas_ok _ _ _); [apply (ensure_service_J _ _ _ _ _ He Hok)|discriminate].
    + injection He as <-. apply delete_service_J.
    + destruct (services s !! _); [|discriminate]. destruct (bool_decide _); [|discriminate]. injection He as <-. apply delete_service_J.
  - destruct v; intros He _.
    + destruct (bool_decide _); [|discriminate]. injection He as <-; tauto.
    + apply (ensure_check_J _ _ _ _ He).
    + destruct (cas_ok _ _ _); [apply (ensure_check_J _ _ _ _ He)|discriminate].
    + injection He as <-. intros H. apply (J_skc _ s (delete_check_skc _ _ _) H).
    + destruct (checks s !! _); [|discriminate]. destruct (bool_decide _); [|discriminate]. injection He as <-.
      intros H. apply (J_skc _ s (delete_check_skc _ _ _) H).
Qed.

Lemma txn_dispatch_J idx ops : forall i s s', txn_dispatch idx i ops s = inl s' -> Forall op_ok ops -> J s -> J s'.
Proof.
  induction ops as [|op ops IH]; intros i s s'; cbn; [intros [= <-]; tauto|].
  destruct (txn_op idx op s) as [s1|e] eqn:E; [|discriminate].
  intros Hd Hok Hs. inversion Hok as [|? ? Hop Hrest]; subst. apply (IH _ _ _ Hd Hrest). apply (txn_op_J _ _ _ _ E Hop Hs).
Qed.

Lemma assign_manual_skc name ips s : same_skc (assign_manual name ips s).2 s.
Proof.
  unfold assign_manual.
  set (step := fun '(s', from) ip => _).
  assert (Hfold : forall l (acc : st * list string), same_skc acc.1 s -> same_skc (foldl step acc l).1 s).
  { induction l as [|ip l IH]; intros acc Hacc; cbn; [exact Hacc|]. apply IH. destruct acc as [s1 from]. cbn in Hacc |- *.
    destruct (manual_holder ip s1) as [n|]; [|exact Hacc]. destruct (bool_decide (n = name)); [exact Hacc|].
    destruct (vips s1 !! n) as [[a m]|]; [|exact Hacc]. cbn. exact Hacc. }
  specialize (Hfold (dedup_sorted (ssort ips)) (s, []) (same_skc_refl _)).
  destruct (foldl step (s, []) (dedup_sorted (ssort ips))) as [s1 from]. cbn in Hfold.
  destruct (vips s1 !! name) as [[a m]|]; cbn; [|apply same_skc_refl]. destruct (_ && _); cbn; exact Hfold.
Qed.

Lemma exec_J idx c s : cmd_ok c -> J s -> J (exec idx c s).1.
Proof.
  intros Hok HJ. destruct c; cbn [exec cmd_ok] in *.
  - cbn. apply (J_skc _ s); [repeat split|exact HJ].
  - destruct (ensure_registration _ _ _ _ _ _ _ s) as [s'|e] eqn:E; cbn; [|exact HJ].
    apply (ensure_registration_J _ _ _ _ _ _ _ _ _ E); [|exact HJ]. intros r ->. exact Hok.
  - destruct (negb _); cbn; [apply delete_service_J; exact HJ|].
    destruct (negb _); cbn; [apply (J_skc _ s (delete_check_skc _ _ _) HJ)|apply delete_node_J; exact HJ].
  - destruct (txn_dispatch idx 0 ops s) as [s'|[i e]] eqn:E; cbn; [|exact HJ].
    apply (txn_dispatch_J _ _ _ _ _ E Hok HJ).
  - destruct (conf_set name c s) as [s'|e] eqn:E; cbn; [|exact HJ]. apply (conf_set_J _ _ _ _ E); [|exact HJ].
    intros d ->. exact Hok.
  - cbn. apply conf_delete_J; exact HJ.
  - pose proof (assign_manual_skc name ips s) as H. destruct (assign_manual name ips s) as [[found from] s']. cbn in *.
    apply (J_skc _ s H HJ).
  - cbn. destruct (bool_decide _); [apply (J_skc _ s); [repeat split|exact HJ]|exact HJ].
  - exact HJ.
Qed.

Lemma apply_J idx c s : cmd_ok c -> J s -> J (apply idx c s).1.
Proof.
  intros Hok HJ. unfold apply. pose proof (exec_J idx c s Hok HJ) as H. destruct (exec idx c s) as [s' r]. cbn in *.
  apply (J_skc _ s'); [repeat split|exact H].
Qed.

(* reachable under the discipline *)
Inductive CReachD : st -> Prop :=
| CReachD_init : CReachD st0
| CReachD_step idx c s : CReachD s -> cmd_ok c -> CReachD (apply idx c s).1.

Theorem CReachD_J s : CReachD s -> J s.
Proof. induction 1 as [|idx c s _ IH Hok]; [apply J_st0|apply apply_J; assumption]. Qed.

End discipline.

(* ---------- "justified" is membership in the recomputation ---------- *)
Lemma elem_of_recompute_ksn s p : p ∈ recompute_ksn s <-> justified s p.
Proof.
  unfold recompute_ksn, justified. rewrite !elem_of_union, !elem_of_list_to_set, elem_of_list_fmap, !elem_of_list_omap.
  split.
  - intros [[([k v] & -> & Hin)|([k v] & Hin & Hf)]|([[k n] c] & Hin & Hf)].
    + apply elem_of_map_to_list in Hin. left. exists k, v. repeat split. exact Hin.
    + apply elem_of_map_to_list in Hin. cbn in Hf. destruct (connect_name v) as [n|] eqn:Ec; [|discriminate].
      destruct (bool_decide (n = "")) eqn:En; [discriminate|]. injection Hf as <-. apply bool_decide_eq_false in En.
      right; left. repeat split; try assumption. exists k, v. split; assumption.
    + apply elem_of_map_to_list in Hin. cbn in Hf.
      destruct (bool_decide (k = "service-defaults")) eqn:E1; cbn in Hf; [|discriminate].
      destruct (bool_decide (c = CDefaults true)) eqn:E2; cbn in Hf; [|discriminate]. injection Hf as <-.
      apply bool_decide_eq_true in E1, E2. subst. right; right. split; [reflexivity|exact Hin].
  - intros [(k & v & Hv & Hp1 & Hp2)|[(Hp1 & Hp2 & k & v & Hv & Hc)|(Hp1 & Hc)]].
    + left; left. exists (k, v). split; [destruct p; cbn in *; congruence|apply elem_of_map_to_list; exact Hv].
    + left; right. exists (k, v). split; [apply elem_of_map_to_list; exact Hv|]. cbn. rewrite Hc.
      rewrite bool_decide_eq_false_2 by exact Hp2. destruct p; cbn in *; congruence.
    + right. exists (("service-defaults", p.2), CDefaults true). split; [apply elem_of_map_to_list; exact Hc|]. cbn.
      rewrite !bool_decide_eq_true_2 by reflexivity. cbn. destruct p; cbn in *; congruence.
Qed.

Theorem kindnames_recomputed D s : CReachD D s -> ksn s = recompute_ksn s.
Proof.
  intros H. destruct (CReachD_J D s H) as [_ HK]. apply leibniz_equiv. intros p.
  rewrite elem_of_recompute_ksn. apply HK.
Qed.

Lemma CReachD_run D log : Forall (fun ic => cmd_ok D ic.2) log -> CReachD D (run log st0).1.
Proof.
  assert (H : forall s, CReachD D s -> Forall (fun ic => cmd_ok D ic.2) log -> CReachD D (run log s).1).
  { induction log as [|[idx c] log IH]; intros s Hs Hok; cbn; [exact Hs|].
    inversion Hok as [|? ? Hc Hrest]; subst. cbn in Hc.
    pose proof (CReachD_step D idx c s Hs Hc) as Ha. destruct (apply idx c s) as [s' r].
    specialize (IH s' Ha Hrest). destruct (run log s') as [s'' rs]. exact IH. }
  intros Hok. apply H; [constructor|exact Hok].
Qed.

(* a discipline and a history under it: a service, its sidecar proxy, a connect-native service on
   another node, a destination, a wildcard terminating gateway, a proxy registered under the NAME of
   the service "web" (a name shared by two kinds); then the plain instance, the node of the native
   service, the destination and the second proxy go away again *)
Definition example_discipline : discipline :=
  Discipline
    (fun k => if bool_decide (k = ("n1", "s1")) then ("web", KTypical, false, "")
              else if bool_decide (k = ("n1", "s2")) then ("web-proxy", KProxy, false, "web")
              else if bool_decide (k = ("n2", "s1")) then ("db", KTypical, true, "")
              else if bool_decide (k = ("n3", "s1")) then ("web", KProxy, false, "db")   (* a proxy named like the service "web" *)
              else ("", KTypical, false, ""))
    (fun n => bool_decide (n = "ext")).

Definition kn_example_log : list (N * cmd) :=
  [ (2, SysMeta true);
    (3, Register "n1" "" 1 false (Some (SvcReq "s1" "web" KTypical false "" 80 [] true 0)) []);
    (4, Register "n1" "" 1 false (Some (SvcReq "s2" "web-proxy" KProxy false "web" 81 ["db"] true 0)) []);
    (5, Txn [TService VSet "n2" (SvcReq "s1" "db" KTypical true "" 80 [] false 0)]);
    (6, Register "n2" "" 2 false None []);
    (7, Txn [TService VSet "n2" (SvcReq "s1" "db" KTypical true "" 80 [] false 0)]);
    (8, ConfSet "ext" (CDefaults true));
    (9, ConfSet "tgw" (CTermGW ["*"]));
    (10, Register "n3" "" 3 false (Some (SvcReq "s1" "web" KProxy false "db" 82 [] true 0)) []);
    (11, Deregister "n1" "s1" "");
    (12, Deregister "n2" "" "");
    (13, ConfDelete "service-defaults" "ext");
    (14, Deregister "n3" "" "") ].

Example kn_example :
  CReachD example_discipline (run (take 8%nat kn_example_log) st0).1 /\
  ksn (run (take 8%nat kn_example_log) st0).1 =
    {[ ("", "web"); ("connect-proxy", "web-proxy"); ("connect-enabled", "web"); ("", "db"); ("connect-enabled", "db");
       ("destination", "ext") ]} /\
  CReachD example_discipline (run kn_example_log st0).1 /\
  ksn (run kn_example_log st0).1 = {[ ("connect-proxy", "web-proxy"); ("connect-enabled", "web") ]}.
Proof.
  assert (Hok : Forall (fun ic => cmd_ok example_discipline ic.2) kn_example_log).
  { repeat constructor; try (split; vm_compute; reflexivity); vm_compute; reflexivity. }
  split; [apply CReachD_run; apply Forall_take; exact Hok|].
  split; [eapply bool_decide_eq_true_1; vm_compute; reflexivity|].
  split; [apply CReachD_run; exact Hok|].
  eapply bool_decide_eq_true_1; vm_compute; reflexivity.
Qed.
