(* Non-trivial reachable states of the catalog model used as non-vacuity examples by Properties/C07.v *)
From stdpp Require Import gmap strings.
From Coq Require Import NArith.
From Verif Require Import Catalog.Model Catalog.Spec Catalog.VIP Catalog.Reach Catalog.Refuted Catalog.Usage.
Local Open Scope N_scope.

(* a service, its sidecar proxy, a connect-native service, two gateways (one registered inside a
   transaction that also deregisters the plain service), and a node renamed by ID *)
Definition usage_example_log : list (N * cmd) :=
  [ (2, SysMeta true);
    (3, Register "n1" "id1" 1 false (Some (plain "s1" "web")) []);
    (4, Register "n1" "id1" 1 false (Some (proxy "s2" "web-proxy" "web" ["db"])) []);
    (5, Register "n2" "" 2 false (Some (native "s1" "db")) []);
    (6, Register "n2" "" 2 false (Some (SvcReq "s2" "tgw" KTermGW false "" 8443 [] true 0)) []);
    (7, Txn [TService VSet "n2" (SvcReq "s3" "igw" KIngressGW false "" 8080 [] false 0); TService VDelete "n1" (plain "s1" "web")]);
    (8, Register "n3" "id1" 1 false None []) ].

Example usage_example :
  let s := (run usage_example_log st0).1 in
  CReach s /\ stored_usage s "nodes" = 2 /\ stored_usage s "services" = 3 /\ stored_usage s "service-names" = 3 /\
  stored_usage s (connect_usage KTermGW) = 1 /\ stored_usage s native_usage = 1 /\ stored_usage s billable_usage = 1.
Proof. cbv zeta. split; [apply CReach_run|]. repeat split; vm_compute; reflexivity. Qed.

(* two services with virtual IPs; the connect-native instance advertises its service's address *)
Example vip_example :
  let s := (run (take 4%nat usage_example_log) st0).1 in
  CReach s /\ vips s !! "web" = Some (1, []) /\ vips s !! "db" = Some (2, []) /\
  exists v, services s !! ("n2", "s1") = Some v /\ sv_vip v = Some 2 /\ sv_native v = true /\ sv_kind v ≠ KProxy /\ sv_name v = "db".
Proof.
  cbv zeta. split; [apply CReach_run|]. split; [vm_compute; reflexivity|]. split; [vm_compute; reflexivity|].
  eexists. split; [vm_compute; reflexivity|]. split; [vm_compute; reflexivity|]. split; [vm_compute; reflexivity|].
  split; [vm_compute; discriminate|vm_compute; reflexivity].
Qed.
