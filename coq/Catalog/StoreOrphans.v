(* C07 over the core store model (Store/Model.v: the catalog verbs together with sessions, KV and
   transactions): orphan freedom and the deregistration cascades.

   The session cascade a check or node removal may trigger (deleteSessionTxn -> updateSessionCheck
   -> ensureCheckTxn -> deleteSessionTxn ...) only rewrites checks that are already there: it keeps
   the "skeleton" of the catalog (nodes, services, and for every check its service id) exactly.
   Every catalog verb is then characterised by what it does to the skeleton. *)
From stdpp Require Import gmap strings.
From RecordUpdate Require Import RecordSet.
From Coq Require Import NArith.
From Verif Require Import Store.Model Store.Inv Store.Theorems.
Import RecordSetNotations.
Local Open Scope N_scope.

Lemma bind_ok {A B} (m : result A) (k : A -> result B) (b : B) :
  m ≫= k = Ok b -> exists a, m = Ok a /\ k a = Ok b.
Proof. destruct m as [a|e p]; cbn; [eauto|discriminate]. Qed.

(* ---------- the invariant ---------- *)
Definition NoOrphans (s : st) : Prop :=
  (forall nd sid v, services s !! (nd, sid) = Some v -> is_Some (nodes s !! nd)) /\
  (forall nd cid c, checks s !! (nd, cid) = Some c ->
     is_Some (nodes s !! nd) /\ (c_service c ≠ "" -> is_Some (services s !! (nd, c_service c)))).

(* the service id of every check *)
Definition cs (s : st) : gmap (string * string) string := c_service <$> checks s.

Definition same_skel (a b : st) : Prop := nodes a = nodes b /\ services a = services b /\ cs a = cs b.

Lemma same_skel_refl a : same_skel a a.
Proof. repeat split. Qed.
Lemma same_skel_trans a b c : same_skel a b -> same_skel b c -> same_skel a c.
Proof. intros (H1 & H2 & H3) (H4 & H5 & H6). repeat split; congruence. Qed.

Lemma cs_lookup s k c : checks s !! k = Some c -> cs s !! k = Some (c_service c).
Proof. intros H. unfold cs. rewrite lookup_fmap, H. reflexivity. Qed.
Lemma cs_lookup_inv s k x : cs s !! k = Some x -> exists c, checks s !! k = Some c /\ c_service c = x.
Proof.
  unfold cs. rewrite lookup_fmap. destruct (checks s !! k) as [c|]; cbn; [|discriminate].
  intros [= <-]. eauto.
Qed.

Lemma NoOrphans_skel a b : same_skel a b -> NoOrphans b -> NoOrphans a.
Proof.
  intros (Hn & Hs & Hc) [H1 H2]. split.
  - intros nd sid v Hv. rewrite Hn. rewrite Hs in Hv. eapply H1; exact Hv.
  - intros nd cid c Hck. apply cs_lookup in Hck. rewrite Hc in Hck.
    apply cs_lookup_inv in Hck as (c' & Hc' & Heq). destruct (H2 nd cid c' Hc') as [Hx Hy].
    rewrite Hn, Hs, <- Heq. split; assumption.
Qed.

(* ---------- frames of the non-catalog steps ---------- *)
Lemma release_or_delete_keys_skel idx sid ss s : same_skel (release_or_delete_keys idx sid ss s) s.
Proof.
  unfold release_or_delete_keys, same_skel, cs. destruct (bool_decide _); [repeat split|].
  destruct (s_delete ss), (s_delay ss); repeat split.
Qed.

Lemma drop_session_skel idx sid ss s : same_skel (drop_session idx sid ss s) s.
Proof.
  unfold drop_session. cbn zeta.
  set (s1 := set_index "sessions" idx (s <| sessions ::= delete sid |>)).
  assert (H1 : same_skel (release_or_delete_keys idx sid ss s1) s).
  { eapply same_skel_trans; [apply release_or_delete_keys_skel|repeat split]. }
  match goal with |- context [bool_decide ?P] => destruct (bool_decide P) end;
    (eapply same_skel_trans; [|exact H1]); repeat split.
Qed.

(* ---------- ensureCheckTxn ---------- *)
(* what a successful check upsert does to the skeleton, for any session deleter that keeps it *)
Lemma ensure_check_with_skel del pre idx nd cid hc s s' :
  (forall i sid a b, del i sid a = Ok b -> same_skel b a) ->
  ensure_check_with del pre idx nd cid hc s = Ok s' ->
  nodes s' = nodes s /\ services s' = services s /\
  is_Some (nodes s !! nd) /\
  (c_service hc ≠ "" -> is_Some (services s !! (nd, c_service hc))) /\
  (cs s' = cs s \/ cs s' = <[(nd, cid) := c_service hc]> (cs s)).
Proof.
  intros Hdel. unfold ensure_check_with.
  destruct (nodes s !! nd) as [n|] eqn:En; [|discriminate].
  unfold resolve_service.
  assert (Hrf : forall l s0 s1, rfold (fun s' sid => del idx sid s') l s0 = Ok s1 -> same_skel s1 s0).
  { induction l as [|sid l IH]; intros s0 s1; cbn [rfold].
    - intros [= <-]. apply same_skel_refl.
    - intros Hr. apply bind_ok in Hr as (s2 & Ed & Hr). eapply same_skel_trans; [apply (IH s2 s1 Hr)|apply (Hdel _ _ _ _ Ed)]. }
  assert (Hfold : forall hc1, c_service hc1 = c_service hc ->
    forall s1, invalidate_if_critical del idx nd cid hc1 s = Ok s1 -> same_skel s1 s).
  { intros hc1 _ s1. unfold invalidate_if_critical. destruct (bool_decide _); [|intros [= <-]; apply same_skel_refl].
    apply Hrf. }
  assert (Hstore : forall hc1 s1, c_service hc1 = c_service hc -> same_skel s1 s ->
    let s2 := store_check pre idx nd cid hc1 (checks s !! (nd, cid)) s1 in
    nodes s2 = nodes s /\ services s2 = services s /\
    (cs s2 = cs s \/ cs s2 = <[(nd, cid) := c_service hc]> (cs s))).
  { intros hc1 s1 Hsv (Hn & Hs & Hc). cbn zeta. unfold store_check.
    destruct (match checks s !! (nd, cid) with Some x => negb (check_same x hc1) | None => true end).
    - cbn. split; [exact Hn|]. split; [exact Hs|]. right. unfold cs in *. cbn.
      rewrite fmap_insert. cbn. rewrite Hc, Hsv. reflexivity.
    - split; [exact Hn|]. split; [exact Hs|]. left. exact Hc. }
  destruct (bool_decide (c_service hc = "")) eqn:Eb; cbn.
  - apply bool_decide_eq_true in Eb.
    destruct (invalidate_if_critical del idx nd cid hc s) as [s1|e p] eqn:Ei; cbn; [|discriminate].
    intros [= <-]. destruct (Hstore hc s1 eq_refl (Hfold hc eq_refl s1 Ei)) as (H1 & H2 & H3).
    split; [exact H1|]. split; [exact H2|]. split; [eauto|]. split; [congruence|exact H3].
  - apply bool_decide_eq_false in Eb.
    destruct (services s !! (nd, c_service hc)) as [sv|] eqn:Es; cbn; [|discriminate].
    set (hc1 := hc <| c_svcname := sv_name sv |>).
    assert (Hsv1 : c_service hc1 = c_service hc) by reflexivity.
    destruct (invalidate_if_critical del idx nd cid hc1 s) as [s1|e p] eqn:Ei; cbn; [|discriminate].
    intros [= <-].
    destruct (Hstore hc1 s1 Hsv1 (Hfold hc1 Hsv1 s1 Ei)) as (H1 & H2 & H3).
    split; [exact H1|]. split; [exact H2|]. split; [eauto|]. split; [intros _; eauto|exact H3].
Qed.

(* ---------- deleteSessionTxn keeps the skeleton ---------- *)
Lemma delete_session_skel fuel : forall idx sid s s',
  delete_session fuel idx sid s = Ok s' -> same_skel s' s.
Proof.
  induction fuel as [|fuel IH]; intros idx sid s s'; cbn; [discriminate|].
  destruct (sessions s !! sid) as [ss|]; [|intros [= <-]; apply same_skel_refl].
  set (s4 := drop_session idx sid ss s).
  assert (H4 : same_skel s4 s) by apply drop_session_skel.
  generalize (session_checks_of_node (s_node ss) (s_name ss) s4). intros l.
  assert (Hgen : forall s0 s1, same_skel s0 s4 ->
    rfold (fun s' cid =>
             match checks s4 !! (s_node ss, cid) with
             | None => Ok s'
             | Some c => ensure_check_with (delete_session fuel) true idx (s_node ss) cid
                           (c <| c_status := critical |> <| c_output := OInvalid sid |>) s'
             end) l s0 = Ok s1 -> same_skel s1 s4).
  { induction l as [|cid l IHl]; intros s0 s1 H0; cbn [rfold].
    - intros [= <-]. exact H0.
    - intros Hr. apply bind_ok in Hr as (s2 & Ee & Hr).
      destruct (checks s4 !! (s_node ss, cid)) as [c|] eqn:Ec.
      + apply (IHl s2 s1); [|exact Hr].
        apply ensure_check_with_skel in Ee as (Hn & Hs & _ & _ & Hc); [|intros i sid' a b; apply IH].
        destruct H0 as (H0n & H0s & H0c). repeat split; try congruence.
        destruct Hc as [Hc|Hc]; [congruence|]. rewrite Hc, H0c. cbn.
        apply insert_id. apply cs_lookup in Ec. exact Ec.
      + injection Ee as <-. apply (IHl s0 s1 H0 Hr). }
  intros Hr. eapply same_skel_trans; [apply (Hgen s4 s' (same_skel_refl _) Hr)|exact H4].
Qed.

Lemma delete_session_top_skel idx sid s s' : delete_session_top idx sid s = Ok s' -> same_skel s' s.
Proof. apply delete_session_skel. Qed.

Lemma rfold_sessions_skel idx l : forall s s',
  rfold (fun s' sid => delete_session_top idx sid s') l s = Ok s' -> same_skel s' s.
Proof.
  induction l as [|sid l IH]; intros s s'; cbn [rfold]; [intros [= <-]; apply same_skel_refl|].
  intros Hr. apply bind_ok in Hr as (s1 & Ed & Hr). eapply same_skel_trans; [apply (IH _ _ Hr)|apply (delete_session_top_skel _ _ _ _ Ed)].
Qed.

(* the public check upsert *)
Lemma ensure_check_p_skel pre idx nd cid hc s s' :
  ensure_check_p pre idx nd cid hc s = Ok s' ->
  nodes s' = nodes s /\ services s' = services s /\
  is_Some (nodes s !! nd) /\
  (c_service hc ≠ "" -> is_Some (services s !! (nd, c_service hc))) /\
  (cs s' = cs s \/ cs s' = <[(nd, cid) := c_service hc]> (cs s)).
Proof.
  unfold ensure_check_p. apply ensure_check_with_skel.
  intros i sid a b. apply delete_session_skel.
Qed.

Lemma ensure_check_p_NoOrphans pre idx nd cid hc s s' :
  ensure_check_p pre idx nd cid hc s = Ok s' -> NoOrphans s -> NoOrphans s'.
Proof.
  intros He [H1 H2]. apply ensure_check_p_skel in He as (Hn & Hs & Hnd & Hsv & Hc). split.
  - intros n sid v Hv. rewrite Hn. rewrite Hs in Hv. eapply H1; exact Hv.
  - intros n cid' c Hck. apply cs_lookup in Hck. rewrite Hn, Hs.
    destruct Hc as [Hc|Hc]; rewrite Hc in Hck.
    + apply cs_lookup_inv in Hck as (c' & Hc' & Heq). rewrite <- Heq. apply (H2 n cid' c' Hc').
    + destruct (decide ((n, cid') = (nd, cid))) as [[= -> ->]|Hne].
      * rewrite lookup_insert in Hck. injection Hck as Heq. rewrite <- Heq. split; assumption.
      * rewrite lookup_insert_ne in Hck by congruence.
        apply cs_lookup_inv in Hck as (c' & Hc' & Heq). rewrite <- Heq. apply (H2 n cid' c' Hc').
Qed.

(* ---------- the three cascading deletes ---------- *)
Lemma delete_check_skel idx nd cid s s' :
  delete_check idx nd cid s = Ok s' ->
  nodes s' = nodes s /\ services s' = services s /\ cs s' = delete (nd, cid) (cs s).
Proof.
  unfold delete_check. destruct (checks s !! (nd, cid)) as [c|] eqn:Ec.
  - intros Hr. apply rfold_sessions_skel in Hr as (Hn & Hs & Hc). cbn in Hn, Hs.
    repeat split; try assumption. rewrite Hc. unfold cs. cbn. apply fmap_delete.
  - intros [= <-]. repeat split. symmetry. apply delete_notin. unfold cs. rewrite lookup_fmap, Ec. reflexivity.
Qed.

Lemma rfold_delete_check_skel idx nd l : forall s s',
  rfold (fun s' cid => delete_check idx nd cid s') l s = Ok s' ->
  nodes s' = nodes s /\ services s' = services s /\
  cs s' = filter (fun kv => ~ (kv.1.1 = nd /\ kv.1.2 ∈ l)) (cs s).
Proof.
  induction l as [|cid l IH]; intros s s'; cbn [rfold].
  - intros [= <-]. repeat split. symmetry. apply map_filter_id. intros k x _ [_ Hin]. inversion Hin.
  - intros Hr. apply bind_ok in Hr as (s1 & Ed & Hr). apply IH in Hr as (Hn & Hs & Hc).
    apply delete_check_skel in Ed as (Hn1 & Hs1 & Hc1).
    repeat split; try congruence. rewrite Hc, Hc1. apply map_eq. intros k.
    destruct (delete (nd, cid) (cs s) !! k) as [x|] eqn:Ek.
    + apply lookup_delete_Some in Ek as [Hne Hk].
      destruct (decide (k.1 = nd /\ k.2 ∈ l)) as [Hd|Hd].
      * rewrite (map_filter_lookup_None_2 _ _ k) by (right; intros y _ Hy; apply Hy; exact Hd).
        symmetry. apply map_filter_lookup_None_2. right. intros y _ Hy. apply Hy. cbn.
        destruct Hd as [Hd1 Hd2]. split; [exact Hd1|right; exact Hd2].
      * rewrite (map_filter_lookup_Some_2 _ _ k x); [|exact (proj2 (lookup_delete_Some _ _ _ _) (conj Hne Hk))|exact Hd].
        symmetry. apply map_filter_lookup_Some_2; [exact Hk|]. cbn. intros [Hd1 Hd2].
        apply elem_of_cons in Hd2 as [Hd2|Hd2]; [|apply Hd; split; assumption].
        apply Hne. destruct k as [a b]; cbn in *; congruence.
    + rewrite (map_filter_lookup_None_2 _ _ k) by (left; exact Ek).
      symmetry. apply lookup_delete_None in Ek as [Heq|Hk].
      * apply map_filter_lookup_None_2. right. intros y _ Hy. apply Hy. cbn. subst k. cbn. split; [reflexivity|left].
      * apply map_filter_lookup_None_2. left. exact Hk.
Qed.

Lemma elem_of_ssort x l : x ∈ ssort l <-> x ∈ l.
Proof.
  assert (Hins : forall y l', x ∈ sinsert y l' <-> x = y \/ x ∈ l').
  { intros y l'. induction l' as [|z l' IH]; cbn.
    - rewrite elem_of_list_singleton, elem_of_nil. tauto.
    - destruct (String.leb y z); rewrite !elem_of_cons; [tauto|]. rewrite IH. tauto. }
  induction l as [|y l IH]; cbn; [reflexivity|].
  rewrite Hins, elem_of_cons, IH. reflexivity.
Qed.

Lemma checks_of_service_spec nd svc s cid :
  cid ∈ checks_of_service nd svc s <-> exists c, checks s !! (nd, cid) = Some c /\ c_service c = svc.
Proof.
  unfold checks_of_service. rewrite elem_of_ssort, elem_of_list_omap. split.
  - intros ([[n c'] c] & Hin & Hf). apply elem_of_map_to_list in Hin.
    destruct (bool_decide (n = nd)) eqn:E1; cbn in Hf; [|discriminate].
    destruct (bool_decide (c_service c = svc)) eqn:E2; cbn in Hf; [|discriminate].
    apply bool_decide_eq_true in E1, E2. injection Hf as <-. subst n. eauto.
  - intros (c & Hc & Hsv). exists ((nd, cid), c). split; [apply elem_of_map_to_list; exact Hc|].
    rewrite !bool_decide_eq_true_2 by assumption || reflexivity. reflexivity.
Qed.

Lemma checks_of_node_spec nd s cid :
  cid ∈ checks_of_node nd s <-> is_Some (checks s !! (nd, cid)).
Proof.
  unfold checks_of_node. rewrite elem_of_ssort, elem_of_list_omap. split.
  - intros ([[n c'] c] & Hin & Hf). apply elem_of_map_to_list in Hin.
    destruct (bool_decide (n = nd)) eqn:E1; cbn in Hf; [|discriminate].
    apply bool_decide_eq_true in E1. injection Hf as <-. subst n. eauto.
  - intros [c Hc]. exists ((nd, cid), c). split; [apply elem_of_map_to_list; exact Hc|].
    rewrite bool_decide_eq_true_2 by reflexivity. reflexivity.
Qed.

Lemma services_of_node_spec nd s sid :
  sid ∈ services_of_node nd s <-> is_Some (services s !! (nd, sid)).
Proof.
  unfold services_of_node. rewrite elem_of_ssort, elem_of_list_omap. split.
  - intros ([[n c'] c] & Hin & Hf). apply elem_of_map_to_list in Hin.
    destruct (bool_decide (n = nd)) eqn:E1; cbn in Hf; [|discriminate].
    apply bool_decide_eq_true in E1. injection Hf as <-. subst n. eauto.
  - intros [c Hc]. exists ((nd, sid), c). split; [apply elem_of_map_to_list; exact Hc|].
    rewrite bool_decide_eq_true_2 by reflexivity. reflexivity.
Qed.

(* deleteServiceTxn: the instance and every check that names it are gone, nothing else changes *)
Lemma delete_service_skel idx nd svc s s' :
  delete_service idx nd svc s = Ok s' ->
  (services s !! (nd, svc) = None /\ s' = s) \/
  (nodes s' = nodes s /\ services s' = delete (nd, svc) (services s) /\
   cs s' = filter (fun kv => ~ (kv.1.1 = nd /\ kv.2 = svc)) (cs s)).
Proof.
  unfold delete_service. destruct (services s !! (nd, svc)) as [v|] eqn:Ev; [|intros [= <-]; left; split; reflexivity].
  destruct (rfold _ _ s) as [s1|e p] eqn:Er; cbn; [|discriminate].
  intros [= <-]. right. apply rfold_delete_check_skel in Er as (Hn & Hs & Hc). cbn.
  split; [exact Hn|]. split; [rewrite Hs; reflexivity|].
  unfold cs at 1. cbn. fold (cs s1). rewrite Hc. apply map_filter_ext. intros [n cid] x Hx. cbn.
  apply cs_lookup_inv in Hx as (c & Hck & Heq).
  split; intros Hnot [H1 H2]; apply Hnot; (split; [exact H1|]).
  - apply checks_of_service_spec. subst n. exists c. split; [exact Hck|congruence].
  - apply checks_of_service_spec in H2 as (c' & Hc' & Hsv). subst n. congruence.
Qed.

Lemma delete_service_NoOrphans idx nd svc s s' :
  delete_service idx nd svc s = Ok s' -> NoOrphans s -> NoOrphans s'.
Proof.
  intros Hd [H1 H2]. apply delete_service_skel in Hd as [[_ ->]|(Hn & Hs & Hc)]; [split; assumption|]. split.
  - intros n sid v Hv. rewrite Hn. rewrite Hs in Hv. apply lookup_delete_Some in Hv as [_ Hv]. eapply H1; exact Hv.
  - intros n cid c Hck. apply cs_lookup in Hck. rewrite Hc in Hck.
    apply map_filter_lookup_Some in Hck as [Hck Hf]. cbn in Hf.
    apply cs_lookup_inv in Hck as (c' & Hc' & Heq). destruct (H2 n cid c' Hc') as [Hx Hy].
    rewrite Hn, Hs, <- Heq. split; [exact Hx|]. intros Hne.
    rewrite lookup_delete_ne; [apply Hy; exact Hne|]. intros [= -> Hsv]. apply Hf. split; [reflexivity|congruence].
Qed.

Lemma rfold_delete_service_skel idx nd l : forall s s',
  NoOrphans s ->
  rfold (fun s' sv => delete_service idx nd sv s') l s = Ok s' ->
  NoOrphans s' /\ nodes s' = nodes s /\
  services s' = filter (fun kv => ~ (kv.1.1 = nd /\ kv.1.2 ∈ l)) (services s) /\
  (forall k x, cs s' !! k = Some x -> cs s !! k = Some x).
Proof.
  induction l as [|sv l IH]; intros s s' Hno; cbn [rfold].
  - intros [= <-]. split; [exact Hno|]. split; [reflexivity|]. split; [|tauto].
    symmetry. apply map_filter_id. intros k x _ [_ Hin]. inversion Hin.
  - intros Hr. apply bind_ok in Hr as (s1 & Ed & Hr). pose proof (delete_service_NoOrphans _ _ _ _ _ Ed Hno) as Hno1.
    apply (IH s1 s' Hno1) in Hr as (Hno' & Hn & Hs & Hc). split; [exact Hno'|].
    apply delete_service_skel in Ed as [[Hnone ->]|(Hn1 & Hs1 & Hc1)].
    + split; [exact Hn|]. split; [|exact Hc]. rewrite Hs. apply map_filter_ext. intros [n sid] x Hx. cbn.
      split; intros Hnot [H1 H2]; apply Hnot; (split; [exact H1|]).
      * apply elem_of_cons in H2 as [H2|H2]; [|exact H2]. subst. congruence.
      * right. exact H2.
    + split; [congruence|]. split.
      * rewrite Hs, Hs1. apply map_eq. intros k.
        destruct (decide (k.1 = nd /\ k.2 ∈ sv :: l)) as [Hd|Hd].
        -- rewrite (map_filter_lookup_None_2 _ (services s) k) by (right; intros y _ Hy; apply Hy; exact Hd).
           apply map_filter_lookup_None_2. destruct Hd as [Hd1 Hd2].
           apply elem_of_cons in Hd2 as [Hd2|Hd2].
           ++ left. apply lookup_delete_None. left. destruct k; cbn in *; congruence.
           ++ right. intros y _ Hy. apply Hy. split; assumption.
        -- destruct (services s !! k) as [x|] eqn:Ek.
           ++ rewrite (map_filter_lookup_Some_2 _ (services s) k x Ek Hd).
              apply map_filter_lookup_Some_2.
              ** apply lookup_delete_Some. split; [|exact Ek]. intros <-. apply Hd. cbn. split; [reflexivity|left].
              ** cbn. intros [H1 H2]. apply Hd. split; [exact H1|right; exact H2].
           ++ rewrite (map_filter_lookup_None_2 _ (services s) k) by (left; exact Ek).
              apply map_filter_lookup_None_2. left. apply lookup_delete_None. right. exact Ek.
      * intros k x Hx. apply Hc in Hx. rewrite Hc1 in Hx. apply map_filter_lookup_Some in Hx as [Hx _]. exact Hx.
Qed.

(* deleteNodeTxn *)
Lemma delete_node_skel idx nd s s' :
  NoOrphans s -> delete_node idx nd s = Ok s' ->
  NoOrphans s' /\
  ((nodes s !! nd = None /\ s' = s) \/
   (nodes s' = delete nd (nodes s) /\
    (forall k v, services s' !! k = Some v -> services s !! k = Some v /\ k.1 ≠ nd) /\
    (forall k x, cs s' !! k = Some x -> cs s !! k = Some x /\ k.1 ≠ nd))).
Proof.
  intros Hno. unfold delete_node. destruct (nodes s !! nd) as [n|] eqn:En; [|intros [= <-]; split; [exact Hno|left; split; reflexivity]].
  destruct (rfold _ (services_of_node nd s) s) as [s1|e p] eqn:E1; cbn; [|discriminate].
  destruct (rfold _ (checks_of_node nd s1) s1) as [s2|e p] eqn:E2; cbn; [|discriminate].
  intros Hr. apply rfold_sessions_skel in Hr as (Hn3 & Hs3 & Hc3). cbn in Hn3, Hs3. unfold cs at 2 in Hc3. cbn in Hc3. fold (cs s2) in Hc3.
  apply (rfold_delete_service_skel idx nd _ s s1 Hno) in E1 as (Hno1 & Hn1 & Hs1 & Hc1).
  apply rfold_delete_check_skel in E2 as (Hn2 & Hs2 & Hc2).
  assert (Hsv : forall k v, services s' !! k = Some v -> services s !! k = Some v /\ k.1 ≠ nd).
  { intros k v Hv. rewrite Hs3, Hs2, Hs1 in Hv. apply map_filter_lookup_Some in Hv as [Hv Hf]. cbn in Hf.
    split; [exact Hv|]. intros Heq. apply Hf. split; [exact Heq|].
    apply services_of_node_spec. destruct k as [a b]; cbn in *; subst a. eauto. }
  assert (Hck : forall k x, cs s' !! k = Some x -> cs s !! k = Some x /\ k.1 ≠ nd).
  { intros k x Hx. rewrite Hc3, Hc2 in Hx. apply map_filter_lookup_Some in Hx as [Hx Hf]. cbn in Hf.
    split; [apply Hc1; exact Hx|]. intros Heq. apply Hf. split; [exact Heq|].
    apply checks_of_node_spec. apply cs_lookup_inv in Hx as (c & Hc & _).
    destruct k as [a b]; cbn in *; subst a. eauto. }
  split; [|right; split; [rewrite Hn3, Hn2, Hn1; reflexivity|split; assumption]].
  destruct Hno as [H1 H2]. split.
  - intros n' sid v Hv. apply Hsv in Hv as [Hv Hne]. cbn in Hne.
    rewrite Hn3, Hn2, Hn1, lookup_delete_ne by congruence. eapply H1; exact Hv.
  - intros n' cid c Hc. apply cs_lookup in Hc. pose proof Hc as Hc'. apply Hck in Hc as [Hc Hne]. cbn in Hne.
    apply cs_lookup_inv in Hc as (c0 & Hc0 & Heq). destruct (H2 n' cid c0 Hc0) as [Hx Hy].
    rewrite Hn3, Hn2, Hn1, lookup_delete_ne by congruence. split; [exact Hx|].
    intros Hsvne. rewrite <- Heq in *.
    (* the service of a surviving check survives: it is an instance of another node *)
    destruct (Hy Hsvne) as [v Hv].
    rewrite Hs3, Hs2, Hs1. exists v. apply map_filter_lookup_Some_2; [exact Hv|]. cbn. intros [Hq _]. congruence.
Qed.

(* ---------- upserts ---------- *)
Lemma NoOrphans_insert_node s nd n : NoOrphans s -> NoOrphans (s <| nodes ::= <[nd := n]> |>).
Proof.
  intros [H1 H2]. split; cbn.
  - intros n' sid v Hv. destruct (decide (n' = nd)) as [->|Hne];
      [rewrite lookup_insert; eauto|rewrite lookup_insert_ne by congruence; eapply H1; exact Hv].
  - intros n' cid c Hc. destruct (H2 n' cid c Hc) as [Hx Hy]. split; [|exact Hy].
    destruct (decide (n' = nd)) as [->|Hne]; [rewrite lookup_insert; eauto|rewrite lookup_insert_ne by congruence; exact Hx].
Qed.

Lemma ensure_node_NoOrphans idx nd id addr s s' :
  ensure_node idx nd id addr s = Ok s' -> NoOrphans s -> NoOrphans s'.
Proof.
  intros He Hno. unfold ensure_node in He.
  assert (Hfin : forall n0 s1, NoOrphans s1 ->
    (let n1 := match n0 with Some x => Some x | None => nodes s1 !! nd end in
     match n1 with
     | Some x => if bool_decide (n_id x = id) && bool_decide (n_addr x = addr) && bool_decide (nodes s1 !! nd = Some x)
                 then Ok s1 else Ok (s1 <| nodes ::= <[nd := Node id addr (n_create x) idx]> |>)
     | None => Ok (s1 <| nodes ::= <[nd := Node id addr idx idx]> |>)
     end) = Ok s' -> NoOrphans s').
  { intros n0 s1 H1. cbn zeta. destruct (match n0 with Some x => Some x | None => nodes s1 !! nd end) as [x|].
    - destruct (_ && _); intros [= <-]; [exact H1|apply NoOrphans_insert_node; exact H1].
    - intros [= <-]. apply NoOrphans_insert_node; exact H1. }
  destruct (bool_decide (id = "")); cbn in He; [apply (Hfin None s Hno He)|].
  destruct (node_by_id id s) as [[oname on]|]; cbn in He.
  - destruct (bool_decide (oname = nd)); cbn in He; [apply (Hfin (Some on) s Hno He)|].
    destruct (similar_clash false nd id s); cbn in He; [discriminate|].
    destruct (delete_node idx oname s) as [s1|e p] eqn:Ed; cbn in He; [|discriminate].
    apply (Hfin (Some on) s1); [|exact He]. apply (delete_node_skel idx oname s s1 Hno Ed).
  - destruct (similar_clash true nd id s); cbn in He; [discriminate|]. apply (Hfin None s Hno He).
Qed.

Lemma ensure_service_NoOrphans idx nd svc name port s s' :
  ensure_service idx nd svc name port s = Ok s' -> NoOrphans s -> NoOrphans s'.
Proof.
  unfold ensure_service. destruct (nodes s !! nd) as [n|] eqn:En; [|discriminate].
  assert (Hins : forall v, NoOrphans s -> NoOrphans (s <| services ::= <[(nd, svc) := v]> |>)).
  { intros v [H1 H2]. split; cbn.
    - intros n' sid v' Hv. destruct (decide ((n', sid) = (nd, svc))) as [[= -> ->]|Hne];
        [eauto|rewrite lookup_insert_ne in Hv by congruence; eapply H1; exact Hv].
    - intros n' cid c Hc. destruct (H2 n' cid c Hc) as [Hx Hy]. split; [exact Hx|]. intros Hne.
      destruct (decide ((n', c_service c) = (nd, svc))) as [Heq|Hq];
        [rewrite Heq, lookup_insert; eauto|rewrite lookup_insert_ne by congruence; apply Hy; exact Hne]. }
  destruct (services s !! (nd, svc)) as [x|].
  - destruct (_ && _); intros [= <-] Hno; [exact Hno|apply Hins; exact Hno].
  - intros [= <-] Hno. apply Hins; exact Hno.
Qed.

Lemma rfold_NoOrphans {A} (f : st -> A -> result st) l :
  (forall x a b, f a x = Ok b -> NoOrphans a -> NoOrphans b) ->
  forall s s', rfold f l s = Ok s' -> NoOrphans s -> NoOrphans s'.
Proof.
  intros Hf. induction l as [|x l IH]; intros s s'; cbn [rfold]; [intros [= <-]; tauto|].
  intros Hr Hno. apply bind_ok in Hr as (s1 & E & Hr). apply (IH _ _ Hr). apply (Hf _ _ _ E Hno).
Qed.

Lemma ensure_registration_NoOrphans idx nd id addr skip svc cks s s' :
  ensure_registration idx nd id addr skip svc cks s = Ok s' -> NoOrphans s -> NoOrphans s'.
Proof.
  unfold ensure_registration. intros He Hno.
  destruct (if changes_node id addr skip (nodes s !! nd) then ensure_node idx nd id addr s else Ok s) as [s1|e p] eqn:E1;
    cbn in He; [|discriminate].
  assert (H1 : NoOrphans s1).
  { destruct (changes_node _ _ _ _); [apply (ensure_node_NoOrphans _ _ _ _ _ _ E1 Hno)|injection E1 as <-; exact Hno]. }
  destruct (match svc with None => Ok s1 | Some (sid, name, port) => _ end) as [s2|e p] eqn:E2; cbn in He; [|discriminate].
  assert (H2 : NoOrphans s2).
  { destruct svc as [[[sid name] port]|]; [|injection E2 as <-; exact H1].
    destruct (services s1 !! (nd, sid)) as [x|].
    - destruct (_ && _); [injection E2 as <-; exact H1|apply (ensure_service_NoOrphans _ _ _ _ _ _ _ E2 H1)].
    - apply (ensure_service_NoOrphans _ _ _ _ _ _ _ E2 H1). }
  revert He H2. apply rfold_NoOrphans. intros c a b. destruct (bool_decide _); [|discriminate].
  apply ensure_check_p_NoOrphans.
Qed.

(* frames: steps that do not touch the catalog rows *)
Lemma NoOrphans_frame a b :
  nodes a = nodes b -> services a = services b -> checks a = checks b -> NoOrphans b -> NoOrphans a.
Proof. intros Hn Hs Hc. apply NoOrphans_skel. repeat split; try assumption. unfold cs. rewrite Hc. reflexivity. Qed.

Lemma session_create_NoOrphans idx sid ss s s' :
  session_create idx sid ss s = Ok s' -> NoOrphans s -> NoOrphans s'.
Proof.
  unfold session_create. destruct (bool_decide (sid = "")); [discriminate|].
  destruct (nodes s !! s_node ss); [|discriminate]. destruct (forallb _ _); [|discriminate].
  intros Hr Hno. revert Hr.
  match goal with |- rfold _ _ ?s1 = _ -> _ => assert (H1 : NoOrphans s1) by (eapply NoOrphans_frame; [..|exact Hno]; reflexivity) end.
  intros Hr. revert Hr H1. apply rfold_NoOrphans. intros cid a b.
  match goal with |- context [checks ?s1 !! ?k] => destruct (checks s1 !! k) end; [|intros [= <-]; tauto].
  apply ensure_check_p_NoOrphans.
Qed.

(* ---------- transactions and commands ---------- *)
Definition cat_eq (a b : st) : Prop := nodes a = nodes b /\ services a = services b /\ checks a = checks b.
Lemma cat_eq_refl a : cat_eq a a. Proof. repeat split. Qed.
Lemma cat_eq_NoOrphans a b : cat_eq a b -> NoOrphans b -> NoOrphans a.
Proof. intros (H1 & H2 & H3). apply NoOrphans_frame; assumption. Qed.

Lemma kvs_set_cat idx k e u s : cat_eq (kvs_set idx k e u s).1 s.
Proof. unfold kvs_set. destruct (kvs s !! k); [destruct (kv_same _ _)|]; repeat split. Qed.
Lemma kvs_delete_cat idx k s : cat_eq (kvs_delete idx k s) s.
Proof. unfold kvs_delete. destruct (kvs s !! k); repeat split. Qed.
Lemma kvs_delete_cas_cat idx c k s : cat_eq (kvs_delete_cas idx c k s).2 s.
Proof.
  unfold kvs_delete_cas. destruct (kvs s !! k); [|repeat split].
  destruct (bool_decide _); cbn; [apply kvs_delete_cat|repeat split].
Qed.
Lemma kvs_delete_tree_cat idx p s : cat_eq (kvs_delete_tree idx p s) s.
Proof. unfold kvs_delete_tree. destruct (bool_decide _); [repeat split|]. destruct (bool_decide (p = "")); repeat split. Qed.
Lemma kvs_set_cas_cat idx k e s : cat_eq (kvs_set_cas idx k e s).2.1 s.
Proof.
  unfold kvs_set_cas. destruct (kvs s !! k).
  - destruct (bool_decide (kv_modify e = 0)); cbn; [repeat split|].
    destruct (bool_decide _); cbn; [apply kvs_set_cat|repeat split].
  - destruct (bool_decide _); cbn; [apply kvs_set_cat|repeat split].
Qed.
Lemma kvs_lock_cat idx k e s r : kvs_lock idx k e s = Ok r -> cat_eq r.2.1 s.
Proof.
  unfold kvs_lock. destruct (bool_decide (kv_session e = "")); [discriminate|].
  destruct (sessions s !! kv_session e); [|discriminate].
  destruct (kvs s !! k) as [x|].
  - destruct (bool_decide (kv_session x = kv_session e)); [intros [= <-]; apply kvs_set_cat|].
    destruct (bool_decide (kv_session x = "")); intros [= <-]; [apply kvs_set_cat|repeat split].
  - intros [= <-]. apply kvs_set_cat.
Qed.
Lemma kvs_unlock_cat idx k e s r : kvs_unlock idx k e s = Ok r -> cat_eq r.2.1 s.
Proof.
  unfold kvs_unlock. destruct (bool_decide (kv_session e = "")); [discriminate|].
  destruct (kvs s !! k) as [x|]; [|intros [= <-]; repeat split].
  destruct (bool_decide _); intros [= <-]; [apply kvs_set_cat|repeat split].
Qed.

Lemma txn_kv_cat idx v q s s' r : txn_kv idx v q s = Ok (s', r) -> cat_eq s' s.
Proof.
  unfold txn_kv. destruct v.
  - pose proof (kvs_set_cat idx (q_key q) (ent_of q) false s) as H.
    destruct (kvs_set _ _ _ _ _) as [s1 e1]. intros [= <- _]. exact H.
  - intros [= <- _]. apply kvs_delete_cat.
  - pose proof (kvs_delete_cas_cat idx (q_index q) (q_key q) s) as H.
    destruct (kvs_delete_cas _ _ _ _) as [[] s1]; [intros [= <- _]; exact H|discriminate].
  - intros [= <- _]. apply kvs_delete_tree_cat.
  - pose proof (kvs_set_cas_cat idx (q_key q) (ent_of q) s) as H.
    destruct (kvs_set_cas _ _ _ _) as [[] [s1 e1]]; [intros [= <- _]; exact H|discriminate].
  - destruct (kvs_lock _ _ _ _) as [[[] [s1 e1]]|er p] eqn:E; try discriminate.
    intros [= <- _]. apply (kvs_lock_cat _ _ _ _ _ E).
  - destruct (kvs_unlock _ _ _ _) as [[[] [s1 e1]]|er p] eqn:E; try discriminate.
    intros [= <- _]. apply (kvs_unlock_cat _ _ _ _ _ E).
  - destruct (kvs s !! q_key q); [intros [= <- _]; apply cat_eq_refl|discriminate].
  - destruct (kvs s !! q_key q); intros [= <- _]; apply cat_eq_refl.
  - intros [= <- _]. apply cat_eq_refl.
  - destruct (kvs s !! q_key q); [destruct (bool_decide _)|]; try discriminate. intros [= <- _]; apply cat_eq_refl.
  - destruct (kvs s !! q_key q); [destruct (bool_decide _)|]; try discriminate. intros [= <- _]; apply cat_eq_refl.
  - destruct (kvs s !! q_key q); [discriminate|]. intros [= <- _]; apply cat_eq_refl.
Qed.

Lemma delete_check_NoOrphans idx nd cid s s' : delete_check idx nd cid s = Ok s' -> NoOrphans s -> NoOrphans s'.
Proof.
  intros Hd [H1 H2]. apply delete_check_skel in Hd as (Hn & Hs & Hc). split.
  - intros n sid v Hv. rewrite Hn. rewrite Hs in Hv. eapply H1; exact Hv.
  - intros n c0 c Hck. apply cs_lookup in Hck. rewrite Hc in Hck. apply lookup_delete_Some in Hck as [_ Hck].
    apply cs_lookup_inv in Hck as (c' & Hc' & Heq). rewrite Hn, Hs, <- Heq. apply (H2 _ _ _ Hc').
Qed.

Lemma txn_op_NoOrphans idx op s s' r :
  txn_op idx op s = Ok (s', r) -> NoOrphans s -> NoOrphans s'.
Proof.
  destruct op; cbn [txn_op].
  - intros He. apply cat_eq_NoOrphans. apply (txn_kv_cat _ _ _ _ _ _ He).
  - unfold txn_node.
    assert (Hreply : forall (o : option (string * node)) s1,
      match o with Some (nm, n) => Ok (s1, [RNode nm n]) | None => Ok (s1, []) end = Ok (s', r) -> s1 = s').
    { intros o s1. destruct o as [[nm n]|]; intros [= <- _]; reflexivity. }
    destruct v.
    + destruct (if bool_decide (id = "") then _ else _) as [[nm n]|]; [intros [= <- _]; tauto|discriminate].
    + intros He Hno. apply bind_ok in He as (s1 & E1 & E2). apply Hreply in E2 as <-.
      apply (ensure_node_NoOrphans _ _ _ _ _ _ E1 Hno).
    + destruct (cas_ok _ _ _); [|discriminate].
      intros He Hno. apply bind_ok in He as (s1 & E1 & E2). apply Hreply in E2 as <-.
      apply (ensure_node_NoOrphans _ _ _ _ _ _ E1 Hno).
    + intros He Hno. apply bind_ok in He as (s1 & E1 & E2). injection E2 as <- _.
      apply (delete_node_skel _ _ _ _ Hno E1).
    + destruct (nodes s !! nd) as [x|]; [|discriminate]. destruct (bool_decide _); [|discriminate].
      intros He Hno. apply bind_ok in He as (s1 & E1 & E2). injection E2 as <- _.
      apply (delete_node_skel _ _ _ _ Hno E1).
  - unfold txn_service.
    assert (Hreply : forall s1,
      match services s1 !! (nd, svc) with Some x => Ok (s1, [RService nd svc x]) | None => Ok (s1, []) end = Ok (s', r) -> s1 = s').
    { intros s1. destruct (services s1 !! _); intros [= <- _]; reflexivity. }
    destruct v.
    + destruct (services s !! _); [intros [= <- _]; tauto|discriminate].
    + intros He Hno. apply bind_ok in He as (s1 & E1 & E2). apply Hreply in E2 as <-.
      apply (ensure_service_NoOrphans _ _ _ _ _ _ _ E1 Hno).
    + destruct (cas_ok _ _ _); [|discriminate].
      intros He Hno. apply bind_ok in He as (s1 & E1 & E2). apply Hreply in E2 as <-.
      apply (ensure_service_NoOrphans _ _ _ _ _ _ _ E1 Hno).
    + intros He Hno. apply bind_ok in He as (s1 & E1 & E2). injection E2 as <- _.
      apply (delete_service_NoOrphans _ _ _ _ _ E1 Hno).
    + destruct (services s !! _) as [x|]; [|discriminate]. destruct (bool_decide _); [|discriminate].
      intros He Hno. apply bind_ok in He as (s1 & E1 & E2). injection E2 as <- _.
      apply (delete_service_NoOrphans _ _ _ _ _ E1 Hno).
  - unfold txn_check.
    assert (Hreply : forall s1,
      match checks s1 !! (cr_node c, cr_id c) with Some x => Ok (s1, [RCheck (cr_node c) (cr_id c) x]) | None => Ok (s1, []) end = Ok (s', r) -> s1 = s').
    { intros s1. destruct (checks s1 !! _); intros [= <- _]; reflexivity. }
    destruct v.
    + destruct (checks s !! _); [intros [= <- _]; tauto|discriminate].
    + intros He Hno. apply bind_ok in He as (s1 & E1 & E2). apply Hreply in E2 as <-.
      apply (ensure_check_p_NoOrphans _ _ _ _ _ _ _ E1 Hno).
    + destruct (cas_ok _ _ _); [|discriminate].
      intros He Hno. apply bind_ok in He as (s1 & E1 & E2). apply Hreply in E2 as <-.
      apply (ensure_check_p_NoOrphans _ _ _ _ _ _ _ E1 Hno).
    + intros He Hno. apply bind_ok in He as (s1 & E1 & E2). injection E2 as <- _.
      apply (delete_check_NoOrphans _ _ _ _ _ E1 Hno).
    + destruct (checks s !! _) as [x|]; [|discriminate]. destruct (bool_decide _); [|discriminate].
      intros He Hno. apply bind_ok in He as (s1 & E1 & E2). injection E2 as <- _.
      apply (delete_check_NoOrphans _ _ _ _ _ E1 Hno).
  - destruct (sessions s !! sid); [|discriminate].
    intros He Hno. apply bind_ok in He as (s1 & E1 & E2). injection E2 as <- _.
    apply (NoOrphans_skel _ _ (delete_session_top_skel _ _ _ _ E1) Hno).
Qed.

Lemma seq_ops_NoOrphans idx ops : forall s s' rs,
  seq_ops idx ops s = Ok (s', rs) -> NoOrphans s -> NoOrphans s'.
Proof.
  induction ops as [|op ops IH]; intros s s' rs; cbn; [intros [= <- _]; tauto|].
  destruct (txn_op idx op s) as [[s1 r]|e p] eqn:E; [|discriminate].
  destruct (seq_ops idx ops s1) as [[s2 rs2]|e p] eqn:E2; [|discriminate].
  intros [= <- _] Hno. apply (IH _ _ _ E2). apply (txn_op_NoOrphans _ _ _ _ _ E Hno).
Qed.

Lemma of_unit_NoOrphans (r : result st) s :
  NoOrphans s -> (forall s', r = Ok s' -> NoOrphans s') -> NoOrphans (of_unit r s).1.
Proof. intros Hs Hr. destruct r as [s'|e p]; cbn; [apply Hr; reflexivity|exact Hs]. Qed.

Theorem apply_NoOrphans idx c s : NoOrphans s -> NoOrphans (apply idx c s).1.
Proof.
  intros Hno. destruct c; cbn [apply].
  - (* KVS *) unfold apply_kvs. destruct v; cbn; try exact Hno.
    + apply (cat_eq_NoOrphans _ s); [apply kvs_set_cat|exact Hno].
    + apply (cat_eq_NoOrphans _ s); [apply kvs_delete_cat|exact Hno].
    + pose proof (kvs_delete_cas_cat idx (q_index q) (q_key q) s) as H.
      destruct (kvs_delete_cas _ _ _ _) as [ok s1]. cbn. apply (cat_eq_NoOrphans _ s); assumption.
    + apply (cat_eq_NoOrphans _ s); [apply kvs_delete_tree_cat|exact Hno].
    + pose proof (kvs_set_cas_cat idx (q_key q) (ent_of q) s) as H.
      destruct (kvs_set_cas _ _ _ _) as [[] [s1 e1]]; cbn; [apply (cat_eq_NoOrphans _ s); assumption|exact Hno].
    + destruct (kvs_lock _ _ _ _) as [[[] [s1 e1]]|er p] eqn:E; cbn; try exact Hno.
      apply (cat_eq_NoOrphans _ s); [apply (kvs_lock_cat _ _ _ _ _ E)|exact Hno].
    + destruct (kvs_unlock _ _ _ _) as [[[] [s1 e1]]|er p] eqn:E; cbn; try exact Hno.
      apply (cat_eq_NoOrphans _ s); [apply (kvs_unlock_cat _ _ _ _ _ E)|exact Hno].
  - destruct (session_create idx sid ss s) as [s1|e p] eqn:E; cbn; [|exact Hno].
    apply (session_create_NoOrphans _ _ _ _ _ E Hno).
  - apply of_unit_NoOrphans; [exact Hno|]. intros s' E.
    apply (NoOrphans_skel _ _ (delete_session_top_skel _ _ _ _ E) Hno).
  - apply of_unit_NoOrphans; [exact Hno|]. intros s' E. apply (ensure_registration_NoOrphans _ _ _ _ _ _ _ _ _ E Hno).
  - destruct (negb (bool_decide (svc = ""))); [|destruct (negb (bool_decide (cid = "")))];
      (apply of_unit_NoOrphans; [exact Hno|]); intros s' E.
    + apply (delete_service_NoOrphans _ _ _ _ _ E Hno).
    + apply (delete_check_NoOrphans _ _ _ _ _ E Hno).
    + apply (delete_node_skel _ _ _ _ Hno E).
  - unfold txn_rw. destruct (txn_dispatch idx 0 ops s) as [[s1 rs] es] eqn:E.
    destruct es; cbn; [|exact Hno].
    apply (seq_ops_NoOrphans idx ops s s1 rs); [|exact Hno]. apply (txn_dispatch_seq idx ops 0%nat). exact E.
  - exact Hno.
  - apply of_unit_NoOrphans; [exact Hno|]. intros s'. unfold query_set. destruct (_ || _); [|discriminate].
    intros [= <-]. exact Hno.
  - unfold query_delete. destruct (queries s !! qid); exact Hno.
Qed.

Lemma NoOrphans_st0 : NoOrphans st0.
Proof. split; intros ? ? ? H; cbn in H; rewrite lookup_empty in H; discriminate. Qed.

Theorem run_NoOrphans log : forall s, NoOrphans s -> NoOrphans (run log s).1.
Proof.
  induction log as [|[idx c] log IH]; intros s Hs; cbn; [exact Hs|].
  pose proof (apply_NoOrphans idx c s Hs) as Ha. destruct (apply idx c s) as [s' r].
  specialize (IH s' Ha). destruct (run log s') as [s'' rs]. exact IH.
Qed.

(* ---------- the cascades, on the command level ---------- *)
(* a successful node deregistration leaves no row of that node *)
Theorem deregister_node_cascade idx nd s s' :
  NoOrphans s -> apply idx (Deregister nd "" "") s = (s', CNil) ->
  nodes s' !! nd = None /\
  (forall sid, services s' !! (nd, sid) = None) /\
  (forall cid, checks s' !! (nd, cid) = None).
Proof.
  intros Hno. cbn. destruct (delete_node idx nd s) as [s1|e p] eqn:E; cbn; [|discriminate].
  intros [= <-]. destruct (delete_node_skel _ _ _ _ Hno E) as [Hno' [[Hnone ->]|(Hn & Hs & Hc)]].
  - destruct Hno as [H1 H2]. split; [exact Hnone|]. split.
    + intros sid. destruct (services s !! (nd, sid)) as [v|] eqn:Ev; [|reflexivity].
      destruct (H1 _ _ _ Ev) as [n Hn]. congruence.
    + intros cid. destruct (checks s !! (nd, cid)) as [c|] eqn:Ec; [|reflexivity].
      destruct (H2 _ _ _ Ec) as [[n Hn] _]. congruence.
  - split; [rewrite Hn; apply lookup_delete|]. split.
    + intros sid. destruct (services s1 !! (nd, sid)) as [v|] eqn:Ev; [|reflexivity].
      destruct (Hs _ _ Ev) as [_ Hne]. contradiction Hne. reflexivity.
    + intros cid. destruct (checks s1 !! (nd, cid)) as [c|] eqn:Ec; [|reflexivity].
      apply cs_lookup in Ec. destruct (Hc _ _ Ec) as [_ Hne]. contradiction Hne. reflexivity.
Qed.

(* a successful service deregistration leaves neither the instance nor any check that names it *)
Theorem deregister_service_cascade idx nd svc cid0 s s' :
  svc ≠ "" -> NoOrphans s -> apply idx (Deregister nd svc cid0) s = (s', CNil) ->
  services s' !! (nd, svc) = None /\
  (forall cid c, checks s' !! (nd, cid) = Some c -> c_service c ≠ svc).
Proof.
  intros Hsvc Hno. cbn. rewrite bool_decide_eq_false_2 by exact Hsvc. cbn.
  destruct (delete_service idx nd svc s) as [s1|e p] eqn:E; cbn; [|discriminate].
  intros [= <-]. apply delete_service_skel in E as [[Hnone ->]|(Hn & Hs & Hc)].
  - split; [exact Hnone|]. intros cid c Hck Heq. destruct Hno as [_ H2].
    destruct (H2 _ _ _ Hck) as [_ Hy]. rewrite Heq in Hy. destruct (Hy Hsvc) as [v Hv]. congruence.
  - split; [rewrite Hs; apply lookup_delete|]. intros cid c Hck Heq.
    apply cs_lookup in Hck. rewrite Hc in Hck. apply map_filter_lookup_Some in Hck as [_ Hf]. apply Hf. cbn. split; [reflexivity|exact Heq].
Qed.

(* ---------- reachable states of the store model ---------- *)
Inductive SReach : st -> Prop :=
| SReach_init : SReach st0
| SReach_step idx c s : SReach s -> SReach (apply idx c s).1.

Theorem SReach_NoOrphans s : SReach s -> NoOrphans s.
Proof. induction 1 as [|idx c s _ IH]; [apply NoOrphans_st0|apply apply_NoOrphans; exact IH]. Qed.

Lemma SReach_run log : SReach (run log st0).1.
Proof.
  assert (H : forall s, SReach s -> SReach (run log s).1).
  { induction log as [|[idx c] log IH]; intros s Hs; cbn; [exact Hs|].
    pose proof (SReach_step idx c s Hs) as Ha. destruct (apply idx c s) as [s' r].
    specialize (IH s' Ha). destruct (run log s') as [s'' rs]. exact IH. }
  apply H. constructor.
Qed.

(* a non-trivial reachable state: a node with an ID, a service, a service check, a node check, a
   session bound to the node check holding a key; then the node is renamed by ID (which deregisters
   the old name with everything on it) and re-registered *)
Definition orphan_log : list (N * cmd) :=
  [ (1, Register "n1" "id1" 1 false (Some ("s1", "web", 80)) [CheckReq "n1" "c1" 0 "s1" false "" 0 0; CheckReq "n1" "c2" 0 "" false "" 0 0]);
    (2, SessionCreate "sess" (Sess "n1" "" false ["c2"] false 0));
    (3, KVS VLock (KVReq "k" [] 0 "sess" 0 0));
    (4, Register "n2" "" 2 false (Some ("s1", "db", 80)) [CheckReq "n2" "c1" 0 "s1" false "" 0 0]) ].

Example orphan_example :
  let s := (run orphan_log st0).1 in
  SReach s /\
  is_Some (services s !! ("n1", "s1")) /\ is_Some (checks s !! ("n1", "c1")) /\ is_Some (sessions s !! "sess") /\
  (* renaming node id1 from n1 to n3 succeeds and leaves nothing of n1 behind, session included *)
  let s' := (apply 5 (Register "n3" "id1" 1 false None []) s).1 in
  nodes s' !! "n1" = None /\ is_Some (nodes s' !! "n3") /\ services s' !! ("n1", "s1") = None /\
  checks s' !! ("n1", "c1") = None /\ sessions s' !! "sess" = None /\ is_Some (services s' !! ("n2", "s1")) /\
  (* and an explicit deregistration of n2 succeeds *)
  (apply 6 (Deregister "n2" "" "") s').2 = CNil.
Proof.
  cbv zeta. split; [apply SReach_run|].
  repeat (split; [first [vm_compute; reflexivity | eapply bool_decide_eq_true_1; vm_compute; reflexivity]|]).
  vm_compute; reflexivity.
Qed.

(* a service deregistration that succeeds: the instance and the check that names it go, the node
   and its node-level check stay *)
Example service_dereg_example :
  let s := (run orphan_log st0).1 in
  (apply 5 (Deregister "n1" "s1" "") s).2 = CNil /\
  let s' := (apply 5 (Deregister "n1" "s1" "") s).1 in
  services s' !! ("n1", "s1") = None /\ checks s' !! ("n1", "c1") = None /\
  is_Some (checks s' !! ("n1", "c2")) /\ is_Some (nodes s' !! "n1").
Proof.
  cbv zeta.
  repeat (split; [first [vm_compute; reflexivity | eapply bool_decide_eq_true_1; vm_compute; reflexivity]|]).
  eapply bool_decide_eq_true_1; vm_compute; reflexivity.
Qed.
