(* Orphan freedom and the deregistration cascades in the catalog extension model (service kinds,
   proxies, gateways, coordinates; no sessions — those are in Catalog/StoreOrphans.v over the core
   store model). *)
From stdpp Require Import gmap strings.
From RecordUpdate Require Import RecordSet.
From Coq Require Import NArith.
From Verif Require Import Catalog.Model Catalog.Frames.
Import RecordSetNotations.
Local Open Scope N_scope.

Definition NoOrph (s : st) : Prop :=
  (forall nd sid v, services s !! (nd, sid) = Some v -> is_Some (nodes s !! nd)) /\
  (forall nd cid c, checks s !! (nd, cid) = Some c ->
     is_Some (nodes s !! nd) /\ (c_service c ≠ "" -> is_Some (services s !! (nd, c_service c)))) /\
  (forall nd, nd ∈ coords s -> is_Some (nodes s !! nd)).

Lemma NoOrph_ext a b :
  nodes a = nodes b -> services a = services b -> checks a = checks b -> coords a = coords b -> NoOrph b -> NoOrph a.
Proof. intros Hn Hs Hc Hco H. unfold NoOrph. rewrite Hn, Hs, Hc, Hco. exact H. Qed.

Lemma NoOrph_core a b : same_core a b -> NoOrph b -> NoOrph a.
Proof. intros (Hn & Hs & Hc & Hco & _). apply NoOrph_ext; assumption. Qed.

Lemma NoOrph_st0 : NoOrph st0.
Proof.
  split; [|split].
  - intros nd sid v H. cbn in H. rewrite lookup_empty in H. discriminate.
  - intros nd cid c H. cbn in H. rewrite lookup_empty in H. discriminate.
  - intros nd H. cbn in H. set_solver.
Qed.

(* ---------- sorted listings ---------- *)
Lemma elem_of_ssort x l : x ∈ ssort l <-> x ∈ l.
Proof.
  assert (Hins : forall y l', x ∈ sinsert y l' <-> x = y \/ x ∈ l').
  { intros y l'. induction l' as [|z l' IH]; cbn.
    - rewrite elem_of_list_singleton, elem_of_nil. tauto.
    - destruct (String.leb y z); rewrite !elem_of_cons; [tauto|]. rewrite IH. tauto. }
  induction l as [|y l IH]; cbn; [reflexivity|].
  rewrite Hins, elem_of_cons, IH. reflexivity.
Qed.

Lemma checks_of_service_spec nd sid s cid :
  cid ∈ checks_of_service nd sid s <-> exists c, checks s !! (nd, cid) = Some c /\ c_service c = sid.
Proof.
  unfold checks_of_service. rewrite elem_of_ssort, elem_of_list_omap. split.
  - intros ([[n c'] c] & Hin & Hf). apply elem_of_map_to_list in Hin.
    destruct (bool_decide (n = nd)) eqn:E1; cbn in Hf; [|discriminate].
    destruct (bool_decide (c_service c = sid)) eqn:E2; cbn in Hf; [|discriminate].
    apply bool_decide_eq_true in E1, E2. injection Hf as <-. subst n. eauto.
  - intros (c & Hc & Hsv). exists ((nd, cid), c). split; [apply elem_of_map_to_list; exact Hc|].
    rewrite !bool_decide_eq_true_2 by assumption || reflexivity. reflexivity.
Qed.

Lemma checks_of_node_spec nd s cid : cid ∈ checks_of_node nd s <-> is_Some (checks s !! (nd, cid)).
Proof.
  unfold checks_of_node. rewrite elem_of_ssort, elem_of_list_omap. split.
  - intros ([[n c'] c] & Hin & Hf). apply elem_of_map_to_list in Hin.
    destruct (bool_decide (n = nd)) eqn:E1; cbn in Hf; [|discriminate].
    apply bool_decide_eq_true in E1. injection Hf as <-. subst n. eauto.
  - intros [c Hc]. exists ((nd, cid), c). split; [apply elem_of_map_to_list; exact Hc|].
    rewrite bool_decide_eq_true_2 by reflexivity. reflexivity.
Qed.

Lemma services_of_node_spec nd s sid : sid ∈ services_of_node nd s <-> is_Some (services s !! (nd, sid)).
Proof.
  unfold services_of_node. rewrite elem_of_ssort, elem_of_list_omap. split.
  - intros ([[n c'] c] & Hin & Hf). apply elem_of_map_to_list in Hin.
    destruct (bool_decide (n = nd)) eqn:E1; cbn in Hf; [|discriminate].
    apply bool_decide_eq_true in E1. injection Hf as <-. subst n. eauto.
  - intros [c Hc]. exists ((nd, sid), c). split; [apply elem_of_map_to_list; exact Hc|].
    rewrite bool_decide_eq_true_2 by reflexivity. reflexivity.
Qed.

(* ---------- what the deletes do to the base rows ---------- *)
Definition base_eq (a b : st) : Prop := nodes a = nodes b /\ services a = services b /\ coords a = coords b.

Lemma foldl_delete_check nd l : forall s,
  let s' := foldl (fun s' cid => delete_check nd cid s') s l in
  base_eq s' s /\ forall k c, checks s' !! k = Some c <-> (checks s !! k = Some c /\ ~ (k.1 = nd /\ k.2 ∈ l)).
Proof.
  induction l as [|cid l IH]; intros s; cbn.
  - split; [repeat split|]. intros k c. split; [intros H; split; [exact H|intros [_ Hin]; inversion Hin]|tauto].
  - destruct (IH (delete_check nd cid s)) as [(Hn & Hs & Hco) Hc]. split; [repeat split; assumption|].
    intros k c. rewrite Hc. cbn. rewrite lookup_delete_Some. split.
    + intros [[Hne Hk] Hnot]. split; [exact Hk|]. intros [Hk1 Hk2]. apply elem_of_cons in Hk2 as [Hk2|Hk2].
      * apply Hne. destruct k; cbn in *; congruence.
      * apply Hnot. split; assumption.
    + intros [Hk Hnot]. split; [split; [|exact Hk]|].
      * intros <-. apply Hnot. cbn. split; [reflexivity|left].
      * intros [Hk1 Hk2]. apply Hnot. split; [exact Hk1|right; exact Hk2].
Qed.

Definition same_base (a b : st) : Prop :=
  nodes a = nodes b /\ services a = services b /\ checks a = checks b /\ coords a = coords b.
Lemma same_base_refl a : same_base a a. Proof. repeat split. Qed.
Lemma same_base_trans a b c : same_base a b -> same_base b c -> same_base a c.
Proof. unfold same_base. intuition congruence. Qed.
Lemma same_core_base a b : same_core a b -> same_base a b.
Proof. intros (H1 & H2 & H3 & H4 & _). repeat split; assumption. Qed.
Lemma free_vip_base name s : same_base (free_vip name s) s.
Proof.
  unfold free_vip. destruct (negb _); [apply same_base_refl|]. destruct (has_instance name s); [apply same_base_refl|].
  destruct (has_connect_instance name s); [apply same_base_refl|].
  destruct (existsb _ _); [apply same_base_refl|]. destruct (vips s !! name) as [[ip m]|]; repeat split.
Qed.
Lemma NoOrph_base a b : same_base a b -> NoOrph b -> NoOrph a.
Proof. intros (Hn & Hs & Hc & Hco). apply NoOrph_ext; assumption. Qed.

(* deleteServiceTxn: the instance and the checks that name it go, no other base row changes *)
Lemma delete_service_base nd sid s :
  let s' := delete_service nd sid s in
  (services s !! (nd, sid) = None /\ s' = s) \/
  (nodes s' = nodes s /\ coords s' = coords s /\ services s' = delete (nd, sid) (services s) /\
   forall k c, checks s' !! k = Some c <-> (checks s !! k = Some c /\ ~ (k.1 = nd /\ c_service c = sid))).
Proof.
  cbn zeta. unfold delete_service. destruct (services s !! (nd, sid)) as [v|] eqn:Ev; [right|left; split; reflexivity].
  destruct (foldl_delete_check nd (checks_of_service nd sid s) s) as [(Hn & Hs & Hco) Hc]. cbn zeta in *.
  set (s1 := foldl _ s _) in *. clearbody s1.
  set (s2 := s1 <| services ::= delete (nd, sid) |>).
  assert (Hfin : forall sf, same_base sf s2 ->
    nodes sf = nodes s /\ coords sf = coords s /\ services sf = delete (nd, sid) (services s) /\
    forall k c, checks sf !! k = Some c <-> (checks s !! k = Some c /\ ~ (k.1 = nd /\ c_service c = sid))).
  { intros sf (Fn & Fs & Fc & Fco). rewrite Fn, Fco, Fs, Fc. subst s2. cbn. rewrite Hn, Hco, Hs.
    split; [reflexivity|]. split; [reflexivity|]. split; [reflexivity|].
    intros k c. rewrite Hc. split; intros [Hk Hnot]; (split; [exact Hk|]); intros [H1 H2]; apply Hnot; (split; [exact H1|]).
    - apply checks_of_service_spec. destruct k as [n cid]; cbn in *; subst n. eauto.
    - apply checks_of_service_spec in H2 as (c' & Hc' & Hsv). destruct k as [n cid]; cbn in *; subst n. congruence. }
  apply Hfin.
  eapply same_base_trans; [apply same_core_base, cleanup_gateway_wildcards_core|].
  set (s3 := cleanup_mesh_topology nd sid v s2).
  assert (H3 : same_base s3 s2) by (apply same_core_base, cleanup_mesh_topology_core). clearbody s3.
  set (s4 := if has_instance (sv_name v) s3 then (if has_instance_kind (sv_name v) (sv_kind v) s3 then s3 else _) else _).
  assert (H4 : same_base s4 s2).
  { subst s4. destruct (has_instance (sv_name v) s3).
    - destruct (has_instance_kind _ _ _); [exact H3|]. eapply same_base_trans; [apply same_core_base, cleanup_ksn_core|exact H3].
    - eapply same_base_trans; [apply same_core_base, cleanup_ksn_core|].
      eapply same_base_trans; [apply free_vip_base|exact H3]. }
  clearbody s4.
  destruct (connect_name v) as [sn|]; [|exact H4].
  destruct (has_connect_instance sn s4); [exact H4|].
  eapply same_base_trans; [apply same_core_base, cleanup_gateway_wildcards_core|].
  eapply same_base_trans; [apply same_core_base, cleanup_ksn_core|exact H4].
Qed.

Lemma delete_service_NoOrph nd sid s : NoOrph s -> NoOrph (delete_service nd sid s).
Proof.
  intros (H1 & H2 & H3). destruct (delete_service_base nd sid s) as [[_ Heq]|(Hn & Hco & Hs & Hc)];
    [rewrite Heq; split; [exact H1|split; [exact H2|exact H3]]|].
  cbn zeta in *. split; [|split].
  - intros n i v Hv. rewrite Hn. rewrite Hs in Hv. apply lookup_delete_Some in Hv as [_ Hv]. eapply H1; exact Hv.
  - intros n cid c Hck. apply Hc in Hck as [Hck Hnot]. destruct (H2 n cid c Hck) as [Hx Hy].
    rewrite Hn, Hs. split; [exact Hx|]. intros Hne.
    rewrite lookup_delete_ne; [apply Hy; exact Hne|]. intros [= -> Hsv]. apply Hnot. cbn. split; [reflexivity|congruence].
  - intros n Hin. rewrite Hn. rewrite Hco in Hin. apply H3; exact Hin.
Qed.

Lemma foldl_delete_service nd l : forall s, NoOrph s ->
  let s' := foldl (fun s' sid => delete_service nd sid s') s l in
  NoOrph s' /\ nodes s' = nodes s /\ coords s' = coords s /\
  (forall k v, services s' !! k = Some v <-> (services s !! k = Some v /\ ~ (k.1 = nd /\ k.2 ∈ l))) /\
  (forall k c, checks s' !! k = Some c -> checks s !! k = Some c).
Proof.
  induction l as [|sid l IH]; intros s Hno; cbn.
  - split; [exact Hno|]. split; [reflexivity|]. split; [reflexivity|]. split; [|tauto].
    intros k v. split; [intros H; split; [exact H|intros [_ Hin]; inversion Hin]|tauto].
  - pose proof (delete_service_NoOrph nd sid s Hno) as Hno1.
    destruct (IH (delete_service nd sid s) Hno1) as (Hno' & Hn & Hco & Hs & Hc). cbn zeta in *.
    split; [exact Hno'|].
    destruct (delete_service_base nd sid s) as [[Hnone Heq]|(Hn1 & Hco1 & Hs1 & Hc1)]; cbn zeta in *.
    + rewrite Heq in *. split; [exact Hn|]. split; [exact Hco|]. split; [|exact Hc].
      intros k v. rewrite Hs. split; intros [Hk Hnot]; (split; [exact Hk|]); intros [H1 H2]; apply Hnot; (split; [exact H1|]).
      * apply elem_of_cons in H2 as [H2|H2]; [|exact H2]. destruct k; cbn in *; subst. congruence.
      * right; exact H2.
    + split; [congruence|]. split; [congruence|]. split.
      * intros k v. rewrite Hs, Hs1, lookup_delete_Some. split.
        -- intros [[Hne Hk] Hnot]. split; [exact Hk|]. intros [H1 H2]. apply elem_of_cons in H2 as [H2|H2].
           ++ apply Hne. destruct k; cbn in *; congruence.
           ++ apply Hnot. split; assumption.
        -- intros [Hk Hnot]. split; [split; [|exact Hk]|].
           ++ intros <-. apply Hnot. cbn. split; [reflexivity|left].
           ++ intros [H1 H2]. apply Hnot. split; [exact H1|right; exact H2].
      * intros k c Hk. apply Hc in Hk. apply Hc1 in Hk as [Hk _]. exact Hk.
Qed.

(* deleteNodeTxn *)
Lemma delete_node_base nd s : NoOrph s ->
  let s' := delete_node nd s in
  NoOrph s' /\
  ((nodes s !! nd = None /\ s' = s) \/
   (nodes s' = delete nd (nodes s) /\ nd ∉ coords s' /\
    (forall k v, services s' !! k = Some v -> k.1 ≠ nd) /\ (forall k c, checks s' !! k = Some c -> k.1 ≠ nd))).
Proof.
  intros Hno. cbn zeta. unfold delete_node. destruct (nodes s !! nd) as [n|] eqn:En; [|split; [exact Hno|left; split; reflexivity]].
  destruct (foldl_delete_service nd (services_of_node nd s) s Hno) as (Hno1 & Hn1 & Hco1 & Hs1 & Hc1). cbn zeta in *.
  set (s1 := foldl _ s (services_of_node nd s)) in *. clearbody s1.
  destruct (foldl_delete_check nd (checks_of_node nd s1) s1) as [(Hn2 & Hs2 & Hco2) Hc2]. cbn zeta in *.
  set (s2 := foldl _ s1 (checks_of_node nd s1)) in *. clearbody s2.
  assert (Hsv : forall k v, services s2 !! k = Some v -> services s !! k = Some v /\ k.1 ≠ nd).
  { intros k v Hv. rewrite Hs2 in Hv. apply Hs1 in Hv as [Hv Hnot]. split; [exact Hv|]. intros Heq. apply Hnot. split; [exact Heq|].
    apply services_of_node_spec. destruct k as [a b]; cbn in *; subst a. eauto. }
  assert (Hck : forall k c, checks s2 !! k = Some c -> checks s1 !! k = Some c /\ k.1 ≠ nd).
  { intros k c Hk. apply Hc2 in Hk as [Hk Hnot]. split; [exact Hk|]. intros Heq. apply Hnot. split; [exact Heq|].
    apply checks_of_node_spec. destruct k as [a b]; cbn in *; subst a. eauto. }
  destruct Hno1 as (A1 & A2 & A3). split.
  - split; [|split]; cbn.
    + intros n' sid v Hv. destruct (Hsv _ _ Hv) as [Hv0 Hne]. cbn in Hne.
      rewrite Hn2, lookup_delete_ne by congruence. rewrite Hs2 in Hv. eapply A1; exact Hv.
    + intros n' cid c Hk. destruct (Hck _ _ Hk) as [Hk1 Hne]. cbn in Hne. destruct (A2 _ _ _ Hk1) as [Hx Hy].
      rewrite Hn2, Hs2, lookup_delete_ne by congruence. split; assumption.
    + intros n' Hin. apply elem_of_difference in Hin as [Hin Hne]. rewrite Hn2, lookup_delete_ne by set_solver.
      rewrite Hco2 in Hin. apply A3; exact Hin.
  - right. cbn. split; [rewrite Hn2, Hn1; reflexivity|]. split; [set_solver|]. split.
    + intros k v Hv. apply (Hsv k v Hv).
    + intros k c Hk. apply (Hck k c Hk).
Qed.

Lemma delete_node_NoOrph nd s : NoOrph s -> NoOrph (delete_node nd s).
Proof. intros H. apply (delete_node_base nd s H). Qed.

(* ---------- upserts ---------- *)
Lemma NoOrph_insert_node s nd n : NoOrph s -> NoOrph (s <| nodes ::= <[nd := n]> |>).
Proof.
  intros (H1 & H2 & H3). split; [|split]; cbn.
  - intros n' sid v Hv. destruct (decide (n' = nd)) as [->|Hne];
      [rewrite lookup_insert; eauto|rewrite lookup_insert_ne by congruence; eapply H1; exact Hv].
  - intros n' cid c Hc. destruct (H2 n' cid c Hc) as [Hx Hy]. split; [|exact Hy].
    destruct (decide (n' = nd)) as [->|Hne]; [rewrite lookup_insert; eauto|rewrite lookup_insert_ne by congruence; exact Hx].
  - intros n' Hin. destruct (decide (n' = nd)) as [->|Hne]; [rewrite lookup_insert; eauto|rewrite lookup_insert_ne by congruence; apply H3; exact Hin].
Qed.

Lemma res_bind_ok {A B} (m : res A) (k : A -> res B) (b : B) :
  m ≫= k = Ok b -> exists a, m = Ok a /\ k a = Ok b.
Proof. destruct m as [a|e]; cbn; [eauto|discriminate]. Qed.

Lemma ensure_node_NoOrph idx nd id addr s s' : ensure_node idx nd id addr s = Ok s' -> NoOrph s -> NoOrph s'.
Proof.
  unfold ensure_node. intros He Hno. apply res_bind_ok in He as ([n0 s1] & E1 & E2).
  assert (H1 : NoOrph s1).
  { destruct (bool_decide (id = "")); [injection E1 as _ <-; exact Hno|].
    destruct (node_by_id id s) as [[oname on]|].
    - destruct (bool_decide (oname = nd)); [injection E1 as _ <-; exact Hno|].
      destruct (similar_clash false nd id s); [discriminate|]. injection E1 as _ <-. apply delete_node_NoOrph; exact Hno.
    - destruct (similar_clash true nd id s); [discriminate|]. injection E1 as _ <-; exact Hno. }
  cbn zeta in E2. destruct (match n0 with Some x => Some x | None => nodes s1 !! nd end) as [x|].
  - destruct (_ && _); injection E2 as <-; [exact H1|apply NoOrph_insert_node; exact H1].
  - injection E2 as <-. apply NoOrph_insert_node; exact H1.
Qed.

Lemma ensure_check_NoOrph idx c s s' : ensure_check idx c s = Ok s' -> NoOrph s -> NoOrph s'.
Proof.
  unfold ensure_check. destruct (nodes s !! cr_node c) as [n|] eqn:En; [|discriminate].
  intros He (H1 & H2 & H3). apply res_bind_ok in He as (svcname & Esv & He).
  assert (Hsv : cr_service c ≠ "" -> is_Some (services s !! (cr_node c, cr_service c))).
  { intros Hne. rewrite bool_decide_eq_false_2 in Esv by exact Hne. destruct (services s !! _); [eauto|discriminate]. }
  assert (Hins : forall ck, c_service ck = cr_service c -> NoOrph (s <| checks ::= <[(cr_node c, cr_id c) := ck]> |>)).
  { intros ck Hck. split; [exact H1|split; [|exact H3]]. intros n' cid c' Hc'. cbn in Hc'.
    destruct (decide ((n', cid) = (cr_node c, cr_id c))) as [[= -> ->]|Hne].
    - rewrite lookup_insert in Hc'. injection Hc' as <-. cbn. split; [eauto|]. rewrite Hck. exact Hsv.
    - rewrite lookup_insert_ne in Hc' by congruence. apply (H2 _ _ _ Hc'). }
  destruct (checks s !! _) as [x|]; [destruct (_ && _)|]; injection He as <-;
    first [exact (conj H1 (conj H2 H3))|apply Hins; reflexivity].
Qed.

Lemma ensure_service_NoOrph idx nd r s s' : ensure_service idx nd r s = Ok s' -> NoOrph s -> NoOrph s'.
Proof.
  unfold ensure_service. intros He Hno.
  set (s1 := if bool_decide (sr_kind r = KTypical) && negb (bool_decide (sr_name r = consul_name)) then _ else s) in He.
  assert (H1 : same_base s1 s).
  { subst s1. destruct (bool_decide (sr_kind r = KTypical) && negb (bool_decide (sr_name r = consul_name))); [|apply same_base_refl].
    apply same_core_base. eapply same_core_trans; [apply check_gateway_and_update_core|apply check_gateway_wildcards_and_update_core]. }
  clearbody s1.
  set (s2 := upsert_ksn _ _ s1) in He.
  assert (H2 : same_base s2 s) by (eapply same_base_trans; [apply same_core_base, upsert_ksn_core|exact H1]). clearbody s2.
  apply res_bind_ok in He as ([vip s7] & E3 & He).
  assert (H7 : same_base s7 s).
  { destruct (is_connect r); [|injection E3 as _ <-; exact H2]. cbn zeta in E3.
    set (s5 := if bool_decide (connect_target r = "") then _ else _) in E3.
    assert (H5 : same_base s5 s).
    { subst s5. destruct (bool_decide (connect_target r = "")).
      - eapply same_base_trans; [apply same_core_base, check_gateway_wildcards_and_update_core|].
        eapply same_base_trans; [apply same_core_base, update_mesh_topology_core|exact H2].
      - eapply same_base_trans; [apply same_core_base, upsert_ksn_core|].
        eapply same_base_trans; [apply same_core_base, check_gateway_wildcards_and_update_core|].
        eapply same_base_trans; [apply same_core_base, update_mesh_topology_core|exact H2]. }
    clearbody s5.
    destruct (vips_on s5 && negb (bool_decide (connect_target r = ""))); [|injection E3 as _ <-; exact H5].
    apply res_bind_ok in E3 as ([ip s6] & Ea & E3). injection E3 as _ <-.
    eapply same_base_trans; [|exact H5]. unfold assign_vip in Ea.
    destruct (vips s5 !! connect_target r) as [[ip0 m0]|]; [injection Ea as _ <-; apply same_base_refl|].
    destruct (min_free (free s5)); [injection Ea as _ <-; repeat split|].
    destruct (bool_decide _); [discriminate|]. injection Ea as _ <-; repeat split. }
  pose proof (NoOrph_base _ _ H7 Hno) as Hno7. destruct H7 as (H7n & H7s & _).
  destruct (nodes s7 !! nd) as [n|] eqn:En; [|discriminate].
  assert (Hins : forall v, NoOrph (s7 <| services ::= <[(nd, sr_id r) := v]> |>)).
  { intros v. destruct Hno7 as (A1 & A2 & A3). split; [|split; [|exact A3]]; cbn.
    - intros n' sid v' Hv. destruct (decide ((n', sid) = (nd, sr_id r))) as [[= -> ->]|Hne];
        [eauto|rewrite lookup_insert_ne in Hv by congruence; eapply A1; exact Hv].
    - intros n' cid c Hc. destruct (A2 n' cid c Hc) as [Hx Hy]. split; [exact Hx|]. intros Hne.
      destruct (decide ((n', c_service c) = (nd, sr_id r))) as [Heq|Hq];
        [rewrite Heq, lookup_insert; eauto|rewrite lookup_insert_ne by congruence; apply Hy; exact Hne]. }
  destruct (services s !! (nd, sr_id r)) as [x|].
  - destruct (same_service x r vip); injection He as <-; [exact Hno7|apply Hins].
  - injection He as <-. apply Hins.
Qed.

Lemma rfold_NoOrph {A} (f : st -> A -> res st) l :
  (forall x a b, f a x = Ok b -> NoOrph a -> NoOrph b) -> forall s s', rfold f l s = Ok s' -> NoOrph s -> NoOrph s'.
Proof.
  intros Hf. induction l as [|x l IH]; intros s s'; cbn [rfold]; [intros [= <-]; tauto|].
  intros Hr Hs. apply res_bind_ok in Hr as (s1 & E & Hr). apply (IH _ _ Hr). apply (Hf _ _ _ E Hs).
Qed.

Lemma ensure_registration_NoOrph idx nd id addr skip sv cks s s' :
  ensure_registration idx nd id addr skip sv cks s = Ok s' -> NoOrph s -> NoOrph s'.
Proof.
  unfold ensure_registration. intros He Hno.
  apply res_bind_ok in He as (s1 & E1 & He). apply res_bind_ok in He as (s2 & E2 & He).
  assert (H1 : NoOrph s1).
  { destruct (changes_node _ _ _ _); [apply (ensure_node_NoOrph _ _ _ _ _ _ E1 Hno)|injection E1 as <-; exact Hno]. }
  assert (H2 : NoOrph s2).
  { destruct sv as [r|]; [|injection E2 as <-; exact H1].
    destruct (services s1 !! (nd, sr_id r)) as [x|].
    - destruct (_ && _); [injection E2 as <-; exact H1|apply (ensure_service_NoOrph _ _ _ _ _ E2 H1)].
    - apply (ensure_service_NoOrph _ _ _ _ _ E2 H1). }
  revert He H2. apply rfold_NoOrph. intros c a b. destruct (bool_decide _); [|discriminate]. apply ensure_check_NoOrph.
Qed.

Lemma delete_check_NoOrph nd cid s : NoOrph s -> NoOrph (delete_check nd cid s).
Proof.
  intros (H1 & H2 & H3). split; [exact H1|split; [|exact H3]]. intros n' c' c Hc. cbn in Hc.
  apply lookup_delete_Some in Hc as [_ Hc]. apply (H2 _ _ _ Hc).
Qed.

Lemma conf_set_NoOrph name c s s' : conf_set name c s = Ok s' -> NoOrph s -> NoOrph s'.
Proof.
  unfold conf_set. intros He Hno.
  set (s1 := match c with CTermGW _ | CIngressGW _ => _ | _ => s end) in He.
  assert (H1 : same_base s1 s) by (subst s1; destruct c; try apply same_base_refl; apply same_core_base, update_gateway_services_core).
  clearbody s1.
  set (s2 := match c with CDefaults true => _ | CDefaults false => _ | _ => s1 end) in He.
  assert (H2 : same_base s2 s).
  { subst s2. destruct c as [| |[]|]; try exact H1.
    2:{ destruct (bool_decide _); [|exact H1]. cbv zeta.
        eapply same_base_trans; [apply same_core_base, drop_destination_core|exact H1]. }
    eapply same_base_trans; [apply same_core_base, upsert_ksn_core|].
    eapply same_base_trans; [apply same_core_base, check_gateway_and_update_core|].
    eapply same_base_trans; [apply same_core_base, check_gateway_wildcards_and_update_core|exact H1]. }
  clearbody s2.
  apply res_bind_ok in He as (s3 & E3 & He). injection He as <-.
  assert (H3 : same_base s3 s).
  { destruct (_ && _); [|injection E3 as <-; exact H2].
    apply res_bind_ok in E3 as ([ip s'] & Ea & E3). injection E3 as <-. eapply same_base_trans; [|exact H2].
    unfold assign_vip in Ea. destruct (vips s2 !! name) as [[ip0 m0]|]; [injection Ea as _ <-; apply same_base_refl|].
    destruct (min_free (free s2)); [injection Ea as _ <-; repeat split|].
    destruct (bool_decide _); [discriminate|]. injection Ea as _ <-; repeat split. }
  apply (NoOrph_base _ s); [|exact Hno]. eapply same_base_trans; [|exact H3]. repeat split.
Qed.

Lemma conf_delete_NoOrph kind name s : NoOrph s -> NoOrph (conf_delete kind name s).
Proof.
  intros Hno. unfold conf_delete. destruct (confs s !! (kind, name)) as [c|]; [|exact Hno].
  set (s1 := if bool_decide (kind = "terminating-gateway") || bool_decide (kind = "ingress-gateway") then _ else s).
  assert (H1 : same_base s1 s).
  { subst s1. destruct (bool_decide (kind = "terminating-gateway") || bool_decide (kind = "ingress-gateway")); repeat split. }
  clearbody s1.
  set (s2 := match c with CDefaults true => _ | _ => s1 end).
  assert (H2 : same_base s2 s).
  { subst s2. destruct c as [| |[]|]; try exact H1.
    eapply same_base_trans; [apply same_core_base, cleanup_ksn_core|].
    eapply same_base_trans; [apply same_core_base, check_gateway_and_update_core|].
    eapply same_base_trans; [apply same_core_base, cleanup_gateway_wildcards_core|].
    eapply same_base_trans; [apply same_core_base, check_gateway_wildcards_and_update_core|exact H1]. }
  clearbody s2.
  set (s3 := if bool_decide (kind = "ingress-gateway") then _ else s2).
  assert (H3 : same_base s3 s) by (subst s3; destruct (bool_decide (kind = "ingress-gateway")); [eapply same_base_trans; [|exact H2]; repeat split|exact H2]).
  clearbody s3.
  set (s4 := s3 <| confs ::= delete (kind, name) |>).
  assert (H4 : same_base s4 s) by (eapply same_base_trans; [|exact H3]; repeat split).
  clearbody s4.
  apply (NoOrph_base _ s); [|exact Hno].
  destruct (conf_has_vip c && negb (bool_decide (name = ""))); [eapply same_base_trans; [apply free_vip_base|exact H4]|exact H4].
Qed.

Lemma txn_op_NoOrph idx op s s' : txn_op idx op s = Ok s' -> NoOrph s -> NoOrph s'.
Proof.
  destruct op; cbn [txn_op].
  - destruct v.
    + destruct (bool_decide (id = "")); destruct (bool_decide _); try discriminate; intros [= <-]; tauto.
    + apply ensure_node_NoOrph.
    + destruct (cas_ok _ _ _); [apply ensure_node_NoOrph|discriminate].
    + intros [= <-]. apply delete_node_NoOrph.
    + destruct (nodes s !! nd); [|discriminate]. destruct (bool_decide _); [|discriminate]. intros [= <-]. apply delete_node_NoOrph.
  - destruct v.
    + destruct (bool_decide _); [|discriminate]. intros [= <-]; tauto.
    + apply ensure_service_NoOrph.
    + destruct (cas_ok _ _ _); [apply ensure_service_NoOrph|discriminate].
    + intros [= <-]. apply delete_service_NoOrph.
    + destruct (services s !! _); [|discriminate]. destruct (bool_decide _); [|discriminate]. intros [= <-]. apply delete_service_NoOrph.
  - destruct v.
    + destruct (bool_decide _); [|discriminate]. intros [= <-]; tauto.
    + apply ensure_check_NoOrph.
    + destruct (cas_ok _ _ _); [apply ensure_check_NoOrph|discriminate].
    + intros [= <-]. apply delete_check_NoOrph.
    + destruct (checks s !! _); [|discriminate]. destruct (bool_decide _); [|discriminate]. intros [= <-]. apply delete_check_NoOrph.
Qed.

Lemma txn_dispatch_NoOrph idx ops : forall i s s', txn_dispatch idx i ops s = inl s' -> NoOrph s -> NoOrph s'.
Proof.
  induction ops as [|op ops IH]; intros i s s'; cbn; [intros [= <-]; tauto|].
  destruct (txn_op idx op s) as [s1|e] eqn:E; [|discriminate].
  intros Hd Hs. apply (IH _ _ _ Hd). apply (txn_op_NoOrph _ _ _ _ E Hs).
Qed.

Lemma assign_manual_base name ips s : same_base (assign_manual name ips s).2 s.
Proof.
  unfold assign_manual.
  set (step := fun '(s', from) ip => _).
  assert (Hfold : forall l (acc : st * list string), same_base acc.1 s -> same_base (foldl step acc l).1 s).
  { induction l as [|ip l IH]; intros acc Hacc; cbn; [exact Hacc|]. apply IH. destruct acc as [s1 from]. cbn in Hacc |- *.
    destruct (manual_holder ip s1) as [n|]; [|exact Hacc]. destruct (bool_decide (n = name)); [exact Hacc|].
    destruct (vips s1 !! n) as [[a m]|]; [|exact Hacc]. cbn. exact Hacc. }
  specialize (Hfold (dedup_sorted (ssort ips)) (s, []) (same_base_refl _)).
  destruct (foldl step (s, []) (dedup_sorted (ssort ips))) as [s1 from]. cbn in Hfold.
  destruct (vips s1 !! name) as [[a m]|]; cbn; [|apply same_base_refl]. destruct (_ && _); cbn; exact Hfold.
Qed.

Lemma exec_NoOrph idx c s : NoOrph s -> NoOrph (exec idx c s).1.
Proof.
  intros Hno. destruct c; cbn [exec].
  - cbn. apply (NoOrph_base _ s); [repeat split|exact Hno].
  - destruct (ensure_registration _ _ _ _ _ _ _ s) as [s'|e] eqn:E; cbn; [|exact Hno].
    apply (ensure_registration_NoOrph _ _ _ _ _ _ _ _ _ E Hno).
  - destruct (negb _); cbn; [apply delete_service_NoOrph; exact Hno|].
    destruct (negb _); cbn; [apply delete_check_NoOrph; exact Hno|apply delete_node_NoOrph; exact Hno].
  - destruct (txn_dispatch idx 0 ops s) as [s'|[i e]] eqn:E; cbn; [|exact Hno].
    apply (txn_dispatch_NoOrph _ _ _ _ _ E Hno).
  - destruct (conf_set name c s) as [s'|e] eqn:E; cbn; [|exact Hno]. apply (conf_set_NoOrph _ _ _ _ E Hno).
  - cbn. apply conf_delete_NoOrph; exact Hno.
  - pose proof (assign_manual_base name ips s) as H. destruct (assign_manual name ips s) as [[found from] s']. cbn in *.
    apply (NoOrph_base _ s H Hno).
  - cbn. destruct (bool_decide (is_Some (nodes s !! nd))) eqn:Eb; [|exact Hno].
    apply bool_decide_eq_true in Eb. destruct Hno as (H1 & H2 & H3). split; [exact H1|split; [exact H2|]].
    intros n' Hin. cbn in Hin. apply elem_of_union in Hin as [Hin|Hin]; [apply elem_of_singleton in Hin; subst; exact Eb|apply H3; exact Hin].
  - exact Hno.
Qed.

Theorem apply_NoOrph idx c s : NoOrph s -> NoOrph (apply idx c s).1.
Proof.
  intros Hno. unfold apply. pose proof (exec_NoOrph idx c s Hno) as H. destruct (exec idx c s) as [s' r]. cbn in *.
  apply (NoOrph_base _ s'); [repeat split|exact H].
Qed.

(* the cascade of a node deregistration, on the command level: nothing of the node is left, its
   coordinate included *)
Lemma apply_deregister_node idx nd s : (apply idx (Deregister nd "" "") s).1 = commit_usage s (delete_node nd s).
Proof. reflexivity. Qed.

Theorem deregister_node_cascade idx nd s :
  NoOrph s ->
  let s' := (apply idx (Deregister nd "" "") s).1 in
  nodes s' !! nd = None /\ nd ∉ coords s' /\
  (forall sid, services s' !! (nd, sid) = None) /\ (forall cid, checks s' !! (nd, cid) = None).
Proof.
  intros Hno. cbn zeta. rewrite apply_deregister_node.
  change (nodes (commit_usage s (delete_node nd s))) with (nodes (delete_node nd s)).
  change (coords (commit_usage s (delete_node nd s))) with (coords (delete_node nd s)).
  change (services (commit_usage s (delete_node nd s))) with (services (delete_node nd s)).
  change (checks (commit_usage s (delete_node nd s))) with (checks (delete_node nd s)).
  destruct (delete_node_base nd s Hno) as [_ [[Hnone Heq]|(Hn & Hco & Hs & Hc)]]; cbn zeta in *.
  - rewrite Heq. destruct Hno as (H1 & H2 & H3). split; [exact Hnone|]. split; [|split].
    + intros Hin. destruct (H3 _ Hin) as [n Hn]. congruence.
    + intros sid. destruct (services s !! (nd, sid)) as [v|] eqn:Ev; [|reflexivity]. destruct (H1 _ _ _ Ev) as [n Hn]. congruence.
    + intros cid. destruct (checks s !! (nd, cid)) as [c|] eqn:Ec; [|reflexivity]. destruct (H2 _ _ _ Ec) as [[n Hn] _]. congruence.
  - split; [rewrite Hn; apply lookup_delete|]. split; [exact Hco|]. split.
    + intros sid. destruct (services (delete_node nd s) !! (nd, sid)) as [v|] eqn:Ev; [|reflexivity].
      exfalso. apply (Hs _ _ Ev). reflexivity.
    + intros cid. destruct (checks (delete_node nd s) !! (nd, cid)) as [c|] eqn:Ec; [|reflexivity].
      exfalso. apply (Hc _ _ Ec). reflexivity.
Qed.

Lemma apply_deregister_service idx nd sid cid s : sid ≠ "" ->
  (apply idx (Deregister nd sid cid) s).1 = commit_usage s (delete_service nd sid s).
Proof. intros H. unfold apply. cbn [exec]. rewrite bool_decide_eq_false_2 by exact H. reflexivity. Qed.

Theorem deregister_service_cascade idx nd sid cid0 s :
  sid ≠ "" -> NoOrph s ->
  let s' := (apply idx (Deregister nd sid cid0) s).1 in
  services s' !! (nd, sid) = None /\ (forall cid c, checks s' !! (nd, cid) = Some c -> c_service c ≠ sid).
Proof.
  intros Hsid Hno. cbn zeta. rewrite (apply_deregister_service idx nd sid cid0 s Hsid).
  change (services (commit_usage s (delete_service nd sid s))) with (services (delete_service nd sid s)).
  change (checks (commit_usage s (delete_service nd sid s))) with (checks (delete_service nd sid s)).
  destruct (delete_service_base nd sid s) as [[Hnone Heq]|(Hn & Hco & Hs & Hc)]; cbn zeta in *.
  - rewrite Heq. split; [exact Hnone|]. intros cid c Hck Heqs. destruct Hno as (_ & H2 & _).
    destruct (H2 _ _ _ Hck) as [_ Hy]. rewrite Heqs in Hy. destruct (Hy Hsid) as [v Hv]. congruence.
  - split; [rewrite Hs; apply lookup_delete|]. intros cid c Hck Heqs. apply Hc in Hck as [_ Hnot]. apply Hnot. cbn. split; [reflexivity|exact Heqs].
Qed.
