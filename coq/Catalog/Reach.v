(* Reachable states of the catalog model and the invariants that hold in all of them. *)
From stdpp Require Import gmap strings.
From RecordUpdate Require Import RecordSet.
From Coq Require Import NArith.
From Verif Require Import Catalog.Model Catalog.Frames Catalog.VIP.
Import RecordSetNotations.
Local Open Scope N_scope.

Inductive CReach : st -> Prop :=
| CReach_init : CReach st0
| CReach_step idx c s : CReach s -> CReach (apply idx c s).1.

Lemma CReach_run log : CReach (run log st0).1.
Proof.
  assert (H : forall s, CReach s -> CReach (run log s).1).
  { induction log as [|[idx c] log IH]; intros s Hs; cbn; [exact Hs|].
    pose proof (CReach_step idx c s Hs) as Ha. destruct (apply idx c s) as [s' r].
    specialize (IH s' Ha). destruct (run log s') as [s'' rs]. exact IH. }
  apply H. constructor.
Qed.

Theorem CReach_INV s : CReach s -> INV s.
Proof. induction 1 as [|idx c s _ IH]; [apply INV_st0|apply apply_INV; exact IH]. Qed.

(* no two services have the same virtual IP *)
Theorem vip_unique s : CReach s ->
  forall n1 n2 ip m1 m2, vips s !! n1 = Some (ip, m1) -> vips s !! n2 = Some (ip, m2) -> n1 = n2.
Proof. intros H. apply (CReach_INV s H). Qed.

(* an assigned address is never also in the free list and never beyond the counter *)
Theorem vip_allocator s : CReach s ->
  forall n ip m, vips s !! n = Some (ip, m) -> 0 < ip <= counter s /\ ip ∉ free s.
Proof. intros H. apply (CReach_INV s H). Qed.

(* the virtual IP a connect-native instance advertises is its service's current assignment *)
Theorem vip_advertised_native s : CReach s ->
  forall k v ip, services s !! k = Some v -> sv_vip v = Some ip ->
    sv_native v = true -> sv_kind v ≠ KProxy ->
    exists m, vips s !! sv_name v = Some (ip, m).
Proof. intros H. apply (CReach_INV s H). Qed.

From Verif Require Import Catalog.Orphans.
Theorem CReach_NoOrph s : CReach s -> NoOrph s.
Proof. induction 1 as [|idx c s _ IH]; [apply NoOrph_st0|apply apply_NoOrph; exact IH]. Qed.
