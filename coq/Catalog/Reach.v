(* Reachable states of the catalog model and the invariants that hold in all of them. *)
From stdpp Require Import gmap strings.
From RecordUpdate Require Import RecordSet.
From Coq Require Import NArith.
From Verif Require Import Catalog.Model Catalog.Frames Catalog.VIP.
Import RecordSetNotations.
Local Open Scope N_scope.

Inductive CReach : st -> Prop :=
| CReach_init : CReach st0
| CReach_step idx c s : CReach s -> CReach (apply idx c s).1.

Lemma CReach_run log : CReach (run log st0).1.
Proof.
  assert (H : forall s, CReach s -> CReach (run log s).1).
  { induction log as [|[idx c] log IH]; intros s Hs; cbn; [exact Hs|].
    pose proof (CReach_step idx c s Hs) as Ha. destruct (apply idx c s) as [s' r].
    specialize (IH s' Ha). destruct (run log s') as [s'' rs]. exact IH. }
  apply H. constructor.
Qed.

Theorem CReach_INV s : CReach s -> INV s.
Proof. induction 1 as [|idx c s _ IH]; [apply INV_st0|apply apply_INV; exact IH]. Qed.

(* no two services have the same virtual IP *)
Theorem vip_unique s : CReach s ->
  forall n1 n2 ip m1 m2, vips s !! n1 = Some (ip, m1) -> vips s !! n2 = Some (ip, m2) -> n1 = n2.
Proof. intros H. apply (CReach_INV s H). Qed.

(* an assigned address is never also in the free list and never beyond the counter *)
Theorem vip_allocator s : CReach s ->
  forall n ip m, vips s !! n = Some (ip, m) -> 0 < ip <= counter s /\ ip ∉ free s.
Proof. intros H. apply (CReach_INV s H). Qed.

(* the virtual IP any instance advertises is the current assignment of the service it is indexed
   under in the connect index (its own name if connect-native, its destination if a sidecar proxy) *)
Theorem vip_advertised s : CReach s ->
  forall k v ip, services s !! k = Some v -> sv_vip v = Some ip ->
    exists n m, connect_name v = Some n /\ vips s !! n = Some (ip, m).
Proof. intros H. apply (CReach_INV s H). Qed.

From Verif Require Import Catalog.Orphans.
Theorem CReach_NoOrph s : CReach s -> NoOrph s.
Proof. induction 1 as [|idx c s _ IH]; [apply NoOrph_st0|apply apply_NoOrph; exact IH]. Qed.

From Verif Require Import Catalog.Spec Catalog.Usage.
(* the node, instance, service-name, connect-kind, connect-native and billable counters equal the
   counts recomputed from the rows, in every reachable state *)
Theorem usage_recomputed s : CReach s -> forall id, id ∈ svc_usage_ids -> stored_usage s id = recompute_usage s id.
Proof. induction 1 as [|idx c s _ IH]; [apply UsageOK_st0|apply apply_UsageOK; exact IH]. Qed.
