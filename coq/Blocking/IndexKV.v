(* C06: the KV queries whose index is not a plain table maximum: KVS.Get (ModifyIndex of the entry)
   and the prefix listings (sub-index over the entries and tombstones under the prefix). *)
From stdpp Require Import gmap strings.
From RecordUpdate Require Import RecordSet.
From Coq Require Import NArith Lia.
From Verif Require Import Blocking.Model Blocking.Lemmas Blocking.Prims Blocking.Valid Blocking.Index.
Import RecordSetNotations.
Local Open Scope N_scope.

Definition under (p : string) (m : gmap string kvent) : gmap string kvent :=
  filter (fun kv => has_prefix p kv.1 = true) m.
Definition tunder (p : string) (m : gmap string N) : gmap string N :=
  filter (fun kt => has_prefix p kt.1 = true) m.

Lemma kv_table_max_le i s : IdxBnd i s -> kv_table_max s <= i.
Proof.
  intros HB. unfold kv_table_max, imax; cbn [foldr].
  pose proof (iget_le i k_kvs s HB). pose proof (iget_le i k_tombs s HB). lia.
Qed.
Lemma kv_table_max_mono i p s : IdxBnd i s -> kv_table_max s <= kv_table_max (papply i p s).
Proof.
  intros HB. unfold kv_table_max, imax; cbn [foldr].
  repeat apply N_max_mono; try lia; apply fixed_mono; try exact HB; unfold fixed_keys; set_solver.
Qed.
Lemma kv_table_max_set i p s : IdxBnd i s -> k_kvs ∈ set_keys p s -> kv_table_max (papply i p s) = i.
Proof.
  intros HB Hk. unfold kv_table_max, imax; cbn [foldr]. rewrite (set_key_iget _ _ _ _ HB Hk).
  pose proof (iget_le i k_tombs _ (IdxBnd_papply i p s HB)). lia.
Qed.

Lemma kv_list_index_le i p s : Bnd i s -> kv_list_index p s <= i.
Proof.
  intros [HB Hkv Htb]. unfold kv_list_index.
  pose proof (kv_table_max_le i s HB) as HT.
  assert (HL : mmax kv_modify (under p (kvs s)) <= i).
  { apply mmax_le. intros k e Hk. apply map_filter_lookup_Some in Hk as [Hk _]. exact (Hkv _ _ Hk). }
  assert (HG : mmax id (tunder p (tombs s)) <= i).
  { apply mmax_le. intros k v Hk. apply map_filter_lookup_Some in Hk as [Hk _]. exact (Htb _ _ Hk). }
  fold (under p (kvs s)). fold (tunder p (tombs s)).
  repeat case_bool_decide; lia.
Qed.

(* a witness at the write's index under the prefix forces the listing's index up to it *)
Lemma kv_list_index_ge i p s :
  Bnd i s ->
  (p = "" -> kv_table_max s = i) ->
  ((exists k e, kvs s !! k = Some e /\ has_prefix p k = true /\ kv_modify e = i) \/
   (exists k, tombs s !! k = Some i /\ has_prefix p k = true) \/ p = "") ->
  i <= kv_list_index p s.
Proof.
  intros HBnd HT Hw. unfold kv_list_index.
  fold (under p (kvs s)). fold (tunder p (tombs s)).
  destruct (decide (p = "")) as [Hp|Hp].
  - rewrite (bool_decide_eq_true_2 _ Hp). rewrite (HT Hp). case_bool_decide; lia.
  - rewrite (bool_decide_eq_false_2 _ Hp).
    assert (Hm : i <= N.max (mmax kv_modify (under p (kvs s))) (mmax id (tunder p (tombs s)))).
    { destruct Hw as [(k & e & Hk & Hpk & He)|[(k & Hk & Hpk)|Hw]]; [| |contradiction].
      - pose proof (mmax_ub kv_modify (under p (kvs s)) k e) as H. rewrite He in H.
        assert (under p (kvs s) !! k = Some e) as Hu by (apply map_filter_lookup_Some; split; assumption).
        specialize (H Hu). lia.
      - pose proof (mmax_ub id (tunder p (tombs s)) k i) as H.
        assert (tunder p (tombs s) !! k = Some i) as Hu by (apply map_filter_lookup_Some; split; assumption).
        specialize (H Hu). cbn in H. lia. }
    case_bool_decide as Hz; [|exact Hm]. rewrite Hz in Hm.
    pose proof (kv_list_index_le i p s HBnd). lia.
Qed.

(* non-reap primitives only add tombstones, stamped with the write's index *)
Lemma tombs_grow i p (s : st) k v :
  (forall u, p <> PReap u) -> (forall p', p <> PKvDelTree p') -> tombs s !! k = Some v ->
  tombs (papply i p s) !! k = Some v \/ tombs (papply i p s) !! k = Some i.
Proof.
  intros Hr Ht Hk. rewrite tombs_papply. destruct p; cbn [tombs_after]; try (left; exact Hk).
  - destruct (decide (k = k0)) as [->|]; [right; apply lookup_insert|left; rewrite lookup_insert_ne by congruence; exact Hk].
  - exfalso. eapply Ht. reflexivity.
  - destruct (((fun _ => i) <$> filter (fun kv => kv_sess kv.2 = sid) (kvs s)) !! k) as [w|] eqn:E.
    + right. apply lookup_union_Some_l. rewrite E. apply lookup_fmap_Some in E as (e & <- & _). reflexivity.
    + left. rewrite lookup_union_r by exact E. exact Hk.
  - exfalso. eapply Hr. reflexivity.
Qed.
Lemma tombs_new i p (s : st) k v :
  tombs (papply i p s) !! k = Some v -> tombs s !! k = Some v \/ v = i.
Proof.
  rewrite tombs_papply. destruct p; cbn [tombs_after]; try (left; assumption).
  - intros Hk. apply lookup_insert_Some in Hk as [[_ <-]|[_ Hk]]; [right; reflexivity|left; exact Hk].
  - case_bool_decide.
    + intros Hk. apply map_filter_lookup_Some in Hk as [Hk _]. left; exact Hk.
    + intros Hk. apply lookup_insert_Some in Hk as [[_ <-]|[_ Hk]]; [right; reflexivity|].
      apply map_filter_lookup_Some in Hk as [Hk _]. left; exact Hk.
  - intros Hk. apply lookup_union_Some_raw in Hk as [Hk|[_ Hk]]; [|left; exact Hk].
    apply lookup_fmap_Some in Hk as (e & <- & _). right; reflexivity.
  - intros Hk. apply map_filter_lookup_Some in Hk as [Hk _]. left; exact Hk.
Qed.

(* the sub-index when the listed entries do not change *)
Lemma kv_list_index_unchanged i p0 p s :
  Bnd i s -> pvalid i p s -> (forall p', p <> PKvDelTree p') ->
  under p0 (kvs (papply i p s)) = under p0 (kvs s) ->
  kv_list_index p0 s <= kv_list_index p0 (papply i p s).
Proof.
  intros HBnd Hv Hnt Hsame.
  assert (Hr : forall u, p <> PReap u) by (intros u ->; exact Hv).
  pose proof (Bnd_papply i p s HBnd Hv) as HBnd'.
  destruct HBnd as [HB Hkv Htb]. unfold kv_list_index.
  fold (under p0 (kvs s)) (tunder p0 (tombs s)) (under p0 (kvs (papply i p s))) (tunder p0 (tombs (papply i p s))).
  rewrite Hsame.
  set (L := mmax kv_modify (under p0 (kvs s))).
  set (G := mmax id (tunder p0 (tombs s))). set (G' := mmax id (tunder p0 (tombs (papply i p s)))).
  pose proof (kv_table_max_mono i p s HB) as HT. pose proof (kv_table_max_le i s HB) as HTi.
  pose proof (kv_table_max_le i _ (bnd_index _ _ HBnd')) as HTi'.
  assert (HG : G <= G').
  { apply mmax_le. intros k v Hk. apply map_filter_lookup_Some in Hk as [Hk Hp]. cbn in Hp.
    destruct (tombs_grow i p s k v Hr Hnt Hk) as [H|H].
    - apply (mmax_ub id (tunder p0 (tombs (papply i p s))) k v). apply map_filter_lookup_Some. split; assumption.
    - pose proof (mmax_ub id (tunder p0 (tombs (papply i p s))) k i) as Hu.
      assert (tunder p0 (tombs (papply i p s)) !! k = Some i) as Hl by (apply map_filter_lookup_Some; split; assumption).
      specialize (Hu Hl). cbn in Hu. pose proof (Htb _ _ Hk). cbn. lia. }
  assert (HG' : G' = G \/ G' = i).
  { destruct (mmax_spec id (tunder p0 (tombs (papply i p s)))) as [_ [Hz|(k & v & Hk & Hm)]].
    - left. fold G' in Hz. lia.
    - fold G' in Hm. cbn in Hm. subst v. apply map_filter_lookup_Some in Hk as [Hk Hp].
      destruct (tombs_new i p s k G' Hk) as [Hold|Hi]; [|right; exact Hi].
      left. pose proof (mmax_ub id (tunder p0 (tombs s)) k G') as Hu.
      assert (tunder p0 (tombs s) !! k = Some G') as Hl by (apply map_filter_lookup_Some; split; assumption).
      specialize (Hu Hl). cbn in Hu. fold G in Hu. lia. }
  assert (HL : L <= i).
  { apply mmax_le. intros k e Hk. apply map_filter_lookup_Some in Hk as [Hk _]. exact (Hkv _ _ Hk). }
  repeat case_bool_decide; destruct HG' as [HG'|HG']; try lia.
Qed.

Lemma under_lookup p0 (m : gmap string kvent) k :
  under p0 m !! k = if has_prefix p0 k then m !! k else None.
Proof.
  unfold under. destruct (has_prefix p0 k) eqn:Ep.
  - destruct (m !! k) as [e|] eqn:E.
    + apply map_filter_lookup_Some. split; [exact E|exact Ep].
    + apply map_filter_lookup_None. left. exact E.
  - apply map_filter_lookup_None. right. intros e _. change (has_prefix p0 k <> true). congruence.
Qed.
Lemma under_neq p0 (m m' : gmap string kvent) :
  under p0 m' <> under p0 m -> exists k, has_prefix p0 k = true /\ m' !! k <> m !! k.
Proof.
  intros Hne. destruct (map_neq_witness _ _ Hne) as [k Hk]. rewrite !under_lookup in Hk.
  destruct (has_prefix p0 k) eqn:Ep; [|contradiction Hk; reflexivity].
  exists k. split; [exact Ep|exact Hk].
Qed.

(* what a changed KV row looks like after the step *)
Lemma kv_row_changed i p s k :
  pvalid i p s -> kvs (papply i p s) !! k <> kvs s !! k ->
  match kvs (papply i p s) !! k with
  | Some e' => kv_modify e' = i
  | None => exists e, kvs s !! k = Some e /\
                      (tombs (papply i p s) !! k = Some i \/
                       exists p', p = PKvDelTree p' /\ has_prefix p' k = true)
  end.
Proof.
  intros Hv. rewrite kvs_papply, tombs_papply.
  destruct p; cbn [kvs_after tombs_after]; try (intros H; contradiction H; reflexivity).
  - (* PKvPut *) destruct (decide (k = k0)) as [->|Hne].
    + rewrite lookup_insert. intros _. exact Hv.
    + rewrite lookup_insert_ne by congruence. intros H; contradiction H; reflexivity.
  - (* PKvDel *) destruct (decide (k = k0)) as [->|Hne].
    + rewrite lookup_delete. intros H. destruct (kvs s !! k0) as [e|]; [|contradiction H; reflexivity].
      exists e. split; [reflexivity|]. left. apply lookup_insert.
    + rewrite lookup_delete_ne by congruence. intros H; contradiction H; reflexivity.
  - (* PKvDelTree *) intros H.
    destruct (filter (fun kv : string * kvent => has_prefix p kv.1 = false) (kvs s) !! k) as [e'|] eqn:E.
    + apply map_filter_lookup_Some in E as [E _]. contradiction H. symmetry. exact E.
    + destruct (kvs s !! k) as [e|] eqn:E2; [|contradiction H; reflexivity].
      exists e. split; [reflexivity|]. right. exists p. split; [reflexivity|].
      apply map_filter_lookup_None in E as [E|E]; [congruence|].
      specialize (E e E2). cbn [fst] in E. destruct (has_prefix p k); [reflexivity|contradiction E; reflexivity].
  - (* PKvRelease *) rewrite lookup_fmap. destruct (kvs s !! k) as [e|] eqn:E; cbn; [|intros H0; contradiction H0; reflexivity].
    case_bool_decide; [reflexivity|intros H0; contradiction H0; reflexivity].
  - (* PKvDelSess *) intros H.
    destruct (filter (fun kv : string * kvent => kv_sess kv.2 ≠ sid) (kvs s) !! k) as [e'|] eqn:E.
    + apply map_filter_lookup_Some in E as [E _]. contradiction H. symmetry. exact E.
    + destruct (kvs s !! k) as [e|] eqn:E2; [|contradiction H; reflexivity].
      exists e. split; [reflexivity|]. left.
      apply map_filter_lookup_None in E as [E|E]; [congruence|].
      specialize (E e E2). cbn [snd] in E.
      apply lookup_union_Some_l. rewrite lookup_fmap.
      assert (filter (fun kv : string * kvent => kv_sess kv.2 = sid) (kvs s) !! k = Some e) as ->; [|reflexivity].
      apply map_filter_lookup_Some. split; [exact E2|]. cbn.
      destruct (decide (kv_sess e = sid)); [assumption|contradiction].
Qed.

Lemma kv_list_changed i p0 p s :
  Bnd i s -> pvalid i p s -> (forall p', p <> PKvDelTree p') ->
  under p0 (kvs (papply i p s)) <> under p0 (kvs s) ->
  i <= kv_list_index p0 (papply i p s).
Proof.
  intros HBnd Hv Hnt Hne.
  pose proof (Bnd_papply i p s HBnd Hv) as HBnd'.
  assert (Hkv : k_kvs ∈ set_keys p s).
  { apply (kvs_changed i). intros Heq. apply Hne. rewrite Heq. reflexivity. }
  apply kv_list_index_ge; [exact HBnd'|intros _; apply kv_table_max_set; [apply HBnd|exact Hkv]|].
  destruct (under_neq _ _ _ Hne) as (k & Hpk & Hk).
  pose proof (kv_row_changed i p s k Hv Hk) as Hrow.
  destruct (kvs (papply i p s) !! k) as [e'|] eqn:E'.
  - left. exists k, e'. repeat split; assumption.
  - destruct Hrow as (e & He & [Ht|(p' & -> & Hp')]).
    + right. left. exists k. split; assumption.
    + exfalso. eapply Hnt. reflexivity.
Qed.

(* the delete-tree: it drops the tombstones under its prefix, so a listing on a longer prefix
   falls back to the table index (which it has just written); a listing it lies under sees the
   tree's tombstone; an unrelated listing is untouched *)
Ltac inl := repeat first [apply elem_of_list_here | apply elem_of_list_further].

Lemma under_empty_le (f : kvent -> N) p0 (m : gmap string kvent) :
  (forall k e, m !! k = Some e -> has_prefix p0 k = false) -> mmax f (under p0 m) = 0.
Proof.
  intros Hno. apply N.le_0_r. apply mmax_le. intros k e Hk. rewrite under_lookup in Hk.
  destruct (has_prefix p0 k) eqn:Ep; [|discriminate]. rewrite (Hno _ _ Hk) in Ep. discriminate.
Qed.

Lemma kv_list_deltree i p0 p' s :
  Bnd i s ->
  let s' := papply i (PKvDelTree p') s in
  i <= kv_list_index p0 s' \/
  (under p0 (kvs s') = under p0 (kvs s) /\ kv_list_index p0 s' = kv_list_index p0 s).
Proof.
  intros HBnd s'.
  assert (Hv : pvalid i (PKvDelTree p') s) by exact I.
  pose proof (Bnd_papply i _ s HBnd Hv) as HBnd'. fold s' in HBnd'.
  assert (HT : kv_table_max s' = i).
  { apply kv_table_max_set; [apply HBnd|]. cbn. case_bool_decide; inl. }
  pose proof (kv_list_index_le i p0 s HBnd) as Hold.
  assert (Hkvs : kvs s' = filter (fun kv : string * kvent => has_prefix p' kv.1 = false) (kvs s))
    by (unfold s'; rewrite kvs_papply; reflexivity).
  assert (Htb : tombs s' = tombs_after i (PKvDelTree p') s) by (unfold s'; apply tombs_papply).
  cbn [tombs_after] in Htb.
  destruct (decide (p0 = "")) as [->|Hp0].
  { left. apply kv_list_index_ge; [exact HBnd'|intros _; exact HT|right; right; reflexivity]. }
  destruct (has_prefix p0 p') eqn:E1.
  - (* the tree's prefix lies under the listed one: its tombstone counts *)
    left. apply kv_list_index_ge; [exact HBnd'|intros ->; contradiction|].
    right. left. exists p'. split; [|exact E1].
    rewrite Htb. rewrite bool_decide_eq_false_2.
    + apply lookup_insert.
    + intros ->. apply has_prefix_of_nil in E1. contradiction.
  - destruct (has_prefix p' p0) eqn:E2.
    + (* the listed prefix lies strictly under the tree's: nothing is left below it *)
      left. unfold kv_list_index. rewrite HT. rewrite (bool_decide_eq_false_2 _ Hp0).
      fold (under p0 (kvs s')). rewrite under_empty_le.
      2: { intros k e Hk. rewrite Hkvs in Hk. apply map_filter_lookup_Some in Hk as [_ Hk]. cbn [fst] in Hk.
           destruct (has_prefix p0 k) eqn:Ek; [|reflexivity].
           rewrite (has_prefix_trans _ _ _ E2 Ek) in Hk. discriminate. }
      assert (HG : mmax id (filter (fun kt : string * N => has_prefix p0 kt.1 = true) (tombs s')) = 0).
      { apply N.le_0_r. apply mmax_le. intros k v Hk. apply map_filter_lookup_Some in Hk as [Hk Hpk]. cbn [fst] in Hpk.
        exfalso. rewrite Htb in Hk. case_bool_decide as Hp'.
        - apply map_filter_lookup_Some in Hk as [_ Hk]. cbn [fst] in Hk.
          rewrite (has_prefix_trans _ _ _ E2 Hpk) in Hk. discriminate.
        - apply lookup_insert_Some in Hk as [[<- _]|[_ Hk]]; [congruence|].
          apply map_filter_lookup_Some in Hk as [_ Hk]. cbn [fst] in Hk.
          rewrite (has_prefix_trans _ _ _ E2 Hpk) in Hk. discriminate. }
      rewrite HG. cbn. rewrite bool_decide_eq_true_2 by reflexivity. lia.
    + (* unrelated prefixes: the listing and its tombstones are untouched *)
      assert (Hu : under p0 (kvs s') = under p0 (kvs s)).
      { apply map_eq. intros k. rewrite !under_lookup, Hkvs.
        destruct (has_prefix p0 k) eqn:Ek; [|reflexivity].
        destruct (kvs s !! k) as [e|] eqn:Ee.
        - apply map_filter_lookup_Some. split; [exact Ee|]. cbn [fst].
          destruct (has_prefix p' k) eqn:Ek'; [|reflexivity].
          destruct (has_prefix_comparable _ _ _ Ek Ek') as [H|H]; congruence.
        - apply map_filter_lookup_None. left. exact Ee. }
      assert (Ht : filter (fun kt : string * N => has_prefix p0 kt.1 = true) (tombs s') =
                   filter (fun kt : string * N => has_prefix p0 kt.1 = true) (tombs s)).
      { apply map_eq. intros k.
        destruct (has_prefix p0 k) eqn:Ek.
        2: { transitivity (@None N); [|symmetry]; apply map_filter_lookup_None; right; intros v _; cbn [fst]; congruence. }
        assert (Hk' : has_prefix p' k = false).
        { destruct (has_prefix p' k) eqn:Ek'; [|reflexivity].
          destruct (has_prefix_comparable _ _ _ Ek Ek') as [H|H]; congruence. }
        assert (Hl : tombs s' !! k = tombs s !! k).
        { rewrite Htb. case_bool_decide as Hp'.
          - destruct (tombs s !! k) as [v|] eqn:Ev.
            + apply map_filter_lookup_Some. split; [exact Ev|exact Hk'].
            + apply map_filter_lookup_None. left. exact Ev.
          - rewrite lookup_insert_ne by (intros ->; congruence).
            destruct (tombs s !! k) as [v|] eqn:Ev.
            + apply map_filter_lookup_Some. split; [exact Ev|exact Hk'].
            + apply map_filter_lookup_None. left. exact Ev. }
        destruct (tombs s !! k) as [v|] eqn:Ev.
        - transitivity (Some v); [|symmetry]; apply map_filter_lookup_Some; (split; [|exact Ek]); [rewrite Hl; reflexivity|exact Ev].
        - transitivity (@None N); [|symmetry]; apply map_filter_lookup_None; left; [rewrite Hl; reflexivity|exact Ev]. }
      unfold kv_list_index. rewrite HT. fold (under p0 (kvs s')) (under p0 (kvs s)). rewrite Hu, Ht.
      rewrite !(bool_decide_eq_false_2 _ Hp0).
      set (m := N.max (mmax kv_modify (under p0 (kvs s))) (mmax id (filter (fun kt : string * N => has_prefix p0 kt.1 = true) (tombs s)))).
      destruct (bool_decide (m = 0)).
      * left. lia.
      * right. split; reflexivity.
Qed.

Lemma single_lookup {A} (k : string) (o : option A) : single k o !! k = o.
Proof. destruct o; cbn; [apply lookup_singleton|apply lookup_empty]. Qed.

(* ---------- the three KV queries ---------- *)
Inductive kvq : query -> Prop :=
| kq1 k : kvq (QKVGetEP k) | kq2 p : kvq (QKVList p) | kq3 p sep : kvq (QKVKeys p sep).

Lemma kv_idx_le i s q : Bnd i s -> kvq q -> idx q s <= i.
Proof.
  intros HBnd Hq. destruct Hq; cbn [idx]; try (apply kv_list_index_le, HBnd).
  destruct (kvs s !! k) as [e|] eqn:E; [exact (bnd_kv _ _ HBnd _ _ E)|apply kv_table_max_le, HBnd].
Qed.

Lemma tree_dec p : {p' | p = PKvDelTree p'} + {forall p', p <> PKvDelTree p'}.
Proof. destruct p; try (right; intros p'; discriminate). left. eexists; reflexivity. Qed.

Lemma kv_list_changed_all i p0 p s :
  Bnd i s -> pvalid i p s ->
  under p0 (kvs (papply i p s)) <> under p0 (kvs s) -> i <= kv_list_index p0 (papply i p s).
Proof.
  intros HBnd Hv Hne. destruct (tree_dec p) as [[p' ->]|Hnt].
  - destruct (kv_list_deltree i p0 p' s HBnd) as [H|[H _]]; [exact H|contradiction].
  - apply kv_list_changed; assumption.
Qed.
Lemma kv_list_mono_all i p0 p s :
  Bnd i s -> pvalid i p s -> kv_list_index p0 s <= kv_list_index p0 (papply i p s).
Proof.
  intros HBnd Hv. pose proof (kv_list_index_le i p0 s HBnd) as Hle.
  destruct (tree_dec p) as [[p' ->]|Hnt].
  - destruct (kv_list_deltree i p0 p' s HBnd) as [H|[_ H]]; [lia|rewrite H; lia].
  - destruct (decide (under p0 (kvs (papply i p s)) = under p0 (kvs s))) as [Heq|Hne].
    + apply kv_list_index_unchanged; assumption.
    + pose proof (kv_list_changed i p0 p s HBnd Hv Hnt Hne). lia.
Qed.

Lemma kv_changed i p s q :
  Bnd i s -> pvalid i p s -> kvq q ->
  res q s <> res q (papply i p s) -> i <= idx q (papply i p s).
Proof.
  intros HBnd Hv Hq Hc. destruct Hq; cbn [idx res] in *.
  - (* KVS.Get *)
    assert (Hk : kvs (papply i p s) !! k <> kvs s !! k) by (intros Heq; apply Hc; rewrite Heq; reflexivity).
    pose proof (kv_row_changed i p s k Hv Hk) as Hrow.
    assert (Hkk : k_kvs ∈ set_keys p s).
    { apply (kvs_changed i). intros Heq. apply Hk. rewrite Heq. reflexivity. }
    destruct (kvs (papply i p s) !! k) as [e'|]; [lia|].
    rewrite kv_table_max_set; [lia|apply HBnd|exact Hkk].
  - apply kv_list_changed_all; try assumption. intros Heq. apply Hc. unfold under in Heq. rewrite Heq. reflexivity.
  - apply kv_list_changed_all; try assumption. intros Heq. apply Hc. unfold under in Heq. rewrite Heq. reflexivity.
Qed.

Lemma kv_mono i p s q :
  Bnd i s -> pvalid i p s -> kvq q -> idx q s <= idx q (papply i p s).
Proof.
  intros HBnd Hv Hq.
  pose proof (kv_idx_le i s q HBnd Hq) as Hle.
  destruct Hq; cbn [idx] in *.
  - destruct (decide (kvs (papply i p s) !! k = kvs s !! k)) as [Heq|Hne].
    + rewrite Heq. destruct (kvs s !! k); [lia|apply kv_table_max_mono, HBnd].
    + pose proof (kv_changed i p s (QKVGetEP k) HBnd Hv (kq1 k)) as H. cbn [idx res] in H.
      assert (i <= match kvs (papply i p s) !! k with Some e => kv_modify e | None => kv_table_max (papply i p s) end).
      { apply H. intros Heq. apply Hne.
        apply (f_equal (fun r => match r with RKV m => m !! k | _ => None end)) in Heq.
        cbn beta iota in Heq. rewrite !single_lookup in Heq. congruence. }
      lia.
  - apply kv_list_mono_all; assumption.
  - apply kv_list_mono_all; assumption.
Qed.
