(* C06: the catalog queries with per-entity index rows: NodeServices (node.<n> / node extinction)
   and the service-name family ServiceNodes / ServiceTagNodes / CheckServiceNodes /
   CheckServiceTagNodes (service.<name> / service extinction / catalog maximum). *)
From stdpp Require Import gmap strings.
From RecordUpdate Require Import RecordSet.
From Coq Require Import NArith Lia.
From Verif Require Import Blocking.Model Blocking.Lemmas Blocking.Prims Blocking.Valid Blocking.Index.
Import RecordSetNotations.
Local Open Scope N_scope.

Ltac inl := repeat first [apply elem_of_list_here | apply elem_of_list_further].

(* ---------- NodeServices ---------- *)
Lemma svcs_of_node_lookup n (s : st) k :
  svcs_of_node n s !! k = if bool_decide (k.1 = n) then services s !! k else None.
Proof.
  unfold svcs_of_node. case_bool_decide as E.
  - destruct (services s !! k) as [x|] eqn:Ek.
    + apply map_filter_lookup_Some. split; assumption.
    + apply map_filter_lookup_None. left. exact Ek.
  - apply map_filter_lookup_None. right. intros x _. exact E.
Qed.

Lemma node_services_changed i p s n :
  IdxBnd i s -> pvalid i p s ->
  res (QNodeServices n) s <> res (QNodeServices n) (papply i p s) ->
  idx (QNodeServices n) (papply i p s) = i.
Proof.
  intros HB Hv Hc. cbn [res idx] in *.
  destruct (decide (nodes (papply i p s) !! n = nodes s !! n)) as [Hn|Hn].
  - (* the node row is the same: a service of the node changed *)
    rewrite Hn in *. destruct (nodes s !! n) as [x|] eqn:En; [|contradiction Hc; reflexivity].
    assert (Hs : svcs_of_node n (papply i p s) <> svcs_of_node n s) by (intros Heq; apply Hc; rewrite Heq; reflexivity).
    destruct (map_neq_witness _ _ Hs) as [k Hk]. rewrite !svcs_of_node_lookup in Hk.
    case_bool_decide as Ek; [|contradiction Hk; reflexivity].
    apply set_key_iget; [exact HB|]. rewrite services_papply in Hk.
    destruct p; try (contradiction Hk; reflexivity).
    + destruct (decide (k = (n0, sid))) as [->|Hne]; [cbn in Ek; subst; cbn [set_keys]; apply elem_of_app; left; inl|].
      rewrite lookup_insert_ne in Hk by congruence. contradiction Hk; reflexivity.
    + destruct (decide (k = (n0, sid))) as [->|Hne].
      * cbn in Ek. subst. cbn [set_keys]. destruct (services s !! (n, sid)) eqn:E; [apply elem_of_app; left; inl|].
        rewrite lookup_delete in Hk. contradiction Hk; reflexivity.
      * rewrite lookup_delete_ne in Hk by congruence. contradiction Hk; reflexivity.
  - rewrite nodes_papply in Hn |- *.
    destruct p; try (contradiction Hn; reflexivity).
    + destruct (decide (n = n0)) as [->|Hne]; [|rewrite lookup_insert_ne in Hn by congruence; contradiction Hn; reflexivity].
      rewrite lookup_insert. apply set_key_iget; [exact HB|]. cbn [set_keys]. inl.
    + destruct (decide (n = n0)) as [->|Hne]; [|rewrite lookup_delete_ne in Hn by congruence; contradiction Hn; reflexivity].
      rewrite lookup_delete. apply set_key_iget; [exact HB|]. cbn [set_keys]. inl.
Qed.

Lemma node_services_mono i p s n :
  IdxBnd i s -> pvalid i p s -> idx (QNodeServices n) s <= idx (QNodeServices n) (papply i p s).
Proof.
  intros HB Hv.
  assert (Hle : idx (QNodeServices n) s <= i) by (cbn [idx]; destruct (nodes s !! n); apply iget_le, HB).
  destruct (decide (res (QNodeServices n) s = res (QNodeServices n) (papply i p s))) as [Heq|Hne].
  2: { rewrite (node_services_changed i p s n HB Hv Hne). exact Hle. }
  cbn [idx res] in *.
  assert (Hn : is_Some (nodes (papply i p s) !! n) <-> is_Some (nodes s !! n)).
  { destruct (nodes s !! n), (nodes (papply i p s) !! n); try discriminate; split; intros [? ?]; try discriminate; eexists; reflexivity. }
  destruct (nodes s !! n) as [x|] eqn:En.
  - destruct (nodes (papply i p s) !! n) as [x'|] eqn:En'; [|destruct Hn as [_ Hn]; destruct Hn; [eexists; reflexivity|discriminate]].
    rewrite iget_papply by exact HB. case_bool_decide; [apply iget_le, HB|].
    case_bool_decide as Hd; [|lia].
    (* node.<n> is only deleted together with the node row *)
    exfalso. destruct p; cbn in Hd; try (inversion Hd; fail).
    + apply elem_of_list_singleton, k_node_inj in Hd. subst. rewrite nodes_papply, lookup_delete in En'. discriminate.
    + destruct (services s !! (n0, sid)) as [o|]; [|inversion Hd].
      destruct (bool_decide (sv_name o = sv_name x0)); [inversion Hd|]. destruct (bool_decide _); [|inversion Hd].
      apply elem_of_list_singleton in Hd. symmetry in Hd. revert Hd. apply k_svc_node.
    + destruct (services s !! (n0, sid)); [|inversion Hd]. destruct (bool_decide _); [|inversion Hd].
      apply elem_of_list_singleton in Hd. symmetry in Hd. revert Hd. apply k_svc_node.
  - destruct (nodes (papply i p s) !! n) as [x'|] eqn:En'; [destruct Hn as [Hn _]; destruct Hn; [eexists; reflexivity|discriminate]|].
    apply fixed_mono; [exact HB|]. unfold fixed_keys. inl.
Qed.

(* ---------- the service-name family ---------- *)
(* the richest join over the instances of one service name; the four queries are projections *)
Definition J (name : string) (s : st) := join_csn s (svcs_named name s).

Lemma svcs_named_lookup name (s : st) k :
  svcs_named name s !! k = match services s !! k with
                           | Some sv => if bool_decide (sv_name sv = name) then Some sv else None
                           | None => None
                           end.
Proof.
  unfold svcs_named. destruct (services s !! k) as [sv|] eqn:E.
  - case_bool_decide as En.
    + apply map_filter_lookup_Some. split; assumption.
    + apply map_filter_lookup_None. right. intros sv' E'. rewrite E in E'. injection E' as <-. exact En.
  - apply map_filter_lookup_None. left. exact E.
Qed.

Lemma J_lookup name s k :
  J name s !! k = (fun sv => (nodes s !! k.1, sv, checks_for s k.1 k.2)) <$> svcs_named name s !! k.
Proof. unfold J, join_csn. rewrite map_lookup_imap. destruct (svcs_named name s !! k); reflexivity. Qed.

Lemma join_node_lookup (s : st) (m : gmap (string * string) svc) k :
  join_node s m !! k = (fun sv => (nodes s !! k.1, sv)) <$> m !! k.
Proof. unfold join_node. rewrite map_lookup_imap. destruct (m !! k); reflexivity. Qed.
Lemma join_csn_lookup (s : st) (m : gmap (string * string) svc) k :
  join_csn s m !! k = (fun sv => (nodes s !! k.1, sv, checks_for s k.1 k.2)) <$> m !! k.
Proof. unfold join_csn. rewrite map_lookup_imap. destruct (m !! k); reflexivity. Qed.

Lemma tag_filter_lookup (tag : string) (m : gmap (string * string) svc) k :
  filter (fun kv : string * string * svc => has_tag tag kv.2 = true) m !! k =
  match m !! k with Some sv => if has_tag tag sv then Some sv else None | None => None end.
Proof.
  destruct (m !! k) as [sv|] eqn:E.
  - destruct (has_tag tag sv) eqn:Et.
    + apply map_filter_lookup_Some. split; assumption.
    + apply map_filter_lookup_None. right. intros sv' E'. rewrite E in E'. injection E' as <-. cbn. congruence.
  - apply map_filter_lookup_None. left. exact E.
Qed.

Inductive svcq : string -> bool -> query -> Prop :=
| sq1 name : svcq name false (QSvcNodes name)
| sq2 name tag : svcq name false (QSvcTagNodes name tag)
| sq3 name : svcq name true (QCSN name)
| sq4 name tag : svcq name true (QCSNTag name tag).

(* the queries only look at J *)
Lemma svcq_res name wc q s s' : svcq name wc q -> J name s = J name s' -> res q s = res q s'.
Proof.
  intros Hq HJ.
  assert (Hk : forall k, J name s !! k = J name s' !! k) by (intros k; rewrite HJ; reflexivity).
  setoid_rewrite J_lookup in Hk.
  destruct Hq; cbn [res]; f_equal; apply map_eq; intros k; specialize (Hk k).
  - rewrite !join_node_lookup.
    destruct (svcs_named name s !! k), (svcs_named name s' !! k); cbn in *; congruence.
  - rewrite !join_node_lookup, !tag_filter_lookup.
    destruct (svcs_named name s !! k) as [a|], (svcs_named name s' !! k) as [b|]; cbn in *; try congruence.
    injection Hk as Hn <- Hc. destruct (has_tag tag a); cbn; congruence.
  - rewrite !join_csn_lookup. exact Hk.
  - rewrite !join_csn_lookup, !tag_filter_lookup.
    destruct (svcs_named name s !! k) as [a|], (svcs_named name s' !! k) as [b|]; cbn in *; try congruence.
    injection Hk as Hn <- Hc. destruct (has_tag tag a); cbn; congruence.
Qed.

(* the index of the family *)
Definition sidx (name : string) (wc : bool) (s : st) : N :=
  (svc_index name (nonempty (svcs_named name s)) wc s).1.

Lemma remove_dups_const {A} `{EqDecision A} (a : A) l :
  (forall x, x ∈ l -> x = a) -> l <> [] -> remove_dups l = [a].
Proof.
  induction l as [|x l IH]; intros Hall Hne; [congruence|].
  assert (x = a) as -> by (apply Hall; left).
  cbn. destruct (decide_rel elem_of a l) as [Hin|Hnin].
  - apply IH; [intros y Hy; apply Hall; right; exact Hy|]. intros ->. inversion Hin.
  - destruct l as [|y l]; [reflexivity|]. exfalso. apply Hnin.
    assert (y = a) as -> by (apply Hall; right; left). left.
Qed.

Lemma names_of_named name s : svcs_named name s <> ∅ -> names_of (svcs_named name s) = [name].
Proof.
  intros Hne. unfold names_of. apply remove_dups_const.
  - intros x Hx. apply elem_of_list_fmap in Hx as (kv & -> & Hkv).
    destruct kv as [k sv]. apply elem_of_map_to_list in Hkv.
    apply map_filter_lookup_Some in Hkv as [_ Hn]. exact Hn.
  - intros Hnil. apply Hne. apply fmap_nil_inv in Hnil. apply map_to_list_empty_iff in Hnil. exact Hnil.
Qed.

Lemma svcq_idx name wc q s : svcq name wc q -> idx q s = sidx name wc s.
Proof.
  intros Hq. destruct Hq; cbn [idx]; try reflexivity.
  unfold csn_index, sidx, nonempty.
  case_bool_decide as E; cbn [negb]; [reflexivity|].
  rewrite names_of_named by exact E. cbn [foldr]. lia.
Qed.

Lemma catalog_max_le i wc s : IdxBnd i s -> catalog_max wc s <= i.
Proof.
  intros HB. unfold catalog_max, imax. destruct wc; cbn [foldr];
    pose proof (iget_le i k_checks s HB); pose proof (iget_le i k_services s HB);
    pose proof (iget_le i k_nodes s HB); lia.
Qed.
Lemma catalog_max_mono i p wc s : IdxBnd i s -> catalog_max wc s <= catalog_max wc (papply i p s).
Proof.
  intros HB. unfold catalog_max, imax. destruct wc; cbn [foldr];
    repeat apply N_max_mono; try lia; apply fixed_mono; try exact HB; unfold fixed_keys; inl.
Qed.

Lemma sidx_le i name wc s : IdxBnd i s -> sidx name wc s <= i.
Proof.
  intros HB. unfold sidx, svc_index.
  destruct (nonempty (svcs_named name s)).
  - destruct (index s !! k_svc name) as [v|] eqn:E; cbn; [exact (HB _ _ E)|apply catalog_max_le, HB].
  - destruct (index s !! k_sext) as [e|] eqn:Ee; cbn; [exact (HB _ _ Ee)|].
    destruct (index s !! k_svc name) as [v|] eqn:E; cbn; [exact (HB _ _ E)|apply catalog_max_le, HB].
Qed.

(* what the index rows look like once the family's join changed *)
Definition Post (name : string) (i : N) (s : st) : Prop :=
  (index s !! k_svc name = Some i /\ svcs_named name s <> ∅) \/
  (svcs_named name s = ∅ /\ index s !! k_sext = Some i /\ index s !! k_svc name = None).

Lemma Post_sidx name i wc s : Post name i s -> sidx name wc s = i.
Proof.
  unfold sidx, svc_index, nonempty. intros [[Hi Hne]|(He & Hx & Hn)].
  - rewrite bool_decide_eq_false_2 by exact Hne. cbn. rewrite Hi. reflexivity.
  - rewrite bool_decide_eq_true_2 by exact He. cbn. rewrite Hx. reflexivity.
Qed.

Lemma checks_for_lookup (s : st) n sid k :
  checks_for s n sid !! k =
  match checks s !! k with
  | Some c => if bool_decide (k.1 = n /\ (c_svc c = "" \/ c_svc c = sid)) then Some c else None
  | None => None
  end.
Proof.
  unfold checks_for. destruct (checks s !! k) as [c|] eqn:E.
  - case_bool_decide as Ec.
    + apply map_filter_lookup_Some. split; assumption.
    + apply map_filter_lookup_None. right. intros c' E'. rewrite E in E'. injection E' as <-. exact Ec.
  - apply map_filter_lookup_None. left. exact E.
Qed.

Lemma name_in_node_names n sid sv (s : st) :
  services s !! (n, sid) = Some sv -> sv_name sv ∈ node_names n s.
Proof.
  intros Hs. unfold node_names, names_of. apply elem_of_remove_dups, elem_of_list_fmap.
  exists ((n, sid), sv). split; [reflexivity|]. apply elem_of_map_to_list.
  rewrite svcs_of_node_lookup. cbn. rewrite bool_decide_eq_true_2 by reflexivity. exact Hs.
Qed.

Lemma svcs_named_nonempty name (s : st) k sv : svcs_named name s !! k = Some sv -> svcs_named name s <> ∅.
Proof. intros Hk He. rewrite He, lookup_empty in Hk. discriminate. Qed.

Lemma J_changed i p s name :
  IdxBnd i s -> pvalid i p s -> psafe p s ->
  J name s <> J name (papply i p s) -> Post name i (papply i p s).
Proof.
  intros HB Hv Hs Hne.
  destruct (map_neq_witness _ _ Hne) as [[n sid] Hk]. rewrite !J_lookup in Hk. cbn [fst snd] in Hk.
  assert (Hidx : forall k, k ∈ set_keys p s -> index (papply i p s) !! k = Some i).
  { intros k Hin. rewrite index_papply by exact HB. unfold papply_idx. rewrite bool_decide_eq_true_2 by exact Hin. reflexivity. }
  pose proof (nodes_papply i p s) as EN. pose proof (services_papply i p s) as ES. pose proof (checks_papply i p s) as EC.
  assert (Hleft : forall sv, svcs_named name (papply i p s) !! (n, sid) = Some sv -> k_svc name ∈ set_keys p s -> Post name i (papply i p s)).
  { intros sv Hsv Hin. left. split; [apply Hidx, Hin|eapply svcs_named_nonempty, Hsv]. }
  destruct p; cbn [pvalid psafe] in Hv, Hs.
  all: try (exfalso; apply Hk; rewrite !svcs_named_lookup, ES, EN; unfold checks_for; rewrite EC; reflexivity).
  - (* PNodePut *)
    rewrite !svcs_named_lookup, ES in Hk.
    destruct (services s !! (n, sid)) as [sv|] eqn:Esv; [|contradiction Hk; reflexivity].
    case_bool_decide as En; [|contradiction Hk; reflexivity].
    apply (Hleft sv); [rewrite svcs_named_lookup, ES, Esv, bool_decide_eq_true_2 by exact En; reflexivity|].
    assert (n = n0) as ->.
    { destruct (decide (n = n0)) as [|Hn]; [assumption|]. exfalso. apply Hk. cbn [fmap option_fmap option_map].
      unfold checks_for. rewrite EC, EN, lookup_insert_ne by congruence. reflexivity. }
    cbn [set_keys]. subst name. do 2 apply elem_of_list_further. apply elem_of_list_fmap_1. exact (name_in_node_names _ _ _ _ Esv).
  - (* PNodeDel: no service of the node is left *)
    exfalso. apply Hk. rewrite !svcs_named_lookup, ES.
    destruct (services s !! (n, sid)) as [sv|] eqn:Esv; [|reflexivity].
    case_bool_decide; [|reflexivity]. cbn [fmap option_fmap option_map]. unfold checks_for. rewrite EC, EN.
    destruct (decide (n = n0)) as [->|Hn]; [|rewrite lookup_delete_ne by congruence; reflexivity].
    exfalso. assert (svcs_of_node n0 s !! (n0, sid) = Some sv) as Hin.
    { rewrite svcs_of_node_lookup. cbn. rewrite bool_decide_eq_true_2 by reflexivity. exact Esv. }
    rewrite Hv, lookup_empty in Hin. discriminate.
  - (* PSvcPut: the new name is bumped; a name the id leaves is bumped or goes extinct *)
    destruct (decide ((n, sid) = (n0, sid0))) as [Heq|Hneq].
    2: { exfalso. apply Hk. rewrite !svcs_named_lookup, ES, lookup_insert_ne by congruence.
         unfold checks_for. rewrite EC, EN. reflexivity. }
    injection Heq as -> ->.
    destruct (decide (sv_name x = name)) as [Hnm|Hnm].
    { apply (Hleft x); [rewrite svcs_named_lookup, ES, lookup_insert, bool_decide_eq_true_2 by exact Hnm; reflexivity|].
      cbn [set_keys]. rewrite Hnm. apply elem_of_app; left; inl. }
    (* the new row is not named [name]: the old one was *)
    rewrite !svcs_named_lookup, ES, lookup_insert in Hk. rewrite (bool_decide_eq_false_2 _ Hnm) in Hk.
    destruct (services s !! (n0, sid0)) as [o|] eqn:Eo; [|contradiction Hk; reflexivity].
    case_bool_decide as Hon; [|contradiction Hk; reflexivity]. subst name.
    assert (Hdiff : sv_name o <> sv_name x) by congruence.
    assert (Hrem : svcs_named (sv_name o) (papply i (PSvcPut n0 sid0 x) s) =
                   svcs_named (sv_name o) (s <| dt; services ::= <[(n0, sid0) := x]> |>)).
    { apply svcs_named_dt. rewrite ES. reflexivity. }
    unfold Post. rewrite Hrem.
    destruct (decide (svcs_named (sv_name o) (s <| dt; services ::= <[(n0, sid0) := x]> |>) = ∅)) as [He|Hne'].
    + right. split; [exact He|]. rewrite !index_papply by exact HB. unfold papply_idx. cbn [set_keys del_keys].
      rewrite Eo. rewrite !(bool_decide_eq_false_2 _ Hdiff). rewrite !(bool_decide_eq_true_2 _ He). split.
      * rewrite bool_decide_eq_true_2; [reflexivity|apply elem_of_app; right; inl].
      * rewrite bool_decide_eq_false_2.
        2: { pose proof (k_svc_fixed (sv_name o)) as Hf. intros Hin.
             apply elem_of_app in Hin as [Hin|Hin].
             - apply elem_of_cons in Hin as [H|Hin]; [revert H; apply Hf; unfold fixed_keys; inl|].
               apply elem_of_cons in Hin as [H|Hin]; [apply k_svc_inj in H; contradiction|].
               apply elem_of_cons in Hin as [H|Hin]; [revert H; apply Hf; unfold fixed_keys; inl|].
               apply elem_of_list_singleton in Hin. revert Hin. apply k_svc_node.
             - apply elem_of_list_singleton in Hin. revert Hin. apply Hf. inl. }
        rewrite bool_decide_eq_true_2 by inl. reflexivity.
    + left. split; [|exact Hne']. apply Hidx. cbn [set_keys]. rewrite Eo. rewrite (bool_decide_eq_false_2 _ Hdiff).
      rewrite (bool_decide_eq_false_2 _ Hne'). apply elem_of_app; right; inl.
  - (* PSvcDel *)
    destruct (decide ((n, sid) = (n0, sid0))) as [Heq|Hneq].
    2: { exfalso. apply Hk. rewrite !svcs_named_lookup, ES, lookup_delete_ne by congruence.
         unfold checks_for. rewrite EC, EN. reflexivity. }
    injection Heq as -> ->.
    rewrite !svcs_named_lookup, ES, lookup_delete in Hk.
    destruct (services s !! (n0, sid0)) as [x|] eqn:Ex; [|contradiction Hk; reflexivity].
    case_bool_decide as Hnm; [|contradiction Hk; reflexivity]. subst name.
    assert (Hrem : svcs_named (sv_name x) (papply i (PSvcDel n0 sid0) s) =
                   svcs_named (sv_name x) (s <| dt; services ::= delete (n0, sid0) |>)).
    { apply svcs_named_dt. rewrite ES. reflexivity. }
    unfold Post. rewrite Hrem.
    destruct (decide (svcs_named (sv_name x) (s <| dt; services ::= delete (n0, sid0) |>) = ∅)) as [He|Hne'].
    + right. split; [exact He|]. rewrite !index_papply by exact HB. unfold papply_idx. cbn [set_keys del_keys].
      rewrite Ex. rewrite (bool_decide_eq_true_2 _ He). split.
      * rewrite bool_decide_eq_true_2; [reflexivity|apply elem_of_app; right; inl].
      * rewrite bool_decide_eq_false_2.
        2: { pose proof (k_svc_fixed (sv_name x)) as Hf. intros Hin.
             apply elem_of_app in Hin as [Hin|Hin].
             - apply elem_of_cons in Hin as [H|Hin]; [revert H; apply Hf; unfold fixed_keys; inl|].
               apply elem_of_cons in Hin as [H|Hin]; [revert H; apply Hf; unfold fixed_keys; inl|].
               apply elem_of_cons in Hin as [H|Hin]; [revert H; apply Hf; unfold fixed_keys; inl|].
               apply elem_of_list_singleton in Hin. revert Hin. apply k_svc_node.
             - apply elem_of_list_singleton in Hin. revert Hin. apply Hf. inl. }
        rewrite bool_decide_eq_true_2 by inl. reflexivity.
    + left. split; [|exact Hne']. apply Hidx. cbn [set_keys]. rewrite Ex. rewrite (bool_decide_eq_false_2 _ Hne').
      apply elem_of_app; right; inl.
  - (* PChkPut *)
    rewrite !svcs_named_lookup, ES in Hk.
    destruct (services s !! (n, sid)) as [sv|] eqn:Esv; [|contradiction Hk; reflexivity].
    case_bool_decide as En; [|contradiction Hk; reflexivity].
    apply (Hleft sv); [rewrite svcs_named_lookup, ES, Esv, bool_decide_eq_true_2 by exact En; reflexivity|].
    cbn [fmap option_fmap option_map] in Hk. rewrite EN in Hk.
    assert (Hcf : checks_for (papply i (PChkPut n0 cid x) s) n sid <> checks_for s n sid) by (intros Heq; apply Hk; rewrite Heq; reflexivity).
    destruct (map_neq_witness _ _ Hcf) as [[n' cid'] Hck]. rewrite !checks_for_lookup, EC in Hck. cbn [fst] in Hck.
    destruct (decide ((n', cid') = (n0, cid))) as [Heq|Hneq]; [|rewrite lookup_insert_ne in Hck by congruence; contradiction Hck; reflexivity].
    injection Heq as -> ->. rewrite lookup_insert in Hck.
    assert (Hn : n0 = n).
    { destruct (checks s !! (n0, cid)) as [o|]; repeat case_bool_decide; try tauto; contradiction Hck; reflexivity. }
    subst n0. cbn [set_keys].
    destruct (decide (c_svc x = "" \/ c_svc x = sid)) as [Hx|Hx].
    + (* the written row belongs to the instance: its own bump *)
      apply elem_of_list_further, elem_of_app. left.
      destruct (decide (c_svc x = "")) as [He|Hne'].
      * rewrite (bool_decide_eq_true_2 _ He). subst name. apply elem_of_list_fmap_1. exact (name_in_node_names _ _ _ _ Esv).
      * rewrite (bool_decide_eq_false_2 _ Hne'). destruct Hx as [|Hx]; [contradiction|].
        destruct (Hv Hne') as (sv' & Esv' & Hnm). rewrite Hx, Esv in Esv'. injection Esv' as <-.
        rewrite <- Hnm, En. inl.
    + (* only the replaced row belonged to it: the check leaves this instance *)
      rewrite (bool_decide_eq_false_2 (n = n /\ _)) in Hck by tauto.
      destruct (checks s !! (n, cid)) as [o|] eqn:Eo; [|contradiction Hck; reflexivity].
      case_bool_decide as Ho; [|contradiction Hck; reflexivity]. destruct Ho as [_ Ho].
      assert (Hd : c_svc o <> c_svc x) by (intros E; apply Hx; rewrite <- E; exact Ho).
      apply elem_of_list_further, elem_of_app. right. rewrite (bool_decide_eq_false_2 _ Hd).
      destruct (decide (c_svc o = "")) as [He|Hne'].
      * rewrite (bool_decide_eq_true_2 _ He). subst name. apply elem_of_list_fmap_1. exact (name_in_node_names _ _ _ _ Esv).
      * rewrite (bool_decide_eq_false_2 _ Hne'). destruct Ho as [|Ho]; [contradiction|].
        rewrite Ho, Esv. destruct (decide (sv_name sv = c_svcname o)) as [Hco|Hco].
        -- rewrite <- Hco, En. inl.
        -- rewrite (bool_decide_eq_false_2 _ Hco), En. inl.
  - (* PChkDel *)
    rewrite !svcs_named_lookup, ES in Hk.
    destruct (services s !! (n, sid)) as [sv|] eqn:Esv; [|contradiction Hk; reflexivity].
    case_bool_decide as En; [|contradiction Hk; reflexivity].
    apply (Hleft sv); [rewrite svcs_named_lookup, ES, Esv, bool_decide_eq_true_2 by exact En; reflexivity|].
    cbn [fmap option_fmap option_map] in Hk. rewrite EN in Hk.
    assert (Hcf : checks_for (papply i (PChkDel n0 cid) s) n sid <> checks_for s n sid) by (intros Heq; apply Hk; rewrite Heq; reflexivity).
    destruct (map_neq_witness _ _ Hcf) as [[n' cid'] Hck]. rewrite !checks_for_lookup, EC in Hck. cbn [fst] in Hck.
    destruct (decide ((n', cid') = (n0, cid))) as [Heq|Hneq]; [|rewrite lookup_delete_ne in Hck by congruence; contradiction Hck; reflexivity].
    injection Heq as -> ->. rewrite lookup_delete in Hck.
    destruct (checks s !! (n0, cid)) as [o|] eqn:Eo; [|contradiction Hck; reflexivity].
    case_bool_decide as Hb; [|contradiction Hck; reflexivity]. destruct Hb as [-> Hb].
    cbn [set_keys]. rewrite Eo.
    destruct (decide (c_svc o = "")) as [He|Hne'].
    + rewrite (bool_decide_eq_true_2 _ He). subst name. do 2 apply elem_of_list_further. apply elem_of_list_fmap_1.
      exact (name_in_node_names _ _ _ _ Esv).
    + rewrite (bool_decide_eq_false_2 _ Hne'). destruct Hb as [|Hb]; [contradiction|].
      rewrite Hb, Esv. destruct (decide (sv_name sv = c_svcname o)) as [Hco|Hco].
      * rewrite <- Hco, En. inl.
      * rewrite (bool_decide_eq_false_2 _ Hco), En. inl.
Qed.

Lemma J_same_named name s s' : J name s = J name s' -> svcs_named name s = svcs_named name s'.
Proof.
  intros HJ. apply map_eq. intros k.
  pose proof (f_equal (fun m => m !! k) HJ) as Hk. cbn beta in Hk. rewrite !J_lookup in Hk.
  destruct (svcs_named name s !! k), (svcs_named name s' !! k); cbn in Hk; congruence.
Qed.

Lemma sidx_unchanged i p s name wc :
  IdxBnd i s -> J name s = J name (papply i p s) -> sidx name wc s <= sidx name wc (papply i p s).
Proof.
  intros HB HJ. pose proof (J_same_named _ _ _ HJ) as Hsame.
  pose proof (sidx_le i name wc s HB) as Hle.
  assert (Hdel : k_svc name ∈ del_keys p s -> svcs_named name s <> ∅ /\ svcs_named name (papply i p s) = ∅).
  { intros Hin. destruct p; cbn in Hin; try (inversion Hin; fail).
    - apply elem_of_list_singleton in Hin. exfalso. revert Hin. apply k_svc_node.
    - destruct (services s !! (n, sid)) as [o|] eqn:Eo; [|inversion Hin].
      destruct (bool_decide (sv_name o = sv_name x)); [inversion Hin|].
      case_bool_decide as He; [|inversion Hin]. apply elem_of_list_singleton, k_svc_inj in Hin. subst name. split.
      + eapply (svcs_named_nonempty _ _ (n, sid) o). rewrite svcs_named_lookup, Eo, bool_decide_eq_true_2 by reflexivity. reflexivity.
      + rewrite <- He. apply svcs_named_dt. rewrite services_papply. reflexivity.
    - destruct (services s !! (n, sid)) as [x|] eqn:Ex; [|inversion Hin].
      case_bool_decide as He; [|inversion Hin]. apply elem_of_list_singleton, k_svc_inj in Hin. subst name. split.
      + eapply (svcs_named_nonempty _ _ (n, sid) x). rewrite svcs_named_lookup, Ex, bool_decide_eq_true_2 by reflexivity. reflexivity.
      + rewrite <- He. apply svcs_named_dt. rewrite services_papply. reflexivity. }
  unfold sidx in *. rewrite <- Hsame. unfold svc_index in *.
  assert (Hrow : forall k, k ∉ del_keys p s ->
            index (papply i p s) !! k = Some i \/ index (papply i p s) !! k = index s !! k).
  { intros k Hk. rewrite index_papply by exact HB. unfold papply_idx.
    case_bool_decide; [left; reflexivity|]. rewrite bool_decide_eq_false_2 by exact Hk. right; reflexivity. }
  assert (Hsvcrow : svcs_named name s <> ∅ \/ svcs_named name s = ∅ -> k_svc name ∉ del_keys p s).
  { intros _ Hin. destruct (Hdel Hin) as [H1 H2]. rewrite <- Hsame in H2. contradiction. }
  assert (Hnd : k_svc name ∉ del_keys p s) by (apply Hsvcrow; destruct (decide (svcs_named name s = ∅)); tauto).
  assert (Hsext : k_sext ∉ del_keys p s) by (apply del_keys_not_fixed; unfold fixed_keys; inl).
  pose proof (catalog_max_mono i p wc s HB) as Hcm.
  pose proof (catalog_max_le i wc s HB) as Hcl.
  assert (Hsv : (match index s !! k_svc name with Some v => (v, Some (k_svc name)) | None => (catalog_max wc s, None) end).1
                <= (match index (papply i p s) !! k_svc name with Some v => (v, Some (k_svc name))
                    | None => (catalog_max wc (papply i p s), None) end).1).
  { destruct (Hrow _ Hnd) as [-> | ->].
    - cbn. destruct (index s !! k_svc name) as [v|] eqn:E; cbn; [exact (HB _ _ E)|exact Hcl].
    - destruct (index s !! k_svc name); cbn; [lia|exact Hcm]. }
  destruct (nonempty (svcs_named name s)); [exact Hsv|].
  destruct (Hrow _ Hsext) as [-> | ->]; [cbn; exact Hle|].
  destruct (index s !! k_sext); [cbn; lia|exact Hsv].
Qed.

Lemma svc_changed i p s name wc q :
  IdxBnd i s -> pvalid i p s -> psafe p s -> svcq name wc q ->
  res q s <> res q (papply i p s) -> idx q (papply i p s) = i.
Proof.
  intros HB Hv Hs Hq Hc. rewrite (svcq_idx _ _ _ _ Hq). apply Post_sidx.
  apply J_changed; try assumption. intros HJ. apply Hc. eapply svcq_res; eassumption.
Qed.

Lemma svc_mono i p s name wc q :
  IdxBnd i s -> pvalid i p s -> psafe p s -> svcq name wc q ->
  idx q s <= idx q (papply i p s).
Proof.
  intros HB Hv Hs Hq. rewrite !(svcq_idx _ _ _ _ Hq).
  destruct (decide (J name s = J name (papply i p s))) as [HJ|HJ].
  - apply sidx_unchanged; assumption.
  - rewrite (Post_sidx _ _ _ _ (J_changed i p s name HB Hv Hs HJ)). apply sidx_le, HB.
Qed.
