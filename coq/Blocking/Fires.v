(* C06: a changed result is seen by the watch set the query registered.  For every query except
   the "optimised" CheckServiceNodes watch this is a fact about any two states (the watched radix
   nodes cover every row the result is computed from); the optimised watch is handled in Proofs.v
   through the index rows. *)
From stdpp Require Import gmap strings.
From RecordUpdate Require Import RecordSet.
From Coq Require Import NArith Lia.
From Verif Require Import Blocking.Model Blocking.Lemmas Blocking.Prims Blocking.Valid Blocking.Index
     Blocking.IndexKV Blocking.IndexCat.
Import RecordSetNotations.
Local Open Scope N_scope.

Lemma fires_intro W d w : w ∈ W -> fire1 d w = true -> fires W d = true.
Proof. intros Hin Hf. unfold fires. apply existsb_exists. exists w. split; [apply elem_of_list_In, Hin|exact Hf]. Qed.

Section generic.
  Context {K A : Type} `{Countable K} `{EqDecision A}.

  (* a filtered view differs: a row satisfying the filter (before or after) differs *)
  Lemma filter_neq_chg (P : K * A -> Prop) `{!forall x, Decision (P x)} (f : K -> A -> bool) (m m' : gmap K A) :
    (forall k x, P (k, x) -> f k x = true) ->
    filter P m <> filter P m' -> chg m m' f = true.
  Proof.
    intros Hf Hne. destruct (map_neq_witness _ _ Hne) as [k Hk].
    assert (Hd : m !! k <> m' !! k).
    { intros Heq. apply Hk.
      destruct (filter P m !! k) as [x|] eqn:E1.
      - apply map_filter_lookup_Some in E1 as [E1 HP]. symmetry. apply map_filter_lookup_Some.
        split; [rewrite <- Heq; exact E1|exact HP].
      - symmetry. apply map_filter_lookup_None. apply map_filter_lookup_None in E1 as [E1|E1].
        + left. rewrite <- Heq. exact E1.
        + right. intros x Hx. apply E1. rewrite Heq. exact Hx. }
    apply chg_true. exists k. split; [exact Hd|].
    destruct (filter P m !! k) as [x|] eqn:E1.
    - apply map_filter_lookup_Some in E1 as [E1 HP]. left. exists x. split; [exact E1|apply Hf, HP].
    - destruct (filter P m' !! k) as [x|] eqn:E2; [|congruence].
      apply map_filter_lookup_Some in E2 as [E2 HP]. right. exists x. split; [exact E2|apply Hf, HP].
  Qed.

  Lemma single_neq_chg (k : K) (m m' : gmap K A) :
    single k (m !! k) <> single k (m' !! k) -> chg m m' (fun k' _ => bool_decide (k' = k)) = true.
  Proof.
    intros Hne. apply (chg_at m m' _ k).
    - intros Heq. apply Hne. rewrite Heq. reflexivity.
    - intros x _. apply bool_decide_eq_true_2. reflexivity.
  Qed.
End generic.

Lemma RKV_neq a b : RKV a <> RKV b -> a <> b. Proof. intros H ->. apply H. reflexivity. Qed.

(* the watches of the rows of a service selection *)
Lemma node_watch_in {A} (m : gmap (string * string) A) n sid x :
  m !! (n, sid) = Some x -> WNodeKey n ∈ node_watches m.
Proof.
  intros Hm. unfold node_watches. apply elem_of_list_fmap. exists ((n, sid), x). split; [reflexivity|].
  apply elem_of_map_to_list. exact Hm.
Qed.
Lemma csn_row_watch_in {A} (m : gmap (string * string) A) n sid x w :
  m !! (n, sid) = Some x -> w ∈ [WNodeKey n; WChkNodeSvc n ""; WChkNodeSvc n sid] -> w ∈ csn_row_watches m.
Proof.
  intros Hm Hw. unfold csn_row_watches. apply elem_of_list_join.
  exists [WNodeKey n; WChkNodeSvc n ""; WChkNodeSvc n sid]. split; [exact Hw|].
  apply elem_of_list_fmap. exists ((n, sid), x). split; [reflexivity|].
  apply elem_of_map_to_list. exact Hm.
Qed.

Lemma checks_for_neq_fire (s s' : st) n sid :
  checks_for s n sid <> checks_for s' n sid ->
  fire1 (Delta s s') (WChkNodeSvc n "") = true \/ fire1 (Delta s s') (WChkNodeSvc n sid) = true.
Proof.
  intros Hne. destruct (map_neq_witness _ _ Hne) as [[n' cid] Hk]. rewrite !checks_for_lookup in Hk. cbn [fst] in Hk.
  assert (Hd : checks s !! (n', cid) <> checks s' !! (n', cid)).
  { intros Heq. apply Hk. rewrite Heq. reflexivity. }
  assert (Hsel : exists c, (checks s !! (n', cid) = Some c \/ checks s' !! (n', cid) = Some c) /\
                           n' = n /\ (c_svc c = "" \/ c_svc c = sid)).
  { destruct (checks s !! (n', cid)) as [c|] eqn:E1.
    - case_bool_decide as Hb; [exists c; split; [left; reflexivity|exact Hb]|].
      destruct (checks s' !! (n', cid)) as [c'|] eqn:E2; [|contradiction Hk; reflexivity].
      case_bool_decide as Hb'; [exists c'; split; [right; reflexivity|exact Hb']|contradiction Hk; reflexivity].
    - destruct (checks s' !! (n', cid)) as [c'|] eqn:E2; [|contradiction Hk; reflexivity].
      case_bool_decide as Hb'; [exists c'; split; [right; reflexivity|exact Hb']|contradiction Hk; reflexivity]. }
  destruct Hsel as (c & Hc & -> & Hsv).
  assert (Hgo : forall t, c_svc c = t -> fire1 (Delta s s') (WChkNodeSvc n t) = true).
  { intros t Ht. cbn [fire1 before after]. apply chg_true. exists (n, cid). split; [exact Hd|].
    destruct Hc as [Hc|Hc]; [left|right]; exists c; (split; [exact Hc|]); cbn;
      rewrite !bool_decide_eq_true_2 by first [reflexivity|assumption]; reflexivity. }
  destruct Hsv as [Hsv|Hsv]; [left|right]; apply Hgo, Hsv.
Qed.

(* ---------- which (query, state) pairs use the optimised watch ---------- *)
Definition csn_optimised (q : query) (s : st) : Prop :=
  match q with
  | QCSN name => svcs_named name s <> ∅ /\ is_Some (index s !! k_svc name)
  | _ => False
  end.

#[global] Instance csn_optimised_dec q s : Decision (csn_optimised q s).
Proof. destruct q; cbn; apply _. Defined.

Inductive okq : query -> Prop :=
| ok_tab q : tabq q -> okq q
| ok_kv q : kvq q -> okq q
| ok_ns n : okq (QNodeServices n)
| ok_svc name wc q : svcq name wc q -> okq q.

(* selections of service rows by name, optionally by tag *)
Definition selq (name : string) (tag : option string) (s : st) : gmap (string * string) svc :=
  match tag with
  | None => svcs_named name s
  | Some t => filter (fun kv : string * string * svc => has_tag t kv.2 = true) (svcs_named name s)
  end.
Lemma selq_lookup name tag s k :
  selq name tag s !! k =
  match services s !! k with
  | Some sv => if bool_decide (sv_name sv = name) && match tag with Some t => has_tag t sv | None => true end
               then Some sv else None
  | None => None
  end.
Proof.
  destruct tag as [t|]; cbn [selq].
  - rewrite tag_filter_lookup, svcs_named_lookup. destruct (services s !! k) as [sv|]; [|reflexivity].
    case_bool_decide; cbn; [destruct (has_tag t sv); reflexivity|reflexivity].
  - rewrite svcs_named_lookup. destruct (services s !! k) as [sv|]; [|reflexivity].
    case_bool_decide; reflexivity.
Qed.
Lemma selq_fire name tag (s s' : st) k :
  selq name tag s !! k <> selq name tag s' !! k -> fire1 (Delta s s') (WSvcName name) = true.
Proof.
  intros Hne. rewrite !selq_lookup in Hne. cbn [fire1 before after]. apply chg_true. exists k. split.
  - intros Heq. apply Hne. rewrite Heq. reflexivity.
  - destruct (services s !! k) as [sv|] eqn:E1.
    + destruct (bool_decide (sv_name sv = name)) eqn:En.
      * left. exists sv. split; [reflexivity|exact En].
      * cbn in Hne. destruct (services s' !! k) as [sv'|] eqn:E2; [|contradiction Hne; reflexivity].
        destruct (bool_decide (sv_name sv' = name)) eqn:En'; [|contradiction Hne; reflexivity].
        right. exists sv'. split; [reflexivity|exact En'].
    + destruct (services s' !! k) as [sv'|] eqn:E2; [|contradiction Hne; reflexivity].
      destruct (bool_decide (sv_name sv' = name)) eqn:En'; [|contradiction Hne; reflexivity].
      right. exists sv'. split; [reflexivity|exact En'].
Qed.

Lemma join_node_fire name tag (s s' : st) :
  join_node s (selq name tag s) <> join_node s' (selq name tag s') ->
  fires (WSvcName name :: node_watches (selq name tag s)) (Delta s s') = true.
Proof.
  intros Hne. destruct (map_neq_witness _ _ Hne) as [[n sid] Hk]. rewrite !join_node_lookup in Hk. cbn [fst] in Hk.
  destruct (decide (selq name tag s !! (n, sid) = selq name tag s' !! (n, sid))) as [Heq|Hd].
  - rewrite <- Heq in Hk. destruct (selq name tag s !! (n, sid)) as [sv|] eqn:E; [|contradiction Hk; reflexivity].
    cbn in Hk. apply (fires_intro _ _ (WNodeKey n)).
    + right. eapply node_watch_in, E.
    + cbn [fire1 before after]. apply (chg_at _ _ _ n).
      * intros Hn. apply Hk. rewrite Hn. reflexivity.
      * intros x _. apply bool_decide_eq_true_2. reflexivity.
  - apply (fires_intro _ _ (WSvcName name)); [left|eapply selq_fire, Hd].
Qed.

Lemma join_csn_fire name tag (s s' : st) :
  join_csn s (selq name tag s) <> join_csn s' (selq name tag s') ->
  fires (WSvcName name :: csn_row_watches (selq name tag s)) (Delta s s') = true.
Proof.
  intros Hne. destruct (map_neq_witness _ _ Hne) as [[n sid] Hk]. rewrite !join_csn_lookup in Hk. cbn [fst snd] in Hk.
  destruct (decide (selq name tag s !! (n, sid) = selq name tag s' !! (n, sid))) as [Heq|Hd].
  - rewrite <- Heq in Hk. destruct (selq name tag s !! (n, sid)) as [sv|] eqn:E; [|contradiction Hk; reflexivity].
    cbn in Hk.
    destruct (decide (nodes s !! n = nodes s' !! n)) as [Hn|Hn].
    + assert (Hc : checks_for s n sid <> checks_for s' n sid) by (intros Hc; apply Hk; rewrite Hn, Hc; reflexivity).
      destruct (checks_for_neq_fire _ _ _ _ Hc) as [Hf|Hf].
      * apply (fires_intro _ _ (WChkNodeSvc n "")); [right; eapply csn_row_watch_in; [exact E|inl]|exact Hf].
      * apply (fires_intro _ _ (WChkNodeSvc n sid)); [right; eapply csn_row_watch_in; [exact E|inl]|exact Hf].
    + apply (fires_intro _ _ (WNodeKey n)); [right; eapply csn_row_watch_in; [exact E|inl]|].
      cbn [fire1 before after]. apply (chg_at _ _ _ n); [exact Hn|].
      intros x _. apply bool_decide_eq_true_2. reflexivity.
  - apply (fires_intro _ _ (WSvcName name)); [left|eapply selq_fire, Hd].
Qed.

Theorem fires_pure q (s s' : st) :
  okq q -> ~ csn_optimised q s -> res q s <> res q s' -> fires (ws q s) (Delta s s') = true.
Proof.
  intros Hq Hopt Hc. destruct Hq as [q Hq|q Hq|n|name wc q Hq].
  - (* table queries *)
    destruct Hq; cbn [res ws] in *.
    + apply (fires_intro _ _ (WKVKey k)); [left|]. cbn [fire1 before after]. apply single_neq_chg. intros Heq; apply Hc; rewrite Heq; reflexivity.
    + apply (fires_intro _ _ (WSessKey id)); [left|]. cbn [fire1 before after]. apply single_neq_chg. intros Heq; apply Hc; rewrite Heq; reflexivity.
    + apply (fires_intro _ _ WSessAll); [left|]. cbn [fire1 before after]. apply chg_all. intros Heq; apply Hc; rewrite Heq; reflexivity.
    + apply (fires_intro _ _ (WSessNode n)); [left|]. cbn [fire1 before after].
      eapply (filter_neq_chg (fun kv : string * sess => ss_node kv.2 = n)).
      * intros k x Hx. apply bool_decide_eq_true_2, Hx.
      * intros Heq. apply Hc. unfold sessions_of_node. rewrite Heq. reflexivity.
    + apply (fires_intro _ _ WNodeAll); [left|]. cbn [fire1 before after]. apply chg_all. intros Heq; apply Hc; rewrite Heq; reflexivity.
    + apply (fires_intro _ _ WSvcAll); [left|]. cbn [fire1 before after]. apply chg_all. intros Heq; apply Hc; rewrite Heq; reflexivity.
    + apply (fires_intro _ _ WSvcAll); [left|]. cbn [fire1 before after]. apply chg_all. intros Heq; apply Hc; rewrite Heq; reflexivity.
    + apply (fires_intro _ _ (WChkNode n)); [left|]. cbn [fire1 before after].
      eapply (filter_neq_chg (fun kv : string * string * chk => kv.1.1 = n)).
      * intros k x Hx. apply bool_decide_eq_true_2, Hx.
      * intros Heq. apply Hc. unfold checks_of_node. rewrite Heq. reflexivity.
    + apply (fires_intro _ _ (WChkSvcName nm)); [left|]. cbn [fire1 before after].
      eapply (filter_neq_chg (fun kv : string * string * chk => c_svcname kv.2 = nm)).
      * intros k x Hx. apply bool_decide_eq_true_2, Hx.
      * intros Heq. apply Hc. rewrite Heq. reflexivity.
    + destruct o as [stt|]; cbn [res ws] in *.
      * apply (fires_intro _ _ (WChkStatus stt)); [left|]. cbn [fire1 before after].
        eapply (filter_neq_chg (fun kv : string * string * chk => c_status kv.2 = stt)).
        -- intros k x Hx. apply bool_decide_eq_true_2, Hx.
        -- intros Heq. apply Hc. rewrite Heq. reflexivity.
      * apply (fires_intro _ _ WChkAll); [left|]. cbn [fire1 before after]. apply chg_all. intros Heq; apply Hc; rewrite Heq; reflexivity.
    + apply (fires_intro _ _ WCoordAll); [left|]. cbn [fire1 before after]. apply chg_all. intros Heq; apply Hc; rewrite Heq; reflexivity.
    + apply (fires_intro _ _ (WCoordNode n)); [left|]. cbn [fire1 before after]. apply single_neq_chg. intros Heq; apply Hc; rewrite Heq; reflexivity.
    + apply (fires_intro _ _ (WCfgKey a b)); [left|]. cbn [fire1 before after].
      apply (chg_at _ _ _ (a, b)).
      * intros Heq. apply Hc. rewrite Heq. reflexivity.
      * intros x _. apply bool_decide_eq_true_2. reflexivity.
    + case_bool_decide as Ea.
      * apply (fires_intro _ _ WCfgAll); [right; left|]. cbn [fire1 before after]. apply chg_all. intros Heq; apply Hc; rewrite Heq; reflexivity.
      * apply (fires_intro _ _ (WCfgKind a)); [right; left|]. cbn [fire1 before after].
        eapply (filter_neq_chg (fun kv : string * string * gent => kv.1.1 = a)).
        -- intros k x Hx. apply bool_decide_eq_true_2, Hx.
        -- intros Heq. apply Hc. rewrite Heq. reflexivity.
    + apply (fires_intro _ _ WRootAll); [left|]. cbn [fire1 before after]. apply chg_all. intros Heq; apply Hc; rewrite Heq; reflexivity.
    + apply (fires_intro _ _ (WPQKey id)); [left|]. cbn [fire1 before after]. apply single_neq_chg. intros Heq; apply Hc; rewrite Heq; reflexivity.
    + apply (fires_intro _ _ WPQAll); [left|]. cbn [fire1 before after]. apply chg_all. intros Heq; apply Hc; rewrite Heq; reflexivity.
  - (* KV *)
    destruct Hq; cbn [res ws] in *.
    + apply (fires_intro _ _ (WKVKey k)); [left|]. cbn [fire1 before after]. apply single_neq_chg. intros Heq; apply Hc; rewrite Heq; reflexivity.
    + apply (fires_intro _ _ (WKVPrefix p)); [left|]. cbn [fire1 before after].
      eapply (filter_neq_chg (fun kv : string * kvent => has_prefix p kv.1 = true)).
      * intros k x Hx. exact Hx.
      * intros Heq. apply Hc. rewrite Heq. reflexivity.
    + apply (fires_intro _ _ (WKVPrefix p)); [left|]. cbn [fire1 before after].
      eapply (filter_neq_chg (fun kv : string * kvent => has_prefix p kv.1 = true)).
      * intros k x Hx. exact Hx.
      * intros Heq. apply Hc. rewrite Heq. reflexivity.
  - (* NodeServices *)
    cbn [res ws] in *.
    destruct (decide (nodes s !! n = nodes s' !! n)) as [Hn|Hn].
    + rewrite <- Hn in Hc. destruct (nodes s !! n) as [x|] eqn:En; [|contradiction Hc; reflexivity].
      apply (fires_intro _ _ (WSvcNode n)); [right; left|]. cbn [fire1 before after].
      eapply (filter_neq_chg (fun kv : string * string * svc => kv.1.1 = n)).
      * intros k y Hy. apply bool_decide_eq_true_2, Hy.
      * intros Heq. apply Hc. unfold svcs_of_node. rewrite Heq. reflexivity.
    + apply (fires_intro _ _ (WNodeKey n)); [destruct (nodes s !! n); left|].
      cbn [fire1 before after]. apply (chg_at _ _ _ n); [exact Hn|].
      intros x _. apply bool_decide_eq_true_2. reflexivity.
  - (* the service-name family *)
    destruct Hq; cbn [res ws] in *.
    + apply (join_node_fire name None). intros Heq. apply Hc. cbn [selq] in Heq. rewrite Heq. reflexivity.
    + apply (join_node_fire name (Some tag)). intros Heq. apply Hc. cbn [selq] in Heq. rewrite Heq. reflexivity.
    + (* CheckServiceNodes, not optimised *)
      cbn [csn_optimised] in Hopt. unfold csn_ws, nonempty.
      assert (HJ : join_csn s (selq name None s) <> join_csn s' (selq name None s'))
        by (intros Heq; apply Hc; cbn [selq] in Heq; rewrite Heq; reflexivity).
      case_bool_decide as He; cbn [negb].
      * (* empty result: the scan of the service index *)
        destruct (map_neq_witness _ _ HJ) as [k Hk]. rewrite !join_csn_lookup in Hk. cbn [selq] in Hk.
        rewrite He, lookup_empty in Hk. cbn in Hk.
        apply (fires_intro _ _ (WSvcName name)); [left|]. apply (selq_fire name None _ _ k). cbn [selq].
        rewrite He, lookup_empty. destruct (svcs_named name s' !! k); [discriminate|contradiction Hk; reflexivity].
      * rewrite names_of_named by exact He. cbn [omap forallb andb fmap list_fmap].
        unfold svc_index. cbn [fst snd].
        destruct (index s !! k_svc name) as [v|] eqn:Ei.
        { exfalso. apply Hopt. split; [exact He|eexists; reflexivity]. }
        cbn. rewrite ?Ei. cbn. pose proof (join_csn_fire name None s s' HJ) as Hf. cbn [selq] in Hf. exact Hf.
    + apply (join_csn_fire name (Some tag)). intros Heq. apply Hc. cbn [selq] in Heq. rewrite Heq. reflexivity.
Qed.
