(* C06: side conditions under which the primitives of a trace run (always true of the traces the
   verbs produce), the extra conditions that exclude the refuted classes, and the invariants
   they preserve. *)
From stdpp Require Import gmap strings sorting.
From RecordUpdate Require Import RecordSet.
From Coq Require Import NArith Lia.
From Verif Require Import Blocking.Model Blocking.Lemmas Blocking.Prims.
Import RecordSetNotations.
Local Open Scope N_scope.

(* ---------- conditions on one primitive ---------- *)
(* [pvalid]: holds of every primitive a verb emits, in the state it is emitted in *)
Definition pvalid (i : N) (p : prim) (s : st) : Prop :=
  match p with
  | PKvPut _ e => kv_modify e = i
  | PNodeDel n => svcs_of_node n s = ∅
  | PSvcPut n _ _ => is_Some (nodes s !! n)
  | PChkPut n _ x =>
    c_svc x <> "" -> exists sv, services s !! (n, c_svc x) = Some sv /\ sv_name sv = c_svcname x
  | PReap _ => False                       (* only the Reap command runs it; never inside a write *)
  | _ => True
  end.

(* [psafe]: since 77429de no primitive needs a side condition for the health views: a check that
   leaves its service bumps both the name its row carries and the service's current name.  The
   predicate is kept (trivial) so that the statements of the earlier rounds still read the same. *)
Definition psafe (p : prim) (s : st) : Prop := True.

(* [pkeep]: the primitive keeps the checks' stored service names current: a registration does not
   rename a service id in place (its checks would keep the old name) *)
Definition pkeep (p : prim) (s : st) : Prop :=
  match p with
  | PSvcPut n sid x =>
    (forall o, services s !! (n, sid) = Some o -> sv_name o = sv_name x) /\
    (forall cid c, checks s !! (n, cid) = Some c -> c_svc c = sid -> c_svcname c = sv_name x)
  | _ => True
  end.

Fixpoint Valid (i : N) (ps : list prim) (s : st) : Prop :=
  match ps with
  | [] => True
  | p :: ps' => pvalid i p s /\ Valid i ps' (papply i p s)
  end.
Fixpoint Safe (i : N) (ps : list prim) (s : st) : Prop :=
  match ps with
  | [] => True
  | p :: ps' => psafe p s /\ Safe i ps' (papply i p s)
  end.
Lemma Safe_all i ps s : Safe i ps s.
Proof. revert s. induction ps as [|p ps IH]; intros s; [exact I|split; [exact I|apply IH]]. Qed.
Fixpoint Keep (i : N) (ps : list prim) (s : st) : Prop :=
  match ps with
  | [] => True
  | p :: ps' => pkeep p s /\ Keep i ps' (papply i p s)
  end.

Lemma prun_app i a b s : prun i (a ++ b) s = prun i b (prun i a s).
Proof. unfold prun. apply foldl_app. Qed.
Lemma prun_cons i p ps s : prun i (p :: ps) s = prun i ps (papply i p s).
Proof. reflexivity. Qed.

Lemma Valid_app i a b s : Valid i (a ++ b) s <-> Valid i a s /\ Valid i b (prun i a s).
Proof.
  revert s. induction a as [|p a IH]; intros s; cbn [Valid app].
  - cbn. tauto.
  - rewrite IH, prun_cons. tauto.
Qed.
Lemma Keep_app i a b s : Keep i (a ++ b) s <-> Keep i a s /\ Keep i b (prun i a s).
Proof.
  revert s. induction a as [|p a IH]; intros s; cbn [Keep app].
  - cbn. tauto.
  - rewrite IH, prun_cons. tauto.
Qed.
Lemma Safe_app i a b s : Safe i (a ++ b) s <-> Safe i a s /\ Safe i b (prun i a s).
Proof.
  revert s. induction a as [|p a IH]; intros s; cbn [Safe app].
  - cbn. tauto.
  - rewrite IH, prun_cons. tauto.
Qed.

(* ---------- the coherence invariant ---------- *)
(* a check attached to a service carries the name under which that service is registered *)
Definition Coherent (s : st) : Prop :=
  forall n cid x sv, checks s !! (n, cid) = Some x -> c_svc x <> "" ->
                     services s !! (n, c_svc x) = Some sv -> sv_name sv = c_svcname x.

Lemma Coherent_st0 : Coherent st0.
Proof. intros n cid x sv H. cbn in H. rewrite lookup_empty in H. discriminate. Qed.

Lemma Coherent_papply i p s :
  Coherent s -> pvalid i p s -> pkeep p s -> Coherent (papply i p s).
Proof.
  intros HC Hv Hs n cid x sv. rewrite checks_papply, services_papply.
  destruct p; try (apply HC).
  - (* PSvcPut *) intros Hx Hne Hsv. destruct Hs as [Hs1 Hs2].
    apply lookup_insert_Some in Hsv as [[Heq <-]|[Hneq Hsv]].
    + injection Heq as -> Heq. symmetry. eapply Hs2; [exact Hx|symmetry; exact Heq].
    + eapply HC; eassumption.
  - (* PSvcDel *) intros Hx Hne Hsv. apply lookup_delete_Some in Hsv as [_ Hsv]. eapply HC; eassumption.
  - (* PChkPut *) intros Hx Hne Hsv.
    apply lookup_insert_Some in Hx as [[Heq <-]|[Hneq Hx]].
    + injection Heq as -> ->. destruct (Hv Hne) as (sv' & Hsv' & Hnm). congruence.
    + eapply HC; eassumption.
  - (* PChkDel *) intros Hx Hne Hsv. apply lookup_delete_Some in Hx as [_ Hx]. eapply HC; eassumption.
Qed.

(* ---------- the bound is preserved ---------- *)
Lemma IdxBnd_papply i p s : IdxBnd i s -> IdxBnd i (papply i p s).
Proof.
  intros HB k v. rewrite index_papply by exact HB. unfold papply_idx.
  repeat case_bool_decide; intros Hk; [injection Hk as <-; lia|discriminate|exact (HB _ _ Hk)].
Qed.

Lemma Bnd_papply' i p s :
  Bnd i s -> (forall k e, p = PKvPut k e -> kv_modify e = i) -> Bnd i (papply i p s).
Proof.
  intros [H1 H2 H3] Hv. split.
  - apply IdxBnd_papply, H1.
  - intros k e. rewrite kvs_papply. destruct p; cbn [kvs_after]; try (apply H2).
    + intros Hk. apply lookup_insert_Some in Hk as [[_ <-]|[_ Hk]]; [rewrite (Hv _ _ eq_refl); lia|exact (H2 _ _ Hk)].
    + intros Hk. apply lookup_delete_Some in Hk as [_ Hk]. exact (H2 _ _ Hk).
    + intros Hk. apply map_filter_lookup_Some in Hk as [Hk _]. exact (H2 _ _ Hk).
    + intros Hk. apply lookup_fmap_Some in Hk as (e0 & <- & Hk).
      case_bool_decide; cbn; [lia|exact (H2 _ _ Hk)].
    + intros Hk. apply map_filter_lookup_Some in Hk as [Hk _]. exact (H2 _ _ Hk).
  - intros k v. rewrite tombs_papply. destruct p; cbn [tombs_after]; try (apply H3).
    + intros Hk. apply lookup_insert_Some in Hk as [[_ <-]|[_ Hk]]; [lia|exact (H3 _ _ Hk)].
    + case_bool_decide.
      * intros Hk. apply map_filter_lookup_Some in Hk as [Hk _]. exact (H3 _ _ Hk).
      * intros Hk. apply lookup_insert_Some in Hk as [[_ <-]|[_ Hk]]; [lia|].
        apply map_filter_lookup_Some in Hk as [Hk _]. exact (H3 _ _ Hk).
    + intros Hk. apply lookup_union_Some_raw in Hk as [Hk|[_ Hk]]; [|exact (H3 _ _ Hk)].
      apply lookup_fmap_Some in Hk as (e0 & <- & _). lia.
    + intros Hk. apply map_filter_lookup_Some in Hk as [Hk _]. exact (H3 _ _ Hk).
Qed.

Lemma Bnd_papply i p s : Bnd i s -> pvalid i p s -> Bnd i (papply i p s).
Proof. intros HB Hv. apply Bnd_papply'; [exact HB|]. intros k e ->. exact Hv. Qed.

Lemma Bnd_prun i ps s : Bnd i s -> Valid i ps s -> Bnd i (prun i ps s).
Proof.
  revert s. induction ps as [|p ps IH]; intros s HB HV; [exact HB|].
  destruct HV as [Hp HV]. rewrite prun_cons. apply IH; [apply Bnd_papply; assumption|exact HV].
Qed.
Lemma Coherent_psafe p s : Coherent s -> psafe p s.
Proof. intros _. exact I. Qed.

Lemma Coherent_prun i ps s : Coherent s -> Valid i ps s -> Keep i ps s -> Coherent (prun i ps s).
Proof.
  revert s. induction ps as [|p ps IH]; intros s HC HV HS; [exact HC|].
  destruct HV as [Hp HV], HS as [Hq HS]. rewrite prun_cons.
  apply IH; [eapply Coherent_papply; eassumption|exact HV|exact HS].
Qed.

(* along a trace that keeps the names current, coherence of the start state makes every step safe *)
Lemma Safe_of_Coherent i ps s : Coherent s -> Valid i ps s -> Keep i ps s -> Safe i ps s.
Proof.
  revert s. induction ps as [|p ps IH]; intros s HC HV HK; [exact I|].
  destruct HV as [Hp HV], HK as [Hk HK]. split; [apply Coherent_psafe, HC|].
  apply IH; [eapply Coherent_papply; eassumption|exact HV|exact HK].
Qed.

(* ---------- traces without service / check primitives leave those tables alone ---------- *)
Definition svc_free (p : prim) : Prop := match p with PSvcPut _ _ _ | PSvcDel _ _ => False | _ => True end.
Definition chk_free (p : prim) : Prop := match p with PChkPut _ _ _ | PChkDel _ _ => False | _ => True end.
Definition node_free (p : prim) : Prop := match p with PNodePut _ _ | PNodeDel _ => False | _ => True end.

Lemma services_prun_free i ps s : Forall svc_free ps -> services (prun i ps s) = services s.
Proof.
  revert s. induction ps as [|p ps IH]; intros s HF; [reflexivity|].
  apply Forall_cons in HF as [Hp HF]. rewrite prun_cons, IH by exact HF.
  rewrite services_papply. destruct p; try reflexivity; contradiction.
Qed.
Lemma checks_prun_free i ps s : Forall chk_free ps -> checks (prun i ps s) = checks s.
Proof.
  revert s. induction ps as [|p ps IH]; intros s HF; [reflexivity|].
  apply Forall_cons in HF as [Hp HF]. rewrite prun_cons, IH by exact HF.
  rewrite checks_papply. destruct p; try reflexivity; contradiction.
Qed.
Lemma nodes_prun_free i ps s : Forall node_free ps -> nodes (prun i ps s) = nodes s.
Proof.
  revert s. induction ps as [|p ps IH]; intros s HF; [reflexivity|].
  apply Forall_cons in HF as [Hp HF]. rewrite prun_cons, IH by exact HF.
  rewrite nodes_papply. destruct p; try reflexivity; contradiction.
Qed.

(* primitives that are valid and safe in every state *)
Definition easy (p : prim) : Prop :=
  match p with
  | PKvPut _ _ | PNodeDel _ | PSvcPut _ _ _ | PChkPut _ _ _ | PReap _ => False
  | _ => True
  end.
Lemma easy_valid i ps s : Forall easy ps -> Valid i ps s /\ Safe i ps s.
Proof.
  revert s. induction ps as [|p ps IH]; intros s HF; [split; exact I|].
  apply Forall_cons in HF as [Hp HF]. destruct (IH (papply i p s) HF) as [IV IS].
  split; (split; [destruct p; try exact I; contradiction|assumption]).
Qed.

(* ---------- the traces of the verbs ---------- *)
Section traces.
  Context (i : N).

  Lemma seq_all_Forall {A} (P : prim -> Prop) (f : A -> st -> steps) l s :
    (forall x s', Forall P (f x s')) -> Forall P (seq_all i f l s).
  Proof.
    intros Hf. revert s. induction l as [|x l IH]; intros s; cbn [seq_all]; [constructor|].
    unfold seq. apply Forall_app. split; [apply Hf|apply IH].
  Qed.

  Lemma delete_session_easy sid s : Forall easy (delete_session i sid s).
  Proof.
    unfold delete_session. destruct (sessions s !! sid) as [x|]; [|constructor].
    apply Forall_app. split; [repeat constructor|]. apply Forall_app. split.
    - destruct (bool_decide _); [constructor|]. destruct (ss_del x); repeat constructor.
    - apply Forall_fmap, Forall_forall. intros; exact I.
  Qed.
  Lemma delete_sessions_easy {A} (g : A -> string) (l : list A) s :
    Forall easy (seq_all i (fun x => delete_session i (g x)) l s).
  Proof. apply seq_all_Forall. intros. apply delete_session_easy. Qed.

  Lemma delete_check_easy n cid s : Forall easy (delete_check i n cid s).
  Proof.
    unfold delete_check. destruct (checks s !! (n, cid)); [|constructor].
    unfold seq. apply Forall_app. split; [repeat constructor|].
    apply (delete_sessions_easy (fun x => x)).
  Qed.
  Lemma delete_service_easy n sid s : Forall easy (delete_service i n sid s).
  Proof.
    unfold delete_service. destruct (services s !! (n, sid)); [|constructor].
    unfold seq. apply Forall_app. split; [|repeat constructor].
    apply seq_all_Forall. intros. apply delete_check_easy.
  Qed.

  Lemma easy_weaken (P : prim -> Prop) ps : (forall p, easy p -> P p) -> Forall easy ps -> Forall P ps.
  Proof. intros HP HF. eapply Forall_impl; [exact HF|exact HP]. Qed.
End traces.

(* primitives that change no catalog data (index rows, sessions, keys, prepared queries) *)
Definition light (p : prim) : Prop :=
  match p with
  | PSessDel _ | PKvDelSess _ | PKvRelease _ | PPqDel _ | PBumpSvc _ | PBumpNodeSvcs _ | PCoordDel _ => True
  | _ => False
  end.
Lemma light_easy p : light p -> easy p. Proof. destruct p; cbn; tauto. Qed.
Lemma light_svc_free p : light p -> svc_free p. Proof. destruct p; cbn; tauto. Qed.
Lemma light_chk_free p : light p -> chk_free p. Proof. destruct p; cbn; tauto. Qed.
Lemma light_node_free p : light p -> node_free p. Proof. destruct p; cbn; tauto. Qed.

Section traces2.
  Context (i : N).

  Lemma delete_session_light sid s : Forall light (delete_session i sid s).
  Proof.
    unfold delete_session. destruct (sessions s !! sid) as [x|]; [|constructor].
    apply Forall_app. split; [repeat constructor|]. apply Forall_app. split.
    - destruct (bool_decide _); [constructor|]. destruct (ss_del x); repeat constructor.
    - apply Forall_fmap, Forall_forall. intros; exact I.
  Qed.
  Lemma delete_sessions_light {A} (g : A -> string) (l : list A) s :
    Forall light (seq_all i (fun x => delete_session i (g x)) l s).
  Proof. apply seq_all_Forall. intros. apply delete_session_light. Qed.

  (* deleteCheckTxn removes exactly its row from the checks and leaves services and nodes alone *)
  Lemma delete_check_svc_free n cid s : Forall svc_free (delete_check i n cid s).
  Proof.
    unfold delete_check. destruct (checks s !! (n, cid)); [|constructor].
    unfold seq. apply Forall_app. split; [repeat constructor|].
    eapply Forall_impl; [apply (delete_sessions_light (fun x => x))|apply light_svc_free].
  Qed.
  Lemma delete_check_node_free n cid s : Forall node_free (delete_check i n cid s).
  Proof.
    unfold delete_check. destruct (checks s !! (n, cid)); [|constructor].
    unfold seq. apply Forall_app. split; [repeat constructor|].
    eapply Forall_impl; [apply (delete_sessions_light (fun x => x))|apply light_node_free].
  Qed.

  Lemma services_delete_service n sid s :
    services (prun i (delete_service i n sid s) s) = delete (n, sid) (services s).
  Proof.
    unfold delete_service. destruct (services s !! (n, sid)) eqn:E.
    2: { cbn. symmetry. apply delete_notin. exact E. }
    unfold seq. rewrite prun_app. cbn [prun foldl]. rewrite services_papply.
    rewrite services_prun_free; [reflexivity|].
    apply seq_all_Forall. intros. apply delete_check_svc_free.
  Qed.
  Lemma nodes_delete_service n sid s : nodes (prun i (delete_service i n sid s) s) = nodes s.
  Proof.
    unfold delete_service. destruct (services s !! (n, sid)) eqn:E; [|reflexivity].
    unfold seq. rewrite prun_app. cbn [prun foldl]. rewrite nodes_papply.
    apply nodes_prun_free. apply seq_all_Forall. intros. apply delete_check_node_free.
  Qed.

  Lemma services_delete_loop n (l : list (string * string * svc)) s key :
    services (prun i (seq_all i (fun kv => delete_service i n kv.1.2) l s) s) !! key =
    if bool_decide (key ∈ (fun kv : string * string * svc => (n, kv.1.2)) <$> l) then None else services s !! key.
  Proof.
    revert s. induction l as [|kv l IH]; intros s; cbn [seq_all].
    - cbn. rewrite bool_decide_eq_false_2; [reflexivity|]. intros H; inversion H.
    - unfold seq. rewrite prun_app, IH, services_delete_service. cbn [fmap list_fmap].
      destruct (decide (key = (n, kv.1.2))) as [->|Hne].
      + rewrite (bool_decide_eq_true_2 (_ ∈ _ :: _)) by left.
        case_bool_decide; [reflexivity|apply lookup_delete].
      + rewrite lookup_delete_ne by congruence.
        rewrite (bool_decide_ext (key ∈ (n, kv.1.2) :: _) (key ∈ (fun kv0 : string * string * svc => (n, kv0.1.2)) <$> l));
          [reflexivity|]. rewrite elem_of_cons. tauto.
  Qed.

  Lemma Valid_seq a b s : Valid i a s -> Valid i (b (prun i a s)) (prun i a s) -> Valid i (seq i a b s) s.
  Proof. intros Ha Hb. unfold seq. apply Valid_app. split; assumption. Qed.
  Lemma Safe_seq a b s : Safe i a s -> Safe i (b (prun i a s)) (prun i a s) -> Safe i (seq i a b s) s.
  Proof. intros Ha Hb. unfold seq. apply Safe_app. split; assumption. Qed.
  Lemma easy_Valid ps t : Forall easy ps -> Valid i ps t.
  Proof. intros HF. apply (easy_valid i ps t HF). Qed.
  Lemma easy_Safe ps t : Forall easy ps -> Safe i ps t.
  Proof. intros HF. apply (easy_valid i ps t HF). Qed.

  Lemma delete_node_valid n s : Valid i (delete_node i n s) s.
  Proof.
    unfold delete_node. destruct (nodes s !! n) as [x|] eqn:En; [|exact I].
    apply Valid_seq. { apply easy_Valid. apply Forall_fmap, Forall_forall. intros; exact I. }
    set (s1 := prun i (PBumpSvc <$> names_of (svcs_of_node n s)) s).
    apply Valid_seq. { apply easy_Valid. apply seq_all_Forall. intros. apply delete_service_easy. }
    set (a2 := seq_all i (fun kv : string * string * svc => delete_service i n kv.1.2) (svcs_in_id_order n s1) s1).
    set (s2 := prun i a2 s1).
    apply Valid_seq. { apply easy_Valid. apply seq_all_Forall. intros. apply delete_check_easy. }
    set (a3 := seq_all i (fun kv : string * string * chk => delete_check i n kv.1.2) (map_to_list (checks_of_node n s2)) s2).
    set (s3 := prun i a3 s2).
    apply Valid_seq. { apply easy_Valid. destruct (coords s3 !! n); repeat constructor. }
    set (a4 := match coords s3 !! n with Some _ => [PCoordDel n] | None => [] end).
    set (s4 := prun i a4 s3).
    apply Valid_seq.
    - (* the node row goes only after its last service *)
      split; [|exact I].
      cbn [pvalid]. apply map_eq. intros key. rewrite lookup_empty.
      change (svcs_of_node n s4 !! key = None).
      apply map_filter_lookup_None. right. intros sv Hsv Hkn.
      assert (Hs4 : services s4 = services s2).
      { subst s4 s3. rewrite services_prun_free.
        2: { subst a4. destruct (coords _ !! n); repeat constructor. }
        apply services_prun_free. apply seq_all_Forall. intros. apply delete_check_svc_free. }
      rewrite Hs4 in Hsv. subst s2 a2. rewrite services_delete_loop in Hsv.
      case_bool_decide as Hin; [discriminate|]. apply Hin.
      apply elem_of_list_fmap. exists (key, sv). split.
      + destruct key as [kn ks]. cbn in Hkn. subst kn. reflexivity.
      + unfold svcs_in_id_order. rewrite merge_sort_Permutation.
        apply elem_of_map_to_list. apply map_filter_lookup_Some. split; [exact Hsv|exact Hkn].
    - apply easy_Valid. eapply Forall_impl; [apply (delete_sessions_light (fun kv : string * sess => kv.1))|apply light_easy].
  Qed.
End traces2.

(* ---------- commands: what excludes the refuted classes, stated on (command, state) ---------- *)
Definition svc_safe (n : string) (sp : svcspec) (s : st) : Prop :=
  (forall o, services s !! (n, sp_id sp) = Some o -> sv_name o = sp_name sp) /\
  (forall cid c, checks s !! (n, cid) = Some c -> c_svc c = sp_id sp -> c_svcname c = sp_name sp).
(* the one combination left out: a registration that renames its service id AND carries checks (the
   checks of the renamed service keep the old name until they are written, and one of them might be
   moved by the same request) *)
Definition safe_cmd (c : cmd) (s : st) : Prop :=
  match c with
  | Register n _ (Some sp) cks => cks = [] \/ svc_safe n sp s
  | _ => True
  end.
(* writes that keep the checks' stored names current: no service id is registered under another name *)
Definition rename_free (c : cmd) (s : st) : Prop :=
  match c with
  | EnsureSvc n sp | Register n _ (Some sp) _ => svc_safe n sp s
  | _ => True
  end.

Definition chk_other (n cid : string) (p : prim) : Prop :=
  match p with
  | PChkPut n' c' _ | PChkDel n' c' => (n', c') <> (n, cid)
  | _ => True
  end.
Lemma checks_prun_other i n cid ps s :
  Forall (chk_other n cid) ps -> checks (prun i ps s) !! (n, cid) = checks s !! (n, cid).
Proof.
  revert s. induction ps as [|p ps IH]; intros s HF; [reflexivity|].
  apply Forall_cons in HF as [Hp HF]. rewrite prun_cons, IH by exact HF.
  rewrite checks_papply. destruct p; try reflexivity; cbn in Hp.
  - apply lookup_insert_ne. exact Hp.
  - apply lookup_delete_ne. exact Hp.
Qed.
Lemma light_chk_other n cid p : light p -> chk_other n cid p.
Proof. destruct p; cbn; tauto. Qed.

Definition always_safe (p : prim) : Prop :=
  match p with PSvcPut _ _ _ | PChkPut _ _ _ => False | _ => True end.
Lemma always_safe_Safe i ps s : Forall always_safe ps -> Safe i ps s.
Proof.
  revert s. induction ps as [|p ps IH]; intros s HF; [exact I|].
  apply Forall_cons in HF as [Hp HF]. split; [destruct p; try exact I; contradiction|apply IH, HF].
Qed.
Lemma easy_always_safe p : easy p -> always_safe p.
Proof. destruct p; cbn; tauto. Qed.
Lemma always_safe_Keep i ps s : Forall always_safe ps -> Keep i ps s.
Proof.
  revert s. induction ps as [|p ps IH]; intros s HF; [exact I|].
  apply Forall_cons in HF as [Hp HF]. split; [destruct p; try exact I; contradiction|apply IH, HF].
Qed.
Lemma easy_Keep i ps s : Forall easy ps -> Keep i ps s.
Proof. intros HF. apply always_safe_Keep. eapply Forall_impl; [exact HF|apply easy_always_safe]. Qed.
Lemma svc_free_Keep i ps s : Forall svc_free ps -> Keep i ps s.
Proof.
  revert s. induction ps as [|p ps IH]; intros s HF; [exact I|].
  apply Forall_cons in HF as [Hp HF]. split; [destruct p; try exact I; contradiction|apply IH, HF].
Qed.

Section traces3.
  Context (i : N).

  Lemma kvs_set_ok k v f se lk upd s t :
    Valid i (kvs_set i k v f se lk upd s) t /\ Safe i (kvs_set i k v f se lk upd s) t.
  Proof.
    unfold kvs_set. destruct (kvs s !! k) as [x|]; [destruct (kv_same _ _)|]; cbn; unfold psafe; tauto.
  Qed.

  Lemma ensure_check_shape n cs s ps :
    ensure_check i n cs s = Some ps ->
    exists a b hc, ps = a ++ b /\ Forall light a /\
                   (b = [] \/ (b = [PChkPut n (cs_id cs) hc] /\ c_svc hc = cs_svc cs /\
                               (cs_svc cs <> "" -> exists sv, services s !! (n, cs_svc cs) = Some sv /\ sv_name sv = c_svcname hc))).
  Proof.
    unfold ensure_check. destruct (nodes s !! n); [|discriminate].
    set (ex := checks s !! (n, cs_id cs)).
    set (create := match ex with Some x => c_create x | None => i end).
    destruct (bool_decide (cs_svc cs = "")) eqn:Esvc.
    - intros [= <-]. unfold seq.
      eexists _, _, (Chk (cs_status cs) (cs_svc cs) "" [] (cs_output cs) create i).
      split; [rewrite app_assoc; reflexivity|]. split.
      + apply Forall_app. split.
        * destruct (match ex with Some _ => _ | None => true end); repeat constructor.
        * destruct (bool_decide (cs_status cs = 2)); [apply (delete_sessions_light i (fun x => x))|constructor].
      + destruct (match ex with Some _ => _ | None => true end); [right|left; reflexivity].
        split; [reflexivity|]. split; [reflexivity|]. apply bool_decide_eq_true in Esvc. intros; contradiction.
    - destruct (services s !! (n, cs_svc cs)) as [sv|] eqn:Esv; [|discriminate].
      intros [= <-]. unfold seq.
      eexists _, _, (Chk (cs_status cs) (cs_svc cs) (sv_name sv) (sv_tags sv) (cs_output cs) create i).
      split; [rewrite app_assoc; reflexivity|]. split.
      + apply Forall_app. split.
        * destruct (match ex with Some _ => _ | None => true end); repeat constructor.
        * destruct (bool_decide (cs_status cs = 2)); [apply (delete_sessions_light i (fun x => x))|constructor].
      + destruct (match ex with Some _ => _ | None => true end); [right|left; reflexivity].
        split; [reflexivity|]. split; [reflexivity|]. intros _. exists sv. split; reflexivity.
  Qed.

  Lemma ensure_check_ok n cs s ps :
    ensure_check i n cs s = Some ps ->
    Valid i ps s /\ (Coherent s -> Safe i ps s) /\
    (forall cid, cid <> cs_id cs -> Forall (chk_other n cid) ps) /\ Forall svc_free ps /\ Forall node_free ps.
  Proof.
    intros H. destruct (ensure_check_shape _ _ _ _ H) as (a & b & hc & -> & Ha & Hb).
    assert (Hsv : services (prun i a s) = services s)
      by (apply services_prun_free; eapply Forall_impl; [exact Ha|apply light_svc_free]).
    assert (Hck : checks (prun i a s) = checks s)
      by (apply checks_prun_free; eapply Forall_impl; [exact Ha|apply light_chk_free]).
    repeat split.
    - apply Valid_app. split; [apply easy_Valid; eapply Forall_impl; [exact Ha|apply light_easy]|].
      destruct Hb as [->|(-> & Hc & Hs)]; [exact I|]. split; [|exact I].
      cbn [pvalid]. rewrite Hsv, Hc. exact Hs.
    - intros HC. apply Safe_app. split; [apply easy_Safe; eapply Forall_impl; [exact Ha|apply light_easy]|].
      apply Safe_all.
    - intros cid Hne. apply Forall_app. split; [eapply Forall_impl; [exact Ha|apply light_chk_other]|].
      destruct Hb as [->|(-> & _)]; repeat constructor. cbn. congruence.
    - apply Forall_app. split; [eapply Forall_impl; [exact Ha|apply light_svc_free]|].
      destruct Hb as [->|(-> & _)]; repeat constructor.
    - apply Forall_app. split; [eapply Forall_impl; [exact Ha|apply light_node_free]|].
      destruct Hb as [->|(-> & _)]; repeat constructor.
  Qed.

  Lemma ensure_service_ok n sp s ps :
    ensure_service i n sp s = Some ps ->
    Valid i ps s /\ Safe i ps s /\ (svc_safe n sp s -> Keep i ps s) /\ Forall chk_free ps /\ Forall node_free ps.
  Proof.
    unfold ensure_service. destruct (nodes s !! n) as [x|] eqn:En; [|discriminate].
    assert (Hput : forall c, let y := Svc (sp_name sp) (sp_proxy sp) (sp_dest sp) (sp_native sp) (sp_tags sp) (sp_port sp) c i in
              Valid i [PSvcPut n (sp_id sp) y] s /\ Safe i [PSvcPut n (sp_id sp) y] s /\
              (svc_safe n sp s -> Keep i [PSvcPut n (sp_id sp) y] s) /\
              Forall chk_free [PSvcPut n (sp_id sp) y] /\ Forall node_free [PSvcPut n (sp_id sp) y]).
    { intros c y. split; [|split; [|split; [|split]]].
      - split; [|exact I]. cbn. rewrite En. eexists; reflexivity.
      - split; exact I.
      - intros [H1 H2]. split; [|exact I]. split; cbn; assumption.
      - repeat constructor.
      - repeat constructor. }
    destruct (services s !! (n, sp_id sp)) as [o|] eqn:Eo; [destruct (same_service o sp)|];
      intros [= <-]; try apply Hput.
    split; [exact I|]. split; [exact I|]. split; [intros; exact I|]. split; constructor.
  Qed.

  Lemma ensure_node_ok n addr s (t : st) :
    Forall easy (ensure_node i n addr s) /\ Forall svc_free (ensure_node i n addr s) /\
    Forall chk_free (ensure_node i n addr s).
  Proof.
    unfold ensure_node. destruct (nodes s !! n); [destruct (bool_decide _)|]; repeat split; repeat constructor.
  Qed.

  Lemma checks_loop_ok n cks s ps :
    oseq_all i (fun cs => ensure_check i n cs) cks s = Some ps ->
    Valid i ps s /\ (Coherent s -> Safe i ps s) /\ Keep i ps s.
  Proof.
    revert s ps. induction cks as [|cs cks IH]; intros s ps; cbn [oseq_all].
    - intros [= <-]. split; [exact I|]. split; [intros; exact I|exact I].
    - unfold oseq. destruct (ensure_check i n cs s) as [pa|] eqn:Ea; [|discriminate].
      destruct (oseq_all i _ cks (prun i pa s)) as [pb|] eqn:Eb; [|discriminate].
      intros [= <-]. destruct (ensure_check_ok _ _ _ _ Ea) as (Va & Sa & _ & Fa & _).
      destruct (IH _ _ Eb) as (Vb & Sb & Kb).
      assert (Ka : Keep i pa s) by (apply svc_free_Keep, Fa).
      split; [apply Valid_app; split; assumption|]. split.
      + intros HC. apply Safe_app. split; [apply Sa, HC|]. apply Sb. apply Coherent_prun; assumption.
      + apply Keep_app. split; assumption.
  Qed.

  Lemma trace_ok c s ps :
    trace i c s = Some ps -> (forall u, c <> Reap u) ->
    Valid i ps s /\ (Coherent s -> safe_cmd c s -> Safe i ps s) /\ (rename_free c s -> Keep i ps s).
  Proof.
    intros Ht Hreap.
    assert (E : forall l t, Forall easy l ->
                Valid i l t /\ (Coherent s -> safe_cmd c s -> Safe i l t) /\ (rename_free c s -> Keep i l t)).
    { intros l t Hl. split; [apply easy_Valid, Hl|]. split; [intros _ _; apply easy_Safe, Hl|intros _; apply easy_Keep, Hl]. }
    assert (KV : forall k v f se lk u t, let l := kvs_set i k v f se lk u s in
                Valid i l t /\ (Coherent s -> safe_cmd c s -> Safe i l t) /\ (rename_free c s -> Keep i l t)).
    { intros k v f se lk u t l. destruct (kvs_set_ok k v f se lk u s t) as [V S]. split; [exact V|]. split; [intros _ _; exact S|].
      intros _. apply svc_free_Keep. subst l. unfold kvs_set. destruct (kvs s !! k); [destruct (kv_same _ _)|]; repeat constructor. }
    assert (N0 : Valid i [] s /\ (Coherent s -> safe_cmd c s -> Safe i [] s) /\ (rename_free c s -> Keep i [] s))
      by (split; [exact I|split; intros; exact I]).
    destruct c; cbn [trace] in Ht.
    - injection Ht as <-. apply KV.
    - injection Ht as <-. apply E. unfold kvs_delete. destruct (kvs s !! k); repeat constructor.
    - injection Ht as <-. apply E. unfold kvs_delete_tree. destruct (bool_decide _); repeat constructor.
    - injection Ht as <-. unfold kvs_set_cas.
      destruct (kvs s !! k) as [x|]; repeat (destruct (bool_decide _)); try exact N0; apply KV.
    - injection Ht as <-. apply E. unfold kvs_delete_cas. destruct (kvs s !! k); [destruct (bool_decide _)|]; repeat constructor.
    - injection Ht as <-. unfold kvs_lock. destruct (bool_decide (sid = "")); [exact N0|].
      destruct (sessions s !! sid); [|exact N0].
      destruct (kvs s !! k) as [x|]; repeat (destruct (bool_decide _)); try exact N0; apply KV.
    - injection Ht as <-. unfold kvs_unlock. destruct (bool_decide (sid = "")); [exact N0|].
      destruct (kvs s !! k) as [x|]; repeat (destruct (bool_decide _)); try exact N0; apply KV.
    - exfalso. eapply Hreap. reflexivity.
    - unfold session_create in Ht. destruct (nodes s !! n); [|discriminate].
      destruct (forallb _ _); [|discriminate]. injection Ht as <-. apply E. repeat constructor.
    - injection Ht as <-. apply E. apply delete_session_easy.
    - injection Ht as <-. apply E. apply (ensure_node_ok n addr s s).
    - destruct (ensure_service_ok _ _ _ _ Ht) as (V & S & K & _). split; [exact V|]. split; [intros _ _; exact S|exact K].
    - destruct (ensure_check_ok _ _ _ _ Ht) as (V & S & _ & F & _). split; [exact V|].
      split; [intros HC _; apply S, HC|intros _; apply svc_free_Keep, F].
    - (* Register *)
      unfold oseq in Ht.
      set (pa := ensure_node i n addr s) in *. set (s1 := prun i pa s) in *.
      destruct (ensure_node_ok n addr s s) as (Ea & Fa & Ca).
      destruct (match sp with Some sp0 => ensure_service i n sp0 s1 | None => Some [] end) as [pb|] eqn:Eb; [|discriminate].
      set (s2 := prun i pb s1) in *.
      destruct (oseq_all i _ cks s2) as [pc|] eqn:Ec; [|discriminate].
      injection Ht as <-.
      assert (Hs1 : services s1 = services s) by (apply services_prun_free; exact Fa).
      assert (Hc1 : checks s1 = checks s) by (apply checks_prun_free; exact Ca).
      destruct (checks_loop_ok _ _ _ _ Ec) as (Vc & Sc & Kc).
      assert (Hb : Valid i pb s1 /\ Safe i pb s1 /\
                   (match sp with Some sp0 => svc_safe n sp0 s1 | None => True end -> Keep i pb s1)).
      { destruct sp as [sp0|].
        - destruct (ensure_service_ok _ _ _ _ Eb) as (V & S & K & _). repeat split; assumption.
        - injection Eb as <-. repeat split; try exact I. }
      destruct Hb as (Vb & Sb & Kb).
      assert (Hsafe1 : forall sp0, sp = Some sp0 -> svc_safe n sp0 s -> svc_safe n sp0 s1).
      { intros sp0 _ H. unfold svc_safe in *. rewrite Hs1, Hc1. exact H. }
      assert (HC1 : Coherent s -> Coherent s1) by (intros HC; apply Coherent_prun; [exact HC|apply easy_Valid, Ea|apply easy_Keep, Ea]).
      split; [|split].
      + apply Valid_app. split; [apply easy_Valid, Ea|]. apply Valid_app. split; [exact Vb|exact Vc].
      + intros HC Hs. apply Safe_app. split; [apply easy_Safe, Ea|].
        apply Safe_app. split; [exact Sb|].
        destruct sp as [sp0|].
        * destruct Hs as [->|Hs].
          -- cbn in Ec. injection Ec as <-. exact I.
          -- apply Sc. apply Coherent_prun; [apply HC1, HC|exact Vb|apply Kb, (Hsafe1 sp0 eq_refl Hs)].
        * apply Sc. apply Coherent_prun; [apply HC1, HC|exact Vb|apply Kb; exact I].
      + intros Hr. apply Keep_app. split; [apply easy_Keep, Ea|]. apply Keep_app. split; [|exact Kc].
        apply Kb. destruct sp as [sp0|]; [exact (Hsafe1 sp0 eq_refl Hr)|exact I].
    - injection Ht as <-. split; [apply delete_node_valid|].
      assert (HA : Forall always_safe (delete_node i n s)).
      { unfold delete_node. destruct (nodes s !! n); [|constructor]. unfold seq.
        repeat (apply Forall_app; split); try (repeat constructor).
        + apply Forall_fmap, Forall_forall. intros; exact I.
        + apply seq_all_Forall. intros. eapply Forall_impl; [apply delete_service_easy|apply easy_always_safe].
        + apply seq_all_Forall. intros. eapply Forall_impl; [apply delete_check_easy|apply easy_always_safe].
        + destruct (coords _ !! n); repeat constructor.
        + eapply Forall_impl; [apply (delete_sessions_light i (fun kv : string * sess => kv.1))|].
          intros p Hp. apply easy_always_safe, light_easy, Hp. }
      split; [intros _ _; apply always_safe_Safe, HA|intros _; apply always_safe_Keep, HA].
    - injection Ht as <-. apply E. apply delete_service_easy.
    - injection Ht as <-. apply E. apply delete_check_easy.
    - destruct (nodes s !! n); injection Ht as <-; apply E; repeat constructor.
    - injection Ht as <-. apply E. repeat constructor.
    - destruct (cfgs s !! (kind, name)); injection Ht as <-; apply E; repeat constructor.
    - destruct (_ || _); [|discriminate]. injection Ht as <-. apply E. repeat constructor.
    - destruct (pqs s !! id); injection Ht as <-; apply E; repeat constructor.
    - destruct (bool_decide _); [|injection Ht as <-; apply E; constructor].
      destruct rs; [discriminate|]. injection Ht as <-. apply E. repeat constructor.
  Qed.
End traces3.

(* ---------- only the delete-tree command runs the delete-tree primitive ---------- *)
Definition notree (p : prim) : Prop := match p with PKvDelTree _ => False | _ => True end.
Lemma light_notree p : light p -> notree p. Proof. destruct p; cbn; tauto. Qed.

Section traces4.
  Context (i : N).
  Lemma kvs_set_notree k v f se lk upd s : Forall notree (kvs_set i k v f se lk upd s).
  Proof. unfold kvs_set. destruct (kvs s !! k); [destruct (kv_same _ _)|]; repeat constructor. Qed.
  Lemma delete_session_notree sid s : Forall notree (delete_session i sid s).
  Proof. eapply Forall_impl; [apply delete_session_light|apply light_notree]. Qed.
  Lemma delete_check_notree n cid s : Forall notree (delete_check i n cid s).
  Proof.
    unfold delete_check. destruct (checks s !! (n, cid)); [|constructor].
    unfold seq. apply Forall_app. split; [repeat constructor|].
    apply seq_all_Forall. intros. apply delete_session_notree.
  Qed.
  Lemma delete_service_notree n sid s : Forall notree (delete_service i n sid s).
  Proof.
    unfold delete_service. destruct (services s !! (n, sid)); [|constructor].
    unfold seq. apply Forall_app. split; [|repeat constructor].
    apply seq_all_Forall. intros. apply delete_check_notree.
  Qed.
  Lemma ensure_check_notree n cs s ps : ensure_check i n cs s = Some ps -> Forall notree ps.
  Proof.
    intros H. destruct (ensure_check_shape i _ _ _ _ H) as (a & b & hc & -> & Ha & Hb).
    apply Forall_app. split; [eapply Forall_impl; [exact Ha|apply light_notree]|].
    destruct Hb as [->|(-> & _)]; repeat constructor.
  Qed.
  Lemma checks_loop_notree n cks s ps :
    oseq_all i (fun cs => ensure_check i n cs) cks s = Some ps -> Forall notree ps.
  Proof.
    revert s ps. induction cks as [|cs cks IH]; intros s ps; cbn [oseq_all].
    - intros [= <-]. constructor.
    - unfold oseq. destruct (ensure_check i n cs s) as [pa|] eqn:Ea; [|discriminate].
      destruct (oseq_all i _ cks (prun i pa s)) as [pb|] eqn:Eb; [|discriminate].
      intros [= <-]. apply Forall_app. split; [eapply ensure_check_notree, Ea|eapply IH, Eb].
  Qed.

  Lemma trace_notree c s ps :
    trace i c s = Some ps -> (forall p', c <> KVDeleteTree p') -> Forall notree ps.
  Proof.
    intros Ht Hc. destruct c; cbn [trace] in Ht.
    - injection Ht as <-. apply kvs_set_notree.
    - injection Ht as <-. unfold kvs_delete. destruct (kvs s !! k); repeat constructor.
    - exfalso. eapply Hc. reflexivity.
    - injection Ht as <-. unfold kvs_set_cas.
      destruct (kvs s !! k); repeat (destruct (bool_decide _)); try constructor; apply kvs_set_notree.
    - injection Ht as <-. unfold kvs_delete_cas. destruct (kvs s !! k); [destruct (bool_decide _)|]; repeat constructor.
    - injection Ht as <-. unfold kvs_lock. destruct (bool_decide (sid = "")); [constructor|].
      destruct (sessions s !! sid); [|constructor].
      destruct (kvs s !! k); repeat (destruct (bool_decide _)); try constructor; apply kvs_set_notree.
    - injection Ht as <-. unfold kvs_unlock. destruct (bool_decide (sid = "")); [constructor|].
      destruct (kvs s !! k); repeat (destruct (bool_decide _)); try constructor; apply kvs_set_notree.
    - injection Ht as <-. repeat constructor.
    - unfold session_create in Ht. destruct (nodes s !! n); [|discriminate].
      destruct (forallb _ _); [|discriminate]. injection Ht as <-. repeat constructor.
    - injection Ht as <-. apply delete_session_notree.
    - injection Ht as <-. unfold ensure_node. destruct (nodes s !! n); [destruct (bool_decide _)|]; repeat constructor.
    - unfold ensure_service in Ht. destruct (nodes s !! n); [|discriminate].
      destruct (services s !! _); [destruct (same_service _ _)|]; injection Ht as <-; repeat constructor.
    - eapply ensure_check_notree, Ht.
    - unfold oseq in Ht.
      destruct (match sp with Some sp0 => ensure_service i n sp0 _ | None => Some [] end) as [pb|] eqn:Eb; [|discriminate].
      destruct (oseq_all i _ cks _) as [pc|] eqn:Ec; [|discriminate]. injection Ht as <-.
      apply Forall_app. split.
      { unfold ensure_node. destruct (nodes s !! n); [destruct (bool_decide _)|]; repeat constructor. }
      apply Forall_app. split; [|eapply checks_loop_notree, Ec].
      destruct sp as [sp0|]; [|injection Eb as <-; constructor].
      unfold ensure_service in Eb. destruct (nodes _ !! n); [|discriminate].
      destruct (services _ !! _); [destruct (same_service _ _)|]; injection Eb as <-; repeat constructor.
    - injection Ht as <-. unfold delete_node. destruct (nodes s !! n); [|constructor]. unfold seq.
      repeat (apply Forall_app; split); try (repeat constructor).
      + apply Forall_fmap, Forall_forall. intros; exact I.
      + apply seq_all_Forall. intros. apply delete_service_notree.
      + apply seq_all_Forall. intros. apply delete_check_notree.
      + destruct (coords _ !! n); repeat constructor.
      + apply seq_all_Forall. intros. apply delete_session_notree.
    - injection Ht as <-. apply delete_service_notree.
    - injection Ht as <-. apply delete_check_notree.
    - destruct (nodes s !! n); injection Ht as <-; repeat constructor.
    - injection Ht as <-. repeat constructor.
    - destruct (cfgs s !! (kind, name)); injection Ht as <-; repeat constructor.
    - destruct (_ || _); [|discriminate]. injection Ht as <-. repeat constructor.
    - destruct (pqs s !! id); injection Ht as <-; repeat constructor.
    - destruct (bool_decide _); [|injection Ht as <-; constructor].
      destruct rs; [discriminate|]. injection Ht as <-. repeat constructor.
  Qed.
End traces4.
