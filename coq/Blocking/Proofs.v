(* C06: the contract over whole writes and over reachable states; the blocking loop. *)
From stdpp Require Import gmap strings.
From RecordUpdate Require Import RecordSet.
From Coq Require Import NArith Lia.
From Verif Require Import Blocking.Model Blocking.Lemmas Blocking.Prims Blocking.Valid Blocking.Index
     Blocking.IndexKV Blocking.IndexCat Blocking.Fires.
Import RecordSetNotations.
Local Open Scope N_scope.

(* ---------- one primitive, any query of the proved families ---------- *)
Lemma okq_idx_le i s q : Bnd i s -> okq q -> idx q s <= i.
Proof.
  intros HBnd Hq. pose proof (bnd_index _ _ HBnd) as HB. destruct Hq as [q Hq|q Hq|n|name wc q Hq].
  - destruct Hq; cbn [idx]; unfold kv_table_max, imax; cbn [foldr];
      repeat (apply N.max_lub); try lia; apply iget_le, HB.
  - apply kv_idx_le; assumption.
  - cbn [idx]. destruct (nodes s !! n); apply iget_le, HB.
  - rewrite (svcq_idx _ _ _ _ Hq). apply sidx_le, HB.
Qed.

Lemma prim_mono i p s q :
  Bnd i s -> pvalid i p s -> psafe p s -> okq q ->
  idx q s <= idx q (papply i p s).
Proof.
  intros HBnd Hv Hs Hq. pose proof (bnd_index _ _ HBnd) as HB. destruct Hq as [q Hq|q Hq|n|name wc q Hq].
  - apply tab_mono; assumption.
  - apply kv_mono; assumption.
  - apply node_services_mono; assumption.
  - eapply svc_mono; eassumption.
Qed.

Lemma prim_changed i p s q :
  Bnd i s -> pvalid i p s -> psafe p s -> okq q ->
  res q s <> res q (papply i p s) -> i <= idx q (papply i p s).
Proof.
  intros HBnd Hv Hs Hq Hc. pose proof (bnd_index _ _ HBnd) as HB. destruct Hq as [q Hq|q Hq|n|name wc q Hq].
  - rewrite (tab_changed i p s q HB Hq Hc). lia.
  - apply kv_changed; assumption.
  - rewrite (node_services_changed i p s n HB Hv Hc). lia.
  - rewrite (svc_changed i p s name wc q HB Hv Hs Hq Hc). lia.
Qed.

(* ---------- a whole trace ---------- *)
Lemma run_mono i ps s q :
  Bnd i s -> Valid i ps s -> Safe i ps s -> okq q -> idx q s <= idx q (prun i ps s).
Proof.
  revert s. induction ps as [|p ps IH]; intros s HBnd HV HS Hq; [cbn; lia|].
  destruct HV as [Hv HV], HS as [Hs HS]. rewrite prun_cons.
  etransitivity; [apply (prim_mono i p s q); assumption|].
  apply IH; try assumption. apply Bnd_papply; assumption.
Qed.

Lemma run_changed i ps s q :
  Bnd i s -> Valid i ps s -> Safe i ps s -> okq q ->
  res q s <> res q (prun i ps s) -> i <= idx q (prun i ps s).
Proof.
  revert s. induction ps as [|p ps IH]; intros s HBnd HV HS Hq Hc; [contradiction Hc; reflexivity|].
  destruct HV as [Hv HV], HS as [Hs HS]. rewrite prun_cons in *.
  assert (HBnd1 : Bnd i (papply i p s)) by (apply Bnd_papply; assumption).
  destruct (decide (res q s = res q (papply i p s))) as [Heq|Hne].
  - apply IH; try assumption. rewrite <- Heq. exact Hc.
  - etransitivity; [apply (prim_changed i p s q); assumption|]. apply run_mono; assumption.
Qed.

(* the service.<name> row once the family's join changed: rewritten at i, or gone *)
Definition FreshRow (i : N) (k : string) (s : st) : Prop := index s !! k = Some i \/ index s !! k = None.

Lemma FreshRow_papply i p s k : IdxBnd i s -> FreshRow i k s -> FreshRow i k (papply i p s).
Proof.
  intros HB HF. unfold FreshRow. rewrite index_papply by exact HB. unfold papply_idx.
  repeat case_bool_decide; [left; reflexivity|right; reflexivity|exact HF].
Qed.
Lemma FreshRow_prun i ps s k : Bnd i s -> Valid i ps s -> FreshRow i k s -> FreshRow i k (prun i ps s).
Proof.
  revert s. induction ps as [|p ps IH]; intros s HBnd HV HF; [exact HF|].
  destruct HV as [Hv HV]. rewrite prun_cons. apply IH; [apply Bnd_papply; assumption|exact HV|].
  apply FreshRow_papply; [apply HBnd|exact HF].
Qed.

Lemma run_fresh i ps s name :
  Bnd i s -> Valid i ps s -> Safe i ps s ->
  J name s <> J name (prun i ps s) -> FreshRow i (k_svc name) (prun i ps s).
Proof.
  revert s. induction ps as [|p ps IH]; intros s HBnd HV HS Hc; [contradiction Hc; reflexivity|].
  destruct HV as [Hv HV], HS as [Hs HS]. rewrite prun_cons in *.
  assert (HBnd1 : Bnd i (papply i p s)) by (apply Bnd_papply; assumption).
  destruct (decide (J name s = J name (papply i p s))) as [Heq|Hne].
  - apply IH; try assumption. rewrite <- Heq. exact Hc.
  - apply FreshRow_prun; try assumption.
    destruct (J_changed i p s name (bnd_index _ _ HBnd) Hv Hs Hne) as [[Hi _]|(_ & _ & Hn)]; [left|right]; assumption.
Qed.

Lemma reap_dec c : {u | c = Reap u} + {forall u, c <> Reap u}.
Proof. destruct c; try (right; intros u; discriminate). left. eexists; reflexivity. Qed.
Lemma deltree_dec c : {p | c = KVDeleteTree p} + {forall p, c <> KVDeleteTree p}.
Proof. destruct c; try (right; intros u; discriminate). left. eexists; reflexivity. Qed.

(* ---------- reachable states ---------- *)
Inductive Reach : N -> st -> Prop :=
| Reach0 : Reach 0 st0
| ReachS hi s i c : Reach hi s -> hi < i -> Reach i (apply i c s).

Lemma Bnd_st0 : Bnd 0 st0.
Proof. split; intros k v H; cbn in H; rewrite lookup_empty in H; discriminate. Qed.

Lemma Bnd_apply i c s : Bnd i s -> Bnd i (apply i c s).
Proof.
  intros HBnd. unfold apply. destruct (trace i c s) as [ps|] eqn:Et; [|exact HBnd].
  destruct (reap_dec c) as [[u ->]|Hr].
  - cbn in Et. injection Et as <-. cbn [prun foldl]. apply Bnd_papply'; [exact HBnd|]. intros k e H. discriminate.
  - apply Bnd_prun; [exact HBnd|]. exact (proj1 (trace_ok i c s ps Et Hr)).
Qed.

Lemma Reach_Bnd hi s : Reach hi s -> Bnd hi s.
Proof.
  induction 1 as [|hi s i c HR IH Hlt]; [exact Bnd_st0|].
  apply Bnd_apply. eapply Bnd_mono; [|exact IH]. lia.
Qed.

(* writes that register no service id under another name keep the catalog coherent *)
Lemma Coherent_apply i c s : Coherent s -> rename_free c s -> Coherent (apply i c s).
Proof.
  intros HC Hs. unfold apply. destruct (trace i c s) as [ps|] eqn:Et; [|exact HC].
  destruct (reap_dec c) as [[u ->]|Hr].
  - cbn in Et. injection Et as <-. cbn [prun foldl].
    intros n cid x sv. rewrite checks_papply, services_papply. apply HC.
  - destruct (trace_ok i c s ps Et Hr) as (HV & _ & HK). apply Coherent_prun; [exact HC|exact HV|apply HK, Hs].
Qed.

(* ---------- the queries of the proved families ---------- *)
Definition safe_query (q : query) : Prop := okq q.

Lemma res_reap i u s q : res q (papply i (PReap u) s) = res q s.
Proof. destruct q; reflexivity. Qed.

(* ---------- the theorems ---------- *)
Theorem never_missed_index hi s i c q :
  Reach hi s -> hi < i -> safe_query q ->
  res q (apply i c s) <> res q s -> idx q s < idx q (apply i c s).
Proof.
  intros HR Hlt Hq Hc.
  pose proof (Reach_Bnd _ _ HR) as HBhi.
  assert (HBnd : Bnd i s) by (eapply Bnd_mono; [|exact HBhi]; lia).
  pose proof (okq_idx_le hi s q HBhi Hq) as Hle.
  unfold apply in *. destruct (trace i c s) as [ps|] eqn:Et; [|contradiction Hc; reflexivity].
  destruct (reap_dec c) as [[u ->]|Hr].
  { cbn in Et. injection Et as <-. cbn [prun foldl] in Hc. rewrite res_reap in Hc. contradiction Hc; reflexivity. }
  destruct (trace_ok i c s ps Et Hr) as (HV & _).
  pose proof (run_changed i ps s q HBnd HV (Safe_all _ _ _) Hq) as H.
  assert (i <= idx q (prun i ps s)) by (apply H; intros Heq; apply Hc; rewrite Heq; reflexivity). lia.
Qed.

Theorem never_missed_fires hi s i c q :
  Reach hi s -> hi < i -> safe_query q ->
  res q (apply i c s) <> res q s -> fires (ws q s) (touched i c s) = true.
Proof.
  intros HR Hlt Hq Hc. unfold touched.
  destruct (decide (csn_optimised q s)) as [Hopt|Hopt].
  2: { apply fires_pure; [exact Hq|exact Hopt|]. intros Heq. apply Hc. rewrite Heq. reflexivity. }
  (* the optimised CheckServiceNodes watch: only the service.<name> row *)
  destruct q; try contradiction. destruct Hopt as [Hne [v Hv]].
  pose proof (Reach_Bnd _ _ HR) as HBhi.
  assert (HBnd : Bnd i s) by (eapply Bnd_mono; [|exact HBhi]; lia).
  assert (Hws : ws (QCSN name) s = [WIdx (k_svc name)]).
  { cbn [ws]. unfold csn_ws, nonempty. rewrite bool_decide_eq_false_2 by exact Hne. cbn [negb].
    rewrite names_of_named by exact Hne. cbn [omap forallb andb fmap list_fmap].
    unfold svc_index. cbn. rewrite Hv. cbn. reflexivity. }
  rewrite Hws. unfold fires. cbn [existsb fire1 before after]. rewrite orb_false_r.
  apply negb_true_iff, bool_decide_eq_false. rewrite Hv.
  unfold apply in *. destruct (trace i c s) as [ps|] eqn:Et; [|contradiction Hc; reflexivity].
  destruct (reap_dec c) as [[u ->]|Hr].
  { cbn in Et. injection Et as <-. cbn [prun foldl] in Hc. rewrite res_reap in Hc. contradiction Hc; reflexivity. }
  destruct (trace_ok i c s ps Et Hr) as (HV & _).
  assert (HJ : J name s <> J name (prun i ps s)).
  { intros HJ. apply Hc. symmetry. eapply (svcq_res name true); [constructor|exact HJ]. }
  pose proof (bnd_index _ _ HBhi _ _ Hv) as Hvle.
  destruct (run_fresh i ps s name HBnd HV (Safe_all _ _ _) HJ) as [Hf|Hf]; rewrite Hf; [|discriminate].
  intros Heq. injection Heq as ->. lia.
Qed.

Theorem monotone_index hi s i c q :
  Reach hi s -> hi < i -> safe_query q -> (forall u, c <> Reap u) ->
  idx q s <= idx q (apply i c s).
Proof.
  intros HR Hlt Hq Hr.
  pose proof (Reach_Bnd _ _ HR) as HBhi.
  assert (HBnd : Bnd i s) by (eapply Bnd_mono; [|exact HBhi]; lia).
  unfold apply. destruct (trace i c s) as [ps|] eqn:Et; [|lia].
  destruct (trace_ok i c s ps Et Hr) as (HV & _).
  apply run_mono; try assumption. apply Safe_all.
Qed.

Theorem nonzero_reported q s : 1 <= reported q s.
Proof. unfold reported. lia. Qed.

(* ---------- the loop ---------- *)
(* the effective minimum is the requested one or the floored index of an earlier round that
   answered with a sentinel error *)
Inductive min_source (min : N) (rounds : list (N * qerr * wake)) : N -> Prop :=
| ms_req : min_source min rounds min
| ms_round j raw e w : rounds !! j = Some (raw, e, w) -> e <> ENone -> min_source min rounds (N.max 1 raw).

Lemma loop_exits ls rounds :
  match loop ls rounds with
  | XIndex i => exists m, (m = l_min ls \/ exists j raw e w, rounds !! j = Some (raw, e, w) /\ e <> ENone /\ m = N.max 1 raw) /\ m < i
  | XNonBlocking _ => False
  | _ => True
  end.
Proof.
  revert ls. induction rounds as [|[[raw e] w] rounds IH]; intros ls; cbn [loop]; [exact I|].
  unfold round_step.
  set (i := N.max 1 raw).
  set (min' := match e with ENotFound => if l_notfound ls then i else l_min ls
                       | ENotChanged => if l_ranonce ls then i else l_min ls | ENone => l_min ls end).
  cbn [l_min]. case_bool_decide as Hlt.
  - exists min'. split; [|exact Hlt]. subst min'.
    destruct e; [left; reflexivity| |].
    + destruct (l_notfound ls); [right; exists 0%nat, raw, ENotFound, w; repeat split; discriminate|left; reflexivity].
    + destruct (l_ranonce ls); [right; exists 0%nat, raw, ENotChanged, w; repeat split; discriminate|left; reflexivity].
  - destruct w; try exact I.
    specialize (IH (LS min' (l_notfound ls || match e with ENotFound => true | _ => false end) true)).
    destruct (loop _ rounds) as [i'| | | |]; try exact IH.
    destruct IH as (m & Hm & Hlt'). exists m. split; [|exact Hlt'].
    cbn [l_min] in Hm. destruct Hm as [->|(j & raw' & e' & w' & Hj & He & ->)].
    + subst min'. destruct e; [left; reflexivity| |].
      * destruct (l_notfound ls); [right; exists 0%nat, raw, ENotFound, Fired; repeat split; discriminate|left; reflexivity].
      * destruct (l_ranonce ls); [right; exists 0%nat, raw, ENotChanged, Fired; repeat split; discriminate|left; reflexivity].
    + right. exists (S j), raw', e', w'. repeat split; assumption.
Qed.

Theorem loop_contract min rounds i :
  min <> 0 -> blocking_query min rounds = XIndex i -> exists m, min_source min rounds m /\ m < i.
Proof.
  intros Hmin. unfold blocking_query. rewrite bool_decide_eq_false_2 by exact Hmin. intros Hl.
  pose proof (loop_exits (LS min false false) rounds) as H. rewrite Hl in H.
  destruct H as (m & [->|(j & raw & e & w & Hj & He & ->)] & Hlt).
  - exists min. split; [constructor|exact Hlt].
  - exists (N.max 1 raw). split; [econstructor; eassumption|exact Hlt].
Qed.

(* every other way out of a blocking call is the timeout or the abandon channel; a non-blocking call
   answers at once *)
Theorem loop_exit_kinds min rounds :
  match blocking_query min rounds with
  | XIndex _ | XTimeout _ | XAbandon _ => min <> 0
  | XNonBlocking _ => min = 0
  | XStuck => True
  end.
Proof.
  unfold blocking_query. case_bool_decide as Hm.
  - destruct rounds as [|[[raw e] w] rounds]; [exact I|exact Hm].
  - pose proof (loop_exits (LS min false false) rounds) as H.
    destruct (loop _ rounds); try exact Hm; try exact I. contradiction.
Qed.

(* a query blocked on the index of the old result is woken and returns the new index *)
Theorem blocked_query_returns q s s' w rest :
  reported q s < reported q s' ->
  loop (LS (reported q s) false false) ((idx q s, ENone, Fired) :: (idx q s', ENone, w) :: rest)
  = XIndex (reported q s').
Proof.
  intros Hlt. unfold reported in *. cbn [loop round_step l_min l_notfound l_ranonce].
  rewrite bool_decide_eq_false_2 by lia. cbn [loop round_step l_min l_notfound l_ranonce orb].
  rewrite bool_decide_eq_true_2 by lia. reflexivity.
Qed.

(* with the floor: Raft never hands index 1 to a client write *)
Theorem never_missed_reported hi s i c q :
  Reach hi s -> hi < i -> 1 < i -> safe_query q ->
  res q (apply i c s) <> res q s -> reported q s < reported q (apply i c s).
Proof.
  intros HR Hlt H1 Hq Hc.
  pose proof (never_missed_index hi s i c q HR Hlt Hq Hc) as Hidx.
  pose proof (okq_idx_le hi s q (Reach_Bnd _ _ HR) Hq) as Hle.
  assert (i <= idx q (apply i c s)).
  { pose proof (Reach_Bnd _ _ HR) as HBhi.
    assert (HBnd : Bnd i s) by (eapply Bnd_mono; [|exact HBhi]; lia).
    unfold apply in *. destruct (trace i c s) as [ps|] eqn:Et; [|contradiction Hc; reflexivity].
    destruct (reap_dec c) as [[u ->]|Hr].
    { cbn in Et. injection Et as <-. cbn [prun foldl] in Hc. rewrite res_reap in Hc. contradiction Hc; reflexivity. }
    destruct (trace_ok i c s ps Et Hr) as (HV & _).
    apply (run_changed i ps s q HBnd HV (Safe_all _ _ _) Hq).
    intros Heq; apply Hc; rewrite Heq; reflexivity. }
  unfold reported. lia.
Qed.

(* ---------- the strength the proofs actually have ---------- *)
(* (a) 21 of the 25 proved query kinds need neither coherence nor safe writes: their index rule does
   not go through a service name *)
Inductive plainq : query -> Prop :=
| pq_tab q : tabq q -> plainq q
| pq_kv q : kvq q -> plainq q
| pq_ns n : plainq (QNodeServices n).

Lemma plainq_okq q : plainq q -> okq q.
Proof. intros [q' H|q' H|n]; [apply ok_tab|apply ok_kv|apply ok_ns]; assumption. Qed.
Lemma plainq_not_optimised q s : plainq q -> ~ csn_optimised q s.
Proof. intros Hq. destruct Hq as [q H|q H|n]; [destruct H|destruct H|]; exact (fun f => f). Qed.

Lemma prim_mono_plain i p s q : Bnd i s -> pvalid i p s -> plainq q -> idx q s <= idx q (papply i p s).
Proof.
  intros HBnd Hv Hq. pose proof (bnd_index _ _ HBnd) as HB. destruct Hq as [q Hq|q Hq|n].
  - apply tab_mono; assumption.
  - apply kv_mono; assumption.
  - apply node_services_mono; assumption.
Qed.
Lemma prim_changed_plain i p s q :
  Bnd i s -> pvalid i p s -> plainq q -> res q s <> res q (papply i p s) -> i <= idx q (papply i p s).
Proof.
  intros HBnd Hv Hq Hc. pose proof (bnd_index _ _ HBnd) as HB. destruct Hq as [q Hq|q Hq|n].
  - rewrite (tab_changed i p s q HB Hq Hc). lia.
  - apply kv_changed; assumption.
  - rewrite (node_services_changed i p s n HB Hv Hc). lia.
Qed.
Lemma run_mono_plain i ps s q : Bnd i s -> Valid i ps s -> plainq q -> idx q s <= idx q (prun i ps s).
Proof.
  revert s. induction ps as [|p ps IH]; intros s HBnd HV Hq; [cbn; lia|].
  destruct HV as [Hv HV]. rewrite prun_cons.
  etransitivity; [apply (prim_mono_plain i p s q); assumption|].
  apply IH; try assumption. apply Bnd_papply; assumption.
Qed.
Lemma run_changed_plain i ps s q :
  Bnd i s -> Valid i ps s -> plainq q -> res q s <> res q (prun i ps s) -> i <= idx q (prun i ps s).
Proof.
  revert s. induction ps as [|p ps IH]; intros s HBnd HV Hq Hc; [contradiction Hc; reflexivity|].
  destruct HV as [Hv HV]. rewrite prun_cons in *.
  assert (HBnd1 : Bnd i (papply i p s)) by (apply Bnd_papply; assumption).
  destruct (decide (res q s = res q (papply i p s))) as [Heq|Hne].
  - apply IH; try assumption. rewrite <- Heq. exact Hc.
  - etransitivity; [apply (prim_changed_plain i p s q); assumption|]. apply run_mono_plain; assumption.
Qed.

(* (b) the high-water form: a changed result reports AT LEAST the index of the write, and no state
   reports more than the index of its last write -- so the new index is above every index any
   earlier state of the history ever reported, also across an intervening tombstone reap *)
Theorem idx_bounded hi s q : Reach hi s -> okq q -> idx q s <= hi.
Proof. intros HR Hq. apply okq_idx_le; [apply Reach_Bnd, HR|exact Hq]. Qed.

Theorem highwater_plain hi s i c q :
  Reach hi s -> hi < i -> plainq q -> res q (apply i c s) <> res q s -> i <= idx q (apply i c s).
Proof.
  intros HR Hlt Hq Hc. pose proof (Reach_Bnd _ _ HR) as HBhi.
  assert (HBnd : Bnd i s) by (eapply Bnd_mono; [|exact HBhi]; lia).
  unfold apply in *. destruct (trace i c s) as [ps|] eqn:Et; [|contradiction Hc; reflexivity].
  destruct (reap_dec c) as [[u ->]|Hr].
  { cbn in Et. injection Et as <-. cbn [prun foldl] in Hc. rewrite res_reap in Hc. contradiction Hc; reflexivity. }
  destruct (trace_ok i c s ps Et Hr) as (HV & _).
  apply (run_changed_plain i ps s q HBnd HV Hq). intros Heq; apply Hc; rewrite Heq; reflexivity.
Qed.

Theorem highwater_okq hi s i c q :
  Reach hi s -> hi < i -> okq q ->
  res q (apply i c s) <> res q s -> i <= idx q (apply i c s).
Proof.
  intros HR Hlt Hq Hc. pose proof (Reach_Bnd _ _ HR) as HBhi.
  assert (HBnd : Bnd i s) by (eapply Bnd_mono; [|exact HBhi]; lia).
  unfold apply in *. destruct (trace i c s) as [ps|] eqn:Et; [|contradiction Hc; reflexivity].
  destruct (reap_dec c) as [[u ->]|Hr].
  { cbn in Et. injection Et as <-. cbn [prun foldl] in Hc. rewrite res_reap in Hc. contradiction Hc; reflexivity. }
  destruct (trace_ok i c s ps Et Hr) as (HV & _).
  apply (run_changed i ps s q HBnd HV (Safe_all _ _ _) Hq). intros Heq; apply Hc; rewrite Heq; reflexivity.
Qed.

Theorem fires_plain hi s i c q :
  Reach hi s -> hi < i -> plainq q -> res q (apply i c s) <> res q s -> fires (ws q s) (touched i c s) = true.
Proof.
  intros _ _ Hq Hc. unfold touched. apply fires_pure; [apply plainq_okq, Hq|apply plainq_not_optimised, Hq|].
  intros Heq. apply Hc. rewrite Heq. reflexivity.
Qed.

Theorem monotone_plain hi s i c q :
  Reach hi s -> hi < i -> plainq q -> (forall u, c <> Reap u) -> idx q s <= idx q (apply i c s).
Proof.
  intros HR Hlt Hq Hr. pose proof (Reach_Bnd _ _ HR) as HBhi.
  assert (HBnd : Bnd i s) by (eapply Bnd_mono; [|exact HBhi]; lia).
  unfold apply. destruct (trace i c s) as [ps|] eqn:Et; [|lia].
  destruct (trace_ok i c s ps Et Hr) as (HV & _). apply run_mono_plain; assumption.
Qed.

(* ---------- the loop, tightly: which minimum the returned index was compared with ---------- *)
Definition is_nf (r : N * qerr * wake) : bool := match r.1.2 with ENotFound => true | _ => false end.
Definition fired (r : N * qerr * wake) : bool := match r.2 with Fired => true | _ => false end.

(* round j of the script replaced the minimum: it answered not-found after an earlier not-found
   round, or not-changed after any earlier round *)
Definition replaces (rounds : list (N * qerr * wake)) (j : nat) : Prop :=
  exists raw e w, rounds !! j = Some (raw, e, w) /\
    ((e = ENotFound /\ existsb is_nf (take j rounds) = true) \/ (e = ENotChanged /\ j <> 0%nat)).

Lemma loop_tight pre rest ls min :
  forallb fired pre = true ->
  l_notfound ls = existsb is_nf pre -> l_ranonce ls = negb (bool_decide (pre = [])) ->
  (l_min ls = min \/ exists j, (j < length pre)%nat /\ replaces (pre ++ rest) j /\
                              exists raw e w, (pre ++ rest) !! j = Some (raw, e, w) /\ l_min ls = N.max 1 raw) ->
  match loop ls rest with
  | XIndex i =>
    exists n raw e w, (pre ++ rest) !! n = Some (raw, e, w) /\ i = N.max 1 raw /\
      forallb fired (take n (pre ++ rest)) = true /\
      exists m, m < i /\ (m = min \/ exists j rj ej wj, (j <= n)%nat /\ replaces (pre ++ rest) j /\
                                                     (pre ++ rest) !! j = Some (rj, ej, wj) /\ m = N.max 1 rj)
  | _ => True
  end.
Proof.
  revert pre ls. induction rest as [|[[raw e] w] rest IH]; intros pre ls Hf Hnf Hro Hmin; cbn [loop]; [exact I|].
  unfold round_step. set (i := N.max 1 raw).
  set (min' := match e with ENotFound => if l_notfound ls then i else l_min ls
                       | ENotChanged => if l_ranonce ls then i else l_min ls | ENone => l_min ls end).
  cbn [l_min].
  assert (Hhere : (pre ++ (raw, e, w) :: rest) !! length pre = Some (raw, e, w)).
  { rewrite lookup_app_r by lia. rewrite Nat.sub_diag. reflexivity. }
  assert (Hmin' : min' = min \/ exists j rj ej wj, (j <= length pre)%nat /\ replaces (pre ++ (raw, e, w) :: rest) j /\
                                                  (pre ++ (raw, e, w) :: rest) !! j = Some (rj, ej, wj) /\ min' = N.max 1 rj).
  { assert (Hold : l_min ls = min \/ exists j rj ej wj, (j <= length pre)%nat /\ replaces (pre ++ (raw, e, w) :: rest) j /\
                                        (pre ++ (raw, e, w) :: rest) !! j = Some (rj, ej, wj) /\ l_min ls = N.max 1 rj).
    { destruct Hmin as [H|(j & Hj & Hr & rj & ej & wj & Hl & Hm)]; [left; exact H|].
      right. exists j, rj, ej, wj. repeat split; try assumption. lia. }
    assert (Hnew : forall (He : (e = ENotFound /\ l_notfound ls = true) \/ (e = ENotChanged /\ l_ranonce ls = true)),
               exists j rj ej wj, (j <= length pre)%nat /\ replaces (pre ++ (raw, e, w) :: rest) j /\
                                  (pre ++ (raw, e, w) :: rest) !! j = Some (rj, ej, wj) /\ i = N.max 1 rj).
    { intros He. exists (length pre), raw, e, w. split; [lia|]. split; [|split; [exact Hhere|reflexivity]].
      exists raw, e, w. split; [exact Hhere|]. rewrite take_app.
      destruct He as [[-> Hl]|[-> Hl]]; [left|right]; (split; [reflexivity|]).
      - rewrite <- Hnf. exact Hl.
      - rewrite Hro in Hl. intros Hz. apply length_zero_iff_nil in Hz. subst pre. discriminate. }
    subst min'. destruct e.
    - exact Hold.
    - destruct (l_notfound ls) eqn:El; [right; apply Hnew; left; split; reflexivity|exact Hold].
    - destruct (l_ranonce ls) eqn:El; [right; apply Hnew; right; split; reflexivity|exact Hold]. }
  destruct (decide (min' < i)) as [Hlt|Hlt];
    [rewrite (bool_decide_eq_true_2 _ Hlt)|rewrite (bool_decide_eq_false_2 _ Hlt)].
  - cbv beta iota zeta. exists (length pre), raw, e, w. split; [exact Hhere|]. split; [reflexivity|].
    split; [rewrite take_app; exact Hf|]. exists min'. split; [exact Hlt|exact Hmin'].
  - destruct w; cbv beta iota zeta; try exact I.
    specialize (IH (pre ++ [(raw, e, Fired)])
                   (LS min' (l_notfound ls || match e with ENotFound => true | _ => false end) true)).
    rewrite <- app_assoc in IH. cbn [app] in IH. apply IH.
    + rewrite forallb_app, Hf. reflexivity.
    + cbn [l_notfound]. rewrite existsb_app, Hnf. cbn. unfold is_nf at 2. cbn. rewrite orb_false_r. reflexivity.
    + cbn [l_ranonce]. rewrite bool_decide_eq_false_2; [reflexivity|]. intros H. destruct pre; discriminate.
    + cbn [l_min]. destruct Hmin' as [H|(j & rj & ej & wj & Hj & Hr & Hl & Hm)]; [left; exact H|].
      right. exists j. split; [rewrite app_length; cbn; lia|]. split; [exact Hr|].
      exists rj, ej, wj. split; assumption.
Qed.

Theorem loop_contract_tight min rounds i :
  min <> 0 -> blocking_query min rounds = XIndex i ->
  exists n raw e w, rounds !! n = Some (raw, e, w) /\ i = N.max 1 raw /\
    forallb fired (take n rounds) = true /\
    exists m, m < i /\ (m = min \/ exists j rj ej wj, (j <= n)%nat /\ replaces rounds j /\
                                              rounds !! j = Some (rj, ej, wj) /\ m = N.max 1 rj).
Proof.
  intros Hmin. unfold blocking_query. rewrite bool_decide_eq_false_2 by exact Hmin. intros Hl.
  pose proof (loop_tight [] rounds (LS min false false) min eq_refl eq_refl eq_refl (or_introl eq_refl)) as H.
  cbn [app] in H. rewrite Hl in H. exact H.
Qed.
