(* C06: one primitive step never lowers the index a query reports (except the tombstone reap),
   and when it changes the query's result the reported index becomes the write's index. *)
From stdpp Require Import gmap strings.
From RecordUpdate Require Import RecordSet.
From Coq Require Import NArith Lia.
From Verif Require Import Blocking.Model Blocking.Lemmas Blocking.Prims Blocking.Valid.
Import RecordSetNotations.
Local Open Scope N_scope.

Definition fixed_keys : list string :=
  [k_kvs; k_tombs; k_sessions; k_nodes; k_services; k_checks; k_sext; k_next; k_coords; k_cfg; k_pq; k_roots].

Lemma iget_papply i p s k :
  IdxBnd i s ->
  iget k (papply i p s) =
  if bool_decide (k ∈ set_keys p s) then i else if bool_decide (k ∈ del_keys p s) then 0 else iget k s.
Proof.
  intros HB. unfold iget at 1. rewrite index_papply by exact HB. unfold papply_idx.
  repeat case_bool_decide; reflexivity.
Qed.

Lemma del_keys_not_fixed p s k : k ∈ fixed_keys -> k ∉ del_keys p s.
Proof.
  intros Hf Hin. destruct p; cbn in Hin; try (inversion Hin; fail).
  - apply elem_of_list_singleton in Hin. subst. exact (k_node_fixed n _ Hf eq_refl).
  - destruct (services s !! (n, sid)) as [o|]; [|inversion Hin].
    destruct (bool_decide (sv_name o = sv_name x)); [inversion Hin|]. destruct (bool_decide _); [|inversion Hin].
    apply elem_of_list_singleton in Hin. subst. exact (k_svc_fixed _ _ Hf eq_refl).
  - destruct (services s !! (n, sid)); [|inversion Hin]. destruct (bool_decide _); [|inversion Hin].
    apply elem_of_list_singleton in Hin. subst. exact (k_svc_fixed _ _ Hf eq_refl).
Qed.

Lemma fixed_mono i p s k : IdxBnd i s -> k ∈ fixed_keys -> iget k s <= iget k (papply i p s).
Proof.
  intros HB Hf. rewrite iget_papply by exact HB.
  case_bool_decide; [apply iget_le, HB|].
  rewrite bool_decide_eq_false_2 by (apply del_keys_not_fixed, Hf). lia.
Qed.

Lemma set_key_iget i p s k : IdxBnd i s -> k ∈ set_keys p s -> iget k (papply i p s) = i.
Proof. intros HB Hin. rewrite iget_papply by exact HB. rewrite bool_decide_eq_true_2 by exact Hin. reflexivity. Qed.

(* ---------- a table that changes has its index row written ---------- *)
Lemma nodes_changed i p s : nodes (papply i p s) <> nodes s -> k_nodes ∈ set_keys p s.
Proof. rewrite nodes_papply. destruct p; intros H; try (contradiction H; reflexivity); cbn; set_solver. Qed.
Lemma services_changed i p s : services (papply i p s) <> services s -> k_services ∈ set_keys p s.
Proof.
  rewrite services_papply. destruct p; intros H; try (contradiction H; reflexivity); cbn [set_keys].
  - apply elem_of_app. left. apply elem_of_list_here.
  - destruct (services s !! (n, sid)) eqn:E; [apply elem_of_app; left; apply elem_of_list_further, elem_of_list_here|].
    contradiction H. apply delete_notin, E.
Qed.
Lemma checks_changed i p s : checks (papply i p s) <> checks s -> k_checks ∈ set_keys p s.
Proof.
  rewrite checks_papply. destruct p; intros H; try (contradiction H; reflexivity); cbn [set_keys].
  - apply elem_of_list_here.
  - destruct (checks s !! (n, cid)) eqn:E; [apply elem_of_list_here|]. contradiction H. apply delete_notin, E.
Qed.
Lemma sessions_changed i p s : sessions (papply i p s) <> sessions s -> k_sessions ∈ set_keys p s.
Proof. rewrite sessions_papply. destruct p; intros H; try (contradiction H; reflexivity); cbn; set_solver. Qed.
Lemma kvs_changed i p s : kvs (papply i p s) <> kvs s -> k_kvs ∈ set_keys p s.
Proof.
  rewrite kvs_papply. destruct p; intros H; try (contradiction H; reflexivity); cbn; try set_solver.
  case_bool_decide; set_solver.
Qed.
Lemma coords_changed i p s : coords (papply i p s) <> coords s -> k_coords ∈ set_keys p s.
Proof. rewrite coords_papply. destruct p; intros H; try (contradiction H; reflexivity); cbn; set_solver. Qed.
Lemma cfgs_changed i p s : cfgs (papply i p s) <> cfgs s -> k_cfg ∈ set_keys p s.
Proof. rewrite cfgs_papply. destruct p; intros H; try (contradiction H; reflexivity); cbn; set_solver. Qed.
Lemma pqs_changed i p s : pqs (papply i p s) <> pqs s -> k_pq ∈ set_keys p s.
Proof. rewrite pqs_papply. destruct p; intros H; try (contradiction H; reflexivity); cbn; set_solver. Qed.
Lemma roots_changed i p s : roots (papply i p s) <> roots s -> k_roots ∈ set_keys p s.
Proof. rewrite roots_papply. destruct p; intros H; try (contradiction H; reflexivity); cbn; set_solver. Qed.

(* ---------- queries whose index is the maximum of fixed table rows ---------- *)
Inductive tabq : query -> Prop :=
| tq1 k : tabq (QKVGet k) | tq2 id : tabq (QSessGet id) | tq3 : tabq QSessList | tq4 n : tabq (QNodeSess n)
| tq5 : tabq QNodes | tq6 : tabq QServices | tq7 : tabq QServiceList
| tq8 n : tabq (QNodeChecks n) | tq9 nm : tabq (QSvcChecks nm) | tq10 o : tabq (QChecksState o)
| tq11 : tabq QCoords | tq12 n : tabq (QCoord n) | tq13 a b : tabq (QCfgGet a b) | tq14 a : tabq (QCfgKind a)
| tq15 : tabq QCARoots | tq16 id : tabq (QPQGet id) | tq17 : tabq QPQList.

Lemma N_max_mono a b c d : a <= c -> b <= d -> N.max a b <= N.max c d.
Proof. lia. Qed.

Lemma tab_mono i p s q : IdxBnd i s -> tabq q -> idx q s <= idx q (papply i p s).
Proof.
  intros HB Hq. destruct Hq; cbn [idx]; unfold kv_table_max, imax; cbn [foldr];
    repeat apply N_max_mono; try lia; apply fixed_mono; try exact HB; unfold fixed_keys; set_solver.
Qed.

Ltac tab_case lem :=
  match goal with
  | Hc : res _ _ <> res _ _ |- _ =>
    eapply lem; intros Heq; apply Hc; cbn [res];
    unfold sessions_of_node, checks_of_node; rewrite ?Heq; reflexivity
  end.

Lemma tab_changed i p s q :
  IdxBnd i s -> tabq q -> res q s <> res q (papply i p s) -> idx q (papply i p s) = i.
Proof.
  intros HB Hq Hc.
  assert (HB' : IdxBnd i (papply i p s)) by (apply IdxBnd_papply, HB).
  destruct Hq; cbn [idx].
  - (* QKVGet *)
    assert (Hk : k_kvs ∈ set_keys p s) by tab_case kvs_changed.
    unfold kv_table_max, imax; cbn [foldr]. rewrite (set_key_iget _ _ _ _ HB Hk).
    pose proof (iget_le i k_tombs _ HB'). lia.
  - apply set_key_iget; [exact HB|]. tab_case sessions_changed.
  - apply set_key_iget; [exact HB|]. tab_case sessions_changed.
  - apply set_key_iget; [exact HB|]. tab_case sessions_changed.
  - apply set_key_iget; [exact HB|]. tab_case nodes_changed.
  - apply set_key_iget; [exact HB|]. tab_case services_changed.
  - apply set_key_iget; [exact HB|]. tab_case services_changed.
  - apply set_key_iget; [exact HB|]. tab_case checks_changed.
  - apply set_key_iget; [exact HB|]. tab_case checks_changed.
  - apply set_key_iget; [exact HB|]. destruct o; tab_case checks_changed.
  - apply set_key_iget; [exact HB|]. tab_case coords_changed.
  - apply set_key_iget; [exact HB|]. tab_case coords_changed.
  - apply set_key_iget; [exact HB|]. tab_case cfgs_changed.
  - apply set_key_iget; [exact HB|]. tab_case cfgs_changed.
  - apply set_key_iget; [exact HB|]. tab_case roots_changed.
  - apply set_key_iget; [exact HB|]. tab_case pqs_changed.
  - apply set_key_iget; [exact HB|]. tab_case pqs_changed.
Qed.
