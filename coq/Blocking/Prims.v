(* C06: what one primitive step does to the index table (under the bound) and to the data. *)
From stdpp Require Import gmap strings.
From RecordUpdate Require Import RecordSet.
From Coq Require Import NArith Lia.
From Verif Require Import Blocking.Model Blocking.Lemmas.
Import RecordSetNotations.
Local Open Scope N_scope.

(* the index rows a primitive writes (all to the current index i) and the ones it deletes *)
Definition node_names (n : string) (s : st) : list string := names_of (svcs_of_node n s).

Definition set_keys (p : prim) (s : st) : list string :=
  match p with
  | PKvPut _ _ | PKvRelease _ => [k_kvs]
  | PKvDel _ | PKvDelSess _ => [k_kvs; k_tombs]
  | PKvDelTree p => if bool_decide (p = "") then [k_kvs] else [k_kvs; k_tombs]
  | PReap _ => []
  | PSessPut _ _ | PSessDel _ => [k_sessions]
  | PPqPut _ _ | PPqDel _ => [k_pq]
  | PNodePut n _ => k_nodes :: k_node n :: (k_svc <$> node_names n s)
  | PNodeDel n => [k_nodes; k_next]
  | PSvcPut n sid x =>
    [k_services; k_svc (sv_name x); k_nodes; k_node n] ++
    match services s !! (n, sid) with
    | Some o =>
      if bool_decide (sv_name o = sv_name x) then []
      else if bool_decide (svcs_named (sv_name o) (s <| dt; services ::= <[(n, sid) := x]> |>) = ∅)
           then [k_sext] else [k_svc (sv_name o)]
    | None => []
    end
  | PSvcDel n sid =>
    match services s !! (n, sid) with
    | None => []
    | Some x =>
      [k_checks; k_services; k_nodes; k_node n] ++
      (if bool_decide (svcs_named (sv_name x) (s <| dt; services ::= delete (n, sid) |>) = ∅)
       then [k_sext] else [k_svc (sv_name x)])
    end
  | PChkPut n cid x =>
    k_checks :: (if bool_decide (c_svc x = "") then k_svc <$> node_names n s else [k_svc (c_svcname x)]) ++
    match checks s !! (n, cid) with
    | Some o =>
      if bool_decide (c_svc o = c_svc x) then []
      else if bool_decide (c_svc o = "") then k_svc <$> node_names n s
           else k_svc (c_svcname o) ::
                match services s !! (n, c_svc o) with
                | Some sv => if bool_decide (sv_name sv = c_svcname o) then [] else [k_svc (sv_name sv)]
                | None => []
                end
    | None => []
    end
  | PChkDel n cid =>
    match checks s !! (n, cid) with
    | None => []
    | Some x =>
      k_checks :: (if bool_decide (c_svc x = "") then k_services :: (k_svc <$> node_names n s)
                   else k_svc (c_svcname x) ::
                        match services s !! (n, c_svc x) with
                        | Some sv => if bool_decide (sv_name sv = c_svcname x) then [] else [k_svc (sv_name sv)]
                        | None => []
                        end)
    end
  | PBumpSvc name => [k_svc name]
  | PBumpNodeSvcs n => k_svc <$> node_names n s
  | PCoordPut _ _ | PCoordDel _ => [k_coords]
  | PCfgPut _ _ _ | PCfgDel _ _ => [k_cfg]
  | PRootsSet _ => [k_roots]
  end.

Definition del_keys (p : prim) (s : st) : list string :=
  match p with
  | PNodeDel n => [k_node n]
  | PSvcPut n sid x =>
    match services s !! (n, sid) with
    | Some o =>
      if bool_decide (sv_name o = sv_name x) then []
      else if bool_decide (svcs_named (sv_name o) (s <| dt; services ::= <[(n, sid) := x]> |>) = ∅)
           then [k_svc (sv_name o)] else []
    | None => []
    end
  | PSvcDel n sid =>
    match services s !! (n, sid) with
    | None => []
    | Some x =>
      if bool_decide (svcs_named (sv_name x) (s <| dt; services ::= delete (n, sid) |>) = ∅)
      then [k_svc (sv_name x)] else []
    end
  | _ => []
  end.

Definition isets (l : list string) (i : N) (s : st) : st := foldr (fun k a => iset k i a) s l.

Lemma dt_isets l i s : dt (isets l i s) = dt s.
Proof. unfold isets. induction l; cbn; [reflexivity|assumption]. Qed.
Lemma index_isets_lookup l i s k :
  index (isets l i s) !! k = if bool_decide (k ∈ l) then Some i else index s !! k.
Proof.
  unfold isets. induction l as [|x l IH]; cbn.
  - rewrite bool_decide_eq_false_2; [reflexivity|]. intros Hin; inversion Hin.
  - destruct (decide (k = x)) as [->|Hne].
    + rewrite lookup_insert, bool_decide_eq_true_2; [reflexivity|left].
    + rewrite lookup_insert_ne by congruence. rewrite IH.
      destruct (decide (k ∈ l)) as [Hin|Hnin].
      * rewrite !bool_decide_eq_true_2; [reflexivity|right; exact Hin|exact Hin].
      * rewrite !bool_decide_eq_false_2; [reflexivity| |exact Hnin].
        intros Hin. apply elem_of_cons in Hin as [->|Hin]; [congruence|contradiction].
Qed.
Lemma IdxBnd_isets l i s : IdxBnd i s -> IdxBnd i (isets l i s).
Proof. intros H. unfold isets. induction l; cbn; [exact H|]. apply IdxBnd_iset; assumption. Qed.
Lemma bump_names_as_isets i l s : IdxBnd i s -> bump_names l i s = isets (k_svc <$> l) i s.
Proof.
  intros H. rewrite bump_names_isets by exact H. unfold isets.
  induction l as [|x l IH]; cbn; [reflexivity|]. rewrite IH. reflexivity.
Qed.
Lemma isets_app a b i s : isets (a ++ b) i s = isets a i (isets b i s).
Proof. unfold isets. apply foldr_app. Qed.

(* every primitive = its data update followed by the row writes / deletions listed above *)
Definition papply_idx (i : N) (p : prim) (s : st) (k : string) : option N :=
  if bool_decide (k ∈ set_keys p s) then Some i
  else if bool_decide (k ∈ del_keys p s) then None else index s !! k.

Ltac bnd :=
  repeat first [ assumption | apply IdxBnd_iset | apply IdxBnd_ibump | apply IdxBnd_idel
               | apply IdxBnd_bump_names | apply IdxBnd_isets ].

Ltac lk k :=
  repeat match goal with
         | |- context [<[?a := _]> _ !! k] =>
           destruct (decide (k = a)) as [->|?];
           [rewrite lookup_insert|rewrite lookup_insert_ne by congruence]
         | |- context [delete ?a _ !! k] =>
           destruct (decide (k = a)) as [->|?];
           [rewrite lookup_delete|rewrite lookup_delete_ne by congruence]
         end.

Lemma elem_of_2 {A} (x a b : A) : x ∈ [a; b] <-> x = a \/ x = b.
Proof. rewrite !elem_of_cons, elem_of_nil. tauto. Qed.

Lemma lookup_ibump i k0 s k :
  IdxBnd i s -> index (ibump k0 i s) !! k = if bool_decide (k = k0) then Some i else index s !! k.
Proof.
  intros HB. rewrite ibump_iset by exact HB. rewrite index_iset.
  case_bool_decide as E; [subst; apply lookup_insert|apply lookup_insert_ne; congruence].
Qed.
Lemma lookup_bump_names i l s k :
  IdxBnd i s -> index (bump_names l i s) !! k = if bool_decide (k ∈ k_svc <$> l) then Some i else index s !! k.
Proof. intros HB. rewrite bump_names_as_isets by exact HB. apply index_isets_lookup. Qed.

(* derived listings only look at the data *)
Lemma svcs_named_dt nm (s s' : st) : services s = services s' -> svcs_named nm s = svcs_named nm s'.
Proof. unfold svcs_named. intros ->. reflexivity. Qed.
Lemma svcs_of_node_dt n (s s' : st) : services s = services s' -> svcs_of_node n s = svcs_of_node n s'.
Proof. unfold svcs_of_node. intros ->. reflexivity. Qed.

Lemma bd_app (k : string) a b : bool_decide (k ∈ a ++ b) = bool_decide (k ∈ a) || bool_decide (k ∈ b).
Proof.
  destruct (decide (k ∈ a)) as [Ha|Ha]; destruct (decide (k ∈ b)) as [Hb|Hb];
    rewrite ?(bool_decide_eq_true_2 _ Ha), ?(bool_decide_eq_false_2 _ Ha),
            ?(bool_decide_eq_true_2 _ Hb), ?(bool_decide_eq_false_2 _ Hb); cbn;
    [apply bool_decide_eq_true_2|apply bool_decide_eq_true_2|apply bool_decide_eq_true_2|apply bool_decide_eq_false_2];
    rewrite elem_of_app; tauto.
Qed.
Lemma bd_cons (k a : string) l : bool_decide (k ∈ a :: l) = bool_decide (k = a) || bool_decide (k ∈ l).
Proof.
  destruct (decide (k = a)) as [Ha|Ha]; destruct (decide (k ∈ l)) as [Hb|Hb];
    rewrite ?(bool_decide_eq_true_2 _ Ha), ?(bool_decide_eq_false_2 _ Ha),
            ?(bool_decide_eq_true_2 _ Hb), ?(bool_decide_eq_false_2 _ Hb); cbn;
    [apply bool_decide_eq_true_2|apply bool_decide_eq_true_2|apply bool_decide_eq_true_2|apply bool_decide_eq_false_2];
    rewrite elem_of_cons; tauto.
Qed.
Lemma bd_nil (k : string) : bool_decide (k ∈ @nil string) = false.
Proof. apply bool_decide_eq_false_2. intros H; inversion H. Qed.
Lemma names_of_node_dt n (s s' : st) : services s = services s' -> names_of (svcs_of_node n s) = names_of (svcs_of_node n s').
Proof. intros H. rewrite (svcs_of_node_dt n s s' H). reflexivity. Qed.

Ltac inl := repeat first [apply elem_of_list_here | apply elem_of_list_further].

(* the index after a chain of bumps, as a boolean test on the key *)
Ltac bdnorm := rewrite ?bd_app, ?bd_cons, ?bd_nil, ?orb_false_r.

Lemma index_papply i p s k :
  IdxBnd i s -> index (papply i p s) !! k = papply_idx i p s k.
Proof.
  intros HB. unfold papply_idx.
  destruct p; cbn [papply set_keys del_keys].
  all: try (timeout 20 (repeat (rewrite ibump_iset by bnd); cbn [index iset idel set];
            repeat case_bool_decide; set_unfold; lk k; (reflexivity || naive_solver))).
  - (* PNodePut *)
    rewrite lookup_bump_names by bnd. rewrite !lookup_ibump by bnd. cbn [index set dt].
    unfold node_names. rewrite (svcs_of_node_dt n (s <| dt; nodes ::= <[n:=x]> |>) s) by reflexivity.
    rewrite (bool_decide_eq_false_2 (k ∈ [])) by (intros Hin; inversion Hin).
    repeat case_bool_decide; set_unfold; try reflexivity; naive_solver.
  - (* PSvcPut *)
    set (s' := s <| dt; services ::= <[(n, sid) := x]> |>).
    set (s1 := ibump (k_node n) i (ibump k_nodes i (ibump (k_svc (sv_name x)) i (ibump k_services i s')))).
    assert (HB' : IdxBnd i s') by exact HB.
    assert (HB1 : IdxBnd i s1) by (unfold s1; bnd).
    assert (H1 : index s1 !! k = if bool_decide (k ∈ [k_services; k_svc (sv_name x); k_nodes; k_node n]) then Some i else index s !! k).
    { unfold s1. rewrite !lookup_ibump by bnd. bdnorm.
      repeat (case_bool_decide; cbn [orb]); try reflexivity. }
    destruct (services s !! (n, sid)) as [o|] eqn:Eo.
    2: { rewrite app_nil_r, bd_nil. exact H1. }
    destruct (decide (sv_name o = sv_name x)) as [En|En].
    { rewrite !(bool_decide_eq_true_2 _ En), app_nil_r, bd_nil. exact H1. }
    rewrite !(bool_decide_eq_false_2 _ En).
    rewrite (svcs_named_dt (sv_name o) s1 s') by (unfold s1; rewrite !dt_ibump; reflexivity).
    destruct (bool_decide (svcs_named (sv_name o) s' = ∅)) eqn:Erem.
    + rewrite lookup_ibump by bnd. rewrite index_idel. rewrite bd_app.
      destruct (decide (k = k_svc (sv_name o))) as [->|Hk].
      * rewrite lookup_delete.
        pose proof (k_svc_fixed (sv_name o)) as Hf.
        rewrite (bool_decide_eq_false_2 (k_svc (sv_name o) = k_sext)) by (apply Hf; inl).
        rewrite (bool_decide_eq_false_2 (_ ∈ [k_services; _; _; _])).
        2: { rewrite !elem_of_cons, elem_of_nil. intros [H|[H|[H|[H|[]]]]]; try (solve [revert H; apply Hf; inl]).
             - apply k_svc_inj in H. contradiction.
             - revert H. apply k_svc_node. }
        rewrite (bool_decide_eq_false_2 (_ ∈ [k_sext])) by (rewrite elem_of_list_singleton; apply Hf; inl).
        rewrite (bool_decide_eq_true_2 (_ ∈ [k_svc (sv_name o)])) by inl. reflexivity.
      * rewrite lookup_delete_ne by congruence. rewrite H1.
        rewrite (bool_decide_eq_false_2 (k ∈ [k_svc (sv_name o)])) by (rewrite elem_of_list_singleton; exact Hk).
        rewrite (bd_cons k k_sext), bd_nil, orb_false_r.
        repeat (case_bool_decide; cbn [orb]); try reflexivity; contradiction.
    + rewrite lookup_ibump by bnd. rewrite H1, bd_app, bd_nil. rewrite (bd_cons k (k_svc (sv_name o))), bd_nil, orb_false_r.
      repeat (case_bool_decide; cbn [orb]); try reflexivity; contradiction.
  - (* PSvcDel *)
    destruct (services s !! (n, sid)) as [x|] eqn:Ex.
    2: { rewrite !(bool_decide_eq_false_2 (k ∈ [])) by (intros Hin; inversion Hin). reflexivity. }
    set (s1 := s <| dt; services ::= delete (n, sid) |>).
    rewrite (svcs_named_dt (sv_name x) (ibump (k_node n) i (ibump k_nodes i (ibump k_services i (ibump k_checks i s1)))) s1)
      by (rewrite !dt_ibump; reflexivity).
    assert (HB1 : IdxBnd i s1) by exact HB.
    destruct (bool_decide (svcs_named (sv_name x) s1 = ∅)) eqn:Erem.
    + rewrite lookup_ibump by bnd. rewrite index_idel.
      destruct (decide (k = k_svc (sv_name x))) as [->|Hk].
      * rewrite lookup_delete.
        pose proof (k_svc_fixed (sv_name x)) as Hf.
        rewrite (bool_decide_eq_false_2 (k_svc (sv_name x) = k_sext)) by (apply Hf; set_solver).
        rewrite bool_decide_eq_false_2.
        2: { set_unfold. intros [H|[H|[H|[H|[H|[]]]]]]; try (revert H; apply Hf; set_solver).
             revert H. apply k_svc_node. }
        rewrite bool_decide_eq_true_2 by set_solver. reflexivity.
      * rewrite lookup_delete_ne by congruence. rewrite !lookup_ibump by bnd. cbn [index set dt s1].
        rewrite (bool_decide_eq_false_2 (k ∈ [k_svc (sv_name x)])) by set_solver.
        repeat case_bool_decide; set_unfold; try reflexivity; naive_solver.
    + rewrite !lookup_ibump by bnd. cbn [index set dt s1].
      rewrite (bool_decide_eq_false_2 (k ∈ [])) by (intros Hin; inversion Hin).
      repeat case_bool_decide; set_unfold; try reflexivity; naive_solver.
  - (* PChkPut *)
    rewrite bd_nil. rewrite bd_cons, bd_app.
    set (s0 := match checks s !! (n, cid) with
               | Some o => if bool_decide (c_svc o = c_svc x) then s
                           else if bool_decide (c_svc o = "") then bump_names (names_of (svcs_of_node n s)) i s
                                else let s2 := ibump (k_svc (c_svcname o)) i s in
                                     match services s !! (n, c_svc o) with
                                     | Some sv => if bool_decide (sv_name sv = c_svcname o) then s2 else ibump (k_svc (sv_name sv)) i s2
                                     | None => s2
                                     end
               | None => s end).
    assert (Hd0 : dt s0 = dt s).
    { unfold s0. destruct (checks s !! (n, cid)) as [o|]; [|reflexivity].
      destruct (bool_decide (c_svc o = c_svc x)); [reflexivity|].
      destruct (bool_decide (c_svc o = "")); [rewrite dt_bump_names; reflexivity|].
      cbv zeta. destruct (services s !! (n, c_svc o)) as [sv|]; [destruct (bool_decide _)|]; rewrite ?dt_ibump; reflexivity. }
    assert (HB0 : IdxBnd i s0).
    { unfold s0. destruct (checks s !! (n, cid)) as [o|]; [|exact HB].
      destruct (bool_decide (c_svc o = c_svc x)); [exact HB|].
      destruct (bool_decide (c_svc o = "")); [bnd|].
      cbv zeta. destruct (services s !! (n, c_svc o)) as [sv|]; [destruct (bool_decide _)|]; bnd. }
    assert (H0 : index s0 !! k =
                 if bool_decide (k ∈ match checks s !! (n, cid) with
                                     | Some o => if bool_decide (c_svc o = c_svc x) then []
                                                 else if bool_decide (c_svc o = "") then k_svc <$> node_names n s
                                                      else k_svc (c_svcname o) ::
                                                           match services s !! (n, c_svc o) with
                                                           | Some sv => if bool_decide (sv_name sv = c_svcname o) then [] else [k_svc (sv_name sv)]
                                                           | None => []
                                                           end
                                     | None => [] end)
                 then Some i else index s !! k).
    { unfold s0. destruct (checks s !! (n, cid)) as [o|]; [|rewrite bd_nil; reflexivity].
      destruct (bool_decide (c_svc o = c_svc x)); [rewrite bd_nil; reflexivity|].
      destruct (bool_decide (c_svc o = "")).
      - rewrite lookup_bump_names by exact HB. reflexivity.
      - cbv zeta. rewrite bd_cons. destruct (services s !! (n, c_svc o)) as [sv|]; [destruct (bool_decide (sv_name sv = c_svcname o))|].
        + rewrite lookup_ibump by exact HB. rewrite bd_nil, orb_false_r. reflexivity.
        + rewrite lookup_ibump by bnd. rewrite lookup_ibump by exact HB. rewrite bd_cons, bd_nil, orb_false_r.
          repeat (case_bool_decide; cbn [orb]); reflexivity.
        + rewrite lookup_ibump by exact HB. rewrite bd_nil, orb_false_r. reflexivity. }
    assert (Hn0 : names_of (svcs_of_node n s0) = names_of (svcs_of_node n s)) by (apply names_of_node_dt; rewrite Hd0; reflexivity).
    rewrite Hn0.
    destruct (bool_decide (c_svc x = "")).
    + rewrite lookup_ibump by (apply IdxBnd_dt; bnd). cbn [index set dt].
      rewrite lookup_bump_names by exact HB0. rewrite H0. unfold node_names.
      repeat (case_bool_decide; cbn [orb]); try reflexivity.
    + rewrite lookup_ibump by (apply IdxBnd_dt; bnd). cbn [index set dt].
      rewrite lookup_ibump by exact HB0. rewrite H0. rewrite bd_cons, bd_nil, orb_false_r.
      repeat (case_bool_decide; cbn [orb]); try reflexivity.
  - (* PChkDel *)
    rewrite bd_nil.
    destruct (checks s !! (n, cid)) as [x|] eqn:Ex.
    2: { rewrite bd_nil. reflexivity. }
    rewrite bd_cons.
    destruct (bool_decide (c_svc x = "")).
    + rewrite lookup_ibump by (apply IdxBnd_dt; bnd). cbn [index set dt].
      rewrite lookup_ibump by bnd. rewrite lookup_bump_names by bnd. unfold node_names. rewrite bd_cons.
      repeat (case_bool_decide; cbn [orb]); try reflexivity.
    + rewrite bd_cons.
      destruct (services s !! (n, c_svc x)) as [sv|]; [destruct (bool_decide (sv_name sv = c_svcname x))|].
      * rewrite lookup_ibump by (apply IdxBnd_dt; bnd). cbn [index set dt]. rewrite lookup_ibump by bnd. rewrite bd_nil, orb_false_r.
        repeat (case_bool_decide; cbn [orb]); try reflexivity.
      * rewrite lookup_ibump by (apply IdxBnd_dt; bnd). cbn [index set dt]. rewrite !lookup_ibump by bnd. rewrite bd_cons, bd_nil, orb_false_r.
        repeat (case_bool_decide; cbn [orb]); try reflexivity.
      * rewrite lookup_ibump by (apply IdxBnd_dt; bnd). cbn [index set dt]. rewrite lookup_ibump by bnd. rewrite bd_nil, orb_false_r.
        repeat (case_bool_decide; cbn [orb]); try reflexivity.
  - (* PBumpNodeSvcs *)
    rewrite (bool_decide_eq_false_2 (k ∈ [])) by (intros Hin; inversion Hin).
    rewrite lookup_bump_names by bnd. reflexivity.
Qed.

(* ---------- the data a primitive changes ---------- *)
Ltac dts := repeat (progress (rewrite ?dt_ibump, ?dt_bump_names, ?dt_iset, ?dt_idel; cbn)).

Ltac crush_data :=
  repeat match goal with
         | |- context [match ?x with _ => _ end] => destruct x eqn:?
         end;
  dts; try reflexivity; try (symmetry; apply delete_notin; assumption).

Lemma services_papply i p s :
  services (papply i p s) =
  match p with
  | PSvcPut n sid x => <[(n, sid) := x]> (services s)
  | PSvcDel n sid => delete (n, sid) (services s)
  | _ => services s
  end.
Proof. destruct p; cbn [papply]; crush_data. Qed.

Lemma nodes_papply i p s :
  nodes (papply i p s) =
  match p with
  | PNodePut n x => <[n := x]> (nodes s)
  | PNodeDel n => delete n (nodes s)
  | _ => nodes s
  end.
Proof. destruct p; cbn [papply]; crush_data. Qed.

Lemma checks_papply i p s :
  checks (papply i p s) =
  match p with
  | PChkPut n cid x => <[(n, cid) := x]> (checks s)
  | PChkDel n cid => delete (n, cid) (checks s)
  | _ => checks s
  end.
Proof. destruct p; cbn [papply]; crush_data. Qed.

Definition kvs_after (i : N) (p : prim) (m : gmap string kvent) : gmap string kvent :=
  match p with
  | PKvPut k e => <[k := e]> m
  | PKvDel k => delete k m
  | PKvDelTree p => filter (fun kv => has_prefix p kv.1 = false) m
  | PKvRelease sid => (fun e => if bool_decide (kv_sess e = sid) then e <| kv_sess := "" |> <| kv_modify := i |> else e) <$> m
  | PKvDelSess sid => filter (fun kv => kv_sess kv.2 ≠ sid) m
  | _ => m
  end.
Definition tombs_after (i : N) (p : prim) (s : st) : gmap string N :=
  match p with
  | PKvDel k => <[k := i]> (tombs s)
  | PKvDelTree p =>
    let t := filter (fun kt : string * N => has_prefix p kt.1 = false) (tombs s) in
    if bool_decide (p = "") then t else <[p := i]> t
  | PKvDelSess sid => ((fun _ => i) <$> filter (fun kv => kv_sess kv.2 = sid) (kvs s)) ∪ tombs s
  | PReap upto => filter (fun kt => upto < kt.2) (tombs s)
  | _ => tombs s
  end.

Ltac data_cases n sid cid s := crush_data.

Lemma kvs_papply i p s : kvs (papply i p s) = kvs_after i p (kvs s).
Proof. destruct p; cbn [papply kvs_after]; data_cases n sid cid s. Qed.
Lemma tombs_papply i p s : tombs (papply i p s) = tombs_after i p s.
Proof. destruct p; cbn [papply tombs_after]; data_cases n sid cid s. Qed.

Lemma sessions_papply i p s :
  sessions (papply i p s) =
  match p with PSessPut sid x => <[sid := x]> (sessions s) | PSessDel sid => delete sid (sessions s) | _ => sessions s end.
Proof. destruct p; cbn [papply]; data_cases n sid cid s. Qed.
Lemma coords_papply i p s :
  coords (papply i p s) =
  match p with PCoordPut n c => <[n := c]> (coords s) | PCoordDel n => delete n (coords s) | _ => coords s end.
Proof. destruct p; cbn [papply]; data_cases n sid cid s. Qed.
Lemma cfgs_papply i p s :
  cfgs (papply i p s) =
  match p with PCfgPut k n g => <[(k, n) := g]> (cfgs s) | PCfgDel k n => delete (k, n) (cfgs s) | _ => cfgs s end.
Proof. destruct p; cbn [papply]; data_cases n sid cid s. Qed.
Lemma pqs_papply i p s :
  pqs (papply i p s) =
  match p with PPqPut id g => <[id := g]> (pqs s) | PPqDel id => delete id (pqs s) | _ => pqs s end.
Proof. destruct p; cbn [papply]; data_cases n sid cid s. Qed.
Lemma roots_papply i p s :
  roots (papply i p s) = match p with PRootsSet m => m | _ => roots s end.
Proof. destruct p; cbn [papply]; data_cases n sid cid s. Qed.
