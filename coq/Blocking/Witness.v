(* C06: concrete reachable states in which the faithful model (and, replayed, the real store)
   breaks the contract.  Each witness is one of the classes recorded in known_findings.json. *)
From stdpp Require Import gmap strings.
From Coq Require Import NArith Lia.
From Verif Require Import Blocking.Model Blocking.Lemmas Blocking.Prims Blocking.Valid Blocking.Index
     Blocking.IndexKV Blocking.IndexCat Blocking.Fires Blocking.Proofs.
Local Open Scope N_scope.

(* logs with strictly increasing indexes reach their final state *)
Fixpoint increasing (hi : N) (log : list (N * cmd)) : bool :=
  match log with
  | [] => true
  | (i, _) :: rest => bool_decide (hi < i) && increasing i rest
  end.
Definition last_index (hi : N) (log : list (N * cmd)) : N := foldl (fun _ ic => ic.1) hi log.

Lemma Reach_run log : forall hi s, Reach hi s -> increasing hi log = true -> Reach (last_index hi log) (run log s).
Proof.
  induction log as [|[i c] log IH]; intros hi s HR Hinc; [exact HR|].
  cbn in Hinc. apply andb_true_iff in Hinc as [Hlt Hinc]. apply bool_decide_eq_true in Hlt.
  cbn [run last_index foldl]. apply IH; [|exact Hinc]. econstructor; eassumption.
Qed.
Lemma Reach_log log : increasing 0 log = true -> Reach (last_index 0 log) (run log st0).
Proof. apply Reach_run. constructor. Qed.

Definition spec (id name : string) : svcspec := SvcSpec id name false "" false [] 80.
Definition proxy (id name dest : string) : svcspec := SvcSpec id name true dest false [] 80.

Lemma neq_compute (a b : rval) : bool_decide (a = b) = false -> a <> b.
Proof. apply bool_decide_eq_false_1. Qed.

(* the contract on one (state, write, query) *)
Definition contract_holds (s : st) (i : N) (c : cmd) (q : query) : Prop :=
  res q (apply i c s) <> res q s ->
  idx q s < idx q (apply i c s) /\ fires (ws q s) (touched i c s) = true.

Record violation := Violation { v_log : list (N * cmd); v_i : N; v_c : cmd; v_q : query }.
Definition violates (v : violation) : Prop :=
  let s := run (v_log v) st0 in
  Reach (last_index 0 (v_log v)) s /\ last_index 0 (v_log v) < v_i v /\
  res (v_q v) (apply (v_i v) (v_c v) s) <> res (v_q v) s /\
  ~ (idx (v_q v) s < idx (v_q v) (apply (v_i v) (v_c v) s)).

Ltac violation w :=
  unfold violates;
  split; [apply (Reach_log (v_log w)); vm_compute; reflexivity|];
  split; [vm_compute; reflexivity|];
  split; [apply neq_compute; vm_compute; reflexivity
         |apply N.nlt_ge, N.leb_le; vm_compute; reflexivity].

(* 1. (repaired in /repo by d2fdf7c) a delete-tree on a shorter prefix with an older tombstone left
      under the listed prefix: the delete now drops the tombstones it subsumes, and the history that
      used to lose the update (26 -> 23) reports the write's index *)
Definition w_kvlist : violation :=
  Violation [(6, KVSet "a/b" 1 0); (23, KVDelete "a/b"); (26, KVSet "a/b" 2 0)] 27 (KVDeleteTree "a/") (QKVList "a/b").
Lemma w_kvlist_repaired :
  let s := run (v_log w_kvlist) st0 in
  res (QKVList "a/b") (apply 27 (KVDeleteTree "a/") s) <> res (QKVList "a/b") s /\
  idx (QKVList "a/b") s = 26 /\ idx (QKVList "a/b") (apply 27 (KVDeleteTree "a/") s) = 27.
Proof. split; [apply neq_compute; vm_compute; reflexivity|split; vm_compute; reflexivity]. Qed.

(* 2. (repaired in /repo by 2c57fbe) a service id registered again under another name: the old name's
      row is now bumped / replaced by the extinction index; both former witnesses report the write's
      index and the optimised watch fires *)
Definition w_rename : violation :=
  Violation [(2, EnsureNode "n1" 1); (3, EnsureSvc "n1" (spec "s1" "web"))] 5 (EnsureSvc "n1" (spec "s1" "api")) (QSvcNodes "web").
Lemma w_rename_repaired :
  let s := run (v_log w_rename) st0 in
  res (QCSN "web") (apply 5 (v_c w_rename) s) <> res (QCSN "web") s /\
  idx (QSvcNodes "web") s = 3 /\ idx (QSvcNodes "web") (apply 5 (v_c w_rename) s) = 5 /\
  idx (QCSN "web") (apply 5 (v_c w_rename) s) = 5 /\
  fires (ws (QCSN "web") s) (touched 5 (v_c w_rename) s) = true.
Proof. split; [apply neq_compute; vm_compute; reflexivity|repeat split; vm_compute; reflexivity]. Qed.
Definition w_rename_back : violation :=
  Violation [(2, EnsureNode "n1" 1); (3, EnsureSvc "n1" (spec "s2" "db")); (4, DelSvc "n1" "s2");
             (6, EnsureSvc "n1" (spec "s1" "web"))] 8 (EnsureSvc "n1" (spec "s1" "api")) (QSvcNodes "web").
Lemma w_rename_back_repaired :
  let s := run (v_log w_rename_back) st0 in
  idx (QSvcNodes "web") s = 6 /\ idx (QSvcNodes "web") (apply 8 (v_c w_rename_back) s) = 8.
Proof. split; vm_compute; reflexivity. Qed.

(* 3. ConnectServiceNodes reports the index of the destination service, not of its proxies *)
Definition w_connect : violation :=
  Violation [(2, EnsureNode "n1" 1); (3, EnsureSvc "n1" (spec "s1" "web"))] 5
            (EnsureSvc "n1" (proxy "p1" "web-proxy" "web")) (QConnectNodes "web").
Lemma w_connect_violates : violates w_connect. Proof. violation w_connect. Qed.

(* 4. (repaired in /repo by e956cb5) a check registered again against another service of the node: the
      service it leaves is bumped *)
Definition w_check_moved : violation :=
  Violation [(2, EnsureNode "n1" 1); (3, EnsureSvc "n1" (spec "s1" "api")); (4, EnsureSvc "n1" (spec "s2" "web"));
             (5, EnsureCheck "n1" (ChkSpec "c2" 0 "s1" 0))] 7 (EnsureCheck "n1" (ChkSpec "c2" 0 "s2" 0)) (QCSN "api").
Lemma w_check_moved_repaired :
  let s := run (v_log w_check_moved) st0 in
  res (QCSN "api") (apply 7 (v_c w_check_moved) s) <> res (QCSN "api") s /\
  idx (QCSN "api") s = 5 /\ idx (QCSN "api") (apply 7 (v_c w_check_moved) s) = 7 /\
  fires (ws (QCSN "api") s) (touched 7 (v_c w_check_moved) s) = true.
Proof. split; [apply neq_compute; vm_compute; reflexivity|repeat split; vm_compute; reflexivity]. Qed.

(* 4b. the residue of that repair, repaired by 77429de: the bump went only to the name STORED in the
      check row; after a rename of the service that name is stale, and moving the check away was missed
      by the service's current name ("api": 7 -> 7, no wake).  Now the current name is bumped too. *)
Definition w_move_stale : violation :=
  Violation [(2, EnsureNode "n1" 1); (3, EnsureSvc "n1" (spec "s1" "web")); (4, EnsureSvc "n1" (spec "s2" "db"));
             (5, EnsureCheck "n1" (ChkSpec "c2" 0 "s1" 0)); (7, EnsureSvc "n1" (spec "s1" "api"))]
            9 (EnsureCheck "n1" (ChkSpec "c2" 0 "s2" 0)) (QCSN "api").
Lemma w_move_stale_repaired :
  let s := run (v_log w_move_stale) st0 in
  res (QCSN "api") (apply 9 (v_c w_move_stale) s) <> res (QCSN "api") s /\
  idx (QCSN "api") s = 7 /\ idx (QCSN "api") (apply 9 (v_c w_move_stale) s) = 9 /\
  fires (ws (QCSN "api") s) (touched 9 (v_c w_move_stale) s) = true.
Proof. split; [apply neq_compute; vm_compute; reflexivity|repeat split; vm_compute; reflexivity]. Qed.

(* 5. CheckConnectServiceNodes: the index is the maximum over the service names that are in the
      result NOW; when the instances of one name leave, the index falls *)
Definition w_csn_connect : violation :=
  Violation [(2, EnsureNode "n2" 1); (4, EnsureSvc "n2" (proxy "p1" "web-proxy" "web")); (5, EnsureNode "n1" 1);
             (21, EnsureSvc "n1" (SvcSpec "s1" "web" false "" true [] 80))] 27 (DelNode "n1") (QCSNConnect "web").
Lemma w_csn_connect_violates : violates w_csn_connect. Proof. violation w_csn_connect. Qed.
Lemma w_csn_connect_decreases :
  let s := run (v_log w_csn_connect) st0 in
  idx (QCSNConnect "web") (apply 27 (DelNode "n1") s) < idx (QCSNConnect "web") s.
Proof. vm_compute. reflexivity. Qed.

(* the state of w_move_stale is not Coherent (a check row carries a stale name): the theorems no
   longer need coherence, so they cover it; the Connect witnesses are outside okq *)
Lemma w_move_stale_incoherent : ~ Coherent (run (v_log w_move_stale) st0).
Proof.
  remember (run (v_log w_move_stale) st0) as s eqn:Es.
  assert (Hc : checks s !! ("n1", "c2") = Some (Chk 0 "s1" "web" [] 0 5 5)) by (rewrite Es; vm_compute; reflexivity).
  assert (Hs : services s !! ("n1", "s1") = Some (Svc "api" false "" false [] 80 3 7)) by (rewrite Es; vm_compute; reflexivity).
  clear Es. intros HC.
  pose proof (HC "n1" "c2" (Chk 0 "s1" "web" [] 0 5 5) (Svc "api" false "" false [] 80 3 7) Hc) as H.
  cbn [c_svc c_svcname sv_name] in H. assert (H' : "api" = "web") by (apply H; [discriminate|exact Hs]). discriminate.
Qed.
Lemma w_connect_not_okq : ~ okq (v_q w_connect).
Proof. intros H. inversion H as [q Hq|q Hq| |nm wc q Hq]; subst; inversion Hq. Qed.
Lemma w_csn_connect_not_okq : ~ okq (v_q w_csn_connect).
Proof. intros H. inversion H as [q Hq|q Hq| |nm wc q Hq]; subst; inversion Hq. Qed.

(* ---------- non-vacuity: a non-trivial reachable coherent state and a safe write whose result
   changes (locked key, tombstone, session bound to a check, a proxy and its service) ---------- *)
Definition ex_log : list (N * cmd) :=
  [(2, Register "n1" 1 (Some (spec "s1" "web")) [ChkSpec "serfHealth" 0 "" 0; ChkSpec "c2" 0 "s1" 0]);
   (3, EnsureSvc "n1" (proxy "p1" "web-proxy" "web"));
   (4, SessCreate "00000000-0000-0000-0000-000000000001" "n1" true ["serfHealth"]);
   (5, KVLock "a/b" 1 0 "00000000-0000-0000-0000-000000000001");
   (6, KVSet "a/c" 1 0); (7, KVDelete "a/c");
   (8, Register "n2" 2 (Some (spec "s1" "web")) [])].
Definition ex_state : st := run ex_log st0.

Lemma ex_reach : Reach 8 ex_state.
Proof. apply (Reach_log ex_log). vm_compute. reflexivity. Qed.

Lemma Coherent_run log : forall s, Coherent s -> (forall pre ic post, log = pre ++ ic :: post -> rename_free ic.2 (run pre s)) ->
                                   Coherent (run log s).
Proof.
  induction log as [|[i c] log IH]; intros s HC Hsafe; [exact HC|].
  cbn [run]. apply IH.
  - apply Coherent_apply; [exact HC|]. apply (Hsafe [] (i, c) log). reflexivity.
  - intros pre ic post Heq. specialize (Hsafe ((i, c) :: pre) ic post). cbn in Hsafe. apply Hsafe. rewrite Heq. reflexivity.
Qed.

(* deleting the node changes the health view of "web": the write is safe, the query in the proved
   family, the result changes -- every hypothesis of the partial theorems is met *)
Definition ex_cmd : cmd := DelNode "n1".
Lemma ex_safe : safe_cmd ex_cmd ex_state /\ safe_query (QCSN "web").
Proof. split; [exact I|]. eapply ok_svc; constructor. Qed.
Lemma ex_changes : res (QCSN "web") (apply 9 ex_cmd ex_state) <> res (QCSN "web") ex_state.
Proof. apply neq_compute. vm_compute. reflexivity. Qed.

(* coherence of a concrete state, by computation *)
Definition coherent_row (s : st) (k : string * string) (x : chk) : Prop :=
  c_svc x = "" \/ from_option (fun sv => sv_name sv = c_svcname x) True (services s !! (k.1, c_svc x)).
#[global] Instance coherent_row_dec s k x : Decision (coherent_row s k x).
Proof. unfold coherent_row. destruct (services s !! (k.1, c_svc x)); cbn; apply _. Defined.
Lemma coherent_by_compute s : bool_decide (map_Forall (coherent_row s) (checks s)) = true -> Coherent s.
Proof.
  intros H. apply bool_decide_eq_true in H. intros n cid x sv Hx Hne Hsv.
  destruct (H (n, cid) x Hx) as [He|Hc]; [contradiction|]. cbn in Hc. rewrite Hsv in Hc. exact Hc.
Qed.
Lemma ex_coherent : Coherent ex_state.
Proof. apply coherent_by_compute. vm_compute. reflexivity. Qed.

(* ---------- the lemmas the property file states ---------- *)
Lemma never_missed_refuted_lemma :
  ~ (forall hi s i c q, Reach hi s -> hi < i -> res q (apply i c s) <> res q s ->
       idx q s < idx q (apply i c s) /\ fires (ws q s) (touched i c s) = true).
Proof.
  intros H. destruct w_connect_violates as (HR & Hlt & Hc & Hn). apply Hn.
  exact (proj1 (H _ _ _ _ _ HR Hlt Hc)).
Qed.

Lemma never_missed_partial_lemma hi s i c q :
  Reach hi s -> hi < i -> safe_query q ->
  res q (apply i c s) <> res q s ->
  idx q s < idx q (apply i c s) /\ fires (ws q s) (touched i c s) = true.
Proof.
  intros HR Hlt Hq Hc. split.
  - exact (never_missed_index hi s i c q HR Hlt Hq Hc).
  - exact (never_missed_fires hi s i c q HR Hlt Hq Hc).
Qed.

Lemma monotone_refuted_lemma :
  ~ (forall hi s i c q, Reach hi s -> hi < i -> (forall u, c <> Reap u) -> idx q s <= idx q (apply i c s)).
Proof.
  intros H. destruct w_csn_connect_violates as (HR & Hlt & _ & _).
  assert (Hr : forall u, v_c w_csn_connect <> Reap u) by (intros u; discriminate).
  pose proof (H _ _ _ _ (QCSNConnect "web") HR Hlt Hr) as Hle.
  pose proof w_csn_connect_decreases as Hd. cbv zeta in Hd.
  apply N.lt_nge in Hd. apply Hd. exact Hle.
Qed.

Lemma loop_lemma min rounds :
  match blocking_query min rounds with
  | XIndex i => min <> 0 /\ exists m, min_source min rounds m /\ m < i
  | XTimeout _ | XAbandon _ => min <> 0
  | XNonBlocking _ => min = 0
  | XStuck => True
  end.
Proof.
  pose proof (loop_exit_kinds min rounds) as Hk.
  destruct (blocking_query min rounds) as [i| | | |] eqn:E; try exact Hk.
  split; [exact Hk|]. exact (loop_contract min rounds i Hk E).
Qed.

Lemma wakes_lemma hi s i c q :
  Reach hi s -> hi < i -> 1 < i -> safe_query q ->
  res q (apply i c s) <> res q s ->
  fires (ws q s) (touched i c s) = true /\
  reported q s < reported q (apply i c s) /\
  forall w rest,
    loop (LS (reported q s) false false) ((idx q s, ENone, Fired) :: (idx q (apply i c s), ENone, w) :: rest)
    = XIndex (reported q (apply i c s)).
Proof.
  intros HR Hlt H1 Hq Hc.
  pose proof (never_missed_reported hi s i c q HR Hlt H1 Hq Hc) as Hrep.
  split; [exact (never_missed_fires hi s i c q HR Hlt Hq Hc)|].
  split; [exact Hrep|]. intros w rest. exact (blocked_query_returns q s (apply i c s) w rest Hrep).
Qed.

Lemma refuted_classes_lemma : violates w_connect /\ violates w_csn_connect.
Proof. exact (conj w_connect_violates w_csn_connect_violates). Qed.

Lemma hypotheses_met_lemma :
  Reach 8 ex_state /\ 8 < 9 /\ safe_query (QCSN "web") /\
  res (QCSN "web") (apply 9 ex_cmd ex_state) <> res (QCSN "web") ex_state.
Proof.
  split; [exact ex_reach|]. split; [reflexivity|]. split; [exact (proj2 ex_safe)|exact ex_changes].
Qed.
Lemma hypotheses_exclude_lemma : ~ okq (v_q w_connect) /\ ~ okq (v_q w_csn_connect).
Proof. exact (conj w_connect_not_okq w_csn_connect_not_okq). Qed.
(* the theorems apply in a state that is NOT coherent (the state of the former witness w_move_stale) *)
Lemma covers_incoherent_lemma :
  let s := run (v_log w_move_stale) st0 in
  Reach 7 s /\ ~ Coherent s /\ safe_query (QCSN "api").
Proof.
  cbv zeta. split; [change 7 with (last_index 0 (v_log w_move_stale)); apply (Reach_log (v_log w_move_stale)); vm_compute; reflexivity|]. split; [exact w_move_stale_incoherent|].
  eapply ok_svc; constructor.
Qed.

(* the repaired classes, as regression facts *)
Lemma repaired_classes_lemma :
  (let s := run (v_log w_rename) st0 in
   res (QCSN "web") (apply 5 (v_c w_rename) s) <> res (QCSN "web") s /\
   idx (QSvcNodes "web") s = 3 /\ idx (QSvcNodes "web") (apply 5 (v_c w_rename) s) = 5 /\
   idx (QCSN "web") (apply 5 (v_c w_rename) s) = 5 /\
   fires (ws (QCSN "web") s) (touched 5 (v_c w_rename) s) = true) /\
  (let s := run (v_log w_rename_back) st0 in
   idx (QSvcNodes "web") s = 6 /\ idx (QSvcNodes "web") (apply 8 (v_c w_rename_back) s) = 8) /\
  (let s := run (v_log w_check_moved) st0 in
   res (QCSN "api") (apply 7 (v_c w_check_moved) s) <> res (QCSN "api") s /\
   idx (QCSN "api") s = 5 /\ idx (QCSN "api") (apply 7 (v_c w_check_moved) s) = 7 /\
   fires (ws (QCSN "api") s) (touched 7 (v_c w_check_moved) s) = true).
Proof. exact (conj w_rename_repaired (conj w_rename_back_repaired w_check_moved_repaired)). Qed.
Lemma move_stale_repaired_lemma :
  let s := run (v_log w_move_stale) st0 in
  res (QCSN "api") (apply 9 (v_c w_move_stale) s) <> res (QCSN "api") s /\
  idx (QCSN "api") s = 7 /\ idx (QCSN "api") (apply 9 (v_c w_move_stale) s) = 9 /\
  fires (ws (QCSN "api") s) (touched 9 (v_c w_move_stale) s) = true.
Proof. exact w_move_stale_repaired. Qed.

(* ---------- audit round: the exported strength ---------- *)
Lemma never_missed_plain_lemma hi s i c q :
  Reach hi s -> hi < i -> plainq q -> res q (apply i c s) <> res q s ->
  i <= idx q (apply i c s) /\ idx q s < idx q (apply i c s) /\ fires (ws q s) (touched i c s) = true.
Proof.
  intros HR Hlt Hq Hc. pose proof (highwater_plain hi s i c q HR Hlt Hq Hc) as Hi.
  pose proof (idx_bounded hi s q HR (plainq_okq q Hq)) as Hb.
  split; [exact Hi|]. split; [lia|]. exact (fires_plain hi s i c q HR Hlt Hq Hc).
Qed.

(* the new index is above the index ANY state reached no later than s reported (high-water mark) *)
Lemma above_every_earlier_lemma hi0 s0 hi s i c q :
  Reach hi0 s0 -> hi0 <= hi -> Reach hi s -> hi < i -> safe_query q ->
  res q (apply i c s) <> res q s -> idx q s0 < idx q (apply i c s).
Proof.
  intros HR0 Hle HR Hlt Hq Hc.
  pose proof (highwater_okq hi s i c q HR Hlt Hq Hc). pose proof (idx_bounded hi0 s0 q HR0 Hq). lia.
Qed.
Lemma above_every_earlier_plain_lemma hi0 s0 hi s i c q :
  Reach hi0 s0 -> hi0 <= hi -> Reach hi s -> hi < i -> plainq q ->
  res q (apply i c s) <> res q s -> idx q s0 < idx q (apply i c s).
Proof.
  intros HR0 Hle HR Hlt Hq Hc.
  pose proof (highwater_plain hi s i c q HR Hlt Hq Hc). pose proof (idx_bounded hi0 s0 q HR0 (plainq_okq q Hq)). lia.
Qed.

(* the wake of the blocked round is the model's [fires], not a scripted constant *)
Definition wake_of (b : bool) : wake := if b then Fired else Timeout.
Lemma wakes_derived_lemma hi s i c q :
  Reach hi s -> hi < i -> 1 < i -> safe_query q ->
  res q (apply i c s) <> res q s ->
  forall w rest,
    loop (LS (reported q s) false false)
         ((idx q s, ENone, wake_of (fires (ws q s) (touched i c s))) :: (idx q (apply i c s), ENone, w) :: rest)
    = XIndex (reported q (apply i c s)).
Proof.
  intros HR Hlt H1 Hq Hc w rest.
  destruct (wakes_lemma hi s i c q HR Hlt H1 Hq Hc) as (Hf & _ & Hl). rewrite Hf. apply Hl.
Qed.
(* and a watch that does not fire leaves the query blocked until its timeout, with the stale index:
   the shape of every "missed wake" the oracle reports *)
Lemma no_fire_times_out_lemma q s rest :
  loop (LS (reported q s) false false) ((idx q s, ENone, wake_of false) :: rest) = XTimeout (reported q s).
Proof. unfold reported. cbn. rewrite bool_decide_eq_false_2 by lia. reflexivity. Qed.

(* every exit of the loop is reachable; the last one is the audit's example: two not-found rounds
   replace the requested minimum 10 by 5, and 7 is returned *)
Lemma loop_exits_reachable :
  blocking_query 10 [(10, ENone, Fired); (12, ENone, Timeout)] = XIndex 12 /\
  blocking_query 10 [(10, ENone, Timeout)] = XTimeout 10 /\
  blocking_query 10 [(10, ENone, Abandoned)] = XAbandon 10 /\
  blocking_query 0 [(0, ENone, Timeout)] = XNonBlocking 1 /\
  blocking_query 10 [(3, ENotFound, Fired); (5, ENotFound, Fired); (7, ENone, Timeout)] = XIndex 7.
Proof. repeat split; vm_compute; reflexivity. Qed.

(* non-vacuity with a registration that meets svc_safe / chk_safe / NoDup on EXISTING rows: the
   service update case (same id and name, new port; its check re-registered with another status) *)
Definition ex_update : cmd :=
  Register "n1" 1 (Some (SvcSpec "s1" "web" false "" false [] 81)) [ChkSpec "c2" 1 "s1" 1; ChkSpec "serfHealth" 0 "" 0].
Lemma ex_update_safe : safe_cmd ex_update ex_state.
Proof.
  remember ex_state as s eqn:Es.
  assert (Hsv : services s !! ("n1", "s1") = Some (Svc "web" false "" false [] 80 2 2)) by (rewrite Es; vm_compute; reflexivity).
  assert (HC : Coherent s) by (rewrite Es; exact ex_coherent).
  clear Es. cbn [safe_cmd ex_update]. right. split.
  - intros o Ho. cbn [sp_id sp_name] in *. rewrite Hsv in Ho. injection Ho as <-. reflexivity.
  - intros cid c Hc Hid. cbn [sp_id sp_name] in *.
    assert (Hne : c_svc c <> "") by (rewrite Hid; discriminate).
    assert (Hsv' : services s !! ("n1", c_svc c) = Some (Svc "web" false "" false [] 80 2 2)) by (rewrite Hid; exact Hsv).
    pose proof (HC "n1" cid c _ Hc Hne Hsv') as H. symmetry. exact H.
Qed.
Lemma ex_update_changes : res (QCSN "web") (apply 9 ex_update ex_state) <> res (QCSN "web") ex_state.
Proof. apply neq_compute. vm_compute. reflexivity. Qed.
