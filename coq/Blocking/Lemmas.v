(* C06: basic facts about the index table operations, the bound invariant and the "changed row"
   predicate of the watch model. *)
From stdpp Require Import gmap strings.
From RecordUpdate Require Import RecordSet.
From Coq Require Import NArith Lia.
From Verif Require Import Blocking.Model.
Import RecordSetNotations.
Local Open Scope N_scope.

(* ---------- states are data + index ---------- *)
Lemma st_eta s : St (dt s) (index s) = s.
Proof. destruct s; reflexivity. Qed.

Lemma st_ext s s' : dt s = dt s' -> index s = index s' -> s = s'.
Proof. destruct s, s'; cbn; intros -> ->; reflexivity. Qed.

Lemma dt_iset k i s : dt (iset k i s) = dt s.
Proof. reflexivity. Qed.
Lemma dt_idel k s : dt (idel k s) = dt s.
Proof. reflexivity. Qed.
Lemma dt_ibump k i s : dt (ibump k i s) = dt s.
Proof. unfold ibump. destruct (index s !! k); [destruct (bool_decide _)|]; reflexivity. Qed.
Lemma dt_bump_names l i s : dt (bump_names l i s) = dt s.
Proof. induction l as [|x l IH]; cbn; [reflexivity|]. rewrite dt_ibump. exact IH. Qed.

Lemma index_iset k i s : index (iset k i s) = <[k := i]> (index s).
Proof. reflexivity. Qed.
Lemma index_idel k s : index (idel k s) = delete k (index s).
Proof. reflexivity. Qed.

(* ---------- the bound: every stamp the index rules read is at most i ---------- *)
Definition IdxBnd (i : N) (s : st) : Prop := forall k v, index s !! k = Some v -> v <= i.
Record Bnd (i : N) (s : st) : Prop := {
  bnd_index : IdxBnd i s;
  bnd_kv : forall k e, kvs s !! k = Some e -> kv_modify e <= i;
  bnd_tomb : forall k v, tombs s !! k = Some v -> v <= i
}.

Lemma Bnd_mono i j s : i <= j -> Bnd i s -> Bnd j s.
Proof.
  intros Hij [H1 H2 H3]. split.
  - intros k v Hk. specialize (H1 k v Hk). lia.
  - intros k e Hk. specialize (H2 k e Hk). lia.
  - intros k v Hk. specialize (H3 k v Hk). lia.
Qed.

Lemma iget_le i k s : IdxBnd i s -> iget k s <= i.
Proof.
  intros H. unfold iget. destruct (index s !! k) as [v|] eqn:E; cbn; [exact (H _ _ E)|lia].
Qed.

(* under the bound, indexUpdateMaxTxn is a plain insert *)
Lemma ibump_iset i k s : IdxBnd i s -> ibump k i s = iset k i s.
Proof.
  intros H. unfold ibump. destruct (index s !! k) as [c|] eqn:E; [|reflexivity].
  case_bool_decide as Hc; [|reflexivity].
  assert (c = i) as -> by (specialize (H _ _ E); lia).
  apply st_ext; [reflexivity|]. rewrite index_iset, insert_id; [reflexivity|exact E].
Qed.

Lemma IdxBnd_iset i k s : IdxBnd i s -> IdxBnd i (iset k i s).
Proof.
  intros H k' v. rewrite index_iset. intros Hk.
  apply lookup_insert_Some in Hk as [[_ <-]|[_ Hk]]; [lia|exact (H _ _ Hk)].
Qed.
Lemma IdxBnd_idel i k s : IdxBnd i s -> IdxBnd i (idel k s).
Proof.
  intros H k' v. rewrite index_idel. intros Hk. apply lookup_delete_Some in Hk as [_ Hk]. exact (H _ _ Hk).
Qed.
Lemma IdxBnd_ibump i k s : IdxBnd i s -> IdxBnd i (ibump k i s).
Proof. intros H. rewrite ibump_iset by exact H. apply IdxBnd_iset, H. Qed.
Lemma IdxBnd_dt i s f : IdxBnd i s -> IdxBnd i (s <| dt ::= f |>).
Proof. intros H. exact H. Qed.

Lemma bump_names_isets i l s :
  IdxBnd i s -> bump_names l i s = foldr (fun nm a => iset (k_svc nm) i a) s l.
Proof.
  intros H. induction l as [|x l IH]; cbn; [reflexivity|].
  rewrite <- IH. apply ibump_iset. clear IH.
  induction l as [|y l IH]; cbn; [exact H|]. apply IdxBnd_ibump, IH.
Qed.
Lemma IdxBnd_bump_names i l s : IdxBnd i s -> IdxBnd i (bump_names l i s).
Proof. intros H. induction l as [|y l IH]; cbn; [exact H|]. apply IdxBnd_ibump, IH. Qed.

Lemma index_isets i l s k :
  index (foldr (fun nm a => iset (k_svc nm) i a) s l) !! k =
  if bool_decide (k ∈ (k_svc <$> l)) then Some i else index s !! k.
Proof.
  induction l as [|x l IH]; cbn.
  - rewrite bool_decide_eq_false_2; [reflexivity|]. intros Hin. inversion Hin.
  - destruct (decide (k = k_svc x)) as [->|Hne].
    + rewrite lookup_insert. rewrite bool_decide_eq_true_2; [reflexivity|]. left.
    + rewrite lookup_insert_ne by congruence. rewrite IH.
      destruct (decide (k ∈ k_svc <$> l)) as [Hin|Hnin].
      * rewrite !bool_decide_eq_true_2; [reflexivity|right; exact Hin|exact Hin].
      * rewrite !bool_decide_eq_false_2; [reflexivity| |exact Hnin].
        intros Hin. apply elem_of_cons in Hin as [->|Hin]; [congruence|contradiction].
Qed.

(* ---------- key names are distinct ---------- *)
Lemma k_svc_inj a b : k_svc a = k_svc b -> a = b.
Proof. unfold k_svc. intros H. cbn in H. repeat (injection H as H). exact H. Qed.
Lemma k_node_inj a b : k_node a = k_node b -> a = b.
Proof. unfold k_node. intros H. cbn in H. repeat (injection H as H). exact H. Qed.

Ltac keyneq := let H := fresh in intros H; cbn in H; repeat (injection H as H); discriminate.

Lemma k_svc_fixed a k :
  k ∈ [k_kvs; k_tombs; k_sessions; k_nodes; k_services; k_checks; k_sext; k_next; k_coords; k_cfg; k_pq; k_roots] ->
  k_svc a <> k.
Proof.
  intros Hin. repeat (apply elem_of_cons in Hin as [->|Hin]); [..|inversion Hin];
    unfold k_svc; cbn; intros H; repeat (injection H as H); try discriminate.
Qed.
Lemma k_node_fixed a k :
  k ∈ [k_kvs; k_tombs; k_sessions; k_nodes; k_services; k_checks; k_sext; k_next; k_coords; k_cfg; k_pq; k_roots] ->
  k_node a <> k.
Proof.
  intros Hin. repeat (apply elem_of_cons in Hin as [->|Hin]); [..|inversion Hin];
    unfold k_node; cbn; intros H; repeat (injection H as H); try discriminate.
Qed.
Lemma k_svc_node a b : k_svc a <> k_node b.
Proof. unfold k_svc, k_node; cbn; intros H; repeat (injection H as H); discriminate. Qed.

(* ---------- chg: a watched row differs ---------- *)
Section chg.
  Context {K A : Type} `{Countable K} `{EqDecision A}.
  Lemma chg_true (m m' : gmap K A) f :
    chg m m' f = true <->
    exists k, m !! k <> m' !! k /\
              ((exists x, m !! k = Some x /\ f k x = true) \/ (exists x, m' !! k = Some x /\ f k x = true)).
  Proof.
    unfold chg. rewrite existsb_exists. split.
    - intros (k & _ & Hk). apply andb_true_iff in Hk as [Hne Hf].
      apply negb_true_iff, bool_decide_eq_false in Hne.
      exists k. split; [exact Hne|]. apply orb_true_iff in Hf as [Hf|Hf].
      + left. destruct (m !! k) as [x|]; [|discriminate]. exists x. split; [reflexivity|exact Hf].
      + right. destruct (m' !! k) as [x|]; [|discriminate]. exists x. split; [reflexivity|exact Hf].
    - intros (k & Hne & Hf). exists k. split.
      + apply elem_of_list_In, elem_of_elements, elem_of_union.
        destruct Hf as [(x & Hx & _)|(x & Hx & _)]; [left|right]; apply elem_of_dom; eexists; exact Hx.
      + apply andb_true_iff. split; [apply negb_true_iff, bool_decide_eq_false; exact Hne|].
        apply orb_true_iff. destruct Hf as [(x & -> & Hx)|(x & -> & Hx)]; [left|right]; exact Hx.
  Qed.

  Lemma map_neq_witness (m m' : gmap K A) : m <> m' -> exists k, m !! k <> m' !! k.
  Proof.
    intros Hne.
    destruct (decide (Forall (fun k => m !! k = m' !! k) (elements (dom m ∪ dom m')))) as [Hall|Hn].
    - exfalso. apply Hne, map_eq. intros k.
      destruct (decide (k ∈ dom m ∪ dom m')) as [Hin|Hnin].
      + rewrite Forall_forall in Hall. apply Hall, elem_of_elements, Hin.
      + apply not_elem_of_union in Hnin as [H1 H2]. apply not_elem_of_dom in H1, H2. congruence.
    - apply not_Forall_Exists in Hn; [|intros k; apply _]. apply Exists_exists in Hn as (k & _ & Hk). eauto.
  Qed.

  Lemma chg_at (m m' : gmap K A) f k :
    m !! k <> m' !! k ->
    (forall x, m !! k = Some x \/ m' !! k = Some x -> f k x = true) ->
    chg m m' f = true.
  Proof.
    intros Hne Hf. apply chg_true. exists k. split; [exact Hne|].
    destruct (m !! k) as [x|] eqn:E1.
    - left. exists x. split; [reflexivity|]. apply Hf. left; reflexivity.
    - destruct (m' !! k) as [x|] eqn:E2; [|congruence].
      right. exists x. split; [reflexivity|]. apply Hf. right; reflexivity.
  Qed.

  Lemma chg_all (m m' : gmap K A) : m <> m' -> chg m m' (fun _ _ => true) = true.
  Proof.
    intros Hne. destruct (map_neq_witness m m' Hne) as [k Hk].
    apply (chg_at m m' _ k Hk). reflexivity.
  Qed.
End chg.

(* ---------- mmax ---------- *)
Section mmax.
  Context {K A : Type} `{Countable K}.
  Lemma mmax_spec (f : A -> N) (m : gmap K A) :
    (forall k x, m !! k = Some x -> f x <= mmax f m) /\
    (mmax f m = 0 \/ exists k x, m !! k = Some x /\ f x = mmax f m).
  Proof.
    unfold mmax. apply (map_fold_ind (fun r m => (forall k x, m !! k = Some x -> f x <= r) /\
                                                 (r = 0 \/ exists k x, m !! k = Some x /\ f x = r))).
    - split; [intros k x Hk; rewrite lookup_empty in Hk; discriminate|left; reflexivity].
    - intros k x m' r Hk [IH1 IH2]. split.
      + intros k' x' Hk'. apply lookup_insert_Some in Hk' as [[-> ->]|[_ Hk']]; [lia|].
        specialize (IH1 _ _ Hk'). lia.
      + destruct (N.max_spec (f x) r) as [[Hlt ->]|[Hle ->]].
        * destruct IH2 as [->|(k' & x' & Hk' & Hx')]; [lia|].
          right. exists k', x'. split; [|exact Hx'].
          rewrite lookup_insert_ne; [exact Hk'|]. intros ->. congruence.
        * right. exists k, x. split; [apply lookup_insert|reflexivity].
  Qed.
  Lemma mmax_ub (f : A -> N) (m : gmap K A) k x : m !! k = Some x -> f x <= mmax f m.
  Proof. apply mmax_spec. Qed.
  Lemma mmax_le (f : A -> N) (m : gmap K A) b : (forall k x, m !! k = Some x -> f x <= b) -> mmax f m <= b.
  Proof.
    intros Hb. destruct (mmax_spec f m) as [_ [->|(k & x & Hk & <-)]]; [lia|exact (Hb _ _ Hk)].
  Qed.
End mmax.

(* ---------- prefixes ---------- *)
Lemma has_prefix_nil k : has_prefix "" k = true.
Proof. destruct k; reflexivity. Qed.
Lemma has_prefix_of_nil p : has_prefix p "" = true -> p = "".
Proof. destruct p; [reflexivity|discriminate]. Qed.
Lemma has_prefix_comparable p p' k :
  has_prefix p k = true -> has_prefix p' k = true -> has_prefix p p' = true \/ has_prefix p' p = true.
Proof.
  unfold has_prefix. revert p p'. induction k as [|c k IH]; intros p p' H1 H2.
  - destruct p; [|discriminate]. left. destruct p'; reflexivity.
  - destruct p as [|a p]; [left; destruct p'; reflexivity|].
    destruct p' as [|b p']; [right; reflexivity|].
    cbn in H1, H2. destruct (Ascii.ascii_dec a c) as [->|]; [|discriminate].
    destruct (Ascii.ascii_dec b c) as [->|]; [|discriminate].
    cbn. destruct (Ascii.ascii_dec c c); [|congruence]. apply IH; assumption.
Qed.
Lemma has_prefix_trans a b c : has_prefix a b = true -> has_prefix b c = true -> has_prefix a c = true.
Proof.
  unfold has_prefix. revert b c. induction a as [|x a IH]; intros b c H1 H2; [destruct c; reflexivity|].
  destruct b as [|y b]; [discriminate|]. destruct c as [|z c]; [discriminate|].
  cbn in *. destruct (Ascii.ascii_dec x y) as [->|]; [|discriminate].
  destruct (Ascii.ascii_dec y z) as [->|]; [|discriminate]. eapply IH; eassumption.
Qed.
