(* C06: the catalog queries with per-entity index rows: NodeServices (node.<n> / node extinction)
   and the service-name family ServiceNodes / ServiceTagNodes / CheckServiceNodes /
   CheckServiceTagNodes (service.<name> / service extinction / catalog maximum). *)
From stdpp Require Import gmap strings.
From RecordUpdate Require Import RecordSet.
From Coq Require Import NArith Lia.
From Verif Require Import Blocking.Model Blocking.Lemmas Blocking.Prims Blocking.Valid Blocking.Index.
Import RecordSetNotations.
Local Open Scope N_scope.

(* ---------- NodeServices ---------- *)
Lemma svcs_of_node_lookup n (s : st) k :
  svcs_of_node n s !! k = if bool_decide (k.1 = n) then services s !! k else None.
Proof.
  unfold svcs_of_node. case_bool_decide as E.
  - destruct (services s !! k) as [x|] eqn:Ek.
    + apply map_filter_lookup_Some. split; assumption.
    + apply map_filter_lookup_None. left. exact Ek.
  - apply map_filter_lookup_None. right. intros x _. exact E.
Qed.

Lemma node_services_changed i p s n :
  IdxBnd i s -> pvalid i p s ->
  res (QNodeServices n) s <> res (QNodeServices n) (papply i p s) ->
  idx (QNodeServices n) (papply i p s) = i.
Proof.
  intros HB Hv Hc. cbn [res idx] in *.
  destruct (decide (nodes (papply i p s) !! n = nodes s !! n)) as [Hn|Hn].
  - (* the node row is the same: a service of the node changed *)
    rewrite Hn in *. destruct (nodes s !! n) as [x|] eqn:En; [|contradiction Hc; reflexivity].
    assert (Hs : svcs_of_node n (papply i p s) <> svcs_of_node n s) by (intros Heq; apply Hc; rewrite Heq; reflexivity).
    destruct (map_neq_witness _ _ Hs) as [k Hk]. rewrite !svcs_of_node_lookup in Hk.
    case_bool_decide as Ek; [|contradiction Hk; reflexivity].
    apply set_key_iget; [exact HB|]. rewrite services_papply in Hk.
    destruct p; try (contradiction Hk; reflexivity).
    + destruct (decide (k = (n0, sid))) as [->|Hne]; [cbn in Ek; subst; cbn; set_solver|].
      rewrite lookup_insert_ne in Hk by congruence. contradiction Hk; reflexivity.
    + destruct (decide (k = (n0, sid))) as [->|Hne].
      * cbn in Ek. subst. cbn. destruct (services s !! (n, sid)) eqn:E; [set_solver|].
        rewrite lookup_delete in Hk. contradiction Hk; reflexivity.
      * rewrite lookup_delete_ne in Hk by congruence. contradiction Hk; reflexivity.
  - rewrite nodes_papply in Hn |- *.
    destruct p; try (contradiction Hn; reflexivity).
    + destruct (decide (n = n0)) as [->|Hne]; [|rewrite lookup_insert_ne in Hn by congruence; contradiction Hn; reflexivity].
      rewrite lookup_insert. apply set_key_iget; [exact HB|]. cbn. set_solver.
    + destruct (decide (n = n0)) as [->|Hne]; [|rewrite lookup_delete_ne in Hn by congruence; contradiction Hn; reflexivity].
      rewrite lookup_delete. apply set_key_iget; [exact HB|]. cbn. set_solver.
Qed.

Lemma node_services_mono i p s n :
  IdxBnd i s -> pvalid i p s -> idx (QNodeServices n) s <= idx (QNodeServices n) (papply i p s).
Proof.
  intros HB Hv.
  assert (Hle : idx (QNodeServices n) s <= i) by (cbn [idx]; destruct (nodes s !! n); apply iget_le, HB).
  destruct (decide (res (QNodeServices n) s = res (QNodeServices n) (papply i p s))) as [Heq|Hne].
  2: { rewrite (node_services_changed i p s n HB Hv Hne). exact Hle. }
  cbn [idx res] in *.
