(* C06 -- blocking-query contract.  Model of the part of consul's state store that decides what
   index a read reports and what it watches (agent/consul/state: kvs.go, kvs_ce.go, graveyard*.go,
   session*.go, catalog.go, catalog_ce.go, coordinate*.go, config_entry.go, prepared_query.go,
   connect_ca.go, state_store.go), and of the blocking loop (agent/blockingquery/blockingquery.go).

   Writes are compositions of primitive steps [prim]; one primitive = one of the low-level Go
   helpers that changes rows of ONE table together with the index-table rows it maintains
   (insertKVTxn, kvsDeleteTxn, catalogInsertNode, catalogInsertService, the tail of
   deleteServiceTxn, ...).  The verbs below call the primitives in the order of the *Txn functions.
   For every query three functions of the state: [res] (canonical result), [idx] (the index rule,
   exactly) and [ws] (what the query adds to the memdb.WatchSet).  What a write fires is read off
   the pair (state before, state after): a radix node fires when a row under it differs.

   Fragment (see the trusted base in the evidence): node IDs are empty (no rename by ID), no
   session-type checks, no gateways/peers, lower-case names; service_kind.* and the un-peered
   duplicates of the catalog index rows are omitted (no modelled query reads them).
   std++ style.  No proofs in this file. *)
From stdpp Require Import gmap strings sorting.
From RecordUpdate Require Import RecordSet.
From Coq Require Import NArith.
Import RecordSetNotations.
Local Open Scope N_scope.

(* ---------- rows ---------- *)
Record kvent := KV { kv_val : N; kv_flags : N; kv_sess : string; kv_lock : N; kv_create : N; kv_modify : N }.
Record sess := Sess { ss_node : string; ss_del : bool (* behaviour "delete" *); ss_checks : list string; ss_create : N }.
Record node := Node { n_addr : N; n_create : N; n_modify : N }.
Record svc := Svc { sv_name : string; sv_proxy : bool (* kind connect-proxy *); sv_dest : string;
                    sv_native : bool; sv_tags : list string; sv_port : N; sv_create : N; sv_modify : N }.
Record chk := Chk { c_status : N (* 0 passing 1 warning 2 critical *); c_svc : string (* service id, "" = node level *);
                    c_svcname : string; c_svctags : list string; c_output : N; c_create : N; c_modify : N }.
(* generic rows: config entries (a = ""), prepared queries (a = session) *)
Record gent := Gen { g_a : string; g_c : N; g_create : N; g_modify : N }.
Record root := Root { r_active : bool; r_create : N; r_modify : N }.

#[global] Instance kvent_eq_dec : EqDecision kvent. Proof. solve_decision. Defined.
#[global] Instance sess_eq_dec : EqDecision sess. Proof. solve_decision. Defined.
#[global] Instance node_eq_dec : EqDecision node. Proof. solve_decision. Defined.
#[global] Instance svc_eq_dec : EqDecision svc. Proof. solve_decision. Defined.
#[global] Instance chk_eq_dec : EqDecision chk. Proof. solve_decision. Defined.
#[global] Instance gent_eq_dec : EqDecision gent. Proof. solve_decision. Defined.
#[global] Instance root_eq_dec : EqDecision root. Proof. solve_decision. Defined.

#[global] Instance eta_kvent : Settable _ := settable! KV <kv_val; kv_flags; kv_sess; kv_lock; kv_create; kv_modify>.
#[global] Instance eta_svc : Settable _ :=
  settable! Svc <sv_name; sv_proxy; sv_dest; sv_native; sv_tags; sv_port; sv_create; sv_modify>.
#[global] Instance eta_chk : Settable _ :=
  settable! Chk <c_status; c_svc; c_svcname; c_svctags; c_output; c_create; c_modify>.

(* the data tables, and the state = data + the index table *)
Record dat := Dat {
  kvs : gmap string kvent;
  tombs : gmap string N;
  sessions : gmap string sess;
  schecks : gset (string * string * string);      (* session_checks: (node, check id, session id) *)
  nodes : gmap string node;
  services : gmap (string * string) svc;          (* (node, service id) *)
  checks : gmap (string * string) chk;            (* (node, check id) *)
  coords : gmap string N;
  cfgs : gmap (string * string) gent;             (* (kind, name) *)
  pqs : gmap string gent;
  roots : gmap string root
}.
#[global] Instance eta_dat : Settable _ :=
  settable! Dat <kvs; tombs; sessions; schecks; nodes; services; checks; coords; cfgs; pqs; roots>.
Record st := St {
  dt :> dat;
  index : gmap string N                           (* the index table *)
}.
#[global] Instance eta_st : Settable _ := settable! St <dt; index>.

Definition st0 : st := St (Dat ∅ ∅ ∅ ∅ ∅ ∅ ∅ ∅ ∅ ∅ ∅) ∅.

(* ---------- the index table ---------- *)
Definition k_kvs : string := "kvs".
Definition k_tombs : string := "tombstones".
Definition k_sessions : string := "sessions".
Definition k_nodes : string := "peer.internal:nodes".
Definition k_services : string := "peer.internal:services".
Definition k_checks : string := "peer.internal:checks".
Definition k_sext : string := "peer.internal:service_last_extinction".
Definition k_next : string := "peer.internal:node_last_extinction".
Definition k_svc (name : string) : string := "peer.internal:service." +:+ name.
Definition k_node (n : string) : string := "peer.internal:node." +:+ n.
Definition k_coords : string := "coordinates".
Definition k_cfg : string := "config-entries".
Definition k_pq : string := "prepared-queries".
Definition k_roots : string := "connect-ca-roots".

Definition iget (k : string) (s : st) : N := default 0 (index s !! k).
(* tx.Insert(tableIndex, &IndexEntry{k, i}) *)
Definition iset (k : string) (i : N) (s : st) : st := s <| index ::= <[k := i]> |>.
(* indexUpdateMaxTxn *)
Definition ibump (k : string) (i : N) (s : st) : st :=
  match index s !! k with
  | Some c => if bool_decide (i ≤ c) then s else iset k i s
  | None => iset k i s
  end.
Definition idel (k : string) (s : st) : st := s <| index ::= delete k |>.
(* maxIndexTxn *)
Definition imax (ks : list string) (s : st) : N := foldr (fun k a => N.max (iget k s) a) 0 ks.

Definition has_prefix (p k : string) : bool := String.prefix p k.

(* ---------- derived listings ---------- *)
Definition svcs_of_node (n : string) (s : st) : gmap (string * string) svc :=
  filter (fun kv => kv.1.1 = n) (services s).
Definition svcs_named (name : string) (s : st) : gmap (string * string) svc :=
  filter (fun kv => sv_name kv.2 = name) (services s).
Definition connect_name (sv : svc) : option string :=
  if sv_proxy sv then Some (sv_dest sv) else if sv_native sv then Some (sv_name sv) else None.
Definition svcs_connect (name : string) (s : st) : gmap (string * string) svc :=
  filter (fun kv => connect_name kv.2 = Some name) (services s).
Definition checks_of_node (n : string) (s : st) : gmap (string * string) chk :=
  filter (fun kv => kv.1.1 = n) (checks s).
Definition checks_of_svc (n sid : string) (s : st) : gmap (string * string) chk :=
  filter (fun kv => kv.1.1 = n /\ c_svc kv.2 = sid) (checks s).
Definition sessions_of_node (n : string) (s : st) : gmap string sess :=
  filter (fun kv => ss_node kv.2 = n) (sessions s).
Definition sessions_of_check (n cid : string) (s : st) : list string :=
  omap (fun '(n', c', sid) => if bool_decide (n' = n /\ c' = cid) then Some sid else None) (elements (schecks s)).
Definition names_of (m : gmap (string * string) svc) : list string :=
  remove_dups ((fun kv => sv_name kv.2) <$> map_to_list m).

(* ---------- primitive steps ---------- *)
Inductive prim :=
| PKvPut (k : string) (e : kvent)                 (* insertKVTxn *)
| PKvDel (k : string)                             (* kvsDeleteTxn on an existing key: tombstone + delete *)
| PKvDelTree (p : string)                         (* kvsDeleteTreeTxn *)
| PKvRelease (sid : string)                       (* deleteSessionTxn, behaviour release: kvsSetTxn on every held key *)
| PKvDelSess (sid : string)                       (* deleteSessionTxn, behaviour delete: kvsDeleteTxn on every held key *)
| PReap (upto : N)                                (* Graveyard.ReapTxn *)
| PSessPut (sid : string) (x : sess)              (* insertSessionTxn *)
| PSessDel (sid : string)                         (* sessionDeleteWithSession + removal of its check links *)
| PPqPut (id : string) (g : gent)                 (* preparedQuerySetTxn tail *)
| PPqDel (id : string)                            (* preparedQueryDeleteTxn *)
| PNodePut (n : string) (x : node)                (* catalogInsertNode *)
| PNodeDel (n : string)                           (* deleteNodeTxn: the node row, node.<n>, node extinction *)
| PSvcPut (n sid : string) (x : svc)              (* catalogInsertService *)
| PSvcDel (n sid : string)                        (* deleteServiceTxn after its checks are gone *)
| PChkPut (n cid : string) (x : chk)              (* ensureCheckTxn: service index rows + catalogInsertCheck *)
| PChkDel (n cid : string)                        (* deleteCheckTxn up to the session invalidation *)
| PBumpSvc (name : string)                        (* catalogUpdateServiceIndexes *)
| PBumpNodeSvcs (n : string)                      (* updateAllServiceIndexesOfNode *)
| PCoordPut (n : string) (c : N)                  (* ensureCoordinateTxn *)
| PCoordDel (n : string)                          (* deleteCoordinateTxn *)
| PCfgPut (kind name : string) (g : gent)         (* insertConfigEntryWithTxn *)
| PCfgDel (kind name : string)                    (* deleteConfigEntryTxn *)
| PRootsSet (m : gmap string root).               (* caRootCheckAndSetTxn: delete all, insert all *)

Definition bump_names (names : list string) (i : N) (s : st) : st :=
  foldr (fun nm a => ibump (k_svc nm) i a) s names.

Definition papply (i : N) (p : prim) (s : st) : st :=
  match p with
  | PKvPut k e => iset k_kvs i (s <| dt; kvs ::= <[k := e]> |>)
  | PKvDel k =>
    iset k_kvs i (iset k_tombs i (s <| dt; tombs ::= <[k := i]> |>) <| dt; kvs ::= delete k |>)
  | PKvDelTree p =>
    (* the keys under the prefix go, and so do the tombstones the delete subsumes; one tombstone
       for the prefix itself (none for the whole tree) *)
    let s1 := s <| dt; kvs ::= filter (fun kv => has_prefix p kv.1 = false) |>
                <| dt; tombs ::= filter (fun kt => has_prefix p kt.1 = false) |> in
    let s2 := if bool_decide (p = "") then s1 else iset k_tombs i (s1 <| dt; tombs ::= <[p := i]> |>) in
    iset k_kvs i s2
  | PKvRelease sid =>
    iset k_kvs i (s <| dt; kvs ::= fmap (fun e => if bool_decide (kv_sess e = sid)
                                              then e <| kv_sess := "" |> <| kv_modify := i |> else e) |>)
  | PKvDelSess sid =>
    let held := filter (fun kv => kv_sess kv.2 = sid) (kvs s) in
    iset k_kvs i (iset k_tombs i
      (s <| dt; tombs ::= fun t => ((fun _ => i) <$> held) ∪ t |>
         <| dt; kvs ::= filter (fun kv => kv_sess kv.2 ≠ sid) |>))
  | PReap upto => s <| dt; tombs ::= filter (fun kt => upto < kt.2) |>
  | PSessPut sid x =>
    iset k_sessions i
      (s <| dt; sessions ::= <[sid := x]> |>
         <| dt; schecks ::= fun m => list_to_set ((fun cid => (ss_node x, cid, sid)) <$> ss_checks x) ∪ m |>)
  | PSessDel sid =>
    iset k_sessions i (s <| dt; sessions ::= delete sid |> <| dt; schecks ::= filter (fun m => m.2 ≠ sid) |>)
  | PPqPut id g => iset k_pq i (s <| dt; pqs ::= <[id := g]> |>)
  | PPqDel id => iset k_pq i (s <| dt; pqs ::= delete id |>)
  | PNodePut n x =>
    let s1 := s <| dt; nodes ::= <[n := x]> |> in
    bump_names (names_of (svcs_of_node n s1)) i (ibump (k_node n) i (ibump k_nodes i s1))
  | PNodeDel n =>
    ibump k_next i (idel (k_node n) (ibump k_nodes i (s <| dt; nodes ::= delete n |>)))
  | PSvcPut n sid x =>
    let s1 := ibump (k_node n) i (ibump k_nodes i (ibump (k_svc (sv_name x)) i (ibump k_services i
                (s <| dt; services ::= <[(n, sid) := x]> |>)))) in
    (* ensureServiceTxn since 2c57fbe: the same id under another name leaves the old name, whose row is
       bumped while instances remain and replaced by the extinction index otherwise *)
    match services s !! (n, sid) with
    | Some o =>
      if bool_decide (sv_name o = sv_name x) then s1
      else if bool_decide (svcs_named (sv_name o) s1 = ∅)
           then ibump k_sext i (idel (k_svc (sv_name o)) s1)
           else ibump (k_svc (sv_name o)) i s1
    | None => s1
    end
  | PSvcDel n sid =>
    match services s !! (n, sid) with
    | None => s
    | Some x =>
      let s1 := ibump (k_node n) i (ibump k_nodes i (ibump k_services i (ibump k_checks i
                  (s <| dt; services ::= delete (n, sid) |>)))) in
      if bool_decide (svcs_named (sv_name x) s1 = ∅)
      then ibump k_sext i (idel (k_svc (sv_name x)) s1)
      else ibump (k_svc (sv_name x)) i s1
    end
  | PChkPut n cid x =>
    (* ensureCheckTxn since e956cb5: a check that leaves its service (another ServiceID) bumps the
       service it leaves, under the name the check row carries and (77429de) under that service's
       current name (all services of the node when it was node-level) *)
    let s0 := match checks s !! (n, cid) with
              | Some o =>
                if bool_decide (c_svc o = c_svc x) then s
                else if bool_decide (c_svc o = "") then bump_names (names_of (svcs_of_node n s)) i s
                     else
                       (* since 77429de: also the CURRENT name of the service it leaves *)
                       let s2 := ibump (k_svc (c_svcname o)) i s in
                       match services s !! (n, c_svc o) with
                       | Some sv => if bool_decide (sv_name sv = c_svcname o) then s2 else ibump (k_svc (sv_name sv)) i s2
                       | None => s2
                       end
              | None => s
              end in
    let s1 := if bool_decide (c_svc x = "") then bump_names (names_of (svcs_of_node n s0)) i s0
              else ibump (k_svc (c_svcname x)) i s0 in
    ibump k_checks i (s1 <| dt; checks ::= <[(n, cid) := x]> |>)
  | PChkDel n cid =>
    match checks s !! (n, cid) with
    | None => s
    | Some x =>
      let s1 := if bool_decide (c_svc x = "")
                then ibump k_services i (bump_names (names_of (svcs_of_node n s)) i s)
                else
                  (* since 566301e: also the CURRENT name of the check's service *)
                  let s2 := ibump (k_svc (c_svcname x)) i s in
                  match services s !! (n, c_svc x) with
                  | Some sv => if bool_decide (sv_name sv = c_svcname x) then s2 else ibump (k_svc (sv_name sv)) i s2
                  | None => s2
                  end in
      ibump k_checks i (s1 <| dt; checks ::= delete (n, cid) |>)
    end
  | PBumpSvc name => ibump (k_svc name) i s
  | PBumpNodeSvcs n => bump_names (names_of (svcs_of_node n s)) i s
  | PCoordPut n c => ibump k_coords i (s <| dt; coords ::= <[n := c]> |>)
  | PCoordDel n => ibump k_coords i (s <| dt; coords ::= delete n |>)
  | PCfgPut kind name g => ibump k_cfg i (s <| dt; cfgs ::= <[(kind, name) := g]> |>)
  | PCfgDel kind name => iset k_cfg i (s <| dt; cfgs ::= delete (kind, name) |>)
  | PRootsSet m => iset k_roots i (s <| dt; roots := m |>)
  end.

Definition prun (i : N) (ps : list prim) (s : st) : st := foldl (fun a p => papply i p a) s ps.

(* ---------- verbs: which primitives a command executes, in the order of the Go code ---------- *)
(* A verb returns the list of primitives it runs from the given state (they are generated while
   running: later primitives depend on the state the earlier ones leave), or None when the
   command fails -- the memdb transaction is then aborted and nothing changes. *)
Definition steps := list prim.

(* sequencing: run [a], then compute [b] from the state it leaves *)
Definition seq (i : N) (a : steps) (b : st -> steps) (s : st) : steps := a ++ b (prun i a s).
Fixpoint seq_all {A} (i : N) (f : A -> st -> steps) (l : list A) (s : st) : steps :=
  match l with
  | [] => []
  | x :: l' => seq i (f x s) (seq_all i f l') s
  end.

Definition kv_same (a b : kvent) : bool :=     (* DirEntry.Equal *)
  bool_decide (kv_lock a = kv_lock b) && bool_decide (kv_flags a = kv_flags b) &&
  bool_decide (kv_val a = kv_val b) && bool_decide (kv_sess a = kv_sess b).

(* kvsSetTxn *)
Definition kvs_set (i : N) (k : string) (val flags : N) (se : string) (lk : N) (upd : bool) (s : st) : steps :=
  let ex := kvs s !! k in
  let create := match ex with Some x => kv_create x | None => i end in
  let se' := if upd then se else match ex with Some x => kv_sess x | None => "" end in
  let e := KV val flags se' lk create i in
  match ex with
  | Some x => if kv_same x e then [] else [PKvPut k e]
  | None => [PKvPut k e]
  end.

(* kvsDeleteTxn *)
Definition kvs_delete (k : string) (s : st) : steps :=
  match kvs s !! k with None => [] | Some _ => [PKvDel k] end.

(* kvsDeleteTreeTxn *)
Definition kvs_delete_tree (p : string) (s : st) : steps :=
  if bool_decide (filter (fun kv => has_prefix p kv.1 = true) (kvs s) = ∅) then [] else [PKvDelTree p].

(* kvsSetCASTxn *)
Definition kvs_set_cas (i : N) (k : string) (val flags cidx : N) (s : st) : steps :=
  match kvs s !! k with
  | Some x => if bool_decide (cidx = 0) then []
              else if bool_decide (cidx = kv_modify x) then kvs_set i k val flags "" 0 false s else []
  | None => if bool_decide (cidx = 0) then kvs_set i k val flags "" 0 false s else []
  end.

(* kvsDeleteCASTxn *)
Definition kvs_delete_cas (k : string) (cidx : N) (s : st) : steps :=
  match kvs s !! k with
  | None => []
  | Some x => if bool_decide (kv_modify x = cidx) then [PKvDel k] else []
  end.

(* kvsLockTxn / kvsUnlockTxn *)
Definition kvs_lock (i : N) (k : string) (val flags : N) (sid : string) (s : st) : steps :=
  if bool_decide (sid = "") then [] else
  match sessions s !! sid with
  | None => []
  | Some _ =>
    match kvs s !! k with
    | Some x => if bool_decide (kv_sess x = sid) then kvs_set i k val flags sid (kv_lock x) true s
                else if bool_decide (kv_sess x = "") then kvs_set i k val flags sid (kv_lock x + 1) true s
                else []
    | None => kvs_set i k val flags sid 1 true s
    end
  end.
Definition kvs_unlock (i : N) (k : string) (val flags : N) (sid : string) (s : st) : steps :=
  if bool_decide (sid = "") then [] else
  match kvs s !! k with
  | None => []
  | Some x => if bool_decide (kv_sess x = sid) then kvs_set i k val flags "" (kv_lock x) true s else []
  end.

(* deleteSessionTxn (no session-type checks in this fragment: updateSessionCheck finds nothing) *)
Definition delete_session (i : N) (sid : string) (s : st) : steps :=
  match sessions s !! sid with
  | None => []
  | Some x =>
    [PSessDel sid]
    ++ (if bool_decide (filter (fun kv => kv_sess kv.2 = sid) (kvs s) = ∅) then []
        else if ss_del x then [PKvDelSess sid] else [PKvRelease sid])
    ++ ((fun kv => PPqDel kv.1) <$> map_to_list (filter (fun kv => g_a kv.2 = sid) (pqs s)))
  end.

(* sessionCreateTxn *)
Definition session_create (i : N) (sid n : string) (del : bool) (cks : list string) (s : st) : option steps :=
  match nodes s !! n with
  | None => None
  | Some _ =>
    if forallb (fun cid => match checks s !! (n, cid) with
                           | None => false
                           | Some c => negb (bool_decide (c_status c = 2))
                           end) cks
    then Some [PSessPut sid (Sess n del cks i)]
    else None
  end.

(* ensureNodeTxn with an empty node ID *)
Definition ensure_node (i : N) (n : string) (addr : N) (s : st) : steps :=
  match nodes s !! n with
  | Some x => if bool_decide (n_addr x = addr) then [] else [PNodePut n (Node addr (n_create x) i)]
  | None => [PNodePut n (Node addr i i)]
  end.

Record svcspec := SvcSpec { sp_id : string; sp_name : string; sp_proxy : bool; sp_dest : string;
                            sp_native : bool; sp_tags : list string; sp_port : N }.
Definition same_service (x : svc) (sp : svcspec) : bool :=   (* ServiceNode.IsSameService on the modelled fields *)
  bool_decide (sv_name x = sp_name sp) && bool_decide (sv_proxy x = sp_proxy sp) &&
  bool_decide (sv_dest x = sp_dest sp) && bool_decide (sv_native x = sp_native sp) &&
  bool_decide (sv_tags x = sp_tags sp) && bool_decide (sv_port x = sp_port sp).

(* ensureServiceTxn *)
Definition ensure_service (i : N) (n : string) (sp : svcspec) (s : st) : option steps :=
  match nodes s !! n with
  | None => None
  | Some _ =>
    let mk c := Svc (sp_name sp) (sp_proxy sp) (sp_dest sp) (sp_native sp) (sp_tags sp) (sp_port sp) c i in
    match services s !! (n, sp_id sp) with
    | Some x => if same_service x sp then Some [] else Some [PSvcPut n (sp_id sp) (mk (sv_create x))]
    | None => Some [PSvcPut n (sp_id sp) (mk i)]
    end
  end.

Record chkspec := ChkSpec { cs_id : string; cs_status : N; cs_svc : string; cs_output : N }.
Definition chk_same (a b : chk) : bool :=      (* HealthCheck.IsSame on the modelled fields *)
  bool_decide (c_status a = c_status b) && bool_decide (c_output a = c_output b) &&
  bool_decide (c_svc a = c_svc b) && bool_decide (c_svcname a = c_svcname b) &&
  bool_decide (c_svctags a = c_svctags b).

(* ensureCheckTxn: service lookup, index rows of the service(s), session invalidation when
   critical, then the row.  The code bumps the service index rows BEFORE it invalidates sessions
   and inserts the row after; the row-insert primitive repeats that (idempotent) bump so that it
   carries its own bookkeeping -- same final state, checked by the correspondence on every run. *)
Definition ensure_check (i : N) (n : string) (cs : chkspec) (s : st) : option steps :=
  match nodes s !! n with
  | None => None
  | Some _ =>
    let ex := checks s !! (n, cs_id cs) in
    let create := match ex with Some x => c_create x | None => i end in
    let mk nm tags := Chk (cs_status cs) (cs_svc cs) nm tags (cs_output cs) create i in
    let hc := if bool_decide (cs_svc cs = "") then Some (mk "" [])
              else match services s !! (n, cs_svc cs) with
                   | None => None
                   | Some sv => Some (mk (sv_name sv) (sv_tags sv))
                   end in
    match hc with
    | None => None
    | Some hc =>
      let modified := match ex with Some x => negb (chk_same x hc) | None => true end in
      let bump := if modified then (if bool_decide (cs_svc cs = "") then [PBumpNodeSvcs n] else [PBumpSvc (c_svcname hc)])
                  else [] in
      Some (seq i bump (fun s1 =>
              seq i (if bool_decide (cs_status cs = 2)
                     then seq_all i (fun sid => delete_session i sid) (sessions_of_check n (cs_id cs) s1) s1
                     else [])
                    (fun _ => if modified then [PChkPut n (cs_id cs) hc] else []) s1) s)
    end
  end.

(* deleteCheckTxn *)
Definition delete_check (i : N) (n cid : string) (s : st) : steps :=
  match checks s !! (n, cid) with
  | None => []
  | Some _ =>
    seq i [PChkDel n cid] (fun s1 => seq_all i (fun sid => delete_session i sid) (sessions_of_check n cid s1) s1) s
  end.

(* deleteServiceTxn *)
Definition delete_service (i : N) (n sid : string) (s : st) : steps :=
  match services s !! (n, sid) with
  | None => []
  | Some _ =>
    seq i (seq_all i (fun kv => delete_check i n kv.1.2) (map_to_list (checks_of_svc n sid s)) s)
        (fun _ => [PSvcDel n sid]) s
  end.

(* deleteNodeTxn walks the node's services through the memdb node index, i.e. in the byte order of
   the service ids.  The order is observable: deleting the checks of a later service may bump (and
   re-create) the index row of a name an earlier service has just made extinct, when a check still
   carries that name from before a rename. *)
Definition svc_id_le (a b : string * string * svc) : Prop := String.leb a.1.2 b.1.2 = true.
#[global] Instance svc_id_le_dec a b : Decision (svc_id_le a b). Proof. unfold svc_id_le. apply _. Defined.
Definition svcs_in_id_order (n : string) (s : st) : list (string * string * svc) :=
  merge_sort svc_id_le (map_to_list (svcs_of_node n s)).

(* deleteNodeTxn *)
Definition delete_node (i : N) (n : string) (s : st) : steps :=
  match nodes s !! n with
  | None => []
  | Some _ =>
    seq i ((fun nm => PBumpSvc nm) <$> names_of (svcs_of_node n s)) (fun s1 =>
    seq i (seq_all i (fun kv => delete_service i n kv.1.2) (svcs_in_id_order n s1) s1) (fun s2 =>
    seq i (seq_all i (fun kv => delete_check i n kv.1.2) (map_to_list (checks_of_node n s2)) s2) (fun s3 =>
    seq i (match coords s3 !! n with Some _ => [PCoordDel n] | None => [] end) (fun s4 =>
    seq i [PNodeDel n] (fun s5 =>
    seq_all i (fun kv => delete_session i kv.1) (map_to_list (sessions_of_node n s5)) s5) s4) s3) s2) s1) s
  end.

(* ---------- commands ---------- *)
Inductive cmd :=
| KVSet (k : string) (val flags : N)
| KVDelete (k : string)
| KVDeleteTree (p : string)
| KVCas (k : string) (val flags cidx : N)
| KVDeleteCas (k : string) (cidx : N)
| KVLock (k : string) (val flags : N) (sid : string)
| KVUnlock (k : string) (val flags : N) (sid : string)
| Reap (upto : N)
| SessCreate (sid n : string) (del : bool) (cks : list string)
| SessDestroy (sid : string)
| EnsureNode (n : string) (addr : N)
| EnsureSvc (n : string) (sp : svcspec)
| EnsureCheck (n : string) (cs : chkspec)
| Register (n : string) (addr : N) (sp : option svcspec) (cks : list chkspec)
| DelNode (n : string)
| DelSvc (n sid : string)
| DelCheck (n cid : string)
| CoordSet (n : string) (c : N)
| CfgSet (kind name : string) (c : N)
| CfgDel (kind name : string)
| PQSet (id sid : string) (c : N)
| PQDel (id : string)
| CASet (cidx : N) (rs : list string).     (* root ids, the first is the active one *)

(* option-sequencing for the registration *)
Definition oseq (i : N) (a : option steps) (b : st -> option steps) (s : st) : option steps :=
  match a with
  | None => None
  | Some pa => match b (prun i pa s) with None => None | Some pb => Some (pa ++ pb) end
  end.
Fixpoint oseq_all {A} (i : N) (f : A -> st -> option steps) (l : list A) (s : st) : option steps :=
  match l with
  | [] => Some []
  | x :: l' => oseq i (f x s) (oseq_all i f l') s
  end.

Definition trace (i : N) (c : cmd) (s : st) : option steps :=
  match c with
  | KVSet k val flags => Some (kvs_set i k val flags "" 0 false s)
  | KVDelete k => Some (kvs_delete k s)
  | KVDeleteTree p => Some (kvs_delete_tree p s)
  | KVCas k val flags cidx => Some (kvs_set_cas i k val flags cidx s)
  | KVDeleteCas k cidx => Some (kvs_delete_cas k cidx s)
  | KVLock k val flags sid => Some (kvs_lock i k val flags sid s)
  | KVUnlock k val flags sid => Some (kvs_unlock i k val flags sid s)
  | Reap upto => Some [PReap upto]
  | SessCreate sid n del cks => session_create i sid n del cks s
  | SessDestroy sid => Some (delete_session i sid s)
  | EnsureNode n addr => Some (ensure_node i n addr s)
  | EnsureSvc n sp => ensure_service i n sp s
  | EnsureCheck n cs => ensure_check i n cs s
  | Register n addr sp cks =>
    (* ensureRegistrationTxn: node, then the service, then the checks *)
    oseq i (Some (ensure_node i n addr s)) (fun s1 =>
    oseq i (match sp with Some sp => ensure_service i n sp s1 | None => Some [] end) (fun s2 =>
    oseq_all i (fun cs => ensure_check i n cs) cks s2) s1) s
  | DelNode n => Some (delete_node i n s)
  | DelSvc n sid => Some (delete_service i n sid s)
  | DelCheck n cid => Some (delete_check i n cid s)
  | CoordSet n c => match nodes s !! n with Some _ => Some [PCoordPut n c] | None => Some [] end
  | CfgSet kind name c =>
    let create := match cfgs s !! (kind, name) with Some x => g_create x | None => i end in
    Some [PCfgPut kind name (Gen "" c create i)]
  | CfgDel kind name => match cfgs s !! (kind, name) with Some _ => Some [PCfgDel kind name] | None => Some [] end
  | PQSet id sid c =>
    if bool_decide (sid = "") || bool_decide (is_Some (sessions s !! sid))
    then let create := match pqs s !! id with Some x => g_create x | None => i end in
         Some [PPqPut id (Gen sid c create i)]
    else None
  | PQDel id => match pqs s !! id with Some _ => Some [PPqDel id] | None => Some [] end
  | CASet cidx rs =>
    if bool_decide (iget k_roots s = cidx) then
      match rs with
      | [] => None
      | a :: _ =>
        Some [PRootsSet (list_to_map ((fun r => (r, Root (bool_decide (r = a))
                                                   (match roots s !! r with Some x => r_create x | None => i end) i)) <$> rs))]
      end
    else Some []
  end.

Definition apply (i : N) (c : cmd) (s : st) : st :=
  match trace i c s with
  | Some ps => prun i ps s
  | None => s
  end.

Fixpoint run (log : list (N * cmd)) (s : st) : st :=
  match log with
  | [] => s
  | (i, c) :: rest => run rest (apply i c s)
  end.

(* ---------- queries ---------- *)
Inductive query :=
| QKVGet (k : string)                 (* Store.KVSGet *)
| QKVGetEP (k : string)               (* KVS.Get: the entry's ModifyIndex when it exists *)
| QKVList (p : string)                (* Store.KVSList / KVS.List *)
| QKVKeys (p sep : string)            (* KVS.ListKeys *)
| QSessGet (id : string)
| QSessList
| QNodeSess (n : string)
| QNodes
| QServices                           (* Catalog.ListServices: name -> tags *)
| QServiceList
| QSvcNodes (name : string)
| QSvcTagNodes (name tag : string)
| QConnectNodes (name : string)
| QNodeServices (n : string)
| QNodeChecks (n : string)
| QSvcChecks (name : string)
| QChecksState (stt : option N)       (* None = any *)
| QCSN (name : string)
| QCSNConnect (name : string)
| QCSNTag (name tag : string)
| QCoords
| QCoord (n : string)
| QCfgGet (kind name : string)
| QCfgKind (kind : string)            (* "" = all *)
| QCARoots
| QPQGet (id : string)
| QPQList.

(* results, typed *)
Inductive rval :=
| RKV (m : gmap string kvent)
| RKeys (m : gset string)
| RSess (m : gmap string sess)
| RNodes (m : gmap string node)
| RTags (m : gmap string (list string))             (* service name -> sorted, duplicate-free tags *)
| RSvcNodes (m : gmap (string * string) (option node * svc))
| RNodeSvcs (o : option (node * gmap (string * string) svc))
| RChecks (m : gmap (string * string) chk)
| RCSN (m : gmap (string * string) (option node * svc * gmap (string * string) chk))
| RCoords (m : gmap string N)
| RGen (m : gmap (string * string) gent)
| RPQ (m : gmap string gent)
| RRoots (m : gmap string root).
#[global] Instance rval_eq_dec : EqDecision rval. Proof. solve_decision. Defined.

Definition single {K A} `{Countable K} (k : K) (o : option A) : gmap K A :=
  match o with Some x => {[k := x]} | None => ∅ end.

(* KVS.ListKeys: cut each key after the first separator that follows the prefix *)
Definition find_sep (sep after : string) : option nat :=
  if bool_decide (sep = "") then None else String.index 0 sep after.
Definition cut_key (p sep k : string) : string :=
  let pl := String.length p in
  match find_sep sep (String.substring pl (String.length k - pl) k) with
  | Some si => String.substring 0 (pl + si + String.length sep) k
  | None => k
  end.

Fixpoint sinsert (x : string) (l : list string) : list string :=
  match l with
  | [] => [x]
  | y :: l' => if bool_decide (x = y) then l else if String.leb x y then x :: l else y :: sinsert x l'
  end.
Definition tags_union (a b : list string) : list string := foldr sinsert b a.

Definition has_tag (tag : string) (sv : svc) : bool := bool_decide (tag ∈ sv_tags sv).

Definition join_node (s : st) (m : gmap (string * string) svc) : gmap (string * string) (option node * svc) :=
  map_imap (fun k sv => Some (nodes s !! k.1, sv)) m.
Definition checks_for (s : st) (n sid : string) : gmap (string * string) chk :=
  filter (fun kv => kv.1.1 = n /\ (c_svc kv.2 = "" \/ c_svc kv.2 = sid)) (checks s).
Definition join_csn (s : st) (m : gmap (string * string) svc)
  : gmap (string * string) (option node * svc * gmap (string * string) chk) :=
  map_imap (fun k sv => Some (nodes s !! k.1, sv, checks_for s k.1 k.2)) m.

Definition res (q : query) (s : st) : rval :=
  match q with
  | QKVGet k | QKVGetEP k => RKV (single k (kvs s !! k))
  | QKVList p => RKV (filter (fun kv => has_prefix p kv.1 = true) (kvs s))
  | QKVKeys p sep =>
    RKeys (list_to_set ((fun kv => cut_key p sep kv.1) <$>
                          map_to_list (filter (fun kv => has_prefix p kv.1 = true) (kvs s))))
  | QSessGet id => RSess (single id (sessions s !! id))
  | QSessList => RSess (sessions s)
  | QNodeSess n => RSess (sessions_of_node n s)
  | QNodes => RNodes (nodes s)
  | QServices =>
    RTags (map_fold (fun _ sv (acc : gmap string (list string)) =>
                       <[sv_name sv := tags_union (sv_tags sv) (default [] (acc !! sv_name sv))]> acc)
                    ∅ (services s))
  | QServiceList =>
    RKeys (list_to_set ((fun kv => sv_name kv.2) <$> map_to_list (services s)))
  | QSvcNodes name => RSvcNodes (join_node s (svcs_named name s))
  | QSvcTagNodes name tag => RSvcNodes (join_node s (filter (fun kv => has_tag tag kv.2 = true) (svcs_named name s)))
  | QConnectNodes name => RSvcNodes (join_node s (svcs_connect name s))
  | QNodeServices n =>
    RNodeSvcs (match nodes s !! n with Some x => Some (x, svcs_of_node n s) | None => None end)
  | QNodeChecks n => RChecks (checks_of_node n s)
  | QSvcChecks name => RChecks (filter (fun kv => c_svcname kv.2 = name) (checks s))
  | QChecksState None => RChecks (checks s)
  | QChecksState (Some stt) => RChecks (filter (fun kv => c_status kv.2 = stt) (checks s))
  | QCSN name => RCSN (join_csn s (svcs_named name s))
  | QCSNConnect name => RCSN (join_csn s (svcs_connect name s))
  | QCSNTag name tag => RCSN (join_csn s (filter (fun kv => has_tag tag kv.2 = true) (svcs_named name s)))
  | QCoords => RCoords (coords s)
  | QCoord n => RCoords (single n (coords s !! n))
  | QCfgGet kind name => RGen (single (kind, name) (cfgs s !! (kind, name)))
  | QCfgKind kind => RGen (if bool_decide (kind = "") then cfgs s else filter (fun kv => kv.1.1 = kind) (cfgs s))
  | QCARoots => RRoots (roots s)
  | QPQGet id => RPQ (single id (pqs s !! id))
  | QPQList => RPQ (pqs s)
  end.

(* ---------- index rules ---------- *)
Definition mmax {K A} `{Countable K} (f : A -> N) (m : gmap K A) : N :=
  map_fold (fun _ x a => N.max (f x) a) 0 m.

Definition kv_table_max (s : st) : N := imax [k_kvs; k_tombs] s.

(* kvsListTxn *)
Definition kv_list_index (p : string) (s : st) : N :=
  let tmax := kv_table_max s in
  let l := mmax kv_modify (filter (fun kv => has_prefix p kv.1 = true) (kvs s)) in
  let l' := if bool_decide (p = "") then tmax
            else N.max l (mmax id (filter (fun kt => has_prefix p kt.1 = true) (tombs s))) in
  if bool_decide (l' = 0) then tmax else l'.

Definition catalog_max (with_checks : bool) (s : st) : N :=
  if with_checks then imax [k_checks; k_services; k_nodes] s else imax [k_services; k_nodes] s.

(* maxIndexAndWatchChForService: the index and, when it is the service.<name> row, that row's key *)
Definition svc_index (name : string) (svc_exists with_checks : bool) (s : st) : N * option string :=
  match (if svc_exists then None else index s !! k_sext) with
  | Some e => (e, None)
  | None =>
    match index s !! k_svc name with
    | Some v => (v, Some (k_svc name))
    | None => (catalog_max with_checks s, None)
    end
  end.

Definition nonempty {K A} `{Countable K} (m : gmap K A) : bool := negb (bool_decide (m = ∅)).

(* checkServiceNodesTxn: index over the service names present in the result *)
Definition csn_index (name : string) (m : gmap (string * string) svc) (s : st) : N :=
  if nonempty m then foldr (fun nm a => N.max (svc_index nm true true s).1 a) 0 (names_of m)
  else (svc_index name false true s).1.

Definition idx (q : query) (s : st) : N :=
  match q with
  | QKVGet _ => kv_table_max s
  | QKVGetEP k => match kvs s !! k with Some e => kv_modify e | None => kv_table_max s end
  | QKVList p | QKVKeys p _ => kv_list_index p s
  | QSessGet _ | QSessList | QNodeSess _ => iget k_sessions s
  | QNodes => iget k_nodes s
  | QServices | QServiceList => iget k_services s
  | QSvcNodes name => (svc_index name (nonempty (svcs_named name s)) false s).1
  | QSvcTagNodes name _ => (svc_index name (nonempty (svcs_named name s)) false s).1
  | QConnectNodes name => (svc_index name (nonempty (svcs_connect name s)) false s).1
  | QNodeServices n => match nodes s !! n with Some _ => iget (k_node n) s | None => iget k_next s end
  | QNodeChecks _ | QSvcChecks _ | QChecksState _ => iget k_checks s
  | QCSN name => csn_index name (svcs_named name s) s
  | QCSNConnect name => csn_index name (svcs_connect name s) s
  | QCSNTag name _ => (svc_index name (nonempty (svcs_named name s)) true s).1
  | QCoords | QCoord _ => iget k_coords s
  | QCfgGet _ _ | QCfgKind _ => iget k_cfg s
  | QCARoots => iget k_roots s
  | QPQGet _ | QPQList => iget k_pq s
  end.

(* Server.SetQueryMeta: the reply never carries index 0 *)
Definition reported (q : query) (s : st) : N := N.max 1 (idx q s).

(* ---------- watch sets ---------- *)
Inductive watch :=
| WIdx (k : string)
| WKVKey (k : string) | WKVPrefix (p : string)
| WSessAll | WSessKey (id : string) | WSessNode (n : string)
| WNodeAll | WNodeKey (n : string)
| WSvcAll | WSvcNode (n : string) | WSvcName (name : string) | WSvcConnect (name : string)
| WChkAll | WChkNode (n : string) | WChkSvcName (name : string) | WChkStatus (stt : N) | WChkNodeSvc (n sid : string)
| WCoordAll | WCoordNode (n : string)
| WCfgAll | WCfgKey (kind name : string) | WCfgKind (kind : string)
| WRootAll | WPQAll | WPQKey (id : string).

Definition node_watches {A} (m : gmap (string * string) A) : list watch :=
  (fun kv => WNodeKey kv.1.1) <$> map_to_list m.
Definition csn_row_watches {A} (m : gmap (string * string) A) : list watch :=
  mjoin ((fun kv => [WNodeKey kv.1.1; WChkNodeSvc kv.1.1 ""; WChkNodeSvc kv.1.1 kv.1.2]) <$> map_to_list m).

(* checkServiceNodesTxn: only the service.<name> rows when every name in the result has one
   (plus the connect index for connect queries); otherwise every radix node touched *)
Definition csn_ws (connect : bool) (name : string) (m : gmap (string * string) svc) (s : st) : list watch :=
  let scan := if connect then WSvcConnect name else WSvcName name in
  if nonempty m then
    let chans := omap (fun nm => (svc_index nm true true s).2) (names_of m) in
    let optimized := forallb (fun nm => bool_decide (is_Some (svc_index nm true true s).2)) (names_of m) in
    (WIdx <$> chans) ++
    (if optimized then (if connect then [scan] else []) else scan :: csn_row_watches m)
  else [scan].

Definition ws (q : query) (s : st) : list watch :=
  match q with
  | QKVGet k | QKVGetEP k => [WKVKey k]
  | QKVList p | QKVKeys p _ => [WKVPrefix p]
  | QSessGet id => [WSessKey id]
  | QSessList => [WSessAll]
  | QNodeSess n => [WSessNode n]
  | QNodes => [WNodeAll]
  | QServices | QServiceList => [WSvcAll]
  | QSvcNodes name => WSvcName name :: node_watches (svcs_named name s)
  | QSvcTagNodes name tag =>
    WSvcName name :: node_watches (filter (fun kv => has_tag tag kv.2 = true) (svcs_named name s))
  | QConnectNodes name => WSvcConnect name :: node_watches (svcs_connect name s)
  | QNodeServices n => match nodes s !! n with Some _ => [WNodeKey n; WSvcNode n] | None => [WNodeKey n] end
  | QNodeChecks n => [WChkNode n]
  | QSvcChecks name => [WChkSvcName name]
  | QChecksState None => [WChkAll]
  | QChecksState (Some stt) => [WChkStatus stt]
  | QCSN name => csn_ws false name (svcs_named name s) s
  | QCSNConnect name => csn_ws true name (svcs_connect name s) s
  | QCSNTag name tag =>
    WSvcName name :: csn_row_watches (filter (fun kv => has_tag tag kv.2 = true) (svcs_named name s))
  | QCoords => [WCoordAll]
  | QCoord n => [WCoordNode n]
  | QCfgGet kind name => [WCfgKey kind name]
  | QCfgKind kind => WIdx k_cfg :: (if bool_decide (kind = "") then [WCfgAll] else [WCfgKind kind])
  | QCARoots => [WRootAll]
  | QPQGet id => [WPQKey id]
  | QPQList => [WPQAll]
  end.

(* ---------- what a write fires ---------- *)
(* [chg m m' f]: some row that satisfies f (before or after) differs between m and m' *)
Definition chg {K A} `{Countable K} `{EqDecision A} (m m' : gmap K A) (f : K -> A -> bool) : bool :=
  existsb (fun k => negb (bool_decide (m !! k = m' !! k)) &&
                    (from_option (f k) false (m !! k) || from_option (f k) false (m' !! k)))
          (elements (dom m ∪ dom m')).

Record delta := Delta { before : st; after : st }.
Definition touched (i : N) (c : cmd) (s : st) : delta := Delta s (apply i c s).

Definition fire1 (d : delta) (w : watch) : bool :=
  let s := before d in let s' := after d in
  match w with
  | WIdx k => negb (bool_decide (index s !! k = index s' !! k))
  | WKVKey k => chg (kvs s) (kvs s') (fun k' _ => bool_decide (k' = k))
  | WKVPrefix p => chg (kvs s) (kvs s') (fun k' _ => has_prefix p k')
  | WSessAll => chg (sessions s) (sessions s') (fun _ _ => true)
  | WSessKey id => chg (sessions s) (sessions s') (fun k _ => bool_decide (k = id))
  | WSessNode n => chg (sessions s) (sessions s') (fun _ x => bool_decide (ss_node x = n))
  | WNodeAll => chg (nodes s) (nodes s') (fun _ _ => true)
  | WNodeKey n => chg (nodes s) (nodes s') (fun k _ => bool_decide (k = n))
  | WSvcAll => chg (services s) (services s') (fun _ _ => true)
  | WSvcNode n => chg (services s) (services s') (fun k _ => bool_decide (k.1 = n))
  | WSvcName name => chg (services s) (services s') (fun _ x => bool_decide (sv_name x = name))
  | WSvcConnect name => chg (services s) (services s') (fun _ x => bool_decide (connect_name x = Some name))
  | WChkAll => chg (checks s) (checks s') (fun _ _ => true)
  | WChkNode n => chg (checks s) (checks s') (fun k _ => bool_decide (k.1 = n))
  | WChkSvcName name => chg (checks s) (checks s') (fun _ x => bool_decide (c_svcname x = name))
  | WChkStatus stt => chg (checks s) (checks s') (fun _ x => bool_decide (c_status x = stt))
  | WChkNodeSvc n sid => chg (checks s) (checks s') (fun k x => bool_decide (k.1 = n) && bool_decide (c_svc x = sid))
  | WCoordAll => chg (coords s) (coords s') (fun _ _ => true)
  | WCoordNode n => chg (coords s) (coords s') (fun k _ => bool_decide (k = n))
  | WCfgAll => chg (cfgs s) (cfgs s') (fun _ _ => true)
  | WCfgKey kind name => chg (cfgs s) (cfgs s') (fun k _ => bool_decide (k = (kind, name)))
  | WCfgKind kind => chg (cfgs s) (cfgs s') (fun k _ => bool_decide (k.1 = kind))
  | WRootAll => chg (roots s) (roots s') (fun _ _ => true)
  | WPQAll => chg (pqs s) (pqs s') (fun _ _ => true)
  | WPQKey id => chg (pqs s) (pqs s') (fun k _ => bool_decide (k = id))
  end.

Definition fires (W : list watch) (d : delta) : bool := existsb (fire1 d) W.

(* ---------- the blocking loop (blockingquery.Query) ---------- *)
Inductive qerr := ENone | ENotFound | ENotChanged.
(* what ends a wait: a watch fired, the timeout/cancellation, the store was abandoned (its
   channel is in the watch set) *)
Inductive wake := Fired | Timeout | Abandoned.
Inductive exit_reason := XIndex (i : N) | XTimeout (i : N) | XAbandon (i : N) | XNonBlocking (i : N) | XStuck.

(* One round = one run of the query function (raw index, sentinel error) followed, if the loop
   blocks, by what woke it.  [rounds] is the environment's script. *)
Record loop_state := LS { l_min : N; l_notfound : bool; l_ranonce : bool }.

Definition round_step (ls : loop_state) (raw : N) (e : qerr) : loop_state * N :=
  let i := N.max 1 raw in                      (* SetQueryMeta *)
  let min' := match e with
              | ENotFound => if l_notfound ls then i else l_min ls
              | ENotChanged => if l_ranonce ls then i else l_min ls
              | ENone => l_min ls
              end in
  (LS min' (l_notfound ls || match e with ENotFound => true | _ => false end) true, i).

Fixpoint loop (ls : loop_state) (rounds : list (N * qerr * wake)) : exit_reason :=
  match rounds with
  | [] => XStuck
  | (raw, e, w) :: rest =>
    let '(ls', i) := round_step ls raw e in
    if bool_decide (l_min ls' < i) then XIndex i
    else match w with
         | Timeout => XTimeout i
         | Abandoned => XAbandon i
         | Fired => loop ls' rest
         end
  end.

Definition blocking_query (min : N) (rounds : list (N * qerr * wake)) : exit_reason :=
  if bool_decide (min = 0)
  then match rounds with (raw, _, _) :: _ => XNonBlocking (N.max 1 raw) | [] => XStuck end
  else loop (LS min false false) rounds.
