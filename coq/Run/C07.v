(* Executable glue for the catalog correspondence (C07): a [case] is one history the real FSM
   executed, with every command result and the projected final catalog (base and derived tables). *)
From stdpp Require Import gmap strings.
From Coq Require Import NArith.
From Verif Require Import Catalog.Model.
Local Open Scope N_scope.

Record dump := Dump {
  d_nodes : list (string * node);
  d_services : list (string * string * svc);
  d_checks : list (string * string * chk);
  d_coords : list string;
  d_confs : list (string * string * conf);
  d_ksn : list (string * string);
  d_usage : list (string * N);                   (* zero counts dropped *)
  d_vips : list (string * (N * list string));
  d_free : list N;
  d_counter : N;
  d_gws : list (string * string * N * gsrow);
  d_topo : list (string * string * list (string * string));
  d_vips_on : bool
}.

Record case := Case { c_log : list (N * cmd); c_results : list cres; c_final : dump }.

Definition nonzero (u : gmap string N) : gmap string N := filter (fun kv => kv.2 ≠ 0) u.

(* names of the tables on which the model and the implementation disagree *)
Definition diff_tables (s : st) (d : dump) : list string :=
  (if bool_decide (nodes s = list_to_map (d_nodes d)) then [] else ["nodes"]) ++
  (if bool_decide (services s = list_to_map (d_services d)) then [] else ["services"]) ++
  (if bool_decide (checks s = list_to_map (d_checks d)) then [] else ["checks"]) ++
  (if bool_decide (coords s = list_to_set (d_coords d)) then [] else ["coordinates"]) ++
  (if bool_decide (confs s = list_to_map (d_confs d)) then [] else ["config-entries"]) ++
  (if bool_decide (ksn s = list_to_set (d_ksn d)) then [] else ["kind-service-names"]) ++
  (if bool_decide (nonzero (usage s) = list_to_map (d_usage d)) then [] else ["usage"]) ++
  (if bool_decide (vips s = list_to_map (d_vips d)) then [] else ["service-virtual-ips"]) ++
  (if bool_decide (free s = list_to_set (d_free d)) && bool_decide (counter s = d_counter d) then [] else ["free-virtual-ips"]) ++
  (if bool_decide (gws s = list_to_map (d_gws d)) then [] else ["gateway-services"]) ++
  (if bool_decide (topo s = list_to_map ((fun '(u, dn, refs) => ((u, dn), list_to_set refs)) <$> d_topo d))
   then [] else ["mesh-topology"]) ++
  (if bool_decide (vips_on s = d_vips_on d) then [] else ["system-metadata"]).

#[global] Instance cres_eq_dec : EqDecision cres. Proof. solve_decision. Defined.

Definition explain (c : case) : list string * list nat :=
  let '(s, rs) := run (c_log c) st0 in
  (diff_tables s (c_final c),
   omap (fun '(i, (a, b)) => if bool_decide (a = b) then None else Some i)
        (imap (fun i x => (i, x)) (zip rs (c_results c)))).

Definition check (c : case) : bool :=
  let '(ts, rs) := explain c in
  bool_decide (ts = []) && bool_decide (rs = []) &&
  bool_decide (length (c_results c) = length (c_log c)).

Fixpoint failing_from (n : N) (l : list case) : list N :=
  match l with
  | [] => []
  | x :: l' => if check x then failing_from (N.succ n) l' else n :: failing_from (N.succ n) l'
  end.
Definition mismatches (l : list case) : list N := failing_from 0 l.
