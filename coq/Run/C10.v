(* Executable glue for the C10 correspondence check, "cas" family: a [case] is one history the real
   FSM executed on the tables of CAS/Model.v, with every command result and the projected tables
   (incl. the whole index table) after the commands for which the harness recorded them.
   The "store" family (KV and catalog verbs) is evaluated by Run/Store.v against Store/Model.v. *)
From stdpp Require Import gmap strings.
From Coq Require Import NArith.
From Verif Require Import CAS.Model.
Local Open Scope N_scope.

(* The graph validation the generated config entries can trigger (discovery-chain compilation of the
   chain named like the entry): a service-router needs an http-like protocol, which here can only
   come from the service-defaults of the same name (contents 1 = http, 3 = grpc; 0 = unset and
   2 = tcp are not). *)
Definition http_like (content : N) : bool := bool_decide (content = 1) || bool_decide (content = 3).
Definition graph_ok_run (t : gmap ckey centry) (k : ckey) : bool :=
  match t !! ("service-router", k.2) with
  | None => true
  | Some _ => match t !! ("service-defaults", k.2) with
              | Some d => http_like (ce_content d)
              | None => false
              end
  end.

Record dump := Dump {
  d_cfg : list (ckey * centry);
  d_ca_config : option caconf;
  d_roots : list (string * root);
  d_autopilot : option apconf;
  d_tokens : list (string * token);
  d_fgp : option fgpol;
  d_fgs : option fgstat;
  d_index : list (string * N)
}.

Definition st_of (d : dump) : st :=
  St (list_to_map (d_cfg d)) (d_ca_config d) (list_to_map (d_roots d)) (d_autopilot d)
     (list_to_map (d_tokens d)) (d_fgp d) (d_fgs d) (list_to_map (d_index d)).

Record step := Step { s_idx : N; s_cmd : cmd; s_res : res; s_dump : option dump }.
Definition case := list step.

Fixpoint check_from (s : st) (l : list step) : bool :=
  match l with
  | [] => true
  | x :: l' =>
    let r := apply graph_ok_run (s_idx x) (s_cmd x) s in
    bool_decide (r.2 = s_res x)
    && match s_dump x with Some d => bool_decide (r.1 = st_of d) | None => true end
    && check_from r.1 l'
  end.
Definition check (c : case) : bool := check_from st0 c.

Fixpoint failing_from (n : N) (l : list case) : list N :=
  match l with
  | [] => []
  | c :: l' => if check c then failing_from (N.succ n) l' else n :: failing_from (N.succ n) l'
  end.
Definition mismatches (cs : list case) : list N := failing_from 0 cs.

(* diagnosis of a failing case: the first step whose result (1) or state (2) differs, with the
   model's result *)
Fixpoint first_bad (i : nat) (s : st) (l : list step) : option (nat * N * res) :=
  match l with
  | [] => None
  | x :: l' =>
    let r := apply graph_ok_run (s_idx x) (s_cmd x) s in
    if negb (bool_decide (r.2 = s_res x)) then Some (i, 1, r.2)
    else if match s_dump x with Some d => negb (bool_decide (r.1 = st_of d)) | None => false end then Some (i, 2, r.2)
    else first_bad (S i) r.1 l'
  end.
Definition diagnose (c : case) := first_bad 0%nat st0 c.
