(* Executable glue for the C06 correspondence: a [case] is one write history the real state.Store
   executed, with the (index, canonical result) every query reported in every state (delta-encoded)
   and, per write, which queries' watch sets fired.  [check] replays the history in the model and
   compares index and result exactly; for watches: model fires => the real watch fired. *)
From stdpp Require Import gmap strings.
From Coq Require Import NArith.
From Verif Require Import Blocking.Model.
Local Open Scope N_scope.

Inductive atom := AS (s : string) | AN (n : N).
#[global] Instance atom_eq_dec : EqDecision atom. Proof. solve_decision. Defined.

Definition rows := gmap (list string) (list atom).

Fixpoint join_comma (l : list string) : string :=
  match l with
  | [] => ""
  | [x] => x
  | x :: l' => x +:+ "," +:+ join_comma l'
  end.
Definition nb (b : bool) : N := if b then 1 else 0.

Definition kv_vals (e : kvent) : list atom :=
  [AN (kv_val e); AN (kv_flags e); AS (kv_sess e); AN (kv_lock e); AN (kv_create e); AN (kv_modify e)].
Definition sess_vals (x : sess) : list atom :=
  [AS (ss_node x); AS ""; AN (nb (ss_del x)); AS (join_comma (ss_checks x)); AN (ss_create x)].
Definition node_vals (x : option node) : list atom :=
  match x with
  | Some x => [AS ""; AN (n_addr x); AN (n_create x); AN (n_modify x)]
  | None => [AS "MISSING"]
  end.
Definition svc_vals (x : svc) : list atom :=
  [AS (sv_name x); AS (if sv_proxy x then "connect-proxy" else ""); AS (sv_dest x); AN (nb (sv_native x));
   AS (join_comma (sv_tags x)); AN (sv_port x); AN (sv_create x); AN (sv_modify x)].
Definition chk_vals (x : chk) : list atom :=
  [AN (c_status x); AS (c_svc x); AS (c_svcname x); AS (join_comma (c_svctags x)); AN (c_output x);
   AN (c_create x); AN (c_modify x)].
Definition gen_vals (x : gent) : list atom := [AS (g_a x); AN (g_c x); AN (g_create x); AN (g_modify x)].

Definition of_list (l : list (list string * list atom)) : rows := list_to_map l.

Definition enc (r : rval) : rows :=
  match r with
  | RKV m => of_list ((fun kv => ([kv.1], kv_vals kv.2)) <$> map_to_list m)
  | RKeys m => of_list ((fun k => ([k], [])) <$> elements m)
  | RSess m => of_list ((fun kv => ([kv.1], sess_vals kv.2)) <$> map_to_list m)
  | RNodes m => of_list ((fun kv => ([kv.1], node_vals (Some kv.2))) <$> map_to_list m)
  | RTags m => of_list ((fun kv => ([kv.1], [AS (join_comma kv.2)])) <$> map_to_list m)
  | RSvcNodes m =>
    of_list ((fun kv => ([kv.1.1; kv.1.2],
                         match kv.2.1 with
                         | Some x => [AS ""; AN (n_addr x)]
                         | None => [AS "MISSING"]
                         end ++ svc_vals kv.2.2)) <$> map_to_list m)
  | RNodeSvcs None => ∅
  | RNodeSvcs (Some (x, m)) =>
    of_list ((["node"], node_vals (Some x)) :: ((fun kv => (["svc"; kv.1.2], svc_vals kv.2)) <$> map_to_list m))
  | RChecks m => of_list ((fun kv => ([kv.1.1; kv.1.2], chk_vals kv.2)) <$> map_to_list m)
  | RCSN m =>
    of_list (mjoin ((fun kv =>
                       let '(nd, sv, cks) := kv.2 in
                       ([kv.1.1; kv.1.2], AS "svc" :: node_vals nd ++ svc_vals sv)
                       :: ((fun ck => ([kv.1.1; kv.1.2; ck.1.2], AS "chk" :: chk_vals ck.2)) <$> map_to_list cks))
                    <$> map_to_list m))
  | RCoords m => of_list ((fun kv => ([kv.1], [AN kv.2])) <$> map_to_list m)
  | RGen m => of_list ((fun kv => ([kv.1.1; kv.1.2], [AN (g_c kv.2); AN (g_create kv.2); AN (g_modify kv.2)])) <$> map_to_list m)
  | RPQ m => of_list ((fun kv => ([kv.1], gen_vals kv.2)) <$> map_to_list m)
  | RRoots m => of_list ((fun kv => ([kv.1], [AN (nb (r_active kv.2)); AN (r_create kv.2); AN (r_modify kv.2)])) <$> map_to_list m)
  end.

(* one observation: query number, raw index, rows *)
Record obs := Obs { o_q : nat; o_idx : N; o_rows : list (list string * list atom) }.
Record step := Step { s_idx : N; s_cmd : cmd; s_chg : list obs; s_fired : list nat }.
Record case := Case { c_obs0 : list obs; c_steps : list step }.

Definition view := list (N * rows).      (* per query: what the implementation reported *)

Definition upd (v : view) (o : obs) : view := <[o_q o := (o_idx o, of_list (o_rows o))]> v.
Definition view_of (v : view) (chg : list obs) : view := foldl upd v chg.

Definition model_view (qs : list query) (s : st) : view := (fun q => (idx q s, enc (res q s))) <$> qs.

Definition view_eqb (a b : view) : bool :=
  bool_decide (a = b).

(* model fires => real fired *)
Definition watch_ok (qs : list query) (s s' : st) (fired : list nat) : bool :=
  forallb (fun jq => negb (fires (ws jq.2 s) (Delta s s')) || bool_decide (jq.1 ∈ fired))
          (imap (fun j q => (j, q)) qs).

Fixpoint check_steps (qs : list query) (s : st) (v : view) (l : list step) : bool :=
  match l with
  | [] => true
  | x :: l' =>
    let s' := apply (s_idx x) (s_cmd x) s in
    let v' := view_of v (s_chg x) in
    view_eqb (model_view qs s') v' && watch_ok qs s s' (s_fired x) && check_steps qs s' v' l'
  end.

Definition check (qs : list query) (c : case) : bool :=
  let v0 := view_of ((fun _ => (0, ∅)) <$> qs) (c_obs0 c) in
  view_eqb (model_view qs st0) v0 && check_steps qs st0 v0 (c_steps c).

Fixpoint failing_from (qs : list query) (n : N) (l : list case) : list N :=
  match l with
  | [] => []
  | c :: l' => if check qs c then failing_from qs (n + 1) l' else n :: failing_from qs (n + 1) l'
  end.
Definition mismatches (qs : list query) (l : list case) : list N := failing_from qs 0 l.

(* diagnosis helper (used when a case fails): first step and query numbers that disagree *)
Fixpoint diag_steps (qs : list query) (s : st) (v : view) (l : list step) (k : nat)
  : option (nat * list nat * list nat) :=
  match l with
  | [] => None
  | x :: l' =>
    let s' := apply (s_idx x) (s_cmd x) s in
    let v' := view_of v (s_chg x) in
    let mv := model_view qs s' in
    let bad := omap (fun jab => if bool_decide (jab.2.1 = jab.2.2) then None else Some jab.1)
                    (imap (fun j ab => (j, ab)) (zip mv v')) in
    let badw := omap (fun jq => if negb (fires (ws jq.2 s) (Delta s s')) || bool_decide (jq.1 ∈ s_fired x)
                                then None else Some jq.1) (imap (fun j q => (j, q)) qs) in
    match bad, badw with
    | [], [] => diag_steps qs s' v' l' (S k)
    | _, _ => Some (k, bad, badw)
    end
  end.
Definition diag (qs : list query) (c : case) :=
  diag_steps qs st0 (view_of ((fun _ => (0, ∅)) <$> qs) (c_obs0 c)) (c_steps c) 0.

(* the blocking loop: a case is the script the real blockingquery.Query ran against *)
Record loopcase := LoopCase { lc_min : N; lc_rounds : list (N * qerr * wake); lc_final : N;
                              lc_calls : nat; lc_kind : N (* 0 index 1 timeout 2 abandon 3 non-blocking *) }.
#[global] Instance exit_reason_eq_dec : EqDecision exit_reason. Proof. solve_decision. Defined.
Definition loop_check (c : loopcase) : bool :=
  (* the number of times the real loop ran the query = the number of rounds the model consumes:
     the script holds exactly the calls made, and the model must not leave before the last one *)
  bool_decide (lc_calls c = List.length (lc_rounds c)) &&
  (bool_decide (lc_min c = 0) || bool_decide (blocking_query (lc_min c) (removelast (lc_rounds c)) = XStuck)) &&
  match blocking_query (lc_min c) (lc_rounds c) with
  | XIndex i => bool_decide (lc_kind c = 0) && bool_decide (i = lc_final c)
  | XTimeout i => bool_decide (lc_kind c = 1) && bool_decide (i = lc_final c)
  | XAbandon i => bool_decide (lc_kind c = 2) && bool_decide (i = lc_final c)
  | XNonBlocking i => bool_decide (lc_kind c = 3) && bool_decide (i = lc_final c)
  | XStuck => false
  end.
Fixpoint loop_failing_from (n : N) (l : list loopcase) : list N :=
  match l with
  | [] => []
  | c :: l' => if loop_check c then loop_failing_from (n + 1) l' else n :: loop_failing_from (n + 1) l'
  end.
Definition loop_mismatches (l : list loopcase) : list N := loop_failing_from 0 l.
