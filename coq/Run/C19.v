(* Executable glue for the C19 correspondence check.

   Two kinds of generated files use it:
   - explicit cases ([case]): inputs of one call of the real diff function / one real replication round,
     with what the implementation returned; [check] evaluates the model on the same inputs;
   - tables: the harness ran the real diff function on EVERY pair of unique-key object sets of a small
     scope (keys x hashes x modify indexes x last values), in a pseudo-random input order, and encoded
     each output as one number; [tab_digests] / [tab_outputs] enumerate the same scope with their own
     decoder, run the model and print the encoded outputs (per-block checksums / in full) for the
     driver to compare. *)
From Verif Require Import Base.Prelude.
From Verif Require Import Repl.Model.

(* ------------------------------------------------------------------ explicit cases *)
Inductive case :=
| DiffACL (local remote : list acl_item) (last : N) (del ups : list bytes) (lskip rskip : N)
| DiffCfg (local remote : list cfg_item) (last : N) (del ups : list (ckey * N * N))  (* key, modify index, hash *)
| DiffFed (local remote : list fed_item) (last : N) (del ups : list (bytes * N))      (* datacenter, modify index *)
| RoundACL (st remote : list acl_item) (ri last : N) (final : list (bytes * bytes * N * bool)) (* id, hash, content, local *)
| RoundCfg (st remote : list cfg_item) (ri last : N) (final : list (ckey * N * N))             (* key, hash, content *)
| RoundFed (st remote : list fed_item) (ri last : N) (final : list (bytes * N))                (* datacenter, content *)
(* policies / roles: the round as the state store lets it happen (unique names); ok = the round returned no error *)
| RoundStore (st remote : list acl_item) (ri last : N) (final : list (bytes * bytes * N * bool)) (ok : bool)
(* two rounds in a row, the second on the table the first left, with last := the index the first returned (ri) *)
| Round2ACL (st remote : list acl_item) (ri last : N) (remote2 : list acl_item) (ri2 : N)
            (final : list (bytes * bytes * N * bool))
| Round2Cfg (st remote : list cfg_item) (ri last : N) (remote2 : list cfg_item) (ri2 : N) (final : list (ckey * N * N))
| Round2Fed (st remote : list fed_item) (ri last : N) (remote2 : list fed_item) (ri2 : N) (final : list (bytes * N))
(* tokens: round 1 lists [remote] but its batch read is answered from [batch]; round 2 as above against remote2 *)
| TwoSnap (st remote batch : list acl_item) (ri last : N) (remote2 : list acl_item) (ri2 : N)
          (final : list (bytes * bytes * N * bool)).

Definition ckey_eqb := cfg_eqb.

Fixpoint remove_one {A} (eqb : A -> A -> bool) (x : A) (l : list A) : option (list A) :=
  match l with
  | [] => None
  | y :: l' => if eqb x y then Some l'
               else match remove_one eqb x l' with Some r => Some (y :: r) | None => None end
  end.

(* equality of lists up to order (the tables have no order a client can see) *)
Fixpoint multiset_eqb {A} (eqb : A -> A -> bool) (a b : list A) : bool :=
  match a with
  | [] => match b with [] => true | _ => false end
  | x :: a' => match remove_one eqb x b with
               | Some b' => multiset_eqb eqb a' b'
               | None => false
               end
  end.

Definition acl_obs := map (fun x : acl_item => (it_id x, it_hash x, it_body x, it_local x)).
Definition acl_obs_eqb (a b : bytes * bytes * N * bool) : bool :=
  bytes_eqb (fst (fst (fst a))) (fst (fst (fst b))) && bytes_eqb (snd (fst (fst a))) (snd (fst (fst b)))
  && N.eqb (snd (fst a)) (snd (fst b)) && Bool.eqb (snd a) (snd b).
Definition cfg_obs := map (fun x : cfg_item => (it_id x, it_hash x, it_body x)).
Definition cfg_obs_eqb (a b : ckey * N * N) : bool :=
  ckey_eqb (fst (fst a)) (fst (fst b)) && N.eqb (snd (fst a)) (snd (fst b)) && N.eqb (snd a) (snd b).
Definition fed_obs := map (fun x : fed_item => (it_id x, it_body x)).
Definition fed_obs_eqb (a b : bytes * N) : bool := bytes_eqb (fst a) (fst b) && N.eqb (snd a) (snd b).

Definition check (c : case) : bool :=
  match c with
  | RoundStore st remote ri last final ok =>
      let '(st', ok') := acl_round_store_m 0 ri last remote st in
      Bool.eqb ok ok' && multiset_eqb acl_obs_eqb (acl_obs st') final
  | Round2ACL st remote ri last remote2 ri2 final =>
      multiset_eqb acl_obs_eqb (acl_obs (acl_round_m 0 ri2 ri remote2 (acl_round_m 0 ri last remote st))) final
  | Round2Cfg st remote ri last remote2 ri2 final =>
      multiset_eqb cfg_obs_eqb (cfg_obs (cfg_round_m 0 ri2 ri remote2 (cfg_round_m 0 ri last remote st))) final
  | Round2Fed st remote ri last remote2 ri2 final =>
      multiset_eqb fed_obs_eqb (fed_obs (fed_round_m 0 ri2 ri remote2 (fed_round_m 0 ri last remote st))) final
  | TwoSnap st remote batch ri last remote2 ri2 final =>
      multiset_eqb acl_obs_eqb
        (acl_obs (acl_round_m 0 ri2 ri remote2 (acl_round_two_m 0 ri last remote batch st))) final
  | DiffACL local remote last del ups ls rs =>
      let d := acl_diff last local remote in
      list_eqb bytes_eqb (ids (d_del d)) del && list_eqb bytes_eqb (ids (d_ups d)) ups
      && N.eqb (d_lskip d) ls && N.eqb (d_rskip d) rs
  | DiffCfg local remote last del ups =>
      let d := cfg_diff last local remote in
      let obs := map (fun x : cfg_item => (it_id x, it_mod x, it_hash x)) in
      let eqb := fun a b : ckey * N * N =>
                   ckey_eqb (fst (fst a)) (fst (fst b)) && N.eqb (snd (fst a)) (snd (fst b)) && N.eqb (snd a) (snd b) in
      list_eqb eqb (obs (d_del d)) del && list_eqb eqb (obs (d_ups d)) ups
      && N.eqb (d_lskip d) 0 && N.eqb (d_rskip d) 0
  | DiffFed local remote last del ups =>
      let d := fed_diff last local remote in
      let obs := map (fun x : fed_item => (it_id x, it_mod x)) in
      let eqb := fun a b : bytes * N => bytes_eqb (fst a) (fst b) && N.eqb (snd a) (snd b) in
      list_eqb eqb (obs (d_del d)) del && list_eqb eqb (obs (d_ups d)) ups
  | RoundACL st remote ri last final =>
      let obs := map (fun x : acl_item => (it_id x, it_hash x, it_body x, it_local x)) in
      let eqb := fun a b : bytes * bytes * N * bool =>
                   bytes_eqb (fst (fst (fst a))) (fst (fst (fst b))) && bytes_eqb (snd (fst (fst a))) (snd (fst (fst b)))
                   && N.eqb (snd (fst a)) (snd (fst b)) && Bool.eqb (snd a) (snd b) in
      multiset_eqb eqb (obs (acl_round_m 0 ri last remote st)) final
  | RoundCfg st remote ri last final =>
      let obs := map (fun x : cfg_item => (it_id x, it_hash x, it_body x)) in
      let eqb := fun a b : ckey * N * N =>
                   ckey_eqb (fst (fst a)) (fst (fst b)) && N.eqb (snd (fst a)) (snd (fst b)) && N.eqb (snd a) (snd b) in
      multiset_eqb eqb (obs (cfg_round_m 0 ri last remote st)) final
  | RoundFed st remote ri last final =>
      let obs := map (fun x : fed_item => (it_id x, it_body x)) in
      let eqb := fun a b : bytes * N => bytes_eqb (fst a) (fst b) && N.eqb (snd a) (snd b) in
      multiset_eqb eqb (obs (fed_round_m 0 ri last remote st)) final
  end.

Definition mismatches (cs : list case) : list N := failing check cs.

(* ------------------------------------------------------------------ tables *)
Section Tab.
  Context {K H : Type}.
  Variable keqb : K -> K -> bool.
  Variable heqb : H -> H -> bool.

  Record scope := Scope {
    sc_keys : list K; sc_hashes : list H; sc_lhashes : N;   (* the local side uses the first [sc_lhashes] hashes *)
    sc_mods : list N; sc_lasts : list N; sc_salt : N; sc_ids_only : bool }.

  Notation item := (@item K H).

  Fixpoint take_nth {A} (n : nat) (l : list A) : option (A * list A) :=
    match l with
    | [] => None
    | x :: l' => match n with
                 | O => Some (x, l')
                 | S n' => match take_nth n' l' with Some (y, r) => Some (y, x :: r) | None => None end
                 end
    end.

  (* the harness's shuffle: repeatedly take element (seed mod n), seed := seed / n *)
  Fixpoint shuffle {A} (fuel : nat) (seed : N) (l : list A) : list A :=
    match fuel with
    | O => []
    | S fuel' =>
        match l with
        | [] => []
        | _ => let n := N.of_nat (List.length l) in
               match take_nth (N.to_nat (seed mod n)) l with
               | Some (x, rest) => x :: shuffle fuel' (seed / n) rest
               | None => []
               end
        end
    end.

  Variable sc : scope.
  Let nh := N.of_nat (List.length (sc_hashes sc)).
  Let nm := N.of_nat (List.length (sc_mods sc)).
  Let lb := (1 + sc_lhashes sc)%N.
  Let rb := (1 + nh * nm)%N.

  Fixpoint dec_local (keys : list K) (x : N) : list item * N :=
    match keys with
    | [] => ([], x)
    | k :: ks =>
        let d := (x mod lb)%N in
        let '(r, x') := dec_local ks (x / lb)%N in
        (match (if N.eqb d 0 then None else nth_error (sc_hashes sc) (N.to_nat (d - 1))) with
         | Some h => Item k 2 h 0 false :: r
         | None => r
         end, x')
    end.

  Fixpoint dec_remote (keys : list K) (x : N) : list item * N :=
    match keys with
    | [] => ([], x)
    | k :: ks =>
        let d := (x mod rb)%N in
        let '(r, x') := dec_remote ks (x / rb)%N in
        (match (if N.eqb d 0 then None
                else match nth_error (sc_hashes sc) (N.to_nat ((d - 1) / nm)),
                           nth_error (sc_mods sc) (N.to_nat ((d - 1) mod nm)) with
                     | Some h, Some m => Some (h, m)
                     | _, _ => None
                     end) with
         | Some (h, m) => Item k m h 0 false :: r
         | None => r
         end, x')
    end.

  Definition decode (idx : N) : list item * list item * N :=
    let '(local, x1) := dec_local (sc_keys sc) idx in
    let '(remote, x2) := dec_remote (sc_keys sc) x1 in
    let last := nth (N.to_nat (x2 mod N.of_nat (List.length (sc_lasts sc)))) (sc_lasts sc) 0%N in
    let s1 := ((idx * 7919 + sc_salt sc) mod 1000003)%N in
    let s2 := ((idx * 104729 + sc_salt sc * 31 + 17) mod 1000003)%N in
    (shuffle (List.length local) s1 local, shuffle (List.length remote) s2 remote, last).

  Fixpoint index_of {A} (eqb : A -> A -> bool) (x : A) (l : list A) (i : N) : option N :=
    match l with
    | [] => None
    | y :: l' => if eqb x y then Some i else index_of eqb x l' (N.succ i)
    end.

  Definition dig (acc d : N) : N := (acc * 16 + (if N.ltb 15 d then 15 else d))%N.

  Definition enc_item (acc : N) (x : item) : N :=
    let ki := match index_of keqb (it_id x) (sc_keys sc) 0 with Some i => i | None => 14%N end in
    let acc := dig acc (ki + 1) in
    if sc_ids_only sc then acc
    else
      let hi := match index_of heqb (it_hash x) (sc_hashes sc) 0 with Some i => i | None => 13%N end in
      dig (dig acc (hi + 1)) (it_mod x).

  (* hexadecimal digits  1, items of the deletions, 0, items of the upserts, 0, lskip, rskip *)
  Definition encode (d : @diffres K H) : N :=
    let acc := fold_left enc_item (d_del d) 1%N in
    let acc := dig acc 0 in
    let acc := fold_left enc_item (d_ups d) acc in
    dig (dig (dig acc 0) (d_lskip d)) (d_rskip d).

  Variable dfn : N -> list item -> list item -> @diffres K H.

  (* the model's encoded output for case number [idx] *)
  Definition model_out (idx : N) : N :=
    let '(local, remote, last) := decode idx in encode (dfn last local remote).

  Fixpoint model_outs (n : nat) (idx : N) : list N :=
    match n with
    | O => []
    | S n' => model_out idx :: model_outs n' (N.succ idx)
    end.

  (* Parsing hundreds of thousands of numerals costs Coq far more than computing them, so the table
     files do not carry the implementation's outputs: Coq prints one checksum per block of cases
     (polynomial hash with an odd multiplier modulo 2^128: one differing output in a block always
     changes it) and the driver compares it with the same checksum of the implementation's outputs;
     a differing block is then printed in full ([model_outs]) and compared number by number. *)
  Definition digest_step (h out : N) : N :=
    N.land (h * 1000003 + out + 1) 340282366920938463463374607431768211455.

  Fixpoint digests (block k : nat) (h : N) (outs : list N) : list N :=
    match outs with
    | [] => match k with O => [] | _ => [h] end
    | o :: outs' =>
        let h' := digest_step h o in
        if Nat.eqb (S k) block then h' :: digests block 0 0%N outs'
        else digests block (S k) h' outs'
    end.

  Definition tab_digests (start count block : N) : list N :=
    digests (N.to_nat block) 0 0%N (model_outs (N.to_nat count) start).

  Definition tab_outputs (start count : N) : list N := model_outs (N.to_nat count) start.
End Tab.

Definition acl_tab_digests (sc : @scope bytes bytes) := tab_digests bytes_eqb bytes_eqb sc acl_diff.
Definition acl_tab_outputs (sc : @scope bytes bytes) := tab_outputs bytes_eqb bytes_eqb sc acl_diff.
Definition cfg_tab_digests (sc : @scope ckey N) := tab_digests cfg_eqb N.eqb sc cfg_diff.
Definition cfg_tab_outputs (sc : @scope ckey N) := tab_outputs cfg_eqb N.eqb sc cfg_diff.
Definition fed_tab_digests (sc : @scope bytes unit) := tab_digests bytes_eqb (fun _ _ => true) sc fed_diff.
Definition fed_tab_outputs (sc : @scope bytes unit) := tab_outputs bytes_eqb (fun _ _ => true) sc fed_diff.
