(* Executable glue for the C15 correspondence check.

   A compile case: an entry set, the chain name and evaluation context, and every distinct
   canonical output the real discoverychain.Compile produced over repeated runs.
   A store case: a sequence of EnsureConfigEntry / DeleteConfigEntry calls on a real
   state.Store with the observed accept/reject verdicts and the stored set after each. *)
From Verif Require Import Base.Prelude.
From Verif Require Import Chain.Model.
Local Open Scope string_scope.
Local Open Scope list_scope.

Inductive out :=
| OErr (code : N)
| OOk (start : nid) (ns : nodes) (targets : list target) (proto : string).

Record ccase := CCase {
  cc_entries : list entry;
  cc_svc : string;
  cc_ctx : ctx;
  cc_outs : list out             (* all distinct outputs observed (>1 only for map-order dependent results) *)
}.

Record scase := SCase {
  sc_ops : list (wop * bool * list ((ekind * string) * N))   (* op, accepted, stored (key, index of writing op) after *)
}.

Inductive case := CaseC (c : ccase) | CaseS (s : scase).

Definition err_code (e : cerr) : N :=
  match e with
  | EProtocolMismatch => 1 | ECircularRedirect => 2 | EBadSubset => 3
  | EExternalRedirect => 4 | EExternalSubsets => 5 | EExternalFailover => 6
  | ECircularReference => 7 | ENoAdvanced => 8 | EOutOfFuel => 98 | EInternal => 99
  end%N.

Definition node_eqb (a b : node) : bool :=
  match a, b with
  | RouterN x, RouterN y => list_eqb nid_eqb x y
  | SplitterN x, SplitterN y => list_eqb (fun e f => N.eqb (fst e) (fst f) && nid_eqb (snd e) (snd f)) x y
  | ResolverN d x, ResolverN e y => Bool.eqb d e && list_eqb target_eqb x y
  | _, _ => false
  end.

Definition nodes_sub (neq : node -> node -> bool) (a b : nodes) : bool :=
  forallb (fun p => match assoc nid_eqb (fst p) b with Some nd => neq (snd p) nd | None => false end) a.

Definition nodes_eqb (neq : node -> node -> bool) (a b : nodes) : bool :=
  Nat.eqb (List.length a) (List.length b) && nodes_sub neq a b && nodes_sub neq b a.

Definition tset_eqb (a b : list target) : bool :=
  Nat.eqb (List.length a) (List.length b) &&
  forallb (fun t => memb target_eqb t b) a && forallb (fun t => memb target_eqb t a) b.

Definition out_eqb (neq : node -> node -> bool) (r : cres graph) (o : out) : bool :=
  match r, o with
  | Err e, OErr c => N.eqb (err_code e) c
  | Ok g, OOk st ns ts p =>
      nid_eqb (g_start g) st && nodes_eqb neq (g_nodes g) ns && tset_eqb (g_targets g) ts && (g_proto g =? p)
  | _, _ => false
  end.

Definition check_c (c : ccase) : bool :=
  forallb (out_eqb node_eqb (compile (cc_entries c) (cc_ctx c) (cc_svc c) [])) (cc_outs c).

Fixpoint run_store (store : list entry) (tags : list ((ekind * string) * N)) (i : N)
         (ops : list (wop * bool * list ((ekind * string) * N))) : bool :=
  match ops with
  | [] => true
  | (op, acc, stored) :: ops' =>
    let (store', ok) := write store op in
    let tags' :=
      if ok then
        match op with
        | WPut e => upsert key_eqb (ekey e) i tags
        | WDelete k => filter (fun p => negb (key_eqb (fst p) k)) tags
        end
      else tags in
    Bool.eqb ok acc
    && Nat.eqb (List.length tags') (List.length stored)
    && forallb (fun p => match assoc key_eqb (fst p) tags' with Some j => N.eqb j (snd p) | None => false end) stored
    && Nat.eqb (List.length store') (List.length stored)
    && forallb (fun p => match lookup_entry store' (fst p) with Some _ => true | None => false end) stored
    && run_store store' tags' (N.succ i) ops'
  end.

Definition check (c : case) : bool :=
  match c with
  | CaseC c => check_c c
  | CaseS s => run_store [] [] 0%N (sc_ops s)
  end.

Definition mismatches (cs : list case) : list N := failing check cs.
