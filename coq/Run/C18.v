(* Executable glue for the C18 correspondence check.  A [case] is a schedule of operations with the
   output the real inmem.Backend / inmem.Store (or the Raft-backed store) produced for each one;
   [check] replays the schedule through the model and compares every output. *)
From Verif Require Import Base.Prelude Resource.Model.

(* compact constructors used by the generated case files *)
Definition K (g k p n nm : str) : rid := RId (RType g k) (Ten p n) nm.
Definition R (g k p n nm gv uid : str) (ver data : N) (own : option (rid * str)) : resource :=
  Res (K g k p n nm) gv uid ver data own.
Definition Q (g k p n pre : str) : query := Query (RType g k) (Ten p n) pre.

Definition opt_owner_eqb (a b : option (rid * str)) : bool :=
  match a, b with
  | None, None => true
  | Some (k, u), Some (k', u') => rid_eqb k k' && str_eqb u u'
  | _, _ => false
  end.

Definition res_eqb (a b : resource) : bool :=
  rid_eqb (r_id a) (r_id b) && str_eqb (r_gv a) (r_gv b) && str_eqb (r_uid a) (r_uid b) &&
  N.eqb (r_version a) (r_version b) && N.eqb (r_data a) (r_data b) && opt_owner_eqb (r_owner a) (r_owner b).

Definition wev_eqb (a b : wev) : bool :=
  match a, b with
  | Upsert x, Upsert y => res_eqb x y
  | Delete x, Delete y => res_eqb x y
  | EndOfSnapshot, EndOfSnapshot => true
  | _, _ => false
  end.

Definition err_code (e : err) : N :=
  match e with ENotFound => 1 | ECAS => 2 | EWrongUid => 3 | EWatchClosed => 4 | EOther => 5 end%N.

Definition out_eqb (a b : out) : bool :=
  match a, b with
  | OutOk, OutOk => true
  | OutRes x, OutRes y => res_eqb x y
  | OutList x, OutList y => list_eqb res_eqb x y
  | OutErr x, OutErr y => N.eqb (err_code x) (err_code y)
  | OutGVM x, OutGVM y => res_eqb x y
  | OutEvent x, OutEvent y => wev_eqb x y
  | OutNoEvent, OutNoEvent => true
  | OutWatch x, OutWatch y => Nat.eqb x y
  | OutBool x, OutBool y => Bool.eqb x y
  | _, _ => false
  end.

Record case := Case { c_steps : list (op * out) }.

Fixpoint agree (st : store) (l : list (op * out)) : bool :=
  match l with
  | [] => true
  | (o, expect) :: l' =>
      let '(st', got) := step st o in
      out_eqb got expect && agree st' l'
  end.

Definition check (c : case) : bool := agree init (c_steps c).
Definition mismatches (cs : list case) : list N := failing check cs.

(* index of the first disagreeing step (for replays) *)
Fixpoint first_bad (st : store) (l : list (op * out)) (n : N) : option N :=
  match l with
  | [] => None
  | (o, expect) :: l' =>
      let '(st', got) := step st o in
      if out_eqb got expect then first_bad st' l' (N.succ n) else Some n
  end.
