(* Executable glue for the snapshot/restore correspondence (C02): a [case] is one history of the
   modelled command subset the real FSM executed, with -- for every cut k -- the snapshot records
   the real Persist wrote after h[:k] (decoded and projected onto the model's vocabulary), the
   store a fresh FSM held after the real Restore of that snapshot, the indexes its reads report,
   and (for the cuts selected by the driver) the store the restored FSM held after applying h[k:]. *)
From stdpp Require Import gmap strings.
From Coq Require Import NArith.
From Verif Require Import Store.Model Run.Store Snapshot.Model.
Local Open Scope N_scope.

Record cut := Cut {
  ct_k : nat;                      (* the cut point *)
  ct_last : N;                     (* SnapshotHeader.LastIndex *)
  ct_records : list rec;           (* what the implementation persisted *)
  ct_restored : dump;              (* the implementation's store after Restore *)
  ct_reads : N * N * N;            (* restored store: KVSList "" index, SessionList index, PreparedQueryList index *)
  ct_qreads : list (query * qres); (* restored store: the modelled reads as the implementation answered them (result and index) *)
  ct_final : option dump           (* restored FSM after the suffix (its own lock delays) *)
}.

(* a hand-made snapshot stream (registration records no Persist would write) and what the real
   FSM.Restore made of it: the restored store, or None when it refused the stream *)
Record stream := Stream {
  sm_last : N;
  sm_records : list rec;
  sm_result : option dump
}.

Record case := Case {
  c_log : list (N * cmd);
  c_results : list cres;
  c_final : dump;
  c_cuts : list cut;
  c_streams : list stream
}.

Definition check_stream (x : stream) : bool :=
  match restore (sm_last x) (sm_records x), sm_result x with
  | Ok r, Some d => st_eqb r (st_of d)
  | Err _ _, None => true
  | _, _ => false
  end.

Definition rec_eqb (a b : rec) : bool :=
  match a, b with
  | SQuery q s _, SQuery q' s' _ => bool_decide (q = q') && bool_decide (s = s')   (* the modify index is not in the model's state *)
  | _, _ => bool_decide (a = b)
  end.

Global Instance qres_eq_dec : EqDecision qres.
Proof. solve_decision. Defined.

Definition reads_of (s : st) : N * N * N :=
  match run_query QKVListAll s, run_query QSessionList s, run_query (QQueryGet "") s with
  | QRkvs a _, QRsessions b _, QRquery c _ => (a, b, c)
  | _, _, _ => (0, 0, 0)
  end.

(* codes: 0 fine; 1 the model's snapshot of its own state differs from the records the
   implementation wrote; 2 the model's restore of the implementation's records differs from the
   implementation's restored store (or fails); 3 the read indexes differ; 4 results of the suffix
   on the restored state differ; 5 the final state after the suffix differs; 6 the law of
   C02_roundtrip, [refresh (repl s)] for the model's own state s at the cut, is not the
   implementation's restored store; 7 a modelled read ([run_query]) of the restored state answers
   otherwise than the implementation's read of its restored store (result or index) *)
Definition check_cut (log : list (N * cmd)) (results : list cres) (c : cut) : N :=
  let s := (run (firstn (ct_k c) log) st0).1 in
  if negb (list_eqb rec_eqb (snapshot (fun _ => 0) s) (ct_records c)) then 1 else
  match restore (ct_last c) (ct_records c) with
  | Err _ _ => 2
  | Ok r =>
    if negb (st_eqb r (st_of (ct_restored c))) then 2 else
    if negb (st_eqb (refresh (repl s)) (st_of (ct_restored c))) then 6 else
    if negb (bool_decide (reads_of r = ct_reads c)) then 3 else
    if negb (forallb (fun qr => bool_decide (run_query qr.1 r = qr.2)) (ct_qreads c)) then 7 else
    match ct_final c with
    | None => 0
    | Some fd =>
      let '(f, rs) := run (skipn (ct_k c) log) r in
      if negb (list_eqb cres_eqb rs (skipn (ct_k c) results)) then 4
      else if negb (st_eqb f (st_of fd)) then 5 else 0
    end
  end.

Definition check (c : case) : bool :=
  let '(s, rs) := run (c_log c) st0 in
  list_eqb cres_eqb rs (c_results c) && st_eqb s (st_of (c_final c)) &&
  forallb (fun ct => bool_decide (check_cut (c_log c) (c_results c) ct = 0)) (c_cuts c) &&
  forallb check_stream (c_streams c).

(* first failing cut and its code, for diagnosis *)
Definition diagnose (c : case) : option (nat * N) :=
  let '(s, rs) := run (c_log c) st0 in
  if negb (list_eqb cres_eqb rs (c_results c) && st_eqb s (st_of (c_final c))) then Some (0%nat, 9)
  else
    let fix go (l : list cut) :=
        match l with
        | [] => None
        | ct :: l' => let code := check_cut (c_log c) (c_results c) ct in
                      if bool_decide (code = 0) then go l' else Some (ct_k ct, code)
        end in
    match go (c_cuts c) with
    | Some x => Some x
    | None => if forallb check_stream (c_streams c) then None else Some (0%nat, 8)   (* a hand-made stream *)
    end.

Fixpoint failing_from (n : N) (l : list case) : list N :=
  match l with
  | [] => []
  | c :: l' => if check c then failing_from (N.succ n) l' else n :: failing_from (N.succ n) l'
  end.
Definition mismatches (cs : list case) : list N := failing_from 0 cs.
