(* Executable glue for the C17 correspondence check.  An import case is one event the real
   peerstream handler processed on a real state store: the catalog before (rows of every peer
   and of the local cluster, mesh-topology rows), the event, the order in which Go's map
   iteration happened to visit the snapshot (read off the list of Backend calls: only the
   relative order of entries that produced a call matters), the Backend calls, the error class
   and the catalog after.  An export case is one call of Store.ExportedServicesForPeer. *)
From Verif Require Import Base.Prelude Peering.Model.
Local Open Scope string_scope.

Fixpoint remove_first {A} (eqb : A -> A -> bool) (x : A) (l : list A) : option (list A) :=
  match l with
  | [] => None
  | y :: l' => if eqb x y then Some l'
               else match remove_first eqb x l' with Some r => Some (y :: r) | None => None end
  end.

(* equality of lists up to order *)
Fixpoint perm_eqb {A} (eqb : A -> A -> bool) (a b : list A) : bool :=
  match a with
  | [] => match b with [] => true | _ => false end
  | x :: a' => match remove_first eqb x b with Some b' => perm_eqb eqb a' b' | None => false end
  end.

Definition trow_eqb (a b : trow) : bool :=
  seqb (t_up a) (t_up b) && seqb (t_down a) (t_down b) && perm_eqb seqb (t_refs a) (t_refs b).

Definition cat_eqb (a b : cat) : bool :=
  perm_eqb node_eqb (nodes a) (nodes b) && perm_eqb svc_eqb (svcs a) (svcs b)
  && perm_eqb chk_eqb (chks a) (chks b) && perm_eqb trow_eqb (topo a) (topo b).

Definition regreq_eqb (a b : regreq) : bool :=
  node_eqb (r_node a) (r_node b) && option_eqb svc_eqb (r_svc a) (r_svc b)
  && perm_eqb chk_eqb (r_chks a) (r_chks b).

Definition dereq_eqb (a b : dereq) : bool :=
  match a, b with
  | DSvc p n i, DSvc p' n' i' => seqb p p' && seqb n n' && seqb i i'
  | DChk p n i, DChk p' n' i' => seqb p p' && seqb n n' && seqb i i'
  | DNode p n, DNode p' n' => seqb p p' && seqb n n'
  | _, _ => false
  end.

Definition op_eqb (a b : op) : bool :=
  match a, b with
  | OReg r, OReg r' => regreq_eqb r r'
  | ODereg d, ODereg d' => dereq_eqb d d'
  | _, _ => false
  end.

(* the visiting order observed in the implementation: hinted keys first, in hint order *)
Fixpoint dedup {K} (keqb : K -> K -> bool) (l : list K) : list K :=
  match l with
  | [] => []
  | x :: l' => x :: filter (fun y => negb (keqb x y)) (dedup keqb l')
  end.

Definition reorder {A K} (key : A -> K) (keqb : K -> K -> bool) (hint : list K) (l : list A) : list A :=
  (flat_map (fun h => filter (fun a => keqb h (key a)) l) (dedup keqb hint)
  ++ filter (fun a => negb (existsb (fun h => keqb h (key a)) hint)) l)%list.

Definition pair_eqb (a b : string * string) : bool := seqb (fst a) (fst b) && seqb (snd a) (snd b).

Record hints := Hints {
  h_nodes : list string; h_svcs : list (string * string); h_chks : list chk; h_names : list string }.

Definition hint_shuffles (h : hints) : shuffles :=
  Shuffles (reorder (fun x => n_name (ns_node x)) seqb (h_nodes h))
           (reorder (fun y => (s_node (ss_svc y), s_id (ss_svc y))) pair_eqb (h_svcs h))
           (reorder (fun k => k) chk_eqb (h_chks h))
           (fun l => l) (fun l => l)
           (reorder (fun s => s) seqb (h_names h)).

Inductive case :=
| CImport (before : cat) (ev : event) (h : hints) (ops : list op) (err : N) (after : cat)
| CExport (peer : string) (peer_known : bool) (entry : list (string * list string)) (typical connect chains tgw : list string)
          (bad_chains : list string) (got_svcs got_chains : list string).

Definition err_code (e : option N) : N := match e with None => 0 | Some n => n end.

Definition run_import (before : cat) (ev : event) (h : hints) : hst :=
  handle (hint_shuffles h) before ev.

Definition check (c : case) : bool :=
  match c with
  | CImport before ev h ops err after =>
      let r := run_import before ev h in
      N.eqb (err_code (h_err r)) err && perm_eqb op_eqb (h_ops r) ops && cat_eqb (h_cat r) after
  | CExport peer known entry typical connect chains tgw bad got_svcs got_chains =>
      (* ExportedServicesForPeer returns an empty list for an unknown peering id *)
      if negb known then match got_svcs, got_chains with [], [] => true | _, _ => false end else
      perm_eqb seqb (exported_services peer entry typical) got_svcs
      && perm_eqb seqb (exported_chains peer entry typical connect chains tgw
                                        (fun s => negb (existsb (seqb s) bad))) got_chains
  end.

Definition mismatches (cs : list case) : list N := failing check cs.
