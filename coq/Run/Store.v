(* Executable glue for the core store correspondence (C03, C04, C05): a [case] is one history the
   real FSM executed, with every command result and the projected final store it produced. *)
From stdpp Require Import gmap strings.
From Coq Require Import NArith.
From Verif Require Import Store.Model.
Local Open Scope N_scope.

Record dump := Dump {
  d_kvs : list (string * kvent);
  d_tombs : list (string * N);
  d_sessions : list (string * session);
  d_schecks : list (string * string * string);
  d_queries : list (string * string);
  d_nodes : list (string * node);
  d_services : list (string * string * service);
  d_checks : list (string * string * check);
  d_index : list (string * N);
  d_delay : list string
}.

Definition st_of (d : dump) : st :=
  St (list_to_map (d_kvs d)) (list_to_map (d_tombs d)) (list_to_map (d_sessions d))
     (list_to_set (d_schecks d)) (list_to_map (d_queries d)) (list_to_map (d_nodes d))
     (list_to_map (d_services d)) (list_to_map (d_checks d)) (list_to_map (d_index d))
     (list_to_set (d_delay d)).

(* a KV result carries the value only for the read verbs; otherwise the implementation blanks it *)
Definition kv_res_eqb (with_value : bool) (m e : kvent) : bool :=
  bool_decide (kv_flags m = kv_flags e) && bool_decide (kv_session m = kv_session e) &&
  bool_decide (kv_lock m = kv_lock e) && bool_decide (kv_create m = kv_create e) &&
  bool_decide (kv_modify m = kv_modify e) &&
  (if with_value then bool_decide (kv_value m = kv_value e) else bool_decide (kv_value e = [])).

Definition tres_eqb (m e : tres) : bool :=
  match m, e with
  | RKV k a wv, RKV k' b _ => bool_decide (k = k') && kv_res_eqb wv a b
  | RNode n a, RNode n' b => bool_decide (n = n') && bool_decide (a = b)
  (* the service result is a NodeService: it does not carry the node name *)
  | RService _ s a, RService _ s' b => bool_decide (s = s') && bool_decide (a = b)
  | RCheck n c a, RCheck n' c' b => bool_decide (n = n') && bool_decide (c = c') && bool_decide (a = b)
  | _, _ => false
  end.

Fixpoint list_eqb {A} (f : A -> A -> bool) (a b : list A) : bool :=
  match a, b with
  | [], [] => true
  | x :: a', y :: b' => f x y && list_eqb f a' b'
  | _, _ => false
  end.

#[global] Instance err_eq_dec : EqDecision err. Proof. solve_decision. Defined.

Definition cres_eqb (m e : cres) : bool :=
  match m, e with
  | CNil, CNil => true
  | CBool a, CBool b => bool_decide (a = b)
  | CStr a, CStr b => bool_decide (a = b)
  | CErr a, CErr b => bool_decide (a = b)
  | CTxn r es, CTxn r' es' =>
    list_eqb tres_eqb r r' &&
    list_eqb (fun x y => bool_decide (x.1 = y.1) && bool_decide (x.2 = y.2)) es es'
  | _, _ => false
  end.

Record case := Case { c_log : list (N * cmd); c_results : list cres; c_final : dump }.

Definition check (c : case) : bool :=
  let '(s, rs) := run (c_log c) st0 in
  list_eqb cres_eqb rs (c_results c) && st_eqb s (st_of (c_final c)).

(* finer diagnosis for a failing case: 0 = fine, 1 = some result differs, 2 = final state differs *)
Definition diagnose (c : case) : N :=
  let '(s, rs) := run (c_log c) st0 in
  if negb (list_eqb cres_eqb rs (c_results c)) then 1
  else if negb (st_eqb s (st_of (c_final c))) then 2 else 0.

Fixpoint failing_from (n : N) (l : list case) : list N :=
  match l with
  | [] => []
  | c :: l' => if check c then failing_from (N.succ n) l' else n :: failing_from (N.succ n) l'
  end.
Definition mismatches (cs : list case) : list N := failing_from 0 cs.

(* debugging aids: the model's observations in the harness's format *)
Definition dump_of (s : st) : dump :=
  Dump (map_to_list (kvs s)) (map_to_list (tombs s)) (map_to_list (sessions s)) (elements (schecks s))
       (map_to_list (queries s)) (map_to_list (nodes s))
       ((fun x => (x.1.1, x.1.2, x.2)) <$> map_to_list (services s))
       ((fun x => (x.1.1, x.1.2, x.2)) <$> map_to_list (checks s))
       (map_to_list (index s)) (elements (lockdelay s)).
Definition first_bad_result (c : case) : option (nat * cres * cres) :=
  let rs := (run (c_log c) st0).2 in
  let fix go (i : nat) (a b : list cres) :=
      match a, b with
      | x :: a', y :: b' => if cres_eqb x y then go (S i) a' b' else Some (i, x, y)
      | _, _ => None
      end in go 0%nat rs (c_results c).
