(* Executable glue for the C20 correspondence check: a [case] is one archive as the real
   archive/tar + gzip presented it (a neutral member view: every member the tar reader yields),
   with the stdlib answers the model treats as external (JSON decode outcomes, the scanned
   SHA256SUMS lines and the scanner's error, digests named by their preimage), the view of the
   intact archive it was derived from, and the result consul's reader returned.

   Four verdicts per case, each with its own code so that none can hide behind another:
     1  the model's [read_gz] on the view differs from what consul's reader returned;
     2  glue failure: the model asked the harness tables a question they do not answer
        (a JSON decode that was not recorded, or SHA256SUMS bytes other than the recorded ones) --
        the totalised defaults of [dec_tab]/[parse_tab] were used;
     4  the view is not within one [corrupt] step (plain tar: [corruptb]; gzip: [faultb]) of the
        view of the intact archive: the theorems would not speak about this enumerated fault;
     8  for an intact archive written by consul's writer: its view is not the model's
        [write ord m s], or a Section hypothesis fails on it ([parse_print], [scan_print] on the
        written lines);
     16 for an intact archive: [dec_enc] fails on its metadata (decoding the encoding does not
        give the metadata back). *)
From Verif Require Import Base.Prelude Archive.Model.

(* how consul's writer produced an intact archive, in the model's terms *)
Record wcase := W {
  w_ord : bool;          (* line order of SHA256SUMS *)
  w_meta : N;            (* id of the metadata value handed to the writer *)
  w_enc : bytes;         (* json.Encoder's output for it *)
  w_state : bytes;       (* the payload *)
  w_sums : bytes         (* fmt.Fprintf of the two lines in that order *)
}.

Record case := Case {
  c_gz : bool;                                    (* fed through gzip (snapshot.Read / Verify) *)
  c_hdr : bool;                                   (* gzip header accepted (true for plain tar) *)
  c_members : list member;
  c_term : bool;
  c_trailer : bool;                               (* gzip trailer fine (true for plain tar) *)
  c_dec : list (N * bytes * option N);            (* (current meta id, bytes) -> decoded meta id *)
  c_sums : bytes;                                 (* concatenated SHA256SUMS data the harness parsed *)
  c_lines : list (option (bytes * string));       (* its lines; digest = the bytes it is the hash of *)
  c_scan : bool;                                  (* bufio.Scanner ended with an error on it *)
  c_base : list member;                           (* view of the intact archive *)
  c_write : option wcase;                         (* intact archives only *)
  c_expect : result (N * bytes)                   (* what the implementation returned *)
}.

(* a run of [n] equal bytes (case files compress long runs) *)
Definition rep (n x : N) : bytes := N.iter n (cons x) [].

(* [d] with byte [i] replaced by [v]; the first [n] bytes of [d] (case files name a byte string by
   its difference from an earlier one) *)
Fixpoint setb_nat (d : bytes) (i : nat) (v : N) : bytes :=
  match d, i with
  | [], _ => []
  | _ :: r, O => v :: r
  | x :: r, S k => x :: setb_nat r k v
  end.
Definition setb (d : bytes) (i v : N) : bytes := setb_nat d (N.to_nat i) v.
Definition pre (d : bytes) (n : N) : bytes := firstn (N.to_nat n) d.

Definition dec_find (tab : list (N * bytes * option N)) (cur : N) (d : bytes) :=
  find (fun e => N.eqb (fst (fst e)) cur && bytes_eqb (snd (fst e)) d) tab.

Definition dec_tab (tab : list (N * bytes * option N)) (cur : N) (d : bytes) : option N :=
  match dec_find tab cur d with
  | Some e => snd e
  | None => None        (* totalised default: reported by [glue_ok], code 2 *)
  end.

Definition parse_tab (sums : bytes) (lines : list (option (bytes * string))) (b : bytes) :=
  if bytes_eqb b sums then lines else [None].   (* default reported by [glue_ok] *)

Definition run (c : case) : result (N * bytes) :=
  read_gz bytes_eqb (fun b => b) 0%N (dec_tab (c_dec c)) (parse_tab (c_sums c) (c_lines c))
          (fun _ => c_scan c)
          (c_hdr c) (c_members c) (c_term c) (c_trailer c).

(* every decode the model can ask for along the view is in the table *)
Fixpoint dec_cover (tab : list (N * bytes * option N)) (cur : N) (ms : list member) : bool :=
  match ms with
  | [] => true
  | mb :: r =>
    if String.eqb (m_name mb) n_meta && m_intact mb then
      match dec_find tab cur (m_data mb) with
      | None => false
      | Some e => match snd e with None => true | Some nw => dec_cover tab nw r end
      end
    else dec_cover tab cur r
  end.

Definition sums_of (ms : list member) : bytes :=
  List.concat (map m_data (filter (fun mb => String.eqb (m_name mb) n_sums) ms)).

Definition glue_ok (c : case) : bool :=
  dec_cover (c_dec c) 0%N (c_members c) && bytes_eqb (sums_of (c_members c)) (c_sums c).

Definition fault_ok (c : case) : bool :=
  if c_gz c then faultb (c_base c) (c_hdr c) (c_members c) (c_term c) (c_trailer c)
  else corruptb (c_base c) (c_members c) (c_term c).

Definition line_eqb (a b : option (bytes * string)) : bool :=
  option_eqb (fun x y => bytes_eqb (fst x) (fst y) && String.eqb (snd x) (snd y)) a b.

(* the view of an intact archive is the model's [write] (digests named by preimage, the
   metadata encoder and the line printer answered by the stdlib), it is its own base, and the
   line codec round-trips on the written lines *)
Definition writer_ok (c : case) : bool :=
  match c_write c with
  | None => true
  | Some w =>
    let enc := fun i : N => if N.eqb i (w_meta w) then w_enc w else [] in
    let lines := sums_lines (fun b => b) enc (w_ord w) (w_meta w) (w_state w) in
    let prt := fun l : list (bytes * string) =>
                 if list_eqb (fun x y => line_eqb (Some x) (Some y)) l lines then w_sums w else [] in
    mlist_eqb (c_members c) (write (fun b => b) enc prt (w_ord w) (w_meta w) (w_state w))
    && mlist_eqb (c_base c) (c_members c)
    && c_term c && c_hdr c && c_trailer c
    && list_eqb line_eqb (parse_tab (c_sums c) (c_lines c) (w_sums w)) (map Some lines)
    && negb (c_scan c)
  end.

Definition dec_enc_ok (c : case) : bool :=
  match c_write c with
  | None => true
  | Some w => option_eqb N.eqb (dec_tab (c_dec c) 0%N (w_enc w)) (Some (w_meta w))
  end.

Definition rerr_code (e : rerr) : N :=
  match e with
  | EGzipHeader => 1 | EFraming => 2 | EReadMeta => 3 | EDecodeMeta => 4 | EReadState => 5
  | EReadSums => 6 | EUnexpected => 7 | ESumsParse => 8 | EListMissing => 9
  | EHashMismatch => 10 | EFileMissing => 11 | EGzipTrailer => 12 | ENotInArchive => 13
  | ESumsScan => 14
  end%N.

Definition result_eqb (a b : result (N * bytes)) : bool :=
  match a, b with
  | Ok (i, s), Ok (j, t) => N.eqb i j && bytes_eqb s t
  | Err e, Err f => N.eqb (rerr_code e) (rerr_code f)
  | _, _ => false
  end.

Definition verdict (c : case) : N :=
  ((if result_eqb (run c) (c_expect c) then 0 else 1)
   + (if glue_ok c then 0 else 2)
   + (if fault_ok c then 0 else 4)
   + (if writer_ok c then 0 else 8)
   + (if dec_enc_ok c then 0 else 16))%N.

Definition check (c : case) : bool := N.eqb (verdict c) 0.

(* [32 * index + verdict] for every case whose verdict is not 0 *)
Fixpoint verdicts_from (n : N) (cs : list case) : list N :=
  match cs with
  | [] => []
  | c :: r =>
    let v := verdict c in
    if N.eqb v 0 then verdicts_from (N.succ n) r else (32 * n + v)%N :: verdicts_from (N.succ n) r
  end.
Definition mismatches (cs : list case) : list N := verdicts_from 0%N cs.
