(* Executable glue for the C20 correspondence check: a [case] is one archive as the real
   archive/tar + gzip presented it to consul's reader, with the stdlib answers the model
   treats as external (JSON decode outcomes, the scanned SHA256SUMS lines, digests named by
   their preimage) and the result consul's reader returned. *)
From Verif Require Import Base.Prelude Archive.Model.

Record case := Case {
  c_hdr : bool;                                   (* gzip header accepted (true for plain tar) *)
  c_members : list member;
  c_term : bool;
  c_trailer : bool;                               (* gzip trailer fine (true for plain tar) *)
  c_dec : list (N * bytes * option N);            (* (current meta id, bytes) -> decoded meta id *)
  c_sums : bytes;                                 (* concatenated SHA256SUMS data the harness parsed *)
  c_lines : list (option (bytes * string));       (* its lines; digest = the bytes it is the hash of *)
  c_expect : result (N * bytes)                   (* what the implementation returned *)
}.

Definition dec_tab (tab : list (N * bytes * option N)) (cur : N) (d : bytes) : option N :=
  match find (fun e => N.eqb (fst (fst e)) cur && bytes_eqb (snd (fst e)) d) tab with
  | Some e => snd e
  | None => None
  end.

Definition parse_tab (sums : bytes) (lines : list (option (bytes * string))) (b : bytes) :=
  if bytes_eqb b sums then lines else [None].

Definition run (c : case) : result (N * bytes) :=
  read_gz bytes_eqb (fun b => b) 0%N (dec_tab (c_dec c)) (parse_tab (c_sums c) (c_lines c))
          (c_hdr c) (c_members c) (c_term c) (c_trailer c).

Definition rerr_code (e : rerr) : N :=
  match e with
  | EGzipHeader => 1 | EFraming => 2 | EReadMeta => 3 | EDecodeMeta => 4 | EReadState => 5
  | EReadSums => 6 | EUnexpected => 7 | ESumsParse => 8 | EListMissing => 9
  | EHashMismatch => 10 | EFileMissing => 11 | EGzipTrailer => 12 | ENotInArchive => 13
  end%N.

Definition result_eqb (a b : result (N * bytes)) : bool :=
  match a, b with
  | Ok (i, s), Ok (j, t) => N.eqb i j && bytes_eqb s t
  | Err e, Err f => N.eqb (rerr_code e) (rerr_code f)
  | _, _ => false
  end.

Definition check (c : case) : bool := result_eqb (run c) (c_expect c).
Definition mismatches (cs : list case) : list N := failing check cs.
