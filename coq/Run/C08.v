(* Executable glue for the C08 correspondence check.
   A [case] is a pool of ACL policies (ID, ModifyIndex, content hash, did the HCL decoder accept
   the text, the decoded rules) and a sequence of tokens, each a list of pool indexes, resolved
   one after the other through ONE shared pair of caches, exactly as the harness drove
   structs.ACLPolicies.Compile with one structs.ACLCaches.  For every token the harness recorded
   every acl.Authorizer method on every name of the universe: on the authorizer Compile returned,
   and on the chains [that; DenyAll], [that; AllowAll] and [that; ManageAll]. *)
From Verif Require Import Base.Prelude.
From Verif Require Import ACL.Model.
From Verif Require Import ACL.Identity.

Record tok := Tok {
  t_idx : list N;                      (* pool indexes of the token's policies, in order *)
  t_expect : option string }.          (* None: Compile returned an error; else one digit per
                                          decision: 0 deny, 1 allow, 2 default *)

Record case := Case {
  c_names : list string;               (* names queried *)
  c_pool : list pentry;
  c_toks : list tok }.

Definition nameless : list meth :=
  [MACLRead; MACLWrite; MIntentionDefaultAllow; MKeyringRead; MKeyringWrite; MMeshRead; MMeshWrite;
   MPeeringRead; MPeeringWrite; MNodeReadAll; MOperatorRead; MOperatorWrite; MServiceReadAll;
   MServiceWriteAny; MSnapshot].

Definition named (n : string) : list meth :=
  [MAgentRead n; MAgentWrite n; MEventRead n; MEventWrite n; MIntentionRead n; MIntentionWrite n;
   MKeyList n; MKeyRead n; MKeyWrite n; MKeyWritePrefix n; MNodeRead n false; MNodeRead n true;
   MNodeWrite n; MPreparedQueryRead n; MPreparedQueryWrite n; MServiceRead n false;
   MServiceRead n true; MServiceReadPrefix n; MServiceWrite n; MSessionRead n; MSessionWrite n;
   MTrafficPermissionsRead n; MTrafficPermissionsWrite n].

Definition methods (names : list string) : list meth := nameless ++ flat_map named names.

Definition dcode (d : decision) : N := match d with Deny => 0 | Allow => 1 | Default => 2 end%N.

Definition observe (names : list string) (a : authorizer) : list N :=
  let ms := methods names in
  map (fun m => dcode (policy_decide a m)) ms
  ++ map (fun m => dcode (chain_decide a deny_all m)) ms
  ++ map (fun m => dcode (chain_decide a allow_all m)) ms
  ++ map (fun m => dcode (chain_decide a manage_all m)) ms.

Definition dummy_entry : pentry := PEntry 0 0 0 false (Policy PEmpty PEmpty PEmpty PEmpty PEmpty []).

Definition entries (pool : list pentry) (idx : list N) : list pentry :=
  map (fun i => nth (N.to_nat i) pool dummy_entry) idx.

Fixpoint digits (s : string) : list N :=
  match s with
  | EmptyString => []
  | String a s' => (N_of_ascii a - 48)%N :: digits s'
  end.

Definition obs_eqb (a : option (list N)) (b : option string) : bool :=
  option_eqb (list_eqb N.eqb) a (option_map digits b).

(* resolve the tokens in order through one shared cache; true iff every token's observation
   equals what the implementation returned *)
Fixpoint run_toks (names : list string) (pool : list pentry) (c : caches) (ts : list tok) : bool :=
  match ts with
  | [] => true
  | t :: ts' =>
      let '(c', oa) := compile c (entries pool (t_idx t)) in
      obs_eqb (option_map (observe names) oa) (t_expect t) && run_toks names pool c' ts'
  end.

Definition check (c : case) : bool := run_toks (c_names c) (c_pool c) caches_empty (c_toks c).

(* Resolver stream: a world (policies with datacenter scopes, roles, the synthetic policies the
   implementation generated for the identities in use), tokens, and the sequence in which the
   harness resolved them through ONE consul.ACLResolver; the store may change between two steps.  Observed per
   step: every method on every name on the authorizer ResolveToken returned, or an error. *)
Record rstep := RStep {
  rs_world : N;                        (* index into rc_worlds: the store may be written between steps *)
  rs_tok : N;                          (* index into that world's tokens *)
  rs_expect : option string }.

Record rcase := RCase {
  rc_names : list string;
  rc_default : static;                 (* the resolver's ACLDefaultPolicy *)
  rc_worlds : list (world * list wtoken);
  rc_steps : list rstep }.

Definition observe_chain (names : list string) (s : static) (a : authorizer) : list N :=
  map (fun m => dcode (chain_decide a s m)) (methods names).

Definition dummy_token : wtoken := WToken [] [] [] [] [].
Definition dummy_world : world := World 0 [] [] [] [] [].

Fixpoint run_steps (names : list string) (d : static) (ws : list (world * list wtoken)) (c : caches) (ss : list rstep) : bool :=
  match ss with
  | [] => true
  | s :: ss' =>
      let '(w, toks) := nth (N.to_nat (rs_world s)) ws (dummy_world, []) in
      let '(c', oa) := token_compile w c (nth (N.to_nat (rs_tok s)) toks dummy_token) in
      obs_eqb (option_map (observe_chain names d) oa) (rs_expect s) && run_steps names d ws c' ss'
  end.

Definition rcheck (r : rcase) : bool :=
  run_steps (rc_names r) (rc_default r) (rc_worlds r) caches_empty (rc_steps r).

Inductive anycase := PlainCase (c : case) | ResolverCase (r : rcase).
Definition check_any (a : anycase) : bool :=
  match a with PlainCase c => check c | ResolverCase r => rcheck r end.
Definition mismatches (cs : list anycase) : list N := failing check_any cs.

(* ---- finite-domain tables regenerated from the Go code on every run (coq/gen/tab_C08.v) ---- *)

(* the representative policy strings the harness uses, by index:
   0 ""  1 "deny"  2 "read"  3 "list"  4 "write"  5 "Deny"  6 "READ"  7 "List"  8 "wRiTe"  9 "foo" *)
Definition rep (i : N) : pstr :=
  match i with
  | 0 => PEmpty | 1 => PCanon LDeny | 2 => PCanon LRead | 3 => PCanon LList | 4 => PCanon LWrite
  | 5 => POdd LDeny | 6 => POdd LRead | 7 => POdd LList | 8 => POdd LWrite | _ => PBad
  end%N.

(* acl.AccessLevel by its integer value *)
Definition access_of (i : N) : access :=
  match i with 1 => ADeny | 2 => ARead | 3 => AList | 4 => AWrite | _ => AUnknown end%N.
Definition access_code (a : access) : N :=
  match a with AUnknown => 0 | ADeny => 1 | ARead => 2 | AList => 3 | AWrite => 4 end%N.

Definition tpo_row_ok (r : N * N * bool) : bool :=
  let '(a, b, v) := r in Bool.eqb (takes_precedence_over (rep a) (rep b)) v.
Definition enforce_row_ok (r : N * N * N) : bool :=
  let '(a, b, v) := r in N.eqb (dcode (enforce (access_of a) (access_of b))) v.
(* AccessLevelFromString: (string index, ok?, level) *)
Definition level_row_ok (r : N * bool * N) : bool :=
  let '(a, ok, v) := r in
  match access_level_from_string (rep a) with
  | Some l => ok && N.eqb (access_code l) v
  | None => negb ok
  end.
(* isPolicyValid: (string index, allowList, result) *)
Definition valid_row_ok (r : N * bool * bool) : bool :=
  let '(a, al, v) := r in Bool.eqb (is_policy_valid (rep a) al) v.
Definition dia_row_ok (r : N * N) : bool :=
  let '(a, v) := r in
  N.eqb (dcode (default_is_allow (match a with 0 => Deny | 1 => Allow | _ => Default end%N))) v.
