(* Executable glue for property C01.
   [case]: a history of modelled commands the real FSM executed (with every result and the projected
   final store).  The model is run on it TWICE, from initial states that differ in the local
   lock-delay set (the two replicas of the check are started the same way), and both runs must
   reproduce the implementation's results and replicated state.
   [vcase]: one AssignManualServiceVIPs command with the service-virtual-ips rows before and after
   it; the model is run under two different iteration orders. *)
From stdpp Require Import gmap strings.
From RecordUpdate Require Import RecordSet.
From Coq Require Import NArith.
From Verif Require Import Store.Model Run.Store FSM.Model.
Import RecordSetNotations.
Local Open Scope N_scope.

Record case := Case {
  c_log : list (N * cmd); c_results : list cres; c_final : dump;
  c_delay1 : list string; c_delay2 : list string }.

Definition check_from (c : case) (delays : list string) : bool :=
  let '(s, rs) := run (c_log c) (st0 <| lockdelay := list_to_set delays |>) in
  list_eqb cres_eqb rs (c_results c) && st_eqb (repl s) (repl (st_of (c_final c))).

Definition check (c : case) : bool := check_from c (c_delay1 c) && check_from c (c_delay2 c).

Fixpoint failing_from {A} (chk : A -> bool) (n : N) (l : list A) : list N :=
  match l with
  | [] => []
  | c :: l' => if chk c then failing_from chk (N.succ n) l' else n :: failing_from chk (N.succ n) l'
  end.
Definition mismatches (cs : list case) : list N := failing_from check 0 cs.

(* ---------- manual virtual IPs ---------- *)
Record vcase := VCase {
  vc_before : list (string * vip); vc_index : N;
  vc_idx : N; vc_svc : string; vc_ips : list string;
  vc_after : list (string * vip); vc_index_after : N;
  vc_found : bool; vc_unassigned : list string }.

Definition vcheck_env (c : vcase) (e1 e2 : Env) : bool :=
  let s := VSt (list_to_map (vc_before c)) (vc_index c) in
  let '(s', r) := assign_manual e1 e2 (vc_idx c) (vc_svc c) (vc_ips c) s in
  bool_decide (s' = VSt (list_to_map (vc_after c)) (vc_index_after c)) &&
  bool_decide (r = VRes (vc_found c) (vc_unassigned c)).   (* the raw list, in the order the code returned it *)

Definition vcheck (c : vcase) : bool := vcheck_env c env_id env_id && vcheck_env c env_rev env_rev.
Definition vmismatches (cs : list vcase) : list N := failing_from vcheck 0 cs.
