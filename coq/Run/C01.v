(* Executable glue for property C01.
   [case]: a history of modelled commands the real FSM executed (with every result and the projected
   final store).  The model is run on it TWICE, from initial states that differ in the local
   lock-delay set (the two replicas of the check are started the same way), and both runs must
   reproduce the implementation's results and replicated state.
   [vcase]: one AssignManualServiceVIPs command with the service-virtual-ips rows before and after
   it; the model is run under two different iteration orders. *)
From stdpp Require Import gmap strings.
From RecordUpdate Require Import RecordSet.
From Coq Require Import NArith.
From Verif Require Import Store.Model Run.Store FSM.Model.
Import RecordSetNotations.
Local Open Scope N_scope.

Record case := Case {
  c_log : list (N * cmd); c_results : list cres; c_final : dump;
  c_delay1 : list string; c_delay2 : list string }.

Definition check_from (c : case) (delays : list string) : bool :=
  let '(s, rs) := run (c_log c) (st0 <| lockdelay := list_to_set delays |>) in
  list_eqb cres_eqb rs (c_results c) && st_eqb (repl s) (repl (st_of (c_final c))).

Definition check (c : case) : bool := check_from c (c_delay1 c) && check_from c (c_delay2 c).

Fixpoint failing_from {A} (chk : A -> bool) (n : N) (l : list A) : list N :=
  match l with
  | [] => []
  | c :: l' => if chk c then failing_from chk (N.succ n) l' else n :: failing_from chk (N.succ n) l'
  end.
Definition mismatches (cs : list case) : list N := failing_from check 0 cs.

(* ---------- manual virtual IPs ---------- *)
Record vcase := VCase {
  vc_before : list (string * vip); vc_index : N;
  vc_idx : N; vc_svc : string; vc_ips : list string;
  vc_after : list (string * vip); vc_index_after : N;
  vc_found : bool; vc_unassigned : list string }.

Definition vcheck_env (c : vcase) (e1 e2 : Env) : bool :=
  let s := VSt (list_to_map (vc_before c)) (vc_index c) in
  let '(s', r) := assign_manual e1 e2 (vc_idx c) (vc_svc c) (vc_ips c) s in
  bool_decide (s' = VSt (list_to_map (vc_after c)) (vc_index_after c)) &&
  bool_decide (r = VRes (vc_found c) (vc_unassigned c)).   (* the raw list, in the order the code returned it *)

(* the hypothesis of C01_manual_vips_order_invariant, on the observed table: no address is a manual IP
   of two services *)
Fixpoint disjoint_from (l : list string) (rest : list (string * vip)) : bool :=
  match rest with
  | [] => true
  | (_, r) :: rest' => forallb (fun x => negb (bool_decide (x ∈ v_manual r))) l && disjoint_from l rest'
  end.
Fixpoint uniqb (rows : list (string * vip)) : bool :=
  match rows with
  | [] => true
  | (_, r) :: rest => disjoint_from (v_manual r) rest && uniqb rest
  end.

Definition vcheck (c : vcase) : bool :=
  uniqb (vc_before c) && vcheck_env c env_id env_id && vcheck_env c env_rev env_rev && vcheck_env c env_rot env_rev.
Definition vmismatches (cs : list vcase) : list N := failing_from vcheck 0 cs.

(* ---------- the other map-ranging handlers, one call of the real code per case ---------- *)
Definition envs3 : list Env := [env_id; env_rev; env_rot].

Record ucase := UCase { u_idx : N; u_deltas : list (string * Z); u_before : list (string * (N * N)); u_after : list (string * (N * N)) }.
Definition ucheck (c : ucase) : bool :=
  forallb (fun e => bool_decide (write_usage_deltas (u_idx c) (ordered_items e (list_to_map (u_deltas c))) (list_to_map (u_before c))
                                 = list_to_map (u_after c))) envs3.

Record tcase := TCase { t_idx : N; t_ds : string; t_news : list string; t_old : list string;
                        t_before : list (string * string); t_ib : N; t_after : list (string * string); t_ia : N }.
Definition tcheck (c : tcase) : bool :=
  let rows (l : list (string * string)) : gmap (string * string) (string * string) :=
      list_to_map ((fun p => (tkey p.1 p.2, p)) <$> l) in
  forallb (fun e => let t := update_mesh_topology e (t_idx c) (t_ds c) (t_news c) (list_to_set (t_old c))
                               (Topo (rows (t_before c)) (t_ib c)) in
                    bool_decide (t_rows t = rows (t_after c)) && bool_decide (t_index t = t_ia c)) envs3.

Notation addrs := (list (string * (string * N))).
Record gcase := GCase { g_requested : addrs; g_addrs : addrs; g_result : addrs }.
Definition gcheck (c : gcase) : bool :=
  forallb (fun e => bool_decide (ensure_tagged e (list_to_map (g_addrs c)) (list_to_map (g_requested c)) = list_to_map (g_result c))) envs3.

Record hcase := HCase { h_existing : addrs; h_addrs : addrs; h_result : addrs }.
Definition hcheck (c : hcase) : bool :=
  forallb (fun e => bool_decide (update_tgw_tagged e env_rev (list_to_map (h_addrs c)) (list_to_map (h_existing c)) = list_to_map (h_result c))) envs3.

Record mcase := MCase { mc_pairs : list (string * string); mc_bad : list string; mc_named : option (string * string) }.
Definition mcheck (c : mcase) : bool :=
  forallb (fun e => bool_decide (validate_meta e (fun kv => bool_decide (kv.1 ∈ mc_bad c)) (list_to_map (mc_pairs c)) = mc_named c)) envs3.

Record jcase := JCase { j_known : list string; j_referenced : list string; j_lines : list string }.
Definition jcheck (c : jcase) : bool :=
  forallb (fun e => bool_decide (missing_providers (list_to_set (j_known c)) (order e (j_referenced c)) = j_lines c)) envs3.

Definition umismatches (cs : list ucase) : list N := failing_from ucheck 0 cs.
Definition tmismatches (cs : list tcase) : list N := failing_from tcheck 0 cs.
Definition gmismatches (cs : list gcase) : list N := failing_from gcheck 0 cs.
Definition hmismatches (cs : list hcase) : list N := failing_from hcheck 0 cs.
Definition mmismatches (cs : list mcase) : list N := failing_from mcheck 0 cs.
Definition jmismatches (cs : list jcase) : list N := failing_from jcheck 0 cs.
