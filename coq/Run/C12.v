(* Executable glue for the C12 correspondence check.

   A [CSign] case is one certificate signing request as crypto/x509 parsed it (the URL fields
   the code reads), the answers of the real ACL authorizer for every name that occurs in the
   request, the serial counter before the request, and what CAManager.AuthorizeAndSignCertificate
   returned: an error class, or the SANs / CA flag / serial of the issued leaf as crypto/x509
   parsed it back.  A [CHist] case is a history of CA commands applied through the FSM with the
   answer and the dump of the CA tables after every command.  [tab_ok] compares the model's
   byte classes with the ones tabulated from net/url on this run. *)
From Verif Require Import Base.Prelude.
From Verif Require Import CA.Model.
From Verif Require Import CA.UrlProofs.
Open Scope string_scope.
Open Scope N_scope.

Definition tab_lookup (t : list (string * bool)) (n : string) : bool :=
  match find (fun e => (fst e =? n)%string) t with
  | Some e => snd e
  | None => false
  end.

Record leaf := Leaf {
  l_uris : list url; l_dns : list string; l_ips : list string; l_is_ca : bool; l_serial : N
}.

Record sign_case := SignCase {
  sc_entry : option string;     (* None: AuthorizeAndSignCertificate; Some n: the auto-config path for node n *)
  sc_dc : string; sc_cluster : string;
  sc_serial : option N; sc_builtin : N;
  sc_svc : list (string * bool); sc_node : list (string * bool); sc_mesh : bool; sc_acl : bool;
  sc_csr : csr;
  sc_expect : res N leaf
}.

Definition serr_code (e : serr) : N :=
  match e with
  | EUriCount => 1 | EEmail => 2
  | EParse PScheme => 3 | EParse PUnescape => 4 | EParse PFormat => 5
  | EUnsupported => 6 | EDenied => 7 | EDatacenter => 8 | ETrustDomain => 9
  | ENotAgent => 10 | EWrongNode => 11 | EDecorated => 12
  end.

Definition deco_eqb (a b : deco) : bool :=
  match a, b with DNone, DNone | DUser, DUser | DForm, DForm => true | _, _ => false end.

Definition url_eqb (a b : url) : bool :=
  (u_scheme a =? u_scheme b)%string && (u_host a =? u_host b)%string && (u_path a =? u_path b)%string
  && (u_raw a =? u_raw b)%string && deco_eqb (u_deco a) (u_deco b).

Definition run_sign (c : sign_case) : res N leaf :=
  let az := Authz (tab_lookup (sc_svc c)) (tab_lookup (sc_node c)) (sc_mesh c) (sc_acl c) in
  let s := Store [] 0 None [] (sc_builtin c) (sc_serial c) in
  let e := CaEnv (sc_dc c) (sc_cluster c) in
  match (match sc_entry c with
         | None => sign_request e az (sc_csr c) s
         | Some n => autoconfig_sign e n (sc_csr c) s
         end) with
  | Err e => Err (serr_code e)
  | Ok (crt, _) => Ok (Leaf (leaf_uris crt) (c_dns crt) (c_ips crt) (c_is_ca crt) (c_serial crt))
  end.

Definition leaf_eqb (a b : leaf) : bool :=
  list_eqb url_eqb (l_uris a) (l_uris b) && list_eqb String.eqb (l_dns a) (l_dns b)
  && list_eqb String.eqb (l_ips a) (l_ips b) && Bool.eqb (l_is_ca a) (l_is_ca b)
  && (l_serial a =? l_serial b).

(* every URL crypto/x509 hands over must be in the form url.Parse guarantees ([url_wf], the
   hypothesis of C12_no_confusion) *)
Definition check_sign (c : sign_case) : bool :=
  forallb url_wfb (csr_uris (sc_csr c)) &&
  match run_sign c, sc_expect c with
  | Ok a, Ok b => leaf_eqb a b
  | Err a, Err b => a =? b
  | _, _ => false
  end.

(* ---- histories ---- *)

Definition hstep := (N * op * out * store)%type.

Definition cerr_code (e : cerr) : N :=
  match e with EOneActive => 1 | EMissingID => 2 | EConfigCAS => 3 | EInvalidOp => 4 | EActiveOverwritten => 5 end.

Definition out_eqb (a b : out) : bool :=
  match a, b with
  | OBool x, OBool y => Bool.eqb x y
  | ONil, ONil => true
  | OSerial x, OSerial y => x =? y
  | OErr x, OErr y => cerr_code x =? cerr_code y
  | _, _ => false
  end.

Definition root_eqb (a b : root) : bool :=
  (r_id a =? r_id b)%string && Bool.eqb (r_active a) (r_active b) && (r_create a =? r_create b)
  && (r_modify a =? r_modify b).

Definition pstate_eqb (a b : pstate) : bool :=
  (p_id a =? p_id b)%string && (p_create a =? p_create b) && (p_modify a =? p_modify b).

Definition config_eqb (a b : config) : bool :=
  (g_provider a =? g_provider b)%string && (g_cluster a =? g_cluster b)%string
  && (g_create a =? g_create b) && (g_modify a =? g_modify b) && (g_payload a =? g_payload b).

(* tables are compared as sets of rows (the dump is sorted by key, the model keeps insertion order;
   neither has two rows with one key) *)
Definition set_eqb {A} (eqb : A -> A -> bool) (a b : list A) : bool :=
  Nat.eqb (List.length a) (List.length b) && forallb (fun x => existsb (eqb x) b) a
  && forallb (fun y => existsb (fun x => eqb x y) a) b.

Definition store_eqb (a b : store) : bool :=
  set_eqb root_eqb (s_roots a) (s_roots b) && (s_roots_idx a =? s_roots_idx b)
  && option_eqb config_eqb (s_config a) (s_config b)
  && set_eqb pstate_eqb (s_pstates a) (s_pstates b) && (s_builtin_idx a =? s_builtin_idx b)
  && option_eqb N.eqb (s_serial a) (s_serial b).

Fixpoint check_hist_from (s : store) (h : list hstep) : bool :=
  match h with
  | [] => true
  | (idx, o, r, d) :: t =>
      let '(s', r') := step s idx o in
      out_eqb r' r && store_eqb s' d && check_hist_from s' t
  end.

Definition check_hist (h : list hstep) : bool := check_hist_from empty_store h.

Inductive case := CSign (c : sign_case) | CHist (h : list hstep).

Definition check (c : case) : bool :=
  match c with CSign s => check_sign s | CHist h => check_hist h end.

Definition mismatches (cs : list case) : list N := failing check cs.

(* ---- byte classes tabulated from net/url ---- *)

Fixpoint bytes_from (n : nat) (k : N) : list ascii :=
  match n with O => [] | S n' => ascii_of_N k :: bytes_from n' (k + 1) end.

Definition all_bytes : list ascii := bytes_from 256 0.

(* [esc]: does EscapedPath escape this byte;  [hx]: value of the byte as a hex digit, 16 = not one *)
Definition tab_ok (esc : list bool) (hx : list N) (valid : list bool) : bool :=
  list_eqb Bool.eqb (map should_escape_path all_bytes) esc
  && list_eqb N.eqb (map (fun c => match unhex c with Some v => v | None => 16 end) all_bytes) hx
  && list_eqb Bool.eqb (map valid_enc_char all_bytes) valid.

Definition tab_mismatch (esc : list bool) (hx : list N) (valid : list bool) : list N :=
  if tab_ok esc hx valid then [] else [4294967295].
