(* Executable glue for the C14 correspondence check.

   A [case] is one call of the real makeRBACRules: configuration, the intention list (raw
   fields as handed to the implementation), default policy, TCP/HTTP, and the RBAC the
   implementation produced, as an AST whose regexes are the emitted strings.  [check] compares
   it with the model's [translate], rendered the same way.

   Each case also carries a few sampled (connection, request) points with the verdicts of the
   Go side: the Go evaluator of the produced proto and the Go precedence reference (built on
   consul's own sorter and matcher).  [check] evaluates the model's [eval_rbac] and the
   model's specification [intention_allows] on them, so that the evaluator and the
   specification the theorems talk about are themselves tied to the implementation side.
   The regex engine is instantiated by the table of answers Go's regexp gave. *)
From Verif Require Import Base.Prelude.
From Verif Require Import RBAC.Model.
Local Open Scope string_scope.
Local Open Scope bool_scope.

Inductive xprincipal :=
| XAuth (re : string)
| XXfcc (re : string)
| XAnd (l : list xprincipal)
| XOr (l : list xprincipal)
| XNot (p : xprincipal).

Record xpolicy := XPolicy { xp_key : polkey; xp_principals : list xprincipal; xp_permissions : list permission }.
Record xrbac := XRbac { x_allow : bool; x_policies : list xpolicy }.

Fixpoint flat (p : principal) : xprincipal :=
  match p with
  | PAuth pt => XAuth (render_id pt)
  | PXfcc pt => XXfcc (render_xfcc pt)
  | PAnd l => XAnd (map flat l)
  | POr l => XOr (map flat l)
  | PNot q => XNot (flat q)
  end.

Definition flat_rbac (r : rbac) : xrbac :=
  XRbac (rb_allow r)
        (map (fun kp => XPolicy (fst kp) (map flat (pol_principals (snd kp))) (pol_permissions (snd kp)))
             (rb_policies r)).

Section Eqb.
  Context {A : Type} (eqb : A -> A -> bool).
  Fixpoint leqb (a b : list A) : bool :=
    match a, b with
    | [], [] => true
    | x :: a', y :: b' => eqb x y && leqb a' b'
    | _, _ => false
    end.
End Eqb.

Fixpoint xprincipal_eqb (a b : xprincipal) : bool :=
  match a, b with
  | XAuth s, XAuth t => s =? t
  | XXfcc s, XXfcc t => s =? t
  | XAnd l, XAnd m => leqb xprincipal_eqb l m
  | XOr l, XOr m => leqb xprincipal_eqb l m
  | XNot p, XNot q => xprincipal_eqb p q
  | _, _ => false
  end.

Definition strmatch_eqb (a b : strmatch) : bool :=
  match a, b with
  | SMExact s i, SMExact t j => (s =? t) && Bool.eqb i j
  | SMPrefix s i, SMPrefix t j => (s =? t) && Bool.eqb i j
  | SMSuffix s i, SMSuffix t j => (s =? t) && Bool.eqb i j
  | SMContains s i, SMContains t j => (s =? t) && Bool.eqb i j
  | SMRegex s, SMRegex t => s =? t
  | _, _ => false
  end.

Fixpoint permission_eqb (a b : permission) : bool :=
  match a, b with
  | PermAny, PermAny => true
  | PermPath m, PermPath n => strmatch_eqb m n
  | PermHeader x m i, PermHeader y n j =>
      (x =? y) && option_eqb strmatch_eqb m n && Bool.eqb i j
  | PermAnd l, PermAnd m => leqb permission_eqb l m
  | PermOr l, PermOr m => leqb permission_eqb l m
  | PermNot p, PermNot q => permission_eqb p q
  | _, _ => false
  end.

Definition polkey_eqb (a b : polkey) : bool :=
  match a, b with
  | KL4, KL4 => true
  | KL7 i, KL7 j => N.eqb i j
  | _, _ => false
  end.

Definition xpolicy_eqb (a b : xpolicy) : bool :=
  polkey_eqb (xp_key a) (xp_key b)
  && leqb xprincipal_eqb (xp_principals a) (xp_principals b)
  && leqb permission_eqb (xp_permissions a) (xp_permissions b).

Definition xrbac_eqb (a b : xrbac) : bool :=
  Bool.eqb (x_allow a) (x_allow b) && leqb xpolicy_eqb (x_policies a) (x_policies b).

(* the answers of Go's regexp (RE2), fully anchored, on the (pattern, subject) pairs of a sample *)
Definition re_of (tab : list (string * string * bool)) (p s : string) : bool :=
  match find (fun e => (fst (fst e) =? p) && (snd (fst e) =? s)) tab with
  | Some e => snd e
  | None => false
  end.

Record sample := Sample {
  sm_conn : conn; sm_req : request;
  sm_rbac : bool;           (* Go evaluator on the produced proto *)
  sm_want : bool;           (* Go precedence reference *)
  sm_re : list (string * string * bool) }.

Record case := Case {
  k_cfg : config; k_ixns : list intention; k_dflt : bool; k_http : bool;
  k_expect : option xrbac;        (* None: the implementation failed or emitted something outside the AST *)
  k_samples : list sample }.

Definition run (c : case) : xrbac := flat_rbac (translate (k_cfg c) (k_ixns c) (k_dflt c) (k_http c)).

Definition check_sample (c : case) (s : sample) : bool :=
  let re := re_of (sm_re s) in
  Bool.eqb (eval_rbac re (translate (k_cfg c) (k_ixns c) (k_dflt c) (k_http c)) (sm_conn s) (sm_req s))
           (sm_rbac s)
  && Bool.eqb (intention_allows re (k_cfg c) (k_ixns c) (k_dflt c) (k_http c) (sm_conn s) (sm_req s))
              (sm_want s).

Definition check (c : case) : bool :=
  match k_expect c with
  | Some x => xrbac_eqb (run c) x && forallb (check_sample c) (k_samples c)
  | None => false
  end.

Definition mismatches (cs : list case) : list N := failing check cs.

(* exhaustive tabulation of the two finite helpers of the precedence-removal pass
   (community edition: namespace and partition are always "default") *)
Record tabrow := TabRow {
  t_name : string; t_peer : string; a_name : string; a_peer : string;
  t_match : bool; t_wild : N }.

Definition tab_src (n p : string) : rsvc := RSvc "default" "default" n p "" "".

Definition check_tab (r : tabrow) : bool :=
  Bool.eqb (ixn_source_matches (tab_src (t_name r) (t_peer r)) (tab_src (a_name r) (a_peer r))) (t_match r)
  && N.eqb (count_wild (tab_src (t_name r) (t_peer r))) (t_wild r).

(* tabulation failures are reported with index + 1000000 *)
Definition tab_mismatches (rs : list tabrow) : list N :=
  map (fun i => (1000000 + i)%N) (failing check_tab rs).

(* ---- shrunk oracle findings replayed in the model ------------------------------------------
   A disagreement that is excused by an open known finding must be REPRODUCED by the faithful
   model ([check]: same RBAC, same two verdicts at the disagreeing point), and, when it is
   attributed to the superset-source defect, the model of the REPAIRED translator must give the
   precedence verdict at that point ([check_repaired_point]) - i.e. the disagreement is exactly
   what the proposed repair removes. *)
Definition check_repaired_point (c : case) : bool :=
  forallb (fun s =>
             Bool.eqb (eval_rbac (re_of (sm_re s))
                                 (translate (k_cfg c) (k_ixns c) (k_dflt c) (k_http c))
                                 (sm_conn s) (sm_req s))
                      (sm_want s))
          (k_samples c).

Definition check_finding (shadow : bool) (c : case) : bool :=
  check c
  && forallb (fun s => negb (Bool.eqb (sm_rbac s) (sm_want s))) (k_samples c)   (* it IS a disagreement *)
  && (if shadow then check_repaired_point c else true).

Record fcase := FCase { f_shadow : bool; f_case : case }.
Definition finding_mismatches (fs : list fcase) : list N :=
  map (fun i => (2000000 + i)%N) (failing (fun f => check_finding (f_shadow f) (f_case f)) fs).

