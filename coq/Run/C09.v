(* Executable glue for the C09 correspondence check.

   A filter case carries the real authorizer tabulated over the name universe of the harness,
   the response before the filter and the response the implementation produced; the model
   ([filter_response]) is run on the former and compared with the latter on the whole
   observable (every surviving element with its identifier and fields, in order, and the flags).
   A resolve case carries one ResolveToken call: the cache entry before, the scripted
   environment of each attempt, and what the implementation returned / left in the cache. *)
From Verif Require Import Base.Prelude.
From Verif Require Import Filter.Model.
From Verif Require Import Filter.ResolveModel.

(* ---- the authorizer as tabulated from Go ---- *)
Record aztab := AzTab {
  t_node : list (string * string * bool);
  t_service : list (string * string * bool);
  t_session : list (string * bool);
  t_intention : list (string * bool);
  t_query : list (string * bool);
  t_key : list (string * bool);
  t_acl_read : bool;
  t_acl_write : bool
}.

Definition look2 (tab : list (string * string * bool)) (p n : string) : bool :=
  match find (fun e => String.eqb (fst (fst e)) p && String.eqb (snd (fst e)) n) tab with
  | Some e => snd e
  | None => false
  end.
Definition look1 (tab : list (string * bool)) (n : string) : bool :=
  match find (fun e => String.eqb (fst e) n) tab with
  | Some e => snd e
  | None => false
  end.

Definition authz_of (t : aztab) : authz :=
  Authz (look2 (t_node t)) (look2 (t_service t)) (look1 (t_session t)) (look1 (t_intention t))
        (look1 (t_query t)) (look1 (t_key t)) (t_acl_read t) (t_acl_write t).

(* ---- observables ---- *)
Inductive obs := ON (n : N) | OS (s : string) | OB (b : bool) | OL (l : list obs).

Fixpoint obs_eqb (a b : obs) : bool :=
  match a, b with
  | ON x, ON y => N.eqb x y
  | OS x, OS y => String.eqb x y
  | OB x, OB y => Bool.eqb x y
  | OL x, OL y =>
      (fix go (x y : list obs) : bool :=
         match x, y with
         | [], [] => true
         | a' :: x', b' :: y' => obs_eqb a' b' && go x' y'
         | _, _ => false
         end) x y
  | _, _ => false
  end.

Definition o_list {A} (f : A -> obs) (l : list A) : obs := OL (map f l).
Definition o_opt {A} (f : A -> obs) (o : option A) : obs :=
  match o with None => OL [] | Some x => OL [f x] end.
Definition o_map {V} (f : V -> obs) (m : amap V) : obs := OL (map (fun kv => OL [OS (fst kv); f (snd kv)]) m).

Definition o_hc (c : hcheck) := OL [ON (h_id c); OS (h_node c); OS (h_svc c); OS (h_peer c)].
Definition o_sn (c : snode) := OL [ON (sn_id c); OS (sn_node c); OS (sn_svc c); OS (sn_peer c)].
Definition o_ns (c : nsvc) := OL [ON (ns_id c); OS (ns_key c); OS (ns_name c); OS (ns_peer c)].
Definition o_nd (c : node) := OL [ON (nd_id c); OS (nd_name c); OS (nd_peer c)].
Definition o_csn (c : csn) := OL [ON (c_id c); OS (c_node c); OS (c_svc c); OS (c_peer c)].
Definition o_co (c : coord) := OL [ON (co_id c); OS (co_node c)].
Definition o_se (c : session) := OL [ON (se_id c); OS (se_node c)].
Definition o_ix (c : intention) := OL [ON (ix_id c); OS (ix_src c); OS (ix_src_peer c); OS (ix_dst c)].
Definition o_pq (c : pquery) := OL [ON (pq_id c); OS (pq_name c); OB (pq_templated c); OS (pq_token c)].
Definition o_tk (c : acltoken) := OL [ON (tk_id c); OS (tk_secret c)].
Definition o_sv (c : svcname) := OL [ON (sv_id c); OS (sv_name c)].
Definition o_gs (c : gwsvc) := OL [ON (gs_id c); OS (gs_gateway c); OS (gs_service c)].
Definition o_si (c : svcinfo) :=
  OL [ON (si_id c); OS (si_gateway c); OS (si_service c); o_opt (fun p => OL [OS (fst p); OS (snd p)]) (si_node c)].
Definition o_ni (c : nodeinfo) :=
  OL [ON (ni_id c); OS (ni_node c); OS (ni_peer c); o_list o_ns (ni_services c); o_list o_hc (ni_checks c)].
Definition o_de (c : dirent) := OL [ON (de_id c); OS (de_key c)].
Definition o_txn (r : txnres) :=
  match r with
  | TKV i k => OL [ON 1; ON i; OS k]
  | TNode i n p => OL [ON 2; ON i; OS n; OS p]
  | TSvc i s p => OL [ON 3; ON i; OS s; OS p]
  | TCheck i n s p => OL [ON 4; ON i; OS n; OS s; OS p]
  | TNone i => OL [ON 5; ON i]
  end.
Definition o_n (n : N) := ON n.

Definition observe (r : response) : obs :=
  match r with
  | RCheckServiceNodes l => OL [ON 1; o_list o_csn l]
  | RIndexedCheckServiceNodes l f => OL [ON 2; o_list o_csn l; OB f]
  | RPreparedQueryExecuteResponse l f => OL [ON 3; o_list o_csn l; OB f]
  | RIndexedServiceTopology u d fa f => OL [ON 4; o_list o_csn u; o_list o_csn d; OB fa; OB f]
  | RDatacenterIndexedCheckServiceNodes m f => OL [ON 5; o_map (o_list o_csn) m; OB f]
  | RIndexedCoordinates l f => OL [ON 6; o_list o_co l; OB f]
  | RIndexedHealthChecks l f => OL [ON 7; o_list o_hc l; OB f]
  | RIndexedIntentions l f => OL [ON 8; o_list o_ix l; OB f]
  | RIntentionQueryMatch e => OL [ON 9; o_opt (o_list (fun p => OL [ON (fst p); OS (snd p)])) e]
  | RIndexedNodeDump i d f => OL [ON 10; o_list o_ni i; o_list o_ni d; OB f]
  | RIndexedServiceDump l f => OL [ON 11; o_list o_si l; OB f]
  | RIndexedNodes l f => OL [ON 12; o_list o_nd l; OB f]
  | RIndexedNodeServices ns f => OL [ON 13; o_opt (fun p => OL [o_nd (fst p); o_map o_ns (snd p)]) ns; OB f]
  | RIndexedNodeServiceList n l f => OL [ON 14; o_opt o_nd n; o_list o_ns l; OB f]
  | RIndexedServiceNodes l f => OL [ON 15; o_list o_sn l; OB f]
  | RIndexedServices m f => OL [ON 16; o_map o_n m; OB f]
  | RIndexedSessions l f => OL [ON 17; o_list o_se l; OB f]
  | RIndexedPreparedQueries l f => OL [ON 18; o_list o_pq l; OB f]
  | RPreparedQuery q => OL [ON 19; o_pq q]
  | RACLTokens l => OL [ON 20; o_list (o_opt o_tk) l]
  | RACLToken t => OL [ON 21; o_opt o_tk t]
  | RACLTokenListStubs l => OL [ON 22; o_list (o_opt o_tk) l]
  | RACLTokenListStub t => OL [ON 23; o_opt o_tk t]
  | RACLPolicies l => OL [ON 24; o_list (o_opt o_n) l]
  | RACLPolicy p => OL [ON 25; o_opt o_n p]
  | RACLRoles l => OL [ON 26; o_list (o_opt o_n) l]
  | RACLRole p => OL [ON 27; o_opt o_n p]
  | RACLBindingRules l => OL [ON 28; o_list (o_opt o_n) l]
  | RACLBindingRule p => OL [ON 29; o_opt o_n p]
  | RACLAuthMethods l => OL [ON 30; o_list (o_opt o_n) l]
  | RACLAuthMethod p => OL [ON 31; o_opt o_n p]
  | RIndexedServiceList l f => OL [ON 32; o_list o_sv l; OB f]
  | RIndexedExportedServiceList m f => OL [ON 33; o_map (o_list o_sv) m; OB f]
  | RIndexedGatewayServices l f => OL [ON 34; o_list o_gs l; OB f]
  | RIndexedNodesWithGateways i n g f => OL [ON 35; o_list o_csn i; o_list o_csn n; o_list o_gs g; OB f]
  | RDirEntries l => OL [ON 36; o_list o_de l]
  | RTxnResults l => OL [ON 37; o_list o_txn l]
  end.

(* ---- resolver observables ---- *)
Definition optN_eqb := option_eqb N.eqb.
Definition ident_eqb (a b : ident) : bool :=
  N.eqb (id_accessor a) (id_accessor b) && optN_eqb (id_exp a) (id_exp b) && Bool.eqb (id_local a) (id_local b).
Definition rerr_code (e : rerr) : N := match e with ENotFound => 1 | EDenied => 2 | EOther => 3 end%N.
Definition outcome_eqb (a b : outcome) : bool :=
  match a, b with
  | OManageAll, OManageAll | ORootDenied, ORootDenied | OLocal, OLocal | ODown, ODown => true
  | OGranted x, OGranted y => ident_eqb x y
  | OErr x, OErr y => N.eqb (rerr_code x) (rerr_code y)
  | _, _ => false
  end.

Definition dflt_attempt : attempt := Attempt BkNotDone false RpcFail PolOk 1%N.

Inductive case :=
| CFilter (az : aztab) (input expected : response)
| CExpired (exp : option N) (as_of : N) (got : bool)
| CResolve (acls : bool) (cls : secret_class) (attempts : list attempt) (down : down_policy)
           (cache_in : option ident) (out : outcome) (cache_out : option ident)
(* one blocking query on a real endpoint: the token (held by a locally resolving backend), the
   time of the resolution before the loop, the times of the runs, and whether the LAST run was
   authorized by the token (true) or refused (false) *)
| CBlocking (held : bool) (tok : ident) (t_resolve : N) (times : list N) (last_by_token : bool)
(* one reply through SetQueryMeta: request token blank / resolvable / anonymous, whether the
   filter removed something (fresh reply), the flag the client gets *)
| CMask (blank ok anon removed flag : bool).

Definition check (c : case) : bool :=
  match c with
  | CFilter az input expected =>
      obs_eqb (observe (filter_response (authz_of az) input)) (observe expected)
  | CExpired e as_of got => Bool.eqb (is_expired (Ident 0 e false) as_of) got
  | CResolve acls cls atts down cin out cout =>
      let '(o, c') := resolve_token acls cls (fun i => nth i atts dflt_attempt) down cin in
      outcome_eqb o out && option_eqb ident_eqb c' cout
  | CBlocking held tok t0 times last_by_token =>
      let resolve_at := fun now =>
        fst (resolve_token true SecPlain (env_at (BkDone (Some tok) BkOk) true RpcFail PolOk now) DownExtend None) in
      let runs := if held then blocking_held (resolve_at t0) times
                  else match auth_of (resolve_at t0) with
                       | RunRefused => []
                       | _ => blocking_reresolve resolve_at times
                       end in
      match last runs ByOther, last_by_token with
      | ByToken t, true => ident_eqb t tok
      | RunRefused, false => true
      | _, _ => false
      end
  | CMask blank ok anon removed flag => Bool.eqb (mask_flag blank ok anon removed) flag
  end.

Definition mismatches (cs : list case) : list N := failing check cs.
