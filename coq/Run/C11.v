(* Executable glue for the C11 correspondence check: a [case] is one schedule the Go harness executed
   on the real state store + event publisher + materializer, with what the implementation showed
   after every step; [check] runs the model along the same schedule and compares everything. *)
From Verif Require Import Base.Prelude Stream.Model.

Inductive xout :=
| XEv (idx : N) (evs : list ev)
| XEos (idx : N)
| XNstf
| XForce
| XAcl
| XBlock.

Inductive obs :=
| XQ (q : list (ts * amap))               (* commit / restore: every query result afterwards *)
| XPub (did : bool)
| XSub (err : bool) (reqidx : N) (p : path) (* subscribe: failed?, index the materializer put in the request,
                                             way Subscribe went (read from the publisher's state) *)
| XNext (o : xout) (cidx : N) (view : amap)
| XNoSub
| XUnsub.

(* a step the implementation executed; label None = a write that failed / queued nothing *)
Record cstep := CStep { cs_label : option label; cs_obs : obs }.

Record case := Case {
  cc_cache : bool;
  cc_steps : list cstep;
  cc_bufs : N;
  cc_snaps : N;
  cc_queue : N
}.

Definition ev_eqb (a b : ev) : bool :=
  key_eqb (e_key a) (e_key b) && option_eqb N.eqb (e_val a) (e_val b).

Definition amap_eqb (a b : amap) : bool :=
  list_eqb (fun x y => key_eqb (fst x) (fst y) && N.eqb (snd x) (snd y)) a b.

Definition out_matches (o : out) (x : xout) : bool :=
  match o, x with
  | ODeliver (IEv i evs), XEv j evs' => N.eqb i j && list_eqb ev_eqb evs evs'
  | ODeliver (IEos i), XEos j => N.eqb i j
  | ODeliver INstf, XNstf => true
  | OClosed ForceClosed, XForce => true
  | OClosed AclClosed, XAcl => true
  | OBlock, XBlock => true
  | _, _ => false
  end.

Definition path_eqb (a b : path) : bool :=
  match a, b with
  | PErr, PErr | PResume, PResume | PCache, PCache | PBuild, PBuild => true
  | _, _ => false
  end.

Definition label_client (l : label) : N :=
  match l with
  | LSubscribe c _ _ _ _ => c
  | LNext c => c
  | LUnsub c => c
  | _ => 0%N
  end.

Definition check_q (st : state) (q : list (ts * amap)) : bool :=
  forallb (fun tq => amap_eqb (rows_of (fst tq) (st_store st)) (snd tq)) q.

(* one step: the model's output and the visible part of its new state are what the implementation
   showed.  (The environment assumption of the theorems — [step_ok] — is not needed for the model to
   run; the steps at which the implementation's environment broke it are counted by [breaks_from]
   and reported.) *)
Definition check_step (st : state) (s : cstep) : bool * state :=
  match cs_label s with
  | None =>
      (match cs_obs s with XQ q => check_q st q | _ => false end, st)
  | Some l =>
      let '(st', o) := step st l in
      let ok :=
        match cs_obs s, l with
        | XQ q, (LCommit _ | LRestore _ _) => check_q st' q
        | XPub did, LPublish => match o with OPub d => Bool.eqb d did | _ => false end
        | XSub err reqidx p, LSubscribe c T _ _ _ =>
            N.eqb (sub_idx st c) reqidx &&
            path_eqb (sub_path (fst (do_unsub st c)) (sub_ts st c T) (sub_idx st c)) p &&
            match o with OSubErr => err | OSubOk => negb err | _ => false end
        | XNext x cidx view, LNext c =>
            out_matches o x &&
            match find_client c (st_clients st') with
            | Some cl => N.eqb (c_idx cl) cidx && amap_eqb (c_view cl) view
            | None => false
            end
        | XNoSub, (LNext _ | LUnsub _) => match o with ONoSub => true | _ => false end
        | XUnsub, LUnsub _ => match o with ONone => true | _ => false end
        | XUnsub, LEvict _ => true
        | _, _ => false
        end in
      (ok, st')
  end.

Fixpoint check_steps (st : state) (n : N) (l : list cstep) : option N * state :=
  match l with
  | [] => (None, st)
  | s :: r =>
      let '(ok, st') := check_step st s in
      if ok then check_steps st' (N.succ n) r else (Some n, st')
  end.

(* index of the first step at which model and implementation disagree (1000 = the final counters) *)
Definition diag (c : case) : option N :=
  let '(bad, st) := check_steps (init (cc_cache c)) 0 (cc_steps c) in
  match bad with
  | Some n => Some n
  | None =>
      if N.eqb (N.of_nat (List.length (st_bufs st))) (cc_bufs c)
         && N.eqb (N.of_nat (List.length (st_cache st))) (cc_snaps c)
         && N.eqb (N.of_nat (List.length (st_queue st))) (cc_queue c)
      then None else Some 1000%N
  end.

(* steps at which the implementation's environment broke the assumption of the theorems ([step_ok]), by class:
   a = a Subscribe on the connect health topic (1) whose query index is behind a commit of its subject
       (the recorded finding query-index-behind-content);
   r = a commit whose raft index is not above the previous one (or is 1);
   x = anything else (query index ahead of the raft index, an understated index on another topic, a
       restored store with two rows for one key) *)
Definition break_class (st : state) (lb : label) : N :=
  if step_ok st lb then 0
  else match lb with
       | LCommit _ => 2
       | LSubscribe c T _ _ qidx =>
           if N.eqb (fst (sub_ts st c T)) 1 && N.leb qidx (st_hi st) then 1 else 3
       | _ => 3
       end%N.

Fixpoint breaks_from (st : state) (l : list cstep) : N * N * N :=
  match l with
  | [] => (0, 0, 0)
  | s :: r =>
      match cs_label s with
      | None => breaks_from st r
      | Some lb =>
          let '(a, b, x) := breaks_from (fst (step st lb)) r in
          match break_class st lb with
          | 0 => (a, b, x) | 1 => (a + 1, b, x) | 2 => (a, b + 1, x) | _ => (a, b, x + 1)
          end
      end
  end%N.

(* per case: 0 when model and implementation agree, else 1 + the index of the first disagreeing step
   (1001 = the final counters); the numbers of assumption breaks by class *)
Definition report (c : case) : N * N * N * N :=
  let '(a, b, x) := breaks_from (init (cc_cache c)) (cc_steps c) in
  (match diag c with None => 0 | Some n => n + 1 end, a, b, x)%N.

Definition reports (cs : list case) : list (N * N * N * N) := map report cs.

Definition check (c : case) : bool := match diag c with None => true | Some _ => false end.
Definition mismatches (cs : list case) : list N := failing check cs.
Definition diags (cs : list case) : list (option N) := map diag cs.
