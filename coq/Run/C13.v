(* Executable glue for the C13 correspondence check.  A [case] is one history of writes against a
   real state.Store (legacy intention table, or service-intentions config entries written whole or
   through Store.IntentionMutation(upsert)), followed by what the implementation answered:
   the result of every write, Store.Intentions, Store.IntentionMatch by source and by destination
   for every query entry, and Store.IntentionDecision along both routes for every pair. *)
From Verif Require Import Base.Prelude.
From Verif Require Import Intention.Model.
From Verif Require Import Intention.Spec.

Inductive wop :=
| LSet (i : ixn)                 (* Store.LegacyIntentionSet *)
| CEnt (e : entry)               (* Normalize; Validate; Store.EnsureConfigEntry *)
| CUps (dn : string) (v : src)   (* Store.IntentionMutation(IntentionOpUpsert) *)
| CDest (n : string).            (* service-defaults entry for n with a Destination block *)

Record case := Case {
  c_legacy : bool;
  c_ops : list wop;
  c_qs : list (string * string);          (* query entries (namespace, name) *)
  c_peers : list string;                  (* peers asked about along route 2 ("" = local) *)
  c_dflt : bool;                          (* DefaultAllow *)
  c_aperm : bool;                         (* AllowPermissions *)
  (* observed on the implementation *)
  c_wres : list N;
  c_all : list ixn;                       (* Store.Intentions *)
  c_msrc : list (list N);                 (* per query entry: positions in c_all *)
  c_mdst : list (list N);
  c_msrd : list (list N);                 (* by source, target type "destination" *)
  c_r1 : list N;                          (* qs x qd, summary codes *)
  c_r2 : list N                           (* peer x qs x qd *)
}.

Inductive state := SL (t : list ixn) | SC (st : list entry) (dk : list string).

Definition werr_code (w : werr) : N :=
  match w with WOk => 0 | WMissingID => 100 | WDuplicate => 101 | WInvalid c => c end%N.

Definition step (s : state) (o : wop) : N * state :=
  match s, o with
  | SL t, LSet i => let '(w, t') := legacy_set t i in (werr_code w, SL t')
  | SC st dk, CEnt e => let '(w, st') := ensure st e in (werr_code w, SC st' dk)
  | SC st dk, CUps dn v => let '(w, st') := upsert st dn v in (werr_code w, SC st' dk)
  | SC st dk, CDest n => (0%N, SC st (n :: dk))
  | _, _ => (999%N, s)
  end.

Fixpoint steps (s : state) (os : list wop) : list N * state :=
  match os with
  | [] => ([], s)
  | o :: r => let '(c, s') := step s o in let '(cs, s'') := steps s' r in (c :: cs, s'')
  end.

Definition st_all (s : state) : list ixn :=
  match s with SL t => legacy_list t | SC st _ => config_list st end.
Definition st_msrc (s : state) (ns n : string) : list ixn :=
  match s with SL t => legacy_match t MSrc ns n | SC st dk => cmatch_src_k dk false st n end.
Definition st_msrd (s : state) (ns n : string) : list ixn :=
  match s with SL t => legacy_match t MSrc ns n | SC st dk => cmatch_src_k dk true st n end.
Definition st_mdst (s : state) (ns n : string) : list ixn :=
  match s with SL t => legacy_match t MDst ns n | SC st _ => cmatch_dst st n end.

Definition summary_code (d : summary) : N :=
  ((if d_allowed d then 1 else 0) + (if d_has_perms d then 2 else 0) + (if d_has_exact d then 4 else 0))%N.

Definition action_code (a : action) : N :=
  match a with Allow => 1 | Deny => 2 | NoAct => 0 | BadAct => 3 end%N.

Definition ixn_eqb (a b : ixn) : bool :=
  (String.eqb (i_id a) (i_id b) && String.eqb (i_peer a) (i_peer b)
   && String.eqb (i_sns a) (i_sns b) && String.eqb (i_sname a) (i_sname b)
   && String.eqb (i_dns a) (i_dns b) && String.eqb (i_dname a) (i_dname b)
   && N.eqb (action_code (i_act a)) (action_code (i_act b))
   && N.eqb (i_nperm a) (i_nperm b) && N.eqb (i_prec a) (i_prec b))%bool.

Definition dummy : ixn := Ixn "?" "?" "?" "?" "?" "?" BadAct 0 0.
Definition pick (all : list ixn) (idx : list N) : list ixn :=
  map (fun k => nth (N.to_nat k) all dummy) idx.

Definition pairs {A B} (a : list A) (b : list B) : list (A * B) :=
  flat_map (fun x => map (fun y => (x, y)) b) a.

Record obs := Obs {
  o_wres : list N; o_all : list ixn; o_msrc : list (list ixn); o_mdst : list (list ixn);
  o_msrd : list (list ixn);
  o_r1 : list N; o_r2 : list N
}.

(* The match list of every query entry is computed once; the decisions are then exactly
   [route1 (st_msrc s) ..] and [route2 (st_mdst s) ..] of Intention/Model.v with the lists shared. *)
Definition run (c : case) : obs :=
  let '(wres, s) := steps (if c_legacy c then SL [] else SC [] []) (c_ops c) in
  let qs := c_qs c in
  let ms := map (fun q => st_msrc s (fst q) (snd q)) qs in
  let md := map (fun q => st_mdst s (fst q) (snd q)) qs in
  Obs wres (st_all s) ms md (map (fun q => st_msrd s (fst q) (snd q)) qs)
      (flat_map (fun l => map (fun qd : string * string =>
                   summary_code (decide l MDst (snd qd) (fst qd) "" (c_dflt c) (c_aperm c))) qs) ms)
      (flat_map (fun peer =>
         flat_map (fun q : string * string =>
            map (fun l => summary_code (decide l MSrc (snd q) (fst q) peer (c_dflt c) (c_aperm c))) md) qs)
         (c_peers c)).

Definition check (c : case) : bool :=
  let o := run c in
  (list_eqb N.eqb (o_wres o) (c_wres c)
   && list_eqb ixn_eqb (o_all o) (c_all c)
   && list_eqb (list_eqb ixn_eqb) (o_msrc o) (map (pick (c_all c)) (c_msrc c))
   && list_eqb (list_eqb ixn_eqb) (o_mdst o) (map (pick (c_all c)) (c_mdst c))
   && list_eqb (list_eqb ixn_eqb) (o_msrd o) (map (pick (c_all c)) (c_msrd c))
   && list_eqb N.eqb (o_r1 o) (c_r1 c)
   && list_eqb N.eqb (o_r2 o) (c_r2 c))%bool.

Definition mismatches (cs : list case) : list N := failing check cs.

(* How many cases end in a state (and ask about names) that meet the hypotheses of C13_most_specific /
   C13_paths_agree: valid rows / entries, no two names differing only in case. *)
Definition in_scope (c : case) : bool :=
  let qn := map snd (c_qs c) ++ map fst (c_qs c) in
  match snd (steps (if c_legacy c then SL [] else SC [] []) (c_ops c)) with
  | SL t => (legacy_okb t && coherentb (tnames t ++ qn))%bool
  | SC st dk => (store_okb st && coherentb (enames st ++ qn)
                 && forallb (fun e => negb (is_dest_kind dk (e_name e))) st)%bool
  end.
Definition scope_count (cs : list case) : N := N.of_nat (List.length (filter in_scope cs)).

(* finite tabulations of the structs-level functions, regenerated from the Go code on every run
   (coq/gen/tab_C13.v proves each [.._ok ..= true] by vm_compute) *)
Definition prec_tab_ok (tab : list (string * string * string * string * N)) : bool :=
  forallb (fun r : string * string * string * string * N => let '(sns, sn, dns, dn, p) := r in N.eqb (prec_of sns sn dns dn) p) tab.

(* computeIntentionPrecedence through ServiceIntentionsConfigEntry.Normalize: (source name, entry name, p) *)
Definition cprec_tab_ok (tab : list (string * string * N)) : bool :=
  forallb (fun r : string * string * N => let '(sn, en, p) := r in
             N.eqb (s_prec (src_set_prec en (Src "" sn Allow 0 0))) p) tab.

(* IntentionPrecedenceSorter.Less on every ordered pair of a universe: row k lists the j with Less(u_k, u_j) *)
Definition less_tab_ok (u : list ixn) (tab : list (list N)) : bool :=
  list_eqb (list_eqb N.eqb)
    (map (fun a => failing (fun b => negb (iless a b)) u) u) tab.

(* connect.IntentionMatch: for every (match type, target, ns, peer) the positions of the matching intentions *)
Definition authz_tab_ok (u : list ixn) (tab : list (bool * string * string * string * list N)) : bool :=
  forallb (fun r : bool * string * string * string * list N => let '(is_src, target, tns, tpeer, idx) := r in
             list_eqb N.eqb
               (failing (fun i => negb (authz_match (if is_src then MSrc else MDst) target tns tpeer i)) u)
               idx) tab.
