(* Executable glue for the C16 correspondence check.  A [case] is one history as the harness ran
   it on the real local.State (with the visiting orders of Go's map iteration read off the RPC
   log), the injected fault list, and per step the canonical observation rows the harness
   recorded: result, RPC sequence, every bookkeeping entry, catalog content. *)
From Verif Require Import Base.Prelude AE.Model.
From stdpp Require Import gmap.

Record case := Case {
  k_cfg : cfg;
  k_steps : list step;
  k_faults : list outcome;
  k_expect : list (list (list N))
}.

Definition b2n (b : bool) : N := if b then 1%N else 0%N.
Definition len {A} (l : list A) : N := N.of_nat (List.length l).

Fixpoint ins_key {A} (x : N * A) (l : list (N * A)) : list (N * A) :=
  match l with
  | [] => [x]
  | y :: r => if N.leb (fst x) (fst y) then x :: l else y :: ins_key x r
  end.
Definition sort_key {A} (l : list (N * A)) : list (N * A) := fold_right ins_key [] l.

Fixpoint ins_n (x : N) (l : list N) : list N :=
  match l with
  | [] => [x]
  | y :: r => if N.leb x y then x :: l else y :: ins_n x r
  end.
Definition sort_n (l : list N) : list N := fold_right ins_n [] l.

Definition res_code (r : res) : N := match r with ROk => 0 | RErr => 1 | RPanic => 2 end%N.
Definition kind_code (k : rkind) : N :=
  match k with KListSvcs => 1 | KListChks => 2 | KNodeInfo => 3 | KSyncSvc => 4 | KSyncChk => 5
             | KDelSvc => 6 | KDelChk => 7 end%N.
Definition out_code (o : outcome) : N :=
  match o with OOk => 0 | OFail => 1 | ODenied => 2 | ONotFound => 3 | OUnknown => 4 end%N.

Definition enc_ta (l : list (N * N)) : list N :=
  len l :: flat_map (fun kv => [fst kv; snd kv]) l.

Definition enc_svc (d : svc) : list N :=
  [sv_name d; sv_tags d; b2n (sv_eto d); sv_rest d; b2n (sv_tanil d)] ++ enc_ta (sv_tau d) ++ enc_ta (sv_tar d).
Definition enc_chk (d : chk) : list N :=
  [ck_sid d; ck_status d; ck_out d; ck_rest d; ck_sname d; ck_stags d; ck_aux d].

Definition enc_event (e : event) : list N :=
  [1%N; kind_code (e_kind e); e_id e; e_tok e; b2n (e_skip e); b2n (e_withsvc e); out_code (e_out e);
   len (e_pig e)] ++ sort_n (e_pig e).

Definition enc_sentry (x : N * sentry) : list N :=
  let e := snd x in
  [3%N; fst x; se_tok e; b2n (se_sync e); b2n (se_del e); b2n (se_loc e)] ++
  match se_def e with Some d => 1%N :: enc_svc d | None => [0%N] end.
Definition enc_centry (x : N * centry) : list N :=
  let e := snd x in
  [4%N; fst x; ce_tok e; b2n (ce_sync e); b2n (ce_del e); b2n (ce_loc e); b2n (ce_defer e)] ++
  match ce_def e with Some d => 1%N :: enc_chk d | None => [0%N] end.

Definition rows (r : res) (log : list event) (st : lstate) (c : cat) : list (list N) :=
  [[0%N; res_code r]] ++ map enc_event log ++ [[2%N; b2n (l_node st)]]
  ++ map enc_sentry (sort_key (map_to_list (l_svcs st)))
  ++ map enc_centry (sort_key (map_to_list (l_chks st)))
  ++ [match c_node c with Some n => [5%N; 1%N; n] | None => [5%N; 0%N; 0%N] end]
  ++ map (fun x : N * svc => [6%N; fst x] ++ enc_svc (snd x)) (sort_key (map_to_list (c_svcs c)))
  ++ map (fun x : N * chk => [7%N; fst x] ++ enc_chk (snd x)) (sort_key (map_to_list (c_chks c))).

Fixpoint run_steps (g : cfg) (ss : list step) (st : lstate) (c : cat) (fs : list outcome)
  : list (list (list N)) :=
  match ss with
  | [] => []
  | s :: r => let '(st', c', fs', log, rs) := do_step g s st c fs in
              rows rs log st' c' :: run_steps g r st' c' fs'
  end.

Definition run (k : case) : list (list (list N)) :=
  run_steps (k_cfg k) (k_steps k) lstate0 cat0 (k_faults k).

Definition rows_eqb : list (list (list N)) -> list (list (list N)) -> bool :=
  list_eqb (list_eqb (list_eqb N.eqb)).

Definition check (k : case) : bool := rows_eqb (run k) (k_expect k).
Definition mismatches (ks : list case) : list N := failing check ks.

(* for diagnosis: index of the first step whose rows differ *)
Fixpoint first_diff (a b : list (list (list N))) (n : N) : option N :=
  match a, b with
  | [], [] => None
  | x :: a', y :: b' => if list_eqb (list_eqb N.eqb) x y then first_diff a' b' (N.succ n) else Some n
  | _, _ => Some n
  end.
