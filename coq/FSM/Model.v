(* Property C01: the FSM handlers that range over a Go map, with the iteration order made explicit.

   Go specifies no order for `for k := range m`; two replicas (and two runs on one replica) may
   visit the keys in different orders.  Every such loop reachable from FSM.Apply is modelled here
   as a fold over a list that an environment [Env] chooses as SOME permutation of the map's keys:

     AssignManualServiceVIPs  state/catalog.go   loop over assignedIPs; result maps.SliceOfKeys(modifiedEntries), sorted
     writeUsageDeltas         state/usage.go     loop over usageDeltas, one usage row per key
     updateMeshTopology       state/catalog.go   loop over oldUpstreams, one mesh-topology row per key
     ensureServiceTxn         state/catalog.go   `for key, addr := range addrs { svc.TaggedAddresses[key] = addr }`
     validateMetadata         structs/structs.go keys collected in map order, sorted; first invalid pair named
     validateJWTProvider      state/config_entry.go  names collected in map order, sorted; one line per missing one

   (The last three return / report in sorted order since the fixes 9d6116b, 7ea9e44, 281c379; before
   them the raw map order reached the result and the error texts.)

   Same verbs, same order of effects, same early returns as the Go code.  std++ style.  No proofs. *)
From stdpp Require Import gmap strings sorting.
From RecordUpdate Require Import RecordSet.
From Coq Require Import NArith.
From Verif Require Import Store.Model.
Import RecordSetNotations.
Local Open Scope N_scope.

(* ---------- the environment: one iteration order per map ranged over ---------- *)
(* [order l] is the order in which a Go map whose key set is (the set of) [l] is visited.  The only
   thing known about it is that it visits every key exactly once. *)
Record Env := MkEnv {
  order : list string -> list string;
  now : N;                                  (* the server's wall clock when the entry is applied *)
  order_perm : forall l, Permutation (order l) l
}.

Definition env_id : Env := MkEnv (fun l => l) 100 (fun l => Permutation_refl l).
Definition env_rev : Env := MkEnv (@rev string) 7777 (fun l => Permutation_sym (Permutation_rev l)).
Definition rot (l : list string) : list string := match l with [] => [] | x :: t => t ++ [x] end.
Lemma rot_perm l : Permutation (rot l) l.
Proof. destruct l as [|x t]; cbn; [reflexivity|]. symmetry. apply Permutation_cons_append. Qed.
Definition env_rot : Env := MkEnv rot 31 rot_perm.

(* the entries of a Go map in the order this environment visits them *)
Definition ordered_items {A} (e : Env) (m : gmap string A) : list (string * A) :=
  omap (fun k => (fun v => (k, v)) <$> m !! k) (order e (elements (dom m))).

(* ---------- manual virtual IPs ---------- *)
Record vip := Vip {
  v_ip : N;                      (* the allocated virtual IP (raw counter offset) *)
  v_manual : list string;        (* ManualIPs *)
  v_create : N; v_modify : N }.
#[global] Instance vip_eq_dec : EqDecision vip. Proof. solve_decision. Defined.
#[global] Instance eta_vip : Settable _ := settable! Vip <v_ip; v_manual; v_create; v_modify>.

Record vst := VSt {
  vips : gmap string vip;        (* service-virtual-ips rows of the local datacenter, by service name *)
  vindex : N                     (* index table row "service-virtual-ips" (0 = absent) *)
}.
#[global] Instance eta_vst : Settable _ := settable! VSt <vips; vindex>.
#[global] Instance vst_eq_dec : EqDecision vst. Proof. solve_decision. Defined.

(* indexUpdateMaxTxn *)
Definition index_max (idx cur : N) : N := if bool_decide (idx <= cur) then cur else idx.

(* tx.First(tableServiceVirtualIPs, indexManualVIPs, partition, ip): the first row, in index order
   (service name), whose ManualIPs contain ip *)
Definition holder_of (ip : string) (m : gmap string vip) : option (string * vip) :=
  head (omap (fun n => match m !! n with
                       | Some r => if bool_decide (ip ∈ v_manual r) then Some (n, r) else None
                       | None => None
                       end) (ssort (elements (dom m)))).

(* the keys of a Go map built from a slice: duplicates collapse *)
Definition dedup (l : list string) : list string := remove_dups l.

(* one iteration of `for ip := range assignedIPs`; [acc.2] is modifiedEntries (a set, kept as the
   list of its distinct members) *)
Definition unassign_step (idx : N) (svc : string) (ipset : list string)
           (acc : vst * list string) (ip : string) : vst * list string :=
  match holder_of ip (vips acc.1) with
  | None => acc
  | Some (name, row) =>
    if bool_decide (name = svc) then acc
    else
      let filtered := ssort (filter (fun x => x ∉ ipset) (v_manual row)) in
      let row' := row <| v_manual := filtered |> <| v_modify := idx |> in
      (acc.1 <| vips ::= <[name := row']> |> <| vindex ::= index_max idx |>,
       if bool_decide (name ∈ acc.2) then acc.2 else acc.2 ++ [name])
  end.

(* stringslice.EqualMapKeys(row.ManualIPs, assignedIPs) *)
Definition equal_map_keys (a ipset : list string) : bool :=
  bool_decide (length a = length ipset) && forallb (fun x => bool_decide (x ∈ ipset)) a.

Record vres := VRes { r_found : bool; r_unassigned : list string }.
#[global] Instance vres_eq_dec : EqDecision vres. Proof. solve_decision. Defined.

(* AssignManualServiceVIPs.  The transaction is committed only when the service has a row; the
   early `return false, nil, nil` drops whatever the loop wrote. *)
Definition assign_manual (e1 e2 : Env) (idx : N) (svc : string) (ips : list string) (s : vst) : vst * vres :=
  let ipset := dedup ips in
  let '(s1, modified) := foldl (unassign_step idx svc ipset) (s, []) (order e1 ipset) in
  match vips s1 !! svc with
  | None => (s, VRes false [])
  | Some row =>
    let s2 := if equal_map_keys (v_manual row) ipset then s1
              else s1 <| vips ::= <[svc := row <| v_manual := ssort ips |> <| v_modify := idx |>]> |>
                      <| vindex ::= index_max idx |> in
    (s2, VRes true (ssort (order e2 modified)))   (* maps.SliceOfKeys(modifiedEntries), then sort.Slice by name *)
  end.

(* the other commands that touch the table, as far as manual IPs are concerned *)
Inductive vcmd :=
| VAssign (svc : string) (ips : list string)
| VCreate (svc : string) (ip : N)      (* assignServiceVirtualIP for a new connect service *)
| VDrop (svc : string).                (* freeServiceVirtualIP *)

Definition vapply (e1 e2 : Env) (idx : N) (c : vcmd) (s : vst) : vst * option vres :=
  match c with
  | VAssign svc ips => let '(s', r) := assign_manual e1 e2 idx svc ips s in (s', Some r)
  | VCreate svc ip =>
    match vips s !! svc with
    | Some _ => (s, None)
    | None => (s <| vips ::= <[svc := Vip ip [] idx idx]> |> <| vindex ::= index_max idx |>, None)
    end
  | VDrop svc =>
    match vips s !! svc with
    | None => (s, None)
    | Some _ => (s <| vips ::= delete svc |> <| vindex ::= index_max idx |>, None)
    end
  end.

(* a run where every command may meet a different environment *)
Fixpoint vrun (log : list (Env * Env * N * vcmd)) (s : vst) : vst * list (option vres) :=
  match log with
  | [] => (s, [])
  | (e1, e2, idx, c) :: rest =>
    let '(s', r) := vapply e1 e2 idx c s in
    let '(s'', rs) := vrun rest s' in (s'', r :: rs)
  end.

Definition vst0 : vst := VSt ∅ 0.

(* ---------- usage counters ---------- *)
(* writeUsageDeltas: one usage row (count, index) per key of the delta map; counts never go below 0 *)
Definition usage_step (idx : N) (u : gmap string (N * N)) (kd : string * Z) : gmap string (N * N) :=
  let '(id, d) := kd in
  match u !! id with
  | None => <[id := (Z.to_N d, idx)]> u                          (* delta < 0 -> 0 *)
  | Some (c, _) => <[id := (Z.to_N (Z.of_N c + d), idx)]> u      (* updated < 0 -> 0 *)
  end.
Definition write_usage_deltas (idx : N) (deltas : list (string * Z)) (u : gmap string (N * N))
  : gmap string (N * N) := foldl (usage_step idx) u deltas.

(* ---------- mesh topology ---------- *)
(* The table's id index lower-cases both service names (ServiceNameIndex): a row is FOUND, REPLACED
   and DELETED under its lower-cased names, while it keeps the spelling of the registration that created
   it (the update path deep-copies the existing row) and while the `inserted` set of updateMeshTopology
   compares names exactly. *)
Definition lower_ascii (a : Ascii.ascii) : Ascii.ascii :=
  let n := Ascii.N_of_ascii a in
  if bool_decide (65 <= n) && bool_decide (n <= 90) then Ascii.ascii_of_N (n + 32) else a.
Fixpoint lower (s : string) : string :=
  match s with EmptyString => EmptyString | String a s' => String (lower_ascii a) (lower s') end.
Definition tkey (u d : string) : string * string := (lower u, lower d).

Record topo := Topo { t_rows : gmap (string * string) (string * string) (* lower-cased (upstream, downstream) -> as spelled *);
                      t_index : N }.
#[global] Instance eta_topo : Settable _ := settable! Topo <t_rows; t_index>.
(* one iteration of `for u := range oldUpstreams` *)
Definition prune_step (idx : N) (downstream : string) (inserted : gset string) (t : topo) (u : string) : topo :=
  if bool_decide (u ∈ inserted) then t
  else t <| t_rows ::= delete (tkey u downstream) |> <| t_index ::= index_max idx |>.
Definition prune_old_upstreams (idx : N) (downstream : string) (inserted : gset string)
           (old : list string) (t : topo) : topo :=
  foldl (prune_step idx downstream inserted) t old.

(* updateMeshTopology as a whole: one row per upstream of the new registration (a slice, in order; an
   existing row keeps its spelling), then the pruning loop over the map of the previous registration's
   upstreams *)
Definition add_upstream (idx : N) (downstream : string) (t : topo) (u : string) : topo :=
  let k := tkey u downstream in
  t <| t_rows ::= fun r => match r !! k with Some _ => r | None => <[k := (u, downstream)]> r end |>
    <| t_index ::= index_max idx |>.
Definition update_mesh_topology (e : Env) (idx : N) (downstream : string) (news : list string)
           (old : gset string) (t : topo) : topo :=
  let t1 := foldl (add_upstream idx downstream) t news in
  prune_old_upstreams idx downstream (list_to_set news) (order e (elements old)) t1.

(* ---------- tagged addresses of a terminating gateway ---------- *)
Definition merge_tagged (addrs : list (string * (string * N))) (m : gmap string (string * N))
  : gmap string (string * N) := foldl (fun m kv => <[kv.1 := kv.2]> m) m addrs.

(* ensureServiceTxn: svc.TaggedAddresses[key] = addr for every entry of the map addrs *)
Definition ensure_tagged (e : Env) (addrs m : gmap string (string * N)) : gmap string (string * N) :=
  merge_tagged (ordered_items e addrs) m.

(* updateTerminatingGatewayVirtualIPs: a fresh map gets the non-virtual entries of the instance's
   tagged addresses, then the gateway's virtual addresses (all their keys carry the virtual prefix) *)
Definition is_virtual_key (k : string) : bool := String.prefix "consul-virtual:" k.
Definition update_tgw_tagged (e1 e2 : Env) (addrs existing : gmap string (string * N)) : gmap string (string * N) :=
  merge_tagged (ordered_items e2 addrs)
    (merge_tagged (filter (fun kv => negb (is_virtual_key kv.1)) (ordered_items e1 existing)) ∅).

(* ---------- error texts built from the keys of a map ---------- *)
(* validateMetadata: the keys are collected (in map order) and sorted; the first invalid pair in that
   order is named *)
Definition validate_meta (e : Env) (bad : string * string -> bool) (meta : gmap string string) : option (string * string) :=
  let keys := ssort (order e (elements (dom meta))) in
  head (filter (fun kv => bad kv = true) (omap (fun k => (fun v => (k, v)) <$> meta !! k) keys)).
(* validateJWTProvider: the referenced names are collected (in map order) and sorted; one line per
   missing provider *)
Definition missing_providers (known : gset string) (referenced : list string) : list string :=
  filter (fun p => p ∉ known) (ssort referenced).
