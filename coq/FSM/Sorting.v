(* Property C01: the insertion sort [ssort] of coq/Store/Model.v (Go's sort.Strings / sort.Slice on
   names: byte-wise lexicographic order) returns the same list for every permutation of its input.
   This is what makes "collect the keys of a map, then sort" independent of the iteration order. *)
From stdpp Require Import list strings sorting.
From Coq Require Import NArith.
From Verif Require Import Store.Model.

Definition sle (a b : string) : Prop := String.leb a b = true.

Lemma ascii_compare_trans_gt a b c :
  Ascii.compare a b ≠ Gt -> Ascii.compare b c ≠ Gt ->
  Ascii.compare a c ≠ Gt /\
  (Ascii.compare a c = Eq -> Ascii.compare a b = Eq /\ Ascii.compare b c = Eq).
Proof.
  unfold Ascii.compare. rewrite !N.compare_le_iff, !N.compare_eq_iff. lia.
Qed.

Lemma compare_trans_gt : forall s1 s2 s3,
  String.compare s1 s2 ≠ Gt -> String.compare s2 s3 ≠ Gt -> String.compare s1 s3 ≠ Gt.
Proof.
  induction s1 as [|a s1 IH]; intros [|b s2] [|c s3]; cbn; try congruence.
  intros H1 H2.
  destruct (Ascii.compare a b) eqn:Eab; try congruence;
  destruct (Ascii.compare b c) eqn:Ebc; try congruence.
  - (* a = b, b = c *)
    apply Ascii.compare_eq_iff in Eab, Ebc. subst.
    assert (Hcc : Ascii.compare c c = Eq).
    { unfold Ascii.compare. apply N.compare_refl. }
    rewrite Hcc. apply (IH s2 s3); assumption.
  - apply Ascii.compare_eq_iff in Eab. subst. rewrite Ebc. congruence.
  - apply Ascii.compare_eq_iff in Ebc. subst. rewrite Eab. congruence.
  - pose proof (ascii_compare_trans_gt a b c) as Hx. rewrite Eab, Ebc in Hx.
    destruct Hx as [Hx Hy]; try congruence.
    destruct (Ascii.compare a c) eqn:Eac; try congruence.
    destruct (Hy eq_refl); congruence.
Qed.

#[global] Instance sle_trans : Transitive sle.
Proof.
  intros a b c. unfold sle, String.leb. intros H1 H2.
  pose proof (compare_trans_gt a b c) as Hx.
  destruct (String.compare a b) eqn:E1; try discriminate;
  destruct (String.compare b c) eqn:E2; try discriminate;
  destruct (String.compare a c) eqn:E3; try reflexivity; exfalso; apply Hx; congruence.
Qed.
#[global] Instance sle_antisym : AntiSymm (=) sle.
Proof. intros a b H1 H2. apply String.leb_antisym; assumption. Qed.
Lemma sle_total a b : sle a b \/ sle b a.
Proof. apply String.leb_total. Qed.

Lemma sinsert_perm x l : Permutation (sinsert x l) (x :: l).
Proof.
  induction l as [|y l IH]; cbn; [reflexivity|].
  destruct (String.leb x y); [reflexivity|]. rewrite IH. apply perm_swap.
Qed.
Lemma ssort_perm l : Permutation (ssort l) l.
Proof. induction l as [|x l IH]; cbn; [reflexivity|]. rewrite sinsert_perm, IH. reflexivity. Qed.
Lemma elem_of_ssort x l : x ∈ ssort l <-> x ∈ l.
Proof. rewrite ssort_perm. reflexivity. Qed.

Lemma sinsert_sorted x l : StronglySorted sle l -> StronglySorted sle (sinsert x l).
Proof.
  induction 1 as [|y l Hl IH Hy]; cbn; [repeat constructor|].
  destruct (String.leb x y) eqn:E.
  - constructor; [constructor; assumption|]. constructor; [exact E|].
    eapply Forall_impl; [exact Hy|]. intros z Hz. etransitivity; [exact E|exact Hz].
  - constructor; [exact IH|]. rewrite sinsert_perm. constructor; [|exact Hy].
    destruct (sle_total x y) as [Hx|Hx]; [unfold sle in Hx; congruence|exact Hx].
Qed.
Lemma ssort_sorted l : StronglySorted sle (ssort l).
Proof. induction l as [|x l IH]; cbn; [constructor|]. apply sinsert_sorted. exact IH. Qed.

Theorem ssort_order l1 l2 : Permutation l1 l2 -> ssort l1 = ssort l2.
Proof.
  intros Hp. apply (StronglySorted_unique sle); [apply ssort_sorted|apply ssort_sorted|].
  rewrite !ssort_perm. exact Hp.
Qed.
