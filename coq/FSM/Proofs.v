(* Property C01: the handlers that range over Go maps (coq/FSM/Model.v) store the same rows and
   return the same result and the same error text whatever order the environment picks.  (Before the
   fixes 9d6116b, 7ea9e44, 281c379 the raw result list of AssignManualServiceVIPs and two error texts did
   depend on it; the models then carried refutations.) *)
From stdpp Require Import gmap strings sorting.
From RecordUpdate Require Import RecordSet.
From Coq Require Import NArith.
From Verif Require Import Store.Model FSM.Model FSM.Sorting.
Import RecordSetNotations.
Local Open Scope N_scope.

(* ---------- folding over a permutation ---------- *)
Section FoldPerm.
  Context {A B : Type} (f : B -> A -> B) (I : B -> Prop) (Q : A -> Prop) (R : B -> B -> Prop).
  Hypothesis R_refl : forall b, R b b.
  Hypothesis R_trans : forall a b c, R a b -> R b c -> R a c.
  Hypothesis I_step : forall b x, I b -> Q x -> I (f b x).
  Hypothesis R_step : forall b b' x, R b b' -> I b -> I b' -> Q x -> R (f b x) (f b' x).
  Hypothesis comm : forall b x y, I b -> Q x -> Q y -> R (f (f b x) y) (f (f b y) x).

  Lemma foldl_I l : forall b, I b -> Forall Q l -> I (foldl f b l).
  Proof.
    induction l as [|x l IH]; intros b Hb Hl; cbn; [exact Hb|].
    inversion Hl; subst. apply IH; [apply I_step; assumption|assumption].
  Qed.

  Lemma foldl_R l : forall b b', R b b' -> I b -> I b' -> Forall Q l -> R (foldl f b l) (foldl f b' l).
  Proof.
    induction l as [|x l IH]; intros b b' Hr Hb Hb' Hl; cbn; [exact Hr|].
    inversion Hl; subst. apply IH; try assumption; [apply R_step; assumption|apply I_step; assumption|apply I_step; assumption].
  Qed.

  Lemma foldl_perm l1 l2 : Permutation l1 l2 -> forall b, I b -> Forall Q l1 -> R (foldl f b l1) (foldl f b l2).
  Proof.
    induction 1 as [|x l1 l2 Hp IH|x y l|l1 l2 l3 Hp1 IH1 Hp2 IH2]; intros b Hb Hl; cbn.
    - apply R_refl.
    - inversion Hl; subst. apply IH; [apply I_step; assumption|assumption].
    - inversion Hl as [|? ? Hy Hl']; subst. inversion Hl' as [|? ? Hx Hl'']; subst.
      apply foldl_R; try assumption.
      + apply comm; assumption.
      + apply I_step; [apply I_step|]; assumption.
      + apply I_step; [apply I_step|]; assumption.
    - eapply R_trans; [apply IH1; assumption|]. apply IH2; [assumption|].
      eapply Forall_forall. intros x Hx. eapply Forall_forall in Hl; [exact Hl|].
      rewrite Hp1. exact Hx.
  Qed.
End FoldPerm.

(* the plain case: steps commute outright *)
Lemma foldl_perm_eq {A B} (f : B -> A -> B) (Q : A -> A -> Prop) :
  (forall b x y, Q x y -> f (f b x) y = f (f b y) x) ->
  forall l1 l2, Permutation l1 l2 -> (forall x y, x ∈ l1 -> y ∈ l1 -> x ≠ y -> Q x y) -> NoDup l1 ->
  forall b, foldl f b l1 = foldl f b l2.
Proof.
  intros Hc l1 l2 Hp. induction Hp as [|x l1 l2 Hp IH|x y l|l1 l2 l3 Hp1 IH1 Hp2 IH2]; intros HQ Hnd b; cbn.
  - reflexivity.
  - apply IH; [|inversion Hnd; assumption].
    intros a c Ha Hc'. apply HQ; right; assumption.
  - f_equal. apply Hc. apply HQ; [left|right; left|].
    inversion Hnd as [|? ? Hnin _]; subst. intros ->. apply Hnin. left.
  - rewrite IH1 by assumption. apply IH2.
    + intros a c Ha Hc'. apply HQ; rewrite Hp1; assumption.
    + rewrite <- Hp1. exact Hnd.
Qed.

(* ---------- usage counters ---------- *)
Theorem write_usage_deltas_order idx d1 d2 u :
  Permutation d1 d2 -> NoDup (fst <$> d1) -> write_usage_deltas idx d1 u = write_usage_deltas idx d2 u.
Proof.
  intros Hp Hnd. unfold write_usage_deltas.
  apply (foldl_perm_eq (usage_step idx) (fun a b => a.1 ≠ b.1)); [|exact Hp| |].
  - intros m [k1 v1] [k2 v2] Hne. cbn in Hne. unfold usage_step.
    assert (H1 : forall w, (<[k1 := w]> m) !! k2 = m !! k2) by (intros w; apply lookup_insert_ne; exact Hne).
    assert (H2 : forall w, (<[k2 := w]> m) !! k1 = m !! k1) by (intros w; apply lookup_insert_ne; congruence).
    destruct (m !! k1) as [[c1 i1]|] eqn:E1, (m !! k2) as [[c2 i2]|] eqn:E2;
      rewrite ?H1, ?H2, ?E1, ?E2; apply insert_commute; congruence.
  - intros [k1 v1] [k2 v2] H1 H2 Hne. cbn. intros ->.
    (* two entries with the same key in a list whose keys are distinct are the same entry *)
    assert (v1 = v2); [|congruence].
    apply elem_of_list_lookup in H1 as [i Hi], H2 as [j Hj].
    assert (i = j).
    { eapply NoDup_lookup; [exact Hnd| |]; rewrite list_lookup_fmap; [rewrite Hi|rewrite Hj]; reflexivity. }
    subst. rewrite Hi in Hj. congruence.
  - eapply NoDup_fmap_1. exact Hnd.
Qed.

(* ---------- mesh topology ---------- *)
Lemma index_max_idem idx v : index_max idx (index_max idx v) = index_max idx v.
Proof. unfold index_max. repeat case_bool_decide; try reflexivity; lia. Qed.

Theorem prune_old_upstreams_order idx ds ins old1 old2 t :
  Permutation old1 old2 -> prune_old_upstreams idx ds ins old1 t = prune_old_upstreams idx ds ins old2 t.
Proof.
  intros Hp. unfold prune_old_upstreams. revert t.
  induction Hp as [|x l1 l2 Hp IH|x y l|l1 l2 l3 Hp1 IH1 Hp2 IH2]; intros t; cbn.
  - reflexivity.
  - apply IH.
  - f_equal. unfold prune_step. destruct (bool_decide (x ∈ ins)), (bool_decide (y ∈ ins)); try reflexivity.
    destruct t as [rows ti]; unfold set; cbn. f_equal. apply delete_commute.
  - rewrite IH1. apply IH2.
Qed.

(* ---------- tagged addresses ---------- *)
Theorem merge_tagged_order a1 a2 m :
  Permutation a1 a2 -> NoDup (fst <$> a1) -> merge_tagged a1 m = merge_tagged a2 m.
Proof.
  intros Hp Hnd. unfold merge_tagged.
  apply (foldl_perm_eq (fun m kv => <[kv.1 := kv.2]> m) (fun a b => a.1 ≠ b.1)); [|exact Hp| |].
  - intros m' x y Hne. apply insert_commute. congruence.
  - intros [k1 v1] [k2 v2] H1 H2 Hne. cbn. intros ->.
    assert (v1 = v2); [|congruence].
    apply elem_of_list_lookup in H1 as [i Hi], H2 as [j Hj].
    assert (i = j).
    { eapply NoDup_lookup; [exact Hnd| |]; rewrite list_lookup_fmap; [rewrite Hi|rewrite Hj]; reflexivity. }
    subst. rewrite Hi in Hj. congruence.
  - eapply NoDup_fmap_1. exact Hnd.
Qed.

(* ---------- error texts ---------- *)
(* the pair named by validateMetadata does not depend on the order in which the keys were collected *)
Theorem validate_meta_order e1 e2 bad meta : validate_meta e1 bad meta = validate_meta e2 bad meta.
Proof.
  unfold validate_meta. rewrite (ssort_order (order e1 (elements (dom meta))) (order e2 (elements (dom meta)))); [reflexivity|].
  rewrite !order_perm. reflexivity.
Qed.

Example validate_meta_example :
  validate_meta env_rev (fun _ => true) (<["bad key!" := "x"]> (<["also bad?" := "y"]> ∅)) = Some ("also bad?", "y") /\
  validate_meta env_id (fun _ => true) (<["bad key!" := "x"]> (<["also bad?" := "y"]> ∅)) = Some ("also bad?", "y").
Proof. split; vm_compute; reflexivity. Qed.

(* the lines reported for missing JWT providers come in one order *)
Theorem missing_providers_order known r1 r2 :
  Permutation r1 r2 -> missing_providers known r1 = missing_providers known r2.
Proof. intros Hp. unfold missing_providers. rewrite (ssort_order r1 r2 Hp). reflexivity. Qed.

Example missing_providers_example :
  missing_providers ∅ ["okta"; "auth0"] = ["auth0"; "okta"] /\ missing_providers ∅ ["auth0"; "okta"] = ["auth0"; "okta"].
Proof. split; vm_compute; reflexivity. Qed.

(* ---------- manual virtual IPs ---------- *)
(* a manual IP belongs to at most one service (what AssignManualServiceVIPs is there to ensure) *)
Definition Uniq (m : gmap string vip) : Prop :=
  forall n1 n2 r1 r2 ip, m !! n1 = Some r1 -> m !! n2 = Some r2 -> ip ∈ v_manual r1 -> ip ∈ v_manual r2 -> n1 = n2.

Lemma holder_of_Some ip m n r : holder_of ip m = Some (n, r) -> m !! n = Some r /\ ip ∈ v_manual r.
Proof.
  unfold holder_of. intros Hh. apply head_Some_elem_of in Hh.
  apply elem_of_list_omap in Hh as (n' & _ & Hf).
  destruct (m !! n') as [r'|] eqn:En; [|discriminate].
  case_bool_decide; [|discriminate]. injection Hf as -> ->. split; assumption.
Qed.

Lemma holder_of_None ip m : holder_of ip m = None -> forall n r, m !! n = Some r -> ip ∉ v_manual r.
Proof.
  unfold holder_of. intros Hh n r Hn Hin.
  destruct (omap _ _) as [|y l] eqn:Eo; [|discriminate].
  assert (Hx : (n, r) ∈ omap (fun n => match m !! n with
                       | Some r => if bool_decide (ip ∈ v_manual r) then Some (n, r) else None
                       | None => None end) (ssort (elements (dom m)))).
  { apply elem_of_list_omap. exists n. split.
    - apply elem_of_ssort, elem_of_elements, elem_of_dom. eauto.
    - rewrite Hn. rewrite bool_decide_eq_true_2 by exact Hin. reflexivity. }
  rewrite Eo in Hx. inversion Hx.
Qed.

Lemma holder_of_uniq ip m n r : Uniq m -> m !! n = Some r -> ip ∈ v_manual r -> holder_of ip m = Some (n, r).
Proof.
  intros Hu Hn Hin. destruct (holder_of ip m) as [[n' r']|] eqn:Eh.
  - apply holder_of_Some in Eh as [Hn' Hin']. assert (n' = n) by (eapply Hu; eassumption). subst.
    rewrite Hn in Hn'. injection Hn' as <-. reflexivity.
  - exfalso. eapply holder_of_None; eassumption.
Qed.

Definition strip (idx : N) (ipset : list string) (row : vip) : vip :=
  row <| v_manual := ssort (filter (fun x => x ∉ ipset) (v_manual row)) |> <| v_modify := idx |>.

Lemma strip_manual idx ipset row x : x ∈ v_manual (strip idx ipset row) <-> x ∈ v_manual row /\ x ∉ ipset.
Proof. unfold strip; cbn. rewrite elem_of_ssort, elem_of_list_filter. tauto. Qed.

Lemma unassign_step_eq idx svc ipset acc ip :
  unassign_step idx svc ipset acc ip =
  match holder_of ip (vips acc.1) with
  | None => acc
  | Some (name, row) =>
    if bool_decide (name = svc) then acc
    else (acc.1 <| vips ::= <[name := strip idx ipset row]> |> <| vindex ::= index_max idx |>,
          if bool_decide (name ∈ acc.2) then acc.2 else acc.2 ++ [name])
  end.
Proof. reflexivity. Qed.

Section Assign.
  Variable idx : N.
  Variable svc : string.
  Variable ipset : list string.

  Notation step := (unassign_step idx svc ipset).
  Definition SI (b : vst * list string) : Prop := Uniq (vips b.1) /\ NoDup b.2.
  Definition SR (b b' : vst * list string) : Prop := b.1 = b'.1 /\ Permutation b.2 b'.2.
  Definition SQ (ip : string) : Prop := ip ∈ ipset.

  Lemma Uniq_strip m n row : Uniq m -> m !! n = Some row -> Uniq (<[n := strip idx ipset row]> m).
  Proof.
    intros Hu Hn n1 n2 r1 r2 ip H1 H2 Hi1 Hi2.
    destruct (decide (n1 = n)) as [->|Hne1], (decide (n2 = n)) as [->|Hne2]; [reflexivity| | |].
    - rewrite lookup_insert in H1. injection H1 as <-. rewrite lookup_insert_ne in H2 by congruence.
      apply strip_manual in Hi1 as [Hi1 _]. eapply Hu; eassumption.
    - rewrite lookup_insert in H2. injection H2 as <-. rewrite lookup_insert_ne in H1 by congruence.
      apply strip_manual in Hi2 as [Hi2 _]. eapply Hu; eassumption.
    - rewrite lookup_insert_ne in H1, H2 by congruence. eapply Hu; eassumption.
  Qed.

  Lemma step_I b x : SI b -> SI (step b x).
  Proof.
    intros [Hu Hnd]. rewrite unassign_step_eq.
    destruct (holder_of x (vips b.1)) as [[name row]|] eqn:Eh; [|split; assumption].
    destruct (bool_decide (name = svc)); [split; assumption|].
    apply holder_of_Some in Eh as [Hn _]. split; cbn.
    - apply Uniq_strip; assumption.
    - case_bool_decide; [exact Hnd|]. apply NoDup_app. split; [exact Hnd|]. split; [|apply NoDup_singleton].
      intros y Hy Hy'. apply elem_of_list_singleton in Hy'. subst. contradiction.
  Qed.

  Lemma step_R b b' x : SR b b' -> SR (step b x) (step b' x).
  Proof.
    destruct b as [s acc], b' as [s' acc']. intros [Hs Hp]; cbn in Hs, Hp. subst s'.
    rewrite !unassign_step_eq; cbn.
    destruct (holder_of x (vips s)) as [[name row]|]; [|split; [reflexivity|exact Hp]].
    destruct (bool_decide (name = svc)); [split; [reflexivity|exact Hp]|].
    split; [reflexivity|]. cbn.
    destruct (decide (name ∈ acc)) as [Hin|Hnin].
    - rewrite !bool_decide_eq_true_2; [exact Hp| |exact Hin]. rewrite <- Hp. exact Hin.
    - rewrite !bool_decide_eq_false_2; [rewrite Hp; reflexivity| |exact Hnin]. rewrite <- Hp. exact Hnin.
  Qed.

  (* after a step for x, x is held by nobody but (possibly) svc *)
  Lemma step_unchanged_or_stripped b x :
    SI b -> SQ x ->
    (step b x = b /\ forall n r, vips b.1 !! n = Some r -> x ∈ v_manual r -> n = svc) \/
    (exists n row, n ≠ svc /\ vips b.1 !! n = Some row /\ x ∈ v_manual row /\
       step b x = (b.1 <| vips ::= <[n := strip idx ipset row]> |> <| vindex ::= index_max idx |>,
                   if bool_decide (n ∈ b.2) then b.2 else b.2 ++ [n])).
  Proof.
    intros [Hu Hnd] Hx. rewrite unassign_step_eq.
    destruct (holder_of x (vips b.1)) as [[name row]|] eqn:Eh.
    - pose proof (holder_of_Some _ _ _ _ Eh) as [Hn Hin].
      case_bool_decide as Hname.
      + left. split; [reflexivity|]. intros n r Hr Hxr. subst. eapply Hu; eassumption.
      + right. exists name, row. repeat split; assumption.
    - left. split; [reflexivity|]. intros n r Hr Hxr. exfalso. eapply holder_of_None; eassumption.
  Qed.

  Lemma holder_after_strip m n row y :
    Uniq m -> m !! n = Some row -> n ≠ svc ->
    holder_of y (<[n := strip idx ipset row]> m) =
    match holder_of y m with
    | Some (n', r') => if bool_decide (n' = n)
                       then (if bool_decide (y ∈ ipset) then None else Some (n, strip idx ipset row))
                       else Some (n', r')
    | None => None
    end.
  Proof.
    intros Hu Hn Hne.
    pose proof (Uniq_strip m n row Hu Hn) as Hu'.
    destruct (holder_of y m) as [[n' r']|] eqn:Eh.
    - apply holder_of_Some in Eh as [Hn' Hin'].
      case_bool_decide as Hnn.
      + subst n'. rewrite Hn in Hn'. injection Hn' as <-.
        case_bool_decide as Hy.
        * destruct (holder_of y (<[n:=strip idx ipset row]> m)) as [[n2 r2]|] eqn:E2; [|reflexivity].
          exfalso. apply holder_of_Some in E2 as [Hn2 Hin2].
          destruct (decide (n2 = n)) as [->|Hd].
          -- rewrite lookup_insert in Hn2. injection Hn2 as <-. apply strip_manual in Hin2 as [_ Hc]. contradiction.
          -- rewrite lookup_insert_ne in Hn2 by congruence. apply Hd. eapply Hu; eassumption.
        * apply holder_of_uniq; [exact Hu'|apply lookup_insert|]. apply strip_manual. split; assumption.
      + apply holder_of_uniq; [exact Hu'| |exact Hin']. rewrite lookup_insert_ne by congruence. exact Hn'.
    - destruct (holder_of y (<[n:=strip idx ipset row]> m)) as [[n2 r2]|] eqn:E2; [|reflexivity].
      exfalso. apply holder_of_Some in E2 as [Hn2 Hin2].
      destruct (decide (n2 = n)) as [->|Hd].
      + rewrite lookup_insert in Hn2. injection Hn2 as <-. apply strip_manual in Hin2 as [Hc _].
        eapply holder_of_None; eassumption.
      + rewrite lookup_insert_ne in Hn2 by congruence. eapply holder_of_None; eassumption.
  Qed.

  Lemma step_comm b x y : SI b -> SQ x -> SQ y -> SR (step (step b x) y) (step (step b y) x).
  Proof.
    intros HI Hx Hy. unfold SQ in Hx, Hy. destruct b as [s acc]. pose proof HI as [Hu Hnd]; cbn in Hu, Hnd.
    rewrite (unassign_step_eq idx svc ipset (s, acc) x), (unassign_step_eq idx svc ipset (s, acc) y); cbn.
    destruct (holder_of x (vips s)) as [[n1 r1]|] eqn:E1; cycle 1.
    { (* nobody holds x: the step for x is the identity before and after the step for y *)
      assert (Hid : forall b', vips b'.1 = vips s \/ (exists n row, vips s !! n = Some row /\ n ≠ svc /\
                       vips b'.1 = <[n := strip idx ipset row]> (vips s)) -> step b' x = b').
      { intros b' [Hv|(n & row & Hn & Hne & Hv)]; rewrite unassign_step_eq, Hv.
        - rewrite E1. reflexivity.
        - rewrite holder_after_strip, E1 by assumption. reflexivity. }
      rewrite (Hid (match holder_of y (vips s) with Some (name, row) => _ | None => _ end)).
      - split; reflexivity.
      - destruct (holder_of y (vips s)) as [[n2 r2]|] eqn:E2; [|left; reflexivity].
        case_bool_decide; [left; reflexivity|]. right. apply holder_of_Some in E2 as [? ?].
        exists n2, r2. repeat split; assumption. }
    pose proof (holder_of_Some _ _ _ _ E1) as [Hn1 Hin1].
    destruct (bool_decide (n1 = svc)) eqn:Es1.
    { (* x is held by svc itself: identity, before and after *)
      apply bool_decide_eq_true in Es1. subst n1.
      assert (Hid : forall b', vips b'.1 = vips s \/ (exists n row, vips s !! n = Some row /\ n ≠ svc /\
                       vips b'.1 = <[n := strip idx ipset row]> (vips s)) -> step b' x = b').
      { intros b' [Hv|(n & row & Hn & Hne & Hv)]; rewrite unassign_step_eq, Hv.
        - rewrite E1. rewrite bool_decide_eq_true_2 by reflexivity. reflexivity.
        - rewrite holder_after_strip, E1 by assumption.
          rewrite (bool_decide_eq_false_2 (svc = n)) by congruence.
          rewrite bool_decide_eq_true_2 by reflexivity. reflexivity. }
      rewrite (Hid (match holder_of y (vips s) with Some (name, row) => _ | None => _ end)).
      - split; reflexivity.
      - destruct (holder_of y (vips s)) as [[n2 r2]|] eqn:E2; [|left; reflexivity].
        case_bool_decide; [left; reflexivity|]. right. apply holder_of_Some in E2 as [? ?].
        exists n2, r2. repeat split; assumption. }
    apply bool_decide_eq_false in Es1.
    destruct (holder_of y (vips s)) as [[n2 r2]|] eqn:E2; cycle 1.
    { (* symmetric: nobody holds y *)
      rewrite (unassign_step_eq idx svc ipset (_, _) y); cbn.
      rewrite holder_after_strip, E2 by assumption.
      rewrite (unassign_step_eq idx svc ipset (s, acc) x); cbn. rewrite E1.
      rewrite (bool_decide_eq_false_2 (n1 = svc)) by exact Es1. split; reflexivity. }
    pose proof (holder_of_Some _ _ _ _ E2) as [Hn2 Hin2].
    destruct (bool_decide (n2 = svc)) eqn:Es2.
    { apply bool_decide_eq_true in Es2. subst n2.
      rewrite (unassign_step_eq idx svc ipset (_, _) y); cbn.
      rewrite holder_after_strip, E2 by assumption.
      rewrite (bool_decide_eq_false_2 (svc = n1)) by congruence.
      rewrite bool_decide_eq_true_2 by reflexivity.
      rewrite (unassign_step_eq idx svc ipset (s, acc) x); cbn. rewrite E1.
      rewrite (bool_decide_eq_false_2 (n1 = svc)) by exact Es1. split; reflexivity. }
    apply bool_decide_eq_false in Es2.
    (* both steps strip a row *)
    rewrite (unassign_step_eq idx svc ipset (_, _) y), (unassign_step_eq idx svc ipset (_, _) x); cbn.
    rewrite !holder_after_strip, E1, E2 by assumption.
    destruct (decide (n1 = n2)) as [->|Hne].
    - (* the same row holds both: the first step removes both IPs, the second finds no holder *)
      rewrite Hn1 in Hn2. injection Hn2 as <-.
      rewrite (bool_decide_eq_true_2 (n2 = n2)) by reflexivity.
      rewrite (bool_decide_eq_true_2 (x ∈ ipset)) by exact Hx.
      rewrite (bool_decide_eq_true_2 (y ∈ ipset)) by exact Hy.
      split; reflexivity.
    - rewrite (bool_decide_eq_false_2 (n2 = n1)) by congruence.
      rewrite (bool_decide_eq_false_2 (n1 = n2)) by congruence.
      rewrite (bool_decide_eq_false_2 (n1 = svc)) by exact Es1.
      rewrite (bool_decide_eq_false_2 (n2 = svc)) by exact Es2.
      split; cbn.
      + destruct s as [m vi]; unfold set; cbn. f_equal. apply insert_commute. congruence.
      + repeat case_bool_decide; try reflexivity;
          repeat match goal with
                 | H : _ ∈ _ ++ [_] |- _ => apply elem_of_app in H as [H|H]; [|apply elem_of_list_singleton in H]
                 | H : ¬ (_ ∈ _ ++ [_]) |- _ => rewrite elem_of_app, elem_of_list_singleton in H
                 end; try congruence; try tauto.
        rewrite <- !app_assoc. apply Permutation_app_head. apply perm_swap.
  Qed.

  Lemma SR_refl b : SR b b.
  Proof. split; reflexivity. Qed.
  Lemma SR_trans a b c : SR a b -> SR b c -> SR a c.
  Proof. intros [H1 H2] [H3 H4]. split; [congruence|rewrite H2; exact H4]. Qed.

  Lemma fold_order l1 l2 b :
    Permutation l1 l2 -> SI b -> Forall SQ l1 -> SR (foldl step b l1) (foldl step b l2).
  Proof.
    intros Hp HI HQ.
    apply (foldl_perm step SI SQ SR SR_refl SR_trans); try assumption.
    - intros b' x Hb _. apply step_I. exact Hb.
    - intros b1 b2 x Hr _ _ _. apply step_R. exact Hr.
    - intros b' x y Hb Hx Hy. apply step_comm; assumption.
  Qed.

  Lemma fold_I l b : SI b -> SI (foldl step b l).
  Proof. revert b. induction l as [|x l IH]; intros b Hb; cbn; [exact Hb|]. apply IH, step_I. exact Hb. Qed.

  (* the IPs processed so far are held by nobody but svc *)
  Definition Clean (l : list string) (m : gmap string vip) : Prop :=
    forall ip n r, ip ∈ l -> m !! n = Some r -> ip ∈ v_manual r -> n = svc.

  Lemma step_vips_shrink b x n r ip :
    SI b -> vips (step b x).1 !! n = Some r -> ip ∈ v_manual r ->
    exists r0, vips b.1 !! n = Some r0 /\ ip ∈ v_manual r0.
  Proof.
    intros [Hu _] Hr Hin. rewrite unassign_step_eq in Hr.
    destruct (holder_of x (vips b.1)) as [[name row]|] eqn:Eh; [|eauto].
    destruct (bool_decide (name = svc)); [eauto|]. cbn in Hr.
    apply holder_of_Some in Eh as [Hn _].
    destruct (decide (n = name)) as [->|Hne].
    - rewrite lookup_insert in Hr. injection Hr as <-. apply strip_manual in Hin as [Hin _]. eauto.
    - rewrite lookup_insert_ne in Hr by congruence. eauto.
  Qed.

  Lemma fold_clean l : forall b, SI b -> Forall SQ l -> forall done, Clean done (vips b.1) ->
    Clean (done ++ l) (vips (foldl step b l).1).
  Proof.
    induction l as [|x l IH]; intros b Hb HQ done Hc; cbn; [rewrite app_nil_r; exact Hc|].
    inversion HQ as [|? ? Hx HQ']; subst.
    replace (done ++ x :: l) with ((done ++ [x]) ++ l) by (rewrite <- app_assoc; reflexivity).
    apply IH; [apply step_I; exact Hb|exact HQ'|].
    intros ip n r Hip Hn Hin. apply elem_of_app in Hip as [Hip|Hip].
    - destruct (step_vips_shrink b x n r ip Hb Hn Hin) as (r0 & Hr0 & Hin0). eapply Hc; eassumption.
    - apply elem_of_list_singleton in Hip. subst ip.
      destruct (step_unchanged_or_stripped b x Hb Hx) as [[Heq Hall]|(n' & row & Hne & Hrow & Hxrow & Heq)].
      + rewrite Heq in Hn. eapply Hall; eassumption.
      + rewrite Heq in Hn. cbn in Hn. destruct (decide (n = n')) as [->|Hd].
        * rewrite lookup_insert in Hn. injection Hn as <-. apply strip_manual in Hin as [_ Hc']. contradiction.
        * rewrite lookup_insert_ne in Hn by congruence. destruct Hb as [Hu _].
          exfalso. apply Hd. eapply Hu; eassumption.
  Qed.
End Assign.

(* The stored rows and the result do not depend on the iteration orders. *)
Theorem assign_manual_order e1 e2 e1' e2' idx svc ips s :
  Uniq (vips s) ->
  assign_manual e1 e2 idx svc ips s = assign_manual e1' e2' idx svc ips s.
Proof.
  intros Hu. unfold assign_manual.
  assert (HQ : forall e, Forall (SQ (dedup ips)) (order e (dedup ips))).
  { intros e. apply Forall_forall. intros x Hx. unfold SQ. rewrite <- (order_perm e). exact Hx. }
  assert (Hp : Permutation (order e1 (dedup ips)) (order e1' (dedup ips)))
    by (rewrite !order_perm; reflexivity).
  pose proof (fold_order idx svc (dedup ips) _ _ (s, []) Hp (conj Hu (NoDup_nil_2)) (HQ e1)) as [Hs Hm].
  destruct (foldl _ (s, []) (order e1 (dedup ips))) as [s1 m1], (foldl _ (s, []) (order e1' (dedup ips))) as [s1' m1'].
  cbn in Hs, Hm. subst s1'.
  destruct (vips s1 !! svc) as [row|]; cbn; [|reflexivity].
  f_equal. f_equal. apply ssort_order. rewrite !order_perm. exact Hm.
Qed.

(* uniqueness is kept, so the theorem applies along every run *)
Theorem assign_manual_Uniq e1 e2 idx svc ips s : Uniq (vips s) -> Uniq (vips (assign_manual e1 e2 idx svc ips s).1).
Proof.
  intros Hu. unfold assign_manual.
  assert (HQ : Forall (SQ (dedup ips)) (order e1 (dedup ips))).
  { apply Forall_forall. intros x Hx. unfold SQ. rewrite <- (order_perm e1). exact Hx. }
  pose proof (fold_I idx svc (dedup ips) (order e1 (dedup ips)) (s, []) (conj Hu (NoDup_nil_2))) as [Hu1 _].
  pose proof (fold_clean idx svc (dedup ips) (order e1 (dedup ips)) (s, []) (conj Hu (NoDup_nil_2)) HQ []) as Hc.
  cbn in Hc. specialize (Hc ltac:(intros ? ? ? Hx; inversion Hx)).
  destruct (foldl _ (s, []) (order e1 (dedup ips))) as [s1 m1]. cbn in *.
  destruct (vips s1 !! svc) as [row|] eqn:Erow; cbn; [|exact Hu].
  destruct (equal_map_keys _ _); [exact Hu1|]. cbn.
  intros n1 n2 r1 r2 ip H1 H2 Hi1 Hi2.
  assert (Hips : forall ip, ip ∈ ssort ips -> ip ∈ order e1 (dedup ips)).
  { intros x Hx. rewrite order_perm. unfold dedup. apply elem_of_remove_dups. apply elem_of_ssort. exact Hx. }
  destruct (decide (n1 = svc)) as [->|Hne1], (decide (n2 = svc)) as [->|Hne2]; [reflexivity| | |].
  - rewrite lookup_insert in H1. injection H1 as <-. cbn in Hi1. rewrite lookup_insert_ne in H2 by congruence.
    symmetry. eapply Hc; [apply Hips; exact Hi1|exact H2|exact Hi2].
  - rewrite lookup_insert in H2. injection H2 as <-. cbn in Hi2. rewrite lookup_insert_ne in H1 by congruence.
    eapply Hc; [apply Hips; exact Hi2|exact H1|exact Hi1].
  - rewrite lookup_insert_ne in H1, H2 by congruence. eapply Hu1; eassumption.
Qed.

Lemma vapply_Uniq e1 e2 idx c s : Uniq (vips s) -> Uniq (vips (vapply e1 e2 idx c s).1).
Proof.
  intros Hu. destruct c as [svc ips|svc ip|svc]; cbn.
  - pose proof (assign_manual_Uniq e1 e2 idx svc ips s Hu) as Hx.
    destruct (assign_manual e1 e2 idx svc ips s). exact Hx.
  - destruct (vips s !! svc) eqn:Es; [exact Hu|]. cbn.
    intros n1 n2 r1 r2 x H1 H2 Hi1 Hi2.
    destruct (decide (n1 = svc)) as [->|Hne1].
    { rewrite lookup_insert in H1. injection H1 as <-. cbn in Hi1. inversion Hi1. }
    destruct (decide (n2 = svc)) as [->|Hne2].
    { rewrite lookup_insert in H2. injection H2 as <-. cbn in Hi2. inversion Hi2. }
    rewrite lookup_insert_ne in H1, H2 by congruence. eapply Hu; eassumption.
  - destruct (vips s !! svc); [|exact Hu]. cbn.
    intros n1 n2 r1 r2 x H1 H2 Hi1 Hi2.
    apply lookup_delete_Some in H1 as [_ H1], H2 as [_ H2]. eapply Hu; eassumption.
Qed.

Lemma Uniq_empty : Uniq (vips vst0).
Proof. intros n1 n2 r1 r2 ip H1. cbn in H1. rewrite lookup_empty in H1. discriminate. Qed.

(* two replicas that run the same commands under arbitrary, different environments *)
Definition same_cmd (a b : Env * Env * N * vcmd) : Prop := a.1.2 = b.1.2 /\ a.2 = b.2.

Theorem vrun_order log1 log2 : Forall2 same_cmd log1 log2 -> forall s, Uniq (vips s) ->
  vrun log1 s = vrun log2 s.
Proof.
  induction 1 as [|[[[e1 e2] idx] c] [[[e1' e2'] idx'] c'] l1 l2 [Hi Hc] Hl IH]; intros s Hu; cbn; [reflexivity|].
  cbn in Hi, Hc. subst idx' c'.
  assert (Hstep : vapply e1 e2 idx c s = vapply e1' e2' idx c s).
  { destruct c as [svc ips|svc ip|svc]; cbn; [|reflexivity|reflexivity].
    rewrite (assign_manual_order e1 e2 e1' e2' idx svc ips s Hu). reflexivity. }
  pose proof (vapply_Uniq e1 e2 idx c s Hu) as Hu'.
  rewrite <- Hstep. destruct (vapply e1 e2 idx c s) as [s1 r1]. cbn in Hu'.
  rewrite (IH s1 Hu'). reflexivity.
Qed.

(* The case that used to differ between replicas (two services lose an address each): both iteration
   orders now return the same list. *)
Definition ex_vstate : vst :=
  VSt (<["web" := Vip 1 ["240.0.0.1"] 1 1]> (<["db" := Vip 2 ["240.0.0.2"] 2 2]> (<["cache" := Vip 3 [] 3 3]> ∅))) 3.

Example assign_manual_example :
  (assign_manual env_id env_id 9 "cache" ["240.0.0.1"; "240.0.0.2"] ex_vstate).2 = VRes true ["db"; "web"] /\
  (assign_manual env_rev env_rev 9 "cache" ["240.0.0.1"; "240.0.0.2"] ex_vstate).2 = VRes true ["db"; "web"].
Proof. split; vm_compute; reflexivity. Qed.

Example usage_deltas_example :
  write_usage_deltas 7 [("nodes", 1%Z); ("services", (-3)%Z)] (<["services" := (2, 4)]> ∅) =
  <["services" := (0, 7)]> (<["nodes" := (1, 7)]> ∅).
Proof. eapply bool_decide_eq_true_1. vm_compute. reflexivity. Qed.
