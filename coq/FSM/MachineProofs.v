(* Property C01 over the machine of coq/FSM/Machine.v: two replicas that apply the same log under
   arbitrary, different environments (iteration order of every map, wall clock at every entry) and from
   states that agree on the replicated part, end with the same replicated part and return the same
   result for every entry. *)
From stdpp Require Import gmap strings sorting.
From RecordUpdate Require Import RecordSet.
From Coq Require Import NArith.
From Verif Require Import Store.Model FSM.Model FSM.Sorting FSM.NonInterference FSM.Proofs FSM.Machine.
Import RecordSetNotations.
Local Open Scope N_scope.

(* ---------- the entries of a map, in any environment's order ---------- *)
Lemma omap_items_fst {A} (m : gmap string A) l :
  (forall k, k ∈ l -> is_Some (m !! k)) ->
  (omap (fun k => (fun v => (k, v)) <$> m !! k) l).*1 = l.
Proof.
  induction l as [|k l IH]; intros Hl; cbn; [reflexivity|].
  destruct (Hl k) as [v Hv]; [left|]. rewrite Hv. cbn. f_equal. apply IH. intros k' Hk'. apply Hl. right. exact Hk'.
Qed.

Lemma ordered_items_fst {A} e (m : gmap string A) : (ordered_items e m).*1 = order e (elements (dom m)).
Proof.
  apply omap_items_fst. intros k Hk. rewrite order_perm in Hk. apply elem_of_elements, elem_of_dom in Hk. exact Hk.
Qed.

Lemma ordered_items_NoDup {A} e (m : gmap string A) : NoDup (ordered_items e m).*1.
Proof. rewrite ordered_items_fst, order_perm. apply NoDup_elements. Qed.

Lemma ordered_items_perm {A} e1 e2 (m : gmap string A) : Permutation (ordered_items e1 m) (ordered_items e2 m).
Proof. unfold ordered_items. apply omap_Permutation. rewrite !order_perm. reflexivity. Qed.

Lemma NoDup_fst_filter {A B} (P : A * B -> Prop) `{forall x, Decision (P x)} (l : list (A * B)) :
  NoDup l.*1 -> NoDup (filter P l).*1.
Proof.
  induction l as [|x l IH]; [intros; constructor|]. intros Hnd. cbn in Hnd. apply NoDup_cons in Hnd as [Hx Hl].
  rewrite filter_cons. destruct (decide (P x)); [|apply IH; exact Hl]. cbn. apply NoDup_cons. split; [|apply IH; exact Hl].
  intros Hin. apply Hx. apply elem_of_list_fmap in Hin as (y & -> & Hy). apply elem_of_list_filter in Hy as [_ Hy].
  apply elem_of_list_fmap. eauto.
Qed.

(* ---------- each map-ranging step, whatever the environment ---------- *)
Lemma usage_step_order e1 e2 idx deltas u :
  write_usage_deltas idx (ordered_items e1 deltas) u = write_usage_deltas idx (ordered_items e2 deltas) u.
Proof. apply write_usage_deltas_order; [apply ordered_items_perm|apply ordered_items_NoDup]. Qed.

Lemma topology_step_order e1 e2 idx ds news old t :
  update_mesh_topology e1 idx ds news old t = update_mesh_topology e2 idx ds news old t.
Proof. unfold update_mesh_topology. apply prune_old_upstreams_order. rewrite !order_perm. reflexivity. Qed.

Lemma ensure_tagged_order e1 e2 addrs m : ensure_tagged e1 addrs m = ensure_tagged e2 addrs m.
Proof. unfold ensure_tagged. apply merge_tagged_order; [apply ordered_items_perm|apply ordered_items_NoDup]. Qed.

Lemma update_tgw_tagged_order e1 e2 e1' e2' addrs existing :
  update_tgw_tagged e1 e2 addrs existing = update_tgw_tagged e1' e2' addrs existing.
Proof.
  unfold update_tgw_tagged.
  match goal with |- merge_tagged _ (merge_tagged ?a ∅) = merge_tagged _ (merge_tagged ?b ∅) =>
    assert (Hin : merge_tagged a ∅ = merge_tagged b ∅) end.
  { apply merge_tagged_order.
    - apply filter_Permutation, ordered_items_perm.
    - apply NoDup_fst_filter, ordered_items_NoDup. }
  rewrite Hin. apply merge_tagged_order; [apply ordered_items_perm|apply ordered_items_NoDup].
Qed.

Lemma intentions_step_order e1 e2 known (refs : gset string) :
  missing_providers known (order e1 (elements refs)) = missing_providers known (order e2 (elements refs)).
Proof. apply missing_providers_order. rewrite !order_perm. reflexivity. Qed.

Lemma vapply_order e1 e2 e1' e2' idx c s : Uniq (vips s) -> vapply e1 e2 idx c s = vapply e1' e2' idx c s.
Proof.
  intros Hu. destruct c as [svc ips|svc ip|svc]; cbn; [|reflexivity|reflexivity].
  rewrite (assign_manual_order e1 e2 e1' e2' idx svc ips s Hu). reflexivity.
Qed.

(* ---------- the machine ---------- *)
Definition MInv (s : mst) : Prop := Uniq (vips (m_vips s)).
Definition msim (a b : mst) : Prop := mrepl a = mrepl b.

Lemma msim_inv a b : msim a b ->
  sim (m_core a) (m_core b) /\ m_vips a = m_vips b /\ m_usage a = m_usage b /\ m_topo a = m_topo b /\
  m_tagged a = m_tagged b /\ m_jwt a = m_jwt b.
Proof.
  unfold msim. intros H.
  split; [exact (f_equal (fun x => Machine.m_core x) H)|].
  split; [exact (f_equal (fun x => Machine.m_vips x) H)|].
  split; [exact (f_equal (fun x => Machine.m_usage x) H)|].
  split; [exact (f_equal (fun x => Machine.m_topo x) H)|].
  split; [exact (f_equal (fun x => Machine.m_tagged x) H)|exact (f_equal (fun x => Machine.m_jwt x) H)].
Qed.

Lemma msim_intro a b :
  sim (m_core a) (m_core b) -> m_vips a = m_vips b -> m_usage a = m_usage b -> m_topo a = m_topo b ->
  m_tagged a = m_tagged b -> m_jwt a = m_jwt b -> msim a b.
Proof. destruct a, b. unfold msim, mrepl, sim, set; cbn. intros; subst. f_equal. assumption. Qed.

Lemma MInv_msim a b : msim a b -> MInv a -> MInv b.
Proof. intros H. apply msim_inv in H as (_ & Hv & _). unfold MInv. rewrite Hv. auto. Qed.

Theorem mapply_sim e1 e2 idx c s1 s2 :
  MInv s1 -> msim s1 s2 ->
  msim (mapply e1 idx c s1).1 (mapply e2 idx c s2).1 /\ (mapply e1 idx c s1).2 = (mapply e2 idx c s2).2.
Proof.
  intros Hinv H. pose proof (msim_inv _ _ H) as (Hc & Hv & Hu & Ht & Hg & Hj).
  destruct c as [c|c|deltas|ds news old|inst req addrs|addrs|bad meta|name|refs]; cbn.
  - pose proof (apply_sim idx c _ _ Hc) as [Hs Hr].
    destruct (apply idx c (m_core s1)) as [a1 r1], (apply idx c (m_core s2)) as [a2 r2]; cbn in *. subst r2.
    split; [|reflexivity]. apply msim_intro; cbn; assumption.
  - rewrite <- Hv. rewrite (vapply_order e2 e2 e1 e1 idx c (m_vips s1) Hinv).
    destruct (vapply e1 e1 idx c (m_vips s1)) as [v' r]; cbn. split; [|reflexivity].
    apply msim_intro; cbn; try assumption; reflexivity.
  - split; [|reflexivity]. apply msim_intro; cbn; try assumption. rewrite Hu. apply usage_step_order.
  - split; [|reflexivity]. apply msim_intro; cbn; try assumption. rewrite Ht. apply topology_step_order.
  - split; [|reflexivity]. apply msim_intro; cbn; try assumption. rewrite Hg. f_equal. apply ensure_tagged_order.
  - split; [|reflexivity]. apply msim_intro; cbn; try assumption. rewrite Hg.
    apply map_fmap_ext. intros k x _. apply update_tgw_tagged_order.
  - rewrite (validate_meta_order e1 e2).
    destruct (validate_meta e2 _ meta); cbn; (split; [exact H|reflexivity]).
  - split; [|reflexivity]. apply msim_intro; cbn; try assumption. rewrite Hj. reflexivity.
  - rewrite Hj, (intentions_step_order e1 e2).
    destruct (missing_providers (m_jwt s2) _); cbn; (split; [exact H|reflexivity]).
Qed.

Lemma mapply_MInv e idx c s : MInv s -> MInv (mapply e idx c s).1.
Proof.
  intros Hinv. destruct c as [c|c|deltas|ds news old|inst req addrs|addrs|bad meta|name|refs]; cbn; try exact Hinv.
  - destruct (apply idx c (m_core s)); exact Hinv.
  - pose proof (vapply_Uniq e e idx c (m_vips s) Hinv) as Hx.
    destruct (vapply e e idx c (m_vips s)); exact Hx.
  - destruct (validate_meta e _ meta); exact Hinv.
  - destruct (missing_providers (m_jwt s) _); exact Hinv.
Qed.

Theorem mrun_sim log : forall es1 es2 s1 s2,
  MInv s1 -> msim s1 s2 ->
  msim (mrun es1 log s1).1 (mrun es2 log s2).1 /\ (mrun es1 log s1).2 = (mrun es2 log s2).2.
Proof.
  induction log as [|[idx c] log IH]; intros es1 es2 s1 s2 Hinv H; cbn; [split; [exact H|reflexivity]|].
  pose proof (mapply_sim (default env_id (head es1)) (default env_id (head es2)) idx c s1 s2 Hinv H) as [Hs Hr].
  pose proof (mapply_MInv (default env_id (head es1)) idx c s1 Hinv) as Hinv'.
  destruct (mapply (default env_id (head es1)) idx c s1) as [a1 r1], (mapply (default env_id (head es2)) idx c s2) as [a2 r2].
  cbn in *. subst r2. specialize (IH (tail es1) (tail es2) a1 a2 Hinv' Hs).
  destruct (mrun (tail es1) log a1) as [x1 y1], (mrun (tail es2) log a2) as [x2 y2]. cbn in *.
  destruct IH as [Hx ->]. split; [exact Hx|reflexivity].
Qed.

Lemma MInv_mst0 : MInv mst0.
Proof. apply Uniq_empty. Qed.

(* the statement of the property *)
Theorem machine_replicas_agree log es1 es2 s1 s2 :
  MInv s1 -> mrepl s1 = mrepl s2 ->
  mrepl (mrun es1 log s1).1 = mrepl (mrun es2 log s2).1 /\ (mrun es1 log s1).2 = (mrun es2 log s2).2.
Proof. intros Hinv H. apply (mrun_sim log es1 es2 s1 s2 Hinv H). Qed.

Theorem machine_run_env_independent log es1 es2 s :
  MInv s -> mrepl (mrun es1 log s).1 = mrepl (mrun es2 log s).1 /\ (mrun es1 log s).2 = (mrun es2 log s).2.
Proof. intros Hinv. apply machine_replicas_agree; [exact Hinv|reflexivity]. Qed.

(* ---------- a concrete run: every kind of step, three replicas with different orders and clocks ---------- *)
Definition ex_mlog : list (N * mcmd) :=
  [ (1, MCore (Register "n1" "" 1 false None [CheckReq "n1" "c1" 0 "" false "" 0 0]));
    (2, MCore (SessionCreate "s1" (Sess "n1" "" false ["c1"] true 0)));
    (3, MCore (KVS VLock (KVReq "a" [] 0 "s1" 0 0)));
    (4, MVip (VCreate "web" 1)); (5, MVip (VCreate "db" 2)); (6, MVip (VCreate "cache" 3));
    (7, MVip (VAssign "web" ["240.0.0.1"])); (8, MVip (VAssign "db" ["240.0.0.2"]));
    (9, MVip (VAssign "cache" ["240.0.0.2"; "240.0.0.1"]));
    (10, MUsage (<["nodes" := 1%Z]> (<["services" := 2%Z]> (<["kvs" := (-1)%Z]> ∅))));
    (11, MProxy "web" ["db"; "api"] ∅);
    (12, MProxy "web" ["api"] {["db"; "api"; "cache"]});
    (13, MGatewayRegister "tgw1" (<["lan" := ("10.0.0.9", 8443)]> ∅)
           (<["consul-virtual:db" := ("240.0.0.7", 0)]> (<["consul-virtual:web" := ("240.0.0.6", 0)]> ∅)));
    (14, MGatewayConfig (<["consul-virtual:api" := ("240.0.0.8", 0)]> (<["consul-virtual:web" := ("240.0.0.6", 0)]> ∅)));
    (15, MRegisterMeta {["bad key!"; "also bad?"]} (<["bad key!" := "x"]> (<["ok" := "v"]> (<["also bad?" := "y"]> ∅))));
    (16, MJwtProvider "okta");
    (17, MIntentions {["okta"; "auth0"; "keycloak"]});
    (18, MCore (Register "n1" "" 1 false None [CheckReq "n1" "c1" 2 "" false "" 0 0])) ].

Definition ex_es_a : list Env := replicate 18 env_id.
Definition ex_es_b : list Env := replicate 18 env_rev.
Definition ex_es_c : list Env := [env_rot; env_rev; env_id; env_rot; env_rev; env_id; env_rot; env_rev; env_rot; env_rev; env_id;
                                  env_rot; env_rev; env_rot; env_rev; env_id; env_rot; env_rev].

Example machine_example_results :
  (mrun ex_es_a ex_mlog mst0).2 =
  [RCore CNil; RCore (CStr "s1"); RCore (CBool true); RVip None; RVip None; RVip None;
   RVip (Some (VRes true [])); RVip (Some (VRes true []));
   RVip (Some (VRes true ["db"; "web"])); RDone; RDone; RDone; RDone; RDone;
   RMetaError ("also bad?", "y"); RDone; RJwtError ["auth0"; "keycloak"]; RCore CNil] /\
  (mrun ex_es_b ex_mlog mst0).2 = (mrun ex_es_a ex_mlog mst0).2 /\
  (mrun ex_es_c ex_mlog mst0).2 = (mrun ex_es_a ex_mlog mst0).2.
Proof. split; [vm_compute; reflexivity|]. split; vm_compute; reflexivity. Qed.

(* the local parts of the three replicas are NOT the same at the end (different clocks) ... *)
Example machine_example_local_differs :
  m_expiry (mrun ex_es_a ex_mlog mst0).1 !! "a" = Some 115 /\
  m_expiry (mrun ex_es_b ex_mlog mst0).1 !! "a" = Some 7792.
Proof. split; vm_compute; reflexivity. Qed.

(* ---------- further instances (each hypothesis met by a non-trivial input; two different orders) ---------- *)
Lemma ex_vstate_Uniq : Uniq (vips ex_vstate).
Proof.
  intros n1 n2 r1 r2 ip H1 H2 Hi1 Hi2. unfold ex_vstate in *; cbn in *.
  repeat match goal with
         | H : <[?k := _]> _ !! ?n = Some _ |- _ =>
           destruct (decide (n = k)) as [->|?];
           [rewrite lookup_insert in H; injection H as <-|rewrite lookup_insert_ne in H by congruence]
         | H : ∅ !! _ = Some _ |- _ => rewrite lookup_empty in H; discriminate
         end; cbn in *; try reflexivity;
    repeat match goal with H : _ ∈ [] |- _ => inversion H | H : _ ∈ [_] |- _ => apply elem_of_list_singleton in H end;
    congruence.
Qed.

Example usage_two_orders :
  write_usage_deltas 7 [("nodes", 1%Z); ("services", (-3)%Z)] (<["services" := (2, 4)]> ∅) =
  write_usage_deltas 7 [("services", (-3)%Z); ("nodes", 1%Z)] (<["services" := (2, 4)]> ∅).
Proof. eapply bool_decide_eq_true_1. vm_compute. reflexivity. Qed.

Definition ex_topo : topo :=
  Topo (<[tkey "db" "web" := ("db", "web")]> (<[tkey "cache" "web" := ("cache", "web")]> (<[tkey "api" "web" := ("api", "web")]> ∅))) 5.
Example topology_two_orders :
  t_rows (update_mesh_topology env_id 9 "web" ["api"] {["db"; "api"; "cache"]} ex_topo) =
  t_rows (update_mesh_topology env_rev 9 "web" ["api"] {["db"; "api"; "cache"]} ex_topo) /\
  t_rows (update_mesh_topology env_id 9 "web" ["api"] {["db"; "api"; "cache"]} ex_topo) = <[tkey "api" "web" := ("api", "web")]> ∅ /\
  t_index (update_mesh_topology env_rev 9 "web" ["api"] {["db"; "api"; "cache"]} ex_topo) = 9.
Proof. split; [|split]; first [vm_compute; reflexivity | eapply bool_decide_eq_true_1; vm_compute; reflexivity]. Qed.

Example tagged_two_orders :
  let addrs : gmap string (string * N) := <["consul-virtual:db" := ("240.0.0.7", 0)]> (<["consul-virtual:web" := ("240.0.0.6", 0)]> ∅) in
  let existing : gmap string (string * N) := <["lan" := ("10.0.0.9", 8443)]> (<["consul-virtual:old" := ("240.0.0.1", 0)]> ∅) in
  update_tgw_tagged env_id env_rev addrs existing = update_tgw_tagged env_rev env_id addrs existing /\
  update_tgw_tagged env_id env_id addrs existing =
    <["lan" := ("10.0.0.9", 8443)]> (<["consul-virtual:db" := ("240.0.0.7", 0)]> (<["consul-virtual:web" := ("240.0.0.6", 0)]> ∅)).
Proof. cbv zeta. split; eapply bool_decide_eq_true_1; vm_compute; reflexivity. Qed.
