(* Property C01 over the core store model (coq/Store/Model.v): the local, non-replicated part of a
   server's state (the lock-delay set, which stands for everything that depends on that server's
   wall clock) never flows into the replicated tables or into a command's result.
   One lemma per verb: nothing reads [lockdelay]. *)
From stdpp Require Import gmap strings.
From RecordUpdate Require Import RecordSet.
From Coq Require Import NArith.
From Verif Require Import Store.Model.
Import RecordSetNotations.
Local Open Scope N_scope.

(* two states are similar when they agree on everything that is replicated *)
Definition sim (a b : st) : Prop := repl a = repl b.

Lemma sim_inv a b : sim a b ->
  kvs a = kvs b /\ tombs a = tombs b /\ sessions a = sessions b /\ schecks a = schecks b /\
  queries a = queries b /\ nodes a = nodes b /\ services a = services b /\ checks a = checks b /\
  index a = index b.
Proof. destruct a, b. unfold sim, repl; cbn. intros H. injection H. intros. repeat split; assumption. Qed.

Lemma sim_intro a b :
  kvs a = kvs b -> tombs a = tombs b -> sessions a = sessions b -> schecks a = schecks b ->
  queries a = queries b -> nodes a = nodes b -> services a = services b -> checks a = checks b ->
  index a = index b -> sim a b.
Proof. destruct a, b; unfold sim, repl; cbn. intros; subst; reflexivity. Qed.

Lemma sim_refl a : sim a a.
Proof. reflexivity. Qed.
Lemma sim_sym a b : sim a b -> sim b a.
Proof. unfold sim; congruence. Qed.
Lemma sim_trans a b c : sim a b -> sim b c -> sim a c.
Proof. unfold sim; congruence. Qed.

Lemma sim_with_delay s d : sim (s <| lockdelay := d |>) s.
Proof. destruct s; reflexivity. Qed.

(* make both states concrete records that share their replicated fields *)
Ltac sim_destruct :=
  repeat match goal with
  | H : sim ?a ?b |- _ =>
    let H' := fresh in
    pose proof (sim_inv a b H) as H'; clear H;
    destruct a, b; cbn in H'; destruct H' as (?&?&?&?&?&?&?&?&?); subst
  end.
Ltac sim_solve := first [reflexivity | apply sim_intro; reflexivity].

(* results: same verdict, similar states (also the partial state an error carries) *)
Definition rsim {A} (R : A -> A -> Prop) (r1 r2 : result A) : Prop :=
  match r1, r2 with
  | Ok a, Ok b => R a b
  | Err e p, Err e' p' => e = e' /\ sim p p'
  | _, _ => False
  end.

Lemma bind_sim {A B} (RA : A -> A -> Prop) (RB : B -> B -> Prop) (m1 m2 : result A) (k1 k2 : A -> result B) :
  rsim RA m1 m2 -> (forall a b, RA a b -> rsim RB (k1 a) (k2 b)) -> rsim RB (m1 ≫= k1) (m2 ≫= k2).
Proof. destruct m1, m2; cbn; intros H Hk; try contradiction; [apply Hk; exact H|exact H]. Qed.

Lemma rfold_sim {A} (f1 f2 : st -> A -> result st) l :
  (forall x a b, sim a b -> rsim sim (f1 a x) (f2 b x)) ->
  forall a b, sim a b -> rsim sim (rfold f1 l a) (rfold f2 l b).
Proof.
  intros Hf. induction l as [|x l IH]; intros a b Hab; cbn; [exact Hab|].
  apply (bind_sim sim sim); [apply Hf; exact Hab|]. intros a' b' H'. apply IH. exact H'.
Qed.

(* ---------- KV ---------- *)
Lemma kvs_set_sim idx k e u s1 s2 : sim s1 s2 ->
  sim (kvs_set idx k e u s1).1 (kvs_set idx k e u s2).1 /\ (kvs_set idx k e u s1).2 = (kvs_set idx k e u s2).2.
Proof.
  intros H. sim_destruct. unfold kvs_set; cbn.
  repeat case_match; cbn; split; sim_solve.
Qed.

Lemma kvs_delete_sim idx k s1 s2 : sim s1 s2 -> sim (kvs_delete idx k s1) (kvs_delete idx k s2).
Proof. intros H. sim_destruct. unfold kvs_delete; cbn. case_match; sim_solve. Qed.

Lemma kvs_delete_cas_sim idx c k s1 s2 : sim s1 s2 ->
  (kvs_delete_cas idx c k s1).1 = (kvs_delete_cas idx c k s2).1 /\
  sim (kvs_delete_cas idx c k s1).2 (kvs_delete_cas idx c k s2).2.
Proof.
  intros H. unfold kvs_delete_cas. pose proof (sim_inv _ _ H) as (Hk & _). rewrite Hk.
  destruct (kvs s2 !! k); [|split; [reflexivity|exact H]].
  destruct (bool_decide _); cbn; split; try reflexivity; [apply kvs_delete_sim|]; exact H.
Qed.

Lemma kvs_set_cas_sim idx k e s1 s2 : sim s1 s2 ->
  (kvs_set_cas idx k e s1).1 = (kvs_set_cas idx k e s2).1 /\
  sim (kvs_set_cas idx k e s1).2.1 (kvs_set_cas idx k e s2).2.1 /\
  (kvs_set_cas idx k e s1).2.2 = (kvs_set_cas idx k e s2).2.2.
Proof.
  intros H. unfold kvs_set_cas. pose proof (sim_inv _ _ H) as (Hk & _). rewrite Hk.
  pose proof (kvs_set_sim idx k e false s1 s2 H) as [Hs He].
  destruct (kvs s2 !! k); repeat (destruct (bool_decide _)); cbn; repeat split; try assumption; reflexivity.
Qed.

Lemma kvs_delete_tree_sim idx p s1 s2 : sim s1 s2 -> sim (kvs_delete_tree idx p s1) (kvs_delete_tree idx p s2).
Proof.
  intros H. sim_destruct. unfold kvs_delete_tree; cbn.
  repeat (destruct (bool_decide _)); sim_solve.
Qed.

Definition lock_rel (a b : bool * (st * kvent)) : Prop := a.1 = b.1 /\ sim a.2.1 b.2.1 /\ a.2.2 = b.2.2.

Lemma kvs_lock_sim idx k e s1 s2 : sim s1 s2 -> rsim lock_rel (kvs_lock idx k e s1) (kvs_lock idx k e s2).
Proof.
  intros H. unfold kvs_lock. pose proof (sim_inv _ _ H) as (Hk & _ & Hs & _). rewrite Hk, Hs.
  destruct (bool_decide (kv_session e = "")); [split; [reflexivity|exact H]|].
  destruct (sessions s2 !! kv_session e); [|split; [reflexivity|exact H]].
  destruct (kvs s2 !! k) as [x|].
  - destruct (bool_decide (kv_session x = kv_session e)).
    + pose proof (kvs_set_sim idx k (KV (kv_value e) (kv_flags e) (kv_session e) (kv_lock x) (kv_create x) idx) true s1 s2 H) as [? ?].
      repeat split; assumption.
    + destruct (bool_decide (kv_session x = "")).
      * pose proof (kvs_set_sim idx k (KV (kv_value e) (kv_flags e) (kv_session e) (kv_lock x + 1) (kv_create x) idx) true s1 s2 H) as [? ?].
        repeat split; assumption.
      * repeat split; [exact H].
  - pose proof (kvs_set_sim idx k (KV (kv_value e) (kv_flags e) (kv_session e) 1 idx idx) true s1 s2 H) as [? ?].
    repeat split; assumption.
Qed.

Lemma kvs_unlock_sim idx k e s1 s2 : sim s1 s2 -> rsim lock_rel (kvs_unlock idx k e s1) (kvs_unlock idx k e s2).
Proof.
  intros H. unfold kvs_unlock. pose proof (sim_inv _ _ H) as (Hk & _). rewrite Hk.
  destruct (bool_decide (kv_session e = "")); [split; [reflexivity|exact H]|].
  destruct (kvs s2 !! k) as [x|]; [|repeat split; exact H].
  destruct (bool_decide (kv_session x = kv_session e)); [|repeat split; exact H].
  pose proof (kvs_set_sim idx k (KV (kv_value e) (kv_flags e) "" (kv_lock x) (kv_create x) idx) true s1 s2 H) as [? ?].
  repeat split; assumption.
Qed.

Lemma reap_sim upto s1 s2 : sim s1 s2 -> sim (reap_tombstones upto s1) (reap_tombstones upto s2).
Proof. intros H. sim_destruct. sim_solve. Qed.

(* ---------- the lists the cascades iterate over are read from replicated tables only ---------- *)
Lemma sessions_of_check_sim nd cid s1 s2 : sim s1 s2 -> sessions_of_check nd cid s1 = sessions_of_check nd cid s2.
Proof. intros H. unfold sessions_of_check. pose proof (sim_inv _ _ H) as (_&_&_&Hc&_). rewrite Hc. reflexivity. Qed.
Lemma session_checks_of_node_sim nd nm s1 s2 : sim s1 s2 -> session_checks_of_node nd nm s1 = session_checks_of_node nd nm s2.
Proof. intros H. unfold session_checks_of_node. pose proof (sim_inv _ _ H) as (_&_&_&_&_&_&_&Hc&_). rewrite Hc. reflexivity. Qed.
Lemma checks_of_node_sim nd s1 s2 : sim s1 s2 -> checks_of_node nd s1 = checks_of_node nd s2.
Proof. intros H. unfold checks_of_node. pose proof (sim_inv _ _ H) as (_&_&_&_&_&_&_&Hc&_). rewrite Hc. reflexivity. Qed.
Lemma checks_of_service_sim nd sv s1 s2 : sim s1 s2 -> checks_of_service nd sv s1 = checks_of_service nd sv s2.
Proof. intros H. unfold checks_of_service. pose proof (sim_inv _ _ H) as (_&_&_&_&_&_&_&Hc&_). rewrite Hc. reflexivity. Qed.
Lemma services_of_node_sim nd s1 s2 : sim s1 s2 -> services_of_node nd s1 = services_of_node nd s2.
Proof. intros H. unfold services_of_node. pose proof (sim_inv _ _ H) as (_&_&_&_&_&_&Hc&_). rewrite Hc. reflexivity. Qed.
Lemma sessions_of_node_sim nd s1 s2 : sim s1 s2 -> sessions_of_node nd s1 = sessions_of_node nd s2.
Proof. intros H. unfold sessions_of_node. pose proof (sim_inv _ _ H) as (_&_&Hc&_). rewrite Hc. reflexivity. Qed.
Lemma node_healthy_sim nd s1 s2 : sim s1 s2 -> node_healthy nd s1 = node_healthy nd s2.
Proof. intros H. unfold node_healthy. pose proof (sim_inv _ _ H) as (_&_&_&_&_&_&_&Hc&_). rewrite Hc. reflexivity. Qed.
Lemma similar_clash_sim a nd id s1 s2 : sim s1 s2 -> similar_clash a nd id s1 = similar_clash a nd id s2.
Proof.
  intros H. unfold similar_clash. rewrite (node_healthy_sim nd s1 s2 H).
  pose proof (sim_inv _ _ H) as (_&_&_&_&_&Hc&_). rewrite Hc. reflexivity.
Qed.
Lemma node_by_id_sim id s1 s2 : sim s1 s2 -> node_by_id id s1 = node_by_id id s2.
Proof. intros H. unfold node_by_id. pose proof (sim_inv _ _ H) as (_&_&_&_&_&Hc&_). rewrite Hc. reflexivity. Qed.
Lemma fuel_of_sim s1 s2 : sim s1 s2 -> fuel_of s1 = fuel_of s2.
Proof. intros H. unfold fuel_of. pose proof (sim_inv _ _ H) as (_&_&Hc&_). rewrite Hc. reflexivity. Qed.

(* ---------- checks and sessions ---------- *)
Lemma resolve_service_sim nd hc s1 s2 : sim s1 s2 -> rsim eq (resolve_service nd hc s1) (resolve_service nd hc s2).
Proof.
  intros H. unfold resolve_service. pose proof (sim_inv _ _ H) as (_&_&_&_&_&_&Hc&_). rewrite Hc.
  destruct (bool_decide _); [reflexivity|]. destruct (services s2 !! _); [reflexivity|split; [reflexivity|exact H]].
Qed.

Lemma store_check_sim p idx nd cid hc ex s1 s2 : sim s1 s2 ->
  sim (store_check p idx nd cid hc ex s1) (store_check p idx nd cid hc ex s2).
Proof. intros H. sim_destruct. unfold store_check; cbn. repeat case_match; sim_solve. Qed.

Definition del_sim (d1 d2 : N -> string -> st -> result st) : Prop :=
  forall i sid a b, sim a b -> rsim sim (d1 i sid a) (d2 i sid b).

Lemma invalidate_if_critical_sim d1 d2 idx nd cid hc s1 s2 : del_sim d1 d2 -> sim s1 s2 ->
  rsim sim (invalidate_if_critical d1 idx nd cid hc s1) (invalidate_if_critical d2 idx nd cid hc s2).
Proof.
  intros Hd H. unfold invalidate_if_critical. destruct (bool_decide _); [|exact H].
  rewrite (sessions_of_check_sim nd cid s1 s2 H). apply rfold_sim; [|exact H].
  intros sid a b Hab. apply Hd. exact Hab.
Qed.

Lemma ensure_check_with_sim d1 d2 p idx nd cid hc s1 s2 : del_sim d1 d2 -> sim s1 s2 ->
  rsim sim (ensure_check_with d1 p idx nd cid hc s1) (ensure_check_with d2 p idx nd cid hc s2).
Proof.
  intros Hd H. unfold ensure_check_with.
  pose proof (sim_inv _ _ H) as (_&_&_&_&_&Hn&_&Hc&_). rewrite Hn, Hc.
  destruct (nodes s2 !! nd); [|split; [reflexivity|exact H]].
  apply (bind_sim eq sim); [apply resolve_service_sim; exact H|]. intros hc1 ? <-.
  apply (bind_sim sim sim); [apply invalidate_if_critical_sim; assumption|].
  intros a b Hab. cbn. apply store_check_sim. exact Hab.
Qed.

Lemma release_or_delete_keys_sim idx sid ss s1 s2 : sim s1 s2 ->
  sim (release_or_delete_keys idx sid ss s1) (release_or_delete_keys idx sid ss s2).
Proof.
  intros H. sim_destruct. unfold release_or_delete_keys; cbn.
  destruct (bool_decide _); [sim_solve|]. destruct (s_delete ss), (s_delay ss); sim_solve.
Qed.

Lemma set_index_sim k idx s1 s2 : sim s1 s2 -> sim (set_index k idx s1) (set_index k idx s2).
Proof. intros H. sim_destruct. sim_solve. Qed.

Definition drop_tail (idx : N) (sid : string) (s2 : st) : st :=
  let s3 := s2 <| schecks ::= filter (fun m => m.2 ≠ sid) |> in
  let qs := filter (fun q => q.2 = sid) (queries s3) in
  if bool_decide (qs = ∅) then s3
  else set_index "prepared-queries" idx (s3 <| queries ::= filter (fun q => q.2 ≠ sid) |>).

Lemma drop_session_tail idx sid ss s :
  drop_session idx sid ss s =
  drop_tail idx sid (release_or_delete_keys idx sid ss (set_index "sessions" idx (s <| sessions ::= delete sid |>))).
Proof. reflexivity. Qed.

Lemma drop_tail_sim idx sid a b : sim a b -> sim (drop_tail idx sid a) (drop_tail idx sid b).
Proof. intros H. sim_destruct. unfold drop_tail; cbn. destruct (bool_decide _); sim_solve. Qed.

Lemma drop_session_sim idx sid ss s1 s2 : sim s1 s2 -> sim (drop_session idx sid ss s1) (drop_session idx sid ss s2).
Proof.
  intros H. rewrite !drop_session_tail.
  apply drop_tail_sim, release_or_delete_keys_sim, set_index_sim. sim_destruct. sim_solve.
Qed.

Lemma delete_session_sim fuel : forall idx sid s1 s2, sim s1 s2 ->
  rsim sim (delete_session fuel idx sid s1) (delete_session fuel idx sid s2).
Proof.
  induction fuel as [|fuel IH]; intros idx sid s1 s2 H; cbn; [split; [reflexivity|exact H]|].
  pose proof (sim_inv _ _ H) as (_&_&Hs&_). rewrite Hs.
  destruct (sessions s2 !! sid) as [ss|]; [|exact H].
  pose proof (drop_session_sim idx sid ss s1 s2 H) as Hd.
  rewrite (session_checks_of_node_sim _ _ _ _ Hd).
  apply rfold_sim; [|exact Hd]. intros cid a b Hab.
  pose proof (sim_inv _ _ Hd) as (_&_&_&_&_&_&_&Hc&_). rewrite Hc.
  destruct (checks (drop_session idx sid ss s2) !! _); [|exact Hab].
  apply ensure_check_with_sim; [|exact Hab]. intros i sid' a' b' H'. apply IH. exact H'.
Qed.

Lemma delete_session_top_sim idx sid s1 s2 : sim s1 s2 ->
  rsim sim (delete_session_top idx sid s1) (delete_session_top idx sid s2).
Proof. intros H. unfold delete_session_top. rewrite (fuel_of_sim s1 s2 H). apply delete_session_sim. exact H. Qed.

Lemma del_top_sim : del_sim (fun i sid s' => delete_session (fuel_of s') i sid s')
                            (fun i sid s' => delete_session (fuel_of s') i sid s').
Proof. intros i sid a b H. apply (delete_session_top_sim i sid a b H). Qed.

Lemma ensure_check_p_sim p idx nd cid hc s1 s2 : sim s1 s2 ->
  rsim sim (ensure_check_p p idx nd cid hc s1) (ensure_check_p p idx nd cid hc s2).
Proof. intros H. unfold ensure_check_p. apply ensure_check_with_sim; [apply del_top_sim|exact H]. Qed.

Lemma session_create_sim idx sid ss s1 s2 : sim s1 s2 ->
  rsim sim (session_create idx sid ss s1) (session_create idx sid ss s2).
Proof.
  intros H. unfold session_create.
  destruct (bool_decide (sid = "")); [split; [reflexivity|exact H]|].
  pose proof (sim_inv _ _ H) as (_&_&_&_&_&Hn&_&Hc&_). rewrite Hn, Hc.
  destruct (nodes s2 !! s_node ss); [|split; [reflexivity|exact H]].
  destruct (forallb _ _); [|split; [reflexivity|exact H]].
  match goal with |- rsim sim (rfold _ (session_checks_of_node _ _ ?a) ?a) (rfold _ (session_checks_of_node _ _ ?b) ?b) =>
    assert (Hab : sim a b) by (apply set_index_sim; clear Hn Hc; sim_destruct; sim_solve) end.
  rewrite (session_checks_of_node_sim _ _ _ _ Hab).
  apply rfold_sim; [|exact Hab]. intros cid a b Hx.
  pose proof (sim_inv _ _ Hab) as (_&_&_&_&_&_&_&Hc'&_). rewrite Hc'.
  match goal with |- context [checks ?s !! ?key] => destruct (checks s !! key) end; [|exact Hx].
  apply ensure_check_p_sim. exact Hx.
Qed.

(* ---------- catalog ---------- *)
Lemma delete_check_sim idx nd cid s1 s2 : sim s1 s2 -> rsim sim (delete_check idx nd cid s1) (delete_check idx nd cid s2).
Proof.
  intros H. unfold delete_check. pose proof (sim_inv _ _ H) as (_&_&_&_&_&_&_&Hc&_). rewrite Hc.
  destruct (checks s2 !! (nd, cid)); [|exact H].
  assert (Hab : sim (s1 <| checks ::= delete (nd, cid) |>) (s2 <| checks ::= delete (nd, cid) |>))
    by (clear Hc; sim_destruct; sim_solve).
  rewrite (sessions_of_check_sim _ _ _ _ Hab). apply rfold_sim; [|exact Hab].
  intros sid a b Hx. apply delete_session_top_sim. exact Hx.
Qed.

Lemma delete_service_sim idx nd svc s1 s2 : sim s1 s2 -> rsim sim (delete_service idx nd svc s1) (delete_service idx nd svc s2).
Proof.
  intros H. unfold delete_service. pose proof (sim_inv _ _ H) as (_&_&_&_&_&_&Hc&_). rewrite Hc.
  destruct (services s2 !! (nd, svc)); [|exact H].
  rewrite (checks_of_service_sim _ _ _ _ H).
  apply (bind_sim sim sim).
  - apply rfold_sim; [|exact H]. intros cid a b Hx. apply delete_check_sim. exact Hx.
  - intros a b Hab. cbn. sim_destruct. sim_solve.
Qed.

Lemma delete_node_sim idx nd s1 s2 : sim s1 s2 -> rsim sim (delete_node idx nd s1) (delete_node idx nd s2).
Proof.
  intros H. unfold delete_node. pose proof (sim_inv _ _ H) as (_&_&_&_&_&Hc&_). rewrite Hc.
  destruct (nodes s2 !! nd); [|exact H].
  rewrite (services_of_node_sim _ _ _ H).
  apply (bind_sim sim sim).
  { apply rfold_sim; [|exact H]. intros x a b Hx. apply delete_service_sim. exact Hx. }
  intros a b Hab. rewrite (checks_of_node_sim _ _ _ Hab).
  apply (bind_sim sim sim).
  { apply rfold_sim; [|exact Hab]. intros x a' b' Hx. apply delete_check_sim. exact Hx. }
  intros a' b' Hab'.
  assert (H3 : sim (a' <| nodes ::= delete nd |>) (b' <| nodes ::= delete nd |>)) by (sim_destruct; sim_solve).
  rewrite (sessions_of_node_sim _ _ _ H3). apply rfold_sim; [|exact H3].
  intros x a'' b'' Hx. apply delete_session_top_sim. exact Hx.
Qed.

Lemma ensure_node_sim idx nd id addr s1 s2 : sim s1 s2 ->
  rsim sim (ensure_node idx nd id addr s1) (ensure_node idx nd id addr s2).
Proof.
  intros H. unfold ensure_node.
  apply (bind_sim (fun a b => a.1 = b.1 /\ sim a.2 b.2) sim).
  - destruct (bool_decide (id = "")); [split; [reflexivity|exact H]|].
    rewrite (node_by_id_sim id s1 s2 H).
    destruct (node_by_id id s2) as [[oname on]|].
    + destruct (bool_decide (oname = nd)); [split; [reflexivity|exact H]|].
      rewrite (similar_clash_sim _ _ _ _ _ H). destruct (similar_clash false nd id s2); [split; [reflexivity|exact H]|].
      apply (bind_sim sim (fun a b => a.1 = b.1 /\ sim a.2 b.2)); [apply delete_node_sim; exact H|].
      intros a b Hab. split; [reflexivity|exact Hab].
    + rewrite (similar_clash_sim _ _ _ _ _ H). destruct (similar_clash true nd id s2); split; try reflexivity; exact H.
  - intros [n0 a] [n0' b] [Hn Hab]. cbn in Hn, Hab. subst n0'.
    pose proof (sim_inv _ _ Hab) as (_&_&_&_&_&Hc&_). rewrite Hc.
    destruct (match n0 with Some x => Some x | None => nodes b !! nd end) as [x|].
    + destruct (_ && _); [exact Hab|]. clear Hc. cbn. sim_destruct. sim_solve.
    + clear Hc. cbn. sim_destruct. sim_solve.
Qed.

Lemma ensure_service_sim idx nd svc name port s1 s2 : sim s1 s2 ->
  rsim sim (ensure_service idx nd svc name port s1) (ensure_service idx nd svc name port s2).
Proof.
  intros H. unfold ensure_service. pose proof (sim_inv _ _ H) as (_&_&_&_&_&Hn&Hs&_). rewrite Hn, Hs.
  destruct (nodes s2 !! nd); [|split; [reflexivity|exact H]].
  destruct (services s2 !! (nd, svc)) as [x|].
  - destruct (_ && _); [exact H|]. clear Hn Hs. cbn. sim_destruct. sim_solve.
  - clear Hn Hs. cbn. sim_destruct. sim_solve.
Qed.

(* ---------- transactions ---------- *)
Definition op_rel (a b : st * list tres) : Prop := sim a.1 b.1 /\ a.2 = b.2.

Lemma txn_kv_sim idx v q s1 s2 : sim s1 s2 -> rsim op_rel (txn_kv idx v q s1) (txn_kv idx v q s2).
Proof.
  intros H. unfold txn_kv. pose proof (sim_inv _ _ H) as (Hk&_).
  destruct v; cbn.
  - pose proof (kvs_set_sim idx (q_key q) (ent_of q) false s1 s2 H) as [Hs He].
    destruct (kvs_set _ _ _ _ s1), (kvs_set _ _ _ _ s2); cbn in *. subst. split; [exact Hs|reflexivity].
  - split; [apply kvs_delete_sim; exact H|reflexivity].
  - pose proof (kvs_delete_cas_sim idx (q_index q) (q_key q) s1 s2 H) as [Hb Hs].
    destruct (kvs_delete_cas _ _ _ s1) as [b1 a1], (kvs_delete_cas _ _ _ s2) as [b2 a2]; cbn in *. subst.
    destruct b2; [split; [exact Hs|reflexivity]|split; [reflexivity|exact H]].
  - split; [apply kvs_delete_tree_sim; exact H|reflexivity].
  - pose proof (kvs_set_cas_sim idx (q_key q) (ent_of q) s1 s2 H) as (Hb & Hs & He).
    destruct (kvs_set_cas _ _ _ s1) as [b1 [a1 e1]], (kvs_set_cas _ _ _ s2) as [b2 [a2 e2]]; cbn in *. subst.
    destruct b2; [split; [exact Hs|reflexivity]|split; [reflexivity|exact H]].
  - pose proof (kvs_lock_sim idx (q_key q) (ent_of q) s1 s2 H) as Hl.
    destruct (kvs_lock _ _ _ s1) as [[b1 [a1 e1]]|er1 p1], (kvs_lock _ _ _ s2) as [[b2 [a2 e2]]|er2 p2]; cbn in Hl; try contradiction.
    + destruct Hl as (Hb & Hs & He); cbn in *. subst.
      destruct b2; [split; [exact Hs|reflexivity]|split; [reflexivity|exact H]].
    + exact Hl.
  - pose proof (kvs_unlock_sim idx (q_key q) (ent_of q) s1 s2 H) as Hl.
    destruct (kvs_unlock _ _ _ s1) as [[b1 [a1 e1]]|er1 p1], (kvs_unlock _ _ _ s2) as [[b2 [a2 e2]]|er2 p2]; cbn in Hl; try contradiction.
    + destruct Hl as (Hb & Hs & He); cbn in *. subst.
      destruct b2; [split; [exact Hs|reflexivity]|split; [reflexivity|exact H]].
    + exact Hl.
  - rewrite Hk. destruct (kvs s2 !! q_key q); [split; [exact H|reflexivity]|split; [reflexivity|exact H]].
  - rewrite Hk. destruct (kvs s2 !! q_key q); split; try exact H; reflexivity.
  - rewrite Hk. split; [exact H|reflexivity].
  - rewrite Hk. destruct (kvs s2 !! q_key q); [destruct (bool_decide _)|]; split; try exact H; reflexivity.
  - rewrite Hk. destruct (kvs s2 !! q_key q); [destruct (bool_decide _)|]; split; try exact H; reflexivity.
  - rewrite Hk. destruct (kvs s2 !! q_key q); split; try exact H; reflexivity.
Qed.

Lemma bind_op_sim (m1 m2 : result st) (k1 k2 : st -> result (st * list tres)) :
  rsim sim m1 m2 -> (forall a b, sim a b -> rsim op_rel (k1 a) (k2 b)) -> rsim op_rel (m1 ≫= k1) (m2 ≫= k2).
Proof. apply (bind_sim sim op_rel). Qed.

Lemma txn_node_sim idx v nd id addr cidx s1 s2 : sim s1 s2 ->
  rsim op_rel (txn_node idx v nd id addr cidx s1) (txn_node idx v nd id addr cidx s2).
Proof.
  intros H. unfold txn_node.
  assert (Hget : forall a b, sim a b ->
     (if bool_decide (id = "") then (fun n => (nd, n)) <$> nodes a !! nd else node_by_id id a) =
     (if bool_decide (id = "") then (fun n => (nd, n)) <$> nodes b !! nd else node_by_id id b)).
  { intros a b Hab. rewrite (node_by_id_sim id a b Hab). pose proof (sim_inv _ _ Hab) as (_&_&_&_&_&Hc&_). rewrite Hc. reflexivity. }
  assert (Hreply : forall a b, sim a b -> rsim op_rel
     (match (if bool_decide (id = "") then (fun n => (nd, n)) <$> nodes a !! nd else node_by_id id a) with
      | Some (nm, n) => Ok (a, [RNode nm n]) | None => Ok (a, []) end)
     (match (if bool_decide (id = "") then (fun n => (nd, n)) <$> nodes b !! nd else node_by_id id b) with
      | Some (nm, n) => Ok (b, [RNode nm n]) | None => Ok (b, []) end)).
  { intros a b Hab. rewrite (Hget a b Hab). destruct (if bool_decide (id = "") then _ else _) as [[nm n]|]; split; try exact Hab; reflexivity. }
  pose proof (sim_inv _ _ H) as (_&_&_&_&_&Hn&_).
  destruct v.
  - rewrite (Hget s1 s2 H). destruct (if bool_decide (id = "") then _ else _) as [[nm n]|]; split; try exact H; reflexivity.
  - apply bind_op_sim; [apply ensure_node_sim; exact H|exact Hreply].
  - rewrite Hn. destruct (cas_ok _ _ _); [|split; [reflexivity|exact H]].
    apply bind_op_sim; [apply ensure_node_sim; exact H|exact Hreply].
  - apply bind_op_sim; [apply delete_node_sim; exact H|]. intros a b Hab. split; [exact Hab|reflexivity].
  - rewrite Hn. destruct (nodes s2 !! nd) as [x|]; [|split; [reflexivity|exact H]].
    destruct (bool_decide (n_modify x = cidx)); [|split; [reflexivity|exact H]].
    apply bind_op_sim; [apply delete_node_sim; exact H|]. intros a b Hab. split; [exact Hab|reflexivity].
Qed.

Lemma txn_service_sim idx v nd svc name port cidx s1 s2 : sim s1 s2 ->
  rsim op_rel (txn_service idx v nd svc name port cidx s1) (txn_service idx v nd svc name port cidx s2).
Proof.
  intros H. unfold txn_service.
  assert (Hreply : forall a b, sim a b -> rsim op_rel
     (match services a !! (nd, svc) with Some x => Ok (a, [RService nd svc x]) | None => Ok (a, []) end)
     (match services b !! (nd, svc) with Some x => Ok (b, [RService nd svc x]) | None => Ok (b, []) end)).
  { intros a b Hab. pose proof (sim_inv _ _ Hab) as (_&_&_&_&_&_&Hc&_). rewrite Hc.
    destruct (services b !! (nd, svc)); split; try exact Hab; reflexivity. }
  pose proof (sim_inv _ _ H) as (_&_&_&_&_&_&Hs&_).
  destruct v.
  - rewrite Hs. destruct (services s2 !! (nd, svc)); split; try exact H; reflexivity.
  - apply bind_op_sim; [apply ensure_service_sim; exact H|exact Hreply].
  - rewrite Hs. destruct (cas_ok _ _ _); [|split; [reflexivity|exact H]].
    apply bind_op_sim; [apply ensure_service_sim; exact H|exact Hreply].
  - apply bind_op_sim; [apply delete_service_sim; exact H|]. intros a b Hab. split; [exact Hab|reflexivity].
  - rewrite Hs. destruct (services s2 !! (nd, svc)) as [x|]; [|split; [reflexivity|exact H]].
    destruct (bool_decide _); [|split; [reflexivity|exact H]].
    apply bind_op_sim; [apply delete_service_sim; exact H|]. intros a b Hab. split; [exact Hab|reflexivity].
Qed.

Lemma txn_check_sim idx v c s1 s2 : sim s1 s2 -> rsim op_rel (txn_check idx v c s1) (txn_check idx v c s2).
Proof.
  intros H. unfold txn_check.
  assert (Hreply : forall a b, sim a b -> rsim op_rel
     (match checks a !! (cr_node c, cr_id c) with Some x => Ok (a, [RCheck (cr_node c) (cr_id c) x]) | None => Ok (a, []) end)
     (match checks b !! (cr_node c, cr_id c) with Some x => Ok (b, [RCheck (cr_node c) (cr_id c) x]) | None => Ok (b, []) end)).
  { intros a b Hab. pose proof (sim_inv _ _ Hab) as (_&_&_&_&_&_&_&Hc&_). rewrite Hc.
    destruct (checks b !! _); split; try exact Hab; reflexivity. }
  pose proof (sim_inv _ _ H) as (_&_&_&_&_&_&_&Hs&_).
  destruct v.
  - rewrite Hs. destruct (checks s2 !! _); split; try exact H; reflexivity.
  - apply bind_op_sim; [apply ensure_check_p_sim; exact H|exact Hreply].
  - rewrite Hs. destruct (cas_ok _ _ _); [|split; [reflexivity|exact H]].
    apply bind_op_sim; [apply ensure_check_p_sim; exact H|exact Hreply].
  - apply bind_op_sim; [apply delete_check_sim; exact H|]. intros a b Hab. split; [exact Hab|reflexivity].
  - rewrite Hs. destruct (checks s2 !! _) as [x|]; [|split; [reflexivity|exact H]].
    destruct (bool_decide _); [|split; [reflexivity|exact H]].
    apply bind_op_sim; [apply delete_check_sim; exact H|]. intros a b Hab. split; [exact Hab|reflexivity].
Qed.

Lemma txn_op_sim idx op s1 s2 : sim s1 s2 -> rsim op_rel (txn_op idx op s1) (txn_op idx op s2).
Proof.
  intros H. destruct op; cbn [txn_op].
  - apply txn_kv_sim; exact H.
  - apply txn_node_sim; exact H.
  - apply txn_service_sim; exact H.
  - apply txn_check_sim; exact H.
  - pose proof (sim_inv _ _ H) as (_&_&Hs&_). rewrite Hs.
    destruct (sessions s2 !! sid); [|split; [reflexivity|exact H]].
    apply bind_op_sim; [apply delete_session_top_sim; exact H|]. intros a b Hab. split; [exact Hab|reflexivity].
Qed.

Lemma txn_dispatch_sim idx ops : forall i s1 s2, sim s1 s2 ->
  sim (txn_dispatch idx i ops s1).1.1 (txn_dispatch idx i ops s2).1.1 /\
  (txn_dispatch idx i ops s1).1.2 = (txn_dispatch idx i ops s2).1.2 /\
  (txn_dispatch idx i ops s1).2 = (txn_dispatch idx i ops s2).2.
Proof.
  induction ops as [|op ops IH]; intros i s1 s2 H; cbn; [repeat split; [exact H]|].
  pose proof (txn_op_sim idx op s1 s2 H) as Hop.
  destruct (txn_op idx op s1) as [[a1 r1]|e1 p1], (txn_op idx op s2) as [[a2 r2]|e2 p2]; cbn in Hop; try contradiction.
  - destruct Hop as [Ha Hr]; cbn in Ha, Hr. subst r2.
    specialize (IH (S i) a1 a2 Ha).
    destruct (txn_dispatch idx (S i) ops a1) as [[x1 y1] z1], (txn_dispatch idx (S i) ops a2) as [[x2 y2] z2]; cbn in *.
    destruct IH as (? & ? & ?). subst. repeat split; assumption.
  - destruct Hop as [-> Hp]. specialize (IH (S i) p1 p2 Hp).
    destruct (txn_dispatch idx (S i) ops p1) as [[x1 y1] z1], (txn_dispatch idx (S i) ops p2) as [[x2 y2] z2]; cbn in *.
    destruct IH as (? & ? & ?). subst. repeat split; assumption.
Qed.

Lemma txn_rw_sim idx ops s1 s2 : sim s1 s2 ->
  sim (txn_rw idx ops s1).1 (txn_rw idx ops s2).1 /\ (txn_rw idx ops s1).2 = (txn_rw idx ops s2).2.
Proof.
  intros H. unfold txn_rw. pose proof (txn_dispatch_sim idx ops 0%nat s1 s2 H) as (Hs & Hr & He).
  destruct (txn_dispatch idx 0 ops s1) as [[x1 y1] z1], (txn_dispatch idx 0 ops s2) as [[x2 y2] z2]; cbn in *. subst.
  destruct z2; cbn; split; try reflexivity; assumption.
Qed.

(* ---------- the FSM ---------- *)
Lemma of_unit_sim r1 r2 s1 s2 : sim s1 s2 -> rsim sim r1 r2 ->
  sim (of_unit r1 s1).1 (of_unit r2 s2).1 /\ (of_unit r1 s1).2 = (of_unit r2 s2).2.
Proof.
  intros H Hr. destruct r1, r2; cbn in *; try contradiction.
  - split; [exact Hr|reflexivity].
  - destruct Hr as [-> _]. split; [exact H|reflexivity].
Qed.

Lemma apply_kvs_sim idx v q s1 s2 : sim s1 s2 ->
  sim (apply_kvs idx v q s1).1 (apply_kvs idx v q s2).1 /\ (apply_kvs idx v q s1).2 = (apply_kvs idx v q s2).2.
Proof.
  intros H. unfold apply_kvs. destruct v; cbn; try (split; [exact H|reflexivity]).
  - split; [apply kvs_set_sim; exact H|reflexivity].
  - split; [apply kvs_delete_sim; exact H|reflexivity].
  - pose proof (kvs_delete_cas_sim idx (q_index q) (q_key q) s1 s2 H) as [Hb Hs].
    destruct (kvs_delete_cas _ _ _ s1), (kvs_delete_cas _ _ _ s2); cbn in *. subst. split; [exact Hs|reflexivity].
  - split; [apply kvs_delete_tree_sim; exact H|reflexivity].
  - pose proof (kvs_set_cas_sim idx (q_key q) (ent_of q) s1 s2 H) as (Hb & Hs & He).
    destruct (kvs_set_cas _ _ _ s1) as [b1 [a1 e1]], (kvs_set_cas _ _ _ s2) as [b2 [a2 e2]]; cbn in *. subst.
    destruct b2; split; try reflexivity; assumption.
  - pose proof (kvs_lock_sim idx (q_key q) (ent_of q) s1 s2 H) as Hl.
    destruct (kvs_lock _ _ _ s1) as [[b1 [a1 e1]]|er1 p1], (kvs_lock _ _ _ s2) as [[b2 [a2 e2]]|er2 p2]; cbn in Hl; try contradiction.
    + destruct Hl as (Hb & Hs & He); cbn in *. subst. destruct b2; split; try reflexivity; assumption.
    + destruct Hl as [-> _]. split; [exact H|reflexivity].
  - pose proof (kvs_unlock_sim idx (q_key q) (ent_of q) s1 s2 H) as Hl.
    destruct (kvs_unlock _ _ _ s1) as [[b1 [a1 e1]]|er1 p1], (kvs_unlock _ _ _ s2) as [[b2 [a2 e2]]|er2 p2]; cbn in Hl; try contradiction.
    + destruct Hl as (Hb & Hs & He); cbn in *. subst. destruct b2; split; try reflexivity; assumption.
    + destruct Hl as [-> _]. split; [exact H|reflexivity].
Qed.

Lemma ensure_registration_sim idx nd id addr skip svc cks s1 s2 : sim s1 s2 ->
  rsim sim (ensure_registration idx nd id addr skip svc cks s1) (ensure_registration idx nd id addr skip svc cks s2).
Proof.
  intros H. unfold ensure_registration.
  apply (bind_sim sim sim).
  { pose proof (sim_inv _ _ H) as (_&_&_&_&_&Hn&_). rewrite Hn.
    destruct (changes_node _ _ _ _); [apply ensure_node_sim; exact H|exact H]. }
  intros a b Hab. apply (bind_sim sim sim).
  { destruct svc as [[[sid name] port]|]; [|exact Hab].
    pose proof (sim_inv _ _ Hab) as (_&_&_&_&_&_&Hs&_). rewrite Hs.
    destruct (services b !! (nd, sid)) as [x|].
    - destruct (_ && _); [exact Hab|apply ensure_service_sim; exact Hab].
    - apply ensure_service_sim; exact Hab. }
  intros a' b' Hab'. apply rfold_sim; [|exact Hab'].
  intros c x y Hxy. destruct (bool_decide _); [apply ensure_check_p_sim; exact Hxy|split; [reflexivity|exact Hxy]].
Qed.

Lemma query_set_sim idx qid sess s1 s2 : sim s1 s2 -> rsim sim (query_set idx qid sess s1) (query_set idx qid sess s2).
Proof.
  intros H. unfold query_set. pose proof (sim_inv _ _ H) as (_&_&Hs&_). rewrite Hs.
  destruct (_ || _); [|split; [reflexivity|exact H]]. clear Hs. cbn. sim_destruct. sim_solve.
Qed.

Lemma query_delete_sim idx qid s1 s2 : sim s1 s2 -> sim (query_delete idx qid s1) (query_delete idx qid s2).
Proof.
  intros H. unfold query_delete. pose proof (sim_inv _ _ H) as (_&_&_&_&Hq&_). rewrite Hq.
  destruct (queries s2 !! qid); [|exact H]. clear Hq. sim_destruct. sim_solve.
Qed.

Theorem apply_sim idx c s1 s2 : sim s1 s2 ->
  sim (apply idx c s1).1 (apply idx c s2).1 /\ (apply idx c s1).2 = (apply idx c s2).2.
Proof.
  intros H. destruct c; cbn [apply].
  - apply apply_kvs_sim; exact H.
  - pose proof (session_create_sim idx sid ss s1 s2 H) as Hc.
    destruct (session_create idx sid ss s1), (session_create idx sid ss s2); cbn in Hc; try contradiction.
    + split; [exact Hc|reflexivity].
    + destruct Hc as [-> _]. split; [exact H|reflexivity].
  - apply of_unit_sim; [exact H|apply delete_session_top_sim; exact H].
  - apply of_unit_sim; [exact H|apply ensure_registration_sim; exact H].
  - destruct (negb (bool_decide (svc = ""))); [|destruct (negb (bool_decide (cid = "")))];
      (apply of_unit_sim; [exact H|]).
    + apply delete_service_sim; exact H.
    + apply delete_check_sim; exact H.
    + apply delete_node_sim; exact H.
  - apply txn_rw_sim; exact H.
  - split; [apply reap_sim; exact H|reflexivity].
  - apply of_unit_sim; [exact H|apply query_set_sim; exact H].
  - split; [apply query_delete_sim; exact H|reflexivity].
Qed.

Theorem run_sim log : forall s1 s2, sim s1 s2 ->
  sim (run log s1).1 (run log s2).1 /\ (run log s1).2 = (run log s2).2.
Proof.
  induction log as [|[idx c] log IH]; intros s1 s2 H; cbn; [split; [exact H|reflexivity]|].
  pose proof (apply_sim idx c s1 s2 H) as [Ha Hr].
  destruct (apply idx c s1) as [a1 r1], (apply idx c s2) as [a2 r2]; cbn in *. subst r2.
  specialize (IH a1 a2 Ha). destruct (run log a1) as [x1 y1], (run log a2) as [x2 y2]; cbn in *.
  destruct IH as [Hx ->]. split; [exact Hx|reflexivity].
Qed.

(* ---------- the statements of property C01 ---------- *)
Theorem replicas_agree log s1 s2 :
  repl s1 = repl s2 ->
  repl (run log s1).1 = repl (run log s2).1 /\ (run log s1).2 = (run log s2).2.
Proof. intros H. apply (run_sim log s1 s2 H). Qed.

Theorem local_never_read idx c s l :
  repl (apply idx c (s <| lockdelay := l |>)).1 = repl (apply idx c s).1 /\
  (apply idx c (s <| lockdelay := l |>)).2 = (apply idx c s).2.
Proof. apply (apply_sim idx c _ s (sim_with_delay s l)). Qed.

(* A concrete instance: node n1 with check c1; a session with a lock delay bound to c1 holds key
   "a"; then c1 turns critical, which invalidates the session and registers a lock delay for "a".
   Replica 2 starts with a lock delay on another key (its clock and history differ). *)
Definition ex_log : list (N * cmd) :=
  [ (1, Register "n1" "" 1 false None [CheckReq "n1" "c1" 0 "" false "" 0 0]);
    (2, SessionCreate "s1" (Sess "n1" "" false ["c1"] true 0));
    (3, KVS VLock (KVReq "a" [] 0 "s1" 0 0));
    (5, Register "n1" "" 1 false None [CheckReq "n1" "c1" 2 "" false "" 0 0]);
    (6, KVS VLock (KVReq "a" [] 0 "s1" 0 0)) ].
Definition ex_s2 : st := st0 <| lockdelay := {["zz"]} |>.

Example replicas_agree_example :
  repl st0 = repl ex_s2 /\ st0 ≠ ex_s2 /\
  lockdelay (run ex_log st0).1 = {["a"]} /\ lockdelay (run ex_log ex_s2).1 = {["a"; "zz"]} /\
  (run ex_log st0).2 = [CNil; CStr "s1"; CBool true; CNil; CErr EInvalidSession] /\
  kvs (run ex_log st0).1 !! "a" = Some (KV [] 0 "" 1 3 5).
Proof.
  split; [reflexivity|]. split; [intros Heq; apply (f_equal lockdelay) in Heq; cbn in Heq; set_solver|].
  split; [eapply bool_decide_eq_true_1; vm_compute; reflexivity|].
  split; [eapply bool_decide_eq_true_1; vm_compute; reflexivity|].
  split; vm_compute; reflexivity.
Qed.
