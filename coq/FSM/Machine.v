(* Property C01: ONE state machine in which the environment of a replica -- the order in which each
   Go map is visited, and the wall clock -- is an argument of every step.

   [mapply e idx c s] applies one log entry on a replica whose environment for that entry is [e]:
     - core commands run the store model of coq/Store/Model.v; the keys that receive a lock delay get an
       expiry computed from the replica's clock ([now e], state/session.go: now.Add(delay));
     - the commands whose handlers range over Go maps run the models of coq/FSM/Model.v with the
       iteration orders taken from [e]: manual virtual IPs, the usage rows written when a transaction
       commits, the mesh-topology rows of a proxy registration, the tagged addresses of a terminating
       gateway instance (at registration and when the gateway's config entry is written), service
       metadata validation, the JWT providers referenced by a service-intentions entry.
   [mrun es log s] runs a log, entry i under environment es[i].  Two replicas are two environment
   lists.  No proofs in this file. *)
From stdpp Require Import gmap strings.
From RecordUpdate Require Import RecordSet.
From Coq Require Import NArith.
From Verif Require Import Store.Model FSM.Model.
Import RecordSetNotations.
Local Open Scope N_scope.

Notation addrmap := (gmap string (string * N)).

Record mst := MSt {
  m_core : st;                          (* the core store (replicated tables + the lock-delay key set) *)
  m_expiry : gmap string N;             (* NOT replicated: expiry time of each lock delay (local clock) *)
  m_vips : vst;                         (* service-virtual-ips *)
  m_usage : gmap string (N * N);        (* usage rows: count, index *)
  m_topo : topo;                        (* mesh-topology *)
  m_tagged : gmap string addrmap;       (* tagged addresses of gateway instances, by instance id *)
  m_jwt : gset string                   (* names of the stored jwt-provider config entries *)
}.
#[global] Instance eta_mst : Settable _ :=
  settable! MSt <m_core; m_expiry; m_vips; m_usage; m_topo; m_tagged; m_jwt>.

Definition mst0 : mst := MSt st0 ∅ vst0 ∅ (Topo ∅ 0) ∅ ∅.

Inductive mcmd :=
| MCore (c : cmd)
| MVip (c : vcmd)
| MUsage (deltas : gmap string Z)                               (* writeUsageDeltas at commit *)
| MProxy (downstream : string) (news : list string) (old : gset string)   (* updateMeshTopology *)
| MGatewayRegister (inst : string) (requested addrs : addrmap)  (* ensureServiceTxn, terminating gateway *)
| MGatewayConfig (addrs : addrmap)                              (* updateTerminatingGatewayVirtualIPs *)
| MRegisterMeta (badkeys : gset string) (meta : gmap string string)  (* service metadata check of a registration *)
| MJwtProvider (name : string)                                  (* a jwt-provider entry is stored *)
| MIntentions (referenced : gset string).                       (* service-intentions entry referencing providers *)

Inductive mres :=
| RCore (r : cres)
| RVip (r : option vres)
| RDone
| RMetaError (named : string * string)           (* "Couldn't load metadata pair (k, v)" *)
| RJwtError (lines : list string).               (* one line per missing provider *)

Definition lock_delay_seconds : N := 15.

Definition mapply (e : Env) (idx : N) (c : mcmd) (s : mst) : mst * mres :=
  match c with
  | MCore c =>
    let '(core', r) := apply idx c (m_core s) in
    (* keys that have just received a lock delay expire at this server's now + delay *)
    let fresh := lockdelay core' ∖ lockdelay (m_core s) in
    (s <| m_core := core' |>
       <| m_expiry ::= fun x => gset_to_gmap (now e + lock_delay_seconds) fresh ∪ x |>, RCore r)
  | MVip c =>
    let '(v', r) := vapply e e idx c (m_vips s) in (s <| m_vips := v' |>, RVip r)
  | MUsage deltas =>
    (s <| m_usage ::= write_usage_deltas idx (ordered_items e deltas) |>, RDone)
  | MProxy ds news old =>
    (s <| m_topo ::= update_mesh_topology e idx ds news old |>, RDone)
  | MGatewayRegister inst requested addrs =>
    (s <| m_tagged ::= <[inst := ensure_tagged e addrs requested]> |>, RDone)
  | MGatewayConfig addrs =>
    (s <| m_tagged ::= fmap (update_tgw_tagged e e addrs) |>, RDone)
  | MRegisterMeta badkeys meta =>
    match validate_meta e (fun kv => bool_decide (kv.1 ∈ badkeys)) meta with
    | Some kv => (s, RMetaError kv)
    | None => (s, RDone)
    end
  | MJwtProvider name => (s <| m_jwt ::= fun j => {[ name ]} ∪ j |>, RDone)
  | MIntentions referenced =>
    match missing_providers (m_jwt s) (order e (elements referenced)) with
    | [] => (s, RDone)
    | lines => (s, RJwtError lines)
    end
  end.

(* entry i of the log meets environment i (the default when the list is short) *)
Fixpoint mrun (es : list Env) (log : list (N * mcmd)) (s : mst) : mst * list mres :=
  match log with
  | [] => (s, [])
  | (idx, c) :: rest =>
    let e := default env_id (head es) in
    let '(s', r) := mapply e idx c s in
    let '(s'', rs) := mrun (tail es) rest s' in (s'', r :: rs)
  end.

(* what is replicated: everything but the lock-delay key set and the expiry times *)
Definition mrepl (s : mst) : mst := s <| m_core ::= repl |> <| m_expiry := ∅ |>.

(* the invariant the manual-VIP handler relies on (an address is a manual IP of at most one service) is
   stated in coq/FSM/Proofs.v ([Uniq]); [MInv] lifts it *)
