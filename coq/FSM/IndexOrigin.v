(* Property C01, clause "no replicated value may depend on anything not carried in the command":
   every Raft index the core store model writes into a row (create / modify indexes, tombstones,
   the index table) is the index of the log entry being applied or an index that was already in
   the store.  There is no local counter. *)
From stdpp Require Import gmap strings.
From RecordUpdate Require Import RecordSet.
From Coq Require Import NArith.
From Verif Require Import Store.Model Store.Inv FSM.NonInterference.
Import RecordSetNotations.
Local Open Scope N_scope.

(* every index stored anywhere in [s] satisfies P *)
Definition Bnd (P : N -> Prop) (s : st) : Prop :=
  map_Forall (fun _ e => P (kv_create e) /\ P (kv_modify e)) (kvs s) /\
  map_Forall (fun _ n => P n) (tombs s) /\
  map_Forall (fun _ x => P (s_create x)) (sessions s) /\
  map_Forall (fun _ x => P (n_create x) /\ P (n_modify x)) (nodes s) /\
  map_Forall (fun _ x => P (sv_create x) /\ P (sv_modify x)) (services s) /\
  map_Forall (fun _ x => P (c_create x) /\ P (c_modify x)) (checks s) /\
  map_Forall (fun _ n => P n) (index s).

(* the indexes a state contains *)
Definition has_idx (s : st) (n : N) : Prop :=
  (exists k e, kvs s !! k = Some e /\ (kv_create e = n \/ kv_modify e = n)) \/
  (exists k, tombs s !! k = Some n) \/
  (exists k x, sessions s !! k = Some x /\ s_create x = n) \/
  (exists k x, nodes s !! k = Some x /\ (n_create x = n \/ n_modify x = n)) \/
  (exists k x, services s !! k = Some x /\ (sv_create x = n \/ sv_modify x = n)) \/
  (exists k x, checks s !! k = Some x /\ (c_create x = n \/ c_modify x = n)) \/
  (exists k, index s !! k = Some n).

Lemma Bnd_has_idx P s : Bnd P s <-> (forall n, has_idx s n -> P n).
Proof.
  split.
  - intros (Hk & Ht & Hs & Hn & Hv & Hc & Hi) n [H|[H|[H|[H|[H|[H|H]]]]]].
    + destruct H as (k & e & He & [<-|<-]); [apply (Hk k e He)|apply (Hk k e He)].
    + destruct H as (k & He). apply (Ht k n He).
    + destruct H as (k & x & He & <-). apply (Hs k x He).
    + destruct H as (k & x & He & [<-|<-]); apply (Hn k x He).
    + destruct H as (k & x & He & [<-|<-]); apply (Hv k x He).
    + destruct H as (k & x & He & [<-|<-]); apply (Hc k x He).
    + destruct H as (k & He). apply (Hi k n He).
  - intros H. unfold Bnd.
    split; [intros k x Hx; split; apply H; left; eauto 6|].
    split; [intros k x Hx; apply H; right; left; eauto|].
    split; [intros k x Hx; apply H; do 2 right; left; eauto|].
    split; [intros k x Hx; split; apply H; do 3 right; left; eauto 6|].
    split; [intros k x Hx; split; apply H; do 4 right; left; eauto 6|].
    split; [intros k x Hx; split; apply H; do 5 right; left; eauto 6|].
    intros k x Hx; apply H; do 6 right; eauto.
Qed.

(* ---------- map_Forall under the updates the model performs ---------- *)
Section MF.
  Context {K A : Type} `{Countable K} (Q : K -> A -> Prop).
  Lemma mf_insert k x (m : gmap K A) : map_Forall Q m -> Q k x -> map_Forall Q (<[k := x]> m).
  Proof. intros Hm Hx. apply map_Forall_insert_2; assumption. Qed.
  Lemma mf_delete k (m : gmap K A) : map_Forall Q m -> map_Forall Q (delete k m).
  Proof. intros Hm. apply map_Forall_delete. exact Hm. Qed.
  Lemma mf_filter (F : K * A -> Prop) `{forall x, Decision (F x)} (m : gmap K A) :
    map_Forall Q m -> map_Forall Q (filter F m).
  Proof. intros Hm k x Hx. apply map_filter_lookup_Some in Hx as [Hx _]. exact (Hm k x Hx). Qed.
  Lemma mf_fmap (f : A -> A) (m : gmap K A) :
    (forall k x, Q k x -> Q k (f x)) -> map_Forall Q m -> map_Forall Q (f <$> m).
  Proof.
    intros Hf Hm k x Hx. rewrite lookup_fmap in Hx. destruct (m !! k) as [y|] eqn:Ey; [|discriminate].
    cbn in Hx. injection Hx as <-. apply Hf. exact (Hm k y Ey).
  Qed.
  Lemma mf_union (m1 m2 : gmap K A) : map_Forall Q m1 -> map_Forall Q m2 -> map_Forall Q (m1 ∪ m2).
  Proof.
    intros H1 H2 k x Hx. apply lookup_union_Some_raw in Hx as [Hx|[_ Hx]]; [exact (H1 k x Hx)|exact (H2 k x Hx)].
  Qed.
End MF.

Ltac bsplit := unfold Bnd; split; [|split; [|split; [|split; [|split; [|split]]]]].

Section Origin.
  Variable P : N -> Prop.
  Variable idx : N.
  Hypothesis Pidx : P idx.

  Notation B := (Bnd P).

  (* field-wise re-assembly *)
  Lemma B_intro s s' :
    map_Forall (fun _ e => P (kv_create e) /\ P (kv_modify e)) (kvs s') ->
    map_Forall (fun _ n => P n) (tombs s') ->
    map_Forall (fun _ x => P (s_create x)) (sessions s') ->
    map_Forall (fun _ x => P (n_create x) /\ P (n_modify x)) (nodes s') ->
    map_Forall (fun _ x => P (sv_create x) /\ P (sv_modify x)) (services s') ->
    map_Forall (fun _ x => P (c_create x) /\ P (c_modify x)) (checks s') ->
    map_Forall (fun _ n => P n) (index s') -> B s -> B s'.
  Proof. intros. bsplit; assumption. Qed.

  Lemma set_index_B k s : B s -> B (set_index k idx s).
  Proof.
    intros (Hk & Ht & Hs & Hn & Hv & Hc & Hi). bsplit; cbn; try assumption.
    apply mf_insert; assumption.
  Qed.

  (* ---------- KV ---------- *)
  Lemma kvs_set_B k e u s : B s -> B (kvs_set idx k e u s).1.
  Proof.
    intros HB. pose proof HB as (Hk & Ht & Hs & Hn & Hv & Hc & Hi). unfold kvs_set.
    destruct (kvs s !! k) as [x|] eqn:Ex.
    - destruct (kv_same x _); cbn; [exact HB|].
      apply set_index_B. bsplit; cbn; try assumption.
      apply mf_insert; [exact Hk|]. cbn. split; [apply (Hk k x Ex)|exact Pidx].
    - cbn. apply set_index_B. bsplit; cbn; try assumption.
      apply mf_insert; [exact Hk|]. cbn. split; exact Pidx.
  Qed.

  Lemma kvs_delete_B k s : B s -> B (kvs_delete idx k s).
  Proof.
    intros HB. unfold kvs_delete. destruct (kvs s !! k); [|exact HB].
    apply set_index_B.
    assert (H1 : B (set_index "tombstones" idx (s <| tombs ::= <[k := idx]> |>))).
    { apply set_index_B. destruct HB as (Hk & Ht & Hs & Hn & Hv & Hc & Hi). bsplit; cbn; try assumption. apply mf_insert; assumption. }
    destruct H1 as (Hk & Ht & Hs & Hn & Hv & Hc & Hi). cbn in *; bsplit; cbn; try assumption.
    apply mf_delete. exact Hk.
  Qed.

  Lemma kvs_delete_cas_B c k s : B s -> B (kvs_delete_cas idx c k s).2.
  Proof.
    intros HB. unfold kvs_delete_cas. destruct (kvs s !! k); [|exact HB].
    destruct (bool_decide _); cbn; [apply kvs_delete_B|]; exact HB.
  Qed.

  Lemma kvs_set_cas_B k e s : B s -> B (kvs_set_cas idx k e s).2.1.
  Proof.
    intros HB. unfold kvs_set_cas. destruct (kvs s !! k).
    - destruct (bool_decide (kv_modify e = 0)); cbn; [exact HB|].
      destruct (bool_decide _); cbn; [apply kvs_set_B|]; exact HB.
    - destruct (bool_decide _); cbn; [apply kvs_set_B|]; exact HB.
  Qed.

  Lemma kvs_delete_tree_B p s : B s -> B (kvs_delete_tree idx p s).
  Proof.
    intros HB. unfold kvs_delete_tree. destruct (bool_decide _); [exact HB|].
    apply set_index_B.
    assert (H1 : B (s <| kvs ::= filter (fun kv => has_prefix p kv.1 = false) |>
                      <| tombs ::= filter (fun kt => has_prefix p kt.1 = false) |>)).
    { destruct HB as (Hk & Ht & Hs & Hn & Hv & Hc & Hi). bsplit; cbn; try assumption.
      - apply mf_filter. exact Hk.
      - apply mf_filter. exact Ht. }
    destruct (bool_decide (p = "")); [exact H1|].
    apply set_index_B. destruct H1 as (Hk & Ht & Hs & Hn & Hv & Hc & Hi). cbn in *; bsplit; cbn; try assumption. apply mf_insert; assumption.
  Qed.

  Lemma kvs_lock_B k e s : B s -> post B (fun r => r.2.1) (kvs_lock idx k e s).
  Proof.
    intros HB. unfold kvs_lock. destruct (bool_decide (kv_session e = "")); [exact HB|].
    destruct (sessions s !! kv_session e); [|exact HB].
    destruct (kvs s !! k) as [x|].
    - destruct (bool_decide (kv_session x = kv_session e)); cbn; [apply kvs_set_B; exact HB|].
      destruct (bool_decide (kv_session x = "")); cbn; [apply kvs_set_B|]; exact HB.
    - cbn. apply kvs_set_B; exact HB.
  Qed.

  Lemma kvs_unlock_B k e s : B s -> post B (fun r => r.2.1) (kvs_unlock idx k e s).
  Proof.
    intros HB. unfold kvs_unlock. destruct (bool_decide (kv_session e = "")); [exact HB|].
    destruct (kvs s !! k) as [x|]; [|exact HB].
    destruct (bool_decide _); cbn; [apply kvs_set_B|]; exact HB.
  Qed.

  Lemma reap_B upto s : B s -> B (reap_tombstones upto s).
  Proof.
    intros (Hk & Ht & Hs & Hn & Hv & Hc & Hi). unfold reap_tombstones; bsplit; cbn; try assumption.
    apply mf_filter. exact Ht.
  Qed.

  (* ---------- checks and sessions ---------- *)
  Definition hc_ok (pre : bool) (hc : check) : Prop := pre = true -> P (c_create hc) /\ P (c_modify hc).

  Lemma store_check_B pre nd cid hc s0 s :
    B s0 -> B s -> hc_ok pre hc -> B (store_check pre idx nd cid hc (checks s0 !! (nd, cid)) s).
  Proof.
    intros HB0 HB Hhc. unfold store_check.
    destruct (match checks s0 !! (nd, cid) with Some x => negb (check_same x hc) | None => true end); [|exact HB].
    destruct HB as (Hk & Ht & Hs & Hn & Hv & Hc & Hi). bsplit; cbn; try assumption.
    apply mf_insert; [exact Hc|]. cbn.
    destruct HB0 as (_ & _ & _ & _ & _ & Hc0 & _).
    destruct (checks s0 !! (nd, cid)) as [x|] eqn:Ex.
    - pose proof (Hc0 _ x Ex) as [? ?]. destruct pre; split; assumption.
    - destruct pre; [destruct (Hhc eq_refl); split; assumption|split; exact Pidx].
  Qed.

  Definition del_B (del : N -> string -> st -> result st) : Prop := forall sid, preserves B (del idx sid).

  Lemma ensure_check_with_B del pre nd cid hc :
    del_B del -> hc_ok pre hc -> preserves B (ensure_check_with del pre idx nd cid hc).
  Proof.
    intros Hdel Hhc s HB. unfold ensure_check_with.
    destruct (nodes s !! nd); [|exact HB].
    apply (bind_preserves B (fun hc1 => hc_ok pre hc1)).
    { unfold resolve_service. destruct (bool_decide _); [exact Hhc|].
      destruct (services s !! _); [exact Hhc|exact HB]. }
    intros hc1 Hhc1. apply (bind_preserves B B).
    { unfold invalidate_if_critical. destruct (bool_decide _); [|exact HB].
      apply (rfold_preserves B); [|exact HB]. intros sid. apply Hdel. }
    intros s1 HB1. cbn. apply store_check_B; assumption.
  Qed.

  Lemma release_or_delete_keys_B sid ss s : B s -> B (release_or_delete_keys idx sid ss s).
  Proof.
    intros HB. unfold release_or_delete_keys. destruct (bool_decide _); [exact HB|].
    assert (H1 : B (if s_delete ss then
                      set_index "kvs" idx (set_index "tombstones" idx
                        (s <| tombs ::= fun t => ((fun _ => idx) <$> filter (fun kv => kv_session kv.2 = sid) (kvs s)) ∪ t |>
                           <| kvs ::= filter (fun kv => kv_session kv.2 ≠ sid) |>))
                    else
                      set_index "kvs" idx
                        (s <| kvs ::= fmap (fun e => if bool_decide (kv_session e = sid)
                                                     then KV (kv_value e) (kv_flags e) "" (kv_lock e) (kv_create e) idx
                                                     else e) |>))).
    { destruct HB as (Hk & Ht & Hs & Hn & Hv & Hc & Hi). destruct (s_delete ss).
      - do 2 apply set_index_B. bsplit; cbn; try assumption.
        + apply mf_filter. exact Hk.
        + apply mf_union; [|exact Ht]. intros k x Hx. rewrite lookup_fmap in Hx.
          destruct (filter _ (kvs s) !! k); [|discriminate]. cbn in Hx. injection Hx as <-. exact Pidx.
      - apply set_index_B. bsplit; cbn; try assumption.
        apply mf_fmap; [|exact Hk]. intros k x [Hx1 Hx2]. destruct (bool_decide _); cbn; split; assumption. }
    destruct (s_delay ss); [|exact H1].
    destruct H1 as (Hk & Ht & Hs & Hn & Hv & Hc & Hi). destruct (s_delete ss); cbn in *; bsplit; cbn; assumption.
  Qed.

  Lemma drop_session_B sid ss s : B s -> B (drop_session idx sid ss s).
  Proof.
    intros HB. rewrite drop_session_tail.
    match goal with |- Bnd P (drop_tail idx sid ?x) => assert (Ha : B x); [|revert Ha; generalize x] end.
    { apply release_or_delete_keys_B, set_index_B.
      destruct HB as (Hk & Ht & Hs & Hn & Hv & Hc & Hi). bsplit; cbn; try assumption.
      apply mf_delete. exact Hs. }
    intros a Ha. unfold drop_tail. cbn zeta.
    assert (H3 : B (a <| schecks ::= filter (fun m => m.2 ≠ sid) |>)).
    { destruct Ha as (Hk & Ht & Hs & Hn & Hv & Hc & Hi). bsplit; cbn; assumption. }
    destruct (bool_decide _); [exact H3|]. apply set_index_B.
    destruct H3 as (Hk & Ht & Hs & Hn & Hv & Hc & Hi). cbn in *; bsplit; cbn; assumption.
  Qed.

  (* with enough fuel, the cascade never runs out of it (as in Store/Inv.v) and keeps the bound *)
  Definition BB (n : nat) (s : st) : Prop := B s /\ (size (sessions s) <= n)%nat.

  Lemma store_check_sessions pre nd cid hc ex s : sessions (store_check pre idx nd cid hc ex s) = sessions s.
  Proof. unfold store_check. destruct (match ex with Some x => _ | None => _ end); reflexivity. Qed.

  Lemma ensure_check_with_BB del pre nd cid hc n :
    (forall sid, preserves (BB n) (del idx sid)) -> hc_ok pre hc ->
    preserves (BB n) (ensure_check_with del pre idx nd cid hc).
  Proof.
    intros Hdel Hhc s [HB Hsz]. unfold ensure_check_with.
    destruct (nodes s !! nd); [|split; assumption].
    apply (bind_preserves (BB n) (fun hc1 => hc_ok pre hc1)).
    { unfold resolve_service. destruct (bool_decide _); [exact Hhc|].
      destruct (services s !! _); [exact Hhc|split; assumption]. }
    intros hc1 Hhc1. apply (bind_preserves (BB n) (BB n)).
    { unfold invalidate_if_critical. destruct (bool_decide _); [|split; assumption].
      apply (rfold_preserves (BB n)); [|split; assumption]. intros sid. apply Hdel. }
    intros s1 [HB1 Hsz1]. cbn. split; [apply store_check_B; assumption|].
    rewrite store_check_sessions. exact Hsz1.
  Qed.

  Lemma delete_session_BB fuel : forall n sid, (n < fuel)%nat -> preserves (BB n) (delete_session fuel idx sid).
  Proof.
    induction fuel as [|fuel IH]; intros n sid Hn s [HB Hsz]; [lia|]. cbn.
    destruct (sessions s !! sid) as [ss|] eqn:Ess; [|split; assumption].
    assert (Hsz4 : (size (sessions (drop_session idx sid ss s)) <= pred n /\ 0 < n)%nat).
    { rewrite drop_session_sessions.
      pose proof (map_size_delete_Some sid (sessions s) (ex_intro _ ss Ess)) as Hx.
      assert (size (sessions s) ≠ 0%nat) by (intros Hz; apply map_size_empty_inv in Hz; rewrite Hz in Ess;
                                         rewrite lookup_empty in Ess; discriminate).
      lia. }
    destruct Hsz4 as [Hsz4 Hpos].
    pose proof (drop_session_B sid ss s HB) as HB4.
    assert (Hfin : post (BB (pred n)) id
              (rfold (fun s' cid =>
                 match checks (drop_session idx sid ss s) !! (s_node ss, cid) with
                 | None => Ok s'
                 | Some c => ensure_check_with (delete_session fuel) true idx (s_node ss) cid
                               (c <| c_status := critical |> <| c_output := OInvalid sid |>) s'
                 end)
               (session_checks_of_node (s_node ss) (s_name ss) (drop_session idx sid ss s))
               (drop_session idx sid ss s))).
    { apply (rfold_preserves (BB (pred n))); [|split; assumption].
      intros cid s' Hs'. cbn.
      destruct (checks (drop_session idx sid ss s) !! (s_node ss, cid)) as [c|] eqn:Ec; [|exact Hs'].
      apply ensure_check_with_BB; [| |exact Hs'].
      - intros sid'. apply IH. lia.
      - intros _. destruct HB4 as (_ & _ & _ & _ & _ & Hc4 & _). exact (Hc4 _ c Ec). }
    destruct (rfold _ _ _) as [s'|e p]; cbn in *.
    - destruct Hfin as [H1 H2]. split; [exact H1|lia].
    - destruct e; try contradiction; (destruct Hfin as [H1 H2]; split; [exact H1|lia]).
  Qed.

  Lemma delete_session_top_B sid : preserves B (delete_session_top idx sid).
  Proof.
    intros s HB. unfold delete_session_top, fuel_of.
    pose proof (delete_session_BB (S (size (sessions s))) (size (sessions s)) sid
                  (Nat.lt_succ_diag_r _) s (conj HB (Nat.le_refl _))) as Hx.
    destruct (delete_session _ idx sid s) as [s'|e p]; cbn in *.
    - exact (proj1 Hx).
    - destruct e; try contradiction; exact (proj1 Hx).
  Qed.

  Lemma del_top_B : del_B (fun i sid s' => delete_session (fuel_of s') i sid s').
  Proof. intros sid s HB. apply (delete_session_top_B sid s HB). Qed.

  Lemma ensure_check_p_B pre nd cid hc : hc_ok pre hc -> preserves B (ensure_check_p pre idx nd cid hc).
  Proof. intros Hhc. unfold ensure_check_p. apply ensure_check_with_B; [apply del_top_B|exact Hhc]. Qed.

  Lemma session_create_B sid ss : preserves B (session_create idx sid ss).
  Proof.
    intros s HB. unfold session_create.
    destruct (bool_decide (sid = "")); [exact HB|].
    destruct (nodes s !! s_node ss); [|exact HB].
    destruct (forallb _ _); [|exact HB].
    match goal with |- post B id (rfold _ _ ?a) => assert (Ha : B a) end.
    { apply set_index_B. destruct HB as (Hk & Ht & Hs & Hn & Hv & Hc & Hi). bsplit; cbn; try assumption.
      apply mf_insert; [exact Hs|]. cbn. exact Pidx. }
    apply (rfold_preserves B); [|exact Ha].
    intros cid s' Hs'. cbn.
    match goal with |- context [checks ?s1 !! ?key] => destruct (checks s1 !! key) as [c|] eqn:Ec end; [|exact Hs'].
    apply ensure_check_p_B; [|exact Hs'].
    intros _. destruct Ha as (_ & _ & _ & _ & _ & Hc & _). exact (Hc _ c Ec).
  Qed.

  (* ---------- catalog ---------- *)
  Lemma delete_check_B nd cid : preserves B (delete_check idx nd cid).
  Proof.
    intros s HB. unfold delete_check. destruct (checks s !! (nd, cid)); [|exact HB].
    apply (rfold_preserves B).
    - intros sid. apply delete_session_top_B.
    - destruct HB as (Hk & Ht & Hs & Hn & Hv & Hc & Hi). bsplit; cbn; try assumption.
      apply mf_delete. exact Hc.
  Qed.

  Lemma delete_service_B nd svc : preserves B (delete_service idx nd svc).
  Proof.
    intros s HB. unfold delete_service. destruct (services s !! (nd, svc)); [|exact HB].
    pose proof (rfold_preserves B (fun s' cid => delete_check idx nd cid s') (checks_of_service nd svc s)
                  (fun cid => delete_check_B nd cid) s HB) as Hr.
    destruct (rfold _ _ s) as [s1|e p]; cbn; [|exact Hr]. cbn in Hr.
    destruct Hr as (Hk & Ht & Hs & Hn & Hv & Hc & Hi). bsplit; cbn; try assumption.
    apply mf_delete. exact Hv.
  Qed.

  Lemma delete_node_B nd : preserves B (delete_node idx nd).
  Proof.
    intros s HB. unfold delete_node. destruct (nodes s !! nd); [|exact HB].
    pose proof (rfold_preserves B (fun s' svc => delete_service idx nd svc s') (services_of_node nd s)
                  (fun svc => delete_service_B nd svc) s HB) as Hr1.
    destruct (rfold _ _ s) as [s1|e p]; cbn; [|exact Hr1]. cbn in Hr1.
    pose proof (rfold_preserves B (fun s' cid => delete_check idx nd cid s') (checks_of_node nd s1)
                  (fun cid => delete_check_B nd cid) s1 Hr1) as Hr2.
    destruct (rfold _ _ s1) as [s2|e p]; cbn; [|exact Hr2]. cbn in Hr2.
    apply (rfold_preserves B).
    - intros sid. apply delete_session_top_B.
    - destruct Hr2 as (Hk & Ht & Hs & Hn & Hv & Hc & Hi). bsplit; cbn; try assumption.
      apply mf_delete. exact Hn.
  Qed.

  Lemma node_by_id_lookup id s nm n : node_by_id id s = Some (nm, n) -> nodes s !! nm = Some n.
  Proof.
    unfold node_by_id. destruct (filter _ (map_to_list (nodes s))) as [|x l] eqn:Ef; [discriminate|].
    intros Heq; injection Heq as ->.
    assert (Hin : (nm, n) ∈ filter (fun kn : string * node => n_id kn.2 = id) (map_to_list (nodes s)))
      by (rewrite Ef; left).
    apply elem_of_list_filter in Hin as [_ Hin]. apply elem_of_map_to_list in Hin. exact Hin.
  Qed.

  Lemma ensure_node_B nd id addr : preserves B (ensure_node idx nd id addr).
  Proof.
    intros s HB. unfold ensure_node.
    assert (Hfin : forall n0 s1, B s1 -> (forall x, n0 = Some x -> P (n_create x)) ->
      match (let n1 := match n0 with Some x => Some x | None => nodes s1 !! nd end in
             match n1 with
             | Some x => if bool_decide (n_id x = id) && bool_decide (n_addr x = addr)
                            && bool_decide (nodes s1 !! nd = Some x)
                         then Ok s1 else Ok (s1 <| nodes ::= <[nd := Node id addr (n_create x) idx]> |>)
             | None => Ok (s1 <| nodes ::= <[nd := Node id addr idx idx]> |>)
             end) with Ok s' => B s' | Err e p => match e with EFuel => False | _ => B p end end).
    { intros n0 s1 Hs1 Hn0. cbn.
      pose proof Hs1 as (Hk & Ht & Hs & Hn & Hv & Hc & Hi).
      destruct n0 as [x|]; [|destruct (nodes s1 !! nd) as [x|] eqn:Ex].
      - destruct (_ && _); [exact Hs1|]. bsplit; cbn; try assumption.
        apply mf_insert; [exact Hn|]. cbn. split; [apply Hn0; reflexivity|exact Pidx].
      - destruct (_ && _); [exact Hs1|]. bsplit; cbn; try assumption.
        apply mf_insert; [exact Hn|]. cbn. split; [apply (Hn _ x Ex)|exact Pidx].
      - bsplit; cbn; try assumption.
        apply mf_insert; [exact Hn|]. cbn. split; exact Pidx. }
    destruct (bool_decide (id = "")); cbn; [apply (Hfin None); [exact HB|discriminate]|].
    destruct (node_by_id id s) as [[oname on]|] eqn:Eby; cbn.
    - assert (Hon : P (n_create on)).
      { apply node_by_id_lookup in Eby. destruct HB as (_ & _ & _ & Hn & _). apply (Hn _ on Eby). }
      destruct (bool_decide (oname = nd)); cbn.
      { apply (Hfin (Some on)); [exact HB|]. intros x Hx; injection Hx as <-. exact Hon. }
      destruct (similar_clash false nd id s); cbn; [exact HB|].
      pose proof (delete_node_B oname s HB) as Hr.
      destruct (delete_node idx oname s) as [s'|e p]; cbn; [|exact Hr].
      apply (Hfin (Some on)); [exact Hr|]. intros x Hx; injection Hx as <-. exact Hon.
    - destruct (similar_clash true nd id s); cbn; [exact HB|]. apply (Hfin None); [exact HB|discriminate].
  Qed.

  Lemma ensure_service_B nd svc name port : preserves B (ensure_service idx nd svc name port).
  Proof.
    intros s HB. unfold ensure_service. destruct (nodes s !! nd); [|exact HB].
    pose proof HB as (Hk & Ht & Hs & Hn & Hv & Hc & Hi).
    destruct (services s !! (nd, svc)) as [x|] eqn:Ex.
    - destruct (_ && _); [exact HB|]. bsplit; cbn; try assumption.
      apply mf_insert; [exact Hv|]. cbn. split; [apply (Hv _ x Ex)|exact Pidx].
    - bsplit; cbn; try assumption.
      apply mf_insert; [exact Hv|]. cbn. split; exact Pidx.
  Qed.

  (* ---------- transactions and commands ---------- *)
  Lemma hc_ok_false hc : hc_ok false hc.
  Proof. intros Hx; discriminate. Qed.

  Lemma res_bind_fst_B {X} (m : result st) (k : st -> result (st * X)) :
    post B id m -> (forall s', B s' -> post B fst (k s')) -> post B fst (m ≫= k).
  Proof. intros Hm Hk. destruct m as [a|e p]; cbn; [apply Hk; exact Hm|exact Hm]. Qed.

  Lemma txn_kv_B v q s : B s -> post B fst (txn_kv idx v q s).
  Proof.
    intros HB. unfold txn_kv. destruct v; cbn.
    - pose proof (kvs_set_B (q_key q) (ent_of q) false s HB) as Hx.
      destruct (kvs_set _ _ _ _ _) as [s' e']. exact Hx.
    - apply kvs_delete_B; exact HB.
    - pose proof (kvs_delete_cas_B (q_index q) (q_key q) s HB) as Hx.
      destruct (kvs_delete_cas _ _ _ _) as [[] s']; cbn; [exact Hx|exact HB].
    - apply kvs_delete_tree_B; exact HB.
    - pose proof (kvs_set_cas_B (q_key q) (ent_of q) s HB) as Hx.
      destruct (kvs_set_cas _ _ _ _) as [[] [s' e']]; cbn; [exact Hx|exact HB].
    - pose proof (kvs_lock_B (q_key q) (ent_of q) s HB) as Hx.
      destruct (kvs_lock _ _ _ _) as [[[] [s' e']]|er p]; cbn; [exact Hx|exact HB|exact Hx].
    - pose proof (kvs_unlock_B (q_key q) (ent_of q) s HB) as Hx.
      destruct (kvs_unlock _ _ _ _) as [[[] [s' e']]|er p]; cbn; [exact Hx|exact HB|exact Hx].
    - destruct (kvs s !! q_key q); exact HB.
    - destruct (kvs s !! q_key q); exact HB.
    - exact HB.
    - destruct (kvs s !! q_key q); [destruct (bool_decide _)|]; exact HB.
    - destruct (kvs s !! q_key q); [destruct (bool_decide _)|]; exact HB.
    - destruct (kvs s !! q_key q); exact HB.
  Qed.

  Lemma txn_node_B v nd id addr cidx s : B s -> post B fst (txn_node idx v nd id addr cidx s).
  Proof.
    intros HB. unfold txn_node.
    assert (Hreply : forall s', B s' ->
       post B fst
         (match (if bool_decide (id = "") then (fun n => (nd, n)) <$> nodes s' !! nd else node_by_id id s') with
          | Some (nm, n) => Ok (s', [RNode nm n]) | None => Ok (s', []) end)).
    { intros s' Hs'. destruct (if bool_decide (id = "") then _ else _) as [[nm n]|]; exact Hs'. }
    destruct v.
    - destruct (if bool_decide (id = "") then _ else _) as [[nm n]|]; exact HB.
    - apply res_bind_fst_B; [apply ensure_node_B; exact HB|exact Hreply].
    - destruct (cas_ok _ _ _); [|exact HB].
      apply res_bind_fst_B; [apply ensure_node_B; exact HB|exact Hreply].
    - apply res_bind_fst_B; [apply delete_node_B; exact HB|intros s' Hs'; exact Hs'].
    - destruct (nodes s !! nd) as [x|]; [|exact HB]. destruct (bool_decide (n_modify x = cidx)); [|exact HB].
      apply res_bind_fst_B; [apply delete_node_B; exact HB|intros s' Hs'; exact Hs'].
  Qed.

  Lemma txn_service_B v nd svc name port cidx s : B s -> post B fst (txn_service idx v nd svc name port cidx s).
  Proof.
    intros HB. unfold txn_service.
    assert (Hreply : forall s', B s' ->
       post B fst (match services s' !! (nd, svc) with
                   | Some x => Ok (s', [RService nd svc x]) | None => Ok (s', []) end)).
    { intros s' Hs'. destruct (services s' !! (nd, svc)); exact Hs'. }
    destruct v.
    - destruct (services s !! (nd, svc)); exact HB.
    - apply res_bind_fst_B; [apply ensure_service_B; exact HB|exact Hreply].
    - destruct (cas_ok _ _ _); [|exact HB].
      apply res_bind_fst_B; [apply ensure_service_B; exact HB|exact Hreply].
    - apply res_bind_fst_B; [apply delete_service_B; exact HB|intros s' Hs'; exact Hs'].
    - destruct (services s !! (nd, svc)) as [x|]; [|exact HB]. destruct (bool_decide (sv_modify x = cidx)); [|exact HB].
      apply res_bind_fst_B; [apply delete_service_B; exact HB|intros s' Hs'; exact Hs'].
  Qed.

  Lemma txn_check_B v c s : B s -> post B fst (txn_check idx v c s).
  Proof.
    intros HB. unfold txn_check.
    assert (Hreply : forall s', B s' ->
       post B fst (match checks s' !! (cr_node c, cr_id c) with
                   | Some x => Ok (s', [RCheck (cr_node c) (cr_id c) x]) | None => Ok (s', []) end)).
    { intros s' Hs'. destruct (checks s' !! _); exact Hs'. }
    destruct v.
    - destruct (checks s !! _); exact HB.
    - apply res_bind_fst_B; [apply ensure_check_p_B; [apply hc_ok_false|exact HB]|exact Hreply].
    - destruct (cas_ok _ _ _); [|exact HB].
      apply res_bind_fst_B; [apply ensure_check_p_B; [apply hc_ok_false|exact HB]|exact Hreply].
    - apply res_bind_fst_B; [apply delete_check_B; exact HB|intros s' Hs'; exact Hs'].
    - destruct (checks s !! _) as [x|]; [|exact HB]. destruct (bool_decide (c_modify x = cr_index c)); [|exact HB].
      apply res_bind_fst_B; [apply delete_check_B; exact HB|intros s' Hs'; exact Hs'].
  Qed.

  Lemma txn_op_B op s : B s -> post B fst (txn_op idx op s).
  Proof.
    intros HB. destruct op; cbn [txn_op].
    - apply txn_kv_B; exact HB.
    - apply txn_node_B; exact HB.
    - apply txn_service_B; exact HB.
    - apply txn_check_B; exact HB.
    - destruct (sessions s !! sid); [|exact HB].
      apply res_bind_fst_B; [apply delete_session_top_B; exact HB|intros s' Hs'; exact Hs'].
  Qed.

  Lemma txn_dispatch_B ops : forall i s, B s -> B (txn_dispatch idx i ops s).1.1.
  Proof.
    induction ops as [|op ops IH]; intros i s HB; cbn; [exact HB|].
    pose proof (txn_op_B op s HB) as Hop.
    destruct (txn_op idx op s) as [[s' r]|e sp]; cbn in Hop.
    - specialize (IH (S i) s' Hop). destruct (txn_dispatch idx (S i) ops s') as [[s'' rs] es]. exact IH.
    - assert (Hsp : B sp) by (destruct e; try exact Hop; contradiction).
      specialize (IH (S i) sp Hsp). destruct (txn_dispatch idx (S i) ops sp) as [[s'' rs] es]. exact IH.
  Qed.

  Lemma of_unit_B (r : result st) s : B s -> post B id r -> B (of_unit r s).1.
  Proof. intros HB Hr. destruct r as [s'|e p]; cbn; [exact Hr|exact HB]. Qed.

  Lemma ensure_registration_B nd id addr skip svc cks : preserves B (ensure_registration idx nd id addr skip svc cks).
  Proof.
    intros s HB. unfold ensure_registration.
    apply (bind_preserves B B).
    { destruct (changes_node _ _ _ _); [|exact HB]. apply ensure_node_B; exact HB. }
    intros s1 Hs1. apply (bind_preserves B B).
    { destruct svc as [[[sid name] port]|]; [|exact Hs1].
      destruct (services s1 !! (nd, sid)) as [x|].
      - destruct (_ && _); [exact Hs1|]. apply ensure_service_B; exact Hs1.
      - apply ensure_service_B; exact Hs1. }
    intros s2 Hs2. apply (rfold_preserves B); [|exact Hs2].
    intros c s' Hs'. cbn. destruct (bool_decide _); [|exact Hs'].
    apply ensure_check_p_B; [apply hc_ok_false|exact Hs'].
  Qed.

  Lemma query_set_B qid sess : preserves B (query_set idx qid sess).
  Proof.
    intros s HB. unfold query_set. destruct (_ || _); [|exact HB]. cbn.
    apply set_index_B. destruct HB as (Hk & Ht & Hs & Hn & Hv & Hc & Hi). bsplit; cbn; assumption.
  Qed.

  Lemma query_delete_B qid s : B s -> B (query_delete idx qid s).
  Proof.
    intros HB. unfold query_delete. destruct (queries s !! qid); [|exact HB].
    apply set_index_B. destruct HB as (Hk & Ht & Hs & Hn & Hv & Hc & Hi). bsplit; cbn; assumption.
  Qed.

  Theorem apply_B c s : B s -> B (apply idx c s).1.
  Proof.
    intros HB. destruct c; cbn.
    - unfold apply_kvs. destruct v; cbn; try exact HB.
      + apply kvs_set_B; exact HB.
      + apply kvs_delete_B; exact HB.
      + pose proof (kvs_delete_cas_B (q_index q) (q_key q) s HB) as Hx.
        destruct (kvs_delete_cas _ _ _ _) as [ok s']. exact Hx.
      + apply kvs_delete_tree_B; exact HB.
      + pose proof (kvs_set_cas_B (q_key q) (ent_of q) s HB) as Hx.
        destruct (kvs_set_cas _ _ _ _) as [[] [s' e']]; cbn; [exact Hx|exact HB].
      + pose proof (kvs_lock_B (q_key q) (ent_of q) s HB) as Hx.
        destruct (kvs_lock _ _ _ _) as [[[] [s' e']]|er p]; cbn; [exact Hx|exact HB|exact HB].
      + pose proof (kvs_unlock_B (q_key q) (ent_of q) s HB) as Hx.
        destruct (kvs_unlock _ _ _ _) as [[[] [s' e']]|er p]; cbn; [exact Hx|exact HB|exact HB].
    - pose proof (session_create_B sid ss s HB) as Hx.
      destruct (session_create idx sid ss s); cbn; [exact Hx|exact HB].
    - apply of_unit_B; [exact HB|]. apply delete_session_top_B; exact HB.
    - apply of_unit_B; [exact HB|]. apply ensure_registration_B; exact HB.
    - destruct (negb (bool_decide (svc = ""))); [|destruct (negb (bool_decide (cid = "")))];
        (apply of_unit_B; [exact HB|]).
      + apply delete_service_B; exact HB.
      + apply delete_check_B; exact HB.
      + apply delete_node_B; exact HB.
    - unfold txn_rw. pose proof (txn_dispatch_B ops 0%nat s HB) as Hx.
      destruct (txn_dispatch idx 0 ops s) as [[s' rs] es]. destruct es; cbn; [exact Hx|exact HB].
    - apply reap_B; exact HB.
    - apply of_unit_B; [exact HB|]. apply query_set_B; exact HB.
    - apply query_delete_B; exact HB.
  Qed.
End Origin.

(* the statement in terms of the indexes themselves *)
Theorem index_from_log_only idx c s n :
  has_idx (apply idx c s).1 n -> n = idx \/ has_idx s n.
Proof.
  intros Hn.
  assert (HB : Bnd (fun m => m = idx \/ has_idx s m) s).
  { apply Bnd_has_idx. intros m Hm. right. exact Hm. }
  pose proof (apply_B (fun m => m = idx \/ has_idx s m) idx (or_introl eq_refl) c s HB) as HB'.
  apply (proj1 (Bnd_has_idx _ _) HB' n Hn).
Qed.

(* over a whole log: every index in the final state is the index of some entry of the log, or was
   in the initial state *)
Theorem run_index_from_log_only log : forall s n,
  has_idx (run log s).1 n -> n ∈ (fst <$> log) \/ has_idx s n.
Proof.
  induction log as [|[idx c] log IH]; intros s n; cbn; [intros H; right; exact H|].
  destruct (apply idx c s) as [s' r] eqn:Ea. specialize (IH s' n).
  destruct (run log s') as [s'' rs]. cbn in *. intros H.
  destruct (IH H) as [Hin|Hs'].
  - left. right. exact Hin.
  - pose proof (index_from_log_only idx c s n) as Hx. rewrite Ea in Hx. cbn in Hx.
    destruct (Hx Hs') as [->|Hs]; [left; left|right; exact Hs].
Qed.
