(* C17 — the other half of pruning: an exported-service list only removes what it has to.
   Every instance of the peer whose service name is still exported (or is the sidecar of an
   exported name) is kept, with its node row and its service-level checks. *)
From Verif Require Import Base.Prelude Peering.Model Peering.Lemmas Peering.Verbs Peering.Frame Peering.Prune
     Peering.Phase1 Peering.Phase2 Peering.Mirror Peering.Snapshot Peering.MirrorTop Peering.SamePeer.
Require Import Coq.Sorting.Permutation.
Local Open Scope string_scope.

Lemma hs_wf_nil p : hs_wf p [].
Proof.
  split.
  - constructor.
  - intros x [].
  - intros x [].
  - intros x y [].
  - intros x y [].
  - intros x y k [].
Qed.

Lemma hs_coh_nil : hs_chk_coh [].
Proof. split; intros x; intros; contradiction. Qed.

(* what has to stay: an instance, the node row under it, its own checks *)
Record kept (p : string) (z : svc) (c : cat) : Prop := {
  k_wf : wf c;
  k_ids : ids_nonempty c p;
  k_svc : In z (svcs c) }.

Section DeleteKeeps.
  Variables (sh : shuffles) (p : string).
  Hypothesis sh_ok : shuffles_ok sh.

  (* handleUpdateService(peer, sn, nil) leaves an instance of another service name alone *)
  Lemma delete_keeps s sn z :
    h_err s = None -> h_err (handle_update_from sh s p sn None) = None ->
    wf (h_cat s) -> ids_nonempty (h_cat s) p ->
    In z (svcs (h_cat s)) -> s_peer z = p -> s_name z <> sn ->
    let s' := handle_update_from sh s p sn None in
    wf (h_cat s') /\ ids_nonempty (h_cat s') p /\ In z (svcs (h_cat s')) /\
    (forall b, In b (nodes (h_cat s)) -> n_peer b = p -> n_name b = s_node z -> In b (nodes (h_cat s'))) /\
    (forall k, In k (chks (h_cat s)) -> c_peer k = p -> c_node k = s_node z -> c_sid k = s_id z -> In k (chks (h_cat s'))).
  Proof.
    intros He He' W [Is Ik] Hz Zp Zn s'. subst s'.
    destruct s as [c0 ops0 e0]. cbn [h_err h_cat] in *. subst e0.
    destruct (check_service_nodes c0 p sn) as [stored|e] eqn:Hcsn.
    2:{ unfold handle_update_from in He'. cbn [h_err h_cat] in He'. rewrite Hcsn in He'. discriminate. }
    rewrite (handle_update_from_unfold sh (HSt c0 ops0 None) p sn None stored eq_refl Hcsn) in *.
    cbn zeta in *. change (new_health_snapshot p []) with (@nil nsnap) in *.
    pose proof (hs_wf_nil p) as Hhs. pose proof hs_coh_nil as Hcoh.
    assert (Hid0 : forall (x : nsnap) (b : node), In x [] -> In b (nodes c0) -> n_peer b = p ->
                     n_id b = n_id (ns_node x) -> n_id (ns_node x) <> "" -> n_name b = n_name (ns_node x)) by (intros x b []).
    assert (Hid1 : forall x x' : nsnap, In x [] -> In x' [] -> n_id (ns_node x') = n_id (ns_node x) ->
                     n_id (ns_node x) <> "" -> n_name (ns_node x') = n_name (ns_node x)) by (intros x x' []).
    assert (Zslot : forall (x : nsnap) (y : ssnap), In x [] -> In y (ns_svcs x) -> svc_key (ss_svc y) <> svc_key z) by (intros x y []).
    set (s1 := fold_left (fun s x => node_block sh stored x s) (sh_nodes sh []) (HSt c0 ops0 None)) in *.
    destruct (phase2_incl sh p [] stored sh_ok s1) as (In1 & In2 & In3 & Wf').
    assert (Hs1 : h_cat s1 = c0).
    { subst s1. destruct sh_ok as (Hn & _). rewrite (perm_nil_eq _ (Hn [])). reflexivity. }
    rewrite Hs1 in *.
    split; [apply Wf'; exact W|].
    split.
    { split.
      - intros y Hy. apply Is. apply In2. exact Hy.
      - intros k Hk. apply Ik. apply In3. exact Hk. }
    split; [eapply (other_svc_kept sh p sn c0 [] stored ops0); eauto|].
    split.
    - intros b Hb Bp Bn. eapply (other_node_kept sh p sn c0 [] stored ops0) with (z := z); eauto; intros x [].
    - intros k Hk Kp Kn Ks. eapply (other_chk_kept sh p sn c0 [] stored ops0) with (z := z); eauto; intros x y k' [].
  Qed.
End DeleteKeeps.

Section ListKeeps.
  Variables (sh : shuffles) (p : string) (names : list string).
  Hypothesis sh_ok : shuffles_ok sh.

  Lemma list_step_sticky s sn : h_err s <> None -> list_step sh p names s sn = s.
  Proof.
    intros H. unfold list_step. destruct (existsb (seqb sn) (exported_set names)); [reflexivity|].
    apply handle_update_from_err. exact H.
  Qed.

  Lemma list_keeps z : forall l s,
    h_err (fold_left (list_step sh p names) l s) = None ->
    wf (h_cat s) -> ids_nonempty (h_cat s) p ->
    In z (svcs (h_cat s)) -> s_peer z = p -> In (s_name z) (exported_set names) ->
    let s' := fold_left (list_step sh p names) l s in
    In z (svcs (h_cat s')) /\
    (forall b, In b (nodes (h_cat s)) -> n_peer b = p -> n_name b = s_node z -> In b (nodes (h_cat s'))) /\
    (forall k, In k (chks (h_cat s)) -> c_peer k = p -> c_node k = s_node z -> c_sid k = s_id z -> In k (chks (h_cat s'))).
  Proof.
    induction l as [|sn l IH]; intros s He W I Hz Zp Zn; cbn [fold_left] in *; [auto|].
    assert (He1 : h_err (list_step sh p names s sn) = None).
    { destruct (h_err (list_step sh p names s sn)) eqn:E; [|reflexivity]. exfalso.
      rewrite (fold_sticky (list_step sh p names)) in He; [congruence | | congruence].
      intros s0 a H0. apply list_step_sticky. exact H0. }
    assert (He0 : h_err s = None).
    { destruct (h_err s) eqn:E; [|reflexivity]. rewrite list_step_sticky in He1; congruence. }
    destruct (existsb (seqb sn) (exported_set names)) eqn:Ex.
    - assert (E : list_step sh p names s sn = s) by (unfold list_step; rewrite Ex; reflexivity).
      rewrite E in *. apply IH; auto.
    - assert (E : list_step sh p names s sn = handle_update_from sh s p sn None)
        by (unfold list_step; rewrite Ex; reflexivity).
      rewrite E in *.
      assert (Hne : s_name z <> sn).
      { intros E'. apply existsb_seqb_notin in Ex. apply Ex. rewrite <- E'. exact Zn. }
      destruct (delete_keeps sh p sh_ok s sn z He0 He1 W I Hz Zp Hne) as (W1 & I1 & Z1 & N1 & K1).
      destruct (IH (handle_update_from sh s p sn None) He W1 I1 Z1 Zp Zn) as (A & B & C).
      split; [exact A|]. split.
      + intros b Hb Bp Bn. apply B; auto.
      + intros k Hk Kp Kn Ks. apply C; auto.
  Qed.

  Theorem exported_list_keeps c z :
    h_err (handle_exported_list sh c p names) = None ->
    wf c -> ids_nonempty c p ->
    In z (svcs c) -> s_peer z = p -> In (s_name z) (exported_set names) ->
    let c' := h_cat (handle_exported_list sh c p names) in
    In z (svcs c') /\
    (forall b, In b (nodes c) -> n_peer b = p -> n_name b = s_node z -> In b (nodes c')) /\
    (forall k, In k (chks c) -> c_peer k = p -> c_node k = s_node z -> c_sid k = s_id z -> In k (chks c')).
  Proof.
    intros He W I Hz Zp Zn. unfold handle_exported_list in *.
    change (fun (s : hst) (sn : string) => if existsb (seqb sn) (exported_set names) then s
                                            else handle_update_from sh s p sn None)
      with (list_step sh p names) in *.
    apply (list_keeps z (sh_names sh (service_list c p)) (HSt c [] None)); auto.
  Qed.
End ListKeeps.

(* ------------------------------------------------------------------ unique keys are an invariant *)

Lemma wf_ensure_node c nd c' : wf c -> ensure_node c nd = Ok c' -> wf c'.
Proof.
  intros W. unfold ensure_node.
  destruct (ensure_node_byid c nd) as [[c1 b]|e] eqn:E1; cbn [bind]; [|discriminate].
  assert (W1 : wf c1).
  { unfold ensure_node_byid in E1. destruct (seqb (n_id nd) ""); [injection E1 as <- _; exact W|].
    destruct (get_node_by_id c (n_peer nd) (n_id nd)) as [ex|].
    - destruct (seqb (n_name ex) (n_name nd)); [injection E1 as <- _; exact W|].
      destruct (similar_name_err c nd false); [discriminate|]. injection E1 as <- _. apply wf_delete_node. exact W.
    - destruct (similar_name_err c nd true); [discriminate|]. injection E1 as <- _. exact W. }
  destruct b as [ex|].
  - destruct (node_eqb nd ex); intros E; injection E as <-; [exact W1 | apply wf_put_node; exact W1].
  - destruct (get_node c1 (n_peer nd) (n_name nd)) as [ex|].
    + destruct (node_eqb nd ex); intros E; injection E as <-; [exact W1 | apply wf_put_node; exact W1].
    + intros E; injection E as <-. apply wf_put_node; exact W1.
Qed.

Lemma wf_register c r c' : wf c -> register c r = Ok c' -> wf c'.
Proof.
  intros W H. apply register_inv in H as (_ & c1 & c2 & E1 & E2 & E3).
  assert (W1 : wf c1).
  { unfold reg_node in E1. destruct (get_node c (n_peer (r_node r)) (n_name (r_node r))) as [ex|].
    - destruct (node_eqb ex (r_node r)); [injection E1 as <-; exact W | eapply wf_ensure_node; eauto].
    - eapply wf_ensure_node; eauto. }
  assert (W2 : wf c2).
  { unfold reg_svc in E2. destruct (r_svc r) as [s0|]; [|injection E2 as <-; exact W1].
    destruct (get_svc c1 _ _ _) as [ex|].
    - destruct (svc_is_same ex _); [injection E2 as <-; exact W1|].
      apply ensure_service_spec in E2; [tauto | exact W1].
    - apply ensure_service_spec in E2; [tauto | exact W1]. }
  clear E2. revert c2 W2 E3. induction (r_chks r) as [|k ks IH]; intros c2 W2 E3; cbn [ensure_checks] in E3.
  - injection E3 as <-. exact W2.
  - destruct (negb (seqb (c_node k) (n_name (r_node r)))); [discriminate|].
    destruct (ensure_check c2 k) as [c3|e] eqn:E; cbn [bind] in E3; [|discriminate].
    destruct (ensure_check_spec _ _ _ W2 E) as (k2 & _ & _ & W3 & _). eapply IH; eauto.
Qed.

(* the primary keys stay unique through every event, whatever it contains and whether or not
   the handler fails: the single-event theorems apply along any history *)
Theorem handle_wf sh c e : shuffles_ok sh -> wf c -> wf (h_cat (handle sh c e)).
Proof.
  intros Hsh W. apply (handle_inv sh e (fun s => wf (h_cat s)) (fun _ => True)); auto.
  - intros r s _ _ Ws. unfold do_reg. destruct (h_err s); [exact Ws|].
    destruct (register (h_cat s) r) as [c'|err] eqn:E; cbn [h_cat]; [eapply wf_register; eauto | exact Ws].
  - intros d s _ Ws. unfold do_dereg. destruct (h_err s); [exact Ws|]. cbn [h_cat]. apply wf_deregister. exact Ws.
  - destruct e; auto.
Qed.

Theorem run_wf c es c' : run c es c' -> wf c -> wf c'.
Proof.
  induction 1 as [c|sh c e es c' Hsh Hr IH]; intros W; [exact W|]. apply IH. apply handle_wf; assumption.
Qed.

(* ------------------------------------------------------------------ nodes left without services *)

(* "Delete any nodes that do not have any other services registered on them": after an update
   that returned no error, a node on which the service had an instance and that the snapshot
   no longer contains is gone, unless some service of the peer is still registered on it. *)
Definition node_settled (c : cat) (p n : string) : Prop :=
  get_node c p n = None \/ node_has_services c p n = true.

Lemma get_node_delete_node_same c p n : get_node (delete_node c p n) p n = None.
Proof.
  unfold delete_node. destruct (get_node c p n) eqn:G; [|exact G].
  unfold get_node. cbn [nodes set_nodes set_svcs set_chks]. apply tget_none.
  intros x Hx. apply in_tdel in Hx. tauto.
Qed.

Lemma get_node_none_delete_node c p n p' n' : get_node c p n = None -> get_node (delete_node c p' n') p n = None.
Proof.
  unfold get_node. rewrite !tget_none. intros H x Hx. apply H. apply delete_node_nodes_incl in Hx. exact Hx.
Qed.

Lemma settled_delete_node c p n n' :
  node_settled c p n -> node_has_services c p n' = false -> node_settled (delete_node c p n') p n.
Proof.
  intros [H|H] Hn'.
  - left. apply get_node_none_delete_node. exact H.
  - destruct (string_dec n' n) as [->|Hne]; [congruence|].
    right. unfold node_has_services in *. rewrite get_node_delete_node_other by congruence.
    destruct (get_node c p n); [|discriminate].
    apply existsb_exists in H as (y & Hy & E). apply existsb_exists. exists y. split; [|exact E].
    apply andb_true_iff in E as [E1 E2]. apply seqb_eq in E1, E2.
    unfold delete_node. destruct (get_node c p n'); [|exact Hy].
    cbn [svcs set_svcs set_chks set_nodes]. apply filter_In. split; [exact Hy|].
    apply negb_true_iff. rewrite E1, E2, seqb_refl. cbn. apply seqb_neq. congruence.
Qed.

Lemma unused_block_settled p s n n' : node_settled (h_cat s) p n -> node_settled (h_cat (unused_block p s n')) p n.
Proof.
  intros H. unfold unused_block. destruct (h_err s); [exact H|].
  destruct (node_has_services (h_cat s) p n') eqn:E; [exact H|].
  unfold do_dereg. destruct (h_err s); [exact H|]. cbn [h_cat deregister]. apply settled_delete_node; assumption.
Qed.

Lemma unused_loop_settled p : forall l s n,
  h_err s = None -> In n l -> node_settled (h_cat (fold_left (unused_block p) l s)) p n.
Proof.
  induction l as [|n0 l IH]; intros s n He Hn; [contradiction|]. cbn [fold_left].
  assert (He1 : h_err (unused_block p s n0) = None).
  { unfold unused_block. rewrite He. destruct (node_has_services (h_cat s) p n0); [exact He|]. apply do_dereg_ok. exact He. }
  assert (Hkeep : forall l' s', node_settled (h_cat s') p n -> node_settled (h_cat (fold_left (unused_block p) l' s')) p n).
  { induction l' as [|m l' IHl]; intros s' H; cbn [fold_left]; [exact H|]. apply IHl. apply unused_block_settled. exact H. }
  destruct Hn as [->|Hn]; [|apply IH; assumption].
  apply Hkeep. unfold unused_block. rewrite He.
  destruct (node_has_services (h_cat s) p n) eqn:E; [right; exact E|].
  left. unfold do_dereg. rewrite He. cbn [h_cat deregister]. apply get_node_delete_node_same.
Qed.

Lemma in_add_str_mono x y l : In x l -> In x (add_str y l).
Proof. unfold add_str. destruct (existsb (seqb y) l); [auto|]. intros H. apply in_app_iff. left. exact H. Qed.
Lemma in_add_str_new y l : In y (add_str y l).
Proof.
  unfold add_str. destruct (existsb (seqb y) l) eqn:E; [apply existsb_seqb_in; exact E|].
  apply in_app_iff. right. left. reflexivity.
Qed.

Lemma stored_block_unused_mono p hs a i n : In n (p2_unused a) -> In n (p2_unused (stored_block p hs a i)).
Proof.
  intros H. unfold stored_block. destruct (find_ns hs (n_name (i_node i))) as [x|]; [|cbn; apply in_add_str_mono; exact H].
  destruct (find_ss x (s_id (i_svc i))) as [y|]; [|exact H].
  generalize dependent a. induction (i_chks i) as [|k ks IH]; intros a H; cbn [fold_left]; [exact H|].
  apply IH. destruct (has_chk y (c_id k)); [exact H|]. destruct (seqb (c_sid k) ""); exact H.
Qed.

Lemma stored_blocks_unused p hs : forall l a i,
  In i l -> find_ns hs (n_name (i_node i)) = None ->
  In (n_name (i_node i)) (p2_unused (fold_left (stored_block p hs) l a)).
Proof.
  induction l as [|j l IH]; intros a i Hi Hf; [contradiction|]. cbn [fold_left].
  destruct Hi as [->|Hi]; [|apply IH; assumption].
  assert (Hmono : forall l' a', In (n_name (i_node i)) (p2_unused a') ->
                                In (n_name (i_node i)) (p2_unused (fold_left (stored_block p hs) l' a'))).
  { induction l' as [|m l' IHl]; intros a' H; cbn [fold_left]; [exact H|]. apply IHl, stored_block_unused_mono, H. }
  apply Hmono. unfold stored_block. rewrite Hf. cbn. apply in_add_str_new.
Qed.

Theorem orphan_nodes_removed sh p sn c0 export :
  shuffles_ok sh ->
  let s := handle_update_service sh c0 p sn (Some export) in
  h_err s = None ->
  forall z, In z (svcs c0) -> s_peer z = p -> s_name z = sn ->
            find_ns (new_health_snapshot p export) (s_node z) = None ->
            node_settled (h_cat s) p (s_node z).
Proof.
  intros Hsh s He z Hz Zp Zn Hf. subst s. unfold handle_update_service in *.
  destruct (check_service_nodes c0 p sn) as [stored|e] eqn:Hcsn.
  2:{ unfold handle_update_from in He. cbn [h_err h_cat] in He. rewrite Hcsn in He. discriminate. }
  rewrite (handle_update_from_unfold sh (HSt c0 [] None) p sn (Some export) stored eq_refl Hcsn) in *.
  cbn zeta in *. set (hs := new_health_snapshot p export) in *.
  destruct (stored_complete c0 p sn stored Hcsn z Hz Zp Zn) as (i & Hi & Ei).
  destruct (stored_all_ok c0 p sn stored Hcsn i Hi) as [_ _ _ (_ & _ & Dn) _].
  unfold phase2 in *.
  set (s1 := fold_left (fun s x => node_block sh stored x s) (sh_nodes sh hs) (HSt c0 [] None)) in *.
  set (a := fold_left (stored_block p hs) stored (P2 s1 [] [])) in *.
  set (s2 := fold_left (fun s ck => do_dereg (DChk p (snd ck) (fst ck)) s) (sh_dnc sh (p2_dnc a)) (p2_st a)) in *.
  assert (He2 : h_err s2 = None).
  { destruct (h_err s2) eqn:E; [|reflexivity]. exfalso.
    rewrite (fold_sticky (unused_block p)) in He; [congruence| |congruence].
    intros s0 n0 H0. unfold unused_block. destruct (h_err s0); [reflexivity|contradiction]. }
  apply unused_loop_settled; [exact He2|].
  destruct Hsh as (_ & _ & _ & _ & Hu & _). apply (Permutation_in _ (Permutation_sym (Hu _))).
  rewrite <- Ei, <- Dn. subst a. apply stored_blocks_unused; [exact Hi|]. rewrite Dn, Ei. exact Hf.
Qed.
