(* C17 — other services of the same peer.  What an update of service sn shares with them, by
   construction of the catalog keys, is (1) the node row of every node in the snapshot and
   (2) the node-level checks (ServiceID "") of nodes that host an instance of sn.  Everything
   else of the peer is kept: instances of other services (unless the snapshot sends an instance
   under the same node and service id), their service-level checks (unless the snapshot sends
   a check under the same node and check id), their node rows when the node is not in the
   snapshot, and every row on nodes that have nothing to do with sn. *)
From Verif Require Import Base.Prelude Peering.Model Peering.Lemmas Peering.Verbs Peering.Prune
     Peering.Phase1 Peering.Phase2 Peering.Mirror Peering.Snapshot Peering.MirrorTop.
Require Import Coq.Sorting.Permutation.
Local Open Scope string_scope.

Lemma chk_survives_dnode c p n k z :
  In k (chks c) -> node_has_services c p n = false ->
  In z (svcs c) -> s_peer z = p -> s_node z = n ->
  In k (chks (deregister c (DNode p n))).
Proof.
  intros Hk Hn Hz Zp Zn. cbn [deregister]. unfold delete_node. unfold node_has_services in Hn.
  destruct (get_node c p n); [|exact Hk]. exfalso.
  rewrite existsb_false_iff in Hn. specialize (Hn z Hz). rewrite Zp, Zn, !seqb_refl in Hn. discriminate.
Qed.

Lemma node_survives_dnode c p n b z :
  In b (nodes c) -> node_has_services c p n = false ->
  In z (svcs c) -> s_peer z = p -> s_node z = n ->
  In b (nodes (deregister c (DNode p n))).
Proof.
  intros Hb Hn Hz Zp Zn. cbn [deregister]. unfold delete_node. unfold node_has_services in Hn.
  destruct (get_node c p n); [|exact Hb]. exfalso.
  rewrite existsb_false_iff in Hn. specialize (Hn z Hz). rewrite Zp, Zn, !seqb_refl in Hn. discriminate.
Qed.

Section SamePeer.
  Variables (sh : shuffles) (p sn : string) (c0 : cat) (hs : hsnap) (stored : list inst).
  (* the calls already logged when this update starts (the exported-service-list handler runs
     several deletions in a row) *)
  Variable ops0 : list op.
  Hypothesis sh_ok : shuffles_ok sh.
  Hypothesis wf0 : wf c0.
  Hypothesis Hcsn : check_service_nodes c0 p sn = Ok stored.
  Hypothesis Hhs : hs_wf p hs.
  Hypothesis Hcoh : hs_chk_coh hs.
  Hypothesis Hid0 : forall x b, In x hs -> In b (nodes c0) -> n_peer b = p ->
                                n_id b = n_id (ns_node x) -> n_id (ns_node x) <> "" -> n_name b = n_name (ns_node x).
  Hypothesis Hid1 : forall x x', In x hs -> In x' hs -> n_id (ns_node x') = n_id (ns_node x) ->
                                 n_id (ns_node x) <> "" -> n_name (ns_node x') = n_name (ns_node x).
  Hypothesis Hids_s : forall z, In z (svcs c0) -> s_peer z = p -> s_id z <> "".
  Hypothesis Hids_k : forall k, In k (chks c0) -> c_peer k = p -> c_id k <> "".

  Let s0 := HSt c0 ops0 None.
  Let s1 := fold_left (fun s x => node_block sh stored x s) (sh_nodes sh hs) s0.
  Let s' := phase2 sh p hs stored s1.
  Hypothesis Herr : h_err s' = None.

  Let Hst := stored_all_ok c0 p sn stored Hcsn.

  Lemma sp_err1 : h_err s1 = None.
  Proof.
    destruct (h_err s1) eqn:E; [|reflexivity]. exfalso.
    assert (H : h_err s' = h_err s1).
    { unfold s'. apply (phase2_inv sh p hs stored sh_ok (fun s => h_err s = h_err s1)); [| | |reflexivity];
        intros; unfold do_dereg; destruct (h_err s) eqn:Es; cbn [h_err]; congruence. }
    congruence.
  Qed.

  Lemma sp_I1 : inv1 c0 (fun d => In d hs) (h_cat s1).
  Proof. apply (phase1_spec sh p sn c0 stored hs); auto. exact sp_err1. Qed.

  Lemma sp_sid i : In i stored -> i_sid i <> "" /\ i_n i = s_node (i_svc i) /\ s_peer (i_svc i) = p
                                  /\ s_name (i_svc i) = sn /\ In (i_svc i) (svcs c0).
  Proof.
    intros Hi. destruct (Hst i Hi) as [A B N (_ & _ & D) _]. split; [apply Hids_s; auto|]. auto.
  Qed.

  Lemma sp_cid i k : In i stored -> In k (i_chks i) ->
    c_id k <> "" /\ In k (chks c0) /\ c_peer k = p /\ c_node k = i_n i /\ (c_sid k = "" \/ c_sid k = i_sid i).
  Proof.
    intros Hi Hk. destruct (Hst i Hi) as [_ _ _ (_ & _ & D) K]. apply K in Hk as (K1 & K2 & K3 & K4).
    split; [apply Hids_k; auto|]. repeat split; auto. unfold i_n. congruence.
  Qed.

  (* --- an instance of another service --- *)
  Section Other.
    Variable z : svc.
    Hypothesis Hz : In z (svcs c0).
    Hypothesis Zp : s_peer z = p.
    Hypothesis Zn : s_name z <> sn.
    (* the snapshot does not send an instance for the same node and service id *)
    Hypothesis Zslot : forall x y, In x hs -> In y (ns_svcs x) -> svc_key (ss_svc y) <> svc_key z.

    Lemma z_not_stored i : In i stored -> svc_key z <> (p, i_n i, i_sid i).
    Proof.
      intros Hi E. destruct (sp_sid i Hi) as (_ & En & Ep & Ename & Hin).
      assert (z = i_svc i); [|subst z; contradiction].
      apply (nodup_key_inj svc_key (svcs c0)); [apply wf0 | exact Hz | exact Hin |].
      rewrite E. unfold svc_key, i_sid. rewrite Ep, <- En. reflexivity.
    Qed.

    Lemma other_svc_phase1 : In z (svcs (h_cat s1)).
    Proof.
      apply (ev_lo _ _ _ _ _ _ (i1_s _ _ _ sp_I1)); [exact Hz|].
      intros b (x & y & Hx & Hy & ->) E. apply (Zslot x y Hx Hy). symmetry. exact E.
    Qed.

    Lemma other_svc_kept : In z (svcs (h_cat s')).
    Proof.
      unfold s'. apply (phase2_inv sh p hs stored sh_ok (fun s => In z (svcs (h_cat s)))); [| | |exact other_svc_phase1].
      - intros i s Hi _ H. unfold do_dereg. destruct (h_err s); [exact H|]. cbn [h_cat].
        apply svc_survives; [exact H|]. split; [apply (sp_sid i Hi) | apply z_not_stored; exact Hi].
      - intros i k s Hi (Hk & _) H. unfold do_dereg. destruct (h_err s); [exact H|]. cbn [h_cat].
        apply svc_survives; [exact H|]. apply (sp_cid i k Hi Hk).
      - intros i s Hi _ _ Hn H. unfold do_dereg. destruct (h_err s); [exact H|]. cbn [h_cat].
        apply svc_survives; [exact H | exact Hn].
    Qed.

    (* its node row, when the snapshot does not contain that node *)
    Lemma other_node_kept b :
      In b (nodes c0) -> n_peer b = p -> n_name b = s_node z ->
      (forall x, In x hs -> n_name (ns_node x) <> n_name b) ->
      In b (nodes (h_cat s')).
    Proof.
      intros Hb Bp Bn Hnot.
      assert (Hb1 : In b (nodes (h_cat s1))).
      { apply (ev_lo _ _ _ _ _ _ (i1_n _ _ _ sp_I1)); [exact Hb|].
        intros b' (x & Hx & ->) E. apply (Hnot x Hx). unfold node_key in E. injection E as _ E. congruence. }
      assert (G : In z (svcs (h_cat s')) /\ In b (nodes (h_cat s'))); [|apply G].
      unfold s'. apply (phase2_inv sh p hs stored sh_ok (fun s => In z (svcs (h_cat s)) /\ In b (nodes (h_cat s))));
        [| | |split; [exact other_svc_phase1|exact Hb1]].
      - intros i s Hi _ [H1 H2]. unfold do_dereg. destruct (h_err s); [split; assumption|]. cbn [h_cat]. split.
        + apply svc_survives; [exact H1|]. split; [apply (sp_sid i Hi) | apply z_not_stored; exact Hi].
        + apply node_survives; [exact H2|]. apply (sp_sid i Hi).
      - intros i k s Hi (Hk & _) [H1 H2]. unfold do_dereg. destruct (h_err s); [split; assumption|]. cbn [h_cat]. split.
        + apply svc_survives; [exact H1|]. apply (sp_cid i k Hi Hk).
        + apply node_survives; [exact H2|]. apply (sp_cid i k Hi Hk).
      - intros i s Hi _ _ Hn [H1 H2]. unfold do_dereg. destruct (h_err s); [split; assumption|]. cbn [h_cat]. split.
        + apply svc_survives; [exact H1 | exact Hn].
        + destruct (string_dec (i_n i) (n_name b)) as [E|E].
          * apply (node_survives_dnode _ _ _ b z); auto. congruence.
          * apply node_survives; [exact H2|]. intros K. unfold node_key in K. injection K as _ K. congruence.
    Qed.

    (* its service-level checks, unless the snapshot sends a check with that id on that node *)
    Lemma other_chk_kept k :
      In k (chks c0) -> c_peer k = p -> c_node k = s_node z -> c_sid k = s_id z ->
      (forall x y k', In x hs -> In y (ns_svcs x) -> In k' (ss_chks y) -> chk_key k' <> chk_key k) ->
      In k (chks (h_cat s')).
    Proof.
      intros Hk Kp Kn Ks Hnot.
      assert (Hk1 : In k (chks (h_cat s1))).
      { apply (ev_lo _ _ _ _ _ _ (i1_k _ _ _ sp_I1)); [exact Hk|].
        intros b' (x & y & Hx & Hy & Hb') E. apply (Hnot x y b' Hx Hy Hb'). symmetry. exact E. }
      assert (Zsid : s_id z <> "") by (apply Hids_s; auto).
      assert (G : In z (svcs (h_cat s')) /\ In k (chks (h_cat s'))); [|apply G].
      unfold s'. apply (phase2_inv sh p hs stored sh_ok (fun s => In z (svcs (h_cat s)) /\ In k (chks (h_cat s))));
        [| | |split; [exact other_svc_phase1|exact Hk1]].
      - intros i s Hi _ [H1 H2]. unfold do_dereg. destruct (h_err s); [split; assumption|]. cbn [h_cat]. split.
        + apply svc_survives; [exact H1|]. split; [apply (sp_sid i Hi) | apply z_not_stored; exact Hi].
        + apply chk_survives; [exact H2|]. split; [apply (sp_sid i Hi)|].
          intros (_ & E2 & E3). apply (z_not_stored i Hi). unfold svc_key. congruence.
      - intros i k0 s Hi (Hk0 & _) [H1 H2]. unfold do_dereg. destruct (h_err s); [split; assumption|]. cbn [h_cat].
        destruct (sp_cid i k0 Hi Hk0) as (Hne & K0 & K0p & K0n & K0s). split.
        + apply svc_survives; [exact H1 | exact Hne].
        + apply chk_survives; [exact H2|]. split; [exact Hne|]. intros E.
          assert (k = k0).
          { apply (nodup_key_inj chk_key (chks c0)); [apply wf0 | exact Hk | exact K0 |].
            rewrite E. unfold chk_key. rewrite K0p. reflexivity. }
          subst k0. apply (z_not_stored i Hi). unfold svc_key.
          destruct K0s as [K0s|K0s]; [congruence|]. congruence.
      - intros i s Hi _ _ Hn [H1 H2]. unfold do_dereg. destruct (h_err s); [split; assumption|]. cbn [h_cat]. split.
        + apply svc_survives; [exact H1 | exact Hn].
        + destruct (string_dec (i_n i) (c_node k)) as [E|E].
          * apply (chk_survives_dnode _ _ _ k z); auto. congruence.
          * apply chk_survives; [exact H2|]. intros (_ & K). congruence.
    Qed.
  End Other.

  (* --- a node that has nothing to do with sn: not in the snapshot, hosting no instance of sn --- *)
  Section Uninvolved.
    Variable n : string.
    Hypothesis Nsnap : forall x, In x hs -> n_name (ns_node x) <> n.
    Hypothesis Nstored : forall y, In y (svcs c0) -> s_peer y = p -> s_node y = n -> s_name y <> sn.

    Lemma stored_elsewhere i : In i stored -> i_n i <> n.
    Proof.
      intros Hi E. destruct (sp_sid i Hi) as (_ & En & Ep & Ename & Hin). apply (Nstored (i_svc i)); auto. congruence.
    Qed.

    Lemma uninvolved_kept :
      (forall b, In b (nodes c0) -> n_peer b = p -> n_name b = n -> In b (nodes (h_cat s'))) /\
      (forall y, In y (svcs c0) -> s_peer y = p -> s_node y = n -> In y (svcs (h_cat s'))) /\
      (forall k, In k (chks c0) -> c_peer k = p -> c_node k = n -> In k (chks (h_cat s'))).
    Proof.
      split; [|split].
      - intros b Hb Bp Bn.
        assert (Hb1 : In b (nodes (h_cat s1))).
        { apply (ev_lo _ _ _ _ _ _ (i1_n _ _ _ sp_I1)); [exact Hb|].
          intros b' (x & Hx & ->) E. apply (Nsnap x Hx). unfold node_key in E. injection E as _ E. congruence. }
        unfold s'. apply (phase2_inv sh p hs stored sh_ok (fun s => In b (nodes (h_cat s)))); [| | |exact Hb1].
        + intros i s Hi _ H. unfold do_dereg. destruct (h_err s); [exact H|]. apply node_survives; [exact H|apply (sp_sid i Hi)].
        + intros i k s Hi (Hk & _) H. unfold do_dereg. destruct (h_err s); [exact H|]. apply node_survives; [exact H|apply (sp_cid i k Hi Hk)].
        + intros i s Hi _ _ _ H. unfold do_dereg. destruct (h_err s); [exact H|]. apply node_survives; [exact H|].
          intros K. unfold node_key in K. injection K as _ K. apply (stored_elsewhere i Hi). congruence.
      - intros y Hy Yp Yn.
        assert (Hy1 : In y (svcs (h_cat s1))).
        { apply (ev_lo _ _ _ _ _ _ (i1_s _ _ _ sp_I1)); [exact Hy|].
          intros b' (x & y' & Hx & Hy' & ->) E. apply (Nsnap x Hx).
          destruct (hw_svc p hs Hhs x y' Hx Hy') as [_ A]. unfold svc_key in E. injection E as _ E _. congruence. }
        unfold s'. apply (phase2_inv sh p hs stored sh_ok (fun s => In y (svcs (h_cat s)))); [| | |exact Hy1].
        + intros i s Hi _ H. unfold do_dereg. destruct (h_err s); [exact H|]. apply svc_survives; [exact H|].
          split; [apply (sp_sid i Hi)|]. intros K. unfold svc_key in K. injection K as _ K _. apply (stored_elsewhere i Hi). congruence.
        + intros i k s Hi (Hk & _) H. unfold do_dereg. destruct (h_err s); [exact H|]. apply svc_survives; [exact H|apply (sp_cid i k Hi Hk)].
        + intros i s Hi _ _ Hn H. unfold do_dereg. destruct (h_err s); [exact H|]. apply svc_survives; [exact H|exact Hn].
      - intros k Hk Kp Kn.
        assert (Hk1 : In k (chks (h_cat s1))).
        { apply (ev_lo _ _ _ _ _ _ (i1_k _ _ _ sp_I1)); [exact Hk|].
          intros b' (x & y' & Hx & Hy' & Hb') E. apply (Nsnap x Hx).
          rewrite <- (hc_node hs Hcoh x y' b' Hx Hy' Hb'). unfold chk_key in E. injection E as _ E _. congruence. }
        unfold s'. apply (phase2_inv sh p hs stored sh_ok (fun s => In k (chks (h_cat s)))); [| | |exact Hk1].
        + intros i s Hi _ H. unfold do_dereg. destruct (h_err s); [exact H|]. apply chk_survives; [exact H|].
          split; [apply (sp_sid i Hi)|]. intros (_ & K & _). apply (stored_elsewhere i Hi). congruence.
        + intros i k0 s Hi (Hk0 & _) H. unfold do_dereg. destruct (h_err s); [exact H|]. apply chk_survives; [exact H|].
          destruct (sp_cid i k0 Hi Hk0) as (Hne & _ & _ & K0n & _). split; [exact Hne|].
          intros K. unfold chk_key in K. injection K as _ K _. apply (stored_elsewhere i Hi). congruence.
        + intros i s Hi _ _ _ H. unfold do_dereg. destruct (h_err s); [exact H|]. apply chk_survives; [exact H|].
          intros (_ & K). apply (stored_elsewhere i Hi). congruence.
    Qed.
  End Uninvolved.
End SamePeer.

(* ------------------------------------------------------------------ on the received list *)

Section SamePeerTop.
  Variables (sh : shuffles) (p sn : string) (c0 : cat) (export : list inst).
  Let snap := map (inst_set_peer p) export.
  Let hs := new_health_snapshot p export.
  Hypothesis sh_ok : shuffles_ok sh.
  Hypothesis wf0 : wf c0.
  Hypothesis C : snap_coh p sn snap.
  Hypothesis H1 : ids_keep_names c0 p snap.
  Hypothesis H4 : ids_nonempty c0 p.

  Let R : rep snap hs := nhs_rep p sn export C.

  Lemma sp_some_svc x : In x hs -> exists y, In y (ns_svcs x).
  Proof.
    intros Hx. pose proof (rp_ne _ _ R x Hx) as Hne. destruct (ns_svcs x) as [|y ys]; [contradiction|].
    exists y. left. reflexivity.
  Qed.

  Lemma sp_Hid0 : forall x b, In x hs -> In b (nodes c0) -> n_peer b = p ->
                              n_id b = n_id (ns_node x) -> n_id (ns_node x) <> "" -> n_name b = n_name (ns_node x).
  Proof.
    intros x b Hx Hb Hp Hi Hne. destruct (sp_some_svc x Hx) as (y & Hy).
    destruct (rp_in _ _ R x y Hx Hy) as (i & Hin & E1 & _). rewrite E1 in *. apply (H1 i b); auto.
  Qed.

  Lemma sp_Hid1 : forall x x', In x hs -> In x' hs -> n_id (ns_node x') = n_id (ns_node x) ->
                               n_id (ns_node x) <> "" -> n_name (ns_node x') = n_name (ns_node x).
  Proof.
    intros x x' Hx Hx' Hi Hne. destruct (sp_some_svc x Hx) as (y & Hy). destruct (sp_some_svc x' Hx') as (y' & Hy').
    destruct (rp_in _ _ R x y Hx Hy) as (i & Hin & E1 & _). destruct (rp_in _ _ R x' y' Hx' Hy') as (j & Hjn & F1 & _).
    rewrite E1, F1 in *. apply (sc_ids _ _ _ C i j); auto.
  Qed.

  Theorem same_peer_top :
    let s := handle_update_service sh c0 p sn (Some export) in
    h_err s = None ->
    forall z, In z (svcs c0) -> s_peer z = p -> s_name z <> sn ->
              (forall i, In i snap -> svc_key (i_svc i) <> svc_key z) ->
      In z (svcs (h_cat s)) /\
      (forall b, In b (nodes c0) -> n_peer b = p -> n_name b = s_node z ->
                 (forall i, In i snap -> n_name (i_node i) <> n_name b) -> In b (nodes (h_cat s))) /\
      (forall k, In k (chks c0) -> c_peer k = p -> c_node k = s_node z -> c_sid k = s_id z ->
                 (forall i k', In i snap -> In k' (i_chks i) -> chk_key k' <> chk_key k) -> In k (chks (h_cat s))).
  Proof.
    intros s He z Hz Zp Zn Zslot. subst s. unfold handle_update_service in *.
    destruct (check_service_nodes c0 p sn) as [stored|e] eqn:Hcsn.
    2:{ unfold handle_update_from in He. cbn [h_err h_cat] in He. rewrite Hcsn in He. discriminate. }
    rewrite (handle_update_from_unfold sh (HSt c0 [] None) p sn (Some export) stored eq_refl Hcsn) in *.
    cbn zeta in *. fold hs in He |- *.
    pose proof (top_hs_wf p sn export C) as Hhs. pose proof (top_coh p sn export C) as Hcoh.
    destruct H4 as [Hids_s Hids_k].
    assert (Zslot' : forall x y, In x hs -> In y (ns_svcs x) -> svc_key (ss_svc y) <> svc_key z).
    { intros x y Hx Hy. destruct (rp_in _ _ R x y Hx Hy) as (i & Hi & _ & E2 & _). rewrite E2. apply Zslot. exact Hi. }
    split; [|split].
    - eapply (other_svc_kept sh p sn c0 hs stored []); eauto using sp_Hid0, sp_Hid1.
    - intros b Hb Bp Bn Hnot.
      eapply (other_node_kept sh p sn c0 hs stored []) with (z := z); eauto using sp_Hid0, sp_Hid1.
      intros x Hx. destruct (sp_some_svc x Hx) as (y & Hy). destruct (rp_in _ _ R x y Hx Hy) as (i & Hi & E1 & _).
      rewrite E1. apply Hnot. exact Hi.
    - intros k Hk Kp Kn Ks Hnot.
      eapply (other_chk_kept sh p sn c0 hs stored []) with (z := z); eauto using sp_Hid0, sp_Hid1.
      intros x y k' Hx Hy Hk'. destruct (rp_in _ _ R x y Hx Hy) as (i & Hi & _ & _ & E3). rewrite E3 in Hk'.
      apply (Hnot i k' Hi Hk').
  Qed.

  Theorem uninvolved_top :
    let s := handle_update_service sh c0 p sn (Some export) in
    h_err s = None ->
    forall n, (forall i, In i snap -> n_name (i_node i) <> n) ->
              (forall y, In y (svcs c0) -> s_peer y = p -> s_node y = n -> s_name y <> sn) ->
      (forall b, In b (nodes c0) -> n_peer b = p -> n_name b = n -> In b (nodes (h_cat s))) /\
      (forall y, In y (svcs c0) -> s_peer y = p -> s_node y = n -> In y (svcs (h_cat s))) /\
      (forall k, In k (chks c0) -> c_peer k = p -> c_node k = n -> In k (chks (h_cat s))).
  Proof.
    intros s He n Nsnap Nstored. subst s. unfold handle_update_service in *.
    destruct (check_service_nodes c0 p sn) as [stored|e] eqn:Hcsn.
    2:{ unfold handle_update_from in He. cbn [h_err h_cat] in He. rewrite Hcsn in He. discriminate. }
    rewrite (handle_update_from_unfold sh (HSt c0 [] None) p sn (Some export) stored eq_refl Hcsn) in *.
    cbn zeta in *. fold hs in He |- *.
    pose proof (top_hs_wf p sn export C) as Hhs. pose proof (top_coh p sn export C) as Hcoh.
    destruct H4 as [Hids_s Hids_k].
    eapply (uninvolved_kept sh p sn c0 hs stored []); eauto using sp_Hid0, sp_Hid1.
    intros x Hx. destruct (sp_some_svc x Hx) as (y & Hy). destruct (rp_in _ _ R x y Hx Hy) as (i & Hi & E1 & _).
    rewrite E1. apply Nsnap. exact Hi.
  Qed.
End SamePeerTop.
