(* C17 — mirror, stated on the received list of instances. *)
From Verif Require Import Base.Prelude Peering.Model Peering.Lemmas Peering.Verbs Peering.Prune
     Peering.Phase1 Peering.Phase2 Peering.Mirror Peering.Snapshot.
Require Import Coq.Sorting.Permutation.
Local Open Scope string_scope.

(* the rows of (peer p, service sn) in c are exactly the received instances [snap]:
   node rows and service rows are the received ones; every received check is stored with the
   same node, id, service id, status and content (ServiceName / ServiceTags are the store's
   own copies of the service row); nothing else is stored for the service or attached to its
   instances.  With unique keys (wf) this determines Store.CheckServiceNodes(sn, p). *)
Record mirrors (c : cat) (p sn : string) (snap : list inst) : Prop := {
  mi_wf : wf c;
  mi_in : forall i, In i snap ->
                    In (i_node i) (nodes c) /\ In (i_svc i) (svcs c) /\
                    forall k, In k (i_chks i) -> exists r, In r (chks c) /\ img_chk k r;
  mi_svcs : forall z, In z (svcs c) -> s_peer z = p -> s_name z = sn -> exists i, In i snap /\ i_svc i = z;
  mi_chks : forall i r, In i snap -> In r (chks c) -> c_peer r = p -> c_node r = n_name (i_node i) ->
                        (c_sid r = "" \/ c_sid r = s_id (i_svc i)) ->
                        exists k, In k (i_chks i) /\ img_chk k r }.

(* --- the three hypotheses about the prior imported state --- *)

(* no stored node of the peer holds the ID of a received node under another name *)
Definition ids_keep_names (c0 : cat) (p : string) (snap : list inst) : Prop :=
  forall i b, In i snap -> In b (nodes c0) -> n_peer b = p ->
              n_id b = n_id (i_node i) -> n_id (i_node i) <> "" -> n_name b = n_name (i_node i).

(* a check id that is both stored and received on a node has the same owner in both *)
Definition check_ids_keep_owner (c0 : cat) (p : string) (snap : list inst) : Prop :=
  forall k0 i k, In k0 (chks c0) -> c_peer k0 = p -> In i snap -> In k (i_chks i) ->
                 c_node k0 = n_name (i_node i) -> c_id k0 = c_id k -> c_sid k = c_sid k0.

(* a stored check that sits in the slot of a received instance (its node's checks, or the
   checks of its service id) and that the snapshot does not list is attached to a stored
   instance of this service that the snapshot retains *)
Definition slots_owned (c0 : cat) (p sn : string) (snap : list inst) : Prop :=
  forall k0 i, In k0 (chks c0) -> c_peer k0 = p -> In i snap -> c_node k0 = n_name (i_node i) ->
               (c_sid k0 = "" \/ c_sid k0 = s_id (i_svc i)) ->
               (forall k, In k (i_chks i) -> c_id k <> c_id k0) ->
               exists j z, In j snap /\ n_name (i_node j) = n_name (i_node i) /\
                           In z (svcs c0) /\ s_peer z = p /\ s_node z = n_name (i_node i) /\
                           s_id z = s_id (i_svc j) /\ s_name z = sn /\ (c_sid k0 <> "" -> j = i).

Definition ids_nonempty (c0 : cat) (p : string) : Prop :=
  (forall z, In z (svcs c0) -> s_peer z = p -> s_id z <> "") /\
  (forall k, In k (chks c0) -> c_peer k = p -> c_id k <> "").

Section Top.
  Variables (sh : shuffles) (p sn : string) (c0 : cat) (export : list inst).
  Let snap := map (inst_set_peer p) export.
  Let hs := new_health_snapshot p export.
  Hypothesis sh_ok : shuffles_ok sh.
  Hypothesis wf0 : wf c0.
  Hypothesis C : snap_coh p sn snap.
  Hypothesis H1 : ids_keep_names c0 p snap.
  Hypothesis H2 : check_ids_keep_owner c0 p snap.
  Hypothesis H3 : slots_owned c0 p sn snap.
  Hypothesis H4 : ids_nonempty c0 p.

  Let R : rep snap hs := nhs_rep p sn export C.

  Lemma some_svc x : In x hs -> exists y, In y (ns_svcs x).
  Proof.
    intros Hx. pose proof (rp_ne _ _ R x Hx) as Hne. destruct (ns_svcs x) as [|y ys]; [contradiction|].
    exists y. left. reflexivity.
  Qed.

  Lemma top_hs_wf : hs_wf p hs.
  Proof.
    split.
    - apply (rp_names _ _ R).
    - intros x Hx. destruct (some_svc x Hx) as (y & Hy). destruct (rp_in _ _ R x y Hx Hy) as (i & Hi & E1 & _).
      rewrite E1. apply (sc_peer _ _ _ C i Hi).
    - apply (rp_sids _ _ R).
    - intros x y Hx Hy. destruct (rp_in _ _ R x y Hx Hy) as (i & Hi & E1 & E2 & _). rewrite E1, E2.
      destruct (sc_peer _ _ _ C i Hi) as (_ & A & B & _). auto.
    - intros x y Hx Hy. destruct (rp_in _ _ R x y Hx Hy) as (i & Hi & _ & _ & E3). rewrite E3. apply (sc_cids _ _ _ C i Hi).
    - intros x y k Hx Hy Hk. destruct (rp_in _ _ R x y Hx Hy) as (i & Hi & _ & _ & E3). rewrite E3 in Hk.
      destruct (sc_peer _ _ _ C i Hi) as (_ & _ & _ & A). apply A. exact Hk.
  Qed.

  Lemma top_coh : hs_chk_coh hs.
  Proof.
    split.
    - intros x y k Hx Hy Hk. destruct (rp_in _ _ R x y Hx Hy) as (i & Hi & E1 & _ & E3). rewrite E3 in Hk. rewrite E1.
      apply (sc_chk _ _ _ C i k Hi Hk).
    - intros x y k Hx Hy Hk. destruct (rp_in _ _ R x y Hx Hy) as (i & Hi & E1 & _ & E3). rewrite E3 in Hk.
      apply (sc_chk _ _ _ C i k Hi Hk).
    - intros x y y' k k' Hx Hy Hy' Hk Hk' E.
      destruct (rp_in _ _ R x y Hx Hy) as (i & Hi & E1 & _ & E3). rewrite E3 in Hk.
      destruct (rp_in _ _ R x y' Hx Hy') as (j & Hj & F1 & _ & F3). rewrite F3 in Hk'.
      apply (sc_same _ _ _ C i j k k' Hi Hj); auto. congruence.
  Qed.

  (* the entry of a node name is unique *)
  Lemma same_entry x x' : In x hs -> In x' hs -> n_name (ns_node x') = n_name (ns_node x) -> x' = x.
  Proof.
    intros Hx Hx' E. pose proof (find_ns_some hs x (rp_names _ _ R) Hx) as F.
    rewrite <- E, (find_ns_some hs x' (rp_names _ _ R) Hx') in F. congruence.
  Qed.

  Lemma same_svc x y y' : In x hs -> In y (ns_svcs x) -> In y' (ns_svcs x) -> s_id (ss_svc y') = s_id (ss_svc y) -> y' = y.
  Proof.
    intros Hx Hy Hy' E. pose proof (find_ss_some x y (rp_sids _ _ R x Hx) Hy) as F.
    rewrite <- E, (find_ss_some x y' (rp_sids _ _ R x Hx) Hy') in F. congruence.
  Qed.

  Theorem mirror_top :
    let s := handle_update_service sh c0 p sn (Some export) in
    h_err s = None -> mirrors (h_cat s) p sn snap.
  Proof.
    intros s He. subst s. unfold handle_update_service in *.
    destruct (check_service_nodes c0 p sn) as [stored|e] eqn:Hcsn.
    2:{ unfold handle_update_from in He. cbn [h_err h_cat] in He. rewrite Hcsn in He. discriminate. }
    rewrite (handle_update_from_unfold sh (HSt c0 [] None) p sn (Some export) stored eq_refl Hcsn) in *.
    cbn zeta in *. fold hs in He |- *.
    (* the hypotheses of the theorem on the handler's own snapshot *)
    assert (Hid0 : forall x b, In x hs -> In b (nodes c0) -> n_peer b = p ->
                               n_id b = n_id (ns_node x) -> n_id (ns_node x) <> "" -> n_name b = n_name (ns_node x)).
    { intros x b Hx Hb Hp Hi Hne. destruct (some_svc x Hx) as (y & Hy).
      destruct (rp_in _ _ R x y Hx Hy) as (i & Hin & E1 & _). rewrite E1 in *. apply (H1 i b); auto. }
    assert (Hid1 : forall x x', In x hs -> In x' hs -> n_id (ns_node x') = n_id (ns_node x) ->
                                n_id (ns_node x) <> "" -> n_name (ns_node x') = n_name (ns_node x)).
    { intros x x' Hx Hx' Hi Hne. destruct (some_svc x Hx) as (y & Hy). destruct (some_svc x' Hx') as (y' & Hy').
      destruct (rp_in _ _ R x y Hx Hy) as (i & Hin & E1 & _). destruct (rp_in _ _ R x' y' Hx' Hy') as (j & Hjn & F1 & _).
      rewrite E1, F1 in *. apply (sc_ids _ _ _ C i j); auto. }
    assert (Hsid : forall x y k, In x hs -> In y (ns_svcs x) -> In k (ss_chks y) -> c_sid k = "" \/ c_sid k = s_id (ss_svc y)).
    { intros x y k Hx Hy Hk. destruct (rp_in _ _ R x y Hx Hy) as (i & Hi & _ & E2 & E3). rewrite E3 in Hk. rewrite E2.
      apply (sc_chk _ _ _ C i k Hi Hk). }
    assert (Huni : forall x y y' k, In x hs -> In y (ns_svcs x) -> In y' (ns_svcs x) -> In k (ss_chks y) -> c_sid k = "" -> In k (ss_chks y')).
    { intros x y y' k Hx Hy Hy' Hk Hs.
      destruct (rp_in _ _ R x y Hx Hy) as (i & Hi & E1 & _ & E3). rewrite E3 in Hk.
      destruct (rp_in _ _ R x y' Hx Hy') as (j & Hj & F1 & _ & F3). rewrite F3.
      apply (sc_uni _ _ _ C i j k Hi Hj); auto. congruence. }
    assert (Hsidne : forall x y, In x hs -> In y (ns_svcs x) -> s_id (ss_svc y) <> "").
    { intros x y Hx Hy. destruct (rp_in _ _ R x y Hx Hy) as (i & Hi & _ & E2 & _). rewrite E2. apply (sc_name _ _ _ C i Hi). }
    destruct H4 as [Hids_s Hids_k].
    assert (Hstable : forall k0 x y k, In k0 (chks c0) -> c_peer k0 = p -> In x hs -> In y (ns_svcs x) ->
                                       In k (ss_chks y) -> c_node k0 = n_name (ns_node x) -> c_id k0 = c_id k -> c_sid k = c_sid k0).
    { intros k0 x y k Hk0 Hp Hx Hy Hk Hn Hi. destruct (rp_in _ _ R x y Hx Hy) as (i & Hin & E1 & _ & E3).
      rewrite E3 in Hk. rewrite E1 in Hn. apply (H2 k0 i k); auto. }
    assert (Howned : forall k0 x y, In k0 (chks c0) -> c_peer k0 = p -> In x hs -> In y (ns_svcs x) ->
        c_node k0 = n_name (ns_node x) -> (c_sid k0 = "" \/ c_sid k0 = s_id (ss_svc y)) -> has_chk y (c_id k0) = false ->
        exists y' z, In y' (ns_svcs x) /\ In z (svcs c0) /\ s_peer z = p /\ s_node z = n_name (ns_node x)
                     /\ s_id z = s_id (ss_svc y') /\ s_name z = sn /\ (c_sid k0 <> "" -> y' = y)).
    { intros k0 x y Hk0 Hp Hx Hy Hn Hs Hh. destruct (rp_in _ _ R x y Hx Hy) as (i & Hin & E1 & E2 & E3).
      assert (Hno : forall k, In k (i_chks i) -> c_id k <> c_id k0).
      { intros k Hk E. assert (has_chk y (c_id k0) = true) by (apply has_chk_true; exists k; rewrite E3; auto). congruence. }
      rewrite E1 in Hn. rewrite E2 in Hs.
      destruct (H3 k0 i Hk0 Hp Hin Hn Hs Hno) as (j & z & Hj & Ejn & Hz & Zp & Zn & Zi & Zs & Zj).
      destruct (rp_all _ _ R j Hj) as (x2 & y2 & Hx2 & Hy2 & F1 & F2 & _).
      assert (x2 = x) as -> by (apply same_entry; auto; rewrite F1, E1; exact Ejn).
      exists y2, z. rewrite E1, F2. repeat split; auto.
      intros Hne. apply (same_svc x y y2 Hx Hy Hy2). rewrite F2, E2, (Zj Hne). reflexivity. }
    pose proof top_hs_wf as Hhs. pose proof top_coh as Hcoh.
    split.
    - apply (wf' sh p sn c0 hs stored); auto.
    - intros i Hi. destruct (rp_all _ _ R i Hi) as (x & y & Hx & Hy & E1 & E2 & E3).
      split; [rewrite <- E1; apply (G1 sh p sn c0 hs stored); auto|].
      split; [rewrite <- E2; apply (G2 sh p sn c0 hs stored) with (x := x); auto|].
      intros k Hk. rewrite <- E3 in Hk. apply (G3 sh p sn c0 hs stored) with (x := x) (y := y); auto.
    - intros z Hz Hp Hn.
      edestruct (G4 sh p sn c0 hs stored) with (z := z) as (x & y & Hx & Hy & E); eauto.
      destruct (rp_in _ _ R x y Hx Hy) as (i & Hi & _ & E2 & _). exists i. split; [exact Hi|congruence].
    - intros i r Hi Hr Hp Hn Hs. destruct (rp_all _ _ R i Hi) as (x & y & Hx & Hy & E1 & E2 & E3).
      rewrite <- E1 in Hn. rewrite <- E2 in Hs.
      edestruct (G5 sh p sn c0 hs stored) with (r := r) (x := x) (y := y) as (k & Hk & Hi'); eauto.
      exists k. rewrite <- E3. auto.
  Qed.
End Top.

(* ------------------------------------------------------------------ what CheckServiceNodes returns *)

Lemma csn_of_total c p : forall l,
  (forall y, In y l -> get_node c p (s_node y) <> None) -> exists stored, csn_of c p l = Ok stored.
Proof.
  induction l as [|y l IH]; intros H; cbn [csn_of]; [eexists; reflexivity|].
  destruct (get_node c p (s_node y)) as [nd|] eqn:G; [|exfalso; apply (H y); [left; reflexivity|exact G]].
  destruct IH as (rest & ->); [intros z Hz; apply H; right; exact Hz|]. cbn [bind]. eexists. reflexivity.
Qed.

(* Store.CheckServiceNodes(sn, p) on a store that mirrors the snapshot returns the snapshot:
   the same instances, each with the received node record, the received service record and
   exactly the received checks (up to the ServiceName / ServiceTags copies) *)
Theorem mirrors_view c p sn snap :
  mirrors c p sn snap -> snap_coh p sn snap ->
  exists view, check_service_nodes c p sn = Ok view /\
    (forall j, In j view -> exists i, In i snap /\ i_node j = i_node i /\ i_svc j = i_svc i /\
                                      (forall r, In r (i_chks j) -> exists k, In k (i_chks i) /\ img_chk k r) /\
                                      (forall k, In k (i_chks i) -> exists r, In r (i_chks j) /\ img_chk k r)) /\
    (forall i, In i snap -> exists j, In j view /\ i_svc j = i_svc i).
Proof.
  intros [W Min Ms Mc] C.
  assert (Hnode : forall i, In i snap -> get_node c p (s_node (i_svc i)) = Some (i_node i)).
  { intros i Hi. destruct (Min i Hi) as (Hn & _). destruct (sc_peer _ _ _ C i Hi) as (Np & _ & Sn & _).
    rewrite Sn, <- Np. apply in_get_node; assumption. }
  destruct (csn_of_total c p (filter (fun s => seqb (s_peer s) p && seqb (s_name s) sn) (svcs c))) as (view & Hv).
  { intros y Hy. apply filter_In in Hy as [Hy E]. apply andb_true_iff in E as [E1 E2]. apply seqb_eq in E1, E2.
    destruct (Ms y Hy E1 E2) as (i & Hi & <-). rewrite (Hnode i Hi). discriminate. }
  exists view. split; [exact Hv|]. split.
  - intros j Hj. destruct (stored_all_ok c p sn view Hv j Hj) as [A B N (D1 & D2 & D3) K].
    destruct (Ms (i_svc j) A B N) as (i & Hi & E). exists i. split; [exact Hi|].
    destruct (Min i Hi) as (Hn & Hs & Hk). destruct (sc_peer _ _ _ C i Hi) as (Np & Sp & Sn & Kp).
    assert (En : i_node j = i_node i).
    { apply (nodup_key_inj node_key (nodes c)); [apply W | exact D1 | exact Hn |].
      unfold node_key. rewrite D2, Np, D3, <- E, Sn. reflexivity. }
    split; [exact En|]. split; [symmetry; exact E|]. split.
    + intros r Hr. apply K in Hr as (R1 & R2 & R3 & R4). apply (Mc i r Hi R1 R2).
      * rewrite R3, <- E, Sn. reflexivity.
      * rewrite <- E in R4. exact R4.
    + intros k Hk'. destruct (Hk k Hk') as (r & Hr & Hi'). exists r. split; [|exact Hi'].
      destruct Hi' as [Kk Kc]. destruct (sc_chk _ _ _ C i k Hi Hk') as (Cn & Cs & _).
      apply K. split; [exact Hr|].
      unfold chk_key in Kk. injection Kk as K1 K2 K3. unfold chk_core in Kc.
      assert (c_sid r = c_sid k) by congruence.
      repeat split.
      * rewrite K1. apply Kp. exact Hk'.
      * rewrite K2, Cn, <- E, Sn. reflexivity.
      * rewrite H, <- E. exact Cs.
  - intros i Hi. destruct (Min i Hi) as (_ & Hs & _). destruct (sc_peer _ _ _ C i Hi) as (_ & Sp & _).
    destruct (sc_name _ _ _ C i Hi) as (Nm & _).
    destruct (stored_complete c p sn view Hv (i_svc i) Hs Sp Nm) as (j & Hj & E). exists j. auto.
Qed.
