(* C17 — basic facts: decidable equalities, keyed tables. *)
From Verif Require Import Base.Prelude Peering.Model.
Require Import Coq.Sorting.Permutation.
Local Open Scope string_scope.

Lemma seqb_eq a b : seqb a b = true <-> a = b.
Proof. apply String.eqb_eq. Qed.

Lemma seqb_refl a : seqb a a = true.
Proof. apply String.eqb_refl. Qed.

Lemma seqb_neq a b : seqb a b = false <-> a <> b.
Proof. apply String.eqb_neq. Qed.

Lemma seqb_sym a b : seqb a b = seqb b a.
Proof. apply String.eqb_sym. Qed.

Ltac seqb_cases a b :=
  let E := fresh "E" in
  destruct (seqb a b) eqn:E; [apply seqb_eq in E | apply seqb_neq in E].

Lemma key_eqb_eq a b : key_eqb a b = true <-> a = b.
Proof.
  destruct a as [[a1 a2] a3], b as [[b1 b2] b3]. cbn [key_eqb].
  rewrite !andb_true_iff, !seqb_eq. split.
  - intros [[-> ->] ->]. reflexivity.
  - intros H. injection H as -> -> ->. auto.
Qed.

Lemma key_eqb_refl a : key_eqb a a = true.
Proof. apply key_eqb_eq. reflexivity. Qed.

Lemma key_eqb_neq a b : key_eqb a b = false <-> a <> b.
Proof.
  split.
  - intros H E. apply key_eqb_eq in E. congruence.
  - intros H. destruct (key_eqb a b) eqn:E; [|reflexivity]. apply key_eqb_eq in E. contradiction.
Qed.

Lemma bool_eqb_eq a b : Bool.eqb a b = true <-> a = b.
Proof. destruct a, b; cbn; split; congruence. Qed.

Lemma list_seqb_eq a b : list_eqb seqb a b = true <-> a = b.
Proof. apply list_eqb_eq. apply seqb_eq. Qed.

Lemma node_eqb_eq a b : node_eqb a b = true <-> a = b.
Proof.
  destruct a, b. unfold node_eqb. cbn.
  rewrite !andb_true_iff, !seqb_eq, N.eqb_eq. split.
  - intros [[[-> ->] ->] ->]. reflexivity.
  - intros H. injection H as -> -> -> ->. auto.
Qed.

Lemma node_eqb_refl a : node_eqb a a = true.
Proof. apply node_eqb_eq. reflexivity. Qed.

Lemma svc_eqb_eq a b : svc_eqb a b = true <-> a = b.
Proof.
  destruct a, b. unfold svc_eqb. cbn.
  rewrite !andb_true_iff, !seqb_eq, !N.eqb_eq, !bool_eqb_eq, list_seqb_eq. split.
  - intros H. decompose [and] H. subst. reflexivity.
  - intros H. injection H. intros. subst. repeat split; reflexivity.
Qed.

Lemma svc_eqb_refl a : svc_eqb a a = true.
Proof. apply svc_eqb_eq. reflexivity. Qed.

Lemma chk_eqb_eq a b : chk_eqb a b = true <-> a = b.
Proof.
  destruct a, b. unfold chk_eqb. cbn.
  rewrite !andb_true_iff, !seqb_eq, !N.eqb_eq. split.
  - intros H. decompose [and] H. subst. reflexivity.
  - intros H. injection H. intros. subst. repeat split; reflexivity.
Qed.

Lemma chk_eqb_refl a : chk_eqb a a = true.
Proof. apply chk_eqb_eq. reflexivity. Qed.

Lemma svc_is_same_eq a b : svc_is_same a b = true -> a = b.
Proof. unfold svc_is_same. intros H. apply andb_true_iff in H as [H _]. apply svc_eqb_eq. exact H. Qed.

(* ------------------------------------------------------------------ lists *)

Lemma filter_filter_imp {A} (f g : A -> bool) l :
  (forall x, In x l -> f x = true -> g x = true) -> filter f (filter g l) = filter f l.
Proof.
  induction l as [|x l IH]; intros H; cbn [filter]; [reflexivity|].
  destruct (g x) eqn:G; cbn [filter].
  - destruct (f x); rewrite IH; auto; intros; apply H; cbn; auto.
  - destruct (f x) eqn:F.
    + rewrite H in G; [discriminate| cbn; auto | exact F].
    + apply IH. intros; apply H; cbn; auto.
Qed.

Lemma filter_none {A} (f : A -> bool) l : (forall x, In x l -> f x = false) -> filter f l = [].
Proof.
  induction l as [|x l IH]; intros H; cbn; [reflexivity|].
  rewrite (H x) by (cbn; auto). apply IH. intros; apply H; cbn; auto.
Qed.

Lemma filter_all {A} (f : A -> bool) l : (forall x, In x l -> f x = true) -> filter f l = l.
Proof.
  induction l as [|x l IH]; intros H; cbn; [reflexivity|].
  rewrite (H x) by (cbn; auto). f_equal. apply IH. intros; apply H; cbn; auto.
Qed.

Lemma find_some_in {A} (f : A -> bool) l x : find f l = Some x -> In x l /\ f x = true.
Proof. apply find_some. Qed.

Lemma find_none_iff {A} (f : A -> bool) l : find f l = None <-> forall x, In x l -> f x = false.
Proof.
  split; [apply find_none|].
  induction l as [|x l IH]; intros H; cbn; [reflexivity|].
  rewrite (H x) by (cbn; auto). apply IH. intros; apply H; cbn; auto.
Qed.

Lemma existsb_false_iff {A} (f : A -> bool) l : existsb f l = false <-> forall x, In x l -> f x = false.
Proof.
  split.
  - intros H x Hx. destruct (f x) eqn:F; [|reflexivity].
    assert (existsb f l = true) by (apply existsb_exists; eauto). congruence.
  - intros H. destruct (existsb f l) eqn:E; [|reflexivity].
    apply existsb_exists in E as (x & Hx & Fx). rewrite H in Fx; auto.
Qed.

Lemma existsb_seqb_in x l : existsb (seqb x) l = true <-> In x l.
Proof.
  rewrite existsb_exists. split.
  - intros (y & Hy & E). apply seqb_eq in E. subst. exact Hy.
  - intros H. exists x. split; [exact H | apply seqb_refl].
Qed.

Lemma existsb_seqb_notin x l : existsb (seqb x) l = false <-> ~ In x l.
Proof.
  split.
  - intros H Hin. apply existsb_seqb_in in Hin. congruence.
  - intros H. destruct (existsb (seqb x) l) eqn:E; [|reflexivity]. apply existsb_seqb_in in E. contradiction.
Qed.

(* ------------------------------------------------------------------ keyed tables *)

Section Tbl.
  Context {A : Type} (kf : A -> key).

  Definition keys_nodup (l : list A) : Prop := NoDup (map kf l).

  Lemma in_tdel x k l : In x (tdel kf k l) <-> In x l /\ kf x <> k.
  Proof.
    unfold tdel. rewrite filter_In, negb_true_iff, key_eqb_neq. reflexivity.
  Qed.

  Lemma in_tput x y l : In x (tput kf y l) <-> x = y \/ (In x l /\ kf x <> kf y).
  Proof.
    unfold tput. cbn [In]. rewrite in_tdel. intuition congruence.
  Qed.

  Lemma nodup_filter f l : keys_nodup l -> keys_nodup (filter f l).
  Proof.
    unfold keys_nodup. induction l as [|x l IH]; cbn; intros H; [constructor|].
    inversion H as [|? ? Hn Hd]; subst.
    destruct (f x); cbn; [constructor|]; auto.
    intros Hin. apply Hn. apply in_map_iff in Hin as (y & Ey & Hy).
    apply filter_In in Hy as [Hy _]. apply in_map_iff. eauto.
  Qed.

  Lemma nodup_tdel k l : keys_nodup l -> keys_nodup (tdel kf k l).
  Proof. apply nodup_filter. Qed.

  Lemma nodup_tput x l : keys_nodup l -> keys_nodup (tput kf x l).
  Proof.
    intros H. unfold tput, keys_nodup. cbn. constructor.
    - intros Hin. apply in_map_iff in Hin as (y & Ey & Hy). apply in_tdel in Hy as [_ Hy]. congruence.
    - apply nodup_tdel. exact H.
  Qed.

  Lemma tget_some k l x : tget kf k l = Some x -> In x l /\ kf x = k.
  Proof.
    unfold tget. intros H. apply find_some in H as [H1 H2]. apply key_eqb_eq in H2. auto.
  Qed.

  Lemma tget_none k l : tget kf k l = None <-> forall x, In x l -> kf x <> k.
  Proof.
    unfold tget. rewrite find_none_iff. split; intros H x Hx.
    - apply key_eqb_neq. auto.
    - apply key_eqb_neq. auto.
  Qed.

  Lemma nodup_key_inj l x y : keys_nodup l -> In x l -> In y l -> kf x = kf y -> x = y.
  Proof.
    unfold keys_nodup. induction l as [|z l IH]; cbn; intros H Hx Hy E; [contradiction|].
    inversion H as [|? ? Hn Hd]; subst.
    destruct Hx as [->|Hx], Hy as [->|Hy]; auto.
    - exfalso. apply Hn. rewrite E. apply in_map. exact Hy.
    - exfalso. apply Hn. rewrite <- E. apply in_map. exact Hx.
  Qed.

  Lemma tget_in l x : keys_nodup l -> In x l -> tget kf (kf x) l = Some x.
  Proof.
    intros Hn Hx. destruct (tget kf (kf x) l) as [y|] eqn:E.
    - apply tget_some in E as [Hy Ey]. f_equal. eapply nodup_key_inj; eauto.
    - exfalso. rewrite tget_none in E. exact (E x Hx eq_refl).
  Qed.

  Lemma tget_iff l k x : keys_nodup l -> (tget kf k l = Some x <-> In x l /\ kf x = k).
  Proof.
    intros Hn. split; [apply tget_some|]. intros [Hx <-]. apply tget_in; auto.
  Qed.
End Tbl.

Lemma NoDup_app_snoc {A} (l : list A) x : NoDup l -> ~ In x l -> NoDup (l ++ [x]).
Proof.
  induction l as [|y l IH]; intros Hn Hx; cbn [app].
  - constructor; [intros []|constructor].
  - inversion Hn as [|? ? Hnin Hn']; subst. constructor.
    + rewrite in_app_iff. cbn. intros [H|[->|[]]]; [contradiction|]. apply Hx. left. reflexivity.
    + apply IH; [exact Hn'|]. intros H. apply Hx. right. exact H.
Qed.
