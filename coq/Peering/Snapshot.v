(* C17 — newHealthSnapshot: for a coherent list of received instances (what a catalog query
   returns) the handler's normalised snapshot is that list grouped by node, nothing lost,
   nothing merged. *)
From Verif Require Import Base.Prelude Peering.Model Peering.Lemmas Peering.Verbs Peering.Phase1.
Require Import Coq.Sorting.Permutation.
Local Open Scope string_scope.

(* ------------------------------------------------------------------ the three upserts *)

Lemma chk_upsert_new k l : ~ In (c_id k) (map c_id l) -> chk_upsert k l = (l ++ [k])%list.
Proof.
  induction l as [|x l IH]; intros H; cbn [chk_upsert app]; [reflexivity|].
  cbn [map In] in H. seqb_cases (c_id x) (c_id k); [exfalso; apply H; left; exact E|].
  rewrite IH; [reflexivity|]. intros Hin. apply H. right. exact Hin.
Qed.

Lemma add_checks_new ks : forall l, NoDup (map c_id (l ++ ks)) -> add_checks ks l = (l ++ ks)%list.
Proof.
  unfold add_checks. induction ks as [|k ks IH]; intros l H; cbn [fold_left]; [rewrite app_nil_r; reflexivity|].
  rewrite chk_upsert_new.
  - rewrite IH; [rewrite <- app_assoc; reflexivity|]. rewrite <- app_assoc. exact H.
  - rewrite map_app in H. cbn [map] in H. apply NoDup_remove_2 in H. intros Hin. apply H. apply in_app_iff. left. exact Hin.
Qed.

Lemma svc_upsert_new i l :
  ~ In (s_id (i_svc i)) (map (fun y => s_id (ss_svc y)) l) ->
  svc_upsert i l = (l ++ [SSnap (i_svc i) (add_checks (i_chks i) [])])%list.
Proof.
  induction l as [|x l IH]; intros H; cbn [svc_upsert app]; [reflexivity|].
  cbn [map In] in H. seqb_cases (s_id (ss_svc x)) (s_id (i_svc i)); [exfalso; apply H; left; exact E|].
  rewrite IH; [reflexivity|]. intros Hin. apply H. right. exact Hin.
Qed.

Lemma node_upsert_new i h :
  ~ In (n_name (i_node i)) (map (fun x => n_name (ns_node x)) h) ->
  node_upsert i h = (h ++ [NSnap (i_node i) (svc_upsert i [])])%list.
Proof.
  induction h as [|x h IH]; intros H; cbn [node_upsert app]; [reflexivity|].
  cbn [map In] in H. seqb_cases (n_name (ns_node x)) (n_name (i_node i)); [exfalso; apply H; left; exact E|].
  rewrite IH; [reflexivity|]. intros Hin. apply H. right. exact Hin.
Qed.

Definition upd_node (i : inst) (z : nsnap) : nsnap :=
  if seqb (n_name (ns_node z)) (n_name (i_node i)) then NSnap (ns_node z) (svc_upsert i (ns_svcs z)) else z.

Lemma node_upsert_old i h :
  NoDup (map (fun x => n_name (ns_node x)) h) -> In (n_name (i_node i)) (map (fun x => n_name (ns_node x)) h) ->
  node_upsert i h = map (upd_node i) h.
Proof.
  induction h as [|z h IH]; intros Hn Hin; [contradiction|].
  inversion Hn as [|? ? Hnin Hn']; subst. cbn [node_upsert map]. unfold upd_node at 1.
  seqb_cases (n_name (ns_node z)) (n_name (i_node i)).
  - f_equal. symmetry. rewrite <- (map_id h) at 2. apply map_ext_in. intros a Ha. unfold upd_node.
    seqb_cases (n_name (ns_node a)) (n_name (i_node i)); [|reflexivity].
    exfalso. apply Hnin. rewrite E, <- E0. apply in_map_iff. exists a. auto.
  - f_equal. apply IH; [exact Hn'|]. destruct Hin as [Hin|Hin]; [contradiction | exact Hin].
Qed.

(* ------------------------------------------------------------------ coherent snapshots *)

(* a list of instances as a catalog query for one service name returns it
   (after the handler has stamped the peer name and the node name on the rows) *)
Record snap_coh (p sn : string) (snap : list inst) : Prop := {
  sc_peer : forall i, In i snap -> n_peer (i_node i) = p /\ s_peer (i_svc i) = p
                                   /\ s_node (i_svc i) = n_name (i_node i) /\ forall k, In k (i_chks i) -> c_peer k = p;
  sc_name : forall i, In i snap -> s_name (i_svc i) = sn /\ s_id (i_svc i) <> "";
  (* one row per (node, service id) *)
  sc_keys : NoDup (map (fun i => (n_name (i_node i), s_id (i_svc i))) snap);
  (* one node record per node name, one node name per node ID *)
  sc_node : forall i j, In i snap -> In j snap -> n_name (i_node i) = n_name (i_node j) -> i_node i = i_node j;
  sc_ids : forall i j, In i snap -> In j snap -> n_id (i_node j) = n_id (i_node i) -> n_id (i_node i) <> "" ->
                       n_name (i_node j) = n_name (i_node i);
  (* checks: on the instance's node, of the node or of the instance itself, a status, one per id *)
  sc_cids : forall i, In i snap -> NoDup (map c_id (i_chks i));
  sc_chk : forall i k, In i snap -> In k (i_chks i) ->
                       c_node k = n_name (i_node i) /\ (c_sid k = "" \/ c_sid k = s_id (i_svc i)) /\ c_status k <> 0%N;
  (* node-level checks are attached to every instance of the node; a check id names one check on a node *)
  sc_uni : forall i j k, In i snap -> In j snap -> n_name (i_node i) = n_name (i_node j) ->
                         In k (i_chks i) -> c_sid k = "" -> In k (i_chks j);
  sc_same : forall i j k k', In i snap -> In j snap -> n_name (i_node i) = n_name (i_node j) ->
                             In k (i_chks i) -> In k' (i_chks j) -> c_id k = c_id k' -> k = k' }.

(* h represents the list l: same nodes, same instances, same checks *)
Record rep (l : list inst) (h : hsnap) : Prop := {
  rp_names : NoDup (map (fun x => n_name (ns_node x)) h);
  rp_sids : forall x, In x h -> NoDup (map (fun y => s_id (ss_svc y)) (ns_svcs x));
  rp_ne : forall x, In x h -> ns_svcs x <> [];
  rp_in : forall x y, In x h -> In y (ns_svcs x) ->
                      exists i, In i l /\ ns_node x = i_node i /\ ss_svc y = i_svc i /\ ss_chks y = i_chks i;
  rp_all : forall i, In i l ->
                     exists x y, In x h /\ In y (ns_svcs x) /\ ns_node x = i_node i /\ ss_svc y = i_svc i /\ ss_chks y = i_chks i }.

Lemma rep_nil : rep [] [].
Proof. split; [constructor | intros x [] | intros x [] | intros x y [] | intros i []]. Qed.

Lemma rep_step l h i :
  rep l h ->
  NoDup (map c_id (i_chks i)) ->
  (forall j, In j l -> (n_name (i_node j), s_id (i_svc j)) <> (n_name (i_node i), s_id (i_svc i))) ->
  (forall j, In j l -> n_name (i_node j) = n_name (i_node i) -> i_node j = i_node i) ->
  rep (l ++ [i]) (node_upsert i h).
Proof.
  intros [Rn Rs Rne Ri Ra] Hc Hk Hnode.
  assert (Hchk : add_checks (i_chks i) [] = i_chks i) by (apply (add_checks_new (i_chks i) []); exact Hc).
  set (ynew := SSnap (i_svc i) (i_chks i)).
  destruct (in_dec string_dec (n_name (i_node i)) (map (fun x => n_name (ns_node x)) h)) as [Hin|Hnin].
  - (* the node is known: the instance joins it *)
    rewrite (node_upsert_old i h Rn Hin).
    assert (Hupd : forall z, In z h -> n_name (ns_node z) = n_name (i_node i) ->
                             upd_node i z = NSnap (ns_node z) (ns_svcs z ++ [ynew]) /\ ns_node z = i_node i
                             /\ ~ In (s_id (i_svc i)) (map (fun y => s_id (ss_svc y)) (ns_svcs z))).
    { intros z Hz Ez.
      assert (Hsid : ~ In (s_id (i_svc i)) (map (fun y => s_id (ss_svc y)) (ns_svcs z))).
      { intros Hs. apply in_map_iff in Hs as (y & Ey & Hy). destruct (Ri z y Hz Hy) as (j & Hj & E1 & E2 & _).
        apply (Hk j Hj). rewrite <- E1, <- E2, Ez, Ey. reflexivity. }
      split; [|split; [|exact Hsid]].
      - unfold upd_node. rewrite Ez, seqb_refl, (svc_upsert_new i (ns_svcs z) Hsid), Hchk. reflexivity.
      - destruct (ns_svcs z) as [|y0 ys] eqn:Es; [exfalso; apply (Rne z Hz); exact Es|].
        destruct (Ri z y0 Hz) as (j & Hj & E1 & _); [rewrite Es; left; reflexivity|].
        rewrite E1. apply Hnode; [exact Hj|]. rewrite <- E1. exact Ez. }
    assert (Hother : forall z, n_name (ns_node z) <> n_name (i_node i) -> upd_node i z = z).
    { intros z Hz. unfold upd_node. apply seqb_neq in Hz. rewrite Hz. reflexivity. }
    assert (Hname : forall z, n_name (ns_node (upd_node i z)) = n_name (ns_node z)).
    { intros z. unfold upd_node. destruct (seqb _ _); reflexivity. }
    split.
    + rewrite map_map. erewrite map_ext; [exact Rn|]. intros z. apply Hname.
    + intros x' Hx'. apply in_map_iff in Hx' as (z & <- & Hz).
      destruct (string_dec (n_name (ns_node z)) (n_name (i_node i))) as [E|E].
      * destruct (Hupd z Hz E) as (-> & _ & Hsid). cbn [ns_svcs]. rewrite map_app. cbn [map].
        apply NoDup_app_snoc; [apply Rs; exact Hz | exact Hsid].
      * rewrite (Hother z E). apply Rs; exact Hz.
    + intros x' Hx'. apply in_map_iff in Hx' as (z & <- & Hz).
      destruct (string_dec (n_name (ns_node z)) (n_name (i_node i))) as [E|E].
      * destruct (Hupd z Hz E) as (-> & _). cbn [ns_svcs]. destruct (ns_svcs z); discriminate.
      * rewrite (Hother z E). apply Rne; exact Hz.
    + intros x' y Hx' Hy. apply in_map_iff in Hx' as (z & <- & Hz).
      destruct (string_dec (n_name (ns_node z)) (n_name (i_node i))) as [E|E].
      * destruct (Hupd z Hz E) as (Eu & En & _). rewrite Eu in Hy |- *. cbn [ns_svcs ns_node] in *.
        apply in_app_iff in Hy as [Hy|[<-|[]]].
        -- destruct (Ri z y Hz Hy) as (j & Hj & E1 & E2 & E3). exists j. split; [apply in_app_iff; left; exact Hj|auto].
        -- exists i. split; [apply in_app_iff; right; left; reflexivity|]. cbn. auto.
      * rewrite (Hother z E) in Hy |- *. destruct (Ri z y Hz Hy) as (j & Hj & E1 & E2 & E3).
        exists j. split; [apply in_app_iff; left; exact Hj|auto].
    + intros j Hj. apply in_app_iff in Hj as [Hj|[<-|[]]].
      * destruct (Ra j Hj) as (z & y & Hz & Hy & E1 & E2 & E3).
        exists (upd_node i z). destruct (string_dec (n_name (ns_node z)) (n_name (i_node i))) as [E|E].
        -- destruct (Hupd z Hz E) as (Eu & _). rewrite Eu. exists y. cbn [ns_svcs ns_node].
           split; [rewrite <- Eu; apply in_map; exact Hz|]. split; [apply in_app_iff; left; exact Hy|auto].
        -- rewrite (Hother z E). exists y. split; [rewrite <- (Hother z E); apply in_map; exact Hz|auto].
      * apply in_map_iff in Hin as (z & Ez & Hz). destruct (Hupd z Hz Ez) as (Eu & En & _).
        exists (upd_node i z), ynew. rewrite Eu. cbn [ns_svcs ns_node].
        split; [rewrite <- Eu; apply in_map; exact Hz|]. split; [apply in_app_iff; right; left; reflexivity|]. cbn. auto.
  - (* a new node *)
    rewrite (node_upsert_new i h Hnin). cbn [svc_upsert]. rewrite Hchk. fold ynew. split.
    + rewrite map_app. cbn [map ns_node]. apply NoDup_app_snoc; [exact Rn | exact Hnin].
    + intros x Hx. apply in_app_iff in Hx as [Hx|[<-|[]]]; [apply Rs; exact Hx|]. cbn. constructor; [intros []|constructor].
    + intros x Hx. apply in_app_iff in Hx as [Hx|[<-|[]]]; [apply Rne; exact Hx|]. cbn. discriminate.
    + intros x y Hx Hy. apply in_app_iff in Hx as [Hx|[<-|[]]].
      * destruct (Ri x y Hx Hy) as (j & Hj & E). exists j. split; [apply in_app_iff; left; exact Hj|exact E].
      * cbn [ns_svcs] in Hy. destruct Hy as [<-|[]]. exists i. split; [apply in_app_iff; right; left; reflexivity|]. cbn. auto.
    + intros j Hj. apply in_app_iff in Hj as [Hj|[<-|[]]].
      * destruct (Ra j Hj) as (x & y & Hx & E). exists x, y. split; [apply in_app_iff; left; exact Hx|exact E].
      * exists (NSnap (i_node i) [ynew]), ynew. split; [apply in_app_iff; right; left; reflexivity|].
        split; [left; reflexivity|]. cbn. auto.
Qed.

Lemma rep_fold : forall l done h,
  rep done h ->
  (forall i, In i l -> NoDup (map c_id (i_chks i))) ->
  NoDup (map (fun i => (n_name (i_node i), s_id (i_svc i))) (done ++ l)) ->
  (forall i j, In i (done ++ l) -> In j (done ++ l) -> n_name (i_node i) = n_name (i_node j) -> i_node i = i_node j) ->
  rep (done ++ l) (fold_left (fun h i => node_upsert i h) l h).
Proof.
  induction l as [|i l IH]; intros done h R Hc Hk Hn; cbn [fold_left]; [rewrite app_nil_r; exact R|].
  replace (done ++ i :: l)%list with ((done ++ [i]) ++ l)%list in * by (rewrite <- app_assoc; reflexivity).
  apply IH.
  - apply rep_step; [exact R | apply Hc; left; reflexivity | |].
    + intros j Hj E. rewrite <- app_assoc in Hk. cbn [app] in Hk. rewrite map_app in Hk. cbn [map] in Hk.
      apply NoDup_remove_2 in Hk. apply Hk. apply in_app_iff. left. rewrite <- E. apply in_map_iff. exists j. auto.
    + intros j Hj E. apply Hn; [| |exact E]; apply in_app_iff; left; apply in_app_iff; [left; exact Hj | right; left; reflexivity].
  - intros j Hj. apply Hc. right. exact Hj.
  - exact Hk.
  - exact Hn.
Qed.

Lemma nhs_rep p sn export :
  snap_coh p sn (map (inst_set_peer p) export) ->
  rep (map (inst_set_peer p) export) (new_health_snapshot p export).
Proof.
  intros C. unfold new_health_snapshot.
  assert (E : forall l h, fold_left (fun h i => node_upsert (inst_set_peer p i) h) l h
                          = fold_left (fun h i => node_upsert i h) (map (inst_set_peer p) l) h).
  { induction l as [|i l IH]; intros h; cbn [fold_left map]; [reflexivity|apply IH]. }
  rewrite E. apply (rep_fold (map (inst_set_peer p) export) [] [] rep_nil).
  - apply (sc_cids p sn _ C).
  - apply (sc_keys p sn _ C).
  - apply (sc_node p sn _ C).
Qed.
