(* C17 — the mesh-topology table (no peer in its key) is left alone exactly when upstreams
   are not involved: no received service names upstreams and no stored row of the peer does. *)
From Verif Require Import Base.Prelude Peering.Model Peering.Lemmas Peering.Frame Peering.Prune.
Require Import Coq.Sorting.Permutation.
Local Open Scope string_scope.

Definition quiet (p : string) (c : cat) : Prop :=
  forall y, In y (svcs c) -> s_peer y = p -> s_ups y = [].

Lemma delete_node_topo c p n : topo (delete_node c p n) = topo c.
Proof. unfold delete_node. destruct (get_node c p n); reflexivity. Qed.
Lemma delete_service_topo c p n i : topo (delete_service c p n i) = topo c.
Proof. unfold delete_service. destruct (get_svc c p n i); reflexivity. Qed.

Lemma deregister_topo c d : topo (deregister c d) = topo c.
Proof.
  destruct d as [p n i|p n i|p n]; cbn [deregister].
  - destruct (seqb i ""); [apply delete_node_topo | apply delete_service_topo].
  - destruct (seqb i ""); [apply delete_node_topo | reflexivity].
  - apply delete_node_topo.
Qed.

Lemma ensure_node_topo c nd c' : ensure_node c nd = Ok c' -> topo c' = topo c /\ incl (svcs c') (svcs c).
Proof.
  unfold ensure_node. destruct (ensure_node_byid c nd) as [[c1 b]|e] eqn:E1; cbn [bind]; [|discriminate].
  assert (H1 : topo c1 = topo c /\ incl (svcs c1) (svcs c)).
  { unfold ensure_node_byid in E1. destruct (seqb (n_id nd) ""); [injection E1 as <- _; split; [reflexivity|apply incl_refl]|].
    destruct (get_node_by_id c (n_peer nd) (n_id nd)) as [ex|].
    - destruct (seqb (n_name ex) (n_name nd)); [injection E1 as <- _; split; [reflexivity|apply incl_refl]|].
      destruct (similar_name_err c nd false); [discriminate|]. injection E1 as <- _.
      split; [apply delete_node_topo | apply delete_node_svcs_incl].
    - destruct (similar_name_err c nd true); [discriminate|]. injection E1 as <- _. split; [reflexivity|apply incl_refl]. }
  destruct H1 as [T1 S1].
  assert (Hput : Ok (put_node c1 nd) = Ok c' -> topo c' = topo c /\ incl (svcs c') (svcs c)).
  { intros E; injection E as <-. split; [exact T1 | exact S1]. }
  assert (Hsame : Ok c1 = Ok c' -> topo c' = topo c /\ incl (svcs c') (svcs c)).
  { intros E; injection E as <-. split; [exact T1 | exact S1]. }
  destruct b as [ex|].
  - destruct (node_eqb nd ex); auto.
  - destruct (get_node c1 (n_peer nd) (n_name nd)) as [ex|]; [|exact Hput]. destruct (node_eqb nd ex); auto.
Qed.

Lemma reg_node_topo c nd c' : reg_node c nd = Ok c' -> topo c' = topo c /\ incl (svcs c') (svcs c).
Proof.
  unfold reg_node. destruct (get_node c (n_peer nd) (n_name nd)) as [ex|]; [|apply ensure_node_topo].
  destruct (node_eqb ex nd); [|apply ensure_node_topo]. intros E; injection E as <-. split; [reflexivity|apply incl_refl].
Qed.

Lemma update_topo_quiet c s e :
  s_ups s = [] -> match e with Some x => s_ups x = [] | None => True end -> topo (update_topo c s e) = topo c.
Proof.
  intros Hs He. unfold update_topo. rewrite Hs. cbn [fold_left set_topo topo].
  destruct e as [x|]; [rewrite He|]; reflexivity.
Qed.

Lemma ensure_service_quiet p c s c' :
  quiet p c -> s_peer s = p -> s_ups s = [] -> ensure_service c s = Ok c' -> topo c' = topo c /\ quiet p c'.
Proof.
  intros Hq Hp Hs. unfold ensure_service.
  set (ex := get_svc c (s_peer s) (s_node s) (s_id s)).
  assert (Hex : match ex with Some x => s_ups x = [] | None => True end).
  { subst ex. destruct (get_svc c (s_peer s) (s_node s) (s_id s)) as [x|] eqn:G; [|exact I].
    unfold get_svc in G. apply tget_some in G as [Hin K]. apply Hq; [exact Hin|]. unfold svc_key in K. congruence. }
  set (c1 := if is_connect s then update_topo c s ex else c).
  assert (H1 : topo c1 = topo c /\ svcs c1 = svcs c /\ nodes c1 = nodes c).
  { subst c1. destruct (is_connect s); [|auto]. split; [apply update_topo_quiet; assumption|]. split; reflexivity. }
  destruct H1 as (T1 & S1 & N1).
  destruct (get_node c1 (s_peer s) (s_node s)); [|discriminate].
  assert (Hput : Ok (put_svc c1 s) = Ok c' -> topo c' = topo c /\ quiet p c').
  { intros E; injection E as <-. split; [exact T1|]. intros y Hy Yp. cbn [put_svc svcs set_svcs] in Hy.
    apply in_tput in Hy as [->|[Hy _]]; [exact Hs|]. rewrite S1 in Hy. apply Hq; assumption. }
  assert (Hsame : Ok c1 = Ok c' -> topo c' = topo c /\ quiet p c').
  { intros E; injection E as <-. split; [exact T1|]. intros y Hy Yp. rewrite S1 in Hy. apply Hq; assumption. }
  destruct ex as [x|]; [|exact Hput]. destruct (svc_eqb s x); auto.
Qed.

Lemma ensure_check_topo c k c' : ensure_check c k = Ok c' -> topo c' = topo c /\ svcs c' = svcs c.
Proof.
  unfold ensure_check. destruct (get_node c (c_peer k) (c_node k)); [|discriminate].
  set (k1 := if N.eqb (c_status k) 0 then _ else k).
  assert (Hst : forall k2, match get_chk c (c_peer k) (c_node k) (c_id k) with
                           | Some e => if chk_eqb e k2 then Ok c else Ok (put_chk c k2)
                           | None => Ok (put_chk c k2) end = Ok c' -> topo c' = topo c /\ svcs c' = svcs c).
  { intros k2. destruct (get_chk c (c_peer k) (c_node k) (c_id k)) as [e|].
    - destruct (chk_eqb e k2); intros E; injection E as <-; split; reflexivity.
    - intros E; injection E as <-; split; reflexivity. }
  destruct (seqb (c_sid k1) ""); [apply Hst|].
  destruct (get_svc c (c_peer k) (c_node k) (c_sid k)); [apply Hst | discriminate].
Qed.

Lemma ensure_checks_topo node ks : forall c c', ensure_checks c node ks = Ok c' -> topo c' = topo c /\ svcs c' = svcs c.
Proof.
  induction ks as [|k ks IH]; intros c c'; cbn [ensure_checks].
  - intros E; injection E as <-. split; reflexivity.
  - destruct (negb (seqb (c_node k) node)); [discriminate|].
    destruct (ensure_check c k) as [c1|e] eqn:E1; cbn [bind]; [|discriminate].
    intros E. destruct (ensure_check_topo _ _ _ E1) as [A B]. destruct (IH _ _ E) as [A' B']. split; congruence.
Qed.

Lemma register_quiet p c r c' :
  quiet p c -> n_peer (r_node r) = p -> (forall sv, r_svc r = Some sv -> s_ups sv = []) ->
  register c r = Ok c' -> topo c' = topo c /\ quiet p c'.
Proof.
  intros Hq Hp Hs H. apply register_inv in H as (Hpo & c1 & c2 & E1 & E2 & E3).
  destruct (reg_node_topo _ _ _ E1) as [T1 S1].
  assert (Q1 : quiet p c1) by (intros y Hy Yp; apply Hq; [apply S1; exact Hy | exact Yp]).
  assert (H2 : topo c2 = topo c1 /\ quiet p c2).
  { unfold reg_svc in E2. destruct (r_svc r) as [s0|] eqn:Er; [|injection E2 as <-; auto].
    unfold reg_peers_ok in Hpo. rewrite Er in Hpo. apply andb_true_iff in Hpo as [Hps _]. apply seqb_eq in Hps.
    set (s := svc_set_node (n_name (r_node r)) s0) in *.
    assert (Sp : s_peer s = p) by (cbn; congruence).
    assert (Su : s_ups s = []) by (cbn; apply Hs; reflexivity).
    destruct (get_svc c1 (n_peer (r_node r)) (n_name (r_node r)) (s_id s)) as [ex|].
    - destruct (svc_is_same ex s); [injection E2 as <-; auto|]. eapply ensure_service_quiet; eauto.
    - eapply ensure_service_quiet; eauto. }
  destruct H2 as [T2 Q2]. destruct (ensure_checks_topo _ _ _ _ E3) as [T3 S3].
  split; [congruence|]. intros y Hy Yp. rewrite S3 in Hy. apply Q2; assumption.
Qed.

Theorem topo_frame sh c e :
  shuffles_ok sh ->
  quiet (ev_peer e) c ->
  match e with
  | EvUpsert _ _ export => forall i, In i export -> s_ups (i_svc i) = []
  | EvList _ _ => True
  end ->
  topo (h_cat (handle sh c e)) = topo c.
Proof.
  intros Hsh Hq He.
  assert (G : topo (h_cat (handle sh c e)) = topo c /\ quiet (ev_peer e) (h_cat (handle sh c e))); [|apply G].
  apply (handle_inv sh e (fun s => topo (h_cat s) = topo c /\ quiet (ev_peer e) (h_cat s)) (fun sv => s_ups sv = []));
    [exact Hsh | | | | | split; [reflexivity | exact Hq]].
  - intros r s Hr HQ [T Q]. unfold do_reg. destruct (h_err s); [split; assumption|].
    destruct (register (h_cat s) r) as [c'|err] eqn:E; cbn [h_cat]; [|split; assumption].
    destruct (register_quiet _ _ _ _ Q Hr HQ E) as [T' Q']. split; [congruence | exact Q'].
  - intros d s _ [T Q]. unfold do_dereg. destruct (h_err s); [split; assumption|]. cbn [h_cat]. split.
    + rewrite deregister_topo. exact T.
    + intros y Hy Yp. apply Q; [|exact Yp]. apply deregister_svcs_incl in Hy. exact Hy.
  - intros s err H. exact H.
  - destruct e as [p sn export|p names]; [|exact I]. intros i Hi. cbn. apply He. exact Hi.
Qed.
