(* C17 — pruning: after an exported-service list has been processed without error, every
   service row of the peer belongs to an exported name (or to the synthetic sidecar of one),
   and rows are only ever removed by that handler. *)
From Verif Require Import Base.Prelude Peering.Model Peering.Lemmas.
Require Import Coq.Sorting.Permutation.
Local Open Scope string_scope.

(* ------------------------------------------------------------------ deletes only remove *)

Lemma delete_check_svcs c p n i : svcs (delete_check c p n i) = svcs c.
Proof. reflexivity. Qed.
Lemma delete_check_nodes c p n i : nodes (delete_check c p n i) = nodes c.
Proof. reflexivity. Qed.

Lemma delete_service_svcs_incl c p n i : incl (svcs (delete_service c p n i)) (svcs c).
Proof.
  unfold delete_service. destruct (get_svc c p n i); [|apply incl_refl].
  cbn [svcs set_svcs set_chks]. intros x Hx. apply in_tdel in Hx. tauto.
Qed.
Lemma delete_service_nodes c p n i : nodes (delete_service c p n i) = nodes c.
Proof. unfold delete_service. destruct (get_svc c p n i); reflexivity. Qed.

Lemma delete_node_svcs_incl c p n : incl (svcs (delete_node c p n)) (svcs c).
Proof.
  unfold delete_node. destruct (get_node c p n); [|apply incl_refl].
  cbn [svcs set_svcs set_chks set_nodes]. intros x Hx. apply filter_In in Hx. tauto.
Qed.
Lemma delete_node_nodes_incl c p n : incl (nodes (delete_node c p n)) (nodes c).
Proof.
  unfold delete_node. destruct (get_node c p n); [|apply incl_refl].
  cbn [nodes svcs set_svcs set_chks set_nodes]. intros x Hx. apply in_tdel in Hx. tauto.
Qed.

Lemma deregister_svcs_incl c d : incl (svcs (deregister c d)) (svcs c).
Proof.
  destruct d as [p n i|p n i|p n]; cbn [deregister].
  - destruct (seqb i ""); [apply delete_node_svcs_incl | apply delete_service_svcs_incl].
  - destruct (seqb i ""); [apply delete_node_svcs_incl | apply incl_refl].
  - apply delete_node_svcs_incl.
Qed.

(* a service row keeps its node row unless the node delete takes both *)
Definition svc_has_node (c : cat) (x : svc) : Prop := get_node c (s_peer x) (s_node x) <> None.

Lemma get_node_delete_node_other c p n p' n' :
  (p', n') <> (p, n) -> get_node (delete_node c p n) p' n' = get_node c p' n'.
Proof.
  intros Hne. unfold delete_node. destruct (get_node c p n); [|reflexivity].
  unfold get_node. cbn [nodes set_nodes set_svcs set_chks svcs chks].
  unfold tget, tdel. induction (nodes c) as [|x l IH]; [reflexivity|]. cbn [filter find].
  destruct (key_eqb (node_key x) (p, n, "")) eqn:E1; cbn [negb].
  - apply key_eqb_eq in E1. destruct (key_eqb (node_key x) (p', n', "")) eqn:E2; [|exact IH].
    apply key_eqb_eq in E2. exfalso. apply Hne. congruence.
  - cbn [find]. destruct (key_eqb (node_key x) (p', n', "")); [reflexivity | exact IH].
Qed.

Lemma delete_node_keeps_has_node c p n x :
  In x (svcs (delete_node c p n)) -> svc_has_node c x -> svc_has_node (delete_node c p n) x.
Proof.
  intros Hx Hn. unfold svc_has_node. destruct (get_node c p n) eqn:G.
  - assert (Hne : (s_peer x, s_node x) <> (p, n)).
    { intros E. injection E as E1 E2. unfold delete_node in Hx. rewrite G in Hx.
      cbn [svcs set_svcs set_chks set_nodes] in Hx. apply filter_In in Hx as [_ Hx].
      rewrite E1, E2, !seqb_refl in Hx. discriminate. }
    rewrite get_node_delete_node_other; auto.
  - unfold delete_node. rewrite G. exact Hn.
Qed.

Lemma deregister_keeps_has_node c d x :
  In x (svcs (deregister c d)) -> svc_has_node c x -> svc_has_node (deregister c d) x.
Proof.
  assert (Hsame : forall c', nodes c' = nodes c -> svc_has_node c x -> svc_has_node c' x).
  { intros c' E. unfold svc_has_node, get_node. rewrite E. auto. }
  destruct d as [p n i|p n i|p n]; cbn [deregister].
  - destruct (seqb i ""); [apply delete_node_keeps_has_node|].
    intros _. apply Hsame. apply delete_service_nodes.
  - destruct (seqb i ""); [apply delete_node_keeps_has_node|].
    intros _. apply Hsame. reflexivity.
  - apply delete_node_keeps_has_node.
Qed.

(* the targeted service row is gone *)
Lemma deregister_dsvc_removes c p n i x :
  In x (svcs (deregister c (DSvc p n i))) -> svc_has_node c x -> svc_key x <> (p, n, i).
Proof.
  cbn [deregister]. intros Hx Hn E.
  destruct x as [xp xn xi xname xt xb xk xnat xd xu xpm]. cbn [svc_key] in E. injection E as -> -> ->.
  seqb_cases i "".
  - subst. unfold delete_node in Hx. unfold svc_has_node in Hn. cbn [s_peer s_node] in Hn.
    destruct (get_node c p n); [|contradiction].
    cbn [svcs set_svcs set_chks set_nodes] in Hx. apply filter_In in Hx as [_ Hx].
    cbn [s_peer s_node] in Hx. rewrite !seqb_refl in Hx. discriminate.
  - unfold delete_service in Hx. destruct (get_svc c p n i) eqn:G.
    + cbn [svcs set_svcs set_chks] in Hx. apply in_tdel in Hx as [_ Hx]. apply Hx. reflexivity.
    + unfold get_svc in G. rewrite tget_none in G. eapply G; [exact Hx | reflexivity].
Qed.

(* ------------------------------------------------------------------ handler state *)

Lemma do_dereg_err d s : h_err s <> None -> do_dereg d s = s.
Proof. unfold do_dereg. destruct (h_err s); [reflexivity | contradiction]. Qed.

Lemma do_dereg_ok d s :
  h_err s = None -> h_cat (do_dereg d s) = deregister (h_cat s) d /\ h_err (do_dereg d s) = None.
Proof. unfold do_dereg. intros ->. auto. Qed.

Lemma perm_nil_eq {A} (l : list A) : Permutation l [] -> l = [].
Proof. intros H. apply Permutation_sym, Permutation_nil in H. exact H. Qed.

(* what CheckServiceNodes returned: one instance per service row of (peer, name) *)
Definition has_node_at (c : cat) (p : string) (x : svc) : Prop := get_node c p (s_node x) <> None.

Lemma csn_of_spec c p : forall l stored,
  csn_of c p l = Ok stored ->
  forall x, In x l -> has_node_at c p x /\ exists i, In i stored /\ i_svc i = x /\ n_name (i_node i) = s_node x.
Proof.
  induction l as [|y l IH]; intros stored H x Hx; [contradiction|].
  cbn [csn_of] in H. destruct (get_node c p (s_node y)) as [nd|] eqn:G; [|discriminate].
  destruct (csn_of c p l) as [rest|e] eqn:R; cbn [bind] in H; [|discriminate].
  injection H as <-. destruct Hx as [->|Hx].
  - split; [unfold has_node_at; congruence|]. eexists. split; [left; reflexivity|]. cbn. split; [reflexivity|].
    unfold get_node in G. apply tget_some in G as [_ K]. injection K as _ K. exact K.
  - destruct (IH rest eq_refl x Hx) as (Hn & i & Hi & E1 & E2). split; [exact Hn|].
    exists i. split; [right; exact Hi | auto].
Qed.

Lemma csn_of_svcs c p : forall l stored,
  csn_of c p l = Ok stored -> map i_svc stored = l.
Proof.
  induction l as [|y l IH]; intros stored H; cbn [csn_of] in H.
  - injection H as <-. reflexivity.
  - destruct (get_node c p (s_node y)); [|discriminate].
    destruct (csn_of c p l) as [rest|e] eqn:R; cbn [bind] in H; [|discriminate].
    injection H as <-. cbn. f_equal. apply IH. reflexivity.
Qed.

Lemma csn_of_node_name c p : forall l stored,
  csn_of c p l = Ok stored -> forall i, In i stored -> n_name (i_node i) = s_node (i_svc i).
Proof.
  induction l as [|y l IH]; intros stored H i Hi; cbn [csn_of] in H.
  - injection H as <-. contradiction.
  - destruct (get_node c p (s_node y)) as [nd|] eqn:G; [|discriminate].
    destruct (csn_of c p l) as [rest|e] eqn:R; cbn [bind] in H; [|discriminate].
    injection H as <-. destruct Hi as [<-|Hi].
    + cbn. unfold get_node in G. apply tget_some in G as [_ K]. injection K as _ K. exact K.
    + eapply IH; eauto.
Qed.

(* ------------------------------------------------------------------ deleting one service name *)

Section Delete.
  Variable sh : shuffles.
  Hypothesis sh_ok : shuffles_ok sh.
  Variable p : string.

  (* with an empty snapshot the loop over the stored instances only deregisters them *)
  Lemma stored_block_empty a i :
    stored_block p [] a i =
    P2 (do_dereg (DSvc p (n_name (i_node i)) (s_id (i_svc i))) (p2_st a))
       (add_str (n_name (i_node i)) (p2_unused a)) (p2_dnc a).
  Proof. reflexivity. Qed.

  (* invariant of the deletion loops *)
  Definition del_inv (c0 : cat) (sn : string) (s : hst) : Prop :=
    incl (svcs (h_cat s)) (svcs c0) /\
    (forall x, In x (svcs (h_cat s)) -> s_peer x = p -> s_name x = sn -> svc_has_node (h_cat s) x).

  Lemma del_inv_dereg c0 sn d s : del_inv c0 sn s -> del_inv c0 sn (do_dereg d s).
  Proof.
    intros [H1 H2]. unfold do_dereg. destruct (h_err s); [split; assumption|]. cbn [h_cat]. split.
    - eapply incl_tran; [apply deregister_svcs_incl | exact H1].
    - intros x Hx Hp Hs. apply deregister_keeps_has_node; [exact Hx|].
      apply H2; auto. apply deregister_svcs_incl in Hx. exact Hx.
  Qed.

  Lemma stored_loop_empty c0 sn : forall stored a,
    del_inv c0 sn (p2_st a) -> h_err (p2_st a) = None -> p2_dnc a = [] ->
    let a' := fold_left (stored_block p []) stored a in
    del_inv c0 sn (p2_st a') /\ h_err (p2_st a') = None /\ p2_dnc a' = [] /\
    (forall i x, In i stored -> In x (svcs (h_cat (p2_st a'))) -> s_peer x = p -> s_name x = sn ->
                 svc_key x <> (p, n_name (i_node i), s_id (i_svc i))).
  Proof.
    induction stored as [|i stored IH]; intros a Hinv He Hd; cbn [fold_left].
    - split; [exact Hinv|]. split; [exact He|]. split; [exact Hd|]. intros i x [].
    - rewrite stored_block_empty.
      set (a1 := P2 _ _ _).
      assert (Hinv1 : del_inv c0 sn (p2_st a1)) by (apply del_inv_dereg; exact Hinv).
      assert (He1 : h_err (p2_st a1) = None) by (cbn; apply do_dereg_ok; exact He).
      destruct (IH a1 Hinv1 He1 Hd) as (I1 & I2 & I3 & I4).
      split; [exact I1|]. split; [exact I2|]. split; [exact I3|].
      intros j x [<-|Hj] Hx Hp Hs; [|eapply I4; eauto].
      (* the row was removed by the first deregistration and nothing puts it back *)
      assert (Hsub : forall l b, incl (svcs (h_cat (p2_st (fold_left (stored_block p []) l b))))
                                      (svcs (h_cat (p2_st b)))).
      { induction l as [|k l IHl]; intros b; cbn [fold_left]; [apply incl_refl|].
        eapply incl_tran; [apply IHl|]. rewrite stored_block_empty. cbn [p2_st].
        unfold do_dereg. destruct (h_err (p2_st b)); [apply incl_refl|]. cbn [h_cat].
        apply deregister_svcs_incl. }
      apply Hsub in Hx. subst a1. cbn [p2_st] in Hx.
      destruct (do_dereg_ok (DSvc p (n_name (i_node i)) (s_id (i_svc i))) (p2_st a) He) as [Ec _].
      rewrite Ec in Hx. eapply deregister_dsvc_removes; [exact Hx|].
      destruct Hinv as [H1 H2]. apply H2; auto. apply deregister_svcs_incl in Hx. exact Hx.
  Qed.

  Lemma unused_loop c0 sn : forall l s,
    del_inv c0 sn s -> del_inv c0 sn (fold_left (unused_block p) l s).
  Proof.
    induction l as [|n l IH]; intros s Hs; cbn [fold_left]; [exact Hs|].
    apply IH. unfold unused_block. destruct (h_err s); [exact Hs|].
    destruct (node_has_services (h_cat s) p n); [exact Hs|]. apply del_inv_dereg. exact Hs.
  Qed.

  Lemma unused_loop_incl : forall l s,
    incl (svcs (h_cat (fold_left (unused_block p) l s))) (svcs (h_cat s)).
  Proof.
    induction l as [|n l IH]; intros s; cbn [fold_left]; [apply incl_refl|].
    eapply incl_tran; [apply IH|]. unfold unused_block. destruct (h_err s); [apply incl_refl|].
    destruct (node_has_services (h_cat s) p n); [apply incl_refl|].
    unfold do_dereg. destruct (h_err s); [apply incl_refl|]. cbn [h_cat]. apply deregister_svcs_incl.
  Qed.

  Lemma unused_loop_err : forall l s, h_err s = None -> h_err (fold_left (unused_block p) l s) = None.
  Proof.
    induction l as [|n l IH]; intros s Hs; cbn [fold_left]; [exact Hs|].
    apply IH. unfold unused_block. rewrite Hs.
    destruct (node_has_services (h_cat s) p n); [exact Hs|]. apply do_dereg_ok. exact Hs.
  Qed.

  (* handleUpdateService(peer, sn, nil) *)
  Lemma handle_delete_spec s0 sn :
    let s' := handle_update_from sh s0 p sn None in
    h_err s0 = None -> h_err s' = None ->
    incl (svcs (h_cat s')) (svcs (h_cat s0)) /\
    (forall x, In x (svcs (h_cat s')) -> s_peer x = p -> s_name x <> sn).
  Proof.
    intros s' He0 He'. subst s'. unfold handle_update_from in *. rewrite He0 in *.
    destruct (check_service_nodes (h_cat s0) p sn) as [stored|e] eqn:Ecsn; [|cbn in He'; discriminate].
    destruct sh_ok as (Hn & _ & _ & Hdn & _ & _).
    cbn [new_health_snapshot fold_left] in *.
    change (new_health_snapshot p []) with (@nil nsnap) in *.
    rewrite (perm_nil_eq _ (Hn [])) in *. cbn [fold_left] in *.
    set (c0 := h_cat s0) in *.
    assert (Hinv0 : del_inv c0 sn s0).
    { split; [apply incl_refl|]. intros x Hx Hp Hs. unfold check_service_nodes in Ecsn.
      eapply csn_of_spec in Ecsn as [Hh _].
      - unfold svc_has_node. rewrite Hp. exact Hh.
      - apply filter_In. split; [exact Hx|]. subst. rewrite !seqb_refl. reflexivity. }
    pose proof (stored_loop_empty c0 sn stored (P2 s0 [] []) Hinv0 He0 eq_refl) as (I1 & I2 & I3 & I4).
    set (a := fold_left (stored_block p []) stored (P2 s0 [] [])) in *.
    rewrite I3 in *. rewrite (perm_nil_eq _ (Hdn [])) in *. cbn [fold_left] in *.
    split.
    - eapply incl_tran; [apply unused_loop_incl|]. destruct I1 as [I1 _]. exact I1.
    - intros x Hx Hp Hs. apply unused_loop_incl in Hx.
      unfold check_service_nodes in Ecsn.
      assert (Hx0 : In x (svcs c0)) by (destruct I1 as [I1 _]; apply I1; exact Hx).
      eapply csn_of_spec in Ecsn as [_ (i & Hi & E1 & E2)].
      2:{ apply filter_In. split; [exact Hx0|]. rewrite Hp, Hs, !seqb_refl. reflexivity. }
      eapply I4; eauto. rewrite E1, E2. destruct x; cbn in *. subst. reflexivity.
  Qed.

  Lemma handle_update_from_err s0 sn ex : h_err s0 <> None -> handle_update_from sh s0 p sn ex = s0.
  Proof. unfold handle_update_from. destruct (h_err s0); [reflexivity | contradiction]. Qed.
End Delete.

(* ------------------------------------------------------------------ the exported-service list *)

Lemma in_nodup_str x l : In x (nodup_str l) <-> In x l.
Proof.
  induction l as [|y l IH]; cbn [nodup_str]; [reflexivity|].
  destruct (existsb (seqb y) l) eqn:E.
  - apply existsb_seqb_in in E. rewrite IH. cbn. split; [auto|]. intros [<-|H]; auto.
  - cbn. rewrite IH. reflexivity.
Qed.

Lemma in_service_list c p sn : In sn (service_list c p) <-> exists x, In x (svcs c) /\ s_peer x = p /\ s_name x = sn.
Proof.
  unfold service_list. rewrite in_nodup_str, in_map_iff. split.
  - intros (x & E & Hx). apply filter_In in Hx as [Hx Hp]. apply seqb_eq in Hp. eauto.
  - intros (x & Hx & Hp & E). exists x. split; [exact E|]. apply filter_In. split; [exact Hx|].
    apply seqb_eq. exact Hp.
Qed.

Section List.
  Variable sh : shuffles.
  Hypothesis sh_ok : shuffles_ok sh.
  Variable p : string.
  Variable names : list string.

  Definition list_step (s : hst) (sn : string) : hst :=
    if existsb (seqb sn) (exported_set names) then s else handle_update_from sh s p sn None.

  Lemma list_loop c0 : forall l s,
    incl (svcs (h_cat s)) (svcs c0) ->
    h_err (fold_left list_step l s) = None ->
    let s' := fold_left list_step l s in
    incl (svcs (h_cat s')) (svcs (h_cat s)) /\
    (forall sn x, In sn l -> ~ In sn (exported_set names) -> In x (svcs (h_cat s')) -> s_peer x = p -> s_name x <> sn).
  Proof.
    induction l as [|sn l IH]; intros s Hs He; cbn [fold_left] in *.
    - split; [apply incl_refl|]. intros sn x [].
    - assert (He1 : h_err s = None).
      { destruct (h_err s) eqn:E; [|reflexivity]. exfalso.
        assert (Hfix : forall l s, h_err s <> None -> fold_left list_step l s = s).
        { induction l0 as [|m l0 IHl]; intros s1 H1; cbn [fold_left]; [reflexivity|].
          assert (list_step s1 m = s1) as ->.
          { unfold list_step. destruct (existsb (seqb m) (exported_set names)); [reflexivity|].
            apply handle_update_from_err. exact H1. }
          apply IHl. exact H1. }
        rewrite Hfix in He.
        - unfold list_step in He. destruct (existsb (seqb sn) (exported_set names)); [congruence|].
          rewrite handle_update_from_err in He; congruence.
        - unfold list_step. destruct (existsb (seqb sn) (exported_set names)); [congruence|].
          rewrite handle_update_from_err; congruence. }
      set (s1 := list_step s sn) in *.
      assert (He2 : h_err s1 = None).
      { destruct (h_err s1) eqn:E; [|reflexivity]. exfalso.
        assert (Hfix : forall l s, h_err s <> None -> fold_left list_step l s = s).
        { induction l0 as [|m l0 IHl]; intros s2 H2; cbn [fold_left]; [reflexivity|].
          assert (list_step s2 m = s2) as ->.
          { unfold list_step. destruct (existsb (seqb m) (exported_set names)); [reflexivity|].
            apply handle_update_from_err. exact H2. }
          apply IHl. exact H2. }
        rewrite Hfix in He; congruence. }
      assert (Hstep : incl (svcs (h_cat s1)) (svcs (h_cat s)) /\
                      (~ In sn (exported_set names) -> forall x, In x (svcs (h_cat s1)) -> s_peer x = p -> s_name x <> sn)).
      { subst s1. unfold list_step in *. destruct (existsb (seqb sn) (exported_set names)) eqn:Ex.
        - split; [apply incl_refl|]. apply existsb_seqb_in in Ex. intros; contradiction.
        - destruct (handle_delete_spec sh sh_ok p s sn He1 He2) as [A B]. split; [exact A|]. intros _. exact B. }
      destruct Hstep as [A B].
      destruct (IH s1 (incl_tran A Hs) He) as [C D]. split; [eapply incl_tran; eauto|].
      intros m x [<-|Hm] Hne Hx Hp; [|eapply D; eauto].
      apply B; auto.
  Qed.

  Lemma handle_exported_list_prune c :
    let s' := handle_exported_list sh c p names in
    h_err s' = None ->
    incl (svcs (h_cat s')) (svcs c) /\
    (forall x, In x (svcs (h_cat s')) -> s_peer x = p -> In (s_name x) (exported_set names)).
  Proof.
    intros s' He. subst s'. unfold handle_exported_list in *.
    change (fun (s : hst) (sn : string) => if existsb (seqb sn) (exported_set names) then s
                                            else handle_update_from sh s p sn None) with list_step in *.
    destruct (list_loop c (sh_names sh (service_list c p)) (HSt c [] None) (incl_refl _) He) as [A B].
    split; [exact A|]. intros x Hx Hp.
    destruct (in_dec string_dec (s_name x) (exported_set names)) as [Hin|Hnot]; [exact Hin|].
    exfalso. eapply (B (s_name x) x); auto.
    destruct sh_ok as (_ & _ & _ & _ & _ & Hnm).
    eapply Permutation_in; [apply Permutation_sym, Hnm|].
    apply in_service_list. exists x. split; [apply A; exact Hx | auto].
  Qed.
End List.
