(* C17 — what one catalog verb does to the three tables, row by row (key locality).
   wf: primary keys are unique in each table (memdb's unique "id" index). *)
From Verif Require Import Base.Prelude Peering.Model Peering.Lemmas.
Require Import Coq.Sorting.Permutation.
Local Open Scope string_scope.

Definition wf (c : cat) : Prop :=
  keys_nodup node_key (nodes c) /\ keys_nodup svc_key (svcs c) /\ keys_nodup chk_key (chks c).

(* ------------------------------------------------------------------ lookups under wf *)

Lemma get_node_in c p n x : get_node c p n = Some x -> In x (nodes c) /\ n_peer x = p /\ n_name x = n.
Proof.
  unfold get_node. intros H. apply tget_some in H as [H K]. injection K as K1 K2. auto.
Qed.

Lemma get_svc_in c p n i x :
  get_svc c p n i = Some x -> In x (svcs c) /\ s_peer x = p /\ s_node x = n /\ s_id x = i.
Proof.
  unfold get_svc. intros H. apply tget_some in H as [H K]. injection K as K1 K2 K3. auto.
Qed.

Lemma get_chk_in c p n i x :
  get_chk c p n i = Some x -> In x (chks c) /\ c_peer x = p /\ c_node x = n /\ c_id x = i.
Proof.
  unfold get_chk. intros H. apply tget_some in H as [H K]. injection K as K1 K2 K3. auto.
Qed.

Lemma in_get_node c x : wf c -> In x (nodes c) -> get_node c (n_peer x) (n_name x) = Some x.
Proof. intros (H & _) Hx. unfold get_node. apply (tget_in node_key _ x H Hx). Qed.

Lemma in_get_svc c x : wf c -> In x (svcs c) -> get_svc c (s_peer x) (s_node x) (s_id x) = Some x.
Proof. intros (_ & H & _) Hx. unfold get_svc. apply (tget_in svc_key _ x H Hx). Qed.

Lemma in_get_chk c x : wf c -> In x (chks c) -> get_chk c (c_peer x) (c_node x) (c_id x) = Some x.
Proof. intros (_ & _ & H) Hx. unfold get_chk. apply (tget_in chk_key _ x H Hx). Qed.

(* ------------------------------------------------------------------ put / delete *)

Lemma wf_put_node c x : wf c -> wf (put_node c x).
Proof. intros (A & B & C). repeat split; cbn; auto. apply nodup_tput. exact A. Qed.
Lemma wf_put_svc c x : wf c -> wf (put_svc c x).
Proof. intros (A & B & C). repeat split; cbn; auto. apply nodup_tput. exact B. Qed.
Lemma wf_put_chk c x : wf c -> wf (put_chk c x).
Proof. intros (A & B & C). repeat split; cbn; auto. apply nodup_tput. exact C. Qed.
Lemma wf_set_topo c t : wf c -> wf (set_topo c t).
Proof. intros H. exact H. Qed.

Lemma wf_delete_check c p n i : wf c -> wf (delete_check c p n i).
Proof. intros (A & B & C). repeat split; cbn; auto. apply nodup_tdel. exact C. Qed.

Lemma wf_delete_service c p n i : wf c -> wf (delete_service c p n i).
Proof.
  intros (A & B & C). unfold delete_service. destruct (get_svc c p n i); [|repeat split; assumption].
  repeat split; cbn [nodes svcs chks set_svcs set_chks]; auto.
  - apply nodup_tdel. exact B.
  - apply nodup_filter. exact C.
Qed.

Lemma wf_delete_node c p n : wf c -> wf (delete_node c p n).
Proof.
  intros (A & B & C). unfold delete_node. destruct (get_node c p n); [|repeat split; assumption].
  repeat split; cbn [nodes svcs chks set_svcs set_chks set_nodes].
  - apply nodup_tdel. exact A.
  - apply nodup_filter. exact B.
  - apply nodup_filter. exact C.
Qed.

Lemma wf_deregister c d : wf c -> wf (deregister c d).
Proof.
  destruct d as [p n i|p n i|p n]; cbn [deregister]; intros H.
  - destruct (seqb i ""); [apply wf_delete_node | apply wf_delete_service]; exact H.
  - destruct (seqb i ""); [apply wf_delete_node | apply wf_delete_check]; exact H.
  - apply wf_delete_node; exact H.
Qed.

(* ------------------------------------------------------------------ ensureNodeTxn without a rename *)

(* no node of the peer holds nd's ID under another name: ensureNodeTxn does not take the
   "renaming a node" branch (deleteNodeTxn of the old name) *)
Definition no_rename (c : cat) (nd : node) : Prop :=
  forall x, In x (nodes c) -> n_peer x = n_peer nd -> n_id x = n_id nd -> n_id nd <> "" -> n_name x = n_name nd.

(* "the table is l with x put at its key", as sets *)
Definition is_put {A} (kf : A -> key) (x : A) (l l' : list A) : Prop :=
  forall y, In y l' <-> y = x \/ (In y l /\ kf y <> kf x).

Lemma is_put_tput {A} (kf : A -> key) x l : is_put kf x l (tput kf x l).
Proof. intros y. apply in_tput. Qed.

Lemma is_put_same {A} (kf : A -> key) x l : keys_nodup kf l -> In x l -> is_put kf x l l.
Proof.
  intros Hn Hx y. split.
  - intros Hy. destruct (key_eqb (kf y) (kf x)) eqn:E.
    + apply key_eqb_eq in E. left. eapply nodup_key_inj; eauto.
    + apply key_eqb_neq in E. auto.
  - intros [->|[Hy _]]; auto.
Qed.

Lemma ensure_node_spec c nd c' :
  wf c -> no_rename c nd -> ensure_node c nd = Ok c' ->
  wf c' /\ svcs c' = svcs c /\ chks c' = chks c /\ topo c' = topo c /\ is_put node_key nd (nodes c) (nodes c').
Proof.
  intros Hwf Hnr. unfold ensure_node.
  destruct (ensure_node_byid c nd) as [[c1 b]|e] eqn:E1; cbn [bind]; [|discriminate].
  (* without a rename the first half leaves the store alone, and a node found by ID is the
     node of that name *)
  assert (H1 : c1 = c /\ match b with Some ex => In ex (nodes c) /\ node_key ex = node_key nd | None => True end).
  { unfold ensure_node_byid in E1. seqb_cases (n_id nd) ""; [injection E1 as <- <-; auto|].
    destruct (get_node_by_id c (n_peer nd) (n_id nd)) as [ex|] eqn:G.
    - unfold get_node_by_id in G. apply find_some in G as [Hin G]. apply andb_true_iff in G as [G1 G2].
      apply seqb_eq in G1, G2.
      assert (Hname : n_name ex = n_name nd) by (apply Hnr; auto).
      rewrite Hname, seqb_refl in E1. injection E1 as <- <-. split; [reflexivity|]. split; [exact Hin|].
      unfold node_key. congruence.
    - destruct (similar_name_err c nd true); [discriminate|]. injection E1 as <- <-. auto. }
  destruct H1 as [-> Hb].
  assert (Hput : Ok (put_node c nd) = Ok c' ->
          wf c' /\ svcs c' = svcs c /\ chks c' = chks c /\ topo c' = topo c /\ is_put node_key nd (nodes c) (nodes c')).
  { intros E; injection E as <-. split; [apply wf_put_node; exact Hwf|]. repeat split; try reflexivity.
    all: apply (is_put_tput node_key nd (nodes c)). }
  assert (Hsame : forall ex, In ex (nodes c) -> node_key ex = node_key nd -> node_eqb nd ex = true -> Ok c = Ok c' ->
          wf c' /\ svcs c' = svcs c /\ chks c' = chks c /\ topo c' = topo c /\ is_put node_key nd (nodes c) (nodes c')).
  { intros ex Hin _ Heq E; injection E as <-. apply node_eqb_eq in Heq. subst ex.
    split; [exact Hwf|]. repeat split; try reflexivity.
    all: apply (is_put_same node_key nd (nodes c)); [apply Hwf | exact Hin]. }
  destruct b as [ex|].
  - destruct Hb as [Hin Hk]. destruct (node_eqb nd ex) eqn:Eq; [eapply Hsame; eauto | exact Hput].
  - destruct (get_node c (n_peer nd) (n_name nd)) as [ex|] eqn:G; [|exact Hput].
    destruct (node_eqb nd ex) eqn:Eq; [|exact Hput].
    apply get_node_in in G as (Hin & G1 & G2). eapply Hsame; eauto. unfold node_key. congruence.
Qed.

Lemma reg_node_spec c nd c' :
  wf c -> no_rename c nd -> reg_node c nd = Ok c' ->
  wf c' /\ svcs c' = svcs c /\ chks c' = chks c /\ topo c' = topo c /\ is_put node_key nd (nodes c) (nodes c').
Proof.
  intros Hwf Hnr. unfold reg_node. destruct (get_node c (n_peer nd) (n_name nd)) as [ex|] eqn:G.
  - destruct (node_eqb ex nd) eqn:Eq; [|apply ensure_node_spec; assumption].
    intros E; injection E as <-. apply node_eqb_eq in Eq. subst ex. apply get_node_in in G as (Hin & _).
    split; [exact Hwf|]. repeat split; try reflexivity.
    all: apply (is_put_same node_key nd (nodes c)); [apply Hwf | exact Hin].
  - apply ensure_node_spec; assumption.
Qed.

(* ------------------------------------------------------------------ ensureServiceTxn *)

Lemma ensure_service_spec c s c' :
  wf c -> ensure_service c s = Ok c' ->
  wf c' /\ nodes c' = nodes c /\ chks c' = chks c /\ is_put svc_key s (svcs c) (svcs c')
  /\ get_node c (s_peer s) (s_node s) <> None.
Proof.
  intros Hwf. unfold ensure_service.
  set (c1 := if topo_applies s then _ else c).
  assert (H1 : nodes c1 = nodes c /\ svcs c1 = svcs c /\ chks c1 = chks c).
  { subst c1. destruct (topo_applies s); repeat split; reflexivity. }
  destruct H1 as (N1 & S1 & K1).
  assert (Hwf1 : wf c1) by (unfold wf; rewrite N1, S1, K1; exact Hwf).
  assert (Hg : get_node c1 (s_peer s) (s_node s) = get_node c (s_peer s) (s_node s)).
  { unfold get_node. rewrite N1. reflexivity. }
  rewrite Hg. destruct (get_node c (s_peer s) (s_node s)) as [nd|] eqn:G; [|discriminate].
  assert (Hput : Ok (put_svc c1 s) = Ok c' ->
          wf c' /\ nodes c' = nodes c /\ chks c' = chks c /\ is_put svc_key s (svcs c) (svcs c') /\ Some nd <> None).
  { intros E; injection E as <-. split; [apply wf_put_svc; exact Hwf1|].
    cbn [put_svc nodes chks svcs set_svcs]. rewrite S1. repeat split; auto; try discriminate.
    all: apply (is_put_tput svc_key s (svcs c)). }
  destruct (get_svc c (s_peer s) (s_node s) (s_id s)) as [e|] eqn:Ge; [|exact Hput].
  destruct (svc_eqb s e) eqn:Eq; [|exact Hput].
  intros E; injection E as <-. apply svc_eqb_eq in Eq. subst e. apply get_svc_in in Ge as (Hin & _).
  split; [exact Hwf1|]. rewrite S1. repeat split; auto; try discriminate.
  all: apply (is_put_same svc_key s (svcs c)); [apply Hwf | exact Hin].
Qed.

Lemma reg_svc_spec c nd s0 c' :
  wf c -> reg_svc c nd (Some s0) = Ok c' -> s_peer s0 = n_peer nd ->
  let s := svc_set_node (n_name nd) s0 in
  wf c' /\ nodes c' = nodes c /\ chks c' = chks c /\ is_put svc_key s (svcs c) (svcs c').
Proof.
  intros Hwf H Hp s. unfold reg_svc in H. fold s in H.
  destruct (get_svc c (n_peer nd) (n_name nd) (s_id s)) as [ex|] eqn:G.
  - destruct (svc_is_same ex s) eqn:Eq.
    + injection H as <-. apply svc_is_same_eq in Eq. subst ex. apply get_svc_in in G as (Hin & _).
      split; [exact Hwf|]. repeat split; try reflexivity.
      all: apply (is_put_same svc_key s (svcs c)); [apply Hwf | exact Hin].
    + apply ensure_service_spec in H; [|exact Hwf]. tauto.
  - apply ensure_service_spec in H; [|exact Hwf]. tauto.
Qed.

(* ------------------------------------------------------------------ ensureCheckTxn *)

(* what IsSame looks at except the two fields the store copies from the service row *)
Definition chk_core (k : chk) : string * string * string * string * N * N :=
  (c_peer k, c_node k, c_id k, c_sid k, c_status k, c_body k).

Definition chk_norm (k : chk) : chk := if N.eqb (c_status k) 0 then chk_with_status k st_critical else k.

Lemma ensure_check_spec c k c' :
  wf c -> ensure_check c k = Ok c' ->
  exists k2, chk_key k2 = chk_key k /\ chk_core k2 = chk_core (chk_norm k) /\
             wf c' /\ nodes c' = nodes c /\ svcs c' = svcs c /\ topo c' = topo c /\
             is_put chk_key k2 (chks c) (chks c') /\
             (c_sid k <> "" -> exists s, get_svc c (c_peer k) (c_node k) (c_sid k) = Some s
                                         /\ c_sname k2 = s_name s /\ c_stags k2 = s_tags s).
Proof.
  intros Hwf. unfold ensure_check.
  destruct (get_node c (c_peer k) (c_node k)); [|discriminate].
  fold (chk_norm k). set (k1 := chk_norm k).
  assert (Hk1 : chk_key k1 = chk_key k /\ c_sid k1 = c_sid k).
  { subst k1. unfold chk_norm. destruct (N.eqb (c_status k) 0); split; reflexivity. }
  destruct Hk1 as [Hkey Hsid].
  assert (Hst : forall k2, chk_key k2 = chk_key k ->
            match get_chk c (c_peer k) (c_node k) (c_id k) with
            | Some e => if chk_eqb e k2 then Ok c else Ok (put_chk c k2)
            | None => Ok (put_chk c k2)
            end = Ok c' ->
            wf c' /\ nodes c' = nodes c /\ svcs c' = svcs c /\ topo c' = topo c /\ is_put chk_key k2 (chks c) (chks c')).
  { intros k2 Hk2.
    assert (Hput : Ok (put_chk c k2) = Ok c' ->
            wf c' /\ nodes c' = nodes c /\ svcs c' = svcs c /\ topo c' = topo c /\ is_put chk_key k2 (chks c) (chks c')).
    { intros E; injection E as <-. split; [apply wf_put_chk; exact Hwf|]. repeat split; try reflexivity.
      all: apply (is_put_tput chk_key k2 (chks c)). }
    destruct (get_chk c (c_peer k) (c_node k) (c_id k)) as [e|] eqn:G; [|exact Hput].
    destruct (chk_eqb e k2) eqn:Eq; [|exact Hput].
    intros E; injection E as <-. apply chk_eqb_eq in Eq. subst e. apply get_chk_in in G as (Hin & _).
    split; [exact Hwf|]. repeat split; try reflexivity.
    all: apply (is_put_same chk_key k2 (chks c)); [apply Hwf | exact Hin]. }
  rewrite Hsid. seqb_cases (c_sid k) "".
  - intros H. exists k1. destruct (Hst k1 Hkey H) as (A & B & C & D & F).
    split; [exact Hkey|]. split; [reflexivity|]. split; [exact A|]. split; [exact B|].
    split; [exact C|]. split; [exact D|]. split; [exact F|]. intros; contradiction.
  - destruct (get_svc c (c_peer k) (c_node k) (c_sid k)) as [s|] eqn:G; [|discriminate].
    intros H. exists (chk_with_svc k1 (s_name s) (s_tags s)).
    assert (Hkey2 : chk_key (chk_with_svc k1 (s_name s) (s_tags s)) = chk_key k) by exact Hkey.
    destruct (Hst _ Hkey2 H) as (A & B & C & D & F).
    split; [exact Hkey2|]. split; [reflexivity|]. split; [exact A|]. split; [exact B|].
    split; [exact C|]. split; [exact D|]. split; [exact F|]. intros _. exists s. auto.
Qed.
