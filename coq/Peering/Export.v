(* C17 — exporting side: a name is offered to a peer exactly when an exported-services entry
   names that peer as a consumer of it (or of the wildcard, for names that exist). *)
From Verif Require Import Base.Prelude Peering.Model Peering.Lemmas.
Local Open Scope string_scope.

Lemma in_add_str x y l : In x (add_str y l) <-> x = y \/ In x l.
Proof.
  unfold add_str. destruct (existsb (seqb y) l) eqn:E.
  - apply existsb_seqb_in in E. split; [auto|]. intros [->|H]; auto.
  - rewrite in_app_iff. cbn. intuition.
Qed.

Lemma in_add_all x ys : forall l, In x (add_all ys l) <-> In x ys \/ In x l.
Proof.
  unfold add_all. induction ys as [|y ys IH]; intros l; cbn [fold_left].
  - cbn. intuition.
  - rewrite IH, in_add_str. cbn. intuition.
Qed.

(* [e] names [peer] as a consumer and covers the name [s] *)
Definition names_peer (peer s : string) (e : string * list string) : Prop :=
  In peer (snd e) /\ (fst e = s \/ fst e = wildcard).

Definition step_services (peer : string) (typical : list string) acc (e : string * list string) :=
  let '(name, consumers) := e in
  if seqb name consul_name then acc
  else if negb (existsb (seqb peer) consumers) then acc
  else if negb (seqb name wildcard) then add_str name acc
  else add_all (filter (fun s => negb (seqb s consul_name)) typical) acc.

Lemma exported_services_fold peer entry typical :
  exported_services peer entry typical = fold_left (step_services peer typical) entry [].
Proof. reflexivity. Qed.

Lemma step_services_spec peer typical acc e s :
  In s (step_services peer typical acc e) <->
  In s acc \/ (fst e <> consul_name /\ In peer (snd e) /\
               ((fst e <> wildcard /\ s = fst e) \/ (fst e = wildcard /\ In s typical /\ s <> consul_name))).
Proof.
  destruct e as [name consumers]. cbn [step_services fst snd].
  seqb_cases name consul_name.
  { subst. intuition. }
  destruct (existsb (seqb peer) consumers) eqn:Ep; cbn [negb].
  2:{ apply existsb_seqb_notin in Ep. intuition. }
  apply existsb_seqb_in in Ep.
  seqb_cases name wildcard; cbn [negb].
  - rewrite in_add_all, filter_In, negb_true_iff, seqb_neq. subst. intuition.
  - rewrite in_add_str. intuition.
Qed.

Lemma fold_services_spec peer typical entry : forall acc s,
  In s (fold_left (step_services peer typical) entry acc) <->
  In s acc \/ exists e, In e entry /\ fst e <> consul_name /\ In peer (snd e) /\
               ((fst e <> wildcard /\ s = fst e) \/ (fst e = wildcard /\ In s typical /\ s <> consul_name)).
Proof.
  induction entry as [|e entry IH]; intros acc s; cbn [fold_left].
  - split; [auto|]. intros [H|(e & [] & _)]. exact H.
  - rewrite IH, step_services_spec. split.
    + intros [[H|H]|(e' & He' & H)]; [auto| |].
      * right. exists e. cbn. auto.
      * right. exists e'. cbn. auto.
    + intros [H|(e' & [<-|He'] & H)]; [auto|auto|]. right. exists e'. auto.
Qed.

(* exact characterisation of the list of exported services *)
Lemma exported_services_spec peer entry typical s :
  In s (exported_services peer entry typical) <->
  exists e, In e entry /\ fst e <> consul_name /\ In peer (snd e) /\
            ((fst e <> wildcard /\ s = fst e) \/ (fst e = wildcard /\ In s typical /\ s <> consul_name)).
Proof.
  rewrite exported_services_fold, fold_services_spec. cbn. intuition.
Qed.

Lemma exported_services_named peer entry typical s :
  In s (exported_services peer entry typical) ->
  s <> consul_name /\ exists e, In e entry /\ names_peer peer s e.
Proof.
  intros H. apply exported_services_spec in H as (e & He & Hc & Hp & [[Hw ->]|(Hw & Ht & Hs)]).
  - split; [exact Hc|]. exists e. unfold names_peer. auto.
  - split; [exact Hs|]. exists e. unfold names_peer. auto.
Qed.

Definition step_wild (peer : string) (chains : list string) acc (e : string * list string) :=
  let '(name, consumers) := e in
  if seqb name consul_name then acc
  else if negb (existsb (seqb peer) consumers) then acc
  else if negb (seqb name wildcard) then acc
  else add_all (filter (fun s => negb (seqb s consul_name)) chains) acc.

Lemma fold_wild_named peer chains entry : forall acc s,
  In s (fold_left (step_wild peer chains) entry acc) ->
  In s acc \/ (s <> consul_name /\ exists e, In e entry /\ names_peer peer s e).
Proof.
  induction entry as [|e entry IH]; intros acc s; cbn [fold_left]; [auto|].
  intros H. apply IH in H as [H|(Hs & e' & He' & Hn)].
  - destruct e as [name consumers]. cbn [step_wild] in H.
    seqb_cases name consul_name; [auto|].
    destruct (existsb (seqb peer) consumers) eqn:Ep; cbn [negb] in H; [|auto].
    apply existsb_seqb_in in Ep.
    seqb_cases name wildcard; cbn [negb] in H; [|auto].
    apply in_add_all in H as [H|H]; [|auto].
    apply filter_In in H as [_ H]. apply negb_true_iff, seqb_neq in H.
    right. split; [exact H|]. exists (name, consumers). unfold names_peer. cbn. auto.
  - right. split; [exact Hs|]. exists e'. cbn. auto.
Qed.

Lemma exported_chains_named peer entry typical connect chains tgw chain_ok s :
  In s (exported_chains peer entry typical connect chains tgw chain_ok) ->
  s <> consul_name /\ exists e, In e entry /\ names_peer peer s e.
Proof.
  unfold exported_chains. intros H. apply filter_In in H as [H _].
  apply in_add_all in H as [H|H].
  - apply filter_In in H as [H _]. apply exported_services_named in H. exact H.
  - change (In s (fold_left (step_wild peer chains) entry [])) in H.
    apply fold_wild_named in H as [[]|H]. exact H.
Qed.
