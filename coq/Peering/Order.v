(* C17 — the iteration orders read off the implementation's call log (Run/C17.v hint_shuffles)
   are legal iteration orders: the model instance evaluated by the correspondence check is one
   of those the theorems quantify over. *)
From Verif Require Import Base.Prelude Peering.Model Peering.Lemmas Run.C17.
Require Import Coq.Sorting.Permutation.
Local Open Scope string_scope.

Lemma filter_split_perm {A} (f : A -> bool) l : Permutation l (filter f l ++ filter (fun a => negb (f a)) l).
Proof.
  induction l as [|x l IH]; cbn [filter app]; [constructor|].
  destruct (f x); cbn [negb app].
  - constructor. exact IH.
  - eapply Permutation_trans; [apply perm_skip; exact IH|]. apply Permutation_middle.
Qed.

Lemma filter_filter_and {A} (f g : A -> bool) l : filter f (filter g l) = filter (fun x => g x && f x) l.
Proof.
  induction l as [|x l IH]; cbn [filter]; [reflexivity|].
  destruct (g x); cbn [andb filter]; [destruct (f x); rewrite IH; reflexivity | exact IH].
Qed.

Lemma flat_map_ext_in {A B} (f g : A -> list B) l : (forall a, In a l -> f a = g a) -> flat_map f l = flat_map g l.
Proof.
  induction l as [|x l IH]; intros H; cbn [flat_map]; [reflexivity|].
  rewrite (H x (or_introl eq_refl)), IH; [reflexivity|]. intros a Ha. apply H. right. exact Ha.
Qed.

Section Reorder.
  Context {A K : Type} (key : A -> K) (keqb : K -> K -> bool).
  Hypothesis keqb_eq : forall a b, keqb a b = true <-> a = b.

  Lemma keqb_refl a : keqb a a = true.
  Proof. apply keqb_eq. reflexivity. Qed.

  Lemma nodup_dedup l : NoDup (dedup keqb l).
  Proof.
    induction l as [|x l IH]; cbn [dedup]; constructor.
    - rewrite filter_In. intros [_ H]. rewrite keqb_refl in H. discriminate.
    - apply NoDup_filter. exact IH.
  Qed.

  Lemma existsb_dedup k l : existsb (fun h => keqb h k) (dedup keqb l) = existsb (fun h => keqb h k) l.
  Proof.
    induction l as [|x l IH]; cbn [dedup existsb]; [reflexivity|].
    destruct (keqb x k) eqn:E; cbn [orb]; [reflexivity|]. rewrite <- IH.
    (* removing the copies of x (a key different from k) does not change whether k occurs *)
    generalize (dedup keqb l). intros m. induction m as [|y m IHm]; cbn [filter existsb]; [reflexivity|].
    destruct (keqb x y) eqn:Exy; cbn [negb existsb].
    - apply keqb_eq in Exy. subst y. rewrite E. cbn [orb]. exact IHm.
    - rewrite IHm. reflexivity.
  Qed.

  (* for distinct keys hs: l is the groups of hs followed by the rest *)
  Lemma groups_perm : forall hs l, NoDup hs ->
    Permutation l (flat_map (fun h => filter (fun a => keqb h (key a)) l) hs
                   ++ filter (fun a => negb (existsb (fun h => keqb h (key a)) hs)) l).
  Proof.
    induction hs as [|h hs IH]; intros l Hn; cbn [flat_map existsb app].
    - cbn [negb]. rewrite filter_all; [apply Permutation_refl | auto].
    - inversion Hn as [|? ? Hnin Hn']; subst.
      eapply Permutation_trans; [apply (filter_split_perm (fun a => keqb h (key a)) l)|].
      rewrite <- app_assoc. apply Permutation_app_head.
      set (rest := filter (fun a => negb (keqb h (key a))) l).
      assert (E1 : flat_map (fun h' => filter (fun a => keqb h' (key a)) rest) hs
                   = flat_map (fun h' => filter (fun a => keqb h' (key a)) l) hs).
      { apply flat_map_ext_in. intros h' Hh'. unfold rest. apply filter_filter_imp.
        intros x _ Hx. apply keqb_eq in Hx. apply negb_true_iff.
        destruct (keqb h (key x)) eqn:E; [|reflexivity]. apply keqb_eq in E. subst. contradiction. }
      assert (E2 : filter (fun a => negb (existsb (fun h' => keqb h' (key a)) hs)) rest
                   = filter (fun a => negb (keqb h (key a) || existsb (fun h' => keqb h' (key a)) hs)) l).
      { unfold rest. rewrite filter_filter_and. apply filter_ext. intros a.
        destruct (keqb h (key a)); cbn [negb andb orb]; reflexivity. }
      rewrite <- E1, <- E2. apply (IH rest Hn').
  Qed.

  Lemma reorder_perm hint l : Permutation (reorder key keqb hint l) l.
  Proof.
    unfold reorder. apply Permutation_sym.
    eapply Permutation_trans; [apply (groups_perm (dedup keqb hint) l (nodup_dedup hint))|].
    apply Permutation_app_head. apply Permutation_refl'. apply filter_ext. intros a.
    rewrite existsb_dedup. reflexivity.
  Qed.
End Reorder.

Lemma pair_eqb_spec a b : pair_eqb a b = true <-> a = b.
Proof.
  destruct a, b. unfold pair_eqb. cbn. rewrite andb_true_iff, !seqb_eq. split; [intros [-> ->]; reflexivity|intros E; injection E; auto].
Qed.

Theorem hint_shuffles_ok h : shuffles_ok (hint_shuffles h).
Proof.
  unfold hint_shuffles, shuffles_ok. cbn [sh_nodes sh_svcs sh_chks sh_dnc sh_unused sh_names].
  split; [intros l; apply reorder_perm, seqb_eq|].
  split; [intros l; apply reorder_perm, pair_eqb_spec|].
  split; [intros l; apply reorder_perm, chk_eqb_eq|].
  split; [intros l; apply Permutation_refl|].
  split; [intros l; apply Permutation_refl|].
  intros l; apply reorder_perm, seqb_eq.
Qed.
