(* C17 — peering imports.  Hand-written model of
     agent/grpc-external/services/peerstream/replication.go
        handleUpsert / handleUpdateService / handleUpsertExportedServiceList, buildStoredMap
     agent/grpc-external/services/peerstream/health_snapshot.go   newHealthSnapshot
     agent/consul/state/catalog.go   ensureRegistrationTxn, ensureNodeTxn,
        ensureNoNodeWithSimilarNameTxn, ensureServiceTxn, updateMeshTopology, ensureCheckTxn,
        deleteNodeTxn, deleteServiceTxn, deleteCheckTxn, checkServiceNodesTxn /
        parseCheckServiceNodes, serviceListTxn, NodeServiceList
     agent/consul/fsm/commands_ce.go  applyRegister / applyDeregister (the Backend calls)
     agent/consul/state/peering.go    exportedServicesForPeerTxn
   as they are (including what is wrong in them).  No proofs in this file.

   Scope of the catalog verbs (state of /repo: updateMeshTopology keeps the references of other
   instances, acb191c, and skips imported instances, e4a855c): rows of the three catalog tables are keyed by
   (peer, node), (peer, node, service id), (peer, node, check id) exactly as the memdb
   indexers build the keys (indexWithPeerName); the verbs are modelled for peer-keyed rows
   (peer <> ""), which is all the peerstream handlers ever pass.  Names are taken to be
   lower case ASCII (memdb lower-cases every key component and the code compares names with
   strings.EqualFold: on that class both are plain equality).  Content that the handlers only
   compare (addresses, meta, ports, proxy config, check output ...) is one number per row
   (a hash computed by the harness); equal hash <-> IsSame on that content.
   Virtual-IP stamping of imported connect services is outside this model (the store is run with
   the "virtual-ips" system-metadata flag off when compared with the model; with the flag on,
   the Go oracle projects the stamped address away). *)
From Verif Require Import Base.Prelude.
Require Import Coq.Sorting.Permutation.
Local Open Scope string_scope.

(* ------------------------------------------------------------------ rows *)

Record node := Node { n_peer : string; n_name : string; n_id : string; n_body : N }.

Record svc := Svc {
  s_peer : string; s_node : string; s_id : string; s_name : string;
  s_tags : N;            (* ServiceTags, copied into the checks of the service *)
  s_body : N;            (* everything else NodeService.IsSame compares *)
  s_kind : N;            (* 0 typical, 1 connect-proxy, 2 any other kind *)
  s_native : bool;       (* Connect.Native *)
  s_dest : string;       (* Proxy.DestinationServiceName *)
  s_ups : list string;   (* Proxy.Upstreams[i].DestinationName *)
  s_pm : bool            (* Connect.PeerMeta != nil (a pointer; its content is part of s_body) *)
}.

Record chk := Chk {
  c_peer : string; c_node : string; c_id : string;
  c_sid : string;        (* ServiceID, "" for a node-level check *)
  c_sname : string; c_stags : N;   (* ServiceName / ServiceTags: copies of the service row *)
  c_status : N;          (* 0 "", 1 passing, 2 warning, 3 critical, 4 maintenance *)
  c_body : N
}.

(* mesh-topology: (upstream, downstream) -> set of "node/serviceID" references; no peer in the key *)
Record trow := Topo { t_up : string; t_down : string; t_refs : list string }.

Record cat := Cat { nodes : list node; svcs : list svc; chks : list chk; topo : list trow }.

Definition st_critical : N := 3.
Definition serf_id : string := "serfHealth".

Definition seqb := String.eqb.

Definition node_eqb (a b : node) : bool :=
  seqb (n_peer a) (n_peer b) && seqb (n_name a) (n_name b) && seqb (n_id a) (n_id b)
  && N.eqb (n_body a) (n_body b).

Definition svc_eqb (a b : svc) : bool :=
  seqb (s_peer a) (s_peer b) && seqb (s_node a) (s_node b) && seqb (s_id a) (s_id b)
  && seqb (s_name a) (s_name b) && N.eqb (s_tags a) (s_tags b) && N.eqb (s_body a) (s_body b)
  && N.eqb (s_kind a) (s_kind b) && Bool.eqb (s_native a) (s_native b)
  && seqb (s_dest a) (s_dest b) && list_eqb seqb (s_ups a) (s_ups b) && Bool.eqb (s_pm a) (s_pm b).

(* NodeService.IsSame compares the ServiceConnect structs with `!=`, i.e. the PeerMeta
   POINTERS: two services that both carry peer metadata are never "the same" (the synthetic
   sidecar proxies of an exported discovery chain always carry it).  ServiceNode.IsSameService,
   used inside ensureServiceTxn, compares with reflect.DeepEqual and has no such effect. *)
Definition svc_is_same (a b : svc) : bool := svc_eqb a b && negb (s_pm a).

Definition chk_eqb (a b : chk) : bool :=
  seqb (c_peer a) (c_peer b) && seqb (c_node a) (c_node b) && seqb (c_id a) (c_id b)
  && seqb (c_sid a) (c_sid b) && seqb (c_sname a) (c_sname b) && N.eqb (c_stags a) (c_stags b)
  && N.eqb (c_status a) (c_status b) && N.eqb (c_body a) (c_body b).

(* ------------------------------------------------------------------ keys and tables *)

(* Primary keys as the memdb indexers build them (indexWithPeerName): peer, node, id.
   A table is a list of rows; tput is tx.Insert on a unique primary index (the row with the
   same key is replaced), tdel is tx.Delete. *)
Definition key := (string * string * string)%type.
Definition key_eqb (a b : key) : bool :=
  let '(a1, a2, a3) := a in let '(b1, b2, b3) := b in seqb a1 b1 && seqb a2 b2 && seqb a3 b3.

Definition node_key (x : node) : key := (n_peer x, n_name x, "").
Definition svc_key (x : svc) : key := (s_peer x, s_node x, s_id x).
Definition chk_key (x : chk) : key := (c_peer x, c_node x, c_id x).

Definition tget {A} (kf : A -> key) (k : key) (l : list A) : option A :=
  find (fun x => key_eqb (kf x) k) l.
Definition tdel {A} (kf : A -> key) (k : key) (l : list A) : list A :=
  filter (fun y => negb (key_eqb (kf y) k)) l.
Definition tput {A} (kf : A -> key) (x : A) (l : list A) : list A := x :: tdel kf (kf x) l.

Definition get_node (c : cat) (p n : string) : option node := tget node_key (p, n, "") (nodes c).
Definition get_node_by_id (c : cat) (p id : string) : option node :=
  find (fun x => seqb (n_peer x) p && seqb (n_id x) id) (nodes c).
Definition get_svc (c : cat) (p n i : string) : option svc := tget svc_key (p, n, i) (svcs c).
Definition get_chk (c : cat) (p n i : string) : option chk := tget chk_key (p, n, i) (chks c).

Definition set_nodes (c : cat) l := Cat l (svcs c) (chks c) (topo c).
Definition set_svcs (c : cat) l := Cat (nodes c) l (chks c) (topo c).
Definition set_chks (c : cat) l := Cat (nodes c) (svcs c) l (topo c).
Definition set_topo (c : cat) l := Cat (nodes c) (svcs c) (chks c) l.

Definition put_node (c : cat) (x : node) : cat := set_nodes c (tput node_key x (nodes c)).
Definition put_svc (c : cat) (x : svc) : cat := set_svcs c (tput svc_key x (svcs c)).
Definition put_chk (c : cat) (x : chk) : cat := set_chks c (tput chk_key x (chks c)).

Inductive res (A : Type) := Ok (a : A) | Err (e : N).
Arguments Ok {A} a.
Arguments Err {A} e.
Definition bind {A B} (r : res A) (f : A -> res B) : res B :=
  match r with Ok a => f a | Err e => Err e end.

Definition e_reserved : N := 1.        (* "Node name %s is reserved by node ..." *)
Definition e_missing_node : N := 2.    (* ErrMissingNode *)
Definition e_missing_service : N := 3. (* ErrMissingService *)
Definition e_check_node : N := 4.      (* "check node %q does not match node %q" *)
Definition e_read : N := 5.            (* "failed to read imported services" *)
Definition e_peers : N := 6.           (* "... multiple peer names in one registration request" *)

(* ------------------------------------------------------------------ deletes *)

(* deleteCheckTxn (peer rows: no sessions involved) *)
Definition delete_check (c : cat) (p n i : string) : cat :=
  set_chks c (tdel chk_key (p, n, i) (chks c)).

(* deleteServiceTxn: the checks of the service on that node, then the row.
   (cleanupMeshTopology returns at once for a peer row; kind-service-names, gateway wildcards
   are only touched for local rows.) *)
Definition delete_service (c : cat) (p n i : string) : cat :=
  match get_svc c p n i with
  | None => c
  | Some _ =>
      let c1 := set_chks c (filter (fun y => negb (seqb (c_peer y) p && seqb (c_node y) n
                                                   && seqb (c_sid y) i)) (chks c)) in
      set_svcs c1 (tdel svc_key (p, n, i) (svcs c1))
  end.

(* deleteNodeTxn: every service of the node (each with its checks), every remaining check of
   the node, the row (coordinates and sessions only exist for local nodes) *)
Definition delete_node (c : cat) (p n : string) : cat :=
  match get_node c p n with
  | None => c
  | Some _ =>
      let c1 := set_svcs c (filter (fun y => negb (seqb (s_peer y) p && seqb (s_node y) n)) (svcs c)) in
      let c2 := set_chks c1 (filter (fun y => negb (seqb (c_peer y) p && seqb (c_node y) n)) (chks c1)) in
      set_nodes c2 (tdel node_key (p, n, "") (nodes c2))
  end.

(* ------------------------------------------------------------------ ensureNodeTxn *)

(* no Serf check -> "safe to rename"; otherwise healthy unless critical *)
Definition node_healthy (c : cat) (p n : string) : bool :=
  match get_chk c p n serf_id with
  | Some k => negb (N.eqb (c_status k) st_critical)
  | None => false
  end.

(* ensureNoNodeWithSimilarNameTxn *)
Definition similar_name_err (c : cat) (nd : node) (allow_clash_without_id : bool) : bool :=
  existsb (fun e => seqb (n_peer e) (n_peer nd) && seqb (n_name e) (n_name nd)
                    && negb (seqb (n_id e) (n_id nd))
                    && (negb (seqb (n_id e) "") || negb allow_clash_without_id)
                    && node_healthy c (n_peer e) (n_name e))
          (nodes c).

(* first half of ensureNodeTxn: "See if there's an existing node with this UUID, and make
   sure the name is the same" *)
Definition ensure_node_byid (c : cat) (nd : node) : res (cat * option node) :=
  let p := n_peer nd in
  if seqb (n_id nd) "" then Ok (c, None)
  else match get_node_by_id c p (n_id nd) with
       | Some ex =>
           if seqb (n_name ex) (n_name nd) then Ok (c, Some ex)
           else if similar_name_err c nd false then Err e_reserved
                else (* renaming: remove the old reference first *)
                  Ok (delete_node c p (n_name ex), Some ex)
       | None =>
           if similar_name_err c nd true then Err e_reserved else Ok (c, None)
       end.

Definition ensure_node (c : cat) (nd : node) : res cat :=
  bind (ensure_node_byid c nd) (fun '(c1, byid) =>
    let n := match byid with Some ex => Some ex | None => get_node c1 (n_peer nd) (n_name nd) end in
    match n with
    | Some ex => if node_eqb nd ex then Ok c1 else Ok (put_node c1 nd)
    | None => Ok (put_node c1 nd)
    end).

(* ------------------------------------------------------------------ ensureServiceTxn *)

Definition is_connect (s : svc) : bool := N.eqb (s_kind s) 1 || s_native s.

Definition topo_at (u d : string) (t : trow) : bool := seqb (t_up t) u && seqb (t_down t) d.
Definition topo_del (u d : string) (l : list trow) : list trow :=
  filter (fun t => negb (topo_at u d t)) l.
Definition topo_put (u d : string) (refs : list string) (l : list trow) : list trow :=
  Topo u d refs :: topo_del u d l.

Definition uid (node sid : string) : string := node ++ "/" ++ sid.

(* updateMeshTopology.  The (upstream, downstream) row gains the reference of this instance
   (the references of other instances are kept); upstreams of the previous registration that
   are gone are deleted for that downstream (DeleteAll, whoever else refers to them).  The
   key has no peer: "TODO(peering): make this peering aware" — until then the function
   returns at once for an imported instance (svc.PeerName != ""), like cleanupMeshTopology. *)
Definition topo_refs (u d : string) (l : list trow) : list string :=
  match find (topo_at u d) l with Some t => t_refs t | None => [] end.

Definition add_ref (r : string) (refs : list string) : list string :=
  if existsb (seqb r) refs then refs else (refs ++ [r])%list.

Definition update_topo (c : cat) (s : svc) (existing : option svc) : cat :=
  let old := match existing with Some e => s_ups e | None => [] end in
  let down := s_dest s in
  let t1 := fold_left (fun t u => topo_put u down (add_ref (uid (s_node s) (s_id s)) (topo_refs u down t)) t)
                      (s_ups s) (topo c) in
  let t2 := fold_left (fun t u => if existsb (seqb u) (s_ups s) then t else topo_del u down t) old t1 in
  set_topo c t2.

(* "if svc.Kind == ConnectProxy || svc.Connect.Native" and not an imported instance *)
Definition topo_applies (s : svc) : bool := is_connect s && seqb (s_peer s) "".

Definition ensure_service (c : cat) (s : svc) : res cat :=
  let p := s_peer s in
  let existing := get_svc c p (s_node s) (s_id s) in
  let c1 := if topo_applies s then update_topo c s existing else c in
  match get_node c1 p (s_node s) with
  | None => Err e_missing_node
  | Some _ =>
      match existing with
      | Some e => if svc_eqb s e then Ok c1 else Ok (put_svc c1 s)
      | None => Ok (put_svc c1 s)
      end
  end.

(* ------------------------------------------------------------------ ensureCheckTxn *)

Definition chk_with_status (k : chk) (st : N) : chk :=
  Chk (c_peer k) (c_node k) (c_id k) (c_sid k) (c_sname k) (c_stags k) st (c_body k).
Definition chk_with_svc (k : chk) (sname : string) (stags : N) : chk :=
  Chk (c_peer k) (c_node k) (c_id k) (c_sid k) sname stags (c_status k) (c_body k).

Definition ensure_check (c : cat) (k : chk) : res cat :=
  let p := c_peer k in
  let existing := get_chk c p (c_node k) (c_id k) in
  let k1 := if N.eqb (c_status k) 0 then chk_with_status k st_critical else k in
  match get_node c p (c_node k) with
  | None => Err e_missing_node
  | Some _ =>
      let store k2 := match existing with
                      | Some e => if chk_eqb e k2 then Ok c else Ok (put_chk c k2)
                      | None => Ok (put_chk c k2)
                      end in
      if seqb (c_sid k1) "" then store k1
      else match get_svc c p (c_node k) (c_sid k) with
           | None => Err e_missing_service
           | Some s => store (chk_with_svc k1 (s_name s) (s_tags s))
           end
  end.

(* ------------------------------------------------------------------ the two Backend calls *)

Definition svc_set_node (n : string) (x : svc) :=
  Svc (s_peer x) n (s_id x) (s_name x) (s_tags x) (s_body x) (s_kind x) (s_native x) (s_dest x) (s_ups x) (s_pm x).

Record regreq := Reg { r_node : node; r_svc : option svc; r_chks : list chk }.
Inductive dereq := DSvc (p n i : string) | DChk (p n i : string) | DNode (p n : string).
Inductive op := OReg (r : regreq) | ODereg (d : dereq).

Fixpoint ensure_checks (c : cat) (node : string) (ks : list chk) : res cat :=
  match ks with
  | [] => Ok c
  | k :: ks' =>
      if negb (seqb (c_node k) node) then Err e_check_node
      else bind (ensure_check c k) (fun c' => ensure_checks c' node ks')
  end.

(* validateRegisterRequestPeerNamesTxn *)
Definition reg_peers_ok (r : regreq) : bool :=
  let p := n_peer (r_node r) in
  match r_svc r with Some s => seqb (s_peer s) p | None => true end
  && forallb (fun k => seqb (c_peer k) p) (r_chks r).

(* "existing == nil || req.ChangesNode(existing)" *)
Definition reg_node (c : cat) (nd : node) : res cat :=
  match get_node c (n_peer nd) (n_name nd) with
  | Some ex => if node_eqb ex nd then Ok c else ensure_node c nd
  | None => ensure_node c nd
  end.

(* "existing == nil || !existing.ToNodeService().IsSame(req.Service)" *)
Definition reg_svc (c : cat) (nd : node) (os : option svc) : res cat :=
  match os with
  | None => Ok c
  | Some s0 =>
      let s := svc_set_node (n_name nd) s0 in      (* svc.ToServiceNode(req.Node) *)
      match get_svc c (n_peer nd) (n_name nd) (s_id s) with
      | Some ex => if svc_is_same ex s then Ok c else ensure_service c s
      | None => ensure_service c s
      end
  end.

(* ensureRegistrationTxn; one memdb transaction: an error leaves the store as it was *)
Definition register (c : cat) (r : regreq) : res cat :=
  if negb (reg_peers_ok r) then Err e_peers else
  bind (reg_node c (r_node r)) (fun c1 =>
  bind (reg_svc c1 (r_node r) (r_svc r)) (fun c2 =>
  ensure_checks c2 (n_name (r_node r)) (r_chks r))).

(* FSM.applyDeregister: "if req.ServiceID != "" ... else if req.CheckID != "" ... else DeleteNode" *)
Definition deregister (c : cat) (d : dereq) : cat :=
  match d with
  | DSvc p n i => if seqb i "" then delete_node c p n else delete_service c p n i
  | DChk p n i => if seqb i "" then delete_node c p n else delete_check c p n i
  | DNode p n => delete_node c p n
  end.

Definition op_peer (o : op) : string :=
  match o with
  | OReg r => n_peer (r_node r)
  | ODereg (DSvc p _ _) => p
  | ODereg (DChk p _ _) => p
  | ODereg (DNode p _) => p
  end.

(* replaying the list of Backend calls (an error from a call leaves the store unchanged) *)
Definition apply_op (c : cat) (o : op) : cat :=
  match o with
  | OReg r => match register c r with Ok c' => c' | Err _ => c end
  | ODereg d => deregister c d
  end.
Definition apply_ops (ops : list op) (c : cat) : cat := fold_left apply_op ops c.

(* ------------------------------------------------------------------ queries *)

Record inst := Inst { i_node : node; i_svc : svc; i_chks : list chk }.

Definition checks_for (c : cat) (p n sid : string) : list chk :=
  filter (fun k => seqb (c_peer k) p && seqb (c_node k) n && seqb (c_sid k) sid) (chks c).

(* checkServiceNodesTxn + parseCheckServiceNodes: a service row whose node is missing fails
   the whole query (ErrMissingNode) *)
Fixpoint csn_of (c : cat) (p : string) (l : list svc) : res (list inst) :=
  match l with
  | [] => Ok []
  | s :: l' =>
      match get_node c p (s_node s) with
      | None => Err e_read
      | Some nd =>
          bind (csn_of c p l') (fun rest =>
            Ok (Inst nd s (checks_for c p (s_node s) "" ++ checks_for c p (s_node s) (s_id s))%list :: rest))
      end
  end.

Definition check_service_nodes (c : cat) (p sn : string) : res (list inst) :=
  csn_of c p (filter (fun s => seqb (s_peer s) p && seqb (s_name s) sn) (svcs c)).

(* NodeServiceList(node, peer): "ns != nil && len(ns.Services) >= 1" *)
Definition node_has_services (c : cat) (p n : string) : bool :=
  match get_node c p n with
  | None => false
  | Some _ => existsb (fun s => seqb (s_peer s) p && seqb (s_node s) n) (svcs c)
  end.

Fixpoint nodup_str (l : list string) : list string :=
  match l with
  | [] => []
  | x :: l' => if existsb (seqb x) l' then nodup_str l' else x :: nodup_str l'
  end.

(* serviceListTxn: the distinct service names of the peer *)
Definition service_list (c : cat) (p : string) : list string :=
  nodup_str (map s_name (filter (fun s => seqb (s_peer s) p) (svcs c))).

(* ------------------------------------------------------------------ newHealthSnapshot *)

Record ssnap := SSnap { ss_svc : svc; ss_chks : list chk }.     (* Checks map: id -> check *)
Record nsnap := NSnap { ns_node : node; ns_svcs : list ssnap }. (* Services map: id -> serviceSnapshot *)
Definition hsnap := list nsnap.                                 (* Nodes map: name -> nodeSnapshot *)

Definition node_set_peer (p : string) (x : node) := Node p (n_name x) (n_id x) (n_body x).
Definition svc_set_peer (p : string) (x : svc) :=
  Svc p (s_node x) (s_id x) (s_name x) (s_tags x) (s_body x) (s_kind x) (s_native x) (s_dest x) (s_ups x) (s_pm x).
Definition chk_set_peer (p : string) (x : chk) :=
  Chk p (c_node x) (c_id x) (c_sid x) (c_sname x) (c_stags x) (c_status x) (c_body x).
(* a NodeService carries no node name of its own: it is the one of the instance's node *)
Definition inst_set_peer (p : string) (i : inst) : inst :=
  Inst (node_set_peer p (i_node i)) (svc_set_node (n_name (i_node i)) (svc_set_peer p (i_svc i)))
       (map (chk_set_peer p) (i_chks i)).

(* svcSnap.Checks[c.CheckID] = c : the last one wins *)
Fixpoint chk_upsert (k : chk) (l : list chk) : list chk :=
  match l with
  | [] => [k]
  | x :: l' => if seqb (c_id x) (c_id k) then k :: l' else x :: chk_upsert k l'
  end.
Definition add_checks (ks : list chk) (l : list chk) : list chk :=
  fold_left (fun l k => chk_upsert k l) ks l.

(* nodeSnap.Services[sid]: the first service record wins, checks are merged *)
Fixpoint svc_upsert (i : inst) (l : list ssnap) : list ssnap :=
  match l with
  | [] => [SSnap (i_svc i) (add_checks (i_chks i) [])]
  | x :: l' => if seqb (s_id (ss_svc x)) (s_id (i_svc i))
               then SSnap (ss_svc x) (add_checks (i_chks i) (ss_chks x)) :: l'
               else x :: svc_upsert i l'
  end.

(* snap.Nodes[name]: the first node record wins *)
Fixpoint node_upsert (i : inst) (h : hsnap) : hsnap :=
  match h with
  | [] => [NSnap (i_node i) (svc_upsert i [])]
  | x :: h' => if seqb (n_name (ns_node x)) (n_name (i_node i))
               then NSnap (ns_node x) (svc_upsert i (ns_svcs x)) :: h'
               else x :: node_upsert i h'
  end.

Definition new_health_snapshot (p : string) (all : list inst) : hsnap :=
  fold_left (fun h i => node_upsert (inst_set_peer p i) h) all [].

Definition find_ns (h : hsnap) (n : string) : option nsnap :=
  find (fun x => seqb (n_name (ns_node x)) n) h.
Definition find_ss (x : nsnap) (sid : string) : option ssnap :=
  find (fun y => seqb (s_id (ss_svc y)) sid) (ns_svcs x).
Definition has_chk (y : ssnap) (id : string) : bool :=
  existsb (fun k => seqb (c_id k) id) (ss_chks y).

(* ------------------------------------------------------------------ Go map iteration *)

(* `for k, v := range someMap` visits the entries in an unspecified order: every loop over a
   map in the handlers applies one of these functions, about which only "it is a permutation"
   is assumed in the theorems.  (sh_chks permutes the flattened list of changed checks, which
   covers every nesting of the two map loops that build it.) *)
Record shuffles := Shuffles {
  sh_nodes : list nsnap -> list nsnap;
  sh_svcs : list ssnap -> list ssnap;
  sh_chks : list chk -> list chk;
  sh_dnc : list (string * string) -> list (string * string);
  sh_unused : list string -> list string;
  sh_names : list string -> list string
}.

Definition shuffles_ok (sh : shuffles) : Prop :=
  (forall l, Permutation (sh_nodes sh l) l) /\ (forall l, Permutation (sh_svcs sh l) l) /\
  (forall l, Permutation (sh_chks sh l) l) /\ (forall l, Permutation (sh_dnc sh l) l) /\
  (forall l, Permutation (sh_unused sh l) l) /\ (forall l, Permutation (sh_names sh l) l).

Definition id_shuffles : shuffles :=
  Shuffles (fun l => l) (fun l => l) (fun l => l) (fun l => l) (fun l => l) (fun l => l).

(* ------------------------------------------------------------------ handleUpdateService *)

(* handler state: the store, the Backend calls so far (latest first), the error returned *)
Record hst := HSt { h_cat : cat; h_ops : list op; h_err : option N }.

Definition do_reg (r : regreq) (s : hst) : hst :=
  match h_err s with
  | Some _ => s
  | None =>
      match register (h_cat s) r with
      | Ok c' => HSt c' (OReg r :: h_ops s) None
      | Err e => HSt (h_cat s) (OReg r :: h_ops s) (Some e)
      end
  end.

Definition do_dereg (d : dereq) (s : hst) : hst :=
  match h_err s with
  | Some _ => s
  | None => HSt (deregister (h_cat s) d) (ODereg d :: h_ops s) None
  end.

(* buildStoredMap: later entries overwrite earlier ones *)
Definition find_last {A} (f : A -> bool) (l : list A) : option A := find f (rev l).

Definition stored_node (stored : list inst) (n : string) : option node :=
  option_map i_node (find_last (fun i => seqb (n_name (i_node i)) n) stored).
Definition stored_svc (stored : list inst) (n sid : string) : option svc :=
  option_map i_svc (find_last (fun i => seqb (n_name (i_node i)) n && seqb (s_id (i_svc i)) sid) stored).
Definition stored_chk (stored : list inst) (n sid cid : string) : option chk :=
  find_last (fun k => seqb (c_id k) cid)
            (flat_map (fun i => if seqb (n_name (i_node i)) n && seqb (s_id (i_svc i)) sid
                                then i_chks i else []) stored).

Definition node_changed (stored : list inst) (nd : node) : bool :=
  match stored_node stored (n_name nd) with Some x => negb (node_eqb x nd) | None => true end.
Definition svc_changed (stored : list inst) (nd : node) (s : svc) : bool :=
  match stored_svc stored (n_name nd) (s_id s) with Some x => negb (svc_is_same x s) | None => true end.
Definition chk_changed (stored : list inst) (nd : node) (s : svc) (k : chk) : bool :=
  match stored_chk stored (n_name nd) (s_id s) (c_id k) with Some x => negb (chk_eqb x k) | None => true end.

(* the body of `for _, nodeSnap := range snap.Nodes` *)
Definition node_block (sh : shuffles) (stored : list inst) (x : nsnap) (s : hst) : hst :=
  let nd := ns_node x in
  let s1 := if node_changed stored nd then do_reg (Reg nd None []) s else s in
  let s2 := fold_left (fun s y => if svc_changed stored nd (ss_svc y)
                                  then do_reg (Reg nd (Some (ss_svc y)) []) s else s)
                      (sh_svcs sh (ns_svcs x)) s1 in
  let ks := sh_chks sh (flat_map (fun y => filter (chk_changed stored nd (ss_svc y)) (ss_chks y))
                                 (ns_svcs x)) in
  match ks with
  | [] => s2
  | _ => do_reg (Reg nd None ks) s2
  end.

Definition add_str (x : string) (l : list string) : list string :=
  if existsb (seqb x) l then l else (l ++ [x])%list.
Definition add_pair (x : string * string) (l : list (string * string)) :=
  if existsb (fun y => seqb (fst y) (fst x) && seqb (snd y) (snd x)) l then l else (l ++ [x])%list.

(* second half: `for _, csn := range storedInstances` *)
Record p2 := P2 { p2_st : hst; p2_unused : list string; p2_dnc : list (string * string) }.

Definition stored_block (p : string) (h : hsnap) (a : p2) (i : inst) : p2 :=
  let n := n_name (i_node i) in
  let sid := s_id (i_svc i) in
  match find_ns h n with
  | None => P2 (do_dereg (DSvc p n sid) (p2_st a)) (add_str n (p2_unused a)) (p2_dnc a)
  | Some x =>
      match find_ss x sid with
      | None => P2 (do_dereg (DSvc p n sid) (p2_st a)) (p2_unused a) (p2_dnc a)
      | Some y =>
          fold_left (fun a k =>
                       if has_chk y (c_id k) then a
                       else if seqb (c_sid k) ""
                            then P2 (p2_st a) (p2_unused a) (add_pair (c_id k, c_node k) (p2_dnc a))
                            else P2 (do_dereg (DChk p (c_node k) (c_id k)) (p2_st a)) (p2_unused a) (p2_dnc a))
                    (i_chks i) a
      end
  end.

Definition unused_block (p : string) (s : hst) (n : string) : hst :=
  match h_err s with
  | Some _ => s
  | None => if node_has_services (h_cat s) p n then s else do_dereg (DNode p n) s
  end.

Definition handle_update_from (sh : shuffles) (s0 : hst) (p sn : string) (export : option (list inst)) : hst :=
  match h_err s0 with
  | Some _ => s0
  | None =>
  match check_service_nodes (h_cat s0) p sn with
  | Err e => HSt (h_cat s0) (h_ops s0) (Some e)
  | Ok stored =>
      let h := new_health_snapshot p (match export with Some l => l | None => [] end) in
      let s1 := fold_left (fun s x => node_block sh stored x s) (sh_nodes sh h) s0 in
      let a := fold_left (stored_block p h) stored (P2 s1 [] []) in
      let s2 := fold_left (fun s ck => do_dereg (DChk p (snd ck) (fst ck)) s) (sh_dnc sh (p2_dnc a)) (p2_st a) in
      fold_left (unused_block p) (sh_unused sh (p2_unused a)) s2
  end
  end.

Definition handle_update_service (sh : shuffles) (c : cat) (p sn : string) (export : option (list inst)) : hst :=
  handle_update_from sh (HSt c [] None) p sn export.

(* ------------------------------------------------------------------ handleUpsertExportedServiceList *)

Definition sidecar_suffix : string := "-sidecar-proxy".

Definition exported_set (names : list string) : list string :=
  flat_map (fun s => [s; s ++ sidecar_suffix]) names.

Definition handle_exported_list (sh : shuffles) (c : cat) (p : string) (names : list string) : hst :=
  fold_left (fun s sn => if existsb (seqb sn) (exported_set names) then s
                         else handle_update_from sh s p sn None)
            (sh_names sh (service_list c p)) (HSt c [] None).

(* ------------------------------------------------------------------ events *)

Inductive event :=
| EvUpsert (p sn : string) (export : list inst)     (* TypeURLExportedService, OPERATION_UPSERT *)
| EvList (p : string) (names : list string).        (* TypeURLExportedServiceList *)

Definition ev_peer (e : event) : string := match e with EvUpsert p _ _ => p | EvList p _ => p end.

Definition handle (sh : shuffles) (c : cat) (e : event) : hst :=
  match e with
  | EvUpsert p sn export => handle_update_service sh c p sn (Some export)
  | EvList p names => handle_exported_list sh c p names
  end.

(* ------------------------------------------------------------------ exporting side *)

(* exportedServicesForPeerTxn, Community Edition (one partition, no sameness groups).
   entry: the Services of the exported-services config entry: (name, peers named as consumers);
   typical: kind-service-names of kind "typical"; connect: of kind "connect-enabled";
   chains: names with a service-router/-splitter/-resolver; tgw: names served by a terminating
   gateway; chain_ok: populateChainInfo kept the name (no "consul" target). *)
Definition consul_name : string := "consul".
Definition wildcard : string := "*".

Definition add_all (xs l : list string) : list string := fold_left (fun l x => add_str x l) xs l.

Definition exported_services (peer : string) (entry : list (string * list string))
           (typical : list string) : list string :=
  fold_left (fun acc e =>
               let '(name, consumers) := e in
               if seqb name consul_name then acc
               else if negb (existsb (seqb peer) consumers) then acc
               else if negb (seqb name wildcard) then add_str name acc
               else add_all (filter (fun s => negb (seqb s consul_name)) typical) acc)
            entry [].

Definition exported_chains (peer : string) (entry : list (string * list string))
           (typical connect chains tgw : list string) (chain_ok : string -> bool) : list string :=
  let from_wild :=
    fold_left (fun acc e =>
                 let '(name, consumers) := e in
                 if seqb name consul_name then acc
                 else if negb (existsb (seqb peer) consumers) then acc
                 else if negb (seqb name wildcard) then acc
                 else add_all (filter (fun s => negb (seqb s consul_name)) chains) acc)
              entry [] in
  let svcs := exported_services peer entry typical in
  let from_svcs := filter (fun s => existsb (seqb s) chains || existsb (seqb s) connect
                                    || existsb (seqb s) tgw) svcs in
  filter chain_ok (add_all from_svcs from_wild).
