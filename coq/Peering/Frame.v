(* C17 — frame: an event of peer p leaves every row keyed by another peer (or by the local
   cluster) exactly as it was; every Backend call carries p; replaying the calls gives the
   final store.  Holds for every iteration order (no assumption on the shuffles). *)
From Verif Require Import Base.Prelude Peering.Model Peering.Lemmas.
Require Import Coq.Sorting.Permutation.
Local Open Scope string_scope.

Definition nodes_of (q : string) (c : cat) := filter (fun x => seqb (n_peer x) q) (nodes c).
Definition svcs_of (q : string) (c : cat) := filter (fun x => seqb (s_peer x) q) (svcs c).
Definition chks_of (q : string) (c : cat) := filter (fun x => seqb (c_peer x) q) (chks c).

(* the rows of peer q ("" = the local cluster), in table order; the mesh-topology table has no
   peer in its key and belongs to the local cluster *)
Definition same_rows (q : string) (c c' : cat) : Prop :=
  nodes_of q c' = nodes_of q c /\ svcs_of q c' = svcs_of q c /\ chks_of q c' = chks_of q c
  /\ (q = "" -> topo c' = topo c).

Lemma same_rows_refl q c : same_rows q c c.
Proof. repeat split. Qed.

Lemma same_rows_trans q a b c : same_rows q a b -> same_rows q b c -> same_rows q a c.
Proof.
  unfold same_rows. intros (A1 & A2 & A3 & A4) (B1 & B2 & B3 & B4).
  split; [congruence|]. split; [congruence|]. split; [congruence|]. intros Hq. rewrite (B4 Hq). apply A4, Hq.
Qed.

(* ------------------------------------------------------------------ table operations *)

Section Peer.
  Context {A : Type} (kf : A -> key) (peer : A -> string).
  Hypothesis kf_peer : forall x, fst (fst (kf x)) = peer x.

  Lemma filter_tdel_other q p a b l :
    p <> q -> filter (fun x => seqb (peer x) q) (tdel kf (p, a, b) l) = filter (fun x => seqb (peer x) q) l.
  Proof.
    intros Hpq. unfold tdel. apply filter_filter_imp. intros x _ Hx.
    apply seqb_eq in Hx. apply negb_true_iff, key_eqb_neq. intros E.
    apply Hpq. rewrite <- Hx, <- kf_peer, E. reflexivity.
  Qed.

  Lemma filter_tput_other q x l :
    peer x <> q -> filter (fun x => seqb (peer x) q) (tput kf x l) = filter (fun x => seqb (peer x) q) l.
  Proof.
    intros Hpq. unfold tput. cbn [filter].
    destruct (seqb (peer x) q) eqn:E; [apply seqb_eq in E; contradiction|].
    destruct (kf x) as [[p a] b] eqn:K. apply filter_tdel_other.
    rewrite <- (kf_peer x), K in Hpq. exact Hpq.
  Qed.
End Peer.

Lemma node_key_peer x : fst (fst (node_key x)) = n_peer x. Proof. reflexivity. Qed.
Lemma svc_key_peer x : fst (fst (svc_key x)) = s_peer x. Proof. reflexivity. Qed.
Lemma chk_key_peer x : fst (fst (chk_key x)) = c_peer x. Proof. reflexivity. Qed.

Lemma put_node_other q c x : n_peer x <> q -> same_rows q c (put_node c x).
Proof.
  intros H. unfold same_rows, nodes_of, svcs_of, chks_of, put_node.
  cbn [nodes svcs chks topo set_nodes set_svcs set_chks set_topo]. repeat split. apply (filter_tput_other node_key n_peer node_key_peer). exact H.
Qed.

Lemma put_svc_other q c x : s_peer x <> q -> same_rows q c (put_svc c x).
Proof.
  intros H. unfold same_rows, nodes_of, svcs_of, chks_of, put_svc.
  cbn [nodes svcs chks topo set_nodes set_svcs set_chks set_topo]. repeat split. apply (filter_tput_other svc_key s_peer svc_key_peer). exact H.
Qed.

Lemma put_chk_other q c x : c_peer x <> q -> same_rows q c (put_chk c x).
Proof.
  intros H. unfold same_rows, nodes_of, svcs_of, chks_of, put_chk.
  cbn [nodes svcs chks topo set_nodes set_svcs set_chks set_topo]. repeat split. apply (filter_tput_other chk_key c_peer chk_key_peer). exact H.
Qed.

Lemma delete_check_other q c p n i : p <> q -> same_rows q c (delete_check c p n i).
Proof.
  intros H. unfold same_rows, nodes_of, svcs_of, chks_of, delete_check.
  cbn [nodes svcs chks topo set_nodes set_svcs set_chks set_topo]. repeat split. apply (filter_tdel_other chk_key c_peer chk_key_peer). exact H.
Qed.

Lemma delete_service_other q c p n i : p <> q -> same_rows q c (delete_service c p n i).
Proof.
  intros H. unfold delete_service. destruct (get_svc c p n i); [|apply same_rows_refl].
  unfold same_rows, nodes_of, svcs_of, chks_of. cbn [nodes svcs chks topo set_nodes set_svcs set_chks set_topo]. repeat split.
  - apply (filter_tdel_other svc_key s_peer svc_key_peer). exact H.
  - apply filter_filter_imp. intros x _ Hx. apply seqb_eq in Hx.
    apply negb_true_iff. seqb_cases (c_peer x) p; [congruence|reflexivity].
Qed.

Lemma delete_node_other q c p n : p <> q -> same_rows q c (delete_node c p n).
Proof.
  intros H. unfold delete_node. destruct (get_node c p n); [|apply same_rows_refl].
  unfold same_rows, nodes_of, svcs_of, chks_of. cbn [nodes svcs chks topo set_nodes set_svcs set_chks set_topo]. repeat split.
  - apply (filter_tdel_other node_key n_peer node_key_peer). exact H.
  - apply filter_filter_imp. intros x _ Hx. apply seqb_eq in Hx.
    apply negb_true_iff. seqb_cases (s_peer x) p; [congruence|reflexivity].
  - apply filter_filter_imp. intros x _ Hx. apply seqb_eq in Hx.
    apply negb_true_iff. seqb_cases (c_peer x) p; [congruence|reflexivity].
Qed.

Lemma deregister_other q c d : op_peer (ODereg d) <> q -> same_rows q c (deregister c d).
Proof.
  destruct d as [p n i|p n i|p n]; cbn [op_peer deregister]; intros H.
  - destruct (seqb i ""); [apply delete_node_other | apply delete_service_other]; exact H.
  - destruct (seqb i ""); [apply delete_node_other | apply delete_check_other]; exact H.
  - apply delete_node_other; exact H.
Qed.

(* ------------------------------------------------------------------ registration *)

Lemma ensure_node_byid_other q c nd c1 b :
  n_peer nd <> q -> ensure_node_byid c nd = Ok (c1, b) -> same_rows q c c1.
Proof.
  intros Hq. unfold ensure_node_byid.
  destruct (seqb (n_id nd) ""); [intros E; injection E as <- _; apply same_rows_refl|].
  destruct (get_node_by_id c (n_peer nd) (n_id nd)) as [ex|].
  - destruct (seqb (n_name ex) (n_name nd)); [intros E; injection E as <- _; apply same_rows_refl|].
    destruct (similar_name_err c nd false); [discriminate|].
    intros E; injection E as <- _. apply delete_node_other. exact Hq.
  - destruct (similar_name_err c nd true); [discriminate|].
    intros E; injection E as <- _. apply same_rows_refl.
Qed.

Lemma ensure_node_other q c nd c' : n_peer nd <> q -> ensure_node c nd = Ok c' -> same_rows q c c'.
Proof.
  intros Hq. unfold ensure_node.
  destruct (ensure_node_byid c nd) as [[c1 b]|e] eqn:E1; cbn [bind]; [|discriminate].
  pose proof (ensure_node_byid_other q c nd c1 b Hq E1) as Hs.
  assert (Hput : same_rows q c (put_node c1 nd)).
  { eapply same_rows_trans; [exact Hs | apply put_node_other; exact Hq]. }
  destruct b as [ex|].
  - destruct (node_eqb nd ex); intros E; injection E as <-; assumption.
  - destruct (get_node c1 (n_peer nd) (n_name nd)) as [ex|].
    + destruct (node_eqb nd ex); intros E; injection E as <-; assumption.
    + intros E; injection E as <-; assumption.
Qed.

Lemma update_topo_other q c s e : q <> "" -> same_rows q c (update_topo c s e).
Proof. intros Hq. unfold update_topo. split; [reflexivity|]. split; [reflexivity|]. split; [reflexivity|]. intros E. contradiction. Qed.

Lemma ensure_service_other q c s c' : s_peer s <> q -> ensure_service c s = Ok c' -> same_rows q c c'.
Proof.
  intros Hq. unfold ensure_service.
  set (c1 := if topo_applies s then _ else c).
  assert (H1 : same_rows q c c1).
  { subst c1. destruct (topo_applies s) eqn:T; [|apply same_rows_refl]. apply update_topo_other.
    unfold topo_applies in T. apply andb_true_iff in T as [_ T]. apply seqb_eq in T. congruence. }
  assert (Hput : same_rows q c (put_svc c1 s)).
  { eapply same_rows_trans; [exact H1 | apply put_svc_other; exact Hq]. }
  destruct (get_node c1 (s_peer s) (s_node s)); [|discriminate].
  destruct (get_svc c (s_peer s) (s_node s) (s_id s)) as [e|].
  - destruct (svc_eqb s e); intros E; injection E as <-; assumption.
  - intros E; injection E as <-; assumption.
Qed.

Lemma ensure_check_other q c k c' : c_peer k <> q -> ensure_check c k = Ok c' -> same_rows q c c'.
Proof.
  intros Hq. unfold ensure_check.
  destruct (get_node c (c_peer k) (c_node k)); [|discriminate].
  set (k1 := if N.eqb (c_status k) 0 then _ else k).
  assert (Hk1 : c_peer k1 = c_peer k) by (subst k1; destruct (N.eqb (c_status k) 0); reflexivity).
  assert (Hst : forall k2, c_peer k2 = c_peer k ->
            match get_chk c (c_peer k) (c_node k) (c_id k) with
            | Some e => if chk_eqb e k2 then Ok c else Ok (put_chk c k2)
            | None => Ok (put_chk c k2)
            end = Ok c' -> same_rows q c c').
  { intros k2 Hk2. destruct (get_chk c (c_peer k) (c_node k) (c_id k)) as [e|].
    - destruct (chk_eqb e k2); intros E; injection E as <-;
        [apply same_rows_refl | apply put_chk_other; congruence].
    - intros E; injection E as <-. apply put_chk_other; congruence. }
  destruct (seqb (c_sid k1) "").
  - apply Hst. exact Hk1.
  - destruct (get_svc c (c_peer k) (c_node k) (c_sid k)) as [s|]; [|discriminate].
    apply Hst. cbn. exact Hk1.
Qed.

Lemma ensure_checks_other q node ks : forall c c',
  Forall (fun k => c_peer k <> q) ks -> ensure_checks c node ks = Ok c' -> same_rows q c c'.
Proof.
  induction ks as [|k ks IH]; intros c c' Hf; cbn [ensure_checks].
  - intros E; injection E as <-. apply same_rows_refl.
  - inversion Hf as [|? ? Hk Hks]; subst.
    destruct (negb (seqb (c_node k) node)); [discriminate|].
    destruct (ensure_check c k) as [c1|e] eqn:E1; cbn [bind]; [|discriminate].
    intros E. eapply same_rows_trans; [eapply ensure_check_other; eauto | eapply IH; eauto].
Qed.

Lemma reg_node_other q c nd c' : n_peer nd <> q -> reg_node c nd = Ok c' -> same_rows q c c'.
Proof.
  intros Hq. unfold reg_node. destruct (get_node c (n_peer nd) (n_name nd)) as [ex|].
  - destruct (node_eqb ex nd); [intros E; injection E as <-; apply same_rows_refl|].
    apply ensure_node_other; exact Hq.
  - apply ensure_node_other; exact Hq.
Qed.

Lemma reg_svc_other q c nd os c' :
  match os with Some s => s_peer s <> q | None => True end -> reg_svc c nd os = Ok c' -> same_rows q c c'.
Proof.
  unfold reg_svc. destruct os as [s0|]; [|intros _ E; injection E as <-; apply same_rows_refl].
  intros Hq.
  assert (Hsp : s_peer (svc_set_node (n_name nd) s0) <> q) by exact Hq.
  destruct (get_svc c (n_peer nd) (n_name nd) (s_id (svc_set_node (n_name nd) s0))) as [ex|].
  - destruct (svc_is_same ex _); [intros E; injection E as <-; apply same_rows_refl|].
    apply ensure_service_other; exact Hsp.
  - apply ensure_service_other; exact Hsp.
Qed.

Lemma register_inv c r c' :
  register c r = Ok c' ->
  reg_peers_ok r = true /\
  exists c1 c2, reg_node c (r_node r) = Ok c1 /\ reg_svc c1 (r_node r) (r_svc r) = Ok c2
                /\ ensure_checks c2 (n_name (r_node r)) (r_chks r) = Ok c'.
Proof.
  unfold register. destruct (reg_peers_ok r); cbn [negb]; [|discriminate].
  destruct (reg_node c (r_node r)) as [c1|e] eqn:E1; cbn [bind]; [|discriminate].
  destruct (reg_svc c1 (r_node r) (r_svc r)) as [c2|e] eqn:E2; cbn [bind]; [|discriminate].
  intros E3. split; [reflexivity|]. exists c1, c2. auto.
Qed.

Lemma register_other q c r c' : n_peer (r_node r) <> q -> register c r = Ok c' -> same_rows q c c'.
Proof.
  intros Hq H. apply register_inv in H as (Hp & c1 & c2 & E1 & E2 & E3).
  unfold reg_peers_ok in Hp. apply andb_true_iff in Hp as [Hps Hpc].
  eapply same_rows_trans; [eapply reg_node_other; eauto|].
  eapply same_rows_trans; [eapply reg_svc_other; [|exact E2]|].
  - destruct (r_svc r) as [s|]; [|exact I]. apply seqb_eq in Hps. congruence.
  - eapply ensure_checks_other; [|exact E3].
    apply Forall_forall. intros k Hk. rewrite forallb_forall in Hpc. specialize (Hpc k Hk).
    apply seqb_eq in Hpc. congruence.
Qed.

Lemma apply_op_other q c o : op_peer o <> q -> same_rows q c (apply_op c o).
Proof.
  destruct o as [r|d]; cbn [apply_op]; intros H.
  - destruct (register c r) as [c'|e] eqn:E; [|apply same_rows_refl].
    eapply register_other; eauto.
  - apply deregister_other. exact H.
Qed.

(* ------------------------------------------------------------------ the snapshot carries the peer *)

Lemma node_upsert_peer p i h :
  n_peer (i_node i) = p -> Forall (fun x => n_peer (ns_node x) = p) h ->
  Forall (fun x => n_peer (ns_node x) = p) (node_upsert i h).
Proof.
  intros Hi. induction h as [|x h IH]; intros Hf; cbn [node_upsert].
  - constructor; [exact Hi | constructor].
  - inversion Hf as [|? ? Hx Hh]; subst.
    destruct (seqb (n_name (ns_node x)) (n_name (i_node i))); constructor; auto.
Qed.

Lemma nhs_node_peer p all : Forall (fun x => n_peer (ns_node x) = p) (new_health_snapshot p all).
Proof.
  unfold new_health_snapshot.
  assert (G : forall h, Forall (fun x => n_peer (ns_node x) = p) h ->
                        Forall (fun x => n_peer (ns_node x) = p)
                               (fold_left (fun h i => node_upsert (inst_set_peer p i) h) all h)).
  { induction all as [|i all IH]; intros h Hh; cbn [fold_left]; [exact Hh|].
    apply IH. apply node_upsert_peer; [reflexivity | exact Hh]. }
  apply G. constructor.
Qed.

(* ------------------------------------------------------------------ invariants of the handlers *)

(* Any property of the handler state that every Backend call of peer p and every early
   return preserves holds at the end of both handlers, whatever the iteration order. *)
Section HInv.
  Variable sh : shuffles.
  Variable p : string.
  Variable P : hst -> Prop.
  (* Q: a property of the service rows of the snapshot being processed *)
  Variable Q : svc -> Prop.
  Hypothesis P_reg : forall r s, n_peer (r_node r) = p -> (forall sv, r_svc r = Some sv -> Q sv) ->
                                 P s -> P (do_reg r s).
  Hypothesis P_dereg : forall d s, op_peer (ODereg d) = p -> P s -> P (do_dereg d s).
  Hypothesis P_err : forall s e, P s -> P (HSt (h_cat s) (h_ops s) (Some e)).

  Lemma fold_inv {A} (f : hst -> A -> hst) (l : list A) :
    (forall s a, In a l -> P s -> P (f s a)) -> forall s, P s -> P (fold_left f l s).
  Proof.
    induction l as [|a l IH]; intros H s Hs; cbn [fold_left]; [exact Hs|].
    apply IH; [intros; apply H; cbn; auto|]. apply H; cbn; auto.
  Qed.

  Hypothesis sh_ok : shuffles_ok sh.

  Lemma node_block_inv stored x s :
    n_peer (ns_node x) = p -> (forall y, In y (ns_svcs x) -> Q (ss_svc y)) -> P s -> P (node_block sh stored x s).
  Proof.
    intros Hx HQ Hs. unfold node_block.
    assert (Hnone : forall sv : svc, @None svc = Some sv -> Q sv) by (intros; discriminate).
    set (s1 := if node_changed stored (ns_node x) then _ else s).
    assert (H1 : P s1) by (subst s1; destruct (node_changed stored (ns_node x)); auto).
    set (s2 := fold_left _ (sh_svcs sh (ns_svcs x)) s1).
    assert (H2 : P s2).
    { subst s2. apply fold_inv; [|exact H1]. intros s' y Hy Hs'.
      destruct (svc_changed stored (ns_node x) (ss_svc y)); [|exact Hs'].
      apply P_reg; [exact Hx | | exact Hs']. cbn [r_svc]. intros sv E. injection E as <-. apply HQ.
      destruct sh_ok as (_ & Hsv & _). apply (Permutation_in _ (Hsv _)). exact Hy. }
    destruct (sh_chks sh _); auto.
  Qed.

  Lemma stored_block_inv h a i : P (p2_st a) -> P (p2_st (stored_block p h a i)).
  Proof.
    intros Ha. unfold stored_block.
    destruct (find_ns h (n_name (i_node i))) as [x|]; [|cbn; apply P_dereg; [reflexivity|exact Ha]].
    destruct (find_ss x (s_id (i_svc i))) as [y|]; [|cbn; apply P_dereg; [reflexivity|exact Ha]].
    generalize dependent a. induction (i_chks i) as [|k ks IH]; intros a Ha; cbn [fold_left]; [exact Ha|].
    apply IH. destruct (has_chk y (c_id k)); [exact Ha|].
    destruct (seqb (c_sid k) ""); cbn; [exact Ha|]. apply P_dereg; [reflexivity|exact Ha].
  Qed.

  Lemma stored_blocks_inv h l : forall a, P (p2_st a) -> P (p2_st (fold_left (stored_block p h) l a)).
  Proof.
    induction l as [|i l IH]; intros a Ha; cbn [fold_left]; [exact Ha|].
    apply IH. apply stored_block_inv. exact Ha.
  Qed.

  Lemma unused_block_inv s n : P s -> P (unused_block p s n).
  Proof.
    intros Hs. unfold unused_block. destruct (h_err s); [exact Hs|].
    destruct (node_has_services (h_cat s) p n); [exact Hs|]. apply P_dereg; [reflexivity|exact Hs].
  Qed.

  Lemma handle_update_from_inv s0 sn export :
    (forall x y, In x (new_health_snapshot p (match export with Some l => l | None => [] end)) ->
                 In y (ns_svcs x) -> Q (ss_svc y)) ->
    P s0 -> P (handle_update_from sh s0 p sn export).
  Proof.
    intros HQ H0. unfold handle_update_from. destruct (h_err s0); [exact H0|].
    destruct (check_service_nodes (h_cat s0) p sn) as [stored|e]; [|apply P_err; exact H0].
    set (h := new_health_snapshot p _).
    set (s1 := fold_left _ (sh_nodes sh h) s0).
    assert (H1 : P s1).
    { subst s1. apply fold_inv; [|exact H0]. intros s x Hx Hs.
      destruct sh_ok as (Hn & _). apply (Permutation_in _ (Hn h)) in Hx.
      apply node_block_inv; [| |exact Hs].
      - pose proof (nhs_node_peer p (match export with Some l => l | None => [] end)) as Hf.
        rewrite Forall_forall in Hf. apply Hf. exact Hx.
      - intros y Hy. apply (HQ x y Hx Hy). }
    set (a := fold_left (stored_block p h) stored (P2 s1 [] [])).
    assert (Ha : P (p2_st a)) by (subst a; apply stored_blocks_inv; exact H1).
    set (s2 := fold_left _ (sh_dnc sh (p2_dnc a)) (p2_st a)).
    assert (H2 : P s2).
    { subst s2. apply fold_inv; [|exact Ha]. intros s ck _ Hs. apply P_dereg; [reflexivity|exact Hs]. }
    apply fold_inv; [|exact H2]. intros s n _ Hs. apply unused_block_inv. exact Hs.
  Qed.

  Lemma handle_exported_list_inv c names : P (HSt c [] None) -> P (handle_exported_list sh c p names).
  Proof.
    intros H0. unfold handle_exported_list. apply fold_inv; [|exact H0].
    intros s sn _ Hs. destruct (existsb (seqb sn) (exported_set names)); [exact Hs|].
    apply handle_update_from_inv; [|exact Hs]. intros x y [].
  Qed.
End HInv.

(* the service rows of the handler's snapshot are the received ones, stamped *)
(* (entries keep their service record when checks are merged into them: compare by ss_svc) *)
Lemma svc_upsert_svcs i l y :
  In y (svc_upsert i l) -> (exists z, In z l /\ ss_svc y = ss_svc z) \/ ss_svc y = i_svc i.
Proof.
  induction l as [|z l IH]; cbn [svc_upsert]; [intros [<-|[]]; right; reflexivity|].
  destruct (seqb (s_id (ss_svc z)) (s_id (i_svc i))).
  - intros [E|H]; left.
    + exists z. split; [left; reflexivity|]. rewrite <- E. reflexivity.
    + exists y. split; [right; exact H|reflexivity].
  - intros [E|H].
    + left. exists z. split; [left; reflexivity|]. rewrite E. reflexivity.
    + destruct (IH H) as [(w & Hw & E)|A]; [left; exists w; split; [right; exact Hw|exact E] | right; exact A].
Qed.

Lemma node_upsert_svcs (Q : svc -> Prop) i h :
  Q (i_svc i) -> (forall x y, In x h -> In y (ns_svcs x) -> Q (ss_svc y)) ->
  forall x y, In x (node_upsert i h) -> In y (ns_svcs x) -> Q (ss_svc y).
Proof.
  intros Hi. induction h as [|z h IH]; intros Hh x y; cbn [node_upsert].
  - intros [E|[]] Hy. rewrite <- E in Hy. cbn [ns_svcs svc_upsert] in Hy. destruct Hy as [E'|[]].
    rewrite <- E'. exact Hi.
  - destruct (seqb (n_name (ns_node z)) (n_name (i_node i))).
    + intros [E|Hx] Hy.
      * rewrite <- E in Hy. cbn [ns_svcs] in Hy.
        destruct (svc_upsert_svcs i (ns_svcs z) y Hy) as [(w & Hw & E')|E']; rewrite E'; [|exact Hi].
        apply (Hh z w); [left; reflexivity | exact Hw].
      * apply (Hh x y); [right; exact Hx | exact Hy].
    + intros [E|Hx] Hy.
      * apply (Hh x y); [left; exact E | exact Hy].
      * apply IH with (x := x); auto. intros x' y' Hx' Hy'. apply (Hh x' y'); [right; exact Hx' | exact Hy'].
Qed.

Lemma nhs_svcs (Q : svc -> Prop) p all :
  (forall i, In i all -> Q (i_svc (inst_set_peer p i))) ->
  forall x y, In x (new_health_snapshot p all) -> In y (ns_svcs x) -> Q (ss_svc y).
Proof.
  unfold new_health_snapshot. intros Hall.
  assert (G : forall l h, (forall i, In i l -> Q (i_svc (inst_set_peer p i))) ->
                          (forall x y, In x h -> In y (ns_svcs x) -> Q (ss_svc y)) ->
                          forall x y, In x (fold_left (fun h i => node_upsert (inst_set_peer p i) h) l h) ->
                                      In y (ns_svcs x) -> Q (ss_svc y)).
  { induction l as [|i l IH]; intros h Hl Hh; cbn [fold_left]; [exact Hh|].
    apply IH; [intros j Hj; apply Hl; right; exact Hj|].
    apply node_upsert_svcs; [apply Hl; left; reflexivity | exact Hh]. }
  apply G; [exact Hall | intros x y []].
Qed.

Lemma handle_inv sh e (P : hst -> Prop) (Q : svc -> Prop) c :
  shuffles_ok sh ->
  (forall r s, n_peer (r_node r) = ev_peer e -> (forall sv, r_svc r = Some sv -> Q sv) -> P s -> P (do_reg r s)) ->
  (forall d s, op_peer (ODereg d) = ev_peer e -> P s -> P (do_dereg d s)) ->
  (forall s err, P s -> P (HSt (h_cat s) (h_ops s) (Some err))) ->
  match e with
  | EvUpsert p _ export => forall i, In i export -> Q (i_svc (inst_set_peer p i))
  | EvList _ _ => True
  end ->
  P (HSt c [] None) -> P (handle sh c e).
Proof.
  intros Hsh Hr Hd He HQ H0. destruct e as [p sn export|p names]; cbn [handle ev_peer] in *.
  - unfold handle_update_service. apply (handle_update_from_inv sh p P Q); auto.
    cbn. apply nhs_svcs. exact HQ.
  - apply (handle_exported_list_inv sh p P Q); auto.
Qed.

(* ------------------------------------------------------------------ the three invariants *)

Definition hst_frame (q : string) (c0 : cat) (s : hst) : Prop := same_rows q c0 (h_cat s).
Definition hst_peer (p : string) (s : hst) : Prop := Forall (fun o => op_peer o = p) (h_ops s).
Definition hst_replay (c0 : cat) (s : hst) : Prop := apply_ops (rev (h_ops s)) c0 = h_cat s.

Lemma do_reg_frame q c0 r s : n_peer (r_node r) <> q -> hst_frame q c0 s -> hst_frame q c0 (do_reg r s).
Proof.
  unfold hst_frame, do_reg. intros Hq Hs. destruct (h_err s); [exact Hs|].
  destruct (register (h_cat s) r) as [c'|e] eqn:E; cbn; [|exact Hs].
  eapply same_rows_trans; [exact Hs | eapply register_other; eauto].
Qed.

Lemma do_dereg_frame q c0 d s : op_peer (ODereg d) <> q -> hst_frame q c0 s -> hst_frame q c0 (do_dereg d s).
Proof.
  unfold hst_frame, do_dereg. intros Hq Hs. destruct (h_err s); [exact Hs|]. cbn.
  eapply same_rows_trans; [exact Hs | apply deregister_other; exact Hq].
Qed.

Lemma handle_frame sh c e q :
  shuffles_ok sh -> ev_peer e <> q -> same_rows q c (h_cat (handle sh c e)).
Proof.
  intros Hsh Hq. apply (handle_inv sh e (hst_frame q c) (fun _ => True)); auto.
  - intros r s Hr _. apply do_reg_frame. congruence.
  - intros d s Hd. apply do_dereg_frame. congruence.
  - destruct e; auto.
  - apply same_rows_refl.
Qed.

Lemma handle_frame_topo sh c e :
  shuffles_ok sh -> ev_peer e <> "" -> topo (h_cat (handle sh c e)) = topo c.
Proof. intros Hsh Hq. apply (handle_frame sh c e "" Hsh Hq). reflexivity. Qed.

Lemma handle_ops_peer sh c e :
  shuffles_ok sh -> Forall (fun o => op_peer o = ev_peer e) (h_ops (handle sh c e)).
Proof.
  intros Hsh. apply (handle_inv sh e (hst_peer (ev_peer e)) (fun _ => True)); auto.
  3: destruct e; auto.
  - intros r s Hr _ Hs. unfold hst_peer, do_reg in *. destruct (h_err s); [exact Hs|].
    destruct (register (h_cat s) r); cbn; constructor; auto.
  - intros d s Hd Hs. unfold hst_peer, do_dereg in *. destruct (h_err s); [exact Hs|].
    cbn; constructor; auto.
  - constructor.
Qed.

Lemma apply_ops_snoc ops o c : apply_ops (ops ++ [o]) c = apply_op (apply_ops ops c) o.
Proof. unfold apply_ops. rewrite fold_left_app. reflexivity. Qed.

Lemma handle_replay sh c e :
  shuffles_ok sh -> apply_ops (rev (h_ops (handle sh c e))) c = h_cat (handle sh c e).
Proof.
  intros Hsh. apply (handle_inv sh e (hst_replay c) (fun _ => True)); auto.
  3: destruct e; auto.
  - intros r s _ _ Hs. unfold hst_replay, do_reg in *. destruct (h_err s); [exact Hs|].
    destruct (register (h_cat s) r) as [c'|err] eqn:E; cbn [h_ops h_cat rev];
      rewrite apply_ops_snoc, Hs; cbn [apply_op]; rewrite E; reflexivity.
  - intros d s _ Hs. unfold hst_replay, do_dereg in *. destruct (h_err s); [exact Hs|].
    cbn [h_ops h_cat rev]. rewrite apply_ops_snoc, Hs. reflexivity.
  - reflexivity.
Qed.

(* ------------------------------------------------------------------ histories *)

(* a history: each event is handled with some iteration order of its own *)
Inductive run : cat -> list event -> cat -> Prop :=
| run_nil c : run c [] c
| run_cons sh c e es c' :
    shuffles_ok sh -> run (h_cat (handle sh c e)) es c' -> run c (e :: es) c'.

Lemma run_frame q c es c' :
  run c es c' -> Forall (fun e => ev_peer e <> q) es -> same_rows q c c'.
Proof.
  induction 1 as [c|sh c e es c' Hsh Hr IH]; intros Hf; [apply same_rows_refl|].
  inversion Hf as [|? ? He Hes]; subst.
  eapply same_rows_trans; [apply handle_frame; eauto | apply IH; exact Hes].
Qed.

(* every key of the three catalog tables starts with the peer name *)
Lemma keys_contain_peer :
  (forall x, fst (fst (node_key x)) = n_peer x) /\ (forall x, fst (fst (svc_key x)) = s_peer x)
  /\ (forall x, fst (fst (chk_key x)) = c_peer x).
Proof. repeat split. Qed.
