(* C17 — first half of handleUpdateService (the registrations), when no call fails and no
   node is renamed: every table evolves by "puts" of the snapshot's rows at their own keys. *)
From Verif Require Import Base.Prelude Peering.Model Peering.Lemmas Peering.Verbs.
Require Import Coq.Sorting.Permutation.
Local Open Scope string_scope.

(* ------------------------------------------------------------------ evolution of one table *)

Section Evol.
  Context {A B : Type} (kf : A -> key) (kb : B -> key) (img : B -> A -> Prop).
  Hypothesis img_key : forall b x, img b x -> kf x = kb b.

  (* l0: the table before; S: the snapshot items registered so far; l: the table now *)
  Record evol (S : B -> Prop) (l0 l : list A) : Prop := {
    ev_up : forall x, In x l -> In x l0 \/ exists b, S b /\ img b x;
    ev_lo : forall x, In x l0 -> (forall b, S b -> kf x <> kb b) -> In x l;
    ev_es : forall b, S b -> exists x, In x l /\ img b x }.

  Lemma evol_init l0 : evol (fun _ => False) l0 l0.
  Proof. split; [auto | auto | intros b []]. Qed.

  Lemma evol_ext S S' l0 l : (forall b, S b <-> S' b) -> evol S l0 l -> evol S' l0 l.
  Proof.
    intros E [U L Es]. split.
    - intros x Hx. destruct (U x Hx) as [H|(b & Hb & Hi)]; [auto|]. right. exists b. split; [apply E; exact Hb|exact Hi].
    - intros x Hx Hn. apply L; [exact Hx|]. intros b Hb. apply Hn. apply E. exact Hb.
    - intros b Hb. apply Es. apply E. exact Hb.
  Qed.

  Lemma evol_put S l0 l l' b x :
    evol S l0 l -> is_put kf x l l' -> img b x ->
    (forall b', S b' -> kb b' = kb b -> img b' x) ->
    evol (fun b' => b' = b \/ S b') l0 l'.
  Proof.
    intros [U L Es] Hp Hi Hc. split.
    - intros y Hy. apply Hp in Hy as [->|[Hy _]].
      + right. exists b. auto.
      + destruct (U y Hy) as [H|(b' & Hb' & Hi')]; [auto|]. right. exists b'. auto.
    - intros y Hy Hn. apply Hp. right. split.
      + apply L; [exact Hy|]. intros b' Hb'. apply Hn. auto.
      + rewrite (img_key _ _ Hi). apply Hn. auto.
    - intros b' [->|Hb'].
      + exists x. split; [apply Hp; auto | exact Hi].
      + destruct (Es b' Hb') as (y & Hy & Hiy).
        destruct (key_eqb (kf y) (kf x)) eqn:E.
        * apply key_eqb_eq in E. exists x. split; [apply Hp; auto|]. apply Hc; [exact Hb'|].
          rewrite <- (img_key _ _ Hiy), E. apply img_key. exact Hi.
        * apply key_eqb_neq in E. exists y. split; [apply Hp; auto | exact Hiy].
  Qed.

  Lemma evol_same S l0 l l' : (forall x, In x l' <-> In x l) -> evol S l0 l -> evol S l0 l'.
  Proof.
    intros E [U L Es]. split.
    - intros x Hx. apply U. apply E. exact Hx.
    - intros x Hx Hn. apply E. apply L; auto.
    - intros b Hb. destruct (Es b Hb) as (x & Hx & Hi). exists x. split; [apply E; exact Hx|exact Hi].
  Qed.
End Evol.

Definition img_eq {A} (b x : A) : Prop := x = b.
Definition img_chk (k x : chk) : Prop := chk_key x = chk_key k /\ chk_core x = chk_core k.

Lemma img_eq_key {A} (kf : A -> key) b x : img_eq b x -> kf x = kf b.
Proof. unfold img_eq. intros ->. reflexivity. Qed.
Lemma img_chk_key b x : img_chk b x -> chk_key x = chk_key b.
Proof. intros [H _]. exact H. Qed.

(* ------------------------------------------------------------------ handler state *)

Lemma do_reg_err r s : h_err s <> None -> do_reg r s = s.
Proof. unfold do_reg. destruct (h_err s); [reflexivity | contradiction]. Qed.

Lemma do_reg_ok r s :
  h_err s = None -> h_err (do_reg r s) = None -> register (h_cat s) r = Ok (h_cat (do_reg r s)).
Proof.
  unfold do_reg. intros ->. destruct (register (h_cat s) r); cbn; [reflexivity | discriminate].
Qed.

Lemma fold_sticky {A} (f : hst -> A -> hst) :
  (forall s a, h_err s <> None -> f s a = s) ->
  forall l s, h_err s <> None -> fold_left f l s = s.
Proof.
  intros Hf. induction l as [|a l IH]; intros s Hs; cbn [fold_left]; [reflexivity|].
  rewrite Hf by exact Hs. apply IH. exact Hs.
Qed.

Lemma fold_err_none {A} (f : hst -> A -> hst) :
  (forall s a, h_err s <> None -> f s a = s) ->
  forall l s, h_err (fold_left f l s) = None -> h_err s = None.
Proof.
  intros Hf l s H. destruct (h_err s) eqn:E; [|reflexivity].
  rewrite (fold_sticky f Hf) in H by congruence. congruence.
Qed.

(* ------------------------------------------------------------------ what CheckServiceNodes returned *)

Lemma find_last_some {A} (f : A -> bool) l x : find_last f l = Some x -> In x l /\ f x = true.
Proof. unfold find_last. intros H. apply find_some in H as [H1 H2]. apply in_rev in H1. auto. Qed.

Lemma find_last_none {A} (f : A -> bool) l : find_last f l = None -> forall x, In x l -> f x = false.
Proof. unfold find_last. intros H x Hx. eapply find_none; [exact H|]. apply in_rev in Hx. exact Hx. Qed.

Lemma in_checks_for c p n sid k :
  In k (checks_for c p n sid) <-> In k (chks c) /\ c_peer k = p /\ c_node k = n /\ c_sid k = sid.
Proof.
  unfold checks_for. rewrite filter_In, !andb_true_iff, !seqb_eq. tauto.
Qed.

Record stored_ok (c : cat) (p sn : string) (i : inst) : Prop := {
  so_svc : In (i_svc i) (svcs c);
  so_peer : s_peer (i_svc i) = p;
  so_name : s_name (i_svc i) = sn;
  so_node : In (i_node i) (nodes c) /\ n_peer (i_node i) = p /\ n_name (i_node i) = s_node (i_svc i);
  so_chks : forall k, In k (i_chks i) <->
                      In k (chks c) /\ c_peer k = p /\ c_node k = s_node (i_svc i)
                      /\ (c_sid k = "" \/ c_sid k = s_id (i_svc i)) }.

Lemma csn_of_ok c p sn : forall l stored,
  (forall y, In y l -> In y (svcs c) /\ s_peer y = p /\ s_name y = sn) ->
  csn_of c p l = Ok stored -> forall i, In i stored -> stored_ok c p sn i.
Proof.
  induction l as [|y l IH]; intros stored Hl H i Hi; cbn [csn_of] in H.
  - injection H as <-. contradiction.
  - destruct (get_node c p (s_node y)) as [nd|] eqn:G; [|discriminate].
    destruct (csn_of c p l) as [rest|e] eqn:R; cbn [bind] in H; [|discriminate].
    injection H as <-. destruct Hi as [<-|Hi].
    + destruct (Hl y (or_introl eq_refl)) as (Y1 & Y2 & Y3).
      apply get_node_in in G as (G1 & G2 & G3).
      split; cbn [i_svc i_node i_chks]; auto.
      intros k. rewrite in_app_iff, !in_checks_for. intuition.
    + eapply IH; eauto. intros z Hz. apply Hl. right. exact Hz.
Qed.

Lemma stored_all_ok c p sn stored :
  check_service_nodes c p sn = Ok stored -> forall i, In i stored -> stored_ok c p sn i.
Proof.
  unfold check_service_nodes. apply csn_of_ok. intros y Hy. apply filter_In in Hy as [Hy H].
  apply andb_true_iff in H as [H1 H2]. apply seqb_eq in H1, H2. auto.
Qed.

Lemma stored_complete c p sn stored :
  check_service_nodes c p sn = Ok stored ->
  forall y, In y (svcs c) -> s_peer y = p -> s_name y = sn -> exists i, In i stored /\ i_svc i = y.
Proof.
  unfold check_service_nodes. intros H y Hy Hp Hn.
  assert (Hm : map i_svc stored = filter (fun s => seqb (s_peer s) p && seqb (s_name s) sn) (svcs c)).
  { revert stored H. generalize (filter (fun s => seqb (s_peer s) p && seqb (s_name s) sn) (svcs c)).
    induction l as [|z l IH]; intros stored H; cbn [csn_of] in H.
    - injection H as <-. reflexivity.
    - destruct (get_node c p (s_node z)); [|discriminate].
      destruct (csn_of c p l) as [rest|e] eqn:R; cbn [bind] in H; [|discriminate].
      injection H as <-. cbn. f_equal. apply IH. reflexivity. }
  assert (Hin : In y (map i_svc stored)).
  { rewrite Hm. apply filter_In. split; [exact Hy|]. rewrite Hp, Hn, !seqb_refl. reflexivity. }
  apply in_map_iff in Hin as (i & E & Hi). eauto.
Qed.

Section Stored.
  Variables (c : cat) (p sn : string) (stored : list inst).
  Hypothesis Hst : forall i, In i stored -> stored_ok c p sn i.

  Lemma stored_node_in n x : stored_node stored n = Some x -> In x (nodes c) /\ n_peer x = p /\ n_name x = n.
  Proof.
    unfold stored_node. destruct (find_last _ stored) as [i|] eqn:F; cbn; [|discriminate].
    intros E; injection E as <-. apply find_last_some in F as [Hi Hf]. apply seqb_eq in Hf.
    destruct (Hst i Hi) as [_ _ _ (A & B & _) _]. auto.
  Qed.

  Lemma stored_svc_in n sid x :
    stored_svc stored n sid = Some x -> In x (svcs c) /\ s_peer x = p /\ s_node x = n /\ s_id x = sid.
  Proof.
    unfold stored_svc. destruct (find_last _ stored) as [i|] eqn:F; cbn; [|discriminate].
    intros E; injection E as <-. apply find_last_some in F as [Hi Hf].
    apply andb_true_iff in Hf as [H1 H2]. apply seqb_eq in H1, H2.
    destruct (Hst i Hi) as [A B _ (_ & _ & D) _]. repeat split; auto. congruence.
  Qed.

  Lemma stored_chk_in n sid cid x :
    stored_chk stored n sid cid = Some x -> In x (chks c) /\ c_peer x = p /\ c_node x = n /\ c_id x = cid.
  Proof.
    unfold stored_chk. intros F. apply find_last_some in F as [Hx Hf]. apply seqb_eq in Hf.
    apply in_flat_map in Hx as (i & Hi & Hx).
    destruct (seqb (n_name (i_node i)) n && seqb (s_id (i_svc i)) sid) eqn:E; [|contradiction].
    apply andb_true_iff in E as [E1 E2]. apply seqb_eq in E1, E2.
    destruct (Hst i Hi) as [_ _ _ (_ & _ & D) K]. apply K in Hx as (K1 & K2 & K3 & _).
    repeat split; auto. congruence.
  Qed.
End Stored.

(* ------------------------------------------------------------------ the snapshot structure *)

Record hs_wf (p : string) (hs : hsnap) : Prop := {
  hw_names : NoDup (map (fun x => n_name (ns_node x)) hs);
  hw_node_peer : forall x, In x hs -> n_peer (ns_node x) = p;
  hw_sids : forall x, In x hs -> NoDup (map (fun y => s_id (ss_svc y)) (ns_svcs x));
  hw_svc : forall x y, In x hs -> In y (ns_svcs x) ->
                       s_peer (ss_svc y) = p /\ s_node (ss_svc y) = n_name (ns_node x);
  hw_cids : forall x y, In x hs -> In y (ns_svcs x) -> NoDup (map c_id (ss_chks y));
  hw_chk_peer : forall x y k, In x hs -> In y (ns_svcs x) -> In k (ss_chks y) -> c_peer k = p }.

(* coherence of the checks of one snapshot (what a catalog can produce) *)
Record hs_chk_coh (hs : hsnap) : Prop := {
  hc_node : forall x y k, In x hs -> In y (ns_svcs x) -> In k (ss_chks y) -> c_node k = n_name (ns_node x);
  hc_status : forall x y k, In x hs -> In y (ns_svcs x) -> In k (ss_chks y) -> c_status k <> 0%N;
  (* a check id names one check on a node *)
  hc_same : forall x y y' k k', In x hs -> In y (ns_svcs x) -> In y' (ns_svcs x) ->
                                In k (ss_chks y) -> In k' (ss_chks y') -> c_id k = c_id k' -> k = k' }.

Lemma svc_set_node_id s : svc_set_node (s_node s) s = s.
Proof. destruct s; reflexivity. Qed.

Lemma chk_norm_core k : c_status k <> 0%N -> chk_norm k = k.
Proof. unfold chk_norm. intros H. destruct (N.eqb (c_status k) 0) eqn:E; [apply N.eqb_eq in E; contradiction | reflexivity]. Qed.

(* ------------------------------------------------------------------ phase 1 *)

Section P1.
  Variables (sh : shuffles) (p sn : string) (c0 : cat) (stored : list inst) (hs : hsnap).
  Hypothesis sh_ok : shuffles_ok sh.
  Hypothesis wf0 : wf c0.
  Hypothesis Hst : forall i, In i stored -> stored_ok c0 p sn i.
  Hypothesis Hhs : hs_wf p hs.
  Hypothesis Hcoh : hs_chk_coh hs.
  (* node IDs: no stored node of the peer and no other snapshot node holds the ID of a
     snapshot node under another name *)
  Hypothesis Hid0 : forall x b, In x hs -> In b (nodes c0) -> n_peer b = p ->
                                n_id b = n_id (ns_node x) -> n_id (ns_node x) <> "" -> n_name b = n_name (ns_node x).
  Hypothesis Hid1 : forall x x', In x hs -> In x' hs -> n_id (ns_node x') = n_id (ns_node x) ->
                                 n_id (ns_node x) <> "" -> n_name (ns_node x') = n_name (ns_node x).

  Definition Sn (D : nsnap -> Prop) (b : node) : Prop := exists x, D x /\ b = ns_node x.
  Definition Ss (D : nsnap -> Prop) (b : svc) : Prop := exists x y, D x /\ In y (ns_svcs x) /\ b = ss_svc y.
  Definition Sk (D : nsnap -> Prop) (k : chk) : Prop := exists x y, D x /\ In y (ns_svcs x) /\ In k (ss_chks y).

  Record inv1 (D : nsnap -> Prop) (c : cat) : Prop := {
    i1_wf : wf c;
    i1_n : evol node_key node_key img_eq (Sn D) (nodes c0) (nodes c);
    i1_s : evol svc_key svc_key img_eq (Ss D) (svcs c0) (svcs c);
    i1_k : evol chk_key chk_key img_chk (Sk D) (chks c0) (chks c) }.

  Lemma inv1_init : inv1 (fun _ => False) c0.
  Proof.
    split; [exact wf0| | |].
    - eapply evol_ext; [|apply evol_init]. intros b. split; [intros [] | intros (x & [] & _)].
    - eapply evol_ext; [|apply evol_init]. intros b. split; [intros [] | intros (x & y & [] & _)].
    - eapply evol_ext; [|apply evol_init]. intros b. split; [intros [] | intros (x & y & [] & _)].
  Qed.

  (* processed nodes are snapshot nodes other than x *)
  Definition Dok (D : nsnap -> Prop) (x : nsnap) : Prop :=
    forall d, D d -> In d hs /\ n_name (ns_node d) <> n_name (ns_node x).

  Section Block.
    Variables (D : nsnap -> Prop) (x : nsnap).
    Hypothesis Hx : In x hs.
    Hypothesis HD : Dok D x.
    Let nd := ns_node x.
    Let n := n_name (ns_node x).

    Lemma nd_peer : n_peer nd = p.
    Proof. apply (hw_node_peer p hs Hhs). exact Hx. Qed.

    (* rows of the store before that sit at node n of the peer are still there *)
    Lemma fresh_node c b : inv1 D c -> In b (nodes c0) -> n_peer b = p -> n_name b = n -> In b (nodes c).
    Proof.
      intros I Hb Hp Hn. apply (ev_lo _ _ _ _ _ _ (i1_n D c I)); [exact Hb|].
      intros b' (d & Hd & ->) E. destruct (HD d Hd) as [_ Hne]. apply Hne.
      unfold node_key in E. injection E as _ E. subst n. congruence.
    Qed.

    Lemma fresh_svc c b : inv1 D c -> In b (svcs c0) -> s_peer b = p -> s_node b = n -> In b (svcs c).
    Proof.
      intros I Hb Hp Hn. apply (ev_lo _ _ _ _ _ _ (i1_s D c I)); [exact Hb|].
      intros b' (d & y & Hd & Hy & ->) E. destruct (HD d Hd) as [Hdin Hne]. apply Hne.
      destruct (hw_svc p hs Hhs d y Hdin Hy) as [_ Hsn].
      unfold svc_key in E. injection E as _ E _. subst n. congruence.
    Qed.

    Lemma fresh_chk c b : inv1 D c -> In b (chks c0) -> c_peer b = p -> c_node b = n -> In b (chks c).
    Proof.
      intros I Hb Hp Hn. apply (ev_lo _ _ _ _ _ _ (i1_k D c I)); [exact Hb|].
      intros b' (d & y & Hd & Hy & Hk) E. destruct (HD d Hd) as [Hdin Hne]. apply Hne.
      rewrite <- (hc_node hs Hcoh d y b' Hdin Hy Hk).
      unfold chk_key in E. injection E as _ E _. subst n. congruence.
    Qed.

    Lemma no_rename_nd c : inv1 D c -> no_rename c nd.
    Proof.
      intros I b Hb Hp Hi Hne. destruct (ev_up _ _ _ _ _ _ (i1_n D c I) b Hb) as [H0|(b' & (d & Hd & ->) & ->)].
      - apply (Hid0 x b Hx H0); auto. rewrite Hp. apply nd_peer.
      - destruct (HD d Hd) as [Hdin _]. apply (Hid1 x d Hx Hdin); auto.
    Qed.

    (* --- step 1: the node --- *)
    Definition Sn1 (b : node) : Prop := b = nd \/ Sn D b.

    Record inv_a (c : cat) : Prop := {
      ia_wf : wf c;
      ia_n : evol node_key node_key img_eq Sn1 (nodes c0) (nodes c);
      ia_s : evol svc_key svc_key img_eq (Ss D) (svcs c0) (svcs c);
      ia_k : evol chk_key chk_key img_chk (Sk D) (chks c0) (chks c) }.

    Lemma Sn_fresh b : Sn D b -> node_key b = node_key nd -> img_eq b nd.
    Proof.
      intros (d & Hd & ->) E. destruct (HD d Hd) as [_ Hne]. exfalso. apply Hne.
      unfold node_key in E. injection E as _ E. exact E.
    Qed.

    Lemma step_node s :
      inv1 D (h_cat s) -> h_err s = None ->
      let s1 := if node_changed stored nd then do_reg (Reg nd None []) s else s in
      h_err s1 = None -> inv_a (h_cat s1).
    Proof.
      intros I He s1 He1. subst s1. destruct (node_changed stored nd) eqn:Ch.
      - pose proof (do_reg_ok _ _ He He1) as R. set (c1 := h_cat (do_reg (Reg nd None []) s)) in *.
        unfold register in R. destruct (reg_peers_ok (Reg nd None [])); cbn [negb] in R; [|discriminate].
        cbn [r_node r_svc r_chks] in R.
        destruct (reg_node (h_cat s) nd) as [c'|e] eqn:R1; cbn [bind reg_svc ensure_checks] in R; [|discriminate].
        injection R as <-.
        destruct (reg_node_spec _ _ _ (i1_wf D _ I) (no_rename_nd _ I) R1) as (W & S1 & K1 & _ & P1).
        split; [exact W| | |].
        + eapply (evol_put node_key node_key img_eq (img_eq_key node_key)); [apply (i1_n D _ I) | exact P1 | reflexivity|].
          intros b' Hb' E. apply Sn_fresh; assumption.
        + rewrite S1. apply (i1_s D _ I).
        + rewrite K1. apply (i1_k D _ I).
      - (* unchanged: the stored node row is the snapshot's *)
        unfold node_changed in Ch. destruct (stored_node stored (n_name nd)) as [b|] eqn:Sb; [|discriminate].
        apply negb_false_iff, node_eqb_eq in Ch. subst b.
        destruct (stored_node_in c0 p sn stored Hst _ _ Sb) as (B1 & B2 & B3).
        assert (Hin : In nd (nodes (h_cat s))) by (apply fresh_node; auto).
        split; [apply (i1_wf D _ I)| | apply (i1_s D _ I) | apply (i1_k D _ I)].
        eapply (evol_put node_key node_key img_eq (img_eq_key node_key)); [apply (i1_n D _ I) | | reflexivity|].
        * apply is_put_same; [apply (i1_wf D _ I) | exact Hin].
        * intros b' Hb' E. apply Sn_fresh; assumption.
    Qed.

    Lemma reg_node_noop c : wf c -> In nd (nodes c) -> reg_node c nd = Ok c.
    Proof.
      intros W Hin. unfold reg_node. rewrite (in_get_node c nd W Hin), node_eqb_refl. reflexivity.
    Qed.

    Lemma sn1_in c : evol node_key node_key img_eq Sn1 (nodes c0) (nodes c) -> In nd (nodes c).
    Proof. intros E. destruct (ev_es _ _ _ _ _ _ E nd (or_introl eq_refl)) as (b & Hb & ->). exact Hb. Qed.

    (* --- step 2: the services --- *)
    Definition Ss2 (done : list ssnap) (b : svc) : Prop := (exists y, In y done /\ b = ss_svc y) \/ Ss D b.

    Record inv_b (done : list ssnap) (c : cat) : Prop := {
      ib_wf : wf c;
      ib_n : evol node_key node_key img_eq Sn1 (nodes c0) (nodes c);
      ib_s : evol svc_key svc_key img_eq (Ss2 done) (svcs c0) (svcs c);
      ib_k : evol chk_key chk_key img_chk (Sk D) (chks c0) (chks c) }.

    Lemma Ss2_fresh done y b :
      In y (ns_svcs x) -> (forall y', In y' done -> In y' (ns_svcs x) /\ s_id (ss_svc y') <> s_id (ss_svc y)) ->
      Ss2 done b -> svc_key b = svc_key (ss_svc y) -> img_eq b (ss_svc y).
    Proof.
      intros Hy Hdone [(y' & Hy' & ->)|(d & y' & Hd & Hy' & ->)] E.
      - destruct (Hdone y' Hy') as [_ Hne]. exfalso. apply Hne. unfold svc_key in E. injection E as _ _ E. exact E.
      - destruct (HD d Hd) as [Hdin Hne]. exfalso. apply Hne.
        destruct (hw_svc p hs Hhs d y' Hdin Hy') as [_ A]. destruct (hw_svc p hs Hhs x y Hx Hy) as [_ B].
        unfold svc_key in E. injection E as _ E _. congruence.
    Qed.

    Lemma step_svc done y s :
      In y (ns_svcs x) -> (forall y', In y' done -> In y' (ns_svcs x) /\ s_id (ss_svc y') <> s_id (ss_svc y)) ->
      inv_b done (h_cat s) -> h_err s = None ->
      let s1 := if svc_changed stored nd (ss_svc y) then do_reg (Reg nd (Some (ss_svc y)) []) s else s in
      h_err s1 = None -> inv_b (y :: done) (h_cat s1).
    Proof.
      intros Hy Hdone I He s1 He1. subst s1.
      destruct (hw_svc p hs Hhs x y Hx Hy) as [Sp Snode].
      assert (Hext : forall b, (b = ss_svc y \/ Ss2 done b) <-> Ss2 (y :: done) b).
      { intros b. unfold Ss2. cbn [In]. split.
        - intros [->|[(y' & H1 & H2)|H]]; [left; exists y; auto | left; exists y'; auto | right; exact H].
        - intros [(y' & [<-|H1] & H2)|H]; [left; exact H2 | right; left; exists y'; auto | right; right; exact H]. }
      destruct (svc_changed stored nd (ss_svc y)) eqn:Ch.
      - pose proof (do_reg_ok _ _ He He1) as R. set (c1 := h_cat (do_reg _ s)) in *.
        unfold register in R. destruct (reg_peers_ok _); cbn [negb] in R; [|discriminate].
        cbn [r_node r_svc r_chks] in R.
        rewrite (reg_node_noop _ (ib_wf _ _ I) (sn1_in _ (ib_n _ _ I))) in R. cbn [bind] in R.
        destruct (reg_svc (h_cat s) nd (Some (ss_svc y))) as [c'|e] eqn:R2; cbn [bind ensure_checks] in R; [|discriminate].
        injection R as <-.
        pose proof (reg_svc_spec _ _ _ _ (ib_wf _ _ I) R2) as Spec.
        rewrite Sp, nd_peer in Spec. specialize (Spec eq_refl). cbn zeta in Spec.
        assert (Eset : svc_set_node (n_name nd) (ss_svc y) = ss_svc y).
        { change (n_name nd) with (n_name (ns_node x)). rewrite <- Snode. apply svc_set_node_id. }
        rewrite Eset in Spec. destruct Spec as (W & N1 & K1 & P1).
        split; [exact W| rewrite N1; apply (ib_n _ _ I) | | rewrite K1; apply (ib_k _ _ I)].
        eapply evol_ext; [exact Hext|].
        eapply (evol_put svc_key svc_key img_eq (img_eq_key svc_key)); [apply (ib_s _ _ I) | exact P1 | reflexivity|].
        intros b' Hb' E. eapply Ss2_fresh; eauto.
      - unfold svc_changed in Ch. destruct (stored_svc stored (n_name nd) (s_id (ss_svc y))) as [b|] eqn:Sb; [|discriminate].
        apply negb_false_iff, svc_is_same_eq in Ch. subst b.
        destruct (stored_svc_in c0 p sn stored Hst _ _ _ Sb) as (B1 & B2 & B3 & B4).
        assert (Hin : In (ss_svc y) (svcs (h_cat s))).
        { apply (ev_lo _ _ _ _ _ _ (ib_s _ _ I)); [exact B1|].
          intros b' Hb' E. symmetry in E. pose proof (Ss2_fresh done y b' Hy Hdone Hb' E) as F.
          (* the processed item with that key would be this very service: it is not processed yet *)
          unfold img_eq in F. destruct Hb' as [(y' & Hy' & ->)|(d & y' & Hd & Hy' & ->)].
          - destruct (Hdone y' Hy') as [_ Hne]. apply Hne. congruence.
          - destruct (HD d Hd) as [Hdin Hne]. apply Hne.
            destruct (hw_svc p hs Hhs d y' Hdin Hy') as [_ A]. congruence. }
        split; [apply (ib_wf _ _ I) | apply (ib_n _ _ I) | | apply (ib_k _ _ I)].
        eapply evol_ext; [exact Hext|].
        eapply (evol_put svc_key svc_key img_eq (img_eq_key svc_key)); [apply (ib_s _ _ I) | | reflexivity|].
        + apply is_put_same; [apply (ib_wf _ _ I) | exact Hin].
        + intros b' Hb' E. eapply Ss2_fresh; eauto.
    Qed.

    Definition svc_step (s : hst) (y : ssnap) : hst :=
      if svc_changed stored nd (ss_svc y) then do_reg (Reg nd (Some (ss_svc y)) []) s else s.

    Lemma svc_step_sticky s y : h_err s <> None -> svc_step s y = s.
    Proof. intros H. unfold svc_step. destruct (svc_changed _ _ _); [apply do_reg_err; exact H | reflexivity]. Qed.

    Lemma steps_svc : forall l done s,
      (forall y, In y l -> In y (ns_svcs x)) -> NoDup (map (fun y => s_id (ss_svc y)) l) ->
      (forall y', In y' done -> In y' (ns_svcs x) /\ forall y, In y l -> s_id (ss_svc y') <> s_id (ss_svc y)) ->
      inv_b done (h_cat s) -> h_err s = None -> h_err (fold_left svc_step l s) = None ->
      inv_b (rev l ++ done) (h_cat (fold_left svc_step l s)).
    Proof.
      induction l as [|y l IH]; intros done s Hl Hnd Hdone I He Hf; cbn [fold_left rev app] in *; [exact I|].
      inversion Hnd as [|? ? Hnin Hnd']; subst.
      assert (He1 : h_err (svc_step s y) = None).
      { eapply fold_err_none; [|exact Hf]. intros; apply svc_step_sticky; assumption. }
      rewrite <- app_assoc. cbn [app]. apply IH; auto.
      - intros y' Hy'. apply Hl. right. exact Hy'.
      - intros y' [<-|Hy'].
        + split; [apply Hl; left; reflexivity|]. intros y2 Hy2 E. apply Hnin.
          apply in_map_iff. exists y2. split; [symmetry; exact E | exact Hy2].
        + destruct (Hdone y' Hy') as [A B]. split; [exact A|]. intros y2 Hy2. apply B. right. exact Hy2.
      - apply step_svc; auto.
        + apply Hl. left. reflexivity.
        + intros y' Hy'. destruct (Hdone y' Hy') as [A B]. split; [exact A|]. apply B. left. reflexivity.
    Qed.

    (* --- step 3: the checks --- *)
    Definition all_chks : list chk := flat_map ss_chks (ns_svcs x).
    Definition Sk3 (done : list chk) (k : chk) : Prop := In k done \/ Sk D k.

    Record inv_c (done : list chk) (c : cat) : Prop := {
      ic_wf : wf c;
      ic_n : evol node_key node_key img_eq Sn1 (nodes c0) (nodes c);
      ic_s : evol svc_key svc_key img_eq (Ss2 (ns_svcs x)) (svcs c0) (svcs c);
      ic_k : evol chk_key chk_key img_chk (Sk3 done) (chks c0) (chks c) }.

    Lemma all_chks_in k : In k all_chks <-> exists y, In y (ns_svcs x) /\ In k (ss_chks y).
    Proof. unfold all_chks. rewrite in_flat_map. reflexivity. Qed.

    Lemma all_chks_node k : In k all_chks -> c_peer k = p /\ c_node k = n /\ c_status k <> 0%N.
    Proof.
      intros H. apply all_chks_in in H as (y & Hy & Hk). split; [|split].
      - eapply (hw_chk_peer p hs Hhs); eauto.
      - eapply (hc_node hs Hcoh); eauto.
      - eapply (hc_status hs Hcoh); eauto.
    Qed.

    Lemma all_chks_same k k' : In k all_chks -> In k' all_chks -> chk_key k' = chk_key k -> k' = k.
    Proof.
      intros H H' E. apply all_chks_in in H as (y & Hy & Hk). apply all_chks_in in H' as (y' & Hy' & Hk').
      eapply (hc_same hs Hcoh x y' y); eauto. unfold chk_key in E. injection E as _ _ E. exact E.
    Qed.

    Lemma Sk3_fresh done k b x' :
      (forall k', In k' done -> In k' all_chks) -> In k all_chks ->
      Sk3 done b -> chk_key b = chk_key k -> img_chk k x' -> img_chk b x'.
    Proof.
      intros Hdone Hk [Hb|(d & y & Hd & Hy & Hb)] E Hi.
      - rewrite (all_chks_same k b Hk (Hdone b Hb) E). exact Hi.
      - destruct (HD d Hd) as [Hdin Hne]. exfalso. apply Hne.
        rewrite <- (hc_node hs Hcoh d y b Hdin Hy Hb).
        destruct (all_chks_node k Hk) as (_ & Hn & _). unfold chk_key in E. injection E as _ E _.
        subst n. congruence.
    Qed.

    Lemma steps_chk : forall ks done c c',
      (forall k, In k ks -> In k all_chks) -> (forall k, In k done -> In k all_chks) ->
      inv_c done c -> ensure_checks c n ks = Ok c' -> inv_c (rev ks ++ done) c'.
    Proof.
      induction ks as [|k ks IH]; intros done c c' Hks Hdone I H; cbn [ensure_checks rev app] in *.
      - injection H as <-. exact I.
      - destruct (negb (seqb (c_node k) n)); [discriminate|].
        destruct (ensure_check c k) as [c1|e] eqn:E1; cbn [bind] in H; [|discriminate].
        destruct (ensure_check_spec _ _ _ (ic_wf _ _ I) E1) as (k2 & Kk & Kc & W & N1 & S1 & _ & P1 & _).
        assert (Hk : In k all_chks) by (apply Hks; left; reflexivity).
        destruct (all_chks_node k Hk) as (_ & _ & Hs).
        assert (Hi : img_chk k k2) by (split; [exact Kk | rewrite Kc, (chk_norm_core k Hs); reflexivity]).
        rewrite <- app_assoc. cbn [app]. apply (IH (k :: done) c1 c').
        + intros k' Hk'. apply Hks. right. exact Hk'.
        + intros k' [<-|Hk']; [exact Hk | apply Hdone; exact Hk'].
        + split; [exact W | rewrite N1; apply (ic_n _ _ I) | rewrite S1; apply (ic_s _ _ I) |].
          eapply evol_ext; [|eapply (evol_put chk_key chk_key img_chk img_chk_key);
                              [apply (ic_k _ _ I) | exact P1 | exact Hi |]].
          * intros b. unfold Sk3. cbn [In]. intuition.
          * intros b' Hb' E. eapply Sk3_fresh; eauto.
        + exact H.
    Qed.

    (* a check the handler did not send is the stored row itself *)
    Lemma add_present done c k :
      (forall k', In k' done -> In k' all_chks) -> In k all_chks ->
      In k (chks c0) -> inv_c done c -> inv_c (k :: done) c.
    Proof.
      intros Hdone Hk Hk0 I.
      destruct (existsb (fun k' => key_eqb (chk_key k') (chk_key k)) done) eqn:E.
      - apply existsb_exists in E as (k' & Hk' & E). apply key_eqb_eq in E.
        pose proof (all_chks_same k k' Hk (Hdone k' Hk') E) as ->.
        destruct I as [W N1 S1 K1]. split; auto. eapply evol_ext; [|exact K1].
        intros b. unfold Sk3. cbn [In]. intuition. subst. auto.
      - rewrite existsb_false_iff in E.
        destruct (all_chks_node k Hk) as (Hp & Hn & _).
        assert (Hin : In k (chks c)).
        { apply (ev_lo _ _ _ _ _ _ (ic_k _ _ I)); [exact Hk0|].
          intros b' [Hb'|(d & y & Hd & Hy & Hb')] E'.
          - specialize (E b' Hb'). apply key_eqb_neq in E. congruence.
          - destruct (HD d Hd) as [Hdin Hne]. apply Hne.
            rewrite <- (hc_node hs Hcoh d y b' Hdin Hy Hb').
            unfold chk_key in E'. injection E' as _ E' _. subst n. congruence. }
        destruct I as [W N1 S1 K1]. split; auto.
        eapply evol_ext; [|eapply (evol_put chk_key chk_key img_chk img_chk_key);
                            [exact K1 | apply is_put_same; [apply W | exact Hin] | split; reflexivity |]].
        + intros b. unfold Sk3. cbn [In]. intuition.
        + intros b' Hb' E'. eapply Sk3_fresh; eauto. split; reflexivity.
    Qed.

    Definition sent : list chk :=
      sh_chks sh (flat_map (fun y => filter (chk_changed stored nd (ss_svc y)) (ss_chks y)) (ns_svcs x)).

    Lemma sent_all k : In k sent -> In k all_chks.
    Proof.
      unfold sent. intros H. destruct sh_ok as (_ & _ & Hc & _).
      apply (Permutation_in _ (Hc _)) in H. apply in_flat_map in H as (y & Hy & Hk).
      apply filter_In in Hk as [Hk _]. apply all_chks_in. eauto.
    Qed.

    Lemma sent_or_stored k : In k all_chks -> In k sent \/ In k (chks c0).
    Proof.
      intros H. apply all_chks_in in H as (y & Hy & Hk).
      destruct (chk_changed stored nd (ss_svc y) k) eqn:Ch.
      - left. unfold sent. destruct sh_ok as (_ & _ & Hc & _).
        apply (Permutation_in _ (Permutation_sym (Hc _))). apply in_flat_map. exists y. split; [exact Hy|].
        apply filter_In. auto.
      - right. unfold chk_changed in Ch.
        destruct (stored_chk stored (n_name nd) (s_id (ss_svc y)) (c_id k)) as [b|] eqn:Sb; [|discriminate].
        apply negb_false_iff, chk_eqb_eq in Ch. subst b.
        destruct (stored_chk_in c0 p sn stored Hst _ _ _ _ Sb) as (B1 & _). exact B1.
    Qed.

    Lemma add_rest : forall l done c,
      (forall k, In k l -> In k all_chks) -> (forall k, In k done -> In k all_chks) ->
      (forall k, In k l -> In k done \/ In k (chks c0)) ->
      inv_c done c -> inv_c (rev l ++ done) c.
    Proof.
      induction l as [|k l IH]; intros done c Hl Hdone Hcase I; cbn [rev app]; [exact I|].
      rewrite <- app_assoc. cbn [app]. apply IH.
      - intros k' Hk'. apply Hl. right. exact Hk'.
      - intros k' [<-|Hk']; [apply Hl; left; reflexivity | apply Hdone; exact Hk'].
      - intros k' Hk'. destruct (Hcase k' (or_intror Hk')) as [H|H]; [left; right; exact H | right; exact H].
      - destruct (Hcase k (or_introl eq_refl)) as [H|H].
        + destruct I as [W N1 S1 K1]. split; auto. eapply evol_ext; [|exact K1].
          intros b. unfold Sk3. cbn [In]. intuition. subst. auto.
        + apply add_present; auto. apply Hl. left. reflexivity.
    Qed.

    (* --- the whole block --- *)
    Definition D' (d : nsnap) : Prop := d = x \/ D d.

    Lemma node_block_sticky s : h_err s <> None -> node_block sh stored x s = s.
    Proof.
      intros H. unfold node_block.
      assert (H1 : (if node_changed stored (ns_node x) then do_reg (Reg (ns_node x) None []) s else s) = s).
      { destruct (node_changed _ _); [apply do_reg_err; exact H | reflexivity]. }
      rewrite H1.
      assert (H2 : fold_left (fun s0 y => if svc_changed stored (ns_node x) (ss_svc y)
                                          then do_reg (Reg (ns_node x) (Some (ss_svc y)) []) s0 else s0)
                             (sh_svcs sh (ns_svcs x)) s = s).
      { apply fold_sticky; [|exact H]. intros s0 y H0. destruct (svc_changed _ _ _); [apply do_reg_err; exact H0|reflexivity]. }
      rewrite H2. destruct (sh_chks sh _); [reflexivity | apply do_reg_err; exact H].
    Qed.

    Lemma block_spec s :
      inv1 D (h_cat s) -> h_err s = None -> h_err (node_block sh stored x s) = None ->
      inv1 D' (h_cat (node_block sh stored x s)).
    Proof.
      intros I He Hf. unfold node_block in *. fold nd in Hf |- *.
      set (s1 := if node_changed stored nd then do_reg (Reg nd None []) s else s) in *.
      change (fun s0 y => if svc_changed stored nd (ss_svc y) then do_reg (Reg nd (Some (ss_svc y)) []) s0 else s0)
        with svc_step in *.
      set (s2 := fold_left svc_step (sh_svcs sh (ns_svcs x)) s1) in *.
      fold sent in Hf |- *.
      assert (He2 : h_err s2 = None).
      { destruct sent; [exact Hf|]. destruct (h_err s2) eqn:E; [|reflexivity].
        rewrite do_reg_err in Hf by congruence. congruence. }
      assert (He1 : h_err s1 = None).
      { eapply fold_err_none; [|exact He2]. intros; apply svc_step_sticky; assumption. }
      pose proof (step_node s I He He1) as Ia. fold s1 in Ia.
      destruct sh_ok as (_ & Hsv & _).
      assert (Ib0 : inv_b [] (h_cat s1)).
      { destruct Ia as [W N1 S1 K1]. split; auto. eapply evol_ext; [|exact S1].
        intros b. unfold Ss2. cbn [In]. split; [auto|]. intros [(y & [] & _)|H]; exact H. }
      assert (Ib : inv_b (rev (sh_svcs sh (ns_svcs x)) ++ []) (h_cat s2)).
      { apply steps_svc; auto.
        - intros y Hy. apply (Permutation_in _ (Hsv _)). exact Hy.
        - eapply Permutation_NoDup; [apply Permutation_map, Permutation_sym, Hsv|].
          apply (hw_sids p hs Hhs x Hx).
        - intros y' []. }
      assert (Ic0 : inv_c [] (h_cat s2)).
      { destruct Ib as [W N1 S1 K1]. split; auto.
        - eapply evol_ext; [|exact S1]. intros b. unfold Ss2. rewrite app_nil_r.
          split; intros [(y & Hy & E)|H]; auto; left; exists y; split; auto.
          + apply in_rev in Hy. apply (Permutation_in _ (Hsv _)). exact Hy.
          + rewrite <- in_rev. apply (Permutation_in _ (Permutation_sym (Hsv _))). exact Hy.
        - eapply evol_ext; [|exact K1]. intros b. unfold Sk3. cbn [In]. tauto. }
      (* the registration of the changed checks *)
      assert (Ic1 : inv_c (rev sent ++ [])
                          (h_cat (match sent with [] => s2 | _ :: _ => do_reg (Reg nd None sent) s2 end))).
      { destruct sent as [|k0 ks0] eqn:Es; [exact Ic0|]. rewrite <- Es in *.
        pose proof (do_reg_ok _ _ He2 Hf) as R. set (c3 := h_cat (do_reg _ s2)) in *.
        unfold register in R. destruct (reg_peers_ok _); cbn [negb] in R; [|discriminate].
        cbn [r_node r_svc r_chks] in R.
        rewrite (reg_node_noop _ (ic_wf _ _ Ic0) (sn1_in _ (ic_n _ _ Ic0))) in R. cbn [bind reg_svc] in R.
        eapply steps_chk; [| |exact Ic0|exact R].
        - apply sent_all.
        - intros k []. }
      set (s3 := match sent with [] => s2 | _ :: _ => do_reg (Reg nd None sent) s2 end) in *.
      assert (Ic2 : inv_c (rev all_chks ++ (rev sent ++ [])) (h_cat s3)).
      { apply add_rest; auto.
        - intros k Hk. rewrite app_nil_r in Hk. apply in_rev in Hk. apply sent_all. exact Hk.
        - intros k Hk. destruct (sent_or_stored k Hk) as [H|H]; [left|right; exact H].
          rewrite app_nil_r. rewrite <- in_rev. exact H. }
      destruct Ic2 as [W N1 S1 K1]. split; [exact W| | |].
      - eapply evol_ext; [|exact N1]. intros b. unfold Sn1, Sn, D'. split.
        + intros [->|(d & Hd & ->)]; [exists x; auto | exists d; auto].
        + intros (d & [->|Hd] & ->); [left; reflexivity | right; exists d; auto].
      - eapply evol_ext; [|exact S1]. intros b. unfold Ss2, Ss, D'. split.
        + intros [(y & Hy & ->)|(d & y & Hd & Hy & ->)]; [exists x, y; auto | exists d, y; auto].
        + intros (d & y & [->|Hd] & Hy & ->); [left; exists y; auto | right; exists d, y; auto].
      - eapply evol_ext; [|exact K1]. intros b. unfold Sk3, Sk, D'. rewrite app_nil_r, in_app_iff. split.
        + intros [[H|H]|(d & y & Hd & Hy & Hb)].
          * apply in_rev in H. apply all_chks_in in H as (y & Hy & Hb). exists x, y. auto.
          * apply in_rev in H. apply sent_all, all_chks_in in H as (y & Hy & Hb). exists x, y. auto.
          * exists d, y. auto.
        + intros (d & y & [->|Hd] & Hy & Hb).
          * left. left. rewrite <- in_rev. apply all_chks_in. eauto.
          * right. exists d, y. auto.
    Qed.
  End Block.

  Lemma inv1_ext (D1 D2 : nsnap -> Prop) c : (forall d, D1 d <-> D2 d) -> inv1 D1 c -> inv1 D2 c.
  Proof.
    intros E [W N1 S1 K1]. split; [exact W| | |].
    - eapply evol_ext; [|exact N1]. intros b. unfold Sn. split; intros (d & Hd & F); exists d; split; auto; apply E; exact Hd.
    - eapply evol_ext; [|exact S1]. intros b. unfold Ss. split; intros (d & y & Hd & F); exists d, y; split; auto; apply E; exact Hd.
    - eapply evol_ext; [|exact K1]. intros b. unfold Sk. split; intros (d & y & Hd & F); exists d, y; split; auto; apply E; exact Hd.
  Qed.

  (* --- the loop over the snapshot's nodes --- *)
  Lemma blocks_spec : forall l (D : nsnap -> Prop) s,
    (forall x, In x l -> In x hs) -> NoDup (map (fun x => n_name (ns_node x)) l) ->
    (forall d, D d -> In d hs /\ forall x, In x l -> n_name (ns_node d) <> n_name (ns_node x)) ->
    inv1 D (h_cat s) -> h_err s = None ->
    h_err (fold_left (fun s x => node_block sh stored x s) l s) = None ->
    inv1 (fun d => In d l \/ D d) (h_cat (fold_left (fun s x => node_block sh stored x s) l s)).
  Proof.
    induction l as [|x l IH]; intros D s Hl Hnd HD I He Hf; cbn [fold_left] in *.
    - eapply inv1_ext; [|exact I]. intros d. cbn [In]. tauto.
    - inversion Hnd as [|? ? Hnin Hnd']; subst.
      assert (Hx : In x hs) by (apply Hl; left; reflexivity).
      assert (HDx : Dok D x).
      { intros d Hd. destruct (HD d Hd) as [A B]. split; [exact A|]. apply B. left. reflexivity. }
      assert (He1 : h_err (node_block sh stored x s) = None).
      { eapply fold_err_none; [|exact Hf]. intros; apply node_block_sticky; assumption. }
      pose proof (block_spec D x Hx HDx s I He He1) as I1.
      specialize (IH (D' D x) (node_block sh stored x s)).
      assert (Hgoal : inv1 (fun d => In d l \/ D' D x d)
                           (h_cat (fold_left (fun s x => node_block sh stored x s) l (node_block sh stored x s)))).
      { apply IH; auto.
        - intros x' Hx'. apply Hl. right. exact Hx'.
        - intros d [->|Hd].
          + split; [exact Hx|]. intros x' Hx' E. apply Hnin. apply in_map_iff. exists x'. auto.
          + destruct (HD d Hd) as [A B]. split; [exact A|]. intros x' Hx'. apply B. right. exact Hx'. }
      eapply inv1_ext; [|exact Hgoal]. intros d. unfold D'. cbn [In]. intuition.
  Qed.

  (* after the loop over snap.Nodes: every table is the old one with the snapshot's rows put *)
  Theorem phase1_spec s :
    h_cat s = c0 -> h_err s = None ->
    let s1 := fold_left (fun s x => node_block sh stored x s) (sh_nodes sh hs) s in
    h_err s1 = None -> inv1 (fun d => In d hs) (h_cat s1).
  Proof.
    intros Hc He s1 Hf. subst s1. destruct sh_ok as (Hn & _).
    assert (I0 : inv1 (fun _ => False) (h_cat s)) by (rewrite Hc; apply inv1_init).
    pose proof (blocks_spec (sh_nodes sh hs) (fun _ => False) s) as B.
    assert (Bres : inv1 (fun d => In d (sh_nodes sh hs) \/ False)
                        (h_cat (fold_left (fun s x => node_block sh stored x s) (sh_nodes sh hs) s))).
    { apply B; auto.
      - intros x Hx. apply (Permutation_in _ (Hn _)). exact Hx.
      - eapply Permutation_NoDup; [apply Permutation_map, Permutation_sym, Hn|]. apply (hw_names p hs Hhs).
      - intros d []. }
    eapply inv1_ext; [|exact Bres]. intros d. split.
    - intros [Hd|[]]. apply (Permutation_in _ (Hn _)). exact Hd.
    - intros Hd. left. apply (Permutation_in _ (Permutation_sym (Hn _))). exact Hd.
  Qed.
End P1.
